/-
  Proofs.LineFloats — C12 at LINE level: float columns on the emitted BYTES, given what strconv and
  encoding/json answer.

  C12: "Numbers rendered as text or JSON numbers read back exactly: … every finite float64 / float32 …
  rendered by ToString / ToNumber … and read back through cast.To of the same type is bit-identical;
  … non-finite floats never produce a number that marshals."

  Shortest-digit formatting and correctly rounded parsing are strconv's, the spelling of a Go float
  in JSON is encoding/json's: they are the parameter `Ext` (`fmtFloat`, `parseFloat`, `jsonFloat`).
  What is proved here is jsonline's part, carried through `jlLine` (importer `GetRow`, exporter
  `CreateRow`, `row.MarshalJSON`) over the regenerated cast tables, in the manner of Proofs.LineInts
  (whose generic one-column lemmas are reused): WHICH questions are asked (`strconv.ParseFloat(lit, 64 |
  32)`, the `float32(·)` narrowing, `strconv.FormatFloat(float64(v), 'f', -1, 64 | 32)`, json.Marshal
  of the typed float), and what the line becomes for each answer.

  A float is its bit pattern (`Nat`): `.f64 bits` / `.f32 bits`.  `T : FT` is float64 | float32,
  `T.bits` the bit size handed to strconv, `T.narrow r` the conversion of ParseFloat's float64 result
  to `T`, `T.widen v` the float64 handed to FormatFloat.

  0.  cell facts about `genTables`: `castTo_float_carrier`, `toNumber_float`, `toString_float`,
      `import_float`, `newValue_float`, `marshal_float` (= `marshalSpec`)
  1.  one column `k` on both sides, the line's only member being `k`:
        `float_line` (= `lineSpec`), `float_line_written`, `float_line_export_rejected`,
        `float_line_import_rejected`, `float_line_unanswered`    every answer of `ext`, any two formats
        `numeric_line`, `numeric_line_accepted`                                  target 1, first pass
        `float_line_second_pass`, `numeric_line_fixed_point`, `numeric_line_fixed_point_law`,
        `numeric_float64_fixed_point`, `numeric_float32_fixed_point`             target 1, second pass
  2.  `string_line`, `string_line_fixed_point`, `auto_line`, `auto_line_second_pass`       target 2
  3.  `numeric_line_not_a_number`, `auto_line_marshal_refused`, `nonfinite_line_rejected`,
      `nonfinite_never_written`, `nonfinite_string_written`                                target 3
  4.  `float_line_import_rejected`, `numeric_line_out_of_range`, `auto_line_out_of_range`  target 4
  5.  `emitted_line_floats_pointwise`, `emitted_line_floats_numeric`, `unparsed_not_accepted` target 5
  6.  `Demo`: an `Ext` answering for "1.5" / 0x3FF8000000000000; `{"x":1.5}` ↦ `{"x":1.5}\n`, the
      second pass, `{"x":1e400}` rejected, a NaN refused, float32, a two-column line.      target 6

  "Rejected" is the outcome `.ok ([], some e)` of `jlLine`: the error reported for the line, nothing
  to write.  The input line is given by what the reader delivers for it
  (`Json.unmarshal line = (.cons k (.num lit) .nil, true)`: any spelling of the one-member object).
-/
import Proofs.LineInts

namespace Jl.LineFloats
open Jl Jl.Value Jl.Template Jl.Cast Jl.CastTyped
open Jl.JsonQuote (sanitize)
open Jl.JsonWrite (isValidNumber quote)
open Jl.JsonPrint (treeDyn treeVal treeMembers treeExported numText FloatTextOK)
open Jl.LineTime (objText lastVal)
open Jl.LineInts (IsCarrier IsCarrierJV rejClass AcceptedWith)

set_option linter.unusedSimpArgs false

/-! ### The two float types -/

/-- float64 | float32 -/
inductive FT
  | f64
  | f32
  deriving DecidableEq, Repr

namespace FT

/-- The raw type of the column. -/
def ty : FT → Ty
  | .f64 => .f64
  | .f32 => .f32

/-- The bit size handed to `strconv.ParseFloat` / `strconv.FormatFloat`. -/
def bits : FT → Nat
  | .f64 => 64
  | .f32 => 32

/-- The IEEE format of the bit patterns. -/
def fmt : FT → Float.Fmt
  | .f64 => Float.f64
  | .f32 => Float.f32

/-- The Go value of type `T` with bit pattern `v`. -/
def dyn : FT → Nat → Dyn
  | .f64, v => .f64 v
  | .f32, v => .f32 v

/-- What the caster makes of the float64 `strconv.ParseFloat` returned: itself, or `float32(·)`. -/
def narrow : FT → Nat → Nat
  | .f64, r => r
  | .f32, r => Float.f64to32 r

/-- The float64 handed to `strconv.FormatFloat`: the value itself, or `float64(·)` of a float32. -/
def widen : FT → Nat → Nat
  | .f64, v => v
  | .f32, v => Float.f32to64 v

end FT

/-- The law assumed of strconv (`Props/C12.FloatLaw`, restated here because Props/ is not imported;
    the fields are the same, `⟨law.rt64, law.rt32⟩` converts): the shortest rendering parses back to
    the same value at the same bit size. -/
structure FloatLaw (ext : Ext) : Prop where
  rt64 : ∀ b, Float.isFinite Float.f64 b = true →
    ∃ s, ext.fmtFloat b 64 = some s ∧ ext.parseFloat s 64 = some (some b)
  rt32 : ∀ b, Float.isFinite Float.f32 b = true →
    ∃ s, ext.fmtFloat (Float.f32to64 b) 32 = some s ∧
      ∃ r, ext.parseFloat s 32 = some (some r) ∧ Float.f64to32 r = b

/-- The law in one form for both types. -/
theorem FloatLaw.rt {ext : Ext} (law : FloatLaw ext) (T : FT) (v : Nat)
    (hv : Float.isFinite T.fmt v = true) :
    ∃ s, ext.fmtFloat (T.widen v) T.bits = some s ∧
      ∃ r, ext.parseFloat s T.bits = some (some r) ∧ T.narrow r = v := by
  cases T
  · obtain ⟨s, hf, hp⟩ := law.rt64 v hv
    exact ⟨s, hf, v, hp, rfl⟩
  · exact law.rt32 v hv

/-! ### 0. Cell-level facts about the regenerated tables -/

theorem castTo_float_nil (ext : Ext) (T : FT) : castTo genTables ext T.ty .nil = .ok .nil := by
  cases T <;>
    simp [FT.ty, castTo, callNamed, genTables, Gen.casters, Gen.dispatchTo, findClause, typeOf,
      evalBranch, evalE]

/-- `cast.To(T, x)` of an `x` that already is a `T`. -/
theorem castTo_float_self (ext : Ext) (T : FT) (v : Nat) :
    castTo genTables ext T.ty (T.dyn v) = .ok (T.dyn v) := by
  cases T <;>
    simp [FT.ty, FT.dyn, castTo, callNamed, genTables, Gen.casters, Gen.dispatchTo, findClause,
      typeOf, evalBranch, evalE]

/-- What `cast.To(T, ·)` makes of each answer of `strconv.ParseFloat(lit, bits of T)`. -/
def parsedAs (ext : Ext) (T : FT) (lit : Bytes) : Outcome Dyn :=
  match ext.parseFloat lit T.bits with
  | none => .err .ext
  | some none => .err .cast
  | some (some r) => .ok (T.dyn (T.narrow r))

theorem castTo_float_num (ext : Ext) (T : FT) (lit : Bytes) :
    castTo genTables ext T.ty (.num lit) = parsedAs ext T lit := by
  unfold parsedAs
  cases T <;> simp only [FT.bits] <;> split <;> rename_i h <;>
    simp [FT.ty, FT.dyn, FT.narrow, castTo, callNamed, genTables, Gen.casters, Gen.dispatchTo,
      Gen.sentinels, findClause, typeOf, evalBranch, evalE, runParse, failWith, wrapsRoot, h]

theorem castTo_float_str (ext : Ext) (T : FT) (lit : Bytes) :
    castTo genTables ext T.ty (.str lit) = parsedAs ext T lit := by
  unfold parsedAs
  cases T <;> simp only [FT.bits] <;> split <;> rename_i h <;>
    simp [FT.ty, FT.dyn, FT.narrow, castTo, callNamed, genTables, Gen.casters, Gen.dispatchTo,
      Gen.sentinels, findClause, typeOf, evalBranch, evalE, runParse, failWith, wrapsRoot, h]

/-- The json.Number of a number literal and the string of the same text are cast alike:
    `ToFloat64(json.Number)` is `ToFloat64(string(·))`, which is
    `strconv.ParseFloat(text, 64)` (`32`, then `float32(·)`, for float32). -/
theorem castTo_float_carrier (ext : Ext) (T : FT) {x : Dyn} {lit : Bytes} (hx : IsCarrier x lit) :
    castTo genTables ext T.ty x = parsedAs ext T lit := by
  rcases hx with rfl | rfl
  · exact castTo_float_num ext T lit
  · exact castTo_float_str ext T lit

/-- `ToNumber` of a float: the json.Number of `strconv.FormatFloat(float64(v), 'f', -1, bits of T)` —
    no test of finiteness. -/
theorem toNumber_float (ext : Ext) (T : FT) (v : Nat) :
    castNamed genTables ext "ToNumber" (T.dyn v) =
      match ext.fmtFloat (T.widen v) T.bits with
      | some s => .ok (.num s)
      | none => .err .ext := by
  cases T <;> simp only [FT.bits, FT.widen] <;> split <;> rename_i h <;>
    simp [FT.dyn, castNamed, callNamed, genTables, Gen.casters, findClause, typeOf, evalBranch,
      evalE, h]

/-- `ToString` of a float: the same rendering, as a string. -/
theorem toString_float (ext : Ext) (T : FT) (v : Nat) :
    castNamed genTables ext "ToString" (T.dyn v) =
      match ext.fmtFloat (T.widen v) T.bits with
      | some s => .ok (.str s)
      | none => .err .ext := by
  cases T <;> simp only [FT.bits, FT.widen] <;> split <;> rename_i h <;>
    simp [FT.dyn, castNamed, callNamed, genTables, Gen.casters, findClause, typeOf, evalBranch,
      evalE, h]

/-! #### The cell steps for a float column -/

/-- The formats of the targets. -/
def FloatFmt (f : Format) : Prop := f = .numeric ∨ f = .string ∨ f = .auto

theorem floatFmt_visible {f : Format} (hf : FloatFmt f) : f ≠ .hidden := by
  rcases hf with rfl | rfl | rfl <;> decide

theorem dyn_ne_nil (T : FT) (v : Nat) : T.dyn v ≠ .nil := by cases T <;> simp [FT.dyn]

theorem ty_ne_none (T : FT) : T.ty ≠ .none := by cases T <;> simp [FT.ty]

/-- `Import` of a number literal (or of the string of its text) into a float column, for each answer
    of `strconv.ParseFloat`: no answer — the model abstains; an error — the cell is emptied and the
    error is the line's (`ErrUnsupportedImport` wrapping it, the cast error itself under Auto);
    a value — the cell holds the Go float. -/
def importSpec (ext : Ext) (T : FT) (f : Format) (lit : Bytes) : Outcome (Val × Option ErrClass) :=
  match ext.parseFloat lit T.bits with
  | none => .err .ext
  | some none => .ok (.cell .nil f T.ty, some (rejClass f))
  | some (some r) => .ok (.cell (T.dyn (T.narrow r)) f T.ty, none)

theorem import_float (ext : Ext) {f : Format} (hf : FloatFmt f) (T : FT) {x : Dyn} {lit : Bytes}
    (hx : IsCarrier x lit) :
    importCell ⟨genTables, ext⟩ f T.ty x = importSpec ext T f lit := by
  have hc := castTo_float_carrier ext T hx
  unfold parsedAs at hc
  unfold importSpec
  have hty := ty_ne_none T
  split <;> rename_i h <;> rw [h] at hc <;>
    rcases hf with rfl | rfl | rfl <;> rcases hx with rfl | rfl <;>
    cases T <;>
    simp [FT.ty] at hc hty ⊢ <;>
    simp [importCell, importByFormat, importFrom, importFail, hc, rejClass]

theorem newValue_float (ext : Ext) (f : Format) (T : FT) (v : Nat) :
    newValue ⟨genTables, ext⟩ (T.dyn v) f T.ty = .ok (.cell (T.dyn v) f T.ty) := by
  simp [newValue, castTo_float_self ext T v]

/-- `Export` of a cell holding the Go float `v`. -/
theorem export_float (ext : Ext) (T : FT) (v : Nat) (ty : Ty) :
    exportVal ⟨genTables, ext⟩ (.cell (T.dyn v) .numeric ty) =
      (match ext.fmtFloat (T.widen v) T.bits with
       | some s => .ok (.num s)
       | none => .err .ext) ∧
    exportVal ⟨genTables, ext⟩ (.cell (T.dyn v) .string ty) =
      (match ext.fmtFloat (T.widen v) T.bits with
       | some s => .ok (.str s)
       | none => .err .ext) ∧
    exportVal ⟨genTables, ext⟩ (.cell (T.dyn v) .auto ty) = .ok (T.dyn v) := by
  refine ⟨?_, ?_, ?_⟩
  · have h := toNumber_float ext T v
    cases T <;> simp only [FT.dyn] at h ⊢ <;> simp only [exportVal, h] <;> split <;> rfl
  · have h := toString_float ext T v
    cases T <;> simp only [FT.dyn] at h ⊢ <;> simp only [exportVal, h] <;> split <;> rfl
  · cases T <;> simp [FT.dyn, exportVal]

/-- json.Marshal of a json.Number: `0` for the empty one, the literal when it is a valid number, an
    error otherwise. -/
def numberText (s : Bytes) : Outcome Bytes :=
  if s.isEmpty then .ok [0x30] else if isValidNumber s then .ok s else .err .marshal

/-- json.Marshal of the Go float itself. -/
def jsonText (ext : Ext) (T : FT) (v : Nat) : Outcome Bytes :=
  match ext.jsonFloat v T.bits with
  | some (some s) => .ok s
  | some none => .err .marshal
  | none => .err .ext

/-- `MarshalJSON` of the cell, format by format, for each answer of `ext`:
    numeric — `ToNumber`, i.e. the json.Number of `strconv.FormatFloat(float64(v), 'f', -1, bits)`,
      which json.Marshal validates;
    string — `ToString`, the same rendering between quotes;
    auto — json.Marshal of the Go float. -/
def marshalSpec (ext : Ext) (T : FT) (v : Nat) (f : Format) : Outcome Bytes :=
  match f with
  | .numeric =>
    (match ext.fmtFloat (T.widen v) T.bits with
     | some s => numberText s
     | none => .err .ext)
  | .string =>
    (match ext.fmtFloat (T.widen v) T.bits with
     | some s => .ok (quote s)
     | none => .err .ext)
  | _ => jsonText ext T v

theorem marshal_float (ext : Ext) {f : Format} (hf : FloatFmt f) (T : FT) (v : Nat) (ty : Ty) :
    RowPrint.marshalVal ⟨genTables, ext⟩ (.cell (T.dyn v) f ty) = marshalSpec ext T v f := by
  obtain ⟨h1, h2, h3⟩ := export_float ext T v ty
  rcases hf with rfl | rfl | rfl
  · simp only [marshalSpec]
    split at h1 <;> rename_i hs
    · rw [LineInts.marshal_of_export _ _ _ _ _ h1, RowPrint.marshalExported.eq_def]
      rfl
    · rw [LineInts.marshal_of_export_err _ _ _ _ _ h1]
  · simp only [marshalSpec]
    split at h2 <;> rename_i hs
    · rw [LineInts.marshal_of_export _ _ _ _ _ h2, RowPrint.marshalExported.eq_def]
    · rw [LineInts.marshal_of_export_err _ _ _ _ _ h2]
  · rw [LineInts.marshal_of_export _ _ _ _ _ h3, RowPrint.marshalExported.eq_def]
    cases T <;> simp only [FT.dyn, marshalSpec, jsonText, FT.bits] <;>
      (rw [RowPrint.marshalDyn.eq_def]; rfl)

theorem marshalSpec_no_panic (ext : Ext) (T : FT) (v : Nat) (f : Format) (p : String) :
    marshalSpec ext T v f ≠ .panic p := by
  unfold marshalSpec numberText jsonText
  intro h
  repeat' split at h
  all_goals cases h

/-! ### 1. One float column `k` on both sides: the line for every answer of `ext`

  `ti = withCol [] k fi T`, `to = withCol [] k fo T`, `fi`, `fo` among numeric / string / auto (the
  task's cases are `fi = fo`); the input line's only member is `k`, carrying the text `lit` as a
  number literal or as a string (`IsCarrierJV`). -/

/-- `GetRow` when `Import` of the one member abstains (an answer of `ext` is missing). -/
theorem jlLine_col_import_ext (ext : Ext) (k : Bytes) (fi fo : Format) {tyi tyo : Ty}
    (hi : castTo genTables ext tyi .nil = .ok .nil)
    (line : Bytes) (jv : JV) (x : Dyn)
    (hline : Json.unmarshal line = (.cons k jv .nil, true))
    (hjv : ofJV ⟨genTables, ext⟩ jv = .ok x)
    (himp : importCell ⟨genTables, ext⟩ fi tyi x = .err .ext) :
    jlLine ⟨genTables, ext⟩ (withCol [] k fi tyi) (withCol [] k fo tyo) line = .err .ext := by
  simp [LineTime.withCol_nil, jlLine, getRow, createRowEmpty, LineInts.cloneRow_col ext k fi hi,
    unmarshalInto, hline, ofJVMembers, hjv, parseMembers, parseMember, lookup, OMap.lookup, importVal,
    importInto, himp]

/-- …and when `MarshalJSON` of the cell abstains. -/
theorem jlLine_col_export_ext (ext : Ext) (k : Bytes) (fi fo : Format) {tyi tyo : Ty}
    (hi : castTo genTables ext tyi .nil = .ok .nil) (ho : castTo genTables ext tyo .nil = .ok .nil)
    (line : Bytes) (jv : JV) (x : Dyn) (c c' : Val)
    (hline : Json.unmarshal line = (.cons k jv .nil, true))
    (hjv : ofJV ⟨genTables, ext⟩ jv = .ok x)
    (himp : importCell ⟨genTables, ext⟩ fi tyi x = .ok (c, none))
    (hnew : newValue ⟨genTables, ext⟩ (Cells.raw c) fo tyo = .ok c')
    (hvis : Cells.format c' ≠ .hidden)
    (hm : RowPrint.marshalVal ⟨genTables, ext⟩ c' = .err .ext) :
    jlLine ⟨genTables, ext⟩ (withCol [] k fi tyi) (withCol [] k fo tyo) line = .err .ext := by
  simp only [LineTime.withCol_nil, jlLine, LineInts.getRow_col ext k fi hi line jv x c hline hjv himp,
    exportLine, LineInts.createRow_col ext k fo ho c c' hnew,
    LineInts.marshalRow_col_err _ k c' .ext hvis hm]

/-- The outcome of the line as a function of the answers of `ext`:
    * `strconv.ParseFloat(lit, bits of T)` not supplied — the model abstains;
    * an error (syntax, or out of range: `1e400` at 64 bits, `1e39` at 32) — the line is REJECTED by
      the importer, nothing is written;
    * a value `r` — the column holds `T(r)`, and what `MarshalJSON` makes of it (`marshalSpec`) is
      written, or its error is the line's. -/
def lineSpec (ext : Ext) (T : FT) (k : Bytes) (fi fo : Format) (lit : Bytes) :
    Outcome (Bytes × Option ErrClass) :=
  match ext.parseFloat lit T.bits with
  | none => .err .ext
  | some none => .ok ([], some (rejClass fi))
  | some (some r) =>
    match marshalSpec ext T (T.narrow r) fo with
    | .ok txt => .ok (objText k txt ++ [0x0A], none)
    | .err .ext => .err .ext
    | .err e => .ok ([], some e)
    | .panic s => .panic s

/-- **The line, for every `ext`.** -/
theorem float_line (ext : Ext) (k : Bytes) {fi fo : Format} (hfi : FloatFmt fi) (hfo : FloatFmt fo)
    (T : FT) (lit : Bytes) (line : Bytes) (jv : JV)
    (hline : Json.unmarshal line = (.cons k jv .nil, true)) (hjv : IsCarrierJV jv lit) :
    jlLine ⟨genTables, ext⟩ (withCol [] k fi T.ty) (withCol [] k fo T.ty) line =
      lineSpec ext T k fi fo lit := by
  obtain ⟨x, hx, hc⟩ := LineInts.ofJV_carrier ⟨genTables, ext⟩ hjv
  have himp := import_float ext hfi T hc
  have hnil := castTo_float_nil ext T
  unfold importSpec at himp
  unfold lineSpec
  split <;> rename_i hp <;> rw [hp] at himp <;> simp only at himp
  · exact jlLine_col_import_ext ext k fi fo hnil line jv x hline hx himp
  · exact LineInts.jlLine_col_import_rej ext k fi fo hnil line jv x _ _ hline hx himp
  · rename_i r
    have hnew := newValue_float ext fo T (T.narrow r)
    have hvis : Cells.format (Val.cell (T.dyn (T.narrow r)) fo T.ty) ≠ .hidden := by
      simpa [Cells.format] using floatFmt_visible hfo
    have hm := marshal_float ext hfo T (T.narrow r) T.ty
    split <;> rename_i hs <;> rw [hs] at hm
    · exact LineInts.jlLine_col ext k fi fo hnil hnil line jv x _ _ _ hline hx himp hnew hvis hm
    · exact jlLine_col_export_ext ext k fi fo hnil hnil line jv x _ _ hline hx himp hnew hvis hm
    · rename_i e he
      exact LineInts.jlLine_col_export_rej ext k fi fo hnil hnil line jv x _ _ e hline hx himp hnew
        hvis (fun h => he (by rw [h])) hm
    · exact absurd hs (marshalSpec_no_panic ext T _ fo _)

/-- **Accepted, and the bytes**: `ParseFloat` answered the value `r` and `MarshalJSON` of the cell
    holding `T(r)` gives `txt`: what is written is exactly `{"k":txt}` and a newline. -/
theorem float_line_written (ext : Ext) (k : Bytes) {fi fo : Format} (hfi : FloatFmt fi)
    (hfo : FloatFmt fo) (T : FT) (lit : Bytes) (r : Nat) (txt : Bytes) (line : Bytes) (jv : JV)
    (hline : Json.unmarshal line = (.cons k jv .nil, true)) (hjv : IsCarrierJV jv lit)
    (hp : ext.parseFloat lit T.bits = some (some r))
    (hm : marshalSpec ext T (T.narrow r) fo = .ok txt) :
    jlLine ⟨genTables, ext⟩ (withCol [] k fi T.ty) (withCol [] k fo T.ty) line =
      .ok (objText k txt ++ [0x0A], none) := by
  rw [float_line ext k hfi hfo T lit line jv hline hjv]
  simp only [lineSpec, hp, hm]

/-- **Rejected by the exporter**: the value was imported, `MarshalJSON` of the cell fails with `e`
    (json.Marshal refuses): nothing is written. -/
theorem float_line_export_rejected (ext : Ext) (k : Bytes) {fi fo : Format} (hfi : FloatFmt fi)
    (hfo : FloatFmt fo) (T : FT) (lit : Bytes) (r : Nat) (e : ErrClass) (line : Bytes) (jv : JV)
    (hline : Json.unmarshal line = (.cons k jv .nil, true)) (hjv : IsCarrierJV jv lit)
    (hp : ext.parseFloat lit T.bits = some (some r))
    (hm : marshalSpec ext T (T.narrow r) fo = .err e) (he : e ≠ .ext) :
    jlLine ⟨genTables, ext⟩ (withCol [] k fi T.ty) (withCol [] k fo T.ty) line =
      .ok ([], some e) := by
  rw [float_line ext k hfi hfo T lit line jv hline hjv]
  simp only [lineSpec, hp, hm]

/-- **Target 4 — rejected by the importer, nothing written, no wrapped or saturated value**: the
    answer of `strconv.ParseFloat(lit, bits of T)` is an error (a syntax error, or the range error of
    `1e400` at 64 bits / `1e39` at 32 bits, for which strconv returns ±Inf AND an error: the caster
    looks at the error only).  Whatever the exporter's format. -/
theorem float_line_import_rejected (ext : Ext) (k : Bytes) {fi fo : Format} (hfi : FloatFmt fi)
    (hfo : FloatFmt fo) (T : FT) (lit : Bytes) (line : Bytes) (jv : JV)
    (hline : Json.unmarshal line = (.cons k jv .nil, true)) (hjv : IsCarrierJV jv lit)
    (hp : ext.parseFloat lit T.bits = some none) :
    jlLine ⟨genTables, ext⟩ (withCol [] k fi T.ty) (withCol [] k fo T.ty) line =
      .ok ([], some (rejClass fi)) := by
  rw [float_line ext k hfi hfo T lit line jv hline hjv]
  simp only [lineSpec, hp]

/-- A question of the model left without answer: the outcome is `.err .ext` (the model abstains; it
    is never turned into an acceptance or a rejection). -/
theorem float_line_unanswered (ext : Ext) (k : Bytes) {fi fo : Format} (hfi : FloatFmt fi)
    (hfo : FloatFmt fo) (T : FT) (lit : Bytes) (line : Bytes) (jv : JV)
    (hline : Json.unmarshal line = (.cons k jv .nil, true)) (hjv : IsCarrierJV jv lit)
    (hp : ext.parseFloat lit T.bits = none) :
    jlLine ⟨genTables, ext⟩ (withCol [] k fi T.ty) (withCol [] k fo T.ty) line = .err .ext := by
  rw [float_line ext k hfi hfo T lit line jv hline hjv]
  simp only [lineSpec, hp]

/-- The row `GetRow` delivers: the column holds the Go float `T(r)`. -/
theorem getRow_float (ext : Ext) (k : Bytes) {fi : Format} (hfi : FloatFmt fi) (T : FT)
    (lit : Bytes) (r : Nat) (line : Bytes) (jv : JV)
    (hline : Json.unmarshal line = (.cons k jv .nil, true)) (hjv : IsCarrierJV jv lit)
    (hp : ext.parseFloat lit T.bits = some (some r)) :
    getRow ⟨genTables, ext⟩ (withCol [] k fi T.ty) line =
      .ok ([(k, .cell (T.dyn (T.narrow r)) fi T.ty)], none) := by
  obtain ⟨x, hx, hc⟩ := LineInts.ofJV_carrier ⟨genTables, ext⟩ hjv
  have himp := import_float ext hfi T hc
  simp only [importSpec, hp] at himp
  exact LineInts.getRow_col ext k fi (castTo_float_nil ext T) line jv x _ hline hx himp

/-! #### What `MarshalJSON` gives, answer by answer -/

theorem marshalSpec_numeric (ext : Ext) (T : FT) (v : Nat) (out : Bytes)
    (hf : ext.fmtFloat (T.widen v) T.bits = some out) (hnum : isValidNumber out = true) :
    marshalSpec ext T v .numeric = .ok out := by
  have hne : out.isEmpty = false := by
    cases out with
    | nil => simp [isValidNumber] at hnum
    | cons _ _ => rfl
  simp [marshalSpec, hf, numberText, hne, hnum]

theorem marshalSpec_string (ext : Ext) (T : FT) (v : Nat) (out : Bytes)
    (hf : ext.fmtFloat (T.widen v) T.bits = some out) :
    marshalSpec ext T v .string = .ok (quote out) := by
  simp [marshalSpec, hf]

theorem marshalSpec_auto (ext : Ext) (T : FT) (v : Nat) (s : Bytes)
    (hj : ext.jsonFloat v T.bits = some (some s)) :
    marshalSpec ext T v .auto = .ok s := by
  simp [marshalSpec, jsonText, hj]

/-- The rendering is not a JSON number (and not empty): json.Marshal of the json.Number refuses. -/
theorem marshalSpec_numeric_invalid (ext : Ext) (T : FT) (v : Nat) (s : Bytes)
    (hf : ext.fmtFloat (T.widen v) T.bits = some s) (hne : s ≠ [])
    (hnum : isValidNumber s = false) :
    marshalSpec ext T v .numeric = .err .marshal := by
  have hne' : s.isEmpty = false := by
    cases s with
    | nil => exact absurd rfl hne
    | cons _ _ => rfl
  simp [marshalSpec, hf, numberText, hne', hnum]

theorem marshalSpec_auto_refused (ext : Ext) (T : FT) (v : Nat)
    (hj : ext.jsonFloat v T.bits = some none) :
    marshalSpec ext T v .auto = .err .marshal := by
  simp [marshalSpec, jsonText, hj]

/-! ### Target 1: numeric(T) on both sides, the input member the number literal `lit` -/

/-- What the reader delivers for the emitted one-member object with a number text. -/
theorem unmarshal_number_out {k : Bytes} (hk : sanitize k = k) {out : Bytes}
    (hnum : isValidNumber out = true) :
    Json.unmarshal (objText k out) = (.cons k (.num out) .nil, true) := by
  rw [LineTime.unmarshal_objText (JsonPrint.readsAs_number hnum), hk]

/-- **Target 1, first pass.**  Given the two answers the model asks `ext` for —
    `strconv.ParseFloat(lit, bits of T) = r` and
    `strconv.FormatFloat(float64(T(r)), 'f', -1, bits of T) = out`, a JSON number — the line is
    accepted and what is written is `{"k":out}` and a newline: the member is the number literal `out`,
    the json.Number of the shortest rendering (`ToNumber`). -/
theorem numeric_line (ext : Ext) (k : Bytes) (T : FT) (lit out : Bytes) (r : Nat) (line : Bytes)
    (hline : Json.unmarshal line = (.cons k (.num lit) .nil, true))
    (hp : ext.parseFloat lit T.bits = some (some r))
    (hf : ext.fmtFloat (T.widen (T.narrow r)) T.bits = some out)
    (hnum : isValidNumber out = true) :
    jlLine ⟨genTables, ext⟩ (withCol [] k .numeric T.ty) (withCol [] k .numeric T.ty) line =
      .ok (objText k out ++ [0x0A], none) :=
  float_line_written ext k (.inl rfl) (.inl rfl) T lit r out line _ hline (.inl rfl) hp
    (marshalSpec_numeric ext T _ out hf hnum)

/-- …in the reader's words: accepted, and whatever was written has the number literal `out` under
    `k`. -/
theorem numeric_line_accepted (ext : Ext) (k : Bytes) (hk : sanitize k = k) (T : FT)
    (lit out : Bytes) (r : Nat) (line : Bytes)
    (hline : Json.unmarshal line = (.cons k (.num lit) .nil, true))
    (hp : ext.parseFloat lit T.bits = some (some r))
    (hf : ext.fmtFloat (T.widen (T.narrow r)) T.bits = some out)
    (hnum : isValidNumber out = true) :
    AcceptedWith (jlLine ⟨genTables, ext⟩ (withCol [] k .numeric T.ty)
      (withCol [] k .numeric T.ty) line) k (.num out) :=
  LineInts.acceptedWith_of_written (numeric_line ext k T lit out r line hline hp hf hnum)
    (unmarshal_number_out hk hnum)

/-- **The second pass, any format.**  The text `txt` written for the value `v` under a column of
    format `f` is fed back to the same templates; the reader delivers for it a number literal or a
    string with text `lit'`, and `strconv.ParseFloat(lit', bits)` answers `r'` with `T(r') = v`.
    Then the second pass holds, in the column, the Go float `v` — bit for bit — and writes the same
    bytes. -/
theorem float_line_second_pass (ext : Ext) (k : Bytes) (hk : sanitize k = k) {f : Format}
    (hf : FloatFmt f) (T : FT) (v : Nat) (txt lit' : Bytes) (m : JV) (r' : Nat)
    (hm : marshalSpec ext T v f = .ok txt)
    (hread : JsonPrint.ReadsAs txt m) (hcar : IsCarrierJV m lit')
    (hback : ext.parseFloat lit' T.bits = some (some r')) (hsame : T.narrow r' = v) :
    getRow ⟨genTables, ext⟩ (withCol [] k f T.ty) (objText k txt) =
      .ok ([(k, .cell (T.dyn v) f T.ty)], none) ∧
    jlLine ⟨genTables, ext⟩ (withCol [] k f T.ty) (withCol [] k f T.ty) (objText k txt) =
      .ok (objText k txt ++ [0x0A], none) := by
  have hline : Json.unmarshal (objText k txt) = (.cons k m .nil, true) := by
    rw [LineTime.unmarshal_objText hread, hk]
  subst hsame
  exact ⟨getRow_float ext k hf T lit' r' _ m hline hcar hback,
    float_line_written ext k hf hf T lit' r' txt _ m hline hcar hback hm⟩

/-- **Target 1, second pass — a fixed point, bit-identical.**  With, beside the two answers of the
    first pass, the answer for the rendering itself — `strconv.ParseFloat(out, bits) = r'` and
    `T(r') = T(r)`, which is what the round-trip law of strconv says — the emitted line fed to the
    same templates (i) is accepted and written back byte for byte, and (ii) holds in the column,
    after `GetRow`, the Go float `T(r)`: the same bit pattern as on the first pass. -/
theorem numeric_line_fixed_point (ext : Ext) (k : Bytes) (hk : sanitize k = k) (T : FT)
    (lit out : Bytes) (r r' : Nat) (line : Bytes)
    (hline : Json.unmarshal line = (.cons k (.num lit) .nil, true))
    (hp : ext.parseFloat lit T.bits = some (some r))
    (hf : ext.fmtFloat (T.widen (T.narrow r)) T.bits = some out)
    (hnum : isValidNumber out = true)
    (hback : ext.parseFloat out T.bits = some (some r')) (hsame : T.narrow r' = T.narrow r) :
    getRow ⟨genTables, ext⟩ (withCol [] k .numeric T.ty) line =
      .ok ([(k, .cell (T.dyn (T.narrow r)) .numeric T.ty)], none) ∧
    jlLine ⟨genTables, ext⟩ (withCol [] k .numeric T.ty) (withCol [] k .numeric T.ty) line =
      .ok (objText k out ++ [0x0A], none) ∧
    getRow ⟨genTables, ext⟩ (withCol [] k .numeric T.ty) (objText k out) =
      .ok ([(k, .cell (T.dyn (T.narrow r)) .numeric T.ty)], none) ∧
    jlLine ⟨genTables, ext⟩ (withCol [] k .numeric T.ty) (withCol [] k .numeric T.ty)
      (objText k out) = .ok (objText k out ++ [0x0A], none) := by
  obtain ⟨h1, h2⟩ := float_line_second_pass ext k hk (f := .numeric) (.inl rfl) T (T.narrow r) out out
    (.num out) r' (marshalSpec_numeric ext T _ out hf hnum) (JsonPrint.readsAs_number hnum) (.inl rfl)
    hback hsame
  exact ⟨getRow_float ext k (.inl rfl) T lit r line _ hline (.inl rfl) hp,
    numeric_line ext k T lit out r line hline hp hf hnum, h1, h2⟩

/-- The shortest rendering of a FINITE value is a JSON number (strconv's verb `'f'`: an optional
    sign, digits, an optional fraction — no exponent, no `NaN` / `Inf`).  Like `FloatLaw`, a fact
    about strconv that enters as a hypothesis. -/
def FmtNumberOK (ext : Ext) : Prop :=
  ∀ (T : FT) (v : Nat) (s : Bytes), Float.isFinite T.fmt v = true →
    ext.fmtFloat (T.widen v) T.bits = some s → isValidNumber s = true

/-- **Target 1 under `FloatLaw`.**  `strconv.ParseFloat(lit, bits) = r` with `v = T(r)` FINITE; the
    law of strconv (`FloatLaw`: the rendering parses back to the value) and `FmtNumberOK` (the
    rendering of a finite value is a JSON number).  Then there is the rendering `out` of `v`, a JSON
    number; the line is accepted and `{"k":out}` + newline is written; fed back, that line is
    accepted, holds the SAME bit pattern `v` in the column, and is written back byte for byte. -/
theorem numeric_line_fixed_point_law (ext : Ext) (law : FloatLaw ext) (hnumOK : FmtNumberOK ext)
    (k : Bytes) (hk : sanitize k = k) (T : FT) (lit : Bytes) (r : Nat) (line : Bytes)
    (hline : Json.unmarshal line = (.cons k (.num lit) .nil, true))
    (hp : ext.parseFloat lit T.bits = some (some r))
    (hfin : Float.isFinite T.fmt (T.narrow r) = true) :
    ∃ out, ext.fmtFloat (T.widen (T.narrow r)) T.bits = some out ∧ isValidNumber out = true ∧
      getRow ⟨genTables, ext⟩ (withCol [] k .numeric T.ty) line =
        .ok ([(k, .cell (T.dyn (T.narrow r)) .numeric T.ty)], none) ∧
      jlLine ⟨genTables, ext⟩ (withCol [] k .numeric T.ty) (withCol [] k .numeric T.ty) line =
        .ok (objText k out ++ [0x0A], none) ∧
      getRow ⟨genTables, ext⟩ (withCol [] k .numeric T.ty) (objText k out) =
        .ok ([(k, .cell (T.dyn (T.narrow r)) .numeric T.ty)], none) ∧
      jlLine ⟨genTables, ext⟩ (withCol [] k .numeric T.ty) (withCol [] k .numeric T.ty)
        (objText k out) = .ok (objText k out ++ [0x0A], none) := by
  obtain ⟨out, hf, r', hback, hsame⟩ := law.rt T _ hfin
  have hnum := hnumOK T _ out hfin hf
  exact ⟨out, hf, hnum, numeric_line_fixed_point ext k hk T lit out r r' line hline hp hf hnum hback hsame⟩

/-- Target 1 spelled out for **float64**: the questions are `strconv.ParseFloat(lit, 64)` and
    `strconv.FormatFloat(v, 'f', -1, 64)`. -/
theorem numeric_float64_fixed_point (ext : Ext) (law : FloatLaw ext) (hnumOK : FmtNumberOK ext)
    (k : Bytes) (hk : sanitize k = k) (lit : Bytes) (v : Nat) (line : Bytes)
    (hline : Json.unmarshal line = (.cons k (.num lit) .nil, true))
    (hp : ext.parseFloat lit 64 = some (some v))
    (hfin : Float.isFinite Float.f64 v = true) :
    ∃ out, ext.fmtFloat v 64 = some out ∧ isValidNumber out = true ∧
      getRow ⟨genTables, ext⟩ (withCol [] k .numeric .f64) line =
        .ok ([(k, .cell (.f64 v) .numeric .f64)], none) ∧
      jlLine ⟨genTables, ext⟩ (withCol [] k .numeric .f64) (withCol [] k .numeric .f64) line =
        .ok (objText k out ++ [0x0A], none) ∧
      getRow ⟨genTables, ext⟩ (withCol [] k .numeric .f64) (objText k out) =
        .ok ([(k, .cell (.f64 v) .numeric .f64)], none) ∧
      jlLine ⟨genTables, ext⟩ (withCol [] k .numeric .f64) (withCol [] k .numeric .f64)
        (objText k out) = .ok (objText k out ++ [0x0A], none) :=
  numeric_line_fixed_point_law ext law hnumOK k hk .f64 lit v line hline hp hfin

/-- Target 1 spelled out for **float32**: the questions are `strconv.ParseFloat(lit, 32)` — whose
    float64 result `r` the caster narrows, `v = float32(r)` — and
    `strconv.FormatFloat(float64(v), 'f', -1, 32)`. -/
theorem numeric_float32_fixed_point (ext : Ext) (law : FloatLaw ext) (hnumOK : FmtNumberOK ext)
    (k : Bytes) (hk : sanitize k = k) (lit : Bytes) (r : Nat) (line : Bytes)
    (hline : Json.unmarshal line = (.cons k (.num lit) .nil, true))
    (hp : ext.parseFloat lit 32 = some (some r))
    (hfin : Float.isFinite Float.f32 (Float.f64to32 r) = true) :
    ∃ out, ext.fmtFloat (Float.f32to64 (Float.f64to32 r)) 32 = some out ∧
      isValidNumber out = true ∧
      getRow ⟨genTables, ext⟩ (withCol [] k .numeric .f32) line =
        .ok ([(k, .cell (.f32 (Float.f64to32 r)) .numeric .f32)], none) ∧
      jlLine ⟨genTables, ext⟩ (withCol [] k .numeric .f32) (withCol [] k .numeric .f32) line =
        .ok (objText k out ++ [0x0A], none) ∧
      getRow ⟨genTables, ext⟩ (withCol [] k .numeric .f32) (objText k out) =
        .ok ([(k, .cell (.f32 (Float.f64to32 r)) .numeric .f32)], none) ∧
      jlLine ⟨genTables, ext⟩ (withCol [] k .numeric .f32) (withCol [] k .numeric .f32)
        (objText k out) = .ok (objText k out ++ [0x0A], none) :=
  numeric_line_fixed_point_law ext law hnumOK k hk .f32 lit r line hline hp hfin

/-! ### Target 2: string(T) and auto(T) -/

/-- **string(T).**  The same two answers as under numeric(T) (no validity needed: a string is
    written whatever the text): the member written is the JSON STRING of the rendering,
    `{"k":"out"}`.  The input member may be the number literal or the string of its text. -/
theorem string_line (ext : Ext) (k : Bytes) (T : FT) (lit out : Bytes) (r : Nat) (line : Bytes)
    (jv : JV) (hline : Json.unmarshal line = (.cons k jv .nil, true)) (hjv : IsCarrierJV jv lit)
    (hp : ext.parseFloat lit T.bits = some (some r))
    (hf : ext.fmtFloat (T.widen (T.narrow r)) T.bits = some out) :
    jlLine ⟨genTables, ext⟩ (withCol [] k .string T.ty) (withCol [] k .string T.ty) line =
      .ok (objText k (quote out) ++ [0x0A], none) :=
  float_line_written ext k (.inr (.inl rfl)) (.inr (.inl rfl)) T lit r _ line jv hline hjv hp
    (marshalSpec_string ext T _ out hf)

/-- string(T), second pass: the reader delivers the string `sanitize out` (`out` itself when it is
    ASCII, as every rendering of strconv is); with the law's answer for it the line is a fixed point
    and the column holds the same bit pattern. -/
theorem string_line_fixed_point (ext : Ext) (k : Bytes) (hk : sanitize k = k) (T : FT)
    (out : Bytes) (v r' : Nat)
    (hf : ext.fmtFloat (T.widen v) T.bits = some out) (hs : sanitize out = out)
    (hback : ext.parseFloat out T.bits = some (some r')) (hsame : T.narrow r' = v) :
    getRow ⟨genTables, ext⟩ (withCol [] k .string T.ty) (objText k (quote out)) =
      .ok ([(k, .cell (T.dyn v) .string T.ty)], none) ∧
    jlLine ⟨genTables, ext⟩ (withCol [] k .string T.ty) (withCol [] k .string T.ty)
      (objText k (quote out)) = .ok (objText k (quote out) ++ [0x0A], none) := by
  have hread := JsonPrint.readsAs_quote out
  rw [hs] at hread
  exact float_line_second_pass ext k hk (f := .string) (.inr (.inl rfl)) T v _ out (.str out) r'
    (marshalSpec_string ext T v out hf) hread (.inr rfl) hback hsame

/-- **auto(T).**  `Export` hands the typed Go float to json.Marshal: what is needed from `ext` is the
    parse answer and `jsonFloat` — encoding/json's own spelling of a float64 / float32 (shortest
    digits, verb `'f'`, or `'e'` below 1e-6 and from 1e21 on, the exponent cleaned up: NOT the text
    of `ToNumber` for such values).  The member written is that text. -/
theorem auto_line (ext : Ext) (k : Bytes) (T : FT) (lit s : Bytes) (r : Nat) (line : Bytes)
    (jv : JV) (hline : Json.unmarshal line = (.cons k jv .nil, true)) (hjv : IsCarrierJV jv lit)
    (hp : ext.parseFloat lit T.bits = some (some r))
    (hj : ext.jsonFloat (T.narrow r) T.bits = some (some s)) :
    jlLine ⟨genTables, ext⟩ (withCol [] k .auto T.ty) (withCol [] k .auto T.ty) line =
      .ok (objText k s ++ [0x0A], none) :=
  float_line_written ext k (.inr (.inr rfl)) (.inr (.inr rfl)) T lit r _ line jv hline hjv hp
    (marshalSpec_auto ext T _ s hj)

/-- auto(T), second pass: json.Marshal's text is a JSON number (`FloatTextOK`, the assumption of
    Proofs.JsonPrint) and `strconv.ParseFloat` of it gives the value back (a law about
    encoding/json's spelling, NOT contained in `FloatLaw`, which speaks of `FormatFloat(…,'f',-1,…)`):
    a fixed point holding the same bit pattern. -/
theorem auto_line_second_pass (ext : Ext) (hx : FloatTextOK ext) (k : Bytes) (hk : sanitize k = k)
    (T : FT) (s : Bytes) (v r' : Nat)
    (hj : ext.jsonFloat v T.bits = some (some s))
    (hback : ext.parseFloat s T.bits = some (some r')) (hsame : T.narrow r' = v) :
    getRow ⟨genTables, ext⟩ (withCol [] k .auto T.ty) (objText k s) =
      .ok ([(k, .cell (T.dyn v) .auto T.ty)], none) ∧
    jlLine ⟨genTables, ext⟩ (withCol [] k .auto T.ty) (withCol [] k .auto T.ty) (objText k s) =
      .ok (objText k s ++ [0x0A], none) :=
  float_line_second_pass ext k hk (f := .auto) (.inr (.inr rfl)) T v s s (.num s) r'
    (marshalSpec_auto ext T v s hj) (JsonPrint.readsAs_number (hx _ _ _ hj)) (.inl rfl) hback hsame

/-! ### Target 3: non-finite values never reach a line under numeric(T) / auto(T)

  What the model does: `ToNumber` has NO test of finiteness — it returns the json.Number of whatever
  `strconv.FormatFloat` renders (`NaN`, `+Inf`, `-Inf` for the non-finite values); it is json.Marshal
  that refuses, because the json.Number is not a valid number literal.  Under auto(T) json.Marshal
  refuses the Go float itself (`UnsupportedValueError`): the answer `some none` of `ext.jsonFloat`.
  Both are `ErrClass.marshal` for the line, nothing is written.  Under string(T) nothing refuses: the
  line IS written, with the member `"NaN"` / `"+Inf"` / `"-Inf"`.

  How a non-finite value gets into a column: no JSON number literal denotes one (`1e400` is a range
  ERROR of ParseFloat), but the STRING members `"NaN"`, `"Inf"`, `"-inf"`, `"infinity"` … are accepted
  by `strconv.ParseFloat` without error.  The theorems cover both carriers. -/

/-- numeric(T) on the exporter's side, any answer that is not a JSON number (and not the empty text):
    the line is an error of class `marshal`, nothing is written. -/
theorem numeric_line_not_a_number (ext : Ext) (k : Bytes) {fi : Format} (hfi : FloatFmt fi) (T : FT)
    (lit s : Bytes) (r : Nat) (line : Bytes) (jv : JV)
    (hline : Json.unmarshal line = (.cons k jv .nil, true)) (hjv : IsCarrierJV jv lit)
    (hp : ext.parseFloat lit T.bits = some (some r))
    (hf : ext.fmtFloat (T.widen (T.narrow r)) T.bits = some s) (hne : s ≠ [])
    (hnum : isValidNumber s = false) :
    jlLine ⟨genTables, ext⟩ (withCol [] k fi T.ty) (withCol [] k .numeric T.ty) line =
      .ok ([], some .marshal) :=
  float_line_export_rejected ext k hfi (.inl rfl) T lit r .marshal line jv hline hjv hp
    (marshalSpec_numeric_invalid ext T _ s hf hne hnum) (by decide)

/-- auto(T) on the exporter's side, json.Marshal refusing the float: an error of class `marshal`,
    nothing is written. -/
theorem auto_line_marshal_refused (ext : Ext) (k : Bytes) {fi : Format} (hfi : FloatFmt fi) (T : FT)
    (lit : Bytes) (r : Nat) (line : Bytes) (jv : JV)
    (hline : Json.unmarshal line = (.cons k jv .nil, true)) (hjv : IsCarrierJV jv lit)
    (hp : ext.parseFloat lit T.bits = some (some r))
    (hj : ext.jsonFloat (T.narrow r) T.bits = some none) :
    jlLine ⟨genTables, ext⟩ (withCol [] k fi T.ty) (withCol [] k .auto T.ty) line =
      .ok ([], some .marshal) :=
  float_line_export_rejected ext k hfi (.inr (.inr rfl)) T lit r .marshal line jv hline hjv hp
    (marshalSpec_auto_refused ext T _ hj) (by decide)

/-- `NaN` -/
def nanText : Bytes := [0x4E, 0x61, 0x4E]
/-- `+Inf` -/
def pInfText : Bytes := [0x2B, 0x49, 0x6E, 0x66]
/-- `-Inf` -/
def mInfText : Bytes := [0x2D, 0x49, 0x6E, 0x66]

/-- What the standard library answers for the NON-FINITE values (NaN, ±Inf), whenever `ext` supplies
    an answer: `strconv.FormatFloat` renders `NaN` / `+Inf` / `-Inf`; json.Marshal returns an
    `UnsupportedValueError`.  The model has no way to check this part of `Ext` — `Float.isFinite` is
    used by none of the definitions a line runs through (Model.Cast, Value, RowPrint, Template; only
    by the domains of the specifications): the refusal of a non-finite value is entirely in these
    answers. -/
structure NonFiniteLaw (ext : Ext) : Prop where
  fmt : ∀ (T : FT) (v : Nat) (s : Bytes), Float.isFinite T.fmt v = false →
    ext.fmtFloat (T.widen v) T.bits = some s → s = nanText ∨ s = pInfText ∨ s = mInfText
  json : ∀ (T : FT) (v : Nat) (o : Option Bytes), Float.isFinite T.fmt v = false →
    ext.jsonFloat v T.bits = some o → o = none

theorem nonFinite_text {s : Bytes} (h : s = nanText ∨ s = pInfText ∨ s = mInfText) :
    s ≠ [] ∧ isValidNumber s = false := by
  rcases h with rfl | rfl | rfl <;> exact ⟨by decide, by decide⟩

/-- **Target 3, with the answers.**  The column holds a non-finite value (`ParseFloat` answered the
    bits `r`, `T(r)` is NaN or ±Inf), the exporter's column is numeric(T) or auto(T), and `ext` gives
    the library's answer to the question the exporter asks (`FormatFloat`, resp. json.Marshal): the
    line is REJECTED with class `marshal`, nothing is written. -/
theorem nonfinite_line_rejected (ext : Ext) (nf : NonFiniteLaw ext) (k : Bytes) {fi fo : Format}
    (hfi : FloatFmt fi) (hfo : fo = .numeric ∨ fo = .auto) (T : FT) (lit : Bytes) (r : Nat)
    (line : Bytes) (jv : JV)
    (hline : Json.unmarshal line = (.cons k jv .nil, true)) (hjv : IsCarrierJV jv lit)
    (hp : ext.parseFloat lit T.bits = some (some r))
    (hinf : Float.isFinite T.fmt (T.narrow r) = false)
    (hans : (fo = .numeric → ∃ s, ext.fmtFloat (T.widen (T.narrow r)) T.bits = some s) ∧
      (fo = .auto → ∃ o, ext.jsonFloat (T.narrow r) T.bits = some o)) :
    jlLine ⟨genTables, ext⟩ (withCol [] k fi T.ty) (withCol [] k fo T.ty) line =
      .ok ([], some .marshal) := by
  rcases hfo with rfl | rfl
  · obtain ⟨s, hs⟩ := hans.1 rfl
    obtain ⟨hne, hnum⟩ := nonFinite_text (nf.fmt T _ s hinf hs)
    exact numeric_line_not_a_number ext k hfi T lit s r line jv hline hjv hp hs hne hnum
  · obtain ⟨o, ho⟩ := hans.2 rfl
    have := nf.json T _ o hinf ho
    subst this
    exact auto_line_marshal_refused ext k hfi T lit r line jv hline hjv hp ho

/-- **Target 3, whatever `ext` leaves unanswered: a non-finite value NEVER reaches a line** under a
    numeric(T) / auto(T) column of the exporter — no outcome of the line writes bytes. -/
theorem nonfinite_never_written (ext : Ext) (nf : NonFiniteLaw ext) (k : Bytes) {fi fo : Format}
    (hfi : FloatFmt fi) (hfo : fo = .numeric ∨ fo = .auto) (T : FT) (lit : Bytes) (r : Nat)
    (line : Bytes) (jv : JV)
    (hline : Json.unmarshal line = (.cons k jv .nil, true)) (hjv : IsCarrierJV jv lit)
    (hp : ext.parseFloat lit T.bits = some (some r))
    (hinf : Float.isFinite T.fmt (T.narrow r) = false) (b : Bytes) :
    jlLine ⟨genTables, ext⟩ (withCol [] k fi T.ty) (withCol [] k fo T.ty) line ≠ .ok (b, none) := by
  have hfo' : FloatFmt fo := by
    rcases hfo with rfl | rfl
    · exact .inl rfl
    · exact .inr (.inr rfl)
  rw [float_line ext k hfi hfo' T lit line jv hline hjv]
  simp only [lineSpec, hp]
  rcases hfo with rfl | rfl
  · simp only [marshalSpec]
    cases hs : ext.fmtFloat (T.widen (T.narrow r)) T.bits with
    | none => simp
    | some s =>
      obtain ⟨hne, hnum⟩ := nonFinite_text (nf.fmt T _ s hinf hs)
      have hne' : s.isEmpty = false := by
        cases s with
        | nil => exact absurd rfl hne
        | cons _ _ => rfl
      simp [numberText, hne', hnum]
  · simp only [marshalSpec, jsonText]
    cases ho : ext.jsonFloat (T.narrow r) T.bits with
    | none => simp
    | some o =>
      have := nf.json T _ o hinf ho
      subst this
      simp

/-- …while under string(T) nothing refuses: the rendering of the non-finite value IS written, as a
    JSON string (`{"k":"NaN"}`). -/
theorem nonfinite_string_written (ext : Ext) (k : Bytes) {fi : Format} (hfi : FloatFmt fi) (T : FT)
    (lit s : Bytes) (r : Nat) (line : Bytes) (jv : JV)
    (hline : Json.unmarshal line = (.cons k jv .nil, true)) (hjv : IsCarrierJV jv lit)
    (hp : ext.parseFloat lit T.bits = some (some r))
    (_hinf : Float.isFinite T.fmt (T.narrow r) = false)
    (hf : ext.fmtFloat (T.widen (T.narrow r)) T.bits = some s) :
    jlLine ⟨genTables, ext⟩ (withCol [] k fi T.ty) (withCol [] k .string T.ty) line =
      .ok (objText k (quote s) ++ [0x0A], none) :=
  float_line_written ext k hfi (.inr (.inl rfl)) T lit r _ line jv hline hjv hp
    (marshalSpec_string ext T _ s hf)

/-! ### Target 4: rejection without wrap -/

/-- **Target 4.**  numeric(T) on both sides, the literal `lit` (`1e400` under float64, `1e39` under
    float32) for which `strconv.ParseFloat(lit, bits of T)` answers an out-of-range error: the line
    is REJECTED — `ErrUnsupportedImport`, nothing written; in particular neither ±Inf nor
    MaxFloat is.  The statement is `float_line_import_rejected` for the task's formats. -/
theorem numeric_line_out_of_range (ext : Ext) (k : Bytes) (T : FT) (lit : Bytes) (line : Bytes)
    (hline : Json.unmarshal line = (.cons k (.num lit) .nil, true))
    (hp : ext.parseFloat lit T.bits = some none) :
    jlLine ⟨genTables, ext⟩ (withCol [] k .numeric T.ty) (withCol [] k .numeric T.ty) line =
      .ok ([], some .unsupportedImport) :=
  float_line_import_rejected ext k (fi := .numeric) (.inl rfl) (.inl rfl) T lit line _ hline
    (.inl rfl) hp

/-- Under auto(T) the cast error itself is the line's. -/
theorem auto_line_out_of_range (ext : Ext) (k : Bytes) (T : FT) (lit : Bytes) (line : Bytes)
    (hline : Json.unmarshal line = (.cons k (.num lit) .nil, true))
    (hp : ext.parseFloat lit T.bits = some none) :
    jlLine ⟨genTables, ext⟩ (withCol [] k .auto T.ty) (withCol [] k .auto T.ty) line =
      .ok ([], some .cast) :=
  float_line_import_rejected ext k (fi := .auto) (.inr (.inr rfl)) (.inr (.inr rfl)) T lit line _
    hline (.inl rfl) hp

/-! ### Target 5: templates with any number of columns

  In the style of `LineInts.emitted_line_ints_pointwise`, reusing the generic lemmas of
  Proofs.LineTime / Proofs.LineLevel: the cell a column `k` holds is followed through `GetRow` (the
  LAST member of that name is the one that stays imported), `CreateRow` on the exporter side, and the
  printer.  That the line was ACCEPTED already says which answers `ext` gave for the column: they are
  part of the conclusion, not hypotheses. -/

/-- `GetRow` under a template with distinct names: a float column whose last input member carries the
    text `lit` holds afterwards the Go float `T(r)`, `r` being the answer of
    `strconv.ParseFloat(lit, bits of T)` — which was given and was not an error (otherwise the line
    would not have been accepted). -/
theorem getRow_float_cell (ext : Ext) (ti : Tmpl) (line : Bytes) (r : List (Bytes × Val))
    (hget : getRow ⟨genTables, ext⟩ ti line = .ok (r, none)) (hti : (OMap.keys ti).Nodup)
    (k : Bytes) (ci : Val) (hci : OMap.lookup ti k = some ci)
    (hf : FloatFmt (Cells.format ci)) (T : FT) (hty : Cells.rawType ci = T.ty)
    (jv : JV) (lit : Bytes) (hjv : IsCarrierJV jv lit)
    (hlast : lastVal (Json.unmarshal line).1.toList k = some jv) :
    ∃ r0, ext.parseFloat lit T.bits = some (some r0) ∧
      lookup r k = some (.cell (T.dyn (T.narrow r0)) (Cells.format ci) T.ty) := by
  obtain ⟨row0, h0, h1⟩ := Order.getRow_ok _ ti line r none hget
  obtain ⟨l, hl, hpm, _⟩ := Order.unmarshalInto_ok _ row0 r line h1
  obtain ⟨d, hd, hlv⟩ := (LineTime.lastVal_ofJVMembers _ k _ l hl).2 _ hlast
  obtain ⟨x, hx, hc⟩ := LineInts.ofJV_carrier ⟨genTables, ext⟩ hjv
  rw [hx] at hd
  cases hd
  obtain ⟨_, _, h3⟩ := LineTime.parseMembers_lookup _ k _ _ l row0 r
    (LineLevel.ofJVMembers_shape _ _ l hl) hpm (LineTime.cloneRow_desc _ ti row0 h0 hti k ci hci)
  obtain ⟨c', hi, hl'⟩ := h3 _ hlv
  rw [hty, import_float ext hf T hc] at hi
  unfold importSpec at hi
  split at hi
  · cases hi
  · simp at hi
  · rename_i r0 hp
    simp only [Outcome.ok.injEq, Prod.mk.injEq, and_true] at hi
    exact ⟨r0, hp, by rw [hl', ← hi]⟩

/-- What the reader finds under a float column of format `fo` holding the value `v`, and the answers
    of `ext` it comes from:
    numeric — `.num out`, `out` the rendering `strconv.FormatFloat(float64(v), 'f', -1, bits)`, a
      valid JSON number (or `0` for an empty rendering: `numText`);
    string — `.str out` (after the reader's `sanitize`, the identity on ASCII);
    auto — `.num s`, `s` json.Marshal's spelling of the float. -/
def Emitted (ext : Ext) (T : FT) (v : Nat) (fo : Format) (m : JV) : Prop :=
  (fo = .numeric ∧ ∃ out, ext.fmtFloat (T.widen v) T.bits = some out ∧
    (out = [] ∨ isValidNumber out = true) ∧ m = .num (numText out)) ∨
  (fo = .string ∧ ∃ out, ext.fmtFloat (T.widen v) T.bits = some out ∧ m = .str (sanitize out)) ∨
  (fo = .auto ∧ ∃ s, ext.jsonFloat v T.bits = some (some s) ∧ m = .num s)

theorem numberText_ok {s b : Bytes} (h : numberText s = .ok b) :
    (s = [] ∨ isValidNumber s = true) ∧ b = numText s := by
  unfold numberText at h
  unfold numText
  split at h
  · rename_i he
    cases s with
    | nil => cases h; exact ⟨.inl rfl, rfl⟩
    | cons _ _ => simp at he
  · rename_i he
    split at h
    · rename_i hv
      cases h
      exact ⟨.inr hv, by rw [if_neg he]⟩
    · cases h

/-- A float cell that was marshalled: the answers `ext` gave, and the tree of the cell. -/
theorem emitted_of_marshalled (ext : Ext) {f : Format} (hf : FloatFmt f) (T : FT) (v : Nat) (ty : Ty)
    (bs : Bytes) (hm : RowPrint.marshalVal ⟨genTables, ext⟩ (.cell (T.dyn v) f ty) = .ok bs) :
    Emitted ext T v f (treeVal ⟨genTables, ext⟩ (.cell (T.dyn v) f ty)) := by
  rw [marshal_float ext hf T v ty] at hm
  obtain ⟨h1, h2, h3⟩ := export_float ext T v ty
  rcases hf with rfl | rfl | rfl
  · simp only [marshalSpec] at hm
    split at hm
    · rename_i s hs
      rw [hs] at h1
      simp only at h1
      refine .inl ⟨rfl, s, hs, (numberText_ok hm).1, ?_⟩
      rw [LineLevel.treeVal_cell h1]
      rfl
    · cases hm
  · simp only [marshalSpec] at hm
    split at hm
    · rename_i s hs
      rw [hs] at h2
      simp only at h2
      refine .inr (.inl ⟨rfl, s, hs, ?_⟩)
      rw [LineLevel.treeVal_cell h2]
      rfl
    · cases hm
  · simp only [marshalSpec, jsonText] at hm
    split at hm
    · rename_i s hs
      refine .inr (.inr ⟨rfl, s, hs, ?_⟩)
      rw [LineLevel.treeVal_cell h3]
      cases T <;> simp only [FT.dyn, FT.bits] at hs ⊢ <;>
        simp only [treeExported] <;> rw [JsonPrint.treeDyn] <;> simp only [hs]
    · cases hm
    · cases hm

/-- **Target 5, pointwise.**  One ACCEPTED line through `jlLine` over the regenerated tables,
    templates with distinct column names, every `ext`.  The written bytes are an object text and a
    newline; in the object the reader delivers, for EVERY column `k` declared with a float raw type
    `T` and a format among numeric / string / auto in both templates (numeric(T) on both sides is the
    task's case) and whose input member — the last of that name, as the oracle reads the input
    (`LineSpec.normDup`) — is the number literal `lit` (or the string of that text):
    * `ext` answered `strconv.ParseFloat(lit, bits of T)` with a value `r` (not with an error);
    * the member found under the column's written name is what the exporter's format makes of the Go
      float `T(r)` with the answers of `ext` (`Emitted`): under numeric(T) the number literal of
      `strconv.FormatFloat(float64(T(r)), 'f', -1, bits)`, which is a valid JSON number —
    whatever the other columns and members are.  The separation hypothesis is that of
    `LineInts.emitted_line_ints_pointwise`; `FloatTextOK` is there for the Auto columns (this one
    included: json.Marshal's spelling has to be read back as a number). -/
theorem emitted_line_floats_pointwise (ext : Ext) (ti to : Tmpl) (line b : Bytes)
    (h : jlLine ⟨genTables, ext⟩ ti to line = .ok (b, none)) (hx : FloatTextOK ext)
    (hti : (OMap.keys ti).Nodup) (hto : (OMap.keys to).Nodup) :
    ∃ body tree, b = body ++ [0x0A] ∧ Json.unmarshal body = (tree, true) ∧
      ∀ k ci co (T : FT) lit jv, OMap.lookup ti k = some ci → OMap.lookup to k = some co →
        FloatFmt (Cells.format ci) → Cells.rawType ci = T.ty →
        FloatFmt (Cells.format co) → Cells.rawType co = T.ty →
        (∀ k' ∈ OMap.keys to ++ OMap.keys ti ++ Order.inputKeys line,
          sanitize k' = sanitize k → k' = k) →
        LineSpec.lookupJV (LineSpec.normDup (Json.unmarshal line).1) k = some jv →
        IsCarrierJV jv lit →
        ∃ r, ext.parseFloat lit T.bits = some (some r) ∧
          ∃ m, LineSpec.lookupJV tree (sanitize k) = some m ∧
            Emitted ext T (T.narrow r) (Cells.format co) m := by
  obtain ⟨r, row', body, hget, hcr, hm, hb, hu⟩ :=
    LineLevel.emitted_text ⟨genTables, ext⟩ ti to line b h hx
  refine ⟨body, _, hb, hu, ?_⟩
  intro k ci co T lit jv hci hco hfi htyi hfo htyo hsep hlast hjv
  obtain ⟨r0, hp, hr⟩ := getRow_float_cell ext ti line r hget hti k ci hci hfi T htyi jv lit hjv
    (LineInts.lastVal_of_normDup_carrier hjv hlast)
  obtain ⟨c', hnew, hl'⟩ := LineTime.createRow_cell _ to r row' hcr hto
    (Order.getRow_keys_nodup _ ti line r hget) k co _ hco hr
  simp only [Cells.raw] at hnew
  rw [htyo, newValue_float ext _ T _] at hnew
  cases hnew
  have hvis : Cells.format (Val.cell (T.dyn (T.narrow r0)) (Cells.format co) T.ty) ≠ .hidden := by
    simpa [Cells.format] using floatFmt_visible hfo
  -- the printed row was marshalled, hence this cell was
  obtain ⟨parts, hparts, _⟩ := JsonPrint.marshalRow_shape hm
  obtain ⟨bs, hbs⟩ := LineLevel.marshalMembers_mem _ row' parts hparts k _
    (LineLevel.mem_of_lookup hl') hvis
  have horigin := LineLevel.created_keys_origin _ ti to line r row' hget hcr
  have hsep' : ∀ k' ∈ RowPrint.visibleKeys row', sanitize k' = sanitize k → k' = k :=
    fun k' hk' => hsep k' (horigin k' (LineLevel.visibleKeys_subset row' k' hk'))
  exact ⟨r0, hp, _, LineTime.lookupJV_tree_of_lookup ⟨genTables, ext⟩ k _ hvis row' hsep' hl',
    emitted_of_marshalled ext hfo T _ _ bs hbs⟩

/-- **Target 5 for numeric(T) columns, with the per-column answers given** — the form of
    `LineInts.emitted_line_ints_pointwise`: the member is the number literal `out`. -/
theorem emitted_line_floats_numeric (ext : Ext) (ti to : Tmpl) (line b : Bytes)
    (h : jlLine ⟨genTables, ext⟩ ti to line = .ok (b, none)) (hx : FloatTextOK ext)
    (hti : (OMap.keys ti).Nodup) (hto : (OMap.keys to).Nodup) :
    ∃ body tree, b = body ++ [0x0A] ∧ Json.unmarshal body = (tree, true) ∧
      ∀ k ci co (T : FT) lit r out, OMap.lookup ti k = some ci → OMap.lookup to k = some co →
        Cells.format ci = .numeric → Cells.rawType ci = T.ty →
        Cells.format co = .numeric → Cells.rawType co = T.ty →
        (∀ k' ∈ OMap.keys to ++ OMap.keys ti ++ Order.inputKeys line,
          sanitize k' = sanitize k → k' = k) →
        LineSpec.lookupJV (LineSpec.normDup (Json.unmarshal line).1) k = some (.num lit) →
        ext.parseFloat lit T.bits = some (some r) →
        ext.fmtFloat (T.widen (T.narrow r)) T.bits = some out → out ≠ [] →
        isValidNumber out = true ∧ LineSpec.lookupJV tree (sanitize k) = some (.num out) := by
  obtain ⟨body, tree, hb, hu, hall⟩ := emitted_line_floats_pointwise ext ti to line b h hx hti hto
  refine ⟨body, tree, hb, hu, ?_⟩
  intro k ci co T lit r out hci hco hfi htyi hfo htyo hsep hlast hp hf hne
  obtain ⟨r', hp', m, hm, hem⟩ := hall k ci co T lit _ hci hco (.inl hfi) htyi (.inl hfo) htyo hsep
    hlast (.inl rfl)
  rw [hp] at hp'
  cases hp'
  rw [hfo] at hem
  rcases hem with ⟨_, out', hf', hv, rfl⟩ | ⟨h', _⟩ | ⟨h', _⟩
  · rw [hf] at hf'
    cases hf'
    rcases hv with hv | hv
    · exact absurd hv hne
    · refine ⟨hv, ?_⟩
      rw [hm]
      have : numText out = out := by
        cases out with
        | nil => exact absurd rfl hne
        | cons _ _ => rfl
      rw [this]
  · cases h'
  · cases h'

/-- Target 5, the other half (target 4 for several columns): a line whose member under a float
    column of the importer (the last of that name) is a text for which `strconv.ParseFloat` answers
    an error — out of range, or not a number — is NOT accepted, whatever the other columns, the
    other members and the exporter's template are; nothing is written. -/
theorem unparsed_not_accepted (ext : Ext) (ti to : Tmpl) (line : Bytes)
    (hti : (OMap.keys ti).Nodup) (k : Bytes) (ci : Val) (hci : OMap.lookup ti k = some ci)
    (hf : FloatFmt (Cells.format ci)) (T : FT) (hty : Cells.rawType ci = T.ty)
    (jv : JV) (lit : Bytes) (hjv : IsCarrierJV jv lit)
    (hlast : LineSpec.lookupJV (LineSpec.normDup (Json.unmarshal line).1) k = some jv)
    (hp : ext.parseFloat lit T.bits = some none) (b : Bytes) :
    jlLine ⟨genTables, ext⟩ ti to line ≠ .ok (b, none) := by
  intro h
  obtain ⟨r, _, _, hget, _⟩ := Order.jlLine_ok _ ti to line b h
  obtain ⟨r0, hp', _⟩ := getRow_float_cell ext ti line r hget hti k ci hci hf T hty jv lit hjv
    (LineInts.lastVal_of_normDup_carrier hjv hlast)
  rw [hp] at hp'
  cases hp'

/-! ### Target 6: concrete lines, computed end to end over `genTables` and an `Ext` that answers

  One column `x`.  `Demo.ext` answers as the Go standard library does for the few questions asked:
  `ParseFloat("1.5", 64) = 1.5` (bits 0x3FF8000000000000), `FormatFloat(1.5, 'f', -1, 64) = "1.5"`,
  json.Marshal(1.5) = `1.5`; `ParseFloat("1e400", 64)` is a range error; `ParseFloat("NaN", 64)` is the
  NaN 0x7FF8000000000001, rendered `NaN` and refused by json.Marshal; and the same at 32 bits for
  1.5 (`ParseFloat("1.5", 32)` returns the float64 1.5, `float32(·)` of which is 0x3FC00000). -/
namespace Demo
open RowPrint JsonWrite

/-- `1.5` -/
def lit15 : Bytes := [0x31, 0x2E, 0x35]
/-- `1e400` -/
def lit1e400 : Bytes := [0x31, 0x65, 0x34, 0x30, 0x30]
/-- `1e39` -/
def lit1e39 : Bytes := [0x31, 0x65, 0x33, 0x39]
/-- float64 1.5 -/
def bits15 : Nat := 0x3FF8000000000000
/-- float32 1.5 -/
def bits15f : Nat := 0x3FC00000
/-- the float64 NaN of `math.NaN()` -/
def bitsNaN : Nat := 0x7FF8000000000001

def ext : Ext where
  fmtFloat b sz :=
    if b = bits15 ∧ (sz = 64 ∨ sz = 32) then some lit15
    else if b = bitsNaN ∧ sz = 64 then some nanText
    else none
  parseFloat s sz :=
    if s = lit15 ∧ (sz = 64 ∨ sz = 32) then some (some bits15)
    else if s = lit1e400 ∧ sz = 64 then some none
    else if s = lit1e39 ∧ sz = 32 then some none
    else if s = nanText ∧ sz = 64 then some (some bitsNaN)
    else none
  zoneOffset _ := none
  jsonFloat b sz :=
    if b = bits15 ∧ sz = 64 then some (some lit15)
    else if b = bits15f ∧ sz = 32 then some (some lit15)
    else if b = bitsNaN ∧ sz = 64 then some none
    else none

def env : Env := ⟨genTables, ext⟩

/-- numeric(float64) column `x` -/
def tmpl : Tmpl := withCol [] [0x78] .numeric .f64
/-- numeric(float32) column `x` -/
def tmpl32 : Tmpl := withCol [] [0x78] .numeric .f32
/-- auto(float64) column `x` -/
def tmplAuto : Tmpl := withCol [] [0x78] .auto .f64
/-- string(float64) column `x` -/
def tmplStr : Tmpl := withCol [] [0x78] .string .f64

theorem sanitize_x : sanitize [0x78] = [0x78] := JsonPrint.sanitize_of_ascii _ (by decide)

/-- `{"x":` -/
def pre : Bytes := [0x7B, 0x22, 0x78, 0x22, 0x3A]

/-- `{"x":1.5}` -/
def line15 : Bytes := [0x7B, 0x22, 0x78, 0x22, 0x3A, 0x31, 0x2E, 0x35, 0x7D]
/-- `{"x":1e400}` -/
def line1e400 : Bytes := [0x7B, 0x22, 0x78, 0x22, 0x3A, 0x31, 0x65, 0x34, 0x30, 0x30, 0x7D]
/-- `{"x":1e39}` -/
def line1e39 : Bytes := [0x7B, 0x22, 0x78, 0x22, 0x3A, 0x31, 0x65, 0x33, 0x39, 0x7D]
/-- `{"x":"NaN"}` -/
def lineNaN : Bytes := [0x7B, 0x22, 0x78, 0x22, 0x3A, 0x22, 0x4E, 0x61, 0x4E, 0x22, 0x7D]

theorem objText_x (txt : Bytes) : objText [0x78] txt = pre ++ txt ++ [0x7D] := by
  simp [objText, joinComma, quote, quoteBody, htmlSafe, pre]

theorem line15_eq : objText [0x78] lit15 = line15 := by rw [objText_x]; rfl
theorem line1e400_eq : objText [0x78] lit1e400 = line1e400 := by rw [objText_x]; rfl
theorem line1e39_eq : objText [0x78] lit1e39 = line1e39 := by rw [objText_x]; rfl

theorem quoteNaN : quote nanText = [0x22, 0x4E, 0x61, 0x4E, 0x22] := by
  simp [quote, quoteBody, htmlSafe, nanText]

theorem lineNaN_eq : objText [0x78] (quote nanText) = lineNaN := by
  rw [objText_x, quoteNaN]; rfl

theorem unmarshal_line15 : Json.unmarshal line15 = (.cons [0x78] (.num lit15) .nil, true) := by
  rw [← line15_eq]; exact unmarshal_number_out sanitize_x (by decide)

theorem unmarshal_line1e400 :
    Json.unmarshal line1e400 = (.cons [0x78] (.num lit1e400) .nil, true) := by
  rw [← line1e400_eq]; exact unmarshal_number_out sanitize_x (by decide)

theorem unmarshal_line1e39 :
    Json.unmarshal line1e39 = (.cons [0x78] (.num lit1e39) .nil, true) := by
  rw [← line1e39_eq]; exact unmarshal_number_out sanitize_x (by decide)

theorem unmarshal_lineNaN : Json.unmarshal lineNaN = (.cons [0x78] (.str nanText) .nil, true) := by
  rw [← lineNaN_eq, LineTime.unmarshal_objText (JsonPrint.readsAs_quote _), sanitize_x,
    JsonPrint.sanitize_of_ascii nanText (by decide)]

/-- **Target 6.**  `{"x":1.5}` ↦ `{"x":1.5}` and a newline under numeric(float64), the value held in
    the column being the bit pattern 0x3FF8000000000000. -/
theorem float64_15 : jlLine env tmpl tmpl line15 = .ok (line15 ++ [0x0A], none) := by
  have h := numeric_line ext [0x78] .f64 lit15 lit15 bits15 line15 unmarshal_line15 (by decide)
    (by decide) (by decide)
  rwa [line15_eq] at h

theorem float64_15_held :
    getRow env tmpl line15 = .ok ([([0x78], .cell (.f64 0x3FF8000000000000) .numeric .f64)], none) :=
  getRow_float ext [0x78] (fi := .numeric) (.inl rfl) .f64 lit15 bits15 line15 _ unmarshal_line15
    (.inl rfl) (by decide)

/-- The hypotheses of `numeric_line_fixed_point` hold for it (the emitted line is the input line
    here, `1.5` being its own shortest rendering): all four conclusions, computed. -/
example :
    getRow env tmpl line15 = .ok ([([0x78], .cell (.f64 bits15) .numeric .f64)], none) ∧
    jlLine env tmpl tmpl line15 = .ok (line15 ++ [0x0A], none) ∧
    getRow env tmpl line15 = .ok ([([0x78], .cell (.f64 bits15) .numeric .f64)], none) ∧
    jlLine env tmpl tmpl line15 = .ok (line15 ++ [0x0A], none) := by
  have h := numeric_line_fixed_point ext [0x78] sanitize_x .f64 lit15 lit15 bits15 bits15 line15
    unmarshal_line15 (by decide) (by decide) (by decide) (by decide) rfl
  rwa [line15_eq] at h

/-- The reader's side: the emitted member under `x` is the number literal `1.5`. -/
example : ∃ tree, Json.unmarshal line15 = (tree, true) ∧
    LineSpec.lookupJV tree [0x78] = some (.num [0x31, 0x2E, 0x35]) :=
  ⟨_, unmarshal_line15, LineTime.lookupJV_single _ _⟩

/-- `{"x":1e400}` is rejected under numeric(float64): nothing is written (not `+Inf`, not
    MaxFloat64). -/
theorem float64_1e400 : jlLine env tmpl tmpl line1e400 = .ok ([], some .unsupportedImport) :=
  numeric_line_out_of_range ext [0x78] .f64 lit1e400 line1e400 unmarshal_line1e400 (by decide)

/-- `{"x":1e39}` is rejected under numeric(float32). -/
theorem float32_1e39 : jlLine env tmpl32 tmpl32 line1e39 = .ok ([], some .unsupportedImport) :=
  numeric_line_out_of_range ext [0x78] .f32 lit1e39 line1e39 unmarshal_line1e39 (by decide)

/-- auto(float64): `{"x":1.5}` ↦ `{"x":1.5}` and a newline, through `ext.jsonFloat`. -/
theorem auto64_15 : jlLine env tmplAuto tmplAuto line15 = .ok (line15 ++ [0x0A], none) := by
  have h := auto_line ext [0x78] .f64 lit15 lit15 bits15 line15 _ unmarshal_line15 (.inl rfl)
    (by decide) (by decide)
  rwa [line15_eq] at h

/-- `{"x":"NaN"}` under numeric(float64): imported (ParseFloat accepts the text), `ToNumber` makes the
    json.Number `NaN` of it, json.Marshal refuses: the line is an error, nothing is written. -/
theorem float64_NaN : jlLine env tmpl tmpl lineNaN = .ok ([], some .marshal) :=
  numeric_line_not_a_number ext [0x78] (fi := .numeric) (.inl rfl) .f64 nanText nanText bitsNaN
    lineNaN _ unmarshal_lineNaN (.inr rfl) (by decide) (by decide) (by decide) (by decide)

/-- …under auto(float64) as well. -/
theorem auto64_NaN : jlLine env tmplAuto tmplAuto lineNaN = .ok ([], some .marshal) :=
  auto_line_marshal_refused ext [0x78] (fi := .auto) (.inr (.inr rfl)) .f64 nanText bitsNaN
    lineNaN _ unmarshal_lineNaN (.inr rfl) (by decide) (by decide)

/-- …while string(float64) writes it back: `{"x":"NaN"}` ↦ `{"x":"NaN"}` and a newline. -/
theorem string64_NaN : jlLine env tmplStr tmplStr lineNaN = .ok (lineNaN ++ [0x0A], none) := by
  have h := string_line ext [0x78] .f64 nanText nanText bitsNaN lineNaN _ unmarshal_lineNaN (.inr rfl)
    (by decide) (by decide)
  rwa [lineNaN_eq] at h

/-- The bits are what they are said to be: 1.5 is finite, the NaN is not; `float32(1.5)` and back. -/
example : Float.isFinite Float.f64 bits15 = true ∧ Float.isFinite Float.f64 bitsNaN = false ∧
    Float.f64to32 bits15 = bits15f ∧ Float.f32to64 bits15f = bits15 := by
  decide

/-- numeric(float32): `{"x":1.5}` ↦ `{"x":1.5}` and a newline; the column holds the float32
    0x3FC00000 (`ParseFloat("1.5", 32)`, narrowed), rendered through `FormatFloat(float64(·), 'f', -1,
    32)`. -/
theorem float32_15 : jlLine env tmpl32 tmpl32 line15 = .ok (line15 ++ [0x0A], none) := by
  have h := numeric_line ext [0x78] .f32 lit15 lit15 bits15 line15 unmarshal_line15 (by decide)
    (by decide) (by decide)
  rwa [line15_eq] at h

theorem float32_15_held :
    getRow env tmpl32 line15 = .ok ([([0x78], .cell (.f32 0x3FC00000) .numeric .f32)], none) := by
  have h := getRow_float ext [0x78] (fi := .numeric) (.inl rfl) .f32 lit15 bits15 line15 _
    unmarshal_line15 (.inl rfl) (by decide)
  have hn : FT.f32.narrow bits15 = 0x3FC00000 := by decide
  rwa [hn] at h

/-! #### Target 5 is not vacuous: two columns, a string one beside the numeric(float64) one

  `ti = to =` columns `s` (string) and `x` (numeric, float64); input `{"s":"a","x":1.5}`.  Every
  hypothesis of `emitted_line_floats_numeric` holds, the line is accepted, and the conclusion for
  column `x` is: the emitted member is the literal `1.5`. -/

def ti2 : Tmpl := withCol (withCol [] [0x73] .string .none) [0x78] .numeric .f64

/-- `{"s":"a","x":1.5}` -/
def line2 : Bytes :=
  [0x7B, 0x22, 0x73, 0x22, 0x3A, 0x22, 0x61, 0x22, 0x2C, 0x22, 0x78, 0x22, 0x3A, 0x31, 0x2E, 0x35, 0x7D]

theorem ti2_eq :
    ti2 = [([0x73], .cell .nil .string .none), ([0x78], .cell .nil .numeric .f64)] := rfl

open Json in
theorem unmarshal_line2 : Json.unmarshal line2 =
    (.cons [0x73] (.str [0x61]) (.cons [0x78] (.num [0x31, 0x2E, 0x35]) .nil), true) := by
  simp [line2, unmarshal, token, tokenCore, skipSpace, isSpace, asClose, parseObject, more,
    asKey, asTok, strBody, Json.pre, handleDelim, scanScalar, scanNumber, scanInt, scanFracExp, digits,
    Json.isDigit, valueAllowed, valueEnd, isEof]

theorem inputKeys_line2 : Order.inputKeys line2 = [[0x73], [0x78]] := by
  simp [Order.inputKeys, unmarshal_line2, JVMembers.toList]

def imported2 : List (Bytes × Val) :=
  [([0x73], .cell (.str [0x61]) .string .none), ([0x78], .cell (.f64 bits15) .numeric .f64)]

theorem import_s : importCell env .string .none (.str [0x61]) =
    .ok (.cell (.str [0x61]) .string .none, none) := rfl

theorem import_x : importCell env .numeric .f64 (.num [0x31, 0x2E, 0x35]) =
    .ok (.cell (.f64 bits15) .numeric .f64, none) := by
  have h := import_float ext (f := .numeric) (.inl rfl) .f64 (x := .num lit15) (.inl rfl)
  have hp : ext.parseFloat lit15 FT.f64.bits = some (some bits15) := by decide
  simp only [importSpec, hp] at h
  exact h

theorem cloneRow_ti2 : cloneRow env ti2 = .ok ti2 := by
  have hx := castTo_float_nil ext .f64
  simp only [FT.ty] at hx
  simp [cloneRow, cloneInto, cloneValue, newValue, Cells.raw, Cells.format, Cells.rawType, ti2_eq,
    env, hx, gen_castTo_none, upsert, OMap.upsert]

theorem getRow_line2 : getRow env ti2 line2 = .ok (imported2, none) := by
  unfold getRow createRowEmpty
  rw [cloneRow_ti2]
  simp only [unmarshalInto, unmarshal_line2]
  simp [ti2_eq, ofJVMembers, ofJV, parseMembers, parseMember, lookup, OMap.lookup, importVal,
    importInto, upsert, OMap.upsert, import_x, import_s, imported2]

theorem createRow_imported2 :
    createRow env ti2 (.val (.row (Members.ofList imported2))) = .ok (imported2, none) := by
  have hs : newValue env (.str [0x61]) .string .none = .ok (.cell (.str [0x61]) .string .none) := by
    simp [newValue, env, gen_castTo_none]
  have hn : newValue env (.f64 bits15) .numeric .f64 = .ok (.cell (.f64 bits15) .numeric .f64) :=
    newValue_float ext .numeric .f64 bits15
  simp [createRow, cloneRow_ti2, Members.toList_ofList, imported2]
  simp [ti2_eq, fillPairs, fill, lookup, OMap.lookup, Cells.raw, Cells.format, Cells.rawType, hs, hn,
    upsert, OMap.upsert]

theorem marshal_s : marshalVal env (.cell (.str [0x61]) .string .none) = .ok (quote [0x61]) := by
  have he : exportVal env (.cell (.str [0x61]) .string .none) = .ok (.str [0x61]) := rfl
  rw [LineInts.marshal_of_export _ _ _ _ _ he, marshalExported.eq_def]

theorem marshal_x : marshalVal env (.cell (.f64 bits15) .numeric .f64) = .ok lit15 := by
  have h := marshal_float ext (f := .numeric) (.inl rfl) .f64 bits15 .f64
  rw [marshalSpec_numeric ext .f64 bits15 lit15 (by decide) (by decide)] at h
  exact h

theorem jlLine_line2 : ∃ body, jlLine env ti2 ti2 line2 = .ok (body ++ [0x0A], none) := by
  have hm : marshalMembers env (Members.ofList imported2) =
      .ok [quote [0x73] ++ 0x3A :: quote [0x61], quote [0x78] ++ 0x3A :: lit15] :=
    JsonPrint.marshalMembers_cons env _ _ _ (by decide) marshal_s
      (JsonPrint.marshalMembers_cons env _ _ _ (by decide) marshal_x
        (JsonPrint.marshalMembers_nil env))
  refine ⟨0x7B :: (joinComma [quote [0x73] ++ 0x3A :: quote [0x61],
    quote [0x78] ++ 0x3A :: lit15] ++ [0x7D]), ?_⟩
  simp only [jlLine, getRow_line2, exportLine, createRow_imported2,
    JsonPrint.marshalRow_eq env _ hm]

/-- json.Marshal's spellings in `Demo.ext` are JSON numbers. -/
theorem floatOK : FloatTextOK env.ext := by
  intro b sz s h
  simp only [env, ext] at h
  split at h
  · cases h; decide
  · split at h
    · cases h; decide
    · split at h <;> cases h

theorem sanitize_s : sanitize [0x73] = [0x73] := JsonPrint.sanitize_of_ascii _ (by decide)

example : ∃ body tree, jlLine env ti2 ti2 line2 = .ok (body ++ [0x0A], none) ∧
    Json.unmarshal body = (tree, true) ∧
    LineSpec.lookupJV tree [0x78] = some (.num [0x31, 0x2E, 0x35]) := by
  obtain ⟨body0, hj⟩ := jlLine_line2
  obtain ⟨body, tree, hb, hu, hall⟩ :=
    emitted_line_floats_numeric ext ti2 ti2 line2 _ hj floatOK (by rw [ti2_eq]; decide)
      (by rw [ti2_eq]; decide)
  have : body = body0 := (List.append_cancel_right hb).symm
  subst this
  have hlast : LineSpec.lookupJV (LineSpec.normDup (Json.unmarshal line2).1) [0x78] =
      some (.num lit15) := by
    rw [unmarshal_line2]
    simp [LineSpec.normDup, LineSpec.normDupM, LineSpec.normDupV, LineSpec.upsertKV,
      JVMembers.ofList, LineLevel.lookupJV_cons, lit15]
  have hsep : ∀ k' ∈ OMap.keys ti2 ++ OMap.keys ti2 ++ Order.inputKeys line2,
      sanitize k' = sanitize [0x78] → k' = [0x78] := by
    intro k' hk' hs
    rw [inputKeys_line2, ti2_eq] at hk'
    simp only [OMap.keys, List.map_cons, List.map_nil, List.mem_append, List.mem_cons,
      List.not_mem_nil, or_false] at hk'
    have : k' = [0x73] ∨ k' = [0x78] := by
      rcases hk' with (h | h) | h <;> rcases h with h | h <;> simp [h]
    rcases this with rfl | rfl
    · rw [sanitize_s, sanitize_x] at hs; cases hs
    · rfl
  have := hall [0x78] (.cell .nil .numeric .f64) (.cell .nil .numeric .f64) .f64 lit15 bits15 lit15
    (by rw [ti2_eq]; simp [OMap.lookup]) (by rw [ti2_eq]; simp [OMap.lookup]) rfl rfl rfl rfl hsep
    hlast (by decide) (by decide) (by decide)
  rw [sanitize_x] at this
  exact ⟨body, tree, hj, hu, this.2⟩

/-- …and `{"s":"a","x":1e400}` is not accepted under the same templates. -/
def line2' : Bytes :=
  [0x7B, 0x22, 0x73, 0x22, 0x3A, 0x22, 0x61, 0x22, 0x2C, 0x22, 0x78, 0x22, 0x3A, 0x31, 0x65, 0x34,
   0x30, 0x30, 0x7D]

theorem unmarshal_line2' : Json.unmarshal line2' =
    (.cons [0x73] (.str [0x61]) (.cons [0x78] (.num lit1e400) .nil), true) := by
  have h := JsonPrint.unmarshal_object
    (.cons (k := [0x73]) (JsonPrint.readsAs_quote [0x61])
      (.cons (k := [0x78]) (JsonPrint.readsAs_number (l := lit1e400) (by decide)) .nil))
  rw [sanitize_s, sanitize_x, JsonPrint.sanitize_of_ascii [0x61] (by decide)] at h
  rw [← h]
  simp [line2', joinComma, quote, quoteBody, htmlSafe, lit1e400]

example (b : Bytes) : jlLine env ti2 ti2 line2' ≠ .ok (b, none) := by
  refine unparsed_not_accepted ext ti2 ti2 line2' (by rw [ti2_eq]; decide) [0x78]
    (.cell .nil .numeric .f64) (by rw [ti2_eq]; simp [OMap.lookup]) (.inl rfl) .f64 rfl
    (.num lit1e400) lit1e400 (.inl rfl) ?_ (by decide) b
  rw [unmarshal_line2']
  simp [LineSpec.normDup, LineSpec.normDupM, LineSpec.normDupV, LineSpec.upsertKV,
    JVMembers.ofList, LineLevel.lookupJV_cons]

end Demo

end Jl.LineFloats
