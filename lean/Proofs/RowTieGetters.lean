/-
  Proofs.RowTieGetters — the sixteen typed getters and MapTo's type switch
  (one of the files Proofs.RowTie* : split so that a change of one function of row.go stops only the
  properties that rest on it; the overview is in Proofs/RowTie.lean)
-/
import Model.RowFactsSpec
import Model.RowPrint
import Model.MapTo
import Gen.RowFacts

namespace Jl.RowTie
open Jl

/-! ### Getters, MapTo, constants -/

/-- The Go spelling of a getter's result type. -/
def goType : Ty → String
  | .int .int => "int" | .int .i64 => "int64" | .int .i32 => "int32" | .int .i16 => "int16" | .int .i8 => "int8"
  | .int .uint => "uint" | .int .u64 => "uint64" | .int .u32 => "uint32" | .int .u16 => "uint16" | .int .u8 => "byte"
  | .f64 => "float64" | .f32 => "float32" | .bool => "bool" | .str => "string" | .bytes => "[]byte"
  | .time => "time.Time" | _ => "?"

/-- The sixteen typed getters are `Getters.table`: the caster on `GetOrNil(key)`, the comma-ok assertion to the
    result type (so the zero value, never a panic: `Getters.typedGet`), and there is no seventeenth. -/
theorem getters_as_modelled :
    (∀ row ∈ Getters.table, Gen.rowFacts.getters.lookup row.1 = some (.castCommaOk "GetOrNil" row.2.1 (goType row.2.2)))
    ∧ Gen.rowFacts.getters.length = Getters.table.length
    ∧ Gen.rowFacts.readers.lookup "GetOrNil" = some (.orNil "Get")
    ∧ Gen.rowFacts.readers.lookup "Get" = some .mapRaw := by
  decide

/-- The Go spelling of an integer type in a type switch. -/
def goInt : IntTy → String
  | .int => "int" | .i64 => "int64" | .i32 => "int32" | .i16 => "int16" | .i8 => "int8"
  | .uint => "uint" | .u64 => "uint64" | .u32 => "uint32" | .u16 => "uint16" | .u8 => "byte"

def mapCases : MapToFact → List (String × MapCase)
  | .fields _ _ _ _ cs => cs
  | .unknown _ => []

/-- MapTo's type switch is the one of `MapTo.store`: signed integers through `ToInt64` under `CanInt` with the
    single-value `i.(int64)`, unsigned through `ToUint64` / `CanUint` / `i.(uint64)`, floats through `ToFloat64` /
    `CanFloat` / `i.(float64)`, strings, bools and byte slices by the field's kind; the key is `LcFirst(name)`
    looked up with `Get`; only a non-nil pointer to a struct is touched.  A clause may test the guard before the
    cast or after it (`MapCase.castFirst`): the casters have no effect, `MapTo.viaCast` is either. -/
theorem mapTo_as_modelled :
    (∀ t ∈ IntTy.all, ((mapCases Gen.rowFacts.mapTo).lookup (goInt t)).map MapCase.castFirst =
      some (if t.signed then .viaCast "ToInt64" "CanInt" "SetInt" "int64" else .viaCast "ToUint64" "CanUint" "SetUint" "uint64"))
    ∧ (∀ n ∈ ["float32", "float64"], ((mapCases Gen.rowFacts.mapTo).lookup n).map MapCase.castFirst
        = some (.viaCast "ToFloat64" "CanFloat" "SetFloat" "float64"))
    ∧ (mapCases Gen.rowFacts.mapTo).lookup "string" = some (.whenKind 24 "SetString")
    ∧ (mapCases Gen.rowFacts.mapTo).lookup "bool" = some (.whenKind 1 "SetBool")
    ∧ (mapCases Gen.rowFacts.mapTo).lookup "[]byte" = some (.whenSliceOf 23 8 "SetBytes")
    ∧ (mapCases Gen.rowFacts.mapTo).length = 15
    ∧ (∃ cs, Gen.rowFacts.mapTo = .fields 22 25 "LcFirst" "Get" cs) := by
  refine ⟨by decide, by decide, by decide, by decide, by decide, by decide, ⟨_, rfl⟩⟩


end Jl.RowTie
