/-
  Proofs.Stream — C08 (failures are reported) and C07 (one outcome per line) on the model of
  `Stream()`'s loop (Model.Stream), over the scanner facts of Proofs.Scanner.

  C08: `C08_scanner_error_reported` (B1), `C08_nil_return`, `C08_silent_success_consumed_everything`,
       `C08_failure_reported`, `C08_default_fatal`, `C08_default_error_returned` (B2),
       `C08_writes`, `C08_writes_count`, `C08_default_write_failure` (B3).
  C07: `C07_given_scanner`, `C07_stream_eq_spec` (with `Scanner.A4_chunk_independence`).

  Hypothesis `cfg.maxSize ≤ cfg.initSize * 2 ^ 200` (`Ready.cap`): the loop gives `scan` the fuel
  `script.length * 103 + buf.length + 210`; one `scan` call needs about `2 * script.length` iterations
  plus one per buffer doubling, so the fuel is provably enough when at most ~200 doublings separate
  the initial buffer from the limit (the library: 64 KiB → 10 MiB, 8 doublings; `Scanner.pow_bound`).
  Without it the model's `scan` could run out of fuel, which `loop` cannot tell from a clean end.
-/
import Model.Stream
import Proofs.Scanner

namespace Jl.Stream
open Jl Jl.Value Jl.Template Jl.Scanner

/-! ### One iteration of the loop as a non-recursive function -/

inductive LStep
  | stop (r : Outcome (Obs × St))
  | next (st : St) (ws : List WriteEv) (obs : Obs)

def lstep (cfg : Cfg) (st : St) (ws : List WriteEv) (obs : Obs) : LStep :=
  match scan cfg.initSize cfg.maxSize (scanFuel st) st with
  | (none, st') =>
    match errOf st' with
    | some e =>
      let ec := scanErrClass e
      let r := cfg.proc.result obs.calls.length (some ec)
      .stop (.ok ({ obs with ret := r, calls := obs.calls ++ [(false, some ec)] }, st'))
    | none => .stop (.ok (obs, st'))
  | (some line, st') =>
    let getRowRes : Outcome (Option (List (Bytes × Val)) × Option ErrClass) :=
      match errOf st' with
      | some e => .ok (none, some (scanErrClass e))
      | none =>
        match getRow cfg.env cfg.ti line with
        | .ok (row, none) => .ok (some row, none)
        | .ok (_, some e) => .ok (none, some e)
        | .err e => .err e
        | .panic s => .panic s
    match getRowRes with
    | .err e => .stop (.err e)
    | .panic s => .stop (.panic s)
    | .ok (_, some e) =>
      let r := cfg.proc.result obs.calls.length (some e)
      let obs := { obs with calls := obs.calls ++ [(false, some e)] }
      match r with
      | some re => .stop (.ok ({ obs with ret := some re }, st'))
      | none => .next st' ws obs
    | .ok (none, none) => .stop (.err .ext)
    | .ok (some row, none) =>
      let r := cfg.proc.result obs.calls.length none
      let obs := { obs with calls := obs.calls ++ [(true, none)] }
      match r with
      | some re => .stop (.ok ({ obs with ret := some re }, st'))
      | none =>
        match exportWith cfg row ws with
        | .err e => .stop (.err e)
        | .panic s => .stop (.panic s)
        | .ok (w, none, ws') =>
          let obs := match w with | some b => { obs with writes := obs.writes ++ [b] } | none => obs
          .next st' ws' obs
        | .ok (w, some e, ws') =>
          let obs := match w with | some b => { obs with writes := obs.writes ++ [b] } | none => obs
          let r := cfg.proc.result obs.calls.length (some e)
          let obs := { obs with calls := obs.calls ++ [(true, some e)] }
          match r with
          | some re => .stop (.ok ({ obs with ret := some re }, st'))
          | none => .next st' ws' obs

def LStep.run (k : St → List WriteEv → Obs → Outcome (Obs × St)) : LStep → Outcome (Obs × St)
  | .stop r => r
  | .next st ws obs => k st ws obs

theorem loop_succ (cfg : Cfg) (fuel : Nat) (st : St) (ws : List WriteEv) (obs : Obs) :
    loop cfg (fuel + 1) st ws obs = (lstep cfg st ws obs).run (loop cfg fuel) := by
  unfold loop lstep scanFuel
  cases hsc : scan cfg.initSize cfg.maxSize (st.script.length * 103 + st.buf.length + 210) st with
  | mk t st' =>
  cases t with
  | none => simp only []; cases errOf st' <;> rfl
  | some line =>
    simp only []
    cases he : errOf st' with
    | some e =>
      simp only []
      generalize cfg.proc.result obs.calls.length (some (scanErrClass e)) = r
      cases r <;> rfl
    | none =>
      simp only []
      cases hg : getRow cfg.env cfg.ti line with
      | err e => rfl
      | panic s => rfl
      | ok p =>
        obtain ⟨row, oe⟩ := p
        cases oe with
        | some e =>
          simp only []
          generalize cfg.proc.result obs.calls.length (some e) = r
          cases r <;> rfl
        | none =>
          simp only []
          generalize cfg.proc.result obs.calls.length none = r
          cases r with
          | some re => rfl
          | none =>
            simp only []
            cases hx : exportWith cfg row ws with
            | err e => rfl
            | panic s => rfl
            | ok q =>
              obtain ⟨w, oe, ws'⟩ := q
              cases oe with
              | none => rfl
              | some e =>
                simp only []
                generalize cfg.proc.result _ (some e) = r
                cases r <;> rfl


/-! ### Inversion of one iteration -/

def addw (obs : Obs) (w : Option Bytes) : Obs :=
  match w with
  | some b => { obs with writes := obs.writes ++ [b] }
  | none => obs

@[simp] theorem addw_ret (obs : Obs) (w : Option Bytes) : (addw obs w).ret = obs.ret := by
  cases w <;> rfl
@[simp] theorem addw_calls (obs : Obs) (w : Option Bytes) : (addw obs w).calls = obs.calls := by
  cases w <;> rfl
@[simp] theorem addw_writes (obs : Obs) (w : Option Bytes) : (addw obs w).writes = obs.writes ++ w.toList := by
  cases w <;> simp [addw]

def addc (obs : Obs) (c : Bool × Option ErrClass) : Obs := { obs with calls := obs.calls ++ [c] }

@[simp] theorem addc_ret (obs : Obs) (c) : (addc obs c).ret = obs.ret := rfl
@[simp] theorem addc_calls (obs : Obs) (c) : (addc obs c).calls = obs.calls ++ [c] := rfl
@[simp] theorem addc_writes (obs : Obs) (c) : (addc obs c).writes = obs.writes := rfl

/-- The possible shapes of one iteration. `t`/`st1` is what `scan` returned. -/
inductive Iter (cfg : Cfg) (st : St) (ws : List WriteEv) (obs : Obs) : LStep → Prop
  | endErr (st1 : St) (e : ScanErr)
      (hscan : scan cfg.initSize cfg.maxSize (scanFuel st) st = (none, st1))
      (herr : errOf st1 = some e) :
      Iter cfg st ws obs (.stop (.ok ({ addc obs (false, some (scanErrClass e)) with
        ret := cfg.proc.result obs.calls.length (some (scanErrClass e)) }, st1)))
  | endClean (st1 : St)
      (hscan : scan cfg.initSize cfg.maxSize (scanFuel st) st = (none, st1))
      (herr : errOf st1 = none) :
      Iter cfg st ws obs (.stop (.ok (obs, st1)))
  | abort (r : Outcome (Obs × St)) (hr : ∀ x, r ≠ .ok x) : Iter cfg st ws obs (.stop r)
  | importStop (line : Bytes) (st1 : St) (e re : ErrClass)
      (hscan : scan cfg.initSize cfg.maxSize (scanFuel st) st = (some line, st1))
      (hwhy : (∃ se, errOf st1 = some se ∧ e = scanErrClass se) ∨
        (errOf st1 = none ∧ ∃ row, getRow cfg.env cfg.ti line = .ok (row, some e)))
      (hp : cfg.proc.result obs.calls.length (some e) = some re) :
      Iter cfg st ws obs (.stop (.ok ({ addc obs (false, some e) with ret := some re }, st1)))
  | importNext (line : Bytes) (st1 : St) (e : ErrClass)
      (hscan : scan cfg.initSize cfg.maxSize (scanFuel st) st = (some line, st1))
      (hwhy : (∃ se, errOf st1 = some se ∧ e = scanErrClass se) ∨
        (errOf st1 = none ∧ ∃ row, getRow cfg.env cfg.ti line = .ok (row, some e)))
      (hp : cfg.proc.result obs.calls.length (some e) = none) :
      Iter cfg st ws obs (.next st1 ws (addc obs (false, some e)))
  | rowStop (line : Bytes) (st1 : St) (row : List (Bytes × Val)) (re : ErrClass)
      (hscan : scan cfg.initSize cfg.maxSize (scanFuel st) st = (some line, st1))
      (herr : errOf st1 = none) (hrow : getRow cfg.env cfg.ti line = .ok (row, none))
      (hp : cfg.proc.result obs.calls.length none = some re) :
      Iter cfg st ws obs (.stop (.ok ({ addc obs (true, none) with ret := some re }, st1)))
  | rowWritten (line : Bytes) (st1 : St) (row : List (Bytes × Val)) (w : Option Bytes) (ws' : List WriteEv)
      (hscan : scan cfg.initSize cfg.maxSize (scanFuel st) st = (some line, st1))
      (herr : errOf st1 = none) (hrow : getRow cfg.env cfg.ti line = .ok (row, none))
      (hp : cfg.proc.result obs.calls.length none = none)
      (hx : exportWith cfg row ws = .ok (w, none, ws')) :
      Iter cfg st ws obs (.next st1 ws' (addw (addc obs (true, none)) w))
  | exportStop (line : Bytes) (st1 : St) (row : List (Bytes × Val)) (w : Option Bytes) (ws' : List WriteEv)
      (e re : ErrClass)
      (hscan : scan cfg.initSize cfg.maxSize (scanFuel st) st = (some line, st1))
      (herr : errOf st1 = none) (hrow : getRow cfg.env cfg.ti line = .ok (row, none))
      (hp : cfg.proc.result obs.calls.length none = none)
      (hx : exportWith cfg row ws = .ok (w, some e, ws'))
      (hp2 : cfg.proc.result (obs.calls.length + 1) (some e) = some re) :
      Iter cfg st ws obs (.stop (.ok ({ addc (addw (addc obs (true, none)) w) (true, some e) with
        ret := some re }, st1)))
  | exportNext (line : Bytes) (st1 : St) (row : List (Bytes × Val)) (w : Option Bytes) (ws' : List WriteEv)
      (e : ErrClass)
      (hscan : scan cfg.initSize cfg.maxSize (scanFuel st) st = (some line, st1))
      (herr : errOf st1 = none) (hrow : getRow cfg.env cfg.ti line = .ok (row, none))
      (hp : cfg.proc.result obs.calls.length none = none)
      (hx : exportWith cfg row ws = .ok (w, some e, ws'))
      (hp2 : cfg.proc.result (obs.calls.length + 1) (some e) = none) :
      Iter cfg st ws obs (.next st1 ws' (addc (addw (addc obs (true, none)) w) (true, some e)))

theorem lstep_iter (cfg : Cfg) (st : St) (ws : List WriteEv) (obs : Obs) :
    Iter cfg st ws obs (lstep cfg st ws obs) := by
  unfold lstep
  cases hsc : scan cfg.initSize cfg.maxSize (scanFuel st) st with
  | mk t st' =>
  cases t with
  | none =>
    simp only []
    cases he : errOf st' with
    | some e => exact .endErr st' e hsc he
    | none => exact .endClean st' hsc he
  | some line =>
    simp only []
    cases he : errOf st' with
    | some e =>
      simp only []
      cases hr : cfg.proc.result obs.calls.length (some (scanErrClass e)) with
      | some re => exact .importStop line st' _ re hsc (.inl ⟨e, he, rfl⟩) hr
      | none => exact .importNext line st' _ hsc (.inl ⟨e, he, rfl⟩) hr
    | none =>
      simp only []
      cases hg : getRow cfg.env cfg.ti line with
      | err e => exact .abort _ (fun x h => by cases h)
      | panic s => exact .abort _ (fun x h => by cases h)
      | ok p =>
        obtain ⟨row, oe⟩ := p
        cases oe with
        | some e =>
          simp only []
          cases hr : cfg.proc.result obs.calls.length (some e) with
          | some re => exact .importStop line st' _ re hsc (.inr ⟨he, row, hg⟩) hr
          | none => exact .importNext line st' _ hsc (.inr ⟨he, row, hg⟩) hr
        | none =>
          simp only []
          cases hr : cfg.proc.result obs.calls.length none with
          | some re => exact .rowStop line st' row re hsc he hg hr
          | none =>
            simp only []
            cases hx : exportWith cfg row ws with
            | err e => exact .abort _ (fun x h => by cases h)
            | panic s => exact .abort _ (fun x h => by cases h)
            | ok q =>
              obtain ⟨w, oe, ws'⟩ := q
              cases oe with
              | none => exact .rowWritten line st' row w ws' hsc he hg hr hx
              | some e =>
                cases w with
                | none =>
                  simp only [List.length_append, List.length_singleton]
                  cases hr2 : cfg.proc.result (obs.calls.length + 1) (some e) with
                  | some re => exact Iter.exportStop line st' row none ws' e re hsc he hg hr hx hr2
                  | none => exact Iter.exportNext line st' row none ws' e hsc he hg hr hx hr2
                | some b =>
                  simp only [List.length_append, List.length_singleton]
                  cases hr2 : cfg.proc.result (obs.calls.length + 1) (some e) with
                  | some re => exact Iter.exportStop line st' row (some b) ws' e re hsc he hg hr hx hr2
                  | none => exact Iter.exportNext line st' row (some b) ws' e hsc he hg hr hx hr2


theorem loop_induct (cfg : Cfg) (P : St → List WriteEv → Obs → Outcome (Obs × St) → Prop)
    (h0 : ∀ st ws obs, P st ws obs (.err .ext))
    (hstop : ∀ st ws obs r, Iter cfg st ws obs (.stop r) → P st ws obs r)
    (hnext : ∀ st ws obs st1 ws1 obs1 r, Iter cfg st ws obs (.next st1 ws1 obs1) →
      P st1 ws1 obs1 r → P st ws obs r) :
    ∀ fuel st ws obs, P st ws obs (loop cfg fuel st ws obs) := by
  intro fuel
  induction fuel with
  | zero => intro st ws obs; exact h0 st ws obs
  | succ f ih =>
    intro st ws obs
    rw [loop_succ]
    have hi := lstep_iter cfg st ws obs
    cases hl : lstep cfg st ws obs with
    | stop r => rw [hl] at hi; exact hstop st ws obs r hi
    | next st1 ws1 obs1 => rw [hl] at hi; exact hnext st ws obs st1 ws1 obs1 _ hi (ih st1 ws1 obs1)

/-! ### B1 (C08): a stream that returns nil has told the processor about any scanner failure -/

theorem C08_scanner_error_reported (cfg : Cfg) (fuel : Nat) (st : St) (ws : List WriteEv) (obs0 obs : Obs)
    (st' : St) (e : ScanErr)
    (h : loop cfg fuel st ws obs0 = .ok (obs, st')) (hret : obs.ret = none) (herr : errOf st' = some e) :
    ∃ c ∈ obs.calls, c.2 = some (scanErrClass e) := by
  revert obs st' e
  apply loop_induct cfg (fun st ws obs0 r => ∀ obs st' e, r = .ok (obs, st') → obs.ret = none →
    errOf st' = some e → ∃ c ∈ obs.calls, c.2 = some (scanErrClass e))
  · intro _ _ _ obs st' e h; cases h
  · intro st ws obs0 r hi obs st' e hr hret herr
    subst hr
    cases hi with
    | endErr st1 e1 hscan herr1 =>
      rw [herr] at herr1; cases herr1
      exact ⟨(false, some (scanErrClass e)), by simp, rfl⟩
    | endClean st1 hscan herr1 => rw [herr] at herr1; cases herr1
    | abort r hr => exact absurd rfl (hr _)
    | importStop => cases hret
    | rowStop => cases hret
    | exportStop => cases hret
  · intro st ws obs0 st1 ws1 obs1 r _ ih
    exact ih


theorem Iter.next_scan {cfg : Cfg} {st st1 : St} {ws ws1 : List WriteEv} {obs obs1 : Obs}
    (h : Iter cfg st ws obs (.next st1 ws1 obs1)) :
    ∃ line, scan cfg.initSize cfg.maxSize (scanFuel st) st = (some line, st1) := by
  cases h with
  | importNext line _ _ hscan => exact ⟨line, hscan⟩
  | rowWritten line _ _ _ _ hscan => exact ⟨line, hscan⟩
  | exportNext line _ _ _ _ _ hscan => exact ⟨line, hscan⟩

/-- The hypotheses under which `scan`'s fuel in the loop is provably sufficient. -/
structure Ready (cfg : Cfg) (st : St) : Prop where
  done : st.done = false
  wf : WF st
  cap : cfg.maxSize ≤ st.cap * 2 ^ 200

theorem Ready.scan {cfg : Cfg} {st st1 : St} {t : Option Bytes} (h : Ready cfg st)
    (hs : scan cfg.initSize cfg.maxSize (scanFuel st) st = (t, st1)) : Ready cfg st1 := by
  have sf := scan_facts cfg.initSize cfg.maxSize (scanFuel st) st
  rw [hs] at sf
  refine ⟨sf.done.trans h.done, sf.wf h.wf, Nat.le_trans h.cap (Nat.mul_le_mul_right _ sf.cap)⟩

theorem Ready.init (cfg : Cfg) (reader : List ReadEv) (h : cfg.maxSize ≤ cfg.initSize * 2 ^ 200) :
    Ready cfg (Scanner.init cfg.initSize reader) :=
  ⟨rfl, WF_init _ _, h⟩

/-- B1, second half: a stream that returns nil either ended on a scanner error that was handed to
    the processor as its last call, or has consumed the entire input. -/
theorem C08_nil_return (cfg : Cfg) (fuel : Nat) (st : St) (ws : List WriteEv) (obs0 obs : Obs) (st' : St)
    (hready : Ready cfg st)
    (h : loop cfg fuel st ws obs0 = .ok (obs, st')) (hret : obs.ret = none) :
    (∃ e, errOf st' = some e ∧ obs.calls.getLast? = some (false, some (scanErrClass e))) ∨
    (st'.err = none ∧ st'.eof = true ∧ st'.script = [] ∧ st'.buf = []) := by
  revert obs st'
  revert hready
  apply loop_induct cfg (fun st ws obs0 r => Ready cfg st → ∀ obs st', r = .ok (obs, st') → obs.ret = none →
    (∃ e, errOf st' = some e ∧ obs.calls.getLast? = some (false, some (scanErrClass e))) ∨
    (st'.err = none ∧ st'.eof = true ∧ st'.script = [] ∧ st'.buf = []))
  · intro _ _ _ _ obs st' h; cases h
  · intro st ws obs0 r hi hready obs st' hr hret
    subst hr
    cases hi with
    | endErr st1 e1 hscan herr1 => left; exact ⟨e1, herr1, by simp⟩
    | endClean st1 hscan herr1 =>
      right
      have hn : (scan cfg.initSize cfg.maxSize (scanFuel st) st).1 = none := by rw [hscan]
      have he : (scan cfg.initSize cfg.maxSize (scanFuel st) st).2.err = none := by rw [hscan]; exact herr1
      have := scan_none_clean cfg.initSize cfg.maxSize (scanFuel st) st 200 hready.done hready.cap
        (loop_fuel_ok st) hready.wf hn he
      rw [hscan] at this
      exact ⟨herr1, this⟩
    | abort r hr => exact absurd rfl (hr _)
    | importStop => cases hret
    | rowStop => cases hret
    | exportStop => cases hret
  · intro st ws obs0 st1 ws1 obs1 r hi ih hready
    obtain ⟨line, hs⟩ := hi.next_scan
    exact ih (hready.scan hs)


/-! ### B2 (C08): under the default processor every error is fatal and is the last thing that happens -/

theorem getLast?_bind_none {l : List (Bool × Option ErrClass)} (h : ∀ c ∈ l, c.2 = none) :
    l.getLast?.bind (·.2) = none := by
  cases hl : l.getLast? with
  | none => rfl
  | some c => exact h c (List.mem_of_getLast? hl)

theorem default_result (cfg : Cfg) (hp : cfg.proc = .default) (n : Nat) (e : Option ErrClass) :
    cfg.proc.result n e = e := by
  rw [hp]; rfl

theorem C08_default_fatal_aux (cfg : Cfg) (hp : cfg.proc = .default) (fuel : Nat) (st : St)
    (ws : List WriteEv) (obs0 : Obs) :
    obs0.ret = none → (∀ c ∈ obs0.calls, c.2 = none) →
    ∀ obs st', loop cfg fuel st ws obs0 = .ok (obs, st') →
      (∀ c ∈ obs.calls.dropLast, c.2 = none) ∧ obs.ret = obs.calls.getLast?.bind (·.2) := by
  apply loop_induct cfg (fun st ws obs0 r => obs0.ret = none → (∀ c ∈ obs0.calls, c.2 = none) →
    ∀ obs st', r = .ok (obs, st') →
      (∀ c ∈ obs.calls.dropLast, c.2 = none) ∧ obs.ret = obs.calls.getLast?.bind (·.2))
  · intro _ _ _ _ _ obs st' h; cases h
  · intro st ws obs0 r hi h0r h0c obs st' hr
    subst hr
    cases hi with
    | endErr st1 e1 hscan herr1 =>
      simp only [addc_calls, List.dropLast_concat, List.getLast?_concat, default_result cfg hp]
      exact ⟨h0c, rfl⟩
    | endClean st1 hscan herr1 =>
      exact ⟨fun c hc => h0c c (List.dropLast_subset _ hc), by rw [h0r, getLast?_bind_none h0c]⟩
    | abort r hr => exact absurd rfl (hr _)
    | importStop line st1 e re hscan hwhy hp1 =>
      rw [default_result cfg hp] at hp1; cases hp1
      simp only [addc_calls, List.dropLast_concat, List.getLast?_concat]
      exact ⟨h0c, rfl⟩
    | rowStop line st1 row re hscan herr hrow hp1 => rw [default_result cfg hp] at hp1; cases hp1
    | exportStop line st1 row w ws' e re hscan herr hrow hp1 hx hp2 =>
      rw [default_result cfg hp] at hp2; cases hp2
      simp only [addc_calls, addw_calls, List.dropLast_concat, List.getLast?_concat]
      refine ⟨?_, rfl⟩
      intro c hc
      rcases List.mem_append.mp hc with hc | hc
      · exact h0c c hc
      · simp only [List.mem_singleton] at hc; rw [hc]
  · intro st ws obs0 st1 ws1 obs1 r hi ih h0r h0c
    cases hi with
    | importNext line _ e hscan hwhy hp1 => rw [default_result cfg hp] at hp1; cases hp1
    | rowWritten line _ row w ws' hscan herr hrow hp1 hx =>
      apply ih
      · simpa using h0r
      · intro c hc
        simp only [addw_calls, addc_calls] at hc
        rcases List.mem_append.mp hc with hc | hc
        · exact h0c c hc
        · simp only [List.mem_singleton] at hc; rw [hc]
    | exportNext line _ row w ws' e hscan herr hrow hp1 hx hp2 =>
      rw [default_result cfg hp] at hp2; cases hp2

/-- B2: with the default processor, the calls before the last carry no error, and the stream
    returns exactly the error of the last call (nil if it had none). -/
theorem C08_default_fatal (cfg : Cfg) (hp : cfg.proc = .default) (fuel : Nat) (st : St)
    (ws : List WriteEv) (obs : Obs) (st' : St)
    (h : loop cfg fuel st ws ⟨none, [], []⟩ = .ok (obs, st')) :
    (∀ c ∈ obs.calls.dropLast, c.2 = none) ∧ obs.ret = obs.calls.getLast?.bind (·.2) :=
  C08_default_fatal_aux cfg hp fuel st ws ⟨none, [], []⟩ rfl (by simp) obs st' h

/-- B2, corollary: any error handed to the default processor makes the stream return an error. -/
theorem C08_default_error_returned (cfg : Cfg) (hp : cfg.proc = .default) (fuel : Nat) (st : St)
    (ws : List WriteEv) (obs : Obs) (st' : St)
    (h : loop cfg fuel st ws ⟨none, [], []⟩ = .ok (obs, st'))
    (hc : ∃ c ∈ obs.calls, c.2 ≠ none) : obs.ret ≠ none := by
  obtain ⟨h1, h2⟩ := C08_default_fatal cfg hp fuel st ws obs st' h
  obtain ⟨c, hc, hne⟩ := hc
  rw [h2]
  rcases List.eq_nil_or_concat obs.calls with hnil | ⟨l, a, hl⟩
  · rw [hnil] at hc; cases hc
  · rw [List.concat_eq_append] at hl
    rw [hl] at hc h1 ⊢
    simp only [List.dropLast_concat] at h1
    simp only [List.getLast?_concat, Option.bind_some]
    rcases List.mem_append.mp hc with hc | hc
    · exact absurd (h1 c hc) hne
    · simp only [List.mem_singleton] at hc; rw [← hc]; exact hne


/-! ### B3 (C08): what reaches the writer -/

/-- The bytes a `Write(b)` call hands over, given what the writer does. -/
def writeResult (b : Bytes) : Option WriteEv → Bytes
  | none => b
  | some .ok => b
  | some .fail => []
  | some (.short n) => b.take n

def WriteEv.isFail : WriteEv → Bool
  | .ok => false
  | _ => true

/-- A line the exporter can produce for some row. -/
def ExportedLine (cfg : Cfg) (b : Bytes) : Prop :=
  ∃ row, exportLine cfg.env cfg.to (.val (.row (Members.ofList row))) = .ok (b, none)

theorem exportLine_ends_LF {env : Env} {t : Tmpl} {v : Dyn} {b : Bytes}
    (h : exportLine env t v = .ok (b, none)) : ∃ b0, b = b0 ++ [0x0A] := by
  unfold exportLine at h
  split at h
  · cases h
  · cases h
  · cases h
  · split at h
    · cases h; exact ⟨_, rfl⟩
    · cases h
    · cases h
    · cases h

theorem exportWith_cases {cfg : Cfg} {row : List (Bytes × Val)} {ws ws' : List WriteEv}
    {w : Option Bytes} {oe : Option ErrClass} (h : exportWith cfg row ws = .ok (w, oe, ws')) :
    (w = none ∧ ws' = ws ∧ oe ≠ none) ∨
    (∃ b, ExportedLine cfg b ∧ w = some (writeResult b ws.head?) ∧ ws' = ws.tail ∧
      ((oe = none ∧ ∀ ev, ws.head? = some ev → ev.isFail = false) ∨
       (oe = some .io ∧ ∃ ev, ws.head? = some ev ∧ ev.isFail = true))) := by
  unfold exportWith at h
  split at h
  · cases h
  · cases h
  · cases h; left; exact ⟨rfl, rfl, by simp⟩
  · rename_i b hb
    right
    refine ⟨b, ⟨row, hb⟩, ?_⟩
    split at h
    · cases h; exact ⟨rfl, rfl, .inl ⟨rfl, by simp⟩⟩
    · cases h; exact ⟨rfl, rfl, .inl ⟨rfl, by simp [WriteEv.isFail]⟩⟩
    · cases h; exact ⟨rfl, rfl, .inr ⟨rfl, _, rfl, rfl⟩⟩
    · cases h; exact ⟨rfl, rfl, .inr ⟨rfl, _, rfl, rfl⟩⟩

/-- The writes `new` line up with the writer script `ws`, one `Write` call per script entry. -/
def WritesMatch (cfg : Cfg) : List Bytes → List WriteEv → Prop
  | [], _ => True
  | w :: rest, ws => (∃ b, ExportedLine cfg b ∧ w = writeResult b ws.head?) ∧ WritesMatch cfg rest ws.tail

theorem C08_writes_aux (cfg : Cfg) (fuel : Nat) (st : St) (ws : List WriteEv) (obs0 : Obs) :
    ∀ obs st', loop cfg fuel st ws obs0 = .ok (obs, st') →
      ∃ new, obs.writes = obs0.writes ++ new ∧ WritesMatch cfg new ws := by
  apply loop_induct cfg (fun st ws obs0 r => ∀ obs st', r = .ok (obs, st') →
      ∃ new, obs.writes = obs0.writes ++ new ∧ WritesMatch cfg new ws)
  · intro _ _ _ obs st' h; cases h
  · intro st ws obs0 r hi obs st' hr
    subst hr
    cases hi with
    | endErr => exact ⟨[], by simp, trivial⟩
    | endClean => exact ⟨[], by simp, trivial⟩
    | abort r hr => exact absurd rfl (hr _)
    | importStop => exact ⟨[], by simp, trivial⟩
    | rowStop => exact ⟨[], by simp, trivial⟩
    | exportStop line st1 row w ws' e re hscan herr hrow hp1 hx hp2 =>
      rcases exportWith_cases hx with ⟨rfl, -, -⟩ | ⟨b, hb, rfl, -, -⟩
      · exact ⟨[], by simp, trivial⟩
      · exact ⟨[writeResult b ws.head?], by simp, ⟨b, hb, rfl⟩, trivial⟩
  · intro st ws obs0 st1 ws1 obs1 r hi ih obs st' hr
    obtain ⟨new, h1, h2⟩ := ih obs st' hr
    cases hi with
    | importNext => exact ⟨new, by simpa using h1, h2⟩
    | rowWritten line _ row w ws' hscan herr hrow hp1 hx =>
      rcases exportWith_cases hx with ⟨rfl, rfl, -⟩ | ⟨b, hb, rfl, rfl, -⟩
      · exact ⟨new, by simpa using h1, h2⟩
      · exact ⟨writeResult b ws.head? :: new, by simpa using h1, ⟨b, hb, rfl⟩, h2⟩
    | exportNext line _ row w ws' e hscan herr hrow hp1 hx hp2 =>
      rcases exportWith_cases hx with ⟨rfl, rfl, -⟩ | ⟨b, hb, rfl, rfl, -⟩
      · exact ⟨new, by simpa using h1, h2⟩
      · exact ⟨writeResult b ws.head? :: new, by simpa using h1, ⟨b, hb, rfl⟩, h2⟩


theorem WritesMatch_get {cfg : Cfg} : ∀ {new : List Bytes} {ws : List WriteEv}, WritesMatch cfg new ws →
    ∀ (i : Nat) (w : Bytes), new[i]? = some w →
      ∃ b b0, ExportedLine cfg b ∧ b = b0 ++ [0x0A] ∧ w = writeResult b ws[i]?
  | [], _, _, i, w, h => by simp at h
  | x :: rest, ws, hm, 0, w, h => by
    obtain ⟨⟨b, hb, hx⟩, -⟩ := hm
    simp only [List.getElem?_cons_zero, Option.some.injEq] at h
    obtain ⟨row, hrow⟩ := hb
    obtain ⟨b0, hb0⟩ := exportLine_ends_LF hrow
    refine ⟨b, b0, ⟨row, hrow⟩, hb0, ?_⟩
    rw [← h, hx]; cases ws <;> rfl
  | x :: rest, ws, hm, i + 1, w, h => by
    obtain ⟨-, hrest⟩ := hm
    simp only [List.getElem?_cons_succ] at h
    obtain ⟨b, b0, h1, h2, h3⟩ := WritesMatch_get hrest i w h
    refine ⟨b, b0, h1, h2, ?_⟩
    rw [h3]; cases ws <;> simp

/-- B3, first part: the i-th `Write` call of a stream received either the complete line produced by
    the exporter (ending in LF) when the writer's i-th answer is success, or — when that answer is
    an error — nothing (`fail`) or a proper prefix (`short n`) of such a line. -/
theorem C08_writes (cfg : Cfg) (fuel : Nat) (st : St) (ws : List WriteEv) (obs : Obs) (st' : St)
    (h : loop cfg fuel st ws ⟨none, [], []⟩ = .ok (obs, st')) (i : Nat) (w : Bytes)
    (hw : obs.writes[i]? = some w) :
    ∃ b b0, ExportedLine cfg b ∧ b = b0 ++ [0x0A] ∧ w = writeResult b ws[i]? := by
  obtain ⟨new, h1, h2⟩ := C08_writes_aux cfg fuel st ws ⟨none, [], []⟩ obs st' h
  simp only [List.nil_append] at h1
  rw [h1] at hw
  exact WritesMatch_get h2 i w hw

/-- B3, second part: there are never more writes than `(row, nil)` processor calls. -/
theorem C08_writes_count_aux (cfg : Cfg) (fuel : Nat) (st : St) (ws : List WriteEv) (obs0 : Obs) :
    ∀ obs st', loop cfg fuel st ws obs0 = .ok (obs, st') →
      obs.writes.length + obs0.calls.count (true, none) ≤ obs0.writes.length + obs.calls.count (true, none) := by
  apply loop_induct cfg (fun st ws obs0 r => ∀ obs st', r = .ok (obs, st') →
      obs.writes.length + obs0.calls.count (true, none) ≤ obs0.writes.length + obs.calls.count (true, none))
  · intro _ _ _ obs st' h; cases h
  · intro st ws obs0 r hi obs st' hr
    subst hr
    cases hi with
    | endErr => simp [List.count_append]
    | endClean => simp
    | abort r hr => exact absurd rfl (hr _)
    | importStop => simp [List.count_append]
    | rowStop => simp [List.count_append]
    | exportStop line st1 row w ws' e re hscan herr hrow hp1 hx hp2 =>
      cases w <;> simp [List.count_append] <;> omega
  · intro st ws obs0 st1 ws1 obs1 r hi ih obs st' hr
    have := ih obs st' hr
    cases hi with
    | importNext => simp [List.count_append] at this; exact this
    | rowWritten line _ row w ws' hscan herr hrow hp1 hx =>
      cases w <;> simp [List.count_append] at this <;> omega
    | exportNext line _ row w ws' e hscan herr hrow hp1 hx hp2 =>
      cases w <;> simp [List.count_append] at this <;> omega

theorem C08_writes_count (cfg : Cfg) (fuel : Nat) (st : St) (ws : List WriteEv) (obs : Obs) (st' : St)
    (h : loop cfg fuel st ws ⟨none, [], []⟩ = .ok (obs, st')) :
    obs.writes.length ≤ obs.calls.count (true, none) := by
  have := C08_writes_count_aux cfg fuel st ws ⟨none, [], []⟩ obs st' h
  simpa using this

/-- B3, third part: with the default processor a failing write is the last write, and the stream
    returns the I/O error. -/
theorem C08_default_write_failure_aux (cfg : Cfg) (hp : cfg.proc = .default) (fuel : Nat) (st : St)
    (ws : List WriteEv) (obs0 : Obs) :
    ∀ obs st', loop cfg fuel st ws obs0 = .ok (obs, st') →
      ∃ new, obs.writes = obs0.writes ++ new ∧
        ∀ i ev, i < new.length → ws[i]? = some ev → ev.isFail = true →
          i + 1 = new.length ∧ obs.ret = some .io := by
  apply loop_induct cfg (fun st ws obs0 r => ∀ obs st', r = .ok (obs, st') →
      ∃ new, obs.writes = obs0.writes ++ new ∧
        ∀ i ev, i < new.length → ws[i]? = some ev → ev.isFail = true →
          i + 1 = new.length ∧ obs.ret = some .io)
  · intro _ _ _ obs st' h; cases h
  · intro st ws obs0 r hi obs st' hr
    subst hr
    cases hi with
    | endErr => exact ⟨[], by simp, fun i ev hi => by simp at hi⟩
    | endClean => exact ⟨[], by simp, fun i ev hi => by simp at hi⟩
    | abort r hr => exact absurd rfl (hr _)
    | importStop => exact ⟨[], by simp, fun i ev hi => by simp at hi⟩
    | rowStop => exact ⟨[], by simp, fun i ev hi => by simp at hi⟩
    | exportStop line st1 row w ws' e re hscan herr hrow hp1 hx hp2 =>
      rw [default_result cfg hp] at hp2; cases hp2
      rcases exportWith_cases hx with ⟨rfl, -, -⟩ | ⟨b, hb, rfl, -, hoe⟩
      · exact ⟨[], by simp, fun i ev hi => by simp at hi⟩
      · refine ⟨[writeResult b ws.head?], by simp, ?_⟩
        intro i ev hi hev hfail
        have hi0 : i = 0 := by simpa using hi
        subst hi0
        refine ⟨rfl, ?_⟩
        rcases hoe with ⟨h1, -⟩ | ⟨h1, -⟩
        · cases h1
        · cases h1; rfl
  · intro st ws obs0 st1 ws1 obs1 r hi ih obs st' hr
    obtain ⟨new, h1, h2⟩ := ih obs st' hr
    cases hi with
    | importNext line _ e hscan hwhy hp1 => rw [default_result cfg hp] at hp1; cases hp1
    | rowWritten line _ row w ws' hscan herr hrow hp1 hx =>
      rcases exportWith_cases hx with ⟨-, -, hne⟩ | ⟨b, hb, rfl, rfl, hoe⟩
      · exact absurd rfl hne
      · refine ⟨writeResult b ws.head? :: new, by simpa using h1, ?_⟩
        intro i ev hi hev hfail
        rcases hoe with ⟨-, hok⟩ | ⟨h0, -⟩
        · cases i with
          | zero =>
            have : ws.head? = some ev := by rw [← hev]; cases ws <;> simp
            rw [hok ev this] at hfail; cases hfail
          | succ j =>
            have hj : j < new.length := by simpa using hi
            have hev' : ws.tail[j]? = some ev := by rw [← hev]; cases ws <;> simp
            obtain ⟨g1, g2⟩ := h2 j ev hj hev' hfail
            exact ⟨by simp [g1], g2⟩
        · cases h0
    | exportNext line _ row w ws' e hscan herr hrow hp1 hx hp2 =>
      rw [default_result cfg hp] at hp2; cases hp2

theorem C08_default_write_failure (cfg : Cfg) (hp : cfg.proc = .default) (fuel : Nat) (st : St)
    (ws : List WriteEv) (obs : Obs) (st' : St)
    (h : loop cfg fuel st ws ⟨none, [], []⟩ = .ok (obs, st'))
    (i : Nat) (ev : WriteEv) (hi : i < obs.writes.length) (hev : ws[i]? = some ev) (hfail : ev.isFail = true) :
    i + 1 = obs.writes.length ∧ obs.ret = some .io := by
  obtain ⟨new, h1, h2⟩ := C08_default_write_failure_aux cfg hp fuel st ws ⟨none, [], []⟩ obs st' h
  simp only [List.nil_append] at h1
  rw [h1] at hi ⊢
  exact h2 i ev hi hev hfail


/-! ### C07: one outcome per line, in order, each depending on its line only -/

theorem C07_given_scanner (cfg : Cfg) {st : St} {lines : List Bytes}
    (hsc : ScansAs cfg.initSize cfg.maxSize st lines) :
    ∀ (fuel : Nat) (ws : List WriteEv) (obs : Obs) (os : List LineOutcome),
      (∀ w ∈ ws, w = WriteEv.ok) → mapOutcomes cfg lines = .ok os → lines.length < fuel →
      ∃ st', loop cfg fuel st ws obs = .ok (foldOutcomes cfg.proc os obs, st') := by
  induction hsc with
  | @nil s s' hs he =>
    intro fuel ws obs os _ hmap hfuel
    obtain ⟨f, rfl⟩ : ∃ f, fuel = f + 1 := ⟨fuel - 1, by simp at hfuel; omega⟩
    simp only [mapOutcomes, Outcome.ok.injEq] at hmap
    subst hmap
    refine ⟨s', ?_⟩
    rw [loop_succ]
    unfold lstep
    rw [hs]
    simp only [errOf, he, LStep.run, foldOutcomes]
  | @cons s s' l ls hs he _ ih =>
    intro fuel ws obs os hws hmap hfuel
    obtain ⟨f, rfl⟩ : ∃ f, fuel = f + 1 := ⟨fuel - 1, by simp at hfuel; omega⟩
    have hf : ls.length < f := by simp at hfuel; omega
    rw [loop_succ]
    simp only [mapOutcomes] at hmap
    cases hlo : lineOutcome cfg l with
    | err e => rw [hlo] at hmap; cases hmap
    | panic e => rw [hlo] at hmap; cases hmap
    | ok o =>
      rw [hlo] at hmap
      simp only [] at hmap
      cases hm : mapOutcomes cfg ls with
      | err e => rw [hm] at hmap; cases hmap
      | panic e => rw [hm] at hmap; cases hmap
      | ok os' =>
        rw [hm] at hmap
        simp only [Outcome.ok.injEq] at hmap
        subst hmap
        unfold lineOutcome at hlo
        cases hg : getRow cfg.env cfg.ti l with
        | err e => rw [hg] at hlo; cases hlo
        | panic e => rw [hg] at hlo; cases hlo
        | ok p =>
          obtain ⟨row, oe⟩ := p
          rw [hg] at hlo
          cases oe with
          | some e =>
            simp only [Outcome.ok.injEq] at hlo
            subst hlo
            unfold lstep
            rw [hs]
            simp only [errOf, he, hg, foldOutcomes]
            cases hr : cfg.proc.result obs.calls.length (some e) with
            | some re => exact ⟨s', rfl⟩
            | none => exact ih f ws _ os' hws hm hf
          | none =>
            simp only [] at hlo
            cases hx : exportLine cfg.env cfg.to (.val (.row (Members.ofList row))) with
            | err e => rw [hx] at hlo; cases hlo
            | panic e => rw [hx] at hlo; cases hlo
            | ok q =>
              obtain ⟨b, oe⟩ := q
              rw [hx] at hlo
              cases oe with
              | none =>
                simp only [Outcome.ok.injEq] at hlo
                subst hlo
                unfold lstep
                rw [hs]
                simp only [errOf, he, hg, foldOutcomes]
                cases hr : cfg.proc.result obs.calls.length none with
                | some re => exact ⟨s', rfl⟩
                | none =>
                  simp only []
                  cases ws with
                  | nil =>
                    simp only [exportWith, hx, LStep.run]
                    exact ih f [] _ os' (by simp) hm hf
                  | cons w rest =>
                    have hw : w = WriteEv.ok := hws w (by simp)
                    subst hw
                    simp only [exportWith, hx, LStep.run]
                    exact ih f rest _ os' (fun w hw => hws w (by simp [hw])) hm hf
              | some e =>
                simp only [Outcome.ok.injEq] at hlo
                subst hlo
                unfold lstep
                rw [hs]
                simp only [errOf, he, hg, foldOutcomes]
                cases hr : cfg.proc.result obs.calls.length none with
                | some re => exact ⟨s', rfl⟩
                | none =>
                  simp only [exportWith, hx, List.length_append, List.length_singleton]
                  cases hr2 : cfg.proc.result (obs.calls.length + 1) (some e) with
                  | some re => exact ⟨s', rfl⟩
                  | none => exact ih f ws _ os' hws hm hf


theorem specLinesAux_length : ∀ (f : Nat) (bs : Bytes), (specLinesAux f bs).length ≤ bs.length := by
  intro f
  induction f with
  | zero => intro bs; simp [specLinesAux]
  | succ f ih =>
    intro bs
    unfold specLinesAux
    split
    · simp
    · rename_i hne
      cases hs : splitLF bs with
      | none =>
        cases bs with
        | nil => simp at hne
        | cons a t => simp
      | some p =>
        obtain ⟨l, rest⟩ := p
        have h1 := (splitLF_some.mp hs).1
        have := ih rest
        simp only [List.length_cons]
        rw [h1]; simp; omega

theorem scriptSize_ge (reader : List ReadEv) : (allData reader).length + 2 ≤ scriptSize reader := by
  unfold scriptSize
  suffices h : ∀ (n : Nat), (allData reader).length + n ≤
      reader.foldl (fun n ev => n + (match ev with | .data b | .dataErr b => b.length + 1 | _ => 1)) n from
    h 2
  induction reader with
  | nil => intro n; simp [allData]
  | cons ev t ih =>
    intro n
    simp only [List.foldl_cons]
    cases ev with
    | data b => have := ih (n + (b.length + 1)); simp only [allData, List.length_append]; omega
    | dataErr b => have := ih (n + (b.length + 1)); simp only [allData]; omega
    | err => have := ih (n + 1); simp only [allData]; omega
    | empty => have := ih (n + 1); simp only [allData]; omega

/-- C07: for a fault-free reader (only `data`/`empty` events, at most 100 consecutive empty reads)
    whose lines fit the limit, and a writer that never fails, the observation of the stream is the
    specification's: one outcome per line of the concatenated data, in order, each computed from
    its line and the templates alone (`lineOutcome`), folded through the processor — whatever the
    chunking of the reader and the buffer sizes.  (`hmap`: no line runs into a model-external
    `.err`/`.panic` outcome; see the note below.) -/
theorem C07_stream_eq_spec (cfg : Cfg) (reader : List ReadEv) (ws : List WriteEv)
    (hcalm : Calm 100 reader) (hfit : LinesFit cfg.maxSize (allData reader))
    (hle : cfg.initSize ≤ cfg.maxSize) (hpow : cfg.maxSize ≤ cfg.initSize * 2 ^ 200)
    (hws : ∀ w ∈ ws, w = WriteEv.ok) (os : List LineOutcome)
    (hmap : mapOutcomes cfg (specLines (allData reader)) = .ok os) :
    stream cfg reader ws = specObs cfg (allData reader) := by
  have hsc := A4_chunk_independence cfg.initSize cfg.maxSize reader hcalm hfit hle hpow
  have hfuel : (specLines (allData reader)).length < scriptSize reader + 2 := by
    have h1 := specLinesAux_length ((allData reader).length + 1) (allData reader)
    have h2 := scriptSize_ge reader
    unfold specLines; omega
  obtain ⟨st', h⟩ := C07_given_scanner cfg hsc (scriptSize reader + 2) ws ⟨none, [], []⟩ os hws hmap hfuel
  unfold stream streamSt specObs
  rw [h, hmap]


/- Note on `hmap` in `C07_stream_eq_spec`.  `specObs` evaluates `lineOutcome` for *every* line before
   folding (`mapOutcomes`), while the loop stops at the first error the processor returns.  So when
   the processor stops the stream at line k and some later line has a model-level `.err`/`.panic`
   outcome (e.g. `.err .ext`: an answer of the standard library that was not supplied), `stream`
   is `.ok _` and `specObs` is `.err _`/`.panic _`: the unconditional equation

     theorem C07_unconditional … : stream cfg reader ws = specObs cfg (allData reader)

   does NOT hold in the model and is not claimed; it holds under `hmap` (all lines have a proper
   outcome), which is the statement proved above.  (For a processor that never returns an error the
   equation also holds without `hmap`; not proved here.) -/

/-! ### C08 at the level of `streamSt` -/

/-- C08, summary: if `Stream()` returns nil and no processor call carried an error, then the
    scanner ended cleanly at EOF with the whole input consumed — no read error at any offset, no
    over-long line, no stalled reader, nothing left in the buffer or the reader. -/
theorem C08_silent_success_consumed_everything (cfg : Cfg) (reader : List ReadEv) (ws : List WriteEv)
    (obs : Obs) (st' : St) (hpow : cfg.maxSize ≤ cfg.initSize * 2 ^ 200)
    (h : streamSt cfg reader ws = .ok (obs, st')) (hret : obs.ret = none)
    (hcalls : ∀ c ∈ obs.calls, c.2 = none) :
    st'.err = none ∧ st'.eof = true ∧ st'.script = [] ∧ st'.buf = [] := by
  rcases C08_nil_return cfg _ _ ws _ obs st' (Ready.init cfg reader hpow) h hret with ⟨e, -, hl⟩ | hc
  · have := hcalls _ (List.mem_of_getLast? hl); cases this
  · exact hc

/-- C08, summary (contrapositive reading): whenever the scanner ends with an error — the reader
    failed at any offset, a line exceeded the limit, or the reader stalled — the stream returned
    an error or the processor was called with that error. -/
theorem C08_failure_reported (cfg : Cfg) (reader : List ReadEv) (ws : List WriteEv)
    (obs : Obs) (st' : St) (e : ScanErr)
    (h : streamSt cfg reader ws = .ok (obs, st')) (herr : errOf st' = some e) :
    obs.ret ≠ none ∨ ∃ c ∈ obs.calls, c.2 = some (scanErrClass e) := by
  cases hr : obs.ret with
  | some re => left; simp
  | none => right; exact C08_scanner_error_reported cfg _ _ ws _ obs st' e h hr herr

/-! ### Concrete instances (non-vacuity); the paths below never reach `getRow` -/

section Examples
variable (env : Env)

private def cfgOf (env : Env) (p : Proc) : Cfg :=
  { env := env, ti := [], to := [], proc := p, initSize := 2, maxSize := 4 }

/-- the reader fails at offset 0 -/
example : stream (cfgOf env .default) [.err] [] = .ok ⟨some .io, [(false, some .io)], []⟩ := by
  simp [stream, streamSt, scriptSize, loop_succ, lstep, cfgOf, Scanner.init, scanFuel, scan_succ, step,
    splitLF, hasErr, more, shift, Step.run, readLoop, readOnce, errOf, scanErrClass, Proc.result, LStep.run]

/-- the reader fails exactly after a newline, the error arriving with the bytes: the line is not
    processed, the error is -/
example : stream (cfgOf env .default) [.dataErr [0x61, 0x0A]] [] = .ok ⟨some .io, [(false, some .io)], []⟩ := by
  simp [stream, streamSt, scriptSize, loop_succ, lstep, cfgOf, Scanner.init, scanFuel, scan_succ, step,
    splitLF, hasErr, more, shift, Step.run, readLoop, readOnce, errOf, scanErrClass, Proc.result, LStep.run,
    dropCR]

/-- an over-long line with a processor that tolerates everything: nil is returned, but the
    processor has been told -/
example : stream (cfgOf env .tolerant) [.data [0x61, 0x62, 0x63, 0x64, 0x65, 0x0A]] [] =
    .ok ⟨none, [(false, some .tooLong)], []⟩ := by
  simp [stream, streamSt, scriptSize, loop_succ, lstep, cfgOf, Scanner.init, scanFuel, scan_succ, step,
    splitLF, hasErr, more, shift, grow, Step.run, readLoop, readOnce, errOf, scanErrClass, Proc.result,
    LStep.run]

end Examples

end Jl.Stream
