/-
  Proofs.Scanner — facts about the bufio.Scanner port (Model.Scanner) used by C07/C08.

  A1  `scan_err_sticky`, `scan_err_none`, `scan_eof_sticky`, `readLoop_err_none`, `readLoop_err_some`,
      `readLoop_eof_sticky` (and `scan_facts`: done/cap/WF/bookkeeping invariants).
  A2  `scan_none_reason`, `scan_none_clean` (fuel `≥ 2 * script.length + d + 4` where
      `maxSize ≤ cap * 2 ^ d`; `loop_fuel_ok`: the streaming loop's fuel covers `d = 200`).
  A3  `scan_conserve` (and `scan_none_pending`).
  A4  `A4_chunk_independence` (via `Good`, `scan_good`, `scansAs_of_good`), `ScansAs.unique`.

  Method: `scan_succ` rewrites one unfolding of `scan` as `(step m s).run (scan … fuel)` with a
  non-recursive `step`; `step_ret`/`step_cont` invert it; `readLoop_facts` collects what the inner
  read loop can do; `scan_induct` is the induction principle used for the fuel-independent facts.
-/
import Model.Scanner
import Model.Stream

namespace Jl.Scanner

/-! ### splitLF / scanLines -/

theorem splitLF_some {d l r : Bytes} :
    splitLF d = some (l, r) ↔ d = l ++ 0x0A :: r ∧ (0x0A : UInt8) ∉ l := by
  induction d generalizing l r with
  | nil => simp [splitLF]
  | cons c rest ih =>
    unfold splitLF
    by_cases hc : c = 0x0A
    · subst hc
      simp only [beq_self_eq_true, if_true, Option.some.injEq, Prod.mk.injEq]
      constructor
      · rintro ⟨rfl, rfl⟩; simp
      · rintro ⟨h, hn⟩
        cases l with
        | nil => simpa using h
        | cons a l' =>
          simp only [List.cons_append, List.cons.injEq] at h
          exact absurd (by simp [h.1]) hn
    · have hc' : (c == 0x0A) = false := by simpa using hc
      simp only [hc', Bool.false_eq_true, if_false]
      cases hs : splitLF rest with
      | none =>
        simp only [false_iff, reduceCtorEq]
        rintro ⟨h, hn⟩
        cases l with
        | nil => simp only [List.nil_append, List.cons.injEq] at h; exact hc h.1
        | cons a l' =>
          simp only [List.cons_append, List.cons.injEq] at h
          have : splitLF rest = some (l', r) := ih.mpr ⟨h.2, fun hm => hn (List.mem_cons_of_mem _ hm)⟩
          simp [hs] at this
      | some p =>
        obtain ⟨l0, r0⟩ := p
        have h0 := ih.mp hs
        simp only [Option.some.injEq, Prod.mk.injEq]
        constructor
        · rintro ⟨rfl, rfl⟩
          refine ⟨by simp [h0.1], ?_⟩
          simp only [List.mem_cons, not_or]
          exact ⟨fun h => hc h.symm, h0.2⟩
        · rintro ⟨h, hn⟩
          cases l with
          | nil => simp only [List.nil_append, List.cons.injEq] at h; exact absurd h.1 hc
          | cons a l' =>
            simp only [List.cons_append, List.cons.injEq] at h
            have : splitLF rest = some (l', r) := ih.mpr ⟨h.2, fun hm => hn (List.mem_cons_of_mem _ hm)⟩
            rw [hs] at this
            simp only [Option.some.injEq, Prod.mk.injEq] at this
            exact ⟨by rw [h.1, this.1], this.2⟩

theorem splitLF_none {d : Bytes} : splitLF d = none ↔ (0x0A : UInt8) ∉ d := by
  induction d with
  | nil => simp [splitLF]
  | cons c rest ih =>
    unfold splitLF
    by_cases hc : c = 0x0A
    · subst hc; simp
    · have hc' : (c == 0x0A) = false := by simpa using hc
      simp only [hc', Bool.false_eq_true, if_false, List.mem_cons, not_or]
      cases hs : splitLF rest with
      | none => simp [ih.mp hs, Ne.symm hc]
      | some p =>
        simp only [reduceCtorEq, false_iff, not_and, Decidable.not_not]
        intro _
        have : ¬ (0x0A : UInt8) ∉ rest := fun h => by simp [ih.mpr h] at hs
        exact Decidable.not_not.mp this


/-! ### One iteration of `Scan`'s outer loop, as a non-recursive function -/

def hasErr (s : St) : Bool := s.err.isSome || s.eof

/-- Compaction (`copy(s.buf, s.buf[s.start:s.end])`). -/
def shift (s : St) : St :=
  if s.start > 0 && (s.start + s.buf.length == s.cap || s.start > s.cap / 2) then { s with start := 0 } else s

/-- Buffer doubling. -/
def grow (m : Nat) (s : St) : St :=
  { s with cap := min (if s.cap == 0 then 4096 else s.cap * 2) m, start := 0 }

inductive Step
  | ret (r : Option Bytes × St)
  | cont (s : St)

/-- The "read more" part of an iteration. -/
def more (m : Nat) (s : St) : Step :=
  let s1 := shift s
  if s1.start + s1.buf.length == s1.cap then
    if s1.cap ≥ m then .ret (none, { s1 with err := some .tooLong })
    else .cont (readLoop (grow m s1) 101)
  else .cont (readLoop s1 101)

def step (m : Nat) (s : St) : Step :=
  if s.done then .ret (none, s)
  else
    match splitLF s.buf with
    | some (l, r) => .ret (some (dropCR l), { s with buf := r, start := s.start + (l.length + 1) })
    | none =>
      if hasErr s then
        if s.buf = [] then .ret (none, { s with buf := [], start := 0 })
        else .ret (some (dropCR s.buf), { s with buf := [], start := s.start + s.buf.length })
      else more m s

def Step.run (k : St → Option Bytes × St) : Step → Option Bytes × St
  | .ret r => r
  | .cont s => k s

theorem splitLF_drop {d l r : Bytes} (h : splitLF d = some (l, r)) : d.drop (l.length + 1) = r := by
  have := (splitLF_some.mp h).1
  subst this
  rw [show l ++ 10 :: r = (l ++ [10]) ++ r by simp, List.drop_left' (by simp)]

theorem scan_succ (i m fuel : Nat) (s : St) :
    scan i m (fuel + 1) s = (step m s).run (scan i m fuel) := by
  obtain ⟨buf, start, cap, err, eof, script, done⟩ := s
  unfold scan step
  cases done with
  | true => simp [Step.run]
  | false =>
    simp only [Bool.false_eq_true, if_false]
    cases hs : splitLF buf with
    | some p =>
      obtain ⟨l, r⟩ := p
      have hne : buf.length > 0 := by
        have := (splitLF_some.mp hs).1; rw [this]; simp; omega
      simp [scanLines, hs, hne, splitLF_drop hs, Step.run, List.isEmpty_iff, List.ne_nil_of_length_pos hne]
    | none =>
      cases he : (err.isSome || eof) with
      | true =>
        by_cases hb : buf = []
        · simp [scanLines, he, hb, Step.run, hasErr]
        · have hne : buf.length > 0 := List.length_pos_iff.mpr hb
          simp [scanLines, hs, he, hb, Step.run, hne, List.isEmpty_iff, hasErr]
      | false =>
        have hrun : ∀ (c : Prop) [Decidable c] (a b : Step),
            (if c then a else b).run (scan i m fuel) =
              if c then a.run (scan i m fuel) else b.run (scan i m fuel) := by
          intro c _ a b; split <;> rfl
        simp only [scanLines, hs, he, hasErr, Bool.or_false, Bool.false_and, Bool.false_eq_true, if_false,
          more, shift, grow, hrun]
        simp only [Step.run]
        by_cases hb : buf.length > 0
        · simp only [hb, decide_true, if_true]
        · simp only [hb, decide_false, Bool.false_eq_true, if_false]


/-! ### The inner read loop -/

/-- The bytes the reader will still deliver before its first error. -/
def scriptBytes : List ReadEv → Bytes
  | [] => []
  | .data bs :: rest => bs ++ scriptBytes rest
  | .dataErr bs :: _ => bs
  | .err :: _ => []
  | .empty :: rest => scriptBytes rest

/-- Everything not yet delivered as a token: the buffered bytes and what the reader still holds. -/
def pending (s : St) : Bytes := s.buf ++ scriptBytes s.script

theorem readOnce_eof {sp : Nat} {sc rest : List ReadEv} (h : readOnce sp sc = (.eof, rest)) :
    sc = [] ∧ rest = [] := by
  cases sc with
  | nil => simp [readOnce] at h; exact ⟨rfl, h⟩
  | cons ev t =>
    cases ev <;> simp only [readOnce] at h <;> (try split at h) <;> simp at h

theorem readOnce_got {sp : Nat} {sc rest : List ReadEv} {bs : Bytes} {e : Bool}
    (h : readOnce sp sc = (.got bs e, rest)) :
    rest.length ≤ sc.length ∧ bs.length ≤ sp ∧
    (e = false → scriptBytes sc = bs ++ scriptBytes rest) ∧
    (rest.length < sc.length ∨ (bs.length = sp ∧ e = false ∧ sc ≠ [] ∧ rest ≠ [])) := by
  cases sc with
  | nil => simp [readOnce] at h
  | cons ev t =>
    cases ev with
    | data b =>
      simp only [readOnce] at h
      split at h
      · simp only [Prod.mk.injEq, ReadRes.got.injEq] at h
        obtain ⟨⟨rfl, rfl⟩, rfl⟩ := h
        simp [scriptBytes, *]
      · simp only [Prod.mk.injEq, ReadRes.got.injEq] at h
        obtain ⟨⟨rfl, rfl⟩, rfl⟩ := h
        simp only [scriptBytes, List.length_cons, List.length_take]
        refine ⟨Nat.le_refl _, Nat.min_le_left _ _, fun _ => ?_, Or.inr ⟨by omega, by simp⟩⟩
        rw [← List.append_assoc, List.take_append_drop]
    | dataErr b =>
      simp only [readOnce] at h
      split at h
      · simp only [Prod.mk.injEq, ReadRes.got.injEq] at h
        obtain ⟨⟨rfl, rfl⟩, rfl⟩ := h
        simp [*]
      · simp only [Prod.mk.injEq, ReadRes.got.injEq] at h
        obtain ⟨⟨rfl, rfl⟩, rfl⟩ := h
        simp only [scriptBytes, List.length_cons, List.length_take]
        refine ⟨Nat.le_refl _, Nat.min_le_left _ _, fun _ => ?_, Or.inr ⟨by omega, by simp⟩⟩
        rw [List.take_append_drop]
    | err =>
      simp only [readOnce, Prod.mk.injEq, ReadRes.got.injEq] at h
      obtain ⟨⟨rfl, rfl⟩, rfl⟩ := h
      simp
    | empty =>
      simp only [readOnce, Prod.mk.injEq, ReadRes.got.injEq] at h
      obtain ⟨⟨rfl, rfl⟩, rfl⟩ := h
      simp [scriptBytes]

/-- The four ways one turn of the read loop can go. -/
theorem readLoop_succ_cases (s : St) (n : Nat) :
    (s.script = [] ∧ readLoop s (n + 1) = { s with eof := true, script := [] }) ∨
    (∃ bs rest, readOnce (s.cap - (s.start + s.buf.length)) s.script = (.got bs true, rest) ∧
      readLoop s (n + 1) = { s with buf := s.buf ++ bs, script := rest, err := some .io }) ∨
    (∃ bs rest, readOnce (s.cap - (s.start + s.buf.length)) s.script = (.got bs false, rest) ∧ bs ≠ [] ∧
      readLoop s (n + 1) = { s with buf := s.buf ++ bs, script := rest }) ∨
    (∃ rest, readOnce (s.cap - (s.start + s.buf.length)) s.script = (.got [] false, rest) ∧
      readLoop s (n + 1) = readLoop { s with script := rest } n) := by
  cases hr : readOnce (s.cap - (s.start + s.buf.length)) s.script with
  | mk res rest =>
    cases res with
    | eof =>
      obtain ⟨h1, h2⟩ := readOnce_eof hr
      left; refine ⟨h1, ?_⟩; simp only [readLoop, hr, h2]
    | got bs e =>
      cases e with
      | true => right; left; exact ⟨bs, rest, rfl, by simp only [readLoop, hr, if_true]⟩
      | false =>
        by_cases hb : bs = []
        · right; right; right; subst hb
          exact ⟨rest, rfl, by simp [readLoop, hr]⟩
        · right; right; left
          have : bs.length > 0 := List.length_pos_iff.mpr hb
          exact ⟨bs, rest, rfl, hb, by simp [readLoop, hr, this]⟩


/-- What the read loop can do to a scanner state. -/
structure ReadFacts (s s' : St) : Prop where
  start : s'.start = s.start
  cap : s'.cap = s.cap
  done : s'.done = s.done
  script_le : s'.script.length ≤ s.script.length
  err_none : s'.err = none → s.err = none
  err_some : s.err.isSome = true → s'.err.isSome = true
  eof_mono : s.eof = true → s'.eof = true
  buf_len : s.buf.length ≤ s'.buf.length
  pending : s'.err = none → pending s' = pending s
  wf : (s.eof = true → s.script = []) → (s'.eof = true → s'.script = [])
  inv : s.start + s.buf.length ≤ s.cap → s'.start + s'.buf.length ≤ s'.cap
  progress : s'.err = none → s'.eof = false →
    s.buf.length < s'.buf.length ∧
      (s'.script.length < s.script.length ∨ s'.start + s'.buf.length = s'.cap)

theorem readLoop_facts (s : St) (n : Nat) : ReadFacts s (readLoop s n) := by
  induction n generalizing s with
  | zero => constructor <;> simp [readLoop, pending]
  | succ n ih =>
    rcases readLoop_succ_cases s n with ⟨h1, h⟩ | ⟨bs, rest, hr, h⟩ | ⟨bs, rest, hr, hb, h⟩ | ⟨rest, hr, h⟩
    · rw [h]; constructor <;> simp_all [pending, scriptBytes]
    · rw [h]
      obtain ⟨g1, g2, g3, g4⟩ := readOnce_got hr
      refine ⟨rfl, rfl, rfl, g1, ?_, ?_, id, ?_, ?_, ?_, ?_, ?_⟩
      · intro h0; simp at h0
      · intro _; rfl
      · simp
      · intro h0; simp at h0
      · intro hw he
        have := hw he; simp [this, readOnce] at hr
      · intro hi; simp only [List.length_append]; omega
      · intro h0; simp at h0
    · rw [h]
      obtain ⟨g1, g2, g3, g4⟩ := readOnce_got hr
      have hpos : bs.length > 0 := List.length_pos_iff.mpr hb
      refine ⟨rfl, rfl, rfl, g1, id, id, id, ?_, ?_, ?_, ?_, ?_⟩
      · simp
      · intro _; simp [pending, g3]
      · intro hw he
        have := hw he; simp [this, readOnce] at hr
      · intro hi; simp only [List.length_append]; omega
      · intro _ _
        simp only [List.length_append]
        refine ⟨by omega, ?_⟩
        rcases g4 with g4 | g4
        · left; exact g4
        · right; omega
    · rw [h]
      obtain ⟨g1, g2, g3, g4⟩ := readOnce_got hr
      have := ih { s with script := rest }
      constructor
      · exact this.start
      · exact this.cap
      · exact this.done
      · exact Nat.le_trans this.script_le g1
      · exact this.err_none
      · exact this.err_some
      · exact this.eof_mono
      · exact this.buf_len
      · intro h0; rw [this.pending h0]; simp [pending, g3]
      · intro hw; apply this.wf; intro he
        have := hw he; simp [this, readOnce] at hr
      · exact this.inv
      · intro h0 h1
        obtain ⟨p1, p2⟩ := this.progress h0 h1
        refine ⟨p1, ?_⟩
        rcases p2 with p2 | p2
        · left; exact Nat.lt_of_lt_of_le p2 g1
        · right; exact p2


/-! ### Case analysis of one iteration -/

theorem shift_fields (s : St) :
    (shift s).buf = s.buf ∧ (shift s).cap = s.cap ∧ (shift s).err = s.err ∧ (shift s).eof = s.eof ∧
    (shift s).script = s.script ∧ (shift s).done = s.done ∧
    ((shift s).start = s.start ∨ (shift s).start = 0) := by
  unfold shift; split <;> simp

/-- If the buffer is full after compaction, it starts at 0. -/
theorem shift_full (s : St) (h : (shift s).start + s.buf.length = s.cap) : (shift s).start = 0 := by
  unfold shift at h ⊢
  split
  · rfl
  · rename_i hc
    simp only [hc, Bool.false_eq_true, if_false] at h
    simp only [Bool.and_eq_true, Bool.or_eq_true, decide_eq_true_eq, beq_iff_eq, not_and, not_or] at hc
    by_cases h0 : s.start > 0
    · exact absurd h (hc h0).1
    · omega

theorem more_cases (m : Nat) (s : St) :
    ((shift s).start + s.buf.length = s.cap ∧ s.cap ≥ m ∧
      more m s = .ret (none, { shift s with err := some .tooLong })) ∨
    ((shift s).start + s.buf.length = s.cap ∧ s.cap < m ∧
      more m s = .cont (readLoop (grow m (shift s)) 101)) ∨
    ((shift s).start + s.buf.length ≠ s.cap ∧ more m s = .cont (readLoop (shift s) 101)) := by
  obtain ⟨h1, h2, -⟩ := shift_fields s
  unfold more
  simp only [h1, h2, beq_iff_eq]
  by_cases hf : (shift s).start + s.buf.length = s.cap
  · by_cases hm : s.cap ≥ m
    · left; simp [hf, hm]
    · right; left; simp only [hf, hm, if_true, if_false]; exact ⟨trivial, by omega, trivial⟩
  · right; right; simp [hf]

theorem step_cases (m : Nat) (s : St) (hd : s.done = false) :
    (∃ l r, splitLF s.buf = some (l, r) ∧
      step m s = .ret (some (dropCR l), { s with buf := r, start := s.start + (l.length + 1) })) ∨
    (splitLF s.buf = none ∧ hasErr s = true ∧ s.buf = [] ∧
      step m s = .ret (none, { s with buf := [], start := 0 })) ∨
    (splitLF s.buf = none ∧ hasErr s = true ∧ s.buf ≠ [] ∧
      step m s = .ret (some (dropCR s.buf), { s with buf := [], start := s.start + s.buf.length })) ∨
    (splitLF s.buf = none ∧ hasErr s = false ∧ step m s = more m s) := by
  unfold step
  simp only [hd, Bool.false_eq_true, if_false]
  cases hs : splitLF s.buf with
  | some p => obtain ⟨l, r⟩ := p; left; exact ⟨l, r, rfl, rfl⟩
  | none =>
    right
    by_cases he : hasErr s = true
    · by_cases hb : s.buf = []
      · left; simp [he, hb]
      · right; left; simp [he, hb]
    · right; right; simp [he]

theorem scan_induct (i m : Nat) (P : St → Option Bytes × St → Prop)
    (h0 : ∀ s, P s (none, s))
    (hret : ∀ s r, step m s = .ret r → P s r)
    (hcont : ∀ s s1 f, step m s = .cont s1 → P s1 (scan i m f s1) → P s (scan i m f s1)) :
    ∀ fuel s, P s (scan i m fuel s) := by
  intro fuel
  induction fuel with
  | zero => intro s; exact h0 s
  | succ f ih =>
    intro s
    rw [scan_succ]
    cases hs : step m s with
    | ret r => exact hret s r hs
    | cont s1 => exact hcont s s1 f hs (ih s1)

theorem step_done (m : Nat) (s : St) (hd : s.done = true) : step m s = .ret (none, s) := by
  simp [step, hd]

/-- Inversion: an iteration that continues has read more input. -/
theorem step_cont {m : Nat} {s s1 : St} (h : step m s = .cont s1) :
    s.done = false ∧ hasErr s = false ∧ splitLF s.buf = none ∧
    (((shift s).start = 0 ∧ s.buf.length = s.cap ∧ s.cap < m ∧ s1 = readLoop (grow m (shift s)) 101) ∨
     ((shift s).start + s.buf.length ≠ s.cap ∧ s1 = readLoop (shift s) 101)) := by
  by_cases hd' : s.done = true
  · rw [step_done m s hd'] at h; cases h
  · have hd : s.done = false := by simpa using hd'
    refine ⟨hd, ?_⟩
    rcases step_cases m s hd with ⟨l, r, -, h1⟩ | ⟨-, -, -, h1⟩ | ⟨-, -, -, h1⟩ | ⟨hs, he, h1⟩
    · rw [h1] at h; cases h
    · rw [h1] at h; cases h
    · rw [h1] at h; cases h
    · refine ⟨he, hs, ?_⟩
      rw [h1] at h
      rcases more_cases m s with ⟨-, -, h2⟩ | ⟨hf, hm, h2⟩ | ⟨hf, h2⟩
      · rw [h2] at h; cases h
      · rw [h2] at h; cases h
        have h0 := shift_full s hf
        left; exact ⟨h0, by omega, hm, rfl⟩
      · rw [h2] at h; cases h
        right; exact ⟨hf, rfl⟩

/-- Inversion: the ways an iteration returns. -/
theorem step_ret {m : Nat} {s : St} {r : Option Bytes × St} (h : step m s = .ret r) :
    (s.done = true ∧ r = (none, s)) ∨
    (s.done = false ∧ ∃ l rest, splitLF s.buf = some (l, rest) ∧
      r = (some (dropCR l), { s with buf := rest, start := s.start + (l.length + 1) })) ∨
    (s.done = false ∧ splitLF s.buf = none ∧ hasErr s = true ∧ s.buf = [] ∧
      r = (none, { s with buf := [], start := 0 })) ∨
    (s.done = false ∧ splitLF s.buf = none ∧ hasErr s = true ∧ s.buf ≠ [] ∧
      r = (some (dropCR s.buf), { s with buf := [], start := s.start + s.buf.length })) ∨
    (s.done = false ∧ splitLF s.buf = none ∧ hasErr s = false ∧
      (shift s).start = 0 ∧ s.buf.length = s.cap ∧ s.cap ≥ m ∧
      r = (none, { shift s with err := some .tooLong })) := by
  by_cases hd' : s.done = true
  · rw [step_done m s hd'] at h; cases h; left; exact ⟨hd', rfl⟩
  · have hd : s.done = false := by simpa using hd'
    right
    rcases step_cases m s hd with ⟨l, rest, hs, h1⟩ | ⟨hs, he, hb, h1⟩ | ⟨hs, he, hb, h1⟩ | ⟨hs, he, h1⟩
    · rw [h1] at h; cases h; left; exact ⟨hd, l, rest, hs, rfl⟩
    · rw [h1] at h; cases h; right; left; exact ⟨hd, hs, he, hb, rfl⟩
    · rw [h1] at h; cases h; right; right; left; exact ⟨hd, hs, he, hb, rfl⟩
    · right; right; right
      rw [h1] at h
      rcases more_cases m s with ⟨hf, hm, h2⟩ | ⟨-, -, h2⟩ | ⟨-, h2⟩
      · rw [h2] at h; cases h
        have h0 := shift_full s hf
        exact ⟨hd, hs, he, h0, by omega, hm, rfl⟩
      · rw [h2] at h; cases h
      · rw [h2] at h; cases h


theorem grow_cap {m : Nat} {s : St} (h : s.cap < m) : s.cap < (grow m s).cap ∧ (grow m s).cap ≤ m := by
  simp only [grow]
  by_cases h0 : s.cap = 0
  · simp only [h0, beq_self_eq_true, if_true]; omega
  · have : (s.cap == 0) = false := by simpa using h0
    simp only [this, Bool.false_eq_true, if_false]; omega

/-! ### A1, and the other fuel-independent facts about `scan` -/

structure ScanFacts (m : Nat) (s : St) (r : Option Bytes × St) : Prop where
  done : r.2.done = s.done
  cap : s.cap ≤ r.2.cap
  cap_max : s.cap ≤ m → r.2.cap ≤ m
  script_le : r.2.script.length ≤ s.script.length
  err_sticky : ∀ e, s.err = some e → r.2.err = some e
  eof_sticky : s.eof = true → r.2.eof = true
  wf : (s.eof = true → s.script = []) → (r.2.eof = true → r.2.script = [])
  inv : s.start + s.buf.length ≤ s.cap → r.2.start + r.2.buf.length ≤ r.2.cap

theorem scan_facts (i m fuel : Nat) (s : St) : ScanFacts m s (scan i m fuel s) := by
  apply scan_induct i m (ScanFacts m)
  · intro s; exact ⟨rfl, Nat.le_refl _, id, Nat.le_refl _, fun _ h => h, id, id, id⟩
  · intro s r h
    obtain ⟨f1, f2, f3, f4, f5, f6, f7⟩ := shift_fields s
    rcases step_ret h with ⟨-, rfl⟩ | ⟨-, l, rest, hs, rfl⟩ | ⟨-, -, -, -, rfl⟩ | ⟨-, -, -, -, rfl⟩ |
      ⟨-, -, he, h0, hb, hm, rfl⟩
    · exact ⟨rfl, Nat.le_refl _, id, Nat.le_refl _, fun _ h => h, id, id, id⟩
    · refine ⟨rfl, Nat.le_refl _, id, Nat.le_refl _, fun _ h => h, id, id, ?_⟩
      have := (splitLF_some.mp hs).1
      simp only [this, List.length_append, List.length_cons]; omega
    · exact ⟨rfl, Nat.le_refl _, id, Nat.le_refl _, fun _ h => h, id, id, by simp⟩
    · exact ⟨rfl, Nat.le_refl _, id, Nat.le_refl _, fun _ h => h, id, id, by simp⟩
    · refine ⟨f6, Nat.le_of_eq f2.symm, by simp [f2], by simp [f5], ?_, by simp [f4], by simp [f4, f5], ?_⟩
      · intro e he'; simp [hasErr, he'] at he
      · simp [h0, f1, f2, hb]
  · intro s s1 f h ih
    obtain ⟨f1, f2, f3, f4, f5, f6, f7⟩ := shift_fields s
    obtain ⟨hd, he, hs, hc⟩ := step_cont h
    have he' : s.err = none ∧ s.eof = false := by
      simpa [hasErr] using he
    -- the state handed to the read loop
    have key : ∃ s0, s1 = readLoop s0 101 ∧ s0.done = s.done ∧ s.cap ≤ s0.cap ∧ (s.cap ≤ m → s0.cap ≤ m) ∧
        s0.script = s.script ∧ s0.eof = s.eof ∧
        (s.start + s.buf.length ≤ s.cap → s0.start + s0.buf.length ≤ s0.cap) := by
      rcases hc with ⟨h0, hb, hm, rfl⟩ | ⟨hf, rfl⟩
      · refine ⟨_, rfl, f6, ?_, ?_, f5, f4, ?_⟩
        · have := (grow_cap (s := shift s) (by rw [f2]; exact hm)).1; rw [f2] at this; omega
        · intro _; exact (grow_cap (s := shift s) (by rw [f2]; exact hm)).2
        · intro _
          have := (grow_cap (s := shift s) (by rw [f2]; exact hm)).1
          rw [f2] at this
          show 0 + (shift s).buf.length ≤ (grow m (shift s)).cap
          rw [f1]; omega
      · refine ⟨_, rfl, f6, Nat.le_of_eq f2.symm, by rw [f2]; exact id, f5, f4, ?_⟩
        intro hi; rw [f1, f2]; rcases f7 with f7 | f7 <;> rw [f7] <;> omega
    obtain ⟨s0, rfl, k1, k2, k3, k4, k5, k6⟩ := key
    have rf := readLoop_facts s0 101
    refine ⟨?_, ?_, ?_, ?_, ?_, ?_, ?_, ?_⟩
    · rw [ih.done, rf.done, k1]
    · exact Nat.le_trans (Nat.le_trans k2 (Nat.le_of_eq rf.cap.symm)) ih.cap
    · intro hm; exact ih.cap_max (by rw [rf.cap]; exact k3 hm)
    · exact Nat.le_trans ih.script_le (Nat.le_trans rf.script_le (Nat.le_of_eq (congrArg _ k4)))
    · intro e h'; rw [he'.1] at h'; cases h'
    · intro h'; rw [he'.2] at h'; cases h'
    · intro _; apply ih.wf; apply rf.wf; intro h'; rw [k5, he'.2] at h'; cases h'
    · intro hi; exact ih.inv (rf.inv (k6 hi))

/-- A1: once the scanner has an error it keeps that error. -/
theorem scan_err_sticky (i m fuel : Nat) (s : St) (e : ScanErr) (h : s.err = some e) :
    (scan i m fuel s).2.err = some e := (scan_facts i m fuel s).err_sticky e h

/-- A1 (contrapositive form). -/
theorem scan_err_none (i m fuel : Nat) (s : St) (h : (scan i m fuel s).2.err = none) : s.err = none := by
  cases he : s.err with
  | none => rfl
  | some e => rw [scan_err_sticky i m fuel s e he] at h; cases h

/-- A1 for `eof`. -/
theorem scan_eof_sticky (i m fuel : Nat) (s : St) (h : s.eof = true) :
    (scan i m fuel s).2.eof = true := (scan_facts i m fuel s).eof_sticky h

/-- A1 for the read loop: it never clears an error, nor the EOF mark. -/
theorem readLoop_err_none (s : St) (n : Nat) (h : (readLoop s n).err = none) : s.err = none :=
  (readLoop_facts s n).err_none h

theorem readLoop_err_some (s : St) (n : Nat) (h : s.err.isSome = true) : (readLoop s n).err.isSome = true :=
  (readLoop_facts s n).err_some h

theorem readLoop_eof_sticky (s : St) (n : Nat) (h : s.eof = true) : (readLoop s n).eof = true :=
  (readLoop_facts s n).eof_mono h


/-! ### A2: `scan` returns `none` only for a reason -/

theorem hasErr_scan (i m fuel : Nat) (s : St) (h : hasErr s = true) : hasErr (scan i m fuel s).2 = true := by
  simp only [hasErr, Bool.or_eq_true] at h ⊢
  rcases h with h | h
  · left
    obtain ⟨e, he⟩ := Option.isSome_iff_exists.mp h
    rw [scan_err_sticky i m fuel s e he]; rfl
  · right; exact scan_eof_sticky i m fuel s h

theorem grow_pow {m d : Nat} {s : St} (h : s.cap < m) (hd : m ≤ s.cap * 2 ^ d) :
    ∃ d', d = d' + 1 ∧ m ≤ (grow m s).cap * 2 ^ d' := by
  cases d with
  | zero => simp at hd; omega
  | succ d' =>
    refine ⟨d', rfl, ?_⟩
    have hc : s.cap ≠ 0 := by intro h0; rw [h0] at hd; simp at hd; omega
    have : (s.cap == 0) = false := by simpa using hc
    simp only [grow, this, Bool.false_eq_true, if_false]
    have hp : 0 < 2 ^ d' := Nat.pow_pos (by decide)
    by_cases hm : s.cap * 2 ≤ m
    · rw [Nat.min_eq_left hm, Nat.mul_assoc, ← Nat.pow_succ']; exact hd
    · rw [Nat.min_eq_right (by omega)]; exact Nat.le_mul_of_pos_right _ hp

theorem scan_hasErr_buf (i m f : Nat) (s : St) (he : hasErr s = true) (hd : s.done = false)
    (hn : (scan i m (f + 1) s).1 = none) : (scan i m (f + 1) s).2.buf = [] := by
  rw [scan_succ] at hn ⊢
  cases hs : step m s with
  | ret r =>
    rw [hs] at hn
    simp only [Step.run] at hn ⊢
    rcases step_ret hs with ⟨h1, -⟩ | ⟨-, l, rest, -, rfl⟩ | ⟨-, -, -, -, rfl⟩ | ⟨-, -, -, -, rfl⟩ |
      ⟨-, -, he', -, -, -, rfl⟩
    · rw [hd] at h1; cases h1
    · cases hn
    · rfl
    · cases hn
    · rw [he] at he'; cases he'
  | cont s1 => rw [(step_cont hs).2.1] at he; cases he

theorem scan_none_reason_aux (i m : Nat) : ∀ (fuel : Nat) (s : St) (d a b : Nat),
    s.done = false → m ≤ s.cap * 2 ^ d → (s.start > 0 → 1 ≤ a) →
    (s.start + s.buf.length ≠ s.cap → 1 ≤ b) →
    2 * s.script.length + d + a + b + 2 ≤ fuel →
    (scan i m fuel s).1 = none →
    hasErr (scan i m fuel s).2 = true ∧ ((scan i m fuel s).2.err = none → (scan i m fuel s).2.buf = []) := by
  intro fuel
  induction fuel with
  | zero => intro s d a b _ _ _ _ hf; omega
  | succ f ih =>
    intro s d a b hd hpow ha hb hf
    rw [scan_succ]
    cases hs : step m s with
    | ret r =>
      simp only [Step.run]
      intro hn
      rcases step_ret hs with ⟨h1, -⟩ | ⟨-, l, rest, -, rfl⟩ | ⟨-, -, he, -, rfl⟩ | ⟨-, -, -, -, rfl⟩ |
        ⟨-, -, -, -, -, -, rfl⟩
      · rw [hd] at h1; cases h1
      · cases hn
      · exact ⟨by simpa [hasErr] using he, fun _ => rfl⟩
      · cases hn
      · exact ⟨by simp [hasErr], fun h => by simp at h⟩
    | cont s1 =>
      simp only [Step.run]
      obtain ⟨f1, f2, f3, f4, f5, f6, f7⟩ := shift_fields s
      obtain ⟨-, he, -, hc⟩ := step_cont hs
      by_cases he1 : hasErr s1 = true
      · intro hn
        refine ⟨hasErr_scan i m f s1 he1, fun _ => ?_⟩
        obtain ⟨f', rfl⟩ : ∃ f', f = f' + 1 := ⟨f - 1, by omega⟩
        have hd1 : s1.done = false := by
          rcases hc with ⟨-, -, -, rfl⟩ | ⟨-, rfl⟩
          · rw [(readLoop_facts _ 101).done]; exact f6.trans hd
          · rw [(readLoop_facts _ 101).done]; exact f6.trans hd
        exact scan_hasErr_buf i m f' s1 he1 hd1 hn
      · have he1' : s1.err = none ∧ s1.eof = false := by simpa [hasErr] using he1
        rcases hc with ⟨h0, hfull, hm, rfl⟩ | ⟨hnf, rfl⟩
        · have rf := readLoop_facts (grow m (shift s)) 101
          obtain ⟨p1, p2⟩ := rf.progress he1'.1 he1'.2
          obtain ⟨d', rfl, hd'⟩ := grow_pow (s := shift s) (by rw [f2]; exact hm) (by rw [f2]; exact hpow)
          have hstart : (readLoop (grow m (shift s)) 101).start = 0 := rf.start
          have hscr : (grow m (shift s)).script = s.script := f5
          rw [hscr] at p2
          have hle := rf.script_le; rw [hscr] at hle
          rcases p2 with p2 | p2
          · exact ih _ d' 0 1 (by rw [rf.done]; exact f6.trans hd) (by rw [rf.cap]; exact hd')
              (by rw [hstart]; omega) (fun _ => Nat.le_refl _) (by omega)
          · exact ih _ d' 0 0 (by rw [rf.done]; exact f6.trans hd) (by rw [rf.cap]; exact hd')
              (by rw [hstart]; omega) (fun h => absurd p2 h) (by omega)
        · have rf := readLoop_facts (shift s) 101
          obtain ⟨p1, p2⟩ := rf.progress he1'.1 he1'.2
          rw [f5] at p2
          have hle := rf.script_le; rw [f5] at hle
          have hst : (readLoop (shift s) 101).start = (shift s).start := rf.start
          have hdone : (readLoop (shift s) 101).done = false := by rw [rf.done]; exact f6.trans hd
          have hcap : m ≤ (readLoop (shift s) 101).cap * 2 ^ d := by rw [rf.cap, f2]; exact hpow
          rcases p2 with p2 | p2
          · refine ih _ d a 1 hdone hcap ?_ (fun _ => Nat.le_refl _) (by omega)
            rw [hst]; rcases f7 with f7 | f7 <;> rw [f7]
            · exact ha
            · omega
          · by_cases hs0 : (shift s).start = s.start
            · have hb1 := hb (by rw [← hs0]; exact hnf)
              refine ih _ d a 0 hdone hcap ?_ (fun h => absurd p2 h) (by omega)
              rw [hst, hs0]; exact ha
            · have h00 : (shift s).start = 0 := f7.resolve_left hs0
              have ha1 := ha (by omega)
              refine ih _ d 0 0 hdone hcap ?_ (fun h => absurd p2 h) (by omega)
              rw [hst, h00]; omega

/-- A2: with enough fuel, `scan` returns `none` only with an error recorded or at EOF.
    `d` bounds the number of buffer doublings still possible (`maxSize ≤ cap * 2^d`). -/
theorem scan_none_reason (i m fuel : Nat) (s : St) (d : Nat)
    (hd : s.done = false) (hpow : m ≤ s.cap * 2 ^ d)
    (hf : 2 * s.script.length + d + 4 ≤ fuel)
    (hn : (scan i m fuel s).1 = none) :
    (scan i m fuel s).2.err.isSome = true ∨ (scan i m fuel s).2.eof = true := by
  have := (scan_none_reason_aux i m fuel s d 1 1 hd hpow (fun _ => Nat.le_refl _) (fun _ => Nat.le_refl _)
    (by omega) hn).1
  simpa [hasErr] using this

/-- Well-formed states: the EOF mark is set only when the reader's script is exhausted. -/
def WF (s : St) : Prop := s.eof = true → s.script = []

theorem WF_init (n : Nat) (sc : List ReadEv) : WF (init n sc) := by intro h; cases h

theorem WF_scan (i m fuel : Nat) (s : St) (h : WF s) : WF (scan i m fuel s).2 :=
  (scan_facts i m fuel s).wf h

/-- A2, clean end: if `scan` returns `none` without an error, the whole input was consumed. -/
theorem scan_none_clean (i m fuel : Nat) (s : St) (d : Nat)
    (hd : s.done = false) (hpow : m ≤ s.cap * 2 ^ d)
    (hf : 2 * s.script.length + d + 4 ≤ fuel) (hwf : WF s)
    (hn : (scan i m fuel s).1 = none) (he : (scan i m fuel s).2.err = none) :
    (scan i m fuel s).2.eof = true ∧ (scan i m fuel s).2.script = [] ∧ (scan i m fuel s).2.buf = [] := by
  have h := scan_none_reason_aux i m fuel s d 1 1 hd hpow (fun _ => Nat.le_refl _) (fun _ => Nat.le_refl _)
    (by omega) hn
  have heof : (scan i m fuel s).2.eof = true := by
    have := h.1; simpa [hasErr, he] using this
  exact ⟨heof, WF_scan i m fuel s hwf heof, h.2 he⟩

/-- The fuel the streaming loop gives `scan` is enough whenever at most 200 doublings separate the
    buffer from the limit (64 KiB → 10 MiB needs 8). -/
def scanFuel (st : St) : Nat := st.script.length * 103 + st.buf.length + 210

theorem loop_fuel_ok (s : St) : 2 * s.script.length + 200 + 4 ≤ scanFuel s := by
  unfold scanFuel; omega


/-! ### A3: conservation — each token is exactly the next line of the pending bytes -/

/-- `tok` is the next line of `before`, leaving `after`. -/
def TakesLine (before : Bytes) (tok : Bytes) (after : Bytes) (atEnd : Bool) : Prop :=
  ∃ raw, tok = dropCR raw ∧ (0x0A : UInt8) ∉ raw ∧
    ((before = raw ++ 0x0A :: after) ∨ (raw ≠ [] ∧ before = raw ∧ after = [] ∧ atEnd = true))

theorem scan_conserve_aux (i m fuel : Nat) (s : St) :
    WF s → (scan i m fuel s).2.err = none → ∀ tok, (scan i m fuel s).1 = some tok →
      TakesLine (pending s) tok (pending (scan i m fuel s).2) (scan i m fuel s).2.eof := by
  apply scan_induct i m (fun s r => WF s → r.2.err = none → ∀ tok, r.1 = some tok →
      TakesLine (pending s) tok (pending r.2) r.2.eof)
  · intro s _ _ tok h; cases h
  · intro s r h hwf he tok ht
    rcases step_ret h with ⟨-, rfl⟩ | ⟨-, l, rest, hs, rfl⟩ | ⟨-, -, -, -, rfl⟩ | ⟨-, hs, hE, hb, rfl⟩ |
      ⟨-, -, -, -, -, -, rfl⟩
    · cases ht
    · cases ht
      obtain ⟨h1, h2⟩ := splitLF_some.mp hs
      exact ⟨l, rfl, h2, Or.inl (by simp [pending, h1])⟩
    · cases ht
    · cases ht
      have he' : s.err = none := he
      have heof : s.eof = true := by simpa [hasErr, he'] using hE
      have hsc := hwf heof
      exact ⟨s.buf, rfl, splitLF_none.mp hs, Or.inr ⟨hb, by simp [pending, hsc, scriptBytes],
        by simp [pending, hsc, scriptBytes], heof⟩⟩
    · cases ht
  · intro s s1 f h ih hwf he tok ht
    obtain ⟨f1, f2, f3, f4, f5, f6, f7⟩ := shift_fields s
    obtain ⟨-, hE, -, hc⟩ := step_cont h
    have hE' : s.err = none ∧ s.eof = false := by simpa [hasErr] using hE
    have he1 : s1.err = none := scan_err_none i m f s1 he
    have key : WF s1 ∧ pending s1 = pending s := by
      rcases hc with ⟨-, -, -, rfl⟩ | ⟨-, rfl⟩
      · have rf := readLoop_facts (grow m (shift s)) 101
        refine ⟨rf.wf (fun h' => ?_), ?_⟩
        · have : (grow m (shift s)).eof = s.eof := f4
          rw [this, hE'.2] at h'; cases h'
        · rw [rf.pending he1]; simp [pending, grow, f1, f5]
      · have rf := readLoop_facts (shift s) 101
        refine ⟨rf.wf (fun h' => ?_), ?_⟩
        · rw [f4, hE'.2] at h'; cases h'
        · rw [rf.pending he1]; simp [pending, f1, f5]
    rw [← key.2]
    exact ih key.1 he tok ht

/-- A3: a successful `scan` that ends without error delivers exactly the first line of the pending
    bytes (LF-terminated, or the final unterminated non-empty rest at EOF), and leaves the rest
    pending: nothing is dropped, duplicated or reordered. -/
theorem scan_conserve (i m fuel : Nat) (s s' : St) (tok : Bytes) (hwf : WF s)
    (h : scan i m fuel s = (some tok, s')) (he : s'.err = none) :
    ∃ raw, tok = dropCR raw ∧ (0x0A : UInt8) ∉ raw ∧
      ((pending s = raw ++ 0x0A :: pending s') ∨
       (raw ≠ [] ∧ pending s = raw ∧ pending s' = [] ∧ s'.eof = true)) := by
  have := scan_conserve_aux i m fuel s hwf (by rw [h]; exact he) tok (by rw [h])
  rw [h] at this
  exact this


/-! ### A4: chunk independence for fault-free scripts within the limit -/

/-- The script has no error events and never more than `k` (then 100) consecutive empty reads. -/
def Calm : Nat → List ReadEv → Prop
  | _, [] => True
  | k, .data bs :: rest => if bs = [] then 1 ≤ k ∧ Calm (k - 1) rest else Calm 100 rest
  | k, .empty :: rest => 1 ≤ k ∧ Calm (k - 1) rest
  | _, .dataErr _ :: _ => False
  | _, .err :: _ => False

/-- Every LF-free stretch of `bs` is shorter than `m`: each line with its LF fits in `m` bytes and
    the final unterminated line is shorter than `m`. -/
def LinesFit (m : Nat) (bs : Bytes) : Prop :=
  ∀ seg, seg <:+: bs → (0x0A : UInt8) ∉ seg → seg.length < m

theorem LinesFit.suffix {m : Nat} {a b : Bytes} (h : LinesFit m b) (hs : a <:+ b) : LinesFit m a :=
  fun seg hseg hn => h seg (List.IsInfix.trans hseg hs.isInfix) hn

theorem readOnce_calm {sp k : Nat} {sc rest : List ReadEv} {bs : Bytes} {e : Bool}
    (h : readOnce sp sc = (.got bs e, rest)) (hsp : 0 < sp) (hc : Calm k sc) :
    e = false ∧ (bs ≠ [] → Calm 100 rest) ∧ (bs = [] → 1 ≤ k ∧ Calm (k - 1) rest) := by
  cases sc with
  | nil => simp [readOnce] at h
  | cons ev t =>
    cases ev with
    | data b =>
      simp only [readOnce] at h
      simp only [Calm] at hc
      split at h
      · simp only [Prod.mk.injEq, ReadRes.got.injEq] at h
        obtain ⟨⟨rfl, rfl⟩, rfl⟩ := h
        refine ⟨rfl, fun hb => ?_, fun hb => ?_⟩
        · simpa [hb] using hc
        · simpa [hb] using hc
      · rename_i hlen
        simp only [Prod.mk.injEq, ReadRes.got.injEq] at h
        obtain ⟨⟨rfl, rfl⟩, rfl⟩ := h
        have hbne : b ≠ [] := by intro h0; simp [h0] at hlen
        have hdrop : b.drop sp ≠ [] := by
          intro h0
          have := congrArg List.length h0
          simp only [List.length_drop, List.length_nil] at this
          omega
        refine ⟨rfl, fun _ => ?_, fun hb => ?_⟩
        · simp only [Calm, hdrop, if_false]
          simpa [hbne] using hc
        · have := congrArg List.length hb
          simp only [List.length_take, List.length_nil] at this
          omega
    | dataErr b => exact absurd hc (by simp [Calm])
    | err => exact absurd hc (by simp [Calm])
    | empty =>
      simp only [readOnce, Prod.mk.injEq, ReadRes.got.injEq] at h
      obtain ⟨⟨rfl, rfl⟩, rfl⟩ := h
      simp only [Calm] at hc
      exact ⟨rfl, fun hb => absurd rfl hb, fun _ => hc⟩

theorem readLoop_calm : ∀ (n : Nat) (s : St), s.err = none → Calm n s.script →
    s.start + s.buf.length < s.cap →
    (readLoop s (n + 1)).err = none ∧ Calm 100 (readLoop s (n + 1)).script := by
  intro n
  induction n with
  | zero =>
    intro s he hc hsp
    have hsp' : 0 < s.cap - (s.start + s.buf.length) := by omega
    rcases readLoop_succ_cases s 0 with ⟨h1, h⟩ | ⟨bs, rest, hr, h⟩ | ⟨bs, rest, hr, hb, h⟩ | ⟨rest, hr, h⟩
    · rw [h]; exact ⟨he, trivial⟩
    · have := (readOnce_calm hr hsp' hc).1; cases this
    · rw [h]; exact ⟨he, (readOnce_calm hr hsp' hc).2.1 hb⟩
    · have := ((readOnce_calm hr hsp' hc).2.2 rfl).1; omega
  | succ n ih =>
    intro s he hc hsp
    have hsp' : 0 < s.cap - (s.start + s.buf.length) := by omega
    rcases readLoop_succ_cases s (n + 1) with ⟨h1, h⟩ | ⟨bs, rest, hr, h⟩ | ⟨bs, rest, hr, hb, h⟩ | ⟨rest, hr, h⟩
    · rw [h]; exact ⟨he, trivial⟩
    · have := (readOnce_calm hr hsp' hc).1; cases this
    · rw [h]; exact ⟨he, (readOnce_calm hr hsp' hc).2.1 hb⟩
    · rw [h]
      have := ((readOnce_calm hr hsp' hc).2.2 rfl).2
      exact ih { s with script := rest } he (by simpa using this) hsp


/-- The invariant under which `scan` cannot fail: no error so far, buffer bookkeeping consistent,
    capacity within the limit, a calm fault-free script, and every pending line within the limit. -/
structure Good (m : Nat) (s : St) : Prop where
  err : s.err = none
  inv : s.start + s.buf.length ≤ s.cap
  capm : s.cap ≤ m
  calm : Calm 100 s.script
  fit : LinesFit m (pending s)

theorem scan_good (i m fuel : Nat) (s : St) : Good m s → Good m (scan i m fuel s).2 := by
  apply scan_induct i m (fun s r => Good m s → Good m r.2)
  · intro s h; exact h
  · intro s r h g
    rcases step_ret h with ⟨-, rfl⟩ | ⟨-, l, rest, hs, rfl⟩ | ⟨-, -, -, hb, rfl⟩ | ⟨-, -, -, -, rfl⟩ |
      ⟨-, hs, -, h0, hb, hm, rfl⟩
    · exact g
    · obtain ⟨h1, h2⟩ := splitLF_some.mp hs
      refine ⟨g.err, ?_, g.capm, g.calm, g.fit.suffix ?_⟩
      · have := g.inv
        simp only [h1, List.length_append, List.length_cons] at this ⊢; omega
      · refine ⟨l ++ [0x0A], ?_⟩
        simp [pending, h1]
    · refine ⟨g.err, by simp, g.capm, g.calm, ?_⟩
      have := g.fit
      simpa [pending, hb] using this
    · refine ⟨g.err, by simpa using g.inv, g.capm, g.calm, g.fit.suffix ?_⟩
      exact ⟨s.buf, by simp [pending]⟩
    · exfalso
      have := g.fit s.buf ⟨[], scriptBytes s.script, by simp [pending]⟩ (splitLF_none.mp hs)
      have := g.capm
      omega
  · intro s s1 f h ih g
    apply ih
    obtain ⟨f1, f2, f3, f4, f5, f6, f7⟩ := shift_fields s
    obtain ⟨-, -, -, hc⟩ := step_cont h
    have hinv := g.inv
    rcases hc with ⟨h0, hfull, hm, rfl⟩ | ⟨hnf, rfl⟩
    · have hg := grow_cap (s := shift s) (by rw [f2]; exact hm)
      rw [f2] at hg
      have rf := readLoop_facts (grow m (shift s)) 101
      have hsp : (grow m (shift s)).start + (grow m (shift s)).buf.length < (grow m (shift s)).cap := by
        show 0 + (shift s).buf.length < (grow m (shift s)).cap
        rw [f1]; omega
      have hcalm := readLoop_calm 100 (grow m (shift s)) (f3.trans g.err) (by show Calm 100 (shift s).script; rw [f5]; exact g.calm) hsp
      refine ⟨hcalm.1, rf.inv (Nat.le_of_lt hsp), by rw [rf.cap]; exact hg.2, hcalm.2, ?_⟩
      rw [rf.pending hcalm.1]
      have : pending (grow m (shift s)) = pending s := by simp [pending, grow, f1, f5]
      rw [this]; exact g.fit
    · have rf := readLoop_facts (shift s) 101
      have hsp : (shift s).start + (shift s).buf.length < (shift s).cap := by
        rw [f1, f2]
        rcases f7 with f7 | f7 <;> rw [f7] at hnf ⊢ <;> omega
      have hcalm := readLoop_calm 100 (shift s) (f3.trans g.err) (by rw [f5]; exact g.calm) hsp
      refine ⟨hcalm.1, rf.inv (Nat.le_of_lt hsp), by rw [rf.cap, f2]; exact g.capm, hcalm.2, ?_⟩
      rw [rf.pending hcalm.1]
      have : pending (shift s) = pending s := by simp [pending, f1, f5]
      rw [this]; exact g.fit


/-- A clean `none` means nothing was pending. -/
theorem scan_none_pending (i m fuel : Nat) (s : St) :
    WF s → (scan i m fuel s).2.err = none → (scan i m fuel s).1 = none →
    (scan i m fuel s).2.buf = [] → (scan i m fuel s).2.eof = true → pending s = [] := by
  apply scan_induct i m (fun s r => WF s → r.2.err = none → r.1 = none → r.2.buf = [] → r.2.eof = true →
    pending s = [])
  · intro s hwf _ _ hb he
    have hb' : s.buf = [] := hb
    simp [pending, hb', hwf he, scriptBytes]
  · intro s r h hwf he hn hb heof
    rcases step_ret h with ⟨-, rfl⟩ | ⟨-, l, rest, hs, rfl⟩ | ⟨-, -, -, hb', rfl⟩ | ⟨-, -, -, -, rfl⟩ |
      ⟨-, -, -, -, -, -, rfl⟩
    · have hb' : s.buf = [] := hb
      simp [pending, hb', hwf heof, scriptBytes]
    · cases hn
    · have : s.eof = true := heof
      simp [pending, hb', hwf this, scriptBytes]
    · cases hn
    · cases he
  · intro s s1 f h ih hwf he hn hb heof
    obtain ⟨f1, f2, f3, f4, f5, f6, f7⟩ := shift_fields s
    obtain ⟨-, hE, -, hc⟩ := step_cont h
    have hE' : s.err = none ∧ s.eof = false := by simpa [hasErr] using hE
    have he1 : s1.err = none := scan_err_none i m f s1 he
    have key : WF s1 ∧ pending s1 = pending s := by
      rcases hc with ⟨-, -, -, rfl⟩ | ⟨-, rfl⟩
      · have rf := readLoop_facts (grow m (shift s)) 101
        refine ⟨rf.wf (fun h' => ?_), ?_⟩
        · have : (grow m (shift s)).eof = s.eof := f4
          rw [this, hE'.2] at h'; cases h'
        · rw [rf.pending he1]; simp [pending, grow, f1, f5]
      · have rf := readLoop_facts (shift s) 101
        refine ⟨rf.wf (fun h' => ?_), ?_⟩
        · rw [f4, hE'.2] at h'; cases h'
        · rw [rf.pending he1]; simp [pending, f1, f5]
    rw [← key.2]
    exact ih key.1 he hn hb heof

/-! #### The specification's line splitting -/

open Jl.Stream in
theorem specLinesAux_stable : ∀ (f g : Nat) (bs : Bytes), bs.length < f → bs.length < g →
    specLinesAux f bs = specLinesAux g bs := by
  intro f
  induction f with
  | zero => intro g bs h; omega
  | succ f ih =>
    intro g bs hf hg
    cases g with
    | zero => omega
    | succ g =>
      unfold specLinesAux
      split
      · rfl
      · cases hs : splitLF bs with
        | none => rfl
        | some p =>
          obtain ⟨l, rest⟩ := p
          have := (splitLF_some.mp hs).1
          have hlen : rest.length < bs.length := by rw [this]; simp; omega
          simp only []
          rw [ih g rest (by omega) (by omega)]

open Jl.Stream in
theorem specLines_nil : specLines [] = [] := by
  simp [specLines, specLinesAux]

open Jl.Stream in
theorem specLines_line (raw rest : Bytes) (h : (0x0A : UInt8) ∉ raw) :
    specLines (raw ++ 0x0A :: rest) = dropCR raw :: specLines rest := by
  have hs : splitLF (raw ++ 0x0A :: rest) = some (raw, rest) := splitLF_some.mpr ⟨rfl, h⟩
  unfold specLines
  rw [specLinesAux]
  have hne : (raw ++ 0x0A :: rest).isEmpty = false := by cases raw <;> rfl
  simp only [hne, Bool.false_eq_true, if_false, hs]
  rw [specLinesAux_stable _ (rest.length + 1) rest (by simp; omega) (by omega)]

open Jl.Stream in
theorem specLines_last (raw : Bytes) (hne : raw ≠ []) (h : (0x0A : UInt8) ∉ raw) :
    specLines raw = [dropCR raw] := by
  have hs : splitLF raw = none := splitLF_none.mpr h
  unfold specLines
  rw [specLinesAux]
  have hne' : raw.isEmpty = false := by cases raw <;> simp_all
  simp only [hne', Bool.false_eq_true, if_false, hs]

/-- Iterating `scan` (with the fuel the streaming loop uses) yields exactly `lines`, never an error,
    and then a clean end. -/
inductive ScansAs (i m : Nat) : St → List Bytes → Prop
  | nil {s s' : St} : scan i m (scanFuel s) s = (none, s') → s'.err = none → ScansAs i m s []
  | cons {s s' : St} {l : Bytes} {ls : List Bytes} : scan i m (scanFuel s) s = (some l, s') →
      s'.err = none → ScansAs i m s' ls → ScansAs i m s (l :: ls)

open Jl.Stream in
/-- A4 (state form): from any good state, scanning delivers the specification's lines of the pending
    bytes, whatever the chunking of the reader. -/
theorem scansAs_of_good (i m : Nat) : ∀ (n : Nat) (s : St), (pending s).length ≤ n →
    Good m s → s.done = false → WF s → m ≤ s.cap * 2 ^ 200 →
    ScansAs i m s (specLines (pending s)) := by
  intro n
  induction n with
  | zero =>
    intro s hlen g hd hwf hpow
    have hp : pending s = [] := List.eq_nil_of_length_eq_zero (by omega)
    have g' := scan_good i m (scanFuel s) s g
    cases hr : scan i m (scanFuel s) s with
    | mk t s' =>
      rw [hr] at g'
      cases t with
      | none => rw [hp, specLines_nil]; exact .nil hr g'.err
      | some tok =>
        obtain ⟨raw, -, -, h1 | ⟨h1, h2, -⟩⟩ := scan_conserve i m (scanFuel s) s s' tok hwf hr g'.err
        · rw [hp] at h1; simp at h1
        · rw [hp] at h2; exact absurd h2.symm h1
  | succ n ih =>
    intro s hlen g hd hwf hpow
    have g' := scan_good i m (scanFuel s) s g
    have sf := scan_facts i m (scanFuel s) s
    cases hr : scan i m (scanFuel s) s with
    | mk t s' =>
      rw [hr] at g' sf
      have hd' : s'.done = false := sf.done.trans hd
      have hwf' : WF s' := sf.wf hwf
      have hpow' : m ≤ s'.cap * 2 ^ 200 := Nat.le_trans hpow (Nat.mul_le_mul_right _ sf.cap)
      cases t with
      | none =>
        have hc := scan_none_clean i m (scanFuel s) s 200 hd hpow (loop_fuel_ok s) hwf (by rw [hr])
          (by rw [hr]; exact g'.err)
        have hp := scan_none_pending i m (scanFuel s) s hwf (by rw [hr]; exact g'.err) (by rw [hr])
          hc.2.2 hc.1
        rw [hp, specLines_nil]; exact .nil hr g'.err
      | some tok =>
        obtain ⟨raw, htok, hraw, h1 | ⟨h1, h2, h3, -⟩⟩ :=
          scan_conserve i m (scanFuel s) s s' tok hwf hr g'.err
        · rw [h1, specLines_line raw _ hraw, ← htok]
          refine .cons hr g'.err (ih s' ?_ g' hd' hwf' hpow')
          rw [h1] at hlen; simp at hlen; omega
        · rw [h2, specLines_last raw h1 hraw, ← htok]
          refine .cons hr g'.err ?_
          have := ih s' (by rw [h3]; simp) g' hd' hwf' hpow'
          rw [h3, specLines_nil] at this
          exact this


/-- All the bytes of the `data` events of a script. -/
def allData : List ReadEv → Bytes
  | [] => []
  | .data bs :: rest => bs ++ allData rest
  | _ :: rest => allData rest

theorem scriptBytes_of_calm : ∀ (k : Nat) (sc : List ReadEv), Calm k sc → scriptBytes sc = allData sc
  | _, [], _ => rfl
  | k, .data bs :: rest, h => by
    simp only [Calm] at h
    simp only [scriptBytes, allData]
    split at h
    · rw [scriptBytes_of_calm _ rest h.2]
    · rw [scriptBytes_of_calm _ rest h]
  | k, .empty :: rest, h => by
    simp only [Calm] at h
    simp only [scriptBytes, allData]
    exact scriptBytes_of_calm _ rest h.2
  | _, .dataErr _ :: _, h => by simp [Calm] at h
  | _, .err :: _, h => by simp [Calm] at h

theorem ScansAs.unique {i m : Nat} {s : St} {l1 l2 : List Bytes} (h1 : ScansAs i m s l1)
    (h2 : ScansAs i m s l2) : l1 = l2 := by
  induction h1 generalizing l2 with
  | nil hs _ =>
    cases h2 with
    | nil => rfl
    | cons hs' => rw [hs] at hs'; cases hs'
  | cons hs _ _ ih =>
    cases h2 with
    | nil hs' => rw [hs] at hs'; cases hs'
    | cons hs' _ hrest =>
      rw [hs] at hs'
      cases hs'
      rw [ih hrest]

open Jl.Stream in
/-- A4: for a reader script made of `data`/`empty` events only, with at most 100 consecutive empty
    reads, whose lines all fit the limit, iterating `scan` from the initial state yields exactly the
    specification's lines of the concatenated data — whatever the chunking and the initial buffer
    size — each time without error, and then a clean end. -/
theorem A4_chunk_independence (i m : Nat) (reader : List ReadEv)
    (hcalm : Calm 100 reader) (hfit : LinesFit m (allData reader))
    (hle : i ≤ m) (hpow : m ≤ i * 2 ^ 200) :
    ScansAs i m (init i reader) (specLines (allData reader)) := by
  have hb := scriptBytes_of_calm 100 reader hcalm
  have hp : pending (init i reader) = allData reader := by simp [pending, init, hb]
  have g : Good m (init i reader) := ⟨rfl, by simp [init], hle, hcalm, by rw [hp]; exact hfit⟩
  have := scansAs_of_good i m _ (init i reader) (Nat.le_refl _) g rfl (WF_init i reader) hpow
  rw [hp] at this
  exact this


/-- The doubling bound `m ≤ i * 2^200` follows from any smaller exponent. -/
theorem pow_bound {m i k : Nat} (h : m ≤ i * 2 ^ k) (hk : k ≤ 200) : m ≤ i * 2 ^ 200 :=
  Nat.le_trans h (Nat.mul_le_mul_left i (Nat.pow_le_pow_right (by decide) hk))

/-! ### Concrete instances (non-vacuity) -/

section Examples

/-- chunked input, initial buffer 2, limit 4: `a\nb` arrives as `a\n` then `b` -/
private def ex1 : St := init 2 [.data [0x61, 0x0A, 0x62]]
example : (scan 2 4 (scanFuel ex1) ex1).1 = some [0x61] := by decide
example : (scan 2 4 (scanFuel ex1) ex1).2.err = none := by decide
private def ex1b : St := (scan 2 4 (scanFuel ex1) ex1).2
example : (scan 2 4 (scanFuel ex1b) ex1b).1 = some [0x62] := by decide
private def ex1c : St := (scan 2 4 (scanFuel ex1b) ex1b).2
example : (scan 2 4 (scanFuel ex1c) ex1c).1 = none ∧ (scan 2 4 (scanFuel ex1c) ex1c).2.err = none ∧
    (scan 2 4 (scanFuel ex1c) ex1c).2.eof = true := by decide

/-- CRLF line ending and a final unterminated line -/
example : (scan 2 8 40 (init 2 [.data [0x61, 0x0D], .data [0x0A, 0x62]])).1 = some [0x61] := by decide

/-- the reader fails exactly after a newline: the line is delivered, the next call reports the error -/
private def ex2 : St := init 2 [.data [0x61, 0x0A], .err]
example : (scan 2 4 (scanFuel ex2) ex2).1 = some [0x61] ∧ (scan 2 4 (scanFuel ex2) ex2).2.err = none := by
  decide
private def ex2b : St := (scan 2 4 (scanFuel ex2) ex2).2
example : (scan 2 4 (scanFuel ex2b) ex2b).1 = none ∧
    (scan 2 4 (scanFuel ex2b) ex2b).2.err = some .io := by decide

/-- the reader fails at offset 0 -/
example : (scan 2 4 300 (init 2 [.err])).1 = none ∧ (scan 2 4 300 (init 2 [.err])).2.err = some .io := by
  decide

/-- an over-long line (5 bytes + LF, limit 4) -/
example : (scan 2 4 400 (init 2 [.data [0x61, 0x62, 0x63, 0x64, 0x65, 0x0A]])).1 = none ∧
    (scan 2 4 400 (init 2 [.data [0x61, 0x62, 0x63, 0x64, 0x65, 0x0A]])).2.err = some .tooLong := by
  decide

/-- a line of exactly limit-1 bytes plus LF fits; an unterminated final line of `limit` bytes does not -/
example : (scan 2 4 400 (init 2 [.data [0x61, 0x62, 0x63, 0x0A]])).1 = some [0x61, 0x62, 0x63] := by decide
example : (scan 2 4 400 (init 2 [.data [0x61, 0x62, 0x63, 0x64]])).2.err = some .tooLong := by decide
example : (scan 2 4 400 (init 2 [.data [0x61, 0x62, 0x63]])).1 = some [0x61, 0x62, 0x63] := by decide

/-- A4 applies to a chunked, stalling reader. -/
example : ScansAs 2 4 (init 2 [.data [0x61], .empty, .data [0x0A, 0x62]])
    (Jl.Stream.specLines [0x61, 0x0A, 0x62]) := by
  have := A4_chunk_independence 2 4 [.data [0x61], .empty, .data [0x0A, 0x62]]
    (by simp [Calm])
    (by intro seg hseg _; have := hseg.length_le; simp [allData] at this; omega)
    (by decide) (pow_bound (k := 1) (by decide) (by decide))
  simpa [allData] using this

/-- the library's sizes: 64 KiB initial buffer, 10 MiB limit -/
example : 10 * 1024 * 1024 ≤ 64 * 1024 * 2 ^ 200 := pow_bound (k := 8) (by decide) (by decide)

example : Jl.Stream.specLines [0x61, 0x0A, 0x62] = [[0x61], [0x62]] := by decide

/-- Model artefact: when `scan` runs out of fuel it answers `(none, s)` with neither `err` nor `eof`
    set — which `Stream.loop` (it only looks at `errOf`) cannot tell from a clean end.  With the
    loop's fuel (`scanFuel`) this needs more than ~200 buffer doublings inside one call, hence the
    hypothesis `maxSize ≤ cap * 2 ^ 200` of `scan_none_reason`/`scan_none_clean` users. -/
example : (scan 1 1000 3 (init 1 [.data [0x61, 0x61, 0x61, 0x61, 0x61, 0x61, 0x61, 0x61]])).1 = none ∧
    (scan 1 1000 3 (init 1 [.data [0x61, 0x61, 0x61, 0x61, 0x61, 0x61, 0x61, 0x61]])).2.err = none ∧
    (scan 1 1000 3 (init 1 [.data [0x61, 0x61, 0x61, 0x61, 0x61, 0x61, 0x61, 0x61]])).2.eof = false := by
  decide

end Examples

end Jl.Scanner
