/-
  Proofs.TimeShape — C04 for the `date` and `datetime` formats: lexical class of what the
  time layouts write, of what `ToDate` returns and of what a date / date-time column exports.

  Part 1  formatDate_shape, formatRFC3339_shape (+ formatRFC3339_shape_iff: the bound on the
          offset, |off| < 100 h, is exact; whole minutes are not needed: `formatZone` truncates)
  Part 2  what the parsers accept: parseDateOk_shape (a string accepted by the `2006-01-02`
          parser is `dddd-dd-dd`), parseRFC3339_off (a parsed offset is at most 25 h)
  Part 3  inversion of the verbatim bodies date.string / date.bytes / date.default /
          time.string / time.bytes / time.default of `Cast.special`
  Part 4  toDate_fuel (strong induction on the fuel of `callNamed`), toDate_shape
  Part 5  date_column_class
  Part 6  toTime_fuel, datetime_column_class
  Part 7  non-vacuity (epoch; Unix second 0 in a zone at +1 h) and the two counterexamples that
          show the offset hypotheses of datetime_column_class are needed (+100 h)

  The branches of ToDate / ToTime / ToString are read from the regenerated tables by `decide`
  (`find_toDate`, `toDate_clause`, …): a changed table re-opens the proof there.
-/
import Model.LineSpec
import Model.Value
import Model.CastGen
import Proofs.Time
import Proofs.CastTyped

namespace Jl.TimeShape
open Jl Jl.Value Cast CastTyped IntText

/-! ### Part 1: the two layouts -/

theorem ls_isDigit_eq (c : UInt8) : LineSpec.isDigit c = Time.isDigit c := rfl

theorem dig {k : Nat} (h : k < 10) : LineSpec.isDigit (digitChar k) = true :=
  Time.isDigit_digitChar h

/-- The text of a date whose fields are in range is ten characters `dddd-dd-dd`. -/
theorem dateText_shape {y m d : Nat} (hy : y < 10000) (hm : m < 100) (hd : d < 100) :
    LineSpec.isDateText (Time.pad y 4 ++ [0x2D] ++ Time.pad m 2 ++ [0x2D] ++ Time.pad d 2) = true := by
  rw [Time.pad4 hy, Time.pad2 hm, Time.pad2 hd]
  simp [LineSpec.isDateText, dig (show y / 1000 < 10 by omega), dig (show y / 100 % 10 < 10 by omega),
    dig (show y / 10 % 10 < 10 by omega), dig (show y % 10 < 10 by omega),
    dig (show m / 10 < 10 by omega), dig (show m % 10 < 10 by omega),
    dig (show d / 10 < 10 by omega), dig (show d % 10 < 10 by omega)]

theorem civil_bounds (t : GoTime) :
    (Time.civilOf t).month < 100 ∧ (Time.civilOf t).day < 100 ∧ (Time.civilOf t).hour < 100 ∧
      (Time.civilOf t).min < 100 ∧ (Time.civilOf t).sec < 100 := by
  obtain ⟨⟨_, hm, _, hd⟩, hh, hmi, hs⟩ := Time.civilOf_valid t
  have := Time.daysIn_le (Time.civilOf t).month (Time.civilOf t).year
  omega

theorem formatDate_eq (t : GoTime) (h0 : 0 ≤ Time.year t) :
    Time.formatDate t = Time.pad (Time.civilOf t).year.toNat 4 ++ [0x2D] ++
      Time.pad (Time.civilOf t).month 2 ++ [0x2D] ++ Time.pad (Time.civilOf t).day 2 := by
  have h : ¬ (Time.civilOf t).year < 0 := by unfold Time.year at h0; omega
  simp only [Time.formatDate, Time.appendInt, if_neg h]

/-- Target 1: `t.Format("2006-01-02")` of a time whose year is in 0..9999 is `YYYY-MM-DD`. -/
theorem formatDate_shape (t : GoTime) (h0 : 0 ≤ Time.year t) (h1 : Time.year t ≤ 9999) :
    LineSpec.isDateText (Time.formatDate t) = true := by
  obtain ⟨hm, hd, _⟩ := civil_bounds t
  rw [formatDate_eq t h0]
  exact dateText_shape (by unfold Time.year at h0 h1; omega) hm hd

theorem formatDate_length (t : GoTime) (h0 : 0 ≤ Time.year t) (h1 : Time.year t ≤ 9999) :
    (Time.formatDate t).length = 10 := by
  obtain ⟨hm, hd, _⟩ := civil_bounds t
  have hy : (Time.civilOf t).year.toNat < 10000 := by unfold Time.year at h0 h1; omega
  rw [formatDate_eq t h0, Time.pad4 hy, Time.pad2 hm, Time.pad2 hd]
  rfl

/-- The zone element for an offset of magnitude below 100 h: `Z` or `±dd:dd` (the seconds of
    the offset are truncated, not required to be zero). -/
theorem formatZone_shape (off : Int) (h : off.natAbs < 360000) :
    Time.formatZone off = [0x5A] ∨
      ∃ sg a b c d, Time.formatZone off = [sg, a, b, 0x3A, c, d] ∧ (sg = 0x2B ∨ sg = 0x2D) ∧
        LineSpec.isDigit a = true ∧ LineSpec.isDigit b = true ∧ LineSpec.isDigit c = true ∧
        LineSpec.isDigit d = true := by
  have hz : (off.tdiv 60).natAbs = off.natAbs / 60 := by rw [Int.natAbs_tdiv]; rfl
  rw [Time.formatZone_eq]
  generalize off.tdiv 60 = z at hz
  split
  · exact Or.inl rfl
  · right
    split
    · have h1 : (-z).toNat / 60 < 100 := by omega
      have h2 : (-z).toNat % 60 < 100 := by omega
      rw [Time.pad2 h1, Time.pad2 h2]
      exact ⟨_, _, _, _, _, rfl, Or.inr rfl, dig (by omega), dig (by omega), dig (by omega), dig (by omega)⟩
    · have h1 : z.toNat / 60 < 100 := by omega
      have h2 : z.toNat % 60 < 100 := by omega
      rw [Time.pad2 h1, Time.pad2 h2]
      exact ⟨_, _, _, _, _, rfl, Or.inl rfl, dig (by omega), dig (by omega), dig (by omega), dig (by omega)⟩


theorem isDateText_length {s : Bytes} (h : LineSpec.isDateText s = true) : s.length = 10 := by
  unfold LineSpec.isDateText at h
  split at h
  · rfl
  · cases h

/-- A date, `T`, `dd:dd:dd` and a zone element make an RFC 3339 date-time. -/
theorem dateTimeText_shape {dt z : Bytes} {h mi s : Nat} (hdt : LineSpec.isDateText dt = true)
    (hh : h < 100) (hmi : mi < 100) (hs : s < 100)
    (hz : z = [0x5A] ∨
      ∃ sg a b c d, z = [sg, a, b, 0x3A, c, d] ∧ (sg = 0x2B ∨ sg = 0x2D) ∧
        LineSpec.isDigit a = true ∧ LineSpec.isDigit b = true ∧ LineSpec.isDigit c = true ∧
        LineSpec.isDigit d = true) :
    LineSpec.isDateTimeText
      (dt ++ [0x54] ++ Time.pad h 2 ++ [0x3A] ++ Time.pad mi 2 ++ [0x3A] ++ Time.pad s 2 ++ z) = true := by
  have hl := isDateText_length hdt
  rw [Time.pad2 hh, Time.pad2 hmi, Time.pad2 hs]
  unfold LineSpec.isDateTimeText
  simp only [List.append_assoc]
  rw [List.take_left' hl, List.drop_left' hl, hdt]
  have d1 := dig (show h / 10 < 10 by omega)
  have d2 := dig (show h % 10 < 10 by omega)
  have d3 := dig (show mi / 10 < 10 by omega)
  have d4 := dig (show mi % 10 < 10 by omega)
  have d5 := dig (show s / 10 < 10 by omega)
  have d6 := dig (show s % 10 < 10 by omega)
  rcases hz with rfl | ⟨sg, a, b, c, d, rfl, hsg, ha, hb, hc, hd⟩
  · simp [d1, d2, d3, d4, d5, d6]
  · rcases hsg with rfl | rfl <;> simp [d1, d2, d3, d4, d5, d6, ha, hb, hc, hd]

/-- Target 2: `t.Format(time.RFC3339)` of a time whose year is in 0..9999 and whose offset is
    below 100 h in magnitude is an RFC 3339 date-time.  The offset need not be a whole number
    of minutes (`formatZone` truncates the seconds) nor below 24 h; 100 h is where the hour
    field of the zone gets a third digit. -/
theorem formatRFC3339_shape (t : GoTime) (h0 : 0 ≤ Time.year t) (h1 : Time.year t ≤ 9999)
    (hoff : t.off.natAbs < 360000) :
    LineSpec.isDateTimeText (Time.formatRFC3339 t) = true := by
  obtain ⟨_, _, hh, hmi, hs⟩ := civil_bounds t
  unfold Time.formatRFC3339
  exact dateTimeText_shape (formatDate_shape t h0 h1) hh hmi hs (formatZone_shape t.off hoff)


/-! #### The bound on the offset is exact -/

theorem natDigits_length_pos (n : Nat) : 1 ≤ (natDigits n).length := by
  rw [natDigits]
  split <;> simp

theorem natDigits_length_ge3 {n : Nat} (h : 100 ≤ n) : 3 ≤ (natDigits n).length := by
  rw [Time.natDigits_ge (by omega), Time.natDigits_ge (show 10 ≤ n / 10 by omega)]
  have := natDigits_length_pos (n / 10 / 10)
  simp only [List.length_append, List.length_cons, List.length_nil]
  omega

theorem pad_length_ge (n w : Nat) : (natDigits n).length ≤ (Time.pad n w).length := by
  simp [Time.pad]

/-- Beyond 100 h the zone element has at least seven characters. -/
theorem formatZone_long (off : Int) (h : 360000 ≤ off.natAbs) :
    ∃ sg rest, Time.formatZone off = sg :: rest ∧ (sg = 0x2B ∨ sg = 0x2D) ∧ 6 ≤ rest.length := by
  have hz : (off.tdiv 60).natAbs = off.natAbs / 60 := by rw [Int.natAbs_tdiv]; rfl
  rw [Time.formatZone_eq]
  generalize off.tdiv 60 = z at hz
  rw [if_neg (by omega)]
  split
  · refine ⟨_, _, rfl, Or.inr rfl, ?_⟩
    have h1 := natDigits_length_ge3 (show 100 ≤ (-z).toNat / 60 by omega)
    have h2 := pad_length_ge ((-z).toNat / 60) 2
    have h4 : (Time.pad ((-z).toNat % 60) 2).length = 2 := by rw [Time.pad2 (by omega)]; rfl
    simp only [List.length_append, List.length_cons, List.length_nil]
    omega
  · refine ⟨_, _, rfl, Or.inl rfl, ?_⟩
    have h1 := natDigits_length_ge3 (show 100 ≤ z.toNat / 60 by omega)
    have h2 := pad_length_ge (z.toNat / 60) 2
    have h4 : (Time.pad (z.toNat % 60) 2).length = 2 := by rw [Time.pad2 (by omega)]; rfl
    simp only [List.length_append, List.length_cons, List.length_nil]
    omega

theorem dateTimeText_zone_length {dt z : Bytes} {h1 h2 m1 m2 s1 s2 sg : UInt8} {rest : Bytes}
    (hl : dt.length = 10) (hz : z = sg :: rest) (hsg : sg = 0x2B ∨ sg = 0x2D)
    (h : LineSpec.isDateTimeText (dt ++ [0x54, h1, h2, 0x3A, m1, m2, 0x3A, s1, s2] ++ z) = true) :
    rest.length = 5 := by
  unfold LineSpec.isDateTimeText at h
  simp only [List.append_assoc] at h
  rw [List.take_left' hl, List.drop_left' hl] at h
  subst hz
  rcases hsg with rfl | rfl
  · simp at h
    obtain ⟨_, _, h⟩ := h
    split at h
    · rename_i heq; simp at heq
    · rename_i heq; simp at heq; simp [heq.2]
    · cases h
  · simp at h
    obtain ⟨_, _, h⟩ := h
    split at h
    · rename_i heq; simp at heq
    · rename_i heq; simp at heq; simp [heq.2]
    · cases h

/-- Target 2, sharpened: for a year in 0..9999 the RFC 3339 text is in the lexical class
    exactly when the offset is below 100 h in magnitude. -/
theorem formatRFC3339_shape_iff (t : GoTime) (h0 : 0 ≤ Time.year t) (h1 : Time.year t ≤ 9999) :
    LineSpec.isDateTimeText (Time.formatRFC3339 t) = true ↔ t.off.natAbs < 360000 := by
  refine ⟨fun h => ?_, formatRFC3339_shape t h0 h1⟩
  apply Decidable.byContradiction
  intro hn
  obtain ⟨sg, rest, hz, hsg, hlen⟩ := formatZone_long t.off (by omega)
  obtain ⟨_, _, hh, hmi, hs⟩ := civil_bounds t
  have e : Time.formatRFC3339 t = Time.formatDate t ++
      [0x54, digitChar ((Time.civilOf t).hour / 10), digitChar ((Time.civilOf t).hour % 10), 0x3A,
        digitChar ((Time.civilOf t).min / 10), digitChar ((Time.civilOf t).min % 10), 0x3A,
        digitChar ((Time.civilOf t).sec / 10), digitChar ((Time.civilOf t).sec % 10)] ++
      Time.formatZone t.off := by
    unfold Time.formatRFC3339
    simp only [Time.pad2 hh, Time.pad2 hmi, Time.pad2 hs, List.append_assoc, List.cons_append,
      List.nil_append]
  rw [e] at h
  have := dateTimeText_zone_length (formatDate_length t h0 h1) hz hsg h
  omega

/-- Target 2 as first stated (whole-minute offsets below 24 h): a special case. -/
theorem formatRFC3339_shape_whole_minutes (t : GoTime) (h0 : 0 ≤ Time.year t)
    (h1 : Time.year t ≤ 9999) (_h60 : t.off % 60 = 0) (h24 : t.off.natAbs < 86400) :
    LineSpec.isDateTimeText (Time.formatRFC3339 t) = true :=
  formatRFC3339_shape t h0 h1 (by omega)

/-! ### Part 2: what the parsers accept -/

theorem num4_some {s : Bytes} {n : Nat} {r : Bytes} (h : Time.num4 s = some (n, r)) :
    ∃ a b c d, s = a :: b :: c :: d :: r ∧ LineSpec.isDigit a = true ∧ LineSpec.isDigit b = true ∧
      LineSpec.isDigit c = true ∧ LineSpec.isDigit d = true := by
  unfold Time.num4 at h
  split at h
  · rename_i a b c d rest
    split at h
    · rename_i hd
      simp only [Bool.and_eq_true] at hd
      simp only [Option.some.injEq, Prod.mk.injEq] at h
      obtain ⟨_, rfl⟩ := h
      exact ⟨a, b, c, d, rfl, hd.1.1.1, hd.1.1.2, hd.1.2, hd.2⟩
    · cases h
  · cases h

theorem num2_some {s : Bytes} {n : Nat} {r : Bytes} (h : Time.num2 s = some (n, r)) :
    ∃ a b, s = a :: b :: r ∧ LineSpec.isDigit a = true ∧ LineSpec.isDigit b = true := by
  unfold Time.num2 at h
  split at h
  · rename_i a b rest
    split at h
    · rename_i hd
      simp only [Bool.and_eq_true] at hd
      simp only [Option.some.injEq, Prod.mk.injEq] at h
      obtain ⟨_, rfl⟩ := h
      exact ⟨a, b, rfl, hd.1, hd.2⟩
    · cases h
  · cases h

theorem expect_some {c : UInt8} {s r : Bytes} (h : Time.expect c s = some r) : s = c :: r := by
  unfold Time.expect at h
  split at h
  · split at h
    · rename_i hx
      simp only [Option.some.injEq] at h
      rw [h, eq_of_beq hx]
    · cases h
  · cases h

/-- What the `2006-01-02` prefix parser consumes is `dddd-dd-dd`. -/
theorem parseDatePart_some {s : Bytes} {y : Int} {m d : Nat} {r : Bytes}
    (h : Time.parseDatePart s = some (y, m, d, r)) :
    ∃ dt, s = dt ++ r ∧ LineSpec.isDateText dt = true := by
  unfold Time.parseDatePart at h
  simp only [Option.bind_eq_bind] at h
  cases h4 : Time.num4 s with
  | none => simp [h4] at h
  | some p4 =>
    obtain ⟨yy, s1⟩ := p4
    obtain ⟨a, b, c, d4, rfl, ha, hb, hc, hd⟩ := num4_some h4
    simp only [h4, Option.bind_some] at h
    cases he1 : Time.expect 0x2D s1 with
    | none => simp [he1] at h
    | some s2 =>
      have e1 := expect_some he1
      subst e1
      simp only [he1, Option.bind_some] at h
      cases hm : Time.num2 s2 with
      | none => simp [hm] at h
      | some pm =>
        obtain ⟨mm, s3⟩ := pm
        obtain ⟨m1, m2, rfl, hm1, hm2⟩ := num2_some hm
        simp only [hm, Option.bind_some] at h
        cases he2 : Time.expect 0x2D s3 with
        | none => simp [he2] at h
        | some s4 =>
          have e2 := expect_some he2
          subst e2
          simp only [he2, Option.bind_some] at h
          cases hdd : Time.num2 s4 with
          | none => simp [hdd] at h
          | some pd =>
            obtain ⟨dd, s5⟩ := pd
            obtain ⟨d1, d2, rfl, hd1, hd2⟩ := num2_some hdd
            simp only [hdd, Option.bind_some] at h
            split at h
            · cases h
            · split at h
              · cases h
              · simp only [Option.some.injEq, Prod.mk.injEq] at h
                obtain ⟨_, _, _, rfl⟩ := h
                refine ⟨[a, b, c, d4, 0x2D, m1, m2, 0x2D, d1, d2], rfl, ?_⟩
                simp [LineSpec.isDateText, ha, hb, hc, hd, hm1, hm2, hd1, hd2]

/-- A string accepted by `time.Parse("2006-01-02", s)` is `YYYY-MM-DD`. -/
theorem parseDateOk_shape {s : Bytes} (h : Time.parseDateOk s = true) :
    LineSpec.isDateText s = true := by
  unfold Time.parseDateOk at h
  split at h
  · rename_i y m d hp
    obtain ⟨dt, rfl, hdt⟩ := parseDatePart_some hp
    simpa using hdt
  · cases h

theorem parseZone_bound {z : Bytes} {off : Int} {r : Bytes} (h : Time.parseZone z = some (off, r)) :
    off.natAbs ≤ 90000 := by
  unfold Time.parseZone at h
  split at h
  · simp only [Option.some.injEq, Prod.mk.injEq] at h
    obtain ⟨rfl, _⟩ := h
    decide
  · rename_i sign h1 h2 colon m1 m2 rest _
    split at h
    · cases h
    · split at h
      · cases h
      · simp only at h
        split at h
        · cases h
        · rename_i hb
          simp only [Bool.or_eq_true, decide_eq_true_eq, not_or, Nat.not_lt] at hb
          split at h
          · simp only [Option.some.injEq, Prod.mk.injEq] at h
            obtain ⟨rfl, _⟩ := h
            omega
          · split at h
            · simp only [Option.some.injEq, Prod.mk.injEq] at h
              obtain ⟨rfl, _⟩ := h
              omega
            · cases h
  · cases h

/-- The offset of a time read by `time.Parse(time.RFC3339, s)` is at most 25 h. -/
theorem parseRFC3339_off {s : Bytes} {t : GoTime} (h : Time.parseRFC3339 s = some t) :
    t.off.natAbs ≤ 90000 := by
  rw [Time.parseRFC3339_eq] at h
  cases hh : Time.parseHead s with
  | none => simp [hh] at h
  | some p =>
    obtain ⟨⟨y, m, d, hh', mi, ss⟩, rest⟩ := p
    simp only [hh, Option.bind_some, Time.parseTail] at h
    split at h
    · cases h
    · rename_i off r hz
      split at h
      · cases h
      · split at h
        · cases h
        · simp only [Option.some.injEq] at h
          subst h
          exact parseZone_bound hz


/-! ### Part 3: the verbatim bodies of the date and time casters -/

theorem failWith_ne_ok (T : CastTables) (s : String) (r : Dyn) : failWith T s ≠ .ok r := by
  unfold failWith
  split <;> simp

/-- `x, err := f(..); if err != nil { fail }; return k(x)` delivers a value only through `k`. -/
theorem chain_ok {T : CastTables} {sent : String} {o : Outcome Dyn} {k : Dyn → Outcome Dyn} {r : Dyn}
    (h : (match (generalizing := false) o with
      | .ok i => k i
      | .err .ext => .err .ext
      | .err _ => failWith T sent
      | .panic s => .panic s) = .ok r) : ∃ i, o = .ok i ∧ k i = .ok r := by
  cases o with
  | ok i => exact ⟨i, rfl, h⟩
  | err e => cases e <;> first | cases h | exact absurd h (failWith_ne_ok _ _ _)
  | panic s => cases h

theorem special_date_string {T : CastTables} {ext : Ext} {k : Nat} {s : Bytes} {r : Dyn}
    (h : special T ext (k + 1) "date.string" (.str s) = .ok r) :
    (Time.parseDateOk s = true ∧ r = .str s) ∨
      ∃ i, callNamed T ext k "ToInt64" (.str s) = .ok i ∧ callNamed T ext k "ToDate" i = .ok r := by
  simp [special] at h
  split at h
  · rename_i hp
    exact Or.inl ⟨hp, by cases h; rfl⟩
  · exact Or.inr (chain_ok h)

theorem special_date_bytes {T : CastTables} {ext : Ext} {k : Nat} {s : Bytes} {r : Dyn}
    (h : special T ext (k + 1) "date.bytes" (.bytes s) = .ok r) :
    callNamed T ext k "ToDate" (.str s) = .ok r ∨
      ∃ i, callNamed T ext k "ToInt64" (.bytes s) = .ok i ∧ callNamed T ext k "ToDate" i = .ok r := by
  simp [special] at h
  cases hc : callNamed T ext k "ToDate" (.str s) with
  | ok t => simp [hc] at h; exact Or.inl (by rw [h])
  | panic p => simp [hc] at h
  | err e =>
    rw [hc] at h
    cases e <;> first | cases h | exact Or.inr (chain_ok h)

theorem special_date_default {T : CastTables} {ext : Ext} {k : Nat} {v r : Dyn}
    (h : special T ext (k + 1) "date.default" v = .ok r) :
    ∃ i, callNamed T ext k "ToString" v = .ok i ∧ callNamed T ext k "ToDate" i = .ok r := by
  simp [special] at h
  exact chain_ok h


/-! ### Part 4: `ToDate` of the regenerated tables -/

/-- The caster of that name in the regenerated tables. -/
def casterOf (name : String) : Caster :=
  (genTables.casters.find? (fun c => c.name == name)).getD ⟨"", [], .unknown ""⟩

/-- The branch `ToDate` takes for each dynamic type of its argument (checked against the
    regenerated table by `toDate_clause`: a changed table re-opens the proof there). -/
def toDateBranch : Ty → Branch
  | .none => .ret .val
  | .time => .guarded (.or (.cmp .lt (.year .val) 0) (.cmp .gt (.year .val) 9999))
      "ErrUnableToCastToDate" (.timeFormat .val (.lit "2006-01-02"))
  | .str => .special "date.string"
  | .bytes => .special "date.bytes"
  | .int .i64 => .tail "ToDate" (.timeUnix .val)
  | _ => .special "date.default"

set_option maxRecDepth 100000 in
theorem find_toDate :
    genTables.casters.find? (fun c => c.name == "ToDate") = some (casterOf "ToDate") := by decide

set_option maxRecDepth 100000 in
theorem toDate_clause (ty : Ty) : findClause (casterOf "ToDate") ty = toDateBranch ty := by
  cases ty with
  | int i => cases i <;> decide
  | _ => decide

theorem toDate_call (ext : Ext) (f : Nat) (v : Dyn) :
    callNamed genTables ext (f + 1) "ToDate" v =
      evalBranch genTables ext f (casterOf "ToDate").name (toDateBranch (typeOf v)) v := by
  simp only [callNamed, find_toDate, toDate_clause]

/-- The lexical class of a date column: null or `YYYY-MM-DD`. -/
def DateClass (r : Dyn) : Prop := r = .nil ∨ ∃ s, r = .str s ∧ LineSpec.isDateText s = true

/-- The guard `val.Year() < 0 || val.Year() > 9999` that `ToDate` and `ToString` put before
    formatting a time: a normal result means the year is in 0..9999 and comes from the guarded
    expression. -/
theorem year_guarded_ok {T : CastTables} {ext : Ext} {g : Nat} {self sent : String} {e : E}
    {t : GoTime} {r : Dyn}
    (h : evalBranch T ext (g + 1) self
      (.guarded (.or (.cmp .lt (.year .val) 0) (.cmp .gt (.year .val) 9999)) sent e) (.time t) = .ok r) :
    evalE T ext (.time t) .nil e = .ok r ∧ 0 ≤ Time.year t ∧ Time.year t ≤ 9999 := by
  simp only [evalBranch, evalG, evalE, cmpInt] at h
  by_cases h1 : Time.year t < 0
  · simp [h1] at h
    exact absurd h (failWith_ne_ok _ _ _)
  · by_cases h2 : Time.year t > 9999
    · simp [h1, h2] at h
      exact absurd h (failWith_ne_ok _ _ _)
    · simp [h1, h2] at h
      exact ⟨h, by omega, by omega⟩

/-- The `time.Time` case of `ToDate`: years outside 0..9999 are rejected, the others are
    written with the layout `2006-01-02`. -/
theorem toDate_time_branch {T : CastTables} {ext : Ext} {g : Nat} {self : String} {t : GoTime} {r : Dyn}
    (h : evalBranch T ext (g + 1) self (toDateBranch .time) (.time t) = .ok r) :
    r = .str (Time.formatDate t) ∧ 0 ≤ Time.year t ∧ Time.year t ≤ 9999 := by
  obtain ⟨he, h0, h1⟩ := year_guarded_ok h
  simp [evalE, layoutString] at he
  exact ⟨he.symm, h0, h1⟩

/-- Every normal result of `ToDate`, at every fuel and for every source value, is nil or a
    string of the form `YYYY-MM-DD`. -/
theorem toDate_fuel (ext : Ext) :
    ∀ (fuel : Nat) (v r : Dyn), callNamed genTables ext fuel "ToDate" v = .ok r → DateClass r := by
  intro fuel
  induction fuel using Nat.strongRecOn with
  | _ fuel ih =>
    intro v r h
    cases fuel with
    | zero => simp [callNamed] at h
    | succ f =>
      rw [toDate_call] at h
      cases f with
      | zero => simp [evalBranch] at h
      | succ g =>
        -- the three verbatim bodies share this continuation
        have viaSpecial : ∀ id, special genTables ext g id v = .ok r →
            ((∃ s, v = .str s ∧ id = "date.string") ∨ (∃ s, v = .bytes s ∧ id = "date.bytes") ∨
              id = "date.default") → DateClass r := by
          intro id hs hid
          cases g with
          | zero => simp [special] at hs
          | succ k =>
            rcases hid with ⟨s, rfl, rfl⟩ | ⟨s, rfl, rfl⟩ | rfl
            · rcases special_date_string hs with ⟨hp, rfl⟩ | ⟨i, _, hi⟩
              · exact Or.inr ⟨s, rfl, parseDateOk_shape hp⟩
              · exact ih k (by omega) i r hi
            · rcases special_date_bytes hs with hi | ⟨i, _, hi⟩
              · exact ih k (by omega) _ r hi
              · exact ih k (by omega) i r hi
            · obtain ⟨i, _, hi⟩ := special_date_default hs
              exact ih k (by omega) i r hi
        have dflt : toDateBranch (typeOf v) = .special "date.default" → DateClass r := by
          intro hb
          rw [hb] at h
          simp only [evalBranch] at h
          exact viaSpecial _ h (Or.inr (Or.inr rfl))
        cases v with
        | nil =>
          simp [typeOf, toDateBranch, evalBranch, evalE] at h
          exact Or.inl h.symm
        | time t =>
          obtain ⟨rfl, h0, h1⟩ := toDate_time_branch h
          exact Or.inr ⟨_, rfl, formatDate_shape t h0 h1⟩
        | str s =>
          simp only [typeOf, toDateBranch, evalBranch] at h
          exact viaSpecial _ h (Or.inl ⟨s, rfl, rfl⟩)
        | bytes s =>
          simp only [typeOf, toDateBranch, evalBranch] at h
          exact viaSpecial _ h (Or.inr (Or.inl ⟨s, rfl, rfl⟩))
        | int t x =>
          cases t with
          | i64 =>
            simp only [typeOf, toDateBranch, evalBranch] at h
            cases he : evalE genTables ext (.int .i64 x) .nil (.timeUnix .val) with
            | ok w => rw [he] at h; exact ih g (by omega) w r h
            | err e => rw [he] at h; cases h
            | panic p => rw [he] at h; cases h
          | _ => exact dflt rfl
        | _ => exact dflt rfl

/-- Target 3: whatever `ToDate` returns normally — for every source value and every stdlib
    oracle — is nil or a string of the form `YYYY-MM-DD`. -/
theorem toDate_shape (ext : Ext) (v r : Dyn) (h : castNamed genTables ext "ToDate" v = .ok r) :
    r = .nil ∨ ∃ s, r = .str s ∧ LineSpec.isDateText s = true :=
  toDate_fuel ext 24 v r h


/-! ### Part 5: the date column -/

theorem toString_str (ext : Ext) (s : Bytes) :
    castNamed genTables ext "ToString" (.str s) = .ok (.str s) := by
  simp [castNamed, callNamed, genTables, Gen.casters, findClause, typeOf, evalBranch, evalE]

theorem toString_nil (ext : Ext) : castNamed genTables ext "ToString" .nil = .ok .nil :=
  gen_cast_nil ext "ToString" (by decide)

theorem exportFail_ok {o : Outcome Dyn} {r : Dyn} (h : exportFail o = .ok r) : o = .ok r := by
  cases o with
  | ok a => exact h
  | err e => cases e <;> cases h
  | panic p => cases h

/-- A non-nil raw value of a `date` column goes through `ToDate`, then `ToString`. -/
theorem export_date_inv {env : Env} {raw : Dyn} {typ : Ty} {e : Dyn} (hraw : raw ≠ .nil)
    (h : exportVal env (.cell raw .date typ) = .ok e) :
    ∃ t, castNamed env.T env.ext "ToDate" raw = .ok t ∧
      castNamed env.T env.ext "ToString" t = .ok e := by
  cases raw with
  | nil => exact absurd rfl hraw
  | _ =>
    simp only [exportVal] at h
    split at h
    · rename_i t ht
      exact ⟨t, exportFail_ok ht, exportFail_ok h⟩
    · rename_i hne
      exact absurd h (hne e)

/-- Target 4: a `date` column emits null or a string of the form `YYYY-MM-DD` — whatever the
    raw value, the declared raw type and the stdlib oracle; otherwise the export fails. -/
theorem date_column_class (ext : Ext) (raw : Dyn) (typ : Ty) (e : Dyn)
    (h : exportVal ⟨genTables, ext⟩ (.cell raw .date typ) = .ok e) :
    e = .nil ∨ ∃ s, e = .str s ∧ LineSpec.isDateText s = true := by
  by_cases hraw : raw = .nil
  · subst hraw
    simp [exportVal] at h
    exact Or.inl h.symm
  · obtain ⟨t, hd, h2⟩ := export_date_inv hraw h
    simp only at hd h2
    rcases toDate_shape ext raw t hd with rfl | ⟨s, rfl, hs⟩
    · rw [toString_nil] at h2
      cases h2
      exact Or.inl rfl
    · rw [toString_str] at h2
      cases h2
      exact Or.inr ⟨s, rfl, hs⟩


/-! ### Part 6: `ToTime` of the regenerated tables and the date-time column -/

theorem special_time_string {T : CastTables} {ext : Ext} {k : Nat} {s : Bytes} {r : Dyn}
    (h : special T ext (k + 1) "time.string" (.str s) = .ok r) :
    (∃ t, Time.parseRFC3339 s = some t ∧ r = .time t) ∨
      ∃ i, callNamed T ext k "ToInt64" (.str s) = .ok i ∧ callNamed T ext k "ToTime" i = .ok r := by
  simp [special] at h
  split at h
  · split at h
    · rename_i t ht
      exact Or.inl ⟨t, ht, by cases h; rfl⟩
    · exact Or.inr (chain_ok h)
  · cases h

theorem special_time_bytes {T : CastTables} {ext : Ext} {k : Nat} {s : Bytes} {r : Dyn}
    (h : special T ext (k + 1) "time.bytes" (.bytes s) = .ok r) :
    callNamed T ext k "ToTime" (.str s) = .ok r ∨
      ∃ i, callNamed T ext k "ToInt64" (.bytes s) = .ok i ∧ callNamed T ext k "ToTime" i = .ok r := by
  simp [special] at h
  cases hc : callNamed T ext k "ToTime" (.str s) with
  | ok t => simp [hc] at h; exact Or.inl (by rw [h])
  | panic p => simp [hc] at h
  | err e =>
    rw [hc] at h
    cases e <;> first | cases h | exact Or.inr (chain_ok h)

theorem special_time_default {T : CastTables} {ext : Ext} {k : Nat} {v r : Dyn}
    (h : special T ext (k + 1) "time.default" v = .ok r) :
    ∃ i, callNamed T ext k "ToInt64" v = .ok i ∧ callNamed T ext k "ToTime" i = .ok r := by
  simp [special] at h
  exact chain_ok h

/-- The branch `ToTime` takes for each dynamic type of its argument (checked against the
    regenerated table by `toTime_clause`). -/
def toTimeBranch : Ty → Branch
  | .none => .ret .val
  | .time => .ret .val
  | .str => .special "time.string"
  | .bytes => .special "time.bytes"
  | .int .i64 => .ret (.timeUnix .val)
  | _ => .special "time.default"

set_option maxRecDepth 100000 in
theorem find_toTime :
    genTables.casters.find? (fun c => c.name == "ToTime") = some (casterOf "ToTime") := by decide

set_option maxRecDepth 100000 in
theorem toTime_clause (ty : Ty) : findClause (casterOf "ToTime") ty = toTimeBranch ty := by
  cases ty with
  | int i => cases i <;> decide
  | _ => decide

theorem toTime_call (ext : Ext) (f : Nat) (v : Dyn) :
    callNamed genTables ext (f + 1) "ToTime" v =
      evalBranch genTables ext f (casterOf "ToTime").name (toTimeBranch (typeOf v)) v := by
  simp only [callNamed, find_toTime, toTime_clause]

/-- Zone offsets the `Z07:00` verb writes as `Z` or `±HH:MM`: below 100 h in magnitude. -/
def OffsetOK (off : Int) : Prop := off.natAbs < 360000

/-- The process time zone (`time.Local`, consulted by `time.Unix`) has printable offsets. -/
def ZoneOK (ext : Ext) : Prop := ∀ sec off, ext.zoneOffset sec = some off → OffsetOK off

/-- A raw value that is a `time.Time` carries a printable offset (no condition on any other
    raw value). -/
def TimeSrcOK (v : Dyn) : Prop := ∀ t, v = .time t → OffsetOK t.off

def TimeClass (r : Dyn) : Prop := r = .nil ∨ ∃ t, r = .time t ∧ OffsetOK t.off

/-- What `ToInt64` returns is never a `time.Time`. -/
theorem toInt64_not_time (ext : Ext) (fuel : Nat) (v i : Dyn)
    (h : callNamed genTables ext fuel "ToInt64" v = .ok i) : TimeSrcOK i := by
  have hg := callNamed_good ext genTables_ok (name := "ToInt64") (gen_isCaster (by decide))
    (t := .int .i64) rfl fuel v
  rw [h] at hg
  simp only [good_ok] at hg
  intro t ht
  subst ht
  unfold wantFor at hg
  split at hg <;> cases hg

theorem timeUnix_ok {T : CastTables} {ext : Ext} {x : Int} {r : Dyn}
    (h : evalE T ext (.int .i64 x) .nil (.timeUnix .val) = .ok r) :
    ∃ off, ext.zoneOffset x = some off ∧ r = .time ⟨x, 0, off⟩ := by
  simp only [evalE] at h
  split at h
  · cases h
  · cases hz : ext.zoneOffset x with
    | none => simp [hz] at h
    | some off =>
      simp only [hz, Outcome.ok.injEq] at h
      exact ⟨off, rfl, h.symm⟩

/-- Every normal result of `ToTime` is nil or a time whose offset is printable, provided the
    source (when it is itself a time) and the process zone have printable offsets; offsets read
    from a string are at most 25 h by the parser. -/
theorem toTime_fuel (ext : Ext) (hext : ZoneOK ext) :
    ∀ (fuel : Nat) (v r : Dyn), TimeSrcOK v → callNamed genTables ext fuel "ToTime" v = .ok r →
      TimeClass r := by
  intro fuel
  induction fuel using Nat.strongRecOn with
  | _ fuel ih =>
    intro v r hv h
    cases fuel with
    | zero => simp [callNamed] at h
    | succ f =>
      rw [toTime_call] at h
      cases f with
      | zero => simp [evalBranch] at h
      | succ g =>
        have viaSpecial : ∀ id, special genTables ext g id v = .ok r →
            ((∃ s, v = .str s ∧ id = "time.string") ∨ (∃ s, v = .bytes s ∧ id = "time.bytes") ∨
              id = "time.default") → TimeClass r := by
          intro id hs hid
          cases g with
          | zero => simp [special] at hs
          | succ k =>
            rcases hid with ⟨s, rfl, rfl⟩ | ⟨s, rfl, rfl⟩ | rfl
            · rcases special_time_string hs with ⟨t, hp, rfl⟩ | ⟨i, h64, hi⟩
              · have := parseRFC3339_off hp
                exact Or.inr ⟨t, rfl, by unfold OffsetOK; omega⟩
              · exact ih k (by omega) i r (toInt64_not_time ext k _ i h64) hi
            · rcases special_time_bytes hs with hi | ⟨i, h64, hi⟩
              · exact ih k (by omega) _ r (fun t ht => by cases ht) hi
              · exact ih k (by omega) i r (toInt64_not_time ext k _ i h64) hi
            · obtain ⟨i, h64, hi⟩ := special_time_default hs
              exact ih k (by omega) i r (toInt64_not_time ext k _ i h64) hi
        have dflt : toTimeBranch (typeOf v) = .special "time.default" → TimeClass r := by
          intro hb
          rw [hb] at h
          simp only [evalBranch] at h
          exact viaSpecial _ h (Or.inr (Or.inr rfl))
        cases v with
        | nil =>
          simp [typeOf, toTimeBranch, evalBranch, evalE] at h
          exact Or.inl h.symm
        | time t =>
          simp [typeOf, toTimeBranch, evalBranch, evalE] at h
          exact Or.inr ⟨t, h.symm, hv t rfl⟩
        | str s =>
          simp only [typeOf, toTimeBranch, evalBranch] at h
          exact viaSpecial _ h (Or.inl ⟨s, rfl, rfl⟩)
        | bytes s =>
          simp only [typeOf, toTimeBranch, evalBranch] at h
          exact viaSpecial _ h (Or.inr (Or.inl ⟨s, rfl, rfl⟩))
        | int t x =>
          cases t with
          | i64 =>
            simp only [typeOf, toTimeBranch, evalBranch] at h
            obtain ⟨off, hz, rfl⟩ := timeUnix_ok h
            exact Or.inr ⟨_, rfl, hext x off hz⟩
          | _ => exact dflt rfl
        | _ => exact dflt rfl

set_option maxRecDepth 100000 in
theorem find_toString :
    genTables.casters.find? (fun c => c.name == "ToString") = some (casterOf "ToString") := by decide

set_option maxRecDepth 100000 in
theorem toString_time_clause : findClause (casterOf "ToString") .time =
    .guarded (.or (.cmp .lt (.year .val) 0) (.cmp .gt (.year .val) 9999)) "ErrUnableToCastToString"
      (.timeFormat .val .timeStringFormat) := by decide

theorem gen_timeStringFormat : genTables.timeStringFormat = "2006-01-02T15:04:05Z07:00" := by decide

/-- `ToString` of a time: years outside 0..9999 are rejected, the others are written with
    the RFC 3339 layout (`cast.TimeStringFormat`). -/
theorem toString_time (ext : Ext) (t : GoTime) (r : Dyn)
    (h : castNamed genTables ext "ToString" (.time t) = .ok r) :
    r = .str (Time.formatRFC3339 t) ∧ 0 ≤ Time.year t ∧ Time.year t ≤ 9999 := by
  unfold castNamed at h
  rw [show (24 : Nat) = 22 + 1 + 1 from rfl] at h
  simp only [callNamed, find_toString, typeOf, toString_time_clause] at h
  obtain ⟨he, h0, h1⟩ := year_guarded_ok h
  simp [evalE, layoutString, gen_timeStringFormat] at he
  exact ⟨he.symm, h0, h1⟩

/-- A non-nil raw value of a `datetime` column goes through `ToTime`, then `ToString`. -/
theorem export_datetime_inv {env : Env} {raw : Dyn} {typ : Ty} {e : Dyn} (hraw : raw ≠ .nil)
    (h : exportVal env (.cell raw .datetime typ) = .ok e) :
    ∃ t, castNamed env.T env.ext "ToTime" raw = .ok t ∧
      castNamed env.T env.ext "ToString" t = .ok e := by
  cases raw with
  | nil => exact absurd rfl hraw
  | _ =>
    simp only [exportVal] at h
    split at h
    · rename_i t ht
      exact ⟨t, exportFail_ok ht, exportFail_ok h⟩
    · rename_i hne
      exact absurd h (hne e)

/-- Target 5: a `datetime` column emits null or an RFC 3339 date-time, provided the offsets
    that reach the `Z07:00` verb from outside the text are below 100 h in magnitude: the
    offset of the process zone (`ext.zoneOffset`, where it answers) and the offset of the raw
    value when that is itself a `time.Time`.  Nothing is asked of any other raw value; offsets
    need not be whole minutes. -/
theorem datetime_column_class (ext : Ext) (raw : Dyn) (typ : Ty) (e : Dyn)
    (hext : ∀ sec off, ext.zoneOffset sec = some off → off.natAbs < 360000)
    (hraw : ∀ t, raw = .time t → t.off.natAbs < 360000)
    (h : exportVal ⟨genTables, ext⟩ (.cell raw .datetime typ) = .ok e) :
    e = .nil ∨ ∃ s, e = .str s ∧ LineSpec.isDateTimeText s = true := by
  by_cases hnil : raw = .nil
  · subst hnil
    simp [exportVal] at h
    exact Or.inl h.symm
  · obtain ⟨t, hd, h2⟩ := export_datetime_inv hnil h
    simp only at hd h2
    rcases toTime_fuel ext hext 24 raw t hraw hd with rfl | ⟨tm, rfl, hoff⟩
    · rw [toString_nil] at h2
      cases h2
      exact Or.inl rfl
    · obtain ⟨rfl, h0, h1⟩ := toString_time ext tm e h2
      exact Or.inr ⟨_, rfl, formatRFC3339_shape tm h0 h1 hoff⟩


/-! ### Part 7: the statements are not vacuous, and the offset hypotheses are needed -/

theorem toDate_of_time (ext : Ext) (t : GoTime) (h0 : 0 ≤ Time.year t) (h1 : Time.year t ≤ 9999) :
    castNamed genTables ext "ToDate" (.time t) = .ok (.str (Time.formatDate t)) := by
  have e1 : ¬ Time.year t < 0 := by omega
  have e2 : ¬ Time.year t > 9999 := by omega
  unfold castNamed
  rw [show (24 : Nat) = 22 + 1 + 1 from rfl, toDate_call]
  simp [typeOf, toDateBranch, evalBranch, evalG, evalE, cmpInt, layoutString, e1, e2]

theorem toTime_of_time (ext : Ext) (t : GoTime) :
    castNamed genTables ext "ToTime" (.time t) = .ok (.time t) := by
  unfold castNamed
  rw [show (24 : Nat) = 22 + 1 + 1 from rfl, toTime_call]
  simp [typeOf, toTimeBranch, evalBranch, evalE]

theorem toTime_of_int64 (ext : Ext) (x off : Int) (hz : ext.zoneOffset x = some off)
    (hlo : -(2 ^ 62 : Int) < x) (hhi : x < 2 ^ 62) :
    castNamed genTables ext "ToTime" (.int .i64 x) = .ok (.time ⟨x, 0, off⟩) := by
  unfold castNamed
  rw [show (24 : Nat) = 22 + 1 + 1 from rfl, toTime_call]
  simp [typeOf, toTimeBranch, evalBranch, evalE, hz]
  omega

theorem toString_of_time (ext : Ext) (t : GoTime) (h0 : 0 ≤ Time.year t) (h1 : Time.year t ≤ 9999) :
    castNamed genTables ext "ToString" (.time t) = .ok (.str (Time.formatRFC3339 t)) := by
  have e1 : ¬ Time.year t < 0 := by omega
  have e2 : ¬ Time.year t > 9999 := by omega
  unfold castNamed
  rw [show (24 : Nat) = 22 + 1 + 1 from rfl]
  simp only [callNamed, find_toString, typeOf, toString_time_clause]
  simp [evalBranch, evalG, evalE, cmpInt, layoutString, gen_timeStringFormat, e1, e2]

/-- A `time.Time` in a date column with a year in 0..9999: the date at its own offset. -/
theorem date_column_of_time (ext : Ext) (t : GoTime) (typ : Ty)
    (h0 : 0 ≤ Time.year t) (h1 : Time.year t ≤ 9999) :
    exportVal ⟨genTables, ext⟩ (.cell (.time t) .date typ) = .ok (.str (Time.formatDate t)) := by
  simp [exportVal, toDate_of_time ext t h0 h1, exportFail, toString_str]

/-- A `time.Time` in a date-time column with a year in 0..9999: RFC 3339 at its own offset. -/
theorem datetime_column_of_time (ext : Ext) (t : GoTime) (typ : Ty)
    (h0 : 0 ≤ Time.year t) (h1 : Time.year t ≤ 9999) :
    exportVal ⟨genTables, ext⟩ (.cell (.time t) .datetime typ) = .ok (.str (Time.formatRFC3339 t)) := by
  simp [exportVal, toTime_of_time, toString_of_time ext t h0 h1, exportFail]

/-- The epoch in a date column, no stdlib oracle: `"1970-01-01"`. -/
theorem date_column_epoch :
    exportVal ⟨genTables, Ext.empty⟩ (.cell (.time ⟨0, 0, 0⟩) .date .time) =
      .ok (.str [0x31, 0x39, 0x37, 0x30, 0x2D, 0x30, 0x31, 0x2D, 0x30, 0x31]) := by
  have hc : Time.civilOf ⟨0, 0, 0⟩ = ⟨1970, 1, 1, 0, 0, 0⟩ := by decide
  rw [date_column_of_time _ _ _ (by simp [Time.year, hc]) (by simp [Time.year, hc])]
  simp [Time.formatDate, hc, Time.appendInt, Time.pad, natDigits]
  decide

/-- Non-vacuity of `date_column_class`: its hypothesis holds for the epoch and the conclusion
    is the second alternative. -/
example : ∃ e, exportVal ⟨genTables, Ext.empty⟩ (.cell (.time ⟨0, 0, 0⟩) .date .time) = .ok e ∧
    ∃ s, e = .str s ∧ LineSpec.isDateText s = true := by
  refine ⟨_, date_column_epoch, _, rfl, ?_⟩
  decide

/-- The epoch in a date-time column, no stdlib oracle: `"1970-01-01T00:00:00Z"`. -/
theorem datetime_column_epoch :
    exportVal ⟨genTables, Ext.empty⟩ (.cell (.time ⟨0, 0, 0⟩) .datetime .time) =
      .ok (.str [0x31, 0x39, 0x37, 0x30, 0x2D, 0x30, 0x31, 0x2D, 0x30, 0x31, 0x54,
        0x30, 0x30, 0x3A, 0x30, 0x30, 0x3A, 0x30, 0x30, 0x5A]) := by
  have hc : Time.civilOf ⟨0, 0, 0⟩ = ⟨1970, 1, 1, 0, 0, 0⟩ := by decide
  rw [datetime_column_of_time _ _ _ (by simp [Time.year, hc]) (by simp [Time.year, hc])]
  simp [Time.formatRFC3339, Time.formatDate, Time.formatZone, hc, Time.appendInt, Time.pad, natDigits]
  decide

/-- Non-vacuity of `datetime_column_class` with the empty oracle (both hypotheses hold). -/
example : ∃ e, exportVal ⟨genTables, Ext.empty⟩ (.cell (.time ⟨0, 0, 0⟩) .datetime .time) = .ok e ∧
    (∀ sec off, Ext.empty.zoneOffset sec = some off → off.natAbs < 360000) ∧
    (∀ t, Dyn.time ⟨0, 0, 0⟩ = .time t → t.off.natAbs < 360000) ∧
    ∃ s, e = .str s ∧ LineSpec.isDateTimeText s = true := by
  refine ⟨_, datetime_column_epoch, ?_, ?_, _, rfl, ?_⟩
  · intro sec off h; cases h
  · intro t h; cases h; decide
  · decide

/-- A process zone one hour east of UTC. -/
def extPlus1 : Ext := { Ext.empty with zoneOffset := fun _ => some 3600 }

/-- Unix second 0 (an `int64`) in a date-time column, process zone UTC+1:
    `"1970-01-01T01:00:00+01:00"` — the route through `time.Unix` and `ext.zoneOffset`. -/
theorem datetime_column_int64_plus1 :
    exportVal ⟨genTables, extPlus1⟩ (.cell (.int .i64 0) .datetime .time) =
      .ok (.str [0x31, 0x39, 0x37, 0x30, 0x2D, 0x30, 0x31, 0x2D, 0x30, 0x31, 0x54,
        0x30, 0x31, 0x3A, 0x30, 0x30, 0x3A, 0x30, 0x30, 0x2B, 0x30, 0x31, 0x3A, 0x30, 0x30]) := by
  have hc : Time.civilOf ⟨0, 0, 3600⟩ = ⟨1970, 1, 1, 1, 0, 0⟩ := by decide
  have ht := toTime_of_int64 extPlus1 0 3600 rfl (by decide) (by decide)
  have hs := toString_of_time extPlus1 ⟨0, 0, 3600⟩ (by simp [Time.year, hc]) (by simp [Time.year, hc])
  simp [exportVal, ht, hs, exportFail]
  simp [Time.formatRFC3339, Time.formatDate, Time.formatZone, hc, Time.appendInt, Time.pad, natDigits,
    Int.tdiv]
  decide

example : ∃ e, exportVal ⟨genTables, extPlus1⟩ (.cell (.int .i64 0) .datetime .time) = .ok e ∧
    (∀ sec off, extPlus1.zoneOffset sec = some off → off.natAbs < 360000) ∧
    ∃ s, e = .str s ∧ LineSpec.isDateTimeText s = true := by
  refine ⟨_, datetime_column_int64_plus1, ?_, _, rfl, ?_⟩
  · intro sec off h
    simp only [extPlus1, Option.some.injEq] at h
    subst h
    decide
  · decide

/-- Target 5 under the customary reading of "a zone offset" (whole minutes, below 24 h), for
    the process zone and for a raw `time.Time`: a special case of `datetime_column_class`. -/
theorem datetime_column_class_whole_minutes (ext : Ext) (raw : Dyn) (typ : Ty) (e : Dyn)
    (hext : ∀ sec off, ext.zoneOffset sec = some off → off % 60 = 0 ∧ off.natAbs < 86400)
    (hraw : ∀ t, raw = .time t → t.off % 60 = 0 ∧ t.off.natAbs < 86400)
    (h : exportVal ⟨genTables, ext⟩ (.cell raw .datetime typ) = .ok e) :
    e = .nil ∨ ∃ s, e = .str s ∧ LineSpec.isDateTimeText s = true :=
  datetime_column_class ext raw typ e
    (fun sec off hz => by have := (hext sec off hz).2; omega)
    (fun t ht => by have := (hraw t ht).2; omega) h

/-- `1970-01-05T04:00:00+100:00`: the epoch at offset +100 h. -/
def text100h : Bytes :=
  [0x31, 0x39, 0x37, 0x30, 0x2D, 0x30, 0x31, 0x2D, 0x30, 0x35, 0x54,
    0x30, 0x34, 0x3A, 0x30, 0x30, 0x3A, 0x30, 0x30, 0x2B, 0x31, 0x30, 0x30, 0x3A, 0x30, 0x30]

theorem civilOf_100h : Time.civilOf ⟨0, 0, 360000⟩ = ⟨1970, 1, 5, 4, 0, 0⟩ := by decide

theorem formatRFC3339_100h : Time.formatRFC3339 ⟨0, 0, 360000⟩ = text100h := by
  simp [Time.formatRFC3339, Time.formatDate, Time.formatZone, civilOf_100h, Time.appendInt, Time.pad,
    natDigits, Int.tdiv, text100h]
  decide

theorem text100h_not_datetime : LineSpec.isDateTimeText text100h = false := by decide

/-- The hypothesis on the raw value is needed: a `time.Time` at offset +100 h (a
    `time.FixedZone` can carry it) is exported, and the text `1970-01-05T04:00:00+100:00` is not
    an RFC 3339 date-time (three digits in the zone hour). -/
theorem datetime_raw_offset_bound_needed :
    exportVal ⟨genTables, Ext.empty⟩ (.cell (.time ⟨0, 0, 360000⟩) .datetime .time) =
      .ok (.str text100h) ∧ LineSpec.isDateTimeText text100h = false := by
  refine ⟨?_, text100h_not_datetime⟩
  rw [datetime_column_of_time _ _ _ (by simp [Time.year, civilOf_100h])
    (by simp [Time.year, civilOf_100h]), formatRFC3339_100h]

/-- A process zone 100 h east of UTC. -/
def extPlus100 : Ext := { Ext.empty with zoneOffset := fun _ => some 360000 }

/-- The hypothesis on the process zone is needed: Unix second 0 (an `int64`) rendered in a
    zone at +100 h is exported with the same text. -/
theorem datetime_zone_offset_bound_needed :
    exportVal ⟨genTables, extPlus100⟩ (.cell (.int .i64 0) .datetime .time) =
      .ok (.str text100h) ∧ LineSpec.isDateTimeText text100h = false := by
  refine ⟨?_, text100h_not_datetime⟩
  have ht := toTime_of_int64 extPlus100 0 360000 rfl (by decide) (by decide)
  have hs := toString_of_time extPlus100 ⟨0, 0, 360000⟩ (by simp [Time.year, civilOf_100h])
    (by simp [Time.year, civilOf_100h])
  simp [exportVal, ht, hs, exportFail, formatRFC3339_100h]

end Jl.TimeShape
