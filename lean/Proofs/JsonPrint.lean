/-
  Proofs.JsonPrint — C01: every line the exporter writes is exactly one syntactically valid
  JSON object (for the model of the reader, `Json.accepts`) followed by one newline, and
  contains no raw newline; a row that cannot be rendered writes nothing.

  `ReadsAs t v` states, about the decoder, that the text `t` is one JSON value `v`; it is
  proved for every scalar the printer can emit (Proofs.JsonQuote), for arrays and objects of
  such texts, and then for everything `RowPrint.marshal*` returns, by induction over the value.
-/
import Proofs.JsonQuote
import Proofs.Base64
import Proofs.Time
import Model.RowPrint
import Model.Template

namespace Jl.JsonPrint
open Json JsonWrite JsonQuote RowPrint IntText

/-! ### What "the text `t` is one JSON value" means for the reader -/

/-- What follows a value inside a line: nothing, or `,` `]` `}`. -/
def Ends (rest : Bytes) : Prop :=
  ∀ c, rest.head? = some c → c = 0x2C ∨ c = 0x5D ∨ c = 0x7D

/-- The first byte of a value text: not white space, not a separator, not a closing bracket
    (so `skipSpace`, the separator step of `token` and `more` all leave it alone). -/
def Lead (t : Bytes) : Prop :=
  ∃ c tl, t = c :: tl ∧ isSpace c = false ∧ c ≠ 0x3A ∧ c ≠ 0x2C ∧ c ≠ 0x5D ∧ c ≠ 0x7D

/-- `t` is read as the value `v`: in every decoder state that allows a value, with any stack and
    any admissible continuation, one `Token` call followed by `handledelim` consumes exactly `t`,
    yields `v`, and leaves the decoder in the state "a value has just ended". -/
def ReadsAs (t : Bytes) (v : JV) : Prop :=
  Lead t ∧
  ∀ (st : TokState) (stack : List TokState) (rest : Bytes) (fuel : Nat),
    valueAllowed st = true → Ends rest → t.length + 1 ≤ fuel →
    ∃ tk d', tokenCore st stack (t ++ rest) = .tok tk d' ∧
      handleDelim fuel tk d' = some (v, ⟨rest, valueEnd st, stack⟩)

theorem ends_nil : Ends [] := fun _ h => by cases h
theorem ends_comma (tl : Bytes) : Ends (0x2C :: tl) := fun _ h => by cases h; exact .inl rfl
theorem ends_rbrack (tl : Bytes) : Ends (0x5D :: tl) := fun _ h => by cases h; exact .inr (.inl rfl)
theorem ends_rbrace (tl : Bytes) : Ends (0x7D :: tl) := fun _ h => by cases h; exact .inr (.inr rfl)

theorem numberEnds_of_ends {rest : Bytes} (h : Ends rest) : NumberEnds rest := by
  intro c hc
  rcases h c hc with rfl | rfl | rfl <;> decide

theorem skipSpace_lead {t : Bytes} (h : Lead t) (rest : Bytes) : skipSpace (t ++ rest) = t ++ rest := by
  obtain ⟨c, tl, rfl, hs, _⟩ := h
  simp [skipSpace, hs]

theorem token_lead {t : Bytes} (h : Lead t) (rest : Bytes) (st : TokState) (stack : List TokState) :
    token ⟨t ++ rest, st, stack⟩ = tokenCore st stack (t ++ rest) := by
  unfold token
  simp only [skipSpace_lead h]
  obtain ⟨c, tl, rfl, _, h1, h2, _⟩ := h
  simp [h1, h2]

theorem more_lead {t : Bytes} (h : Lead t) (rest : Bytes) (st : TokState) (stack : List TokState) :
    more ⟨t ++ rest, st, stack⟩ = true := by
  unfold more
  simp only [skipSpace_lead h]
  obtain ⟨c, tl, rfl, _, _, _, h3, h4⟩ := h
  simp [h3, h4]

/-- The statement in terms of `Decoder.Token` itself. -/
theorem ReadsAs.token {t : Bytes} {v : JV} (h : ReadsAs t v) (st : TokState)
    (stack : List TokState) (rest : Bytes) (fuel : Nat)
    (hst : valueAllowed st = true) (hr : Ends rest) (hf : t.length + 1 ≤ fuel) :
    ∃ tk d', Json.token ⟨t ++ rest, st, stack⟩ = .tok tk d' ∧
      handleDelim fuel tk d' = some (v, ⟨rest, valueEnd st, stack⟩) := by
  rw [token_lead h.1]
  exact h.2 st stack rest fuel hst hr hf

/-! ### Scalars -/

theorem handleDelim_scalar {tk : Tok} {v : JV} (hv : scalarOf tk = some v) (fuel : Nat) (d : Dec) :
    handleDelim (fuel + 1) tk d = some (v, d) := by
  cases tk <;> simp [scalarOf] at hv <;> subst hv <;> simp [handleDelim]

theorem tokenCore_scalar {c : UInt8} {tl : Bytes} {tk : Tok} {r : Bytes} {st : TokState}
    (stack : List TokState) (hst : valueAllowed st = true)
    (h1 : c ≠ 0x5B) (h2 : c ≠ 0x5D) (h3 : c ≠ 0x7B) (h4 : c ≠ 0x7D) (h5 : c ≠ 0x3A) (h6 : c ≠ 0x2C)
    (hscan : scanScalar (c :: tl) = some (tk, r)) :
    tokenCore st stack (c :: tl) = .tok tk ⟨r, valueEnd st, stack⟩ := by
  cases st <;> simp [valueAllowed] at hst <;>
    simp [tokenCore, h1, h2, h3, h4, h5, h6, hscan, valueAllowed]

theorem readsAs_scalar {c : UInt8} {tl : Bytes} {tk : Tok} {v : JV} (hv : scalarOf tk = some v)
    (hsp : isSpace c = false)
    (h1 : c ≠ 0x5B) (h2 : c ≠ 0x5D) (h3 : c ≠ 0x7B) (h4 : c ≠ 0x7D) (h5 : c ≠ 0x3A) (h6 : c ≠ 0x2C)
    (hscan : ∀ rest, Ends rest → scanScalar (c :: tl ++ rest) = some (tk, rest)) :
    ReadsAs (c :: tl) v := by
  refine ⟨⟨c, tl, rfl, hsp, h5, h6, h2, h4⟩, ?_⟩
  intro st stack rest fuel hst hr hf
  refine ⟨tk, ⟨rest, valueEnd st, stack⟩, ?_, ?_⟩
  · exact tokenCore_scalar stack hst h1 h2 h3 h4 h5 h6 (hscan rest hr)
  · obtain ⟨f, rfl⟩ : ∃ f, fuel = f + 1 := ⟨fuel - 1, by omega⟩
    exact handleDelim_scalar hv f _

theorem readsAs_quote (s : Bytes) : ReadsAs (quote s) (.str (sanitize s)) := by
  unfold quote
  refine readsAs_scalar (tk := .str (sanitize s)) rfl (by decide) (by decide) (by decide)
    (by decide) (by decide) (by decide) (by decide) ?_
  intro rest _
  have := scanScalar_quote s rest
  simpa [quote] using this

theorem readsAs_null : ReadsAs RowPrint.null .null :=
  readsAs_scalar (tk := .null) rfl (by decide) (by decide) (by decide) (by decide) (by decide)
    (by decide) (by decide) (fun rest _ => scanScalar_null rest)

theorem readsAs_true : ReadsAs RowPrint.tru (.bool true) :=
  readsAs_scalar (tk := .tru) rfl (by decide) (by decide) (by decide) (by decide) (by decide)
    (by decide) (by decide) (fun rest _ => scanScalar_true rest)

theorem readsAs_false : ReadsAs RowPrint.fls (.bool false) :=
  readsAs_scalar (tk := .fls) rfl (by decide) (by decide) (by decide) (by decide) (by decide)
    (by decide) (by decide) (fun rest _ => scanScalar_false rest)

set_option maxRecDepth 100000 in
theorem digit_facts_aux : ∀ n, n < 256 → Json.isDigit (UInt8.ofNat n) = true →
    isSpace (UInt8.ofNat n) = false ∧ UInt8.ofNat n ≠ 0x5B ∧ UInt8.ofNat n ≠ 0x5D ∧
    UInt8.ofNat n ≠ 0x7B ∧ UInt8.ofNat n ≠ 0x7D ∧ UInt8.ofNat n ≠ 0x3A ∧ UInt8.ofNat n ≠ 0x2C := by
  decide

theorem digit_facts {c : UInt8} (h : Json.isDigit c = true) :
    isSpace c = false ∧ c ≠ 0x5B ∧ c ≠ 0x5D ∧ c ≠ 0x7B ∧ c ≠ 0x7D ∧ c ≠ 0x3A ∧ c ≠ 0x2C := by
  have := digit_facts_aux c.toNat c.toNat_lt
  rw [UInt8.ofNat_toNat] at this
  exact this h

theorem readsAs_number {l : Bytes} (hl : isValidNumber l = true) : ReadsAs l (.num l) := by
  obtain ⟨c, t, rfl, hc⟩ := validNumber_head hl
  have hcc : isSpace c = false ∧ c ≠ 0x5B ∧ c ≠ 0x5D ∧ c ≠ 0x7B ∧ c ≠ 0x7D ∧ c ≠ 0x3A ∧ c ≠ 0x2C := by
    rcases hc with rfl | hc
    · decide
    · exact digit_facts hc
  obtain ⟨a1, a2, a3, a4, a5, a6, a7⟩ := hcc
  exact readsAs_scalar (tk := .num (c :: t)) rfl a1 a2 a3 a4 a5 a6 a7
    (fun rest hr => scanScalar_number rest hl (numberEnds_of_ends hr))

/-! ### Arrays -/

/-- `,p₁,p₂…`: what follows the first part of a comma-joined list. -/
def commaTail : List Bytes → Bytes
  | [] => []
  | p :: ps => 0x2C :: (p ++ commaTail ps)

theorem joinComma_cons (p : Bytes) (ps : List Bytes) : joinComma (p :: ps) = p ++ commaTail ps := by
  induction ps generalizing p with
  | nil => simp [joinComma, commaTail]
  | cons q qs ih =>
    rw [joinComma, ih q, commaTail]
    exact fun h => List.cons_ne_nil _ _ h

/-- Element-wise: each part is read as the corresponding value. -/
inductive ReadsList : List Bytes → JVList → Prop
  | nil : ReadsList [] .nil
  | cons {p ps v vs} : ReadsAs p v → ReadsList ps vs → ReadsList (p :: ps) (.cons v vs)

theorem ends_commaTail_rbrack (ps : List Bytes) (rest : Bytes) :
    Ends (commaTail ps ++ 0x5D :: rest) := by
  cases ps with
  | nil => exact ends_rbrack rest
  | cons p ps => exact ends_comma _

theorem ends_commaTail_rbrace (ps : List Bytes) (rest : Bytes) :
    Ends (commaTail ps ++ 0x7D :: rest) := by
  cases ps with
  | nil => exact ends_rbrace rest
  | cons p ps => exact ends_comma _

theorem more_rbrack (rest : Bytes) (st : TokState) (stk : List TokState) :
    more ⟨0x5D :: rest, st, stk⟩ = false := by
  simp [more, skipSpace, isSpace]

theorem more_rbrace (rest : Bytes) (st : TokState) (stk : List TokState) :
    more ⟨0x7D :: rest, st, stk⟩ = false := by
  simp [more, skipSpace, isSpace]

theorem more_comma (rest : Bytes) (st : TokState) (stk : List TokState) :
    more ⟨0x2C :: rest, st, stk⟩ = true := by
  simp [more, skipSpace, isSpace]

theorem token_rbrack (rest : Bytes) (st s : TokState) (stk : List TokState)
    (h : st = .arrayStart ∨ st = .arrayComma) :
    token ⟨0x5D :: rest, st, s :: stk⟩ = .tok .rbrack ⟨rest, valueEnd s, stk⟩ := by
  rcases h with rfl | rfl <;> simp [token, skipSpace, isSpace, tokenCore]

theorem token_rbrace (rest : Bytes) (st s : TokState) (stk : List TokState)
    (h : st = .objectStart ∨ st = .objectComma) :
    token ⟨0x7D :: rest, st, s :: stk⟩ = .tok .rbrace ⟨rest, valueEnd s, stk⟩ := by
  rcases h with rfl | rfl <;> simp [token, skipSpace, isSpace, tokenCore]

/-- `,` in an array, then a value. -/
theorem token_comma_arr {p : Bytes} (h : Lead p) (rest : Bytes) (stk : List TokState) :
    token ⟨0x2C :: (p ++ rest), .arrayComma, stk⟩ = tokenCore .arrayValue stk (p ++ rest) := by
  simp [token, skipSpace, isSpace, skipSpace_lead h]

theorem parseArray_close (fuel : Nat) (rest : Bytes) (st s : TokState) (stk : List TokState)
    (h : st = .arrayStart ∨ st = .arrayComma) :
    parseArray (fuel + 1) ⟨0x5D :: rest, st, s :: stk⟩ = some (.nil, ⟨rest, valueEnd s, stk⟩) := by
  simp [parseArray, more_rbrack, token_rbrack _ _ _ _ h, asClose]

theorem parseArray_tail {ps : List Bytes} {vs : JVList} (h : ReadsList ps vs) :
    ∀ (fuel : Nat) (s : TokState) (stk : List TokState) (rest : Bytes),
      (commaTail ps).length + 1 ≤ fuel →
      parseArray fuel ⟨commaTail ps ++ 0x5D :: rest, .arrayComma, s :: stk⟩ =
        some (vs, ⟨rest, valueEnd s, stk⟩) := by
  induction h with
  | nil =>
    intro fuel s stk rest hf
    obtain ⟨f, rfl⟩ : ∃ f, fuel = f + 1 := ⟨fuel - 1, by omega⟩
    exact parseArray_close f rest _ s stk (.inr rfl)
  | @cons p ps v vs hp _ ih =>
    intro fuel s stk rest hf
    simp only [commaTail, List.length_cons, List.length_append] at hf
    obtain ⟨f, rfl⟩ : ∃ f, fuel = f + 1 := ⟨fuel - 1, by omega⟩
    obtain ⟨tk, d', h1, h2⟩ := hp.2 .arrayValue (s :: stk) (commaTail ps ++ 0x5D :: rest) f rfl
      (ends_commaTail_rbrack ps rest) (by omega)
    have h3 := ih f s stk rest (by omega)
    simp only [commaTail, List.cons_append, List.append_assoc]
    rw [parseArray, more_comma, if_pos rfl, token_comma_arr hp.1, h1]
    simp only [asTok, h2]
    simp only [valueEnd] at h3 ⊢
    rw [h3]

theorem readsAs_array {ps : List Bytes} {vs : JVList} (h : ReadsList ps vs) :
    ReadsAs (0x5B :: (joinComma ps ++ [0x5D])) (.arr vs) := by
  refine ⟨⟨0x5B, _, rfl, by decide, by decide, by decide, by decide, by decide⟩, ?_⟩
  intro st stack rest fuel hst hr hf
  refine ⟨.lbrack, ⟨joinComma ps ++ 0x5D :: rest, .arrayStart, st :: stack⟩, ?_, ?_⟩
  · simp [tokenCore, hst]
  · simp only [List.length_cons, List.length_append, List.length_nil] at hf
    obtain ⟨f, rfl⟩ : ∃ f, fuel = f + 1 := ⟨fuel - 1, by omega⟩
    obtain ⟨f, rfl⟩ : ∃ f', f = f' + 1 := ⟨f - 1, by omega⟩
    cases h with
    | nil =>
      simp only [handleDelim, joinComma, List.nil_append]
      rw [parseArray_close f rest _ st stack (.inl rfl)]
    | @cons p ps v vs hp hps =>
      rw [joinComma_cons] at hf ⊢
      simp only [List.length_append] at hf
      obtain ⟨f, rfl⟩ : ∃ f', f = f' + 1 := ⟨f - 1, by have := hp.1; obtain ⟨c, tl, rfl, _⟩ := this; simp at hf; omega⟩
      obtain ⟨tk, d', h1, h2⟩ := hp.2 .arrayStart (st :: stack) (commaTail ps ++ 0x5D :: rest) (f + 1) rfl
        (ends_commaTail_rbrack ps rest) (by omega)
      have h3 := parseArray_tail hps (f + 1) st stack rest (by omega)
      simp only [handleDelim, List.append_assoc]
      rw [parseArray, more_lead hp.1, if_pos rfl, token_lead hp.1, h1]
      simp only [asTok, h2]
      simp only [valueEnd] at h3 ⊢
      rw [h3]


/-! ### Objects -/

/-- Member-wise: each part is `"key":value-text`; it is read as the key (after the trip through
    the escaper: `sanitize`) and the value. -/
inductive ReadsMembers : List Bytes → JVMembers → Prop
  | nil : ReadsMembers [] .nil
  | cons {k p ps v vs} : ReadsAs p v → ReadsMembers ps vs →
      ReadsMembers ((quote k ++ 0x3A :: p) :: ps) (.cons (sanitize k) v vs)

theorem lead_quote (k : Bytes) (more : Bytes) : Lead (quote k ++ more) :=
  ⟨0x22, quoteBody k ++ [0x22] ++ more, by simp [quote], by decide, by decide, by decide,
    by decide, by decide⟩

/-- A key in an object: the string token, state `objectColon`. -/
theorem tokenCore_key (k more : Bytes) (st : TokState) (stk : List TokState)
    (h : st = .objectStart ∨ st = .objectKey) :
    tokenCore st stk (quote k ++ more) = .tok (.str (sanitize k)) ⟨more, .objectColon, stk⟩ := by
  rw [quote_append]
  rcases h with rfl | rfl <;> simp [tokenCore, strBody_quoteBody]

theorem more_quote (k more' : Bytes) (st : TokState) (stk : List TokState) :
    more ⟨quote k ++ more', st, stk⟩ = true := by
  have := more_lead (lead_quote k more') [] st stk
  simpa using this

theorem token_key (k more : Bytes) (st : TokState) (stk : List TokState)
    (h : st = .objectStart ∨ st = .objectKey) :
    token ⟨quote k ++ more, st, stk⟩ = .tok (.str (sanitize k)) ⟨more, .objectColon, stk⟩ := by
  have := token_lead (lead_quote k more) [] st stk
  simp only [List.append_nil] at this
  rw [this, tokenCore_key k more st stk h]

/-- `:` then a value. -/
theorem token_colon {p : Bytes} (h : Lead p) (rest : Bytes) (stk : List TokState) :
    token ⟨0x3A :: (p ++ rest), .objectColon, stk⟩ = tokenCore .objectValue stk (p ++ rest) := by
  simp [token, skipSpace, isSpace, skipSpace_lead h]

/-- `,` in an object, then a key. -/
theorem token_comma_obj (k more : Bytes) (stk : List TokState) :
    token ⟨0x2C :: (quote k ++ more), .objectComma, stk⟩ =
      .tok (.str (sanitize k)) ⟨more, .objectColon, stk⟩ := by
  have := skipSpace_lead (lead_quote k more) []
  simp only [List.append_nil] at this
  simp [token, skipSpace, isSpace, this, tokenCore_key k more .objectKey stk (.inr rfl)]

theorem parseObject_close (fuel : Nat) (rest : Bytes) (st s : TokState) (stk : List TokState)
    (h : st = .objectStart ∨ st = .objectComma) :
    parseObject (fuel + 1) ⟨0x7D :: rest, st, s :: stk⟩ = (.nil, some ⟨rest, valueEnd s, stk⟩) := by
  simp [parseObject, more_rbrace, token_rbrace _ _ _ _ h, asClose]

theorem parseObject_tail {ps : List Bytes} {vs : JVMembers} (h : ReadsMembers ps vs) :
    ∀ (fuel : Nat) (s : TokState) (stk : List TokState) (rest : Bytes),
      (commaTail ps).length + 1 ≤ fuel →
      parseObject fuel ⟨commaTail ps ++ 0x7D :: rest, .objectComma, s :: stk⟩ =
        (vs, some ⟨rest, valueEnd s, stk⟩) := by
  induction h with
  | nil =>
    intro fuel s stk rest hf
    obtain ⟨f, rfl⟩ : ∃ f, fuel = f + 1 := ⟨fuel - 1, by omega⟩
    exact parseObject_close f rest _ s stk (.inr rfl)
  | @cons k p ps v vs hp _ ih =>
    intro fuel s stk rest hf
    simp only [commaTail, List.length_cons, List.length_append] at hf
    obtain ⟨f, rfl⟩ : ∃ f, fuel = f + 1 := ⟨fuel - 1, by omega⟩
    obtain ⟨tk, d', h1, h2⟩ := hp.2 .objectValue (s :: stk) (commaTail ps ++ 0x7D :: rest) f rfl
      (ends_commaTail_rbrace ps rest) (by omega)
    have h3 := ih f s stk rest (by omega)
    simp only [commaTail, List.cons_append, List.append_assoc]
    rw [parseObject, more_comma, if_pos rfl, token_comma_obj]
    simp only [asKey, token_colon hp.1, h1, asTok, h2]
    simp only [valueEnd] at h3 ⊢
    rw [h3]

/-- The members and the closing brace, from the state after `{`. -/
theorem parseObject_body {ps : List Bytes} {vs : JVMembers} (h : ReadsMembers ps vs)
    (fuel : Nat) (s : TokState) (stk : List TokState) (rest : Bytes)
    (hf : (joinComma ps).length + 2 ≤ fuel) :
    parseObject fuel ⟨joinComma ps ++ 0x7D :: rest, .objectStart, s :: stk⟩ =
      (vs, some ⟨rest, valueEnd s, stk⟩) := by
  obtain ⟨f, rfl⟩ : ∃ f, fuel = f + 1 := ⟨fuel - 1, by omega⟩
  cases h with
  | nil =>
    simp only [joinComma, List.nil_append]
    exact parseObject_close f rest _ s stk (.inl rfl)
  | @cons k p ps v vs hp hps =>
    rw [joinComma_cons] at hf ⊢
    simp only [List.length_append, List.length_cons] at hf
    obtain ⟨tk, d', h1, h2⟩ := hp.2 .objectValue (s :: stk) (commaTail ps ++ 0x7D :: rest) f rfl
      (ends_commaTail_rbrace ps rest) (by omega)
    have h3 := parseObject_tail hps f s stk rest (by omega)
    simp only [List.append_assoc, List.cons_append]
    rw [parseObject, more_quote, if_pos rfl, token_key _ _ _ _ (.inl rfl)]
    simp only [asKey, token_colon hp.1, h1, asTok, h2]
    simp only [valueEnd] at h3 ⊢
    rw [h3]

theorem readsAs_object {ps : List Bytes} {vs : JVMembers} (h : ReadsMembers ps vs) :
    ReadsAs (0x7B :: (joinComma ps ++ [0x7D])) (.obj vs) := by
  refine ⟨⟨0x7B, _, rfl, by decide, by decide, by decide, by decide, by decide⟩, ?_⟩
  intro st stack rest fuel hst hr hf
  refine ⟨.lbrace, ⟨joinComma ps ++ 0x7D :: rest, .objectStart, st :: stack⟩, ?_, ?_⟩
  · simp [tokenCore, hst]
  · simp only [List.length_cons, List.length_append, List.length_nil] at hf
    obtain ⟨f, rfl⟩ : ∃ f, fuel = f + 1 := ⟨fuel - 1, by omega⟩
    simp only [handleDelim]
    rw [parseObject_body h f st stack rest (by omega)]

/-- A whole line: `{…}` and nothing else is accepted by `row.UnmarshalJSON`, and the members
    delivered are the ones printed. -/
theorem unmarshal_object {ps : List Bytes} {vs : JVMembers} (h : ReadsMembers ps vs) :
    unmarshal (0x7B :: (joinComma ps ++ [0x7D])) = (vs, true) := by
  have h1 : token ⟨0x7B :: (joinComma ps ++ [0x7D]), .topValue, []⟩ =
      .tok .lbrace ⟨joinComma ps ++ [0x7D], .objectStart, [.topValue]⟩ := by
    simp [token, skipSpace, isSpace, tokenCore, valueAllowed]
  have h2 := parseObject_body h (2 * (0x7B :: (joinComma ps ++ [0x7D])).length + 2) .topValue [] []
    (by simp only [List.length_cons, List.length_append, List.length_nil]; omega)
  unfold unmarshal
  rw [h1]
  simp only [asClose, if_true]
  rw [h2]
  simp [token, skipSpace, isEof]


/-! ### The printer's texts: no control byte, and the time text is a plain quoted string -/

theorem printable_append {s t : Bytes} (hs : Printable s) (ht : Printable t) : Printable (s ++ t) := by
  intro b hb
  rcases List.mem_append.1 hb with h | h
  · exact hs b h
  · exact ht b h

theorem printable_nil : Printable [] := fun _ h => by cases h

theorem printable_commaTail {ps : List Bytes} (h : ∀ p ∈ ps, Printable p) : Printable (commaTail ps) := by
  induction ps with
  | nil => exact printable_nil
  | cons p ps ih =>
    exact printable_cons (by decide) (printable_append (h p (by simp))
      (ih fun q hq => h q (by simp [hq])))

theorem printable_joinComma {ps : List Bytes} (h : ∀ p ∈ ps, Printable p) : Printable (joinComma ps) := by
  cases ps with
  | nil => exact printable_nil
  | cons p ps =>
    rw [joinComma_cons]
    exact printable_append (h p (by simp)) (printable_commaTail fun q hq => h q (by simp [hq]))

theorem printable_bracket {ps : List Bytes} (h : ∀ p ∈ ps, Printable p) :
    Printable (0x5B :: (joinComma ps ++ [0x5D])) :=
  printable_cons (by decide) (printable_append (printable_joinComma h)
    (printable_cons (by decide) printable_nil))

theorem printable_brace {ps : List Bytes} (h : ∀ p ∈ ps, Printable p) :
    Printable (0x7B :: (joinComma ps ++ [0x7D])) :=
  printable_cons (by decide) (printable_append (printable_joinComma h)
    (printable_cons (by decide) printable_nil))

theorem printable_member {k p : Bytes} (hp : Printable p) : Printable (quote k ++ 0x3A :: p) :=
  printable_append (quote_ge k) (printable_cons (by decide) hp)

/-- Bytes the escaper copies. -/
def AllSafe (s : Bytes) : Prop := ∀ b ∈ s, htmlSafe b = true

theorem htmlSafe_lt {b : UInt8} (h : htmlSafe b = true) : b < 0x80 := by
  simp only [htmlSafe, Bool.and_eq_true, decide_eq_true_eq] at h
  exact h.1.1.1.1.1.2

theorem quoteBody_safe (s : Bytes) (h : AllSafe s) : quoteBody s = s := by
  induction s with
  | nil => rw [quoteBody.eq_def]
  | cons b tl ih =>
    have hb := h b (by simp)
    rw [quoteBody.eq_def]
    simp only [htmlSafe_lt hb, hb, if_true]
    rw [ih fun x hx => h x (by simp [hx])]

theorem allSafe_append {s t : Bytes} (hs : AllSafe s) (ht : AllSafe t) : AllSafe (s ++ t) := by
  intro b hb
  rcases List.mem_append.1 hb with h | h
  · exact hs b h
  · exact ht b h

theorem allSafe_cons {c : UInt8} {t : Bytes} (hc : htmlSafe c = true) (ht : AllSafe t) :
    AllSafe (c :: t) := by
  intro b hb
  rcases List.mem_cons.1 hb with rfl | hb
  · exact hc
  · exact ht b hb

theorem allSafe_nil : AllSafe [] := fun _ h => by cases h

set_option maxRecDepth 100000 in
theorem isDig_safe_aux : ∀ n, n < 256 → 48 ≤ n → n ≤ 57 → htmlSafe (UInt8.ofNat n) = true := by
  decide

theorem isDig_safe {c : UInt8} (h : IsDig c) : htmlSafe c = true := by
  have := isDig_safe_aux c.toNat c.toNat_lt h.1 h.2
  rwa [UInt8.ofNat_toNat] at this

theorem allSafe_pad (n w : Nat) : AllSafe (Time.pad n w) := by
  intro b hb
  simp only [Time.pad, List.mem_append, List.mem_replicate] at hb
  rcases hb with ⟨_, rfl⟩ | hb
  · decide
  · exact isDig_safe (natDigits_all_isDig n b hb)

theorem allSafe_appendInt (x : Int) (w : Nat) : AllSafe (Time.appendInt x w) := by
  unfold Time.appendInt
  split
  · exact allSafe_cons (by decide) (allSafe_pad _ _)
  · exact allSafe_pad _ _

theorem allSafe_formatDate (t : GoTime) : AllSafe (Time.formatDate t) := by
  unfold Time.formatDate
  exact allSafe_append (allSafe_append (allSafe_append (allSafe_append (allSafe_appendInt _ _)
    (allSafe_cons (by decide) allSafe_nil)) (allSafe_pad _ _))
    (allSafe_cons (by decide) allSafe_nil)) (allSafe_pad _ _)

theorem allSafe_formatZone (off : Int) : AllSafe (Time.formatZone off) := by
  rw [Time.formatZone_eq]
  split
  · exact allSafe_cons (by decide) allSafe_nil
  · split
    · exact allSafe_cons (by decide) (allSafe_append (allSafe_append (allSafe_pad _ _)
        (allSafe_cons (by decide) allSafe_nil)) (allSafe_pad _ _))
    · exact allSafe_cons (by decide) (allSafe_append (allSafe_append (allSafe_pad _ _)
        (allSafe_cons (by decide) allSafe_nil)) (allSafe_pad _ _))

theorem allSafe_fracNano (ns : Nat) : AllSafe (fracNano ns) := by
  unfold fracNano
  split
  · exact allSafe_nil
  · refine allSafe_cons (by decide) ?_
    intro b hb
    have := (List.dropWhile_sublist _).subset (List.mem_reverse.1 hb)
    exact allSafe_pad ns 9 b (List.mem_reverse.1 this)

/-- `time.Time.MarshalJSON` writes a quoted string none of whose bytes needs an escape. -/
theorem marshalTime_quote {t : GoTime} {s : Bytes} (h : marshalTime t = some s) :
    ∃ body, s = quote body := by
  unfold marshalTime at h
  simp only at h
  split at h
  · cases h
  · split at h
    · cases h
    · injection h with h
      refine ⟨Time.formatDate t ++ [84] ++ Time.pad (Time.civilOf t).hour 2 ++ [58] ++
        Time.pad (Time.civilOf t).min 2 ++ [58] ++ Time.pad (Time.civilOf t).sec 2 ++
        fracNano t.nsec ++ Time.formatZone t.off, ?_⟩
      rw [← h, quote, quoteBody_safe]
      have c1 : ∀ c : UInt8, htmlSafe c = true → AllSafe [c] := fun c hc => allSafe_cons hc allSafe_nil
      exact allSafe_append (allSafe_append (allSafe_append (allSafe_append (allSafe_append
        (allSafe_append (allSafe_append (allSafe_append (allSafe_formatDate t) (c1 _ (by decide)))
        (allSafe_pad _ _)) (c1 _ (by decide))) (allSafe_pad _ _)) (c1 _ (by decide)))
        (allSafe_pad _ _)) (allSafe_fracNano _)) (allSafe_formatZone _)


open Value

/-! ### Everything the printer returns is a value text -/

/-- The assumption on the standard-library parameter: json.Marshal's spelling of a float, when
    there is one, is a valid JSON number. -/
def FloatTextOK (ext : Ext) : Prop :=
  ∀ b sz s, ext.jsonFloat b sz = some (some s) → isValidNumber s = true

/-- `t` is read as some value and has no byte below 0x20. -/
def Good (t : Bytes) : Prop := (∃ v, ReadsAs t v) ∧ Printable t
def GoodList (ps : List Bytes) : Prop := (∃ vs, ReadsList ps vs) ∧ ∀ p ∈ ps, Printable p
def GoodMembers (ps : List Bytes) : Prop := (∃ vs, ReadsMembers ps vs) ∧ ∀ p ∈ ps, Printable p

theorem good_null : Good RowPrint.null :=
  ⟨⟨_, readsAs_null⟩, (by decide : ∀ b ∈ RowPrint.null, (0x20 : UInt8) ≤ b)⟩
theorem good_bool (b : Bool) : Good (if b then tru else fls) := by
  cases b
  · exact ⟨⟨_, readsAs_false⟩, (by decide : ∀ b ∈ fls, (0x20 : UInt8) ≤ b)⟩
  · exact ⟨⟨_, readsAs_true⟩, (by decide : ∀ b ∈ tru, (0x20 : UInt8) ≤ b)⟩
theorem good_number {l : Bytes} (h : isValidNumber l = true) : Good l :=
  ⟨⟨_, readsAs_number h⟩, validNumber_ge h⟩
theorem good_formatInt (v : Int) : Good (formatInt v) := good_number (isValidNumber_formatInt v)
theorem good_quote (s : Bytes) : Good (quote s) := ⟨⟨_, readsAs_quote s⟩, quote_ge s⟩
theorem good_array {ps : List Bytes} (h : GoodList ps) : Good (0x5B :: (joinComma ps ++ [0x5D])) := by
  obtain ⟨⟨vs, hv⟩, hp⟩ := h
  exact ⟨⟨_, readsAs_array hv⟩, printable_bracket hp⟩
theorem good_object {ps : List Bytes} (h : GoodMembers ps) : Good (0x7B :: (joinComma ps ++ [0x7D])) := by
  obtain ⟨⟨vs, hv⟩, hp⟩ := h
  exact ⟨⟨_, readsAs_object hv⟩, printable_brace hp⟩

theorem goodList_nil : GoodList [] := ⟨⟨_, .nil⟩, fun _ h => by cases h⟩
theorem goodList_cons {p : Bytes} {ps : List Bytes} (hp : Good p) (hps : GoodList ps) :
    GoodList (p :: ps) := by
  obtain ⟨⟨v, hv⟩, h1⟩ := hp
  obtain ⟨⟨vs, hvs⟩, h2⟩ := hps
  refine ⟨⟨_, .cons hv hvs⟩, ?_⟩
  intro q hq
  rcases List.mem_cons.1 hq with rfl | hq
  · exact h1
  · exact h2 q hq

theorem goodMembers_nil : GoodMembers [] := ⟨⟨_, .nil⟩, fun _ h => by cases h⟩
theorem goodMembers_cons {p : Bytes} {ps : List Bytes} (k : Bytes) (hp : Good p)
    (hps : GoodMembers ps) : GoodMembers ((quote k ++ 0x3A :: p) :: ps) := by
  obtain ⟨⟨v, hv⟩, h1⟩ := hp
  obtain ⟨⟨vs, hvs⟩, h2⟩ := hps
  refine ⟨⟨_, .cons hv hvs⟩, ?_⟩
  intro q hq
  rcases List.mem_cons.1 hq with rfl | hq
  · exact printable_member h1
  · exact h2 q hq

theorem good_barr (s : Bytes) :
    GoodList (s.map fun b => formatInt b.toNat) := by
  induction s with
  | nil => exact goodList_nil
  | cons b s ih => exact goodList_cons (good_formatInt _) ih

theorem good_time {t : GoTime} {s : Bytes} (h : marshalTime t = some s) : Good s := by
  obtain ⟨body, rfl⟩ := marshalTime_quote h
  exact good_quote body

theorem good_numLit {l t : Bytes}
    (h : (if l.isEmpty then Outcome.ok [0x30]
      else if isValidNumber l then Outcome.ok l else Outcome.err .marshal) = .ok t) : Good t := by
  split at h
  · injection h with h; subst h; exact good_number (by decide)
  · split at h
    · injection h with h; subst h; exact good_number (by assumption)
    · cases h

/-- What `Export` returned is marshalled as a scalar, or else the raw value itself is. -/
theorem marshalExported_good {env : Env} {e raw : Dyn} {t : Bytes}
    (hraw : ∀ t, marshalDyn env raw = .ok t → Good t)
    (h : marshalExported env e raw = .ok t) : Good t := by
  rw [marshalExported.eq_def] at h
  split at h
  · injection h with h; subst h; exact good_null
  · injection h with h; subst h; exact good_bool _
  · injection h with h; subst h; exact good_formatInt _
  · injection h with h; subst h; exact good_quote _
  · exact good_numLit h
  · exact hraw t h


mutual
  theorem marshalDyn_good (env : Env) (hx : FloatTextOK env.ext) :
      ∀ (x : Dyn) (t : Bytes), marshalDyn env x = .ok t → Good t
    | .nil, t, h => by
      rw [marshalDyn.eq_def] at h; injection h with h; subst h; exact good_null
    | .bool b, t, h => by
      rw [marshalDyn.eq_def] at h; injection h with h; subst h; exact good_bool b
    | .int _ v, t, h => by
      rw [marshalDyn.eq_def] at h; injection h with h; subst h; exact good_formatInt v
    | .f64 b, t, h => by
      rw [marshalDyn.eq_def] at h
      simp only at h
      split at h
      · rename_i s hs; injection h with h; subst h; exact good_number (hx _ _ _ hs)
      · cases h
      · cases h
    | .f32 b, t, h => by
      rw [marshalDyn.eq_def] at h
      simp only at h
      split at h
      · rename_i s hs; injection h with h; subst h; exact good_number (hx _ _ _ hs)
      · cases h
      · cases h
    | .str s, t, h => by
      rw [marshalDyn.eq_def] at h; injection h with h; subst h; exact good_quote s
    | .bytes s, t, h => by
      rw [marshalDyn.eq_def] at h; injection h with h; subst h; exact good_quote _
    | .num l, t, h => by
      rw [marshalDyn.eq_def] at h; exact good_numLit h
    | .time tm, t, h => by
      rw [marshalDyn.eq_def] at h
      simp only at h
      split at h
      · rename_i s hs; injection h with h; subst h; exact good_time hs
      · cases h
    | .barr s, t, h => by
      rw [marshalDyn.eq_def] at h; injection h with h; subst h; exact good_array (good_barr s)
    | .arr xs, t, h => by
      rw [marshalDyn.eq_def] at h
      simp only at h
      split at h
      · rename_i parts hp; injection h with h; subst h
        exact good_array (marshalList_good env hx xs parts hp)
      · cases h
      · cases h
    | .gomap kvs, t, h => by
      rw [marshalDyn.eq_def] at h
      simp only at h
      split at h
      · rename_i parts hp; injection h with h; subst h
        exact good_object (marshalMap_good env hx kvs parts hp)
      · cases h
      · cases h
    | .val v, t, h => by
      rw [marshalDyn.eq_def] at h
      exact marshalVal_good env hx v t h
    | .other _, t, h => by
      rw [marshalDyn.eq_def] at h; cases h
  theorem marshalList_good (env : Env) (hx : FloatTextOK env.ext) :
      ∀ (xs : DynList) (parts : List Bytes), marshalList env xs = .ok parts → GoodList parts
    | .nil, parts, h => by
      rw [marshalList.eq_def] at h; injection h with h; subst h; exact goodList_nil
    | .cons x xs, parts, h => by
      rw [marshalList.eq_def] at h
      simp only at h
      split at h
      · rename_i b hb
        split at h
        · rename_i rest hr; injection h with h; subst h
          exact goodList_cons (marshalDyn_good env hx x b hb) (marshalList_good env hx xs rest hr)
        · cases h
        · cases h
      · cases h
      · cases h
  theorem marshalMap_good (env : Env) (hx : FloatTextOK env.ext) :
      ∀ (m : DynMap) (parts : List Bytes), marshalMap env m = .ok parts → GoodMembers parts
    | .nil, parts, h => by
      rw [marshalMap.eq_def] at h; injection h with h; subst h; exact goodMembers_nil
    | .cons k x m, parts, h => by
      rw [marshalMap.eq_def] at h
      simp only at h
      split at h
      · rename_i b hb
        split at h
        · rename_i rest hr; injection h with h; subst h
          exact goodMembers_cons k (marshalDyn_good env hx x b hb) (marshalMap_good env hx m rest hr)
        · cases h
        · cases h
      · cases h
      · cases h
  theorem marshalVal_good (env : Env) (hx : FloatTextOK env.ext) :
      ∀ (v : Val) (t : Bytes), marshalVal env v = .ok t → Good t
    | .cell raw f typ, t, h => by
      rw [marshalVal.eq_def] at h
      simp only at h
      split at h
      · exact marshalExported_good (marshalDyn_good env hx raw) h
      · cases h
      · cases h
    | .row ms, t, h => by
      rw [marshalVal.eq_def] at h
      simp only at h
      split at h
      · rename_i parts hp; injection h with h; subst h
        exact good_object (marshalMembers_good env hx ms parts hp)
      · cases h
      · cases h
  theorem marshalMembers_good (env : Env) (hx : FloatTextOK env.ext) :
      ∀ (ms : Members) (parts : List Bytes), marshalMembers env ms = .ok parts → GoodMembers parts
    | .nil, parts, h => by
      rw [marshalMembers.eq_def] at h; injection h with h; subst h; exact goodMembers_nil
    | .cons k v ms, parts, h => by
      rw [marshalMembers.eq_def] at h
      simp only at h
      split at h
      · exact marshalMembers_good env hx ms parts h
      · split at h
        · rename_i b hb
          split at h
          · rename_i rest hr; injection h with h; subst h
            exact goodMembers_cons k (marshalVal_good env hx v b hb)
              (marshalMembers_good env hx ms rest hr)
          · cases h
          · cases h
        · cases h
        · cases h
end


/-! ### C01 -/

theorem marshalRow_shape {env : Env} {ms : Members} {bs : Bytes}
    (h : marshalRow env ms = .ok bs) :
    ∃ parts, marshalMembers env ms = .ok parts ∧ bs = 0x7B :: (joinComma parts ++ [0x7D]) := by
  unfold marshalRow at h
  rw [marshalVal.eq_def] at h
  simp only at h
  split at h
  · rename_i parts hp; injection h with h; exact ⟨parts, hp, h.symm⟩
  · cases h
  · cases h

theorem not_mem_newline {bs : Bytes} (h : Printable bs) : (0x0A : UInt8) ∉ bs :=
  fun hm => absurd (h _ hm) (by decide)

/-- C01 for `row.MarshalJSON`: the text is accepted by the reader as one object and nothing
    else, and holds no newline byte.  Moreover the reader delivers one member per printed member
    (`ReadsMembers`: keys after `sanitize`, in order). -/
theorem marshalRow_reads (env : Env) (h : FloatTextOK env.ext) (ms : Members) (bs : Bytes)
    (hb : marshalRow env ms = .ok bs) :
    ∃ parts vs, marshalMembers env ms = .ok parts ∧ ReadsMembers parts vs ∧
      Json.unmarshal bs = (vs, true) ∧ Printable bs := by
  obtain ⟨parts, hp, rfl⟩ := marshalRow_shape hb
  obtain ⟨⟨vs, hvs⟩, hpr⟩ := marshalMembers_good env h ms parts hp
  exact ⟨parts, vs, hp, hvs, unmarshal_object hvs, printable_brace hpr⟩

theorem marshalRow_valid (env : Env) (h : FloatTextOK env.ext) (ms : Members) (bs : Bytes) :
    marshalRow env ms = .ok bs → Json.accepts bs = true ∧ (0x0A : UInt8) ∉ bs := by
  intro hb
  obtain ⟨parts, vs, _, _, hu, hpr⟩ := marshalRow_reads env h ms bs hb
  exact ⟨by rw [accepts, hu], not_mem_newline hpr⟩

/-- C01 for `exporter.Export`: a successful export writes one accepted object text without a
    newline byte, then exactly one newline. -/
theorem exportLine_valid (env : Env) (h : FloatTextOK env.ext) (t : Template.Tmpl) (v : Dyn)
    (w : Bytes) (hw : Template.exportLine env t v = .ok (w, none)) :
    ∃ bs, w = bs ++ [0x0A] ∧ Json.accepts bs = true ∧ (0x0A : UInt8) ∉ bs := by
  unfold Template.exportLine at hw
  split at hw
  · cases hw
  · cases hw
  · injection hw with hw; injection hw with _ h2; cases h2
  · rename_i row _
    split at hw
    · rename_i b hb
      injection hw with hw; injection hw with h1 _
      exact ⟨b, h1.symm, marshalRow_valid env h _ b hb⟩
    · cases hw
    · injection hw with hw; injection hw with _ h2; cases h2
    · cases hw

/-- A row that cannot be built or rendered: the error is reported and no byte is written. -/
theorem exportLine_error (env : Env) (t : Template.Tmpl) (v : Dyn) (w : Bytes) (e : ErrClass)
    (hw : Template.exportLine env t v = .ok (w, some e)) : w = [] := by
  unfold Template.exportLine at hw
  split at hw
  · cases hw
  · cases hw
  · injection hw with hw; injection hw with h1 _; exact h1.symm
  · split at hw
    · injection hw with hw; injection hw with _ h2; cases h2
    · cases hw
    · injection hw with hw; injection hw with h1 _; exact h1.symm
    · cases hw

/-- The written line, split at newline bytes, is the object text and an empty remainder: there
    is exactly one newline and it is the last byte. -/
theorem exportLine_one_newline (env : Env) (h : FloatTextOK env.ext) (t : Template.Tmpl) (v : Dyn)
    (w : Bytes) (hw : Template.exportLine env t v = .ok (w, none)) :
    w.count 0x0A = 1 ∧ w.getLast? = some 0x0A := by
  obtain ⟨bs, rfl, _, hn⟩ := exportLine_valid env h t v w hw
  refine ⟨?_, by simp⟩
  rw [List.count_append, List.count_eq_zero.2 hn]
  rfl


/-- The same for one line through the `jl` tool (importer, then exporter). -/
theorem jlLine_valid (env : Env) (h : FloatTextOK env.ext) (ti to : Template.Tmpl) (line w : Bytes)
    (hw : Template.jlLine env ti to line = .ok (w, none)) :
    ∃ bs, w = bs ++ [0x0A] ∧ Json.accepts bs = true ∧ (0x0A : UInt8) ∉ bs := by
  unfold Template.jlLine at hw
  split at hw
  · cases hw
  · cases hw
  · injection hw with hw; injection hw with _ h2; cases h2
  · exact exportLine_valid env h to _ w hw

theorem jlLine_error (env : Env) (ti to : Template.Tmpl) (line w : Bytes) (e : ErrClass)
    (hw : Template.jlLine env ti to line = .ok (w, some e)) : w = [] := by
  unfold Template.jlLine at hw
  split at hw
  · cases hw
  · cases hw
  · injection hw with hw; injection hw with h1 _; exact h1.symm
  · exact exportLine_error env to _ w e hw

/-! ### Non-vacuity: a concrete row through the printer and the theorems

The equation lemmas Lean generates for the `marshal*` block are expensive; these small
restatements (each by one `eq_def` step) are what concrete computations use. -/

theorem marshalDyn_nil (env : Env) : marshalDyn env .nil = .ok RowPrint.null := by
  rw [marshalDyn.eq_def]
theorem marshalDyn_str (env : Env) (s : Bytes) : marshalDyn env (.str s) = .ok (quote s) := by
  rw [marshalDyn.eq_def]
theorem marshalDyn_int (env : Env) (ty : IntTy) (v : Int) :
    marshalDyn env (.int ty v) = .ok (formatInt v) := by
  rw [marshalDyn.eq_def]
theorem marshalDyn_arr (env : Env) (xs : DynList) {parts : List Bytes}
    (h : marshalList env xs = .ok parts) :
    marshalDyn env (.arr xs) = .ok (0x5B :: (joinComma parts ++ [0x5D])) := by
  rw [marshalDyn.eq_def]; simp only [h]
theorem marshalList_nil (env : Env) : marshalList env .nil = .ok [] := by
  rw [marshalList.eq_def]
theorem marshalList_cons (env : Env) (x : Dyn) (xs : DynList) {b : Bytes} {rest : List Bytes}
    (h1 : marshalDyn env x = .ok b) (h2 : marshalList env xs = .ok rest) :
    marshalList env (.cons x xs) = .ok (b :: rest) := by
  rw [marshalList.eq_def]; simp only [h1, h2]
theorem marshalMembers_nil (env : Env) : marshalMembers env .nil = .ok [] := by
  rw [marshalMembers.eq_def]
theorem marshalMembers_hidden (env : Env) (k : Bytes) (v : Val) (ms : Members)
    (h : Cells.format v = .hidden) : marshalMembers env (.cons k v ms) = marshalMembers env ms := by
  rw [marshalMembers.eq_def]; simp only [h, beq_self_eq_true, if_true]
theorem marshalMembers_cons (env : Env) (k : Bytes) (v : Val) (ms : Members) {b : Bytes}
    {rest : List Bytes} (h : Cells.format v ≠ .hidden)
    (h1 : marshalVal env v = .ok b) (h2 : marshalMembers env ms = .ok rest) :
    marshalMembers env (.cons k v ms) = .ok ((quote k ++ 0x3A :: b) :: rest) := by
  rw [marshalMembers.eq_def]; simp only [beq_iff_eq, h, if_false, h1, h2]

/-- An Auto cell marshals its raw value. -/
theorem marshalVal_auto (env : Env) (raw : Dyn) (typ : Ty) :
    marshalVal env (.cell raw .auto typ) = marshalDyn env raw := by
  have he : exportVal env (.cell raw .auto typ) = .ok raw := by
    rw [exportVal.eq_def]; cases raw <;> rfl
  rw [marshalVal.eq_def]
  simp only [he]
  rw [marshalExported.eq_def]
  cases raw <;> simp only <;> rw [marshalDyn.eq_def]

theorem marshalRow_eq (env : Env) (ms : Members) {parts : List Bytes}
    (h : marshalMembers env ms = .ok parts) :
    marshalRow env ms = .ok (0x7B :: (joinComma parts ++ [0x7D])) := by
  unfold marshalRow; rw [marshalVal.eq_def]; simp only [h]

/-- A row whose first key holds a control byte, a quote and an ill-formed byte and whose value
    holds a newline; a hidden cell; an array with a negative number and a null. -/
def demoRow : Members :=
  .cons [0x01, 0x22, 0xFF] (.cell (.str [0x0A]) .auto .none)
    (.cons [0x68] (.cell (.int .int 7) .hidden .none)
      (.cons [0x6B] (.cell (.arr (.cons (.int .i8 (-5)) (.cons .nil .nil))) .auto .none) .nil))

/-- `{"\u0001\"�":"\n","k":[-5,null]}` -/
def demoText : Bytes :=
  0x7B :: (joinComma [quote [0x01, 0x22, 0xFF] ++ 0x3A :: quote [0x0A],
    quote [0x6B] ++ 0x3A :: (0x5B :: (joinComma [formatInt (-5), RowPrint.null] ++ [0x5D]))] ++ [0x7D])

theorem demo_marshal (env : Env) : marshalRow env demoRow = .ok demoText := by
  refine marshalRow_eq env _ ?_
  refine marshalMembers_cons env _ _ _ (by decide) ?_ ?_
  · rw [marshalVal_auto, marshalDyn_str]
  · rw [marshalMembers_hidden env _ _ _ rfl]
    refine marshalMembers_cons env _ _ _ (by decide) ?_ (marshalMembers_nil env)
    rw [marshalVal_auto]
    exact marshalDyn_arr env _ (marshalList_cons env _ _ (marshalDyn_int env _ _)
      (marshalList_cons env _ _ (marshalDyn_nil env) (marshalList_nil env)))

example : demoText =
    [0x7B, 0x22, 0x5C, 0x75, 0x30, 0x30, 0x30, 0x31, 0x5C, 0x22, 0x5C, 0x75, 0x66, 0x66, 0x66, 0x64,
     0x22, 0x3A, 0x22, 0x5C, 0x6E, 0x22, 0x2C, 0x22, 0x6B, 0x22, 0x3A, 0x5B, 0x2D, 0x35, 0x2C,
     0x6E, 0x75, 0x6C, 0x6C, 0x5D, 0x7D] := by
  simp [demoText, joinComma, quote, quoteBody, htmlSafe, escapeAscii, u00, hexLower, Utf8.seqLen,
    formatInt, natDigits, digitChar, RowPrint.null]

/-- The theorem applies to it (whatever the environment, given the float assumption). -/
example (env : Env) (h : FloatTextOK env.ext) :
    Json.accepts demoText = true ∧ (0x0A : UInt8) ∉ demoText :=
  marshalRow_valid env h demoRow demoText (demo_marshal env)

/-- …and what the reader delivers for it. -/
example : Json.unmarshal demoText =
    (.cons [0x01, 0x22, 0xEF, 0xBF, 0xBD] (.str [0x0A])
      (.cons [0x6B] (.arr (.cons (.num [0x2D, 0x35]) (.cons .null .nil))) .nil), true) := by
  have h : ReadsMembers
      [quote [0x01, 0x22, 0xFF] ++ 0x3A :: quote [0x0A],
       quote [0x6B] ++ 0x3A :: (0x5B :: (joinComma [formatInt (-5), RowPrint.null] ++ [0x5D]))] _ :=
    .cons (readsAs_quote _) (.cons (readsAs_array (.cons (readsAs_number (isValidNumber_formatInt _))
      (.cons readsAs_null .nil))) .nil)
  rw [demoText, unmarshal_object h]
  simp [sanitize, Utf8.seqLen, Utf8.replacement, formatInt, natDigits, digitChar]

/-- The float assumption is satisfiable by an environment that does spell floats. -/
example : FloatTextOK { Ext.empty with jsonFloat := fun _ _ => some (some [0x31, 0x2E, 0x35]) } := by
  intro b sz s h
  injection h with h; injection h with h; subst h; decide

/-- …while a spelling such as `1 2` or `NaN` is excluded by it. -/
example : isValidNumber [0x31, 0x20, 0x32] = false ∧ isValidNumber [0x4E, 0x61, 0x4E] = false := by
  decide


/-! ### The tree that is read back is the tree that was printed (towards C02) -/

/-- The body of `time.Time.MarshalJSON`'s string. -/
def timeBody (t : GoTime) : Bytes :=
  Time.formatDate t ++ [0x54] ++ Time.pad (Time.civilOf t).hour 2 ++ [0x3A] ++
    Time.pad (Time.civilOf t).min 2 ++ [0x3A] ++ Time.pad (Time.civilOf t).sec 2 ++
    fracNano t.nsec ++ Time.formatZone t.off

/-- The number text `json.Number` is marshalled as. -/
def numText (l : Bytes) : Bytes := if l.isEmpty then [0x30] else l

/-- Tree of what `Export` returned: its own when it is one of the scalar kinds, else the raw
    value's. -/
def treeExported (e : Dyn) (rawTree : JV) : JV :=
  match e with
  | .nil => .null
  | .bool b => .bool b
  | .int _ v => .num (formatInt v)
  | .str s => .str (sanitize s)
  | .num l => .num (numText l)
  | _ => rawTree

mutual
  /-- The syntax tree the reader is expected to deliver for the text of `x` (meaningful when
      marshalling succeeds): strings after `sanitize`, numbers as their literal text, members in
      print order without the hidden ones. -/
  def treeDyn (env : Env) : Dyn → JV
    | .nil => .null
    | .bool b => .bool b
    | .int _ v => .num (formatInt v)
    | .f64 b =>
      match env.ext.jsonFloat b 64 with
      | some (some s) => .num s
      | _ => .null
    | .f32 b =>
      match env.ext.jsonFloat b 32 with
      | some (some s) => .num s
      | _ => .null
    | .str s => .str (sanitize s)
    | .bytes s => .str (Base64.encode s)
    | .num l => .num (numText l)
    | .time t => .str (timeBody t)
    | .barr s => .arr (JVList.ofList (s.map fun b => JV.num (formatInt b.toNat)))
    | .arr xs => .arr (treeList env xs)
    | .gomap kvs => .obj (treeMap env kvs)
    | .val v => treeVal env v
    | .other _ => .null
  def treeList (env : Env) : DynList → JVList
    | .nil => .nil
    | .cons x xs => .cons (treeDyn env x) (treeList env xs)
  def treeMap (env : Env) : DynMap → JVMembers
    | .nil => .nil
    | .cons k x m => .cons (sanitize k) (treeDyn env x) (treeMap env m)
  def treeVal (env : Env) : Val → JV
    | .cell raw f typ =>
      match exportVal env (.cell raw f typ) with
      | .ok e => treeExported e (treeDyn env raw)
      | _ => .null
    | .row ms => .obj (treeMembers env ms)
  def treeMembers (env : Env) : Members → JVMembers
    | .nil => .nil
    | .cons k v ms =>
      if Cells.format v == .hidden then treeMembers env ms
      else .cons (sanitize k) (treeVal env v) (treeMembers env ms)
end

theorem sanitize_of_ascii (s : Bytes) (h : ∀ b ∈ s, b < 0x80) : sanitize s = s := by
  induction s with
  | nil => exact sanitize_nil
  | cons b tl ih =>
    rw [sanitize_ascii _ (h b (by simp)), ih fun x hx => h x (by simp [hx])]

set_option maxRecDepth 100000 in
theorem b64_ascii_aux : ∀ n, n < 256 →
    ((Base64.decChar (UInt8.ofNat n)).isSome = true ∨ UInt8.ofNat n = 0x3D) → UInt8.ofNat n < 0x80 := by
  decide

theorem sanitize_base64 (s : Bytes) : sanitize (Base64.encode s) = Base64.encode s := by
  refine sanitize_of_ascii _ fun b hb => ?_
  have := b64_ascii_aux b.toNat b.toNat_lt
  rw [UInt8.ofNat_toNat] at this
  exact this (Base64.encode_chars s b hb)

theorem allSafe_timeBody (t : GoTime) : AllSafe (timeBody t) := by
  have c1 : ∀ c : UInt8, htmlSafe c = true → AllSafe [c] := fun c hc => allSafe_cons hc allSafe_nil
  exact allSafe_append (allSafe_append (allSafe_append (allSafe_append (allSafe_append
    (allSafe_append (allSafe_append (allSafe_append (allSafe_formatDate t) (c1 _ (by decide)))
    (allSafe_pad _ _)) (c1 _ (by decide))) (allSafe_pad _ _)) (c1 _ (by decide)))
    (allSafe_pad _ _)) (allSafe_fracNano _)) (allSafe_formatZone _)

theorem marshalTime_eq {t : GoTime} {s : Bytes} (h : marshalTime t = some s) :
    s = quote (timeBody t) := by
  unfold marshalTime at h
  simp only at h
  split at h
  · cases h
  · split at h
    · cases h
    · injection h with h
      rw [← h, quote, quoteBody_safe _ (allSafe_timeBody t)]
      rfl

theorem readsAs_time {t : GoTime} {s : Bytes} (h : marshalTime t = some s) :
    ReadsAs s (.str (timeBody t)) := by
  rw [marshalTime_eq h]
  have := readsAs_quote (timeBody t)
  rwa [sanitize_of_ascii _ fun b hb => htmlSafe_lt (allSafe_timeBody t b hb)] at this

theorem readsAs_base64 (s : Bytes) : ReadsAs (quote (Base64.encode s)) (.str (Base64.encode s)) := by
  have := readsAs_quote (Base64.encode s)
  rwa [sanitize_base64] at this

theorem readsList_barr (s : Bytes) :
    ReadsList (s.map fun b => formatInt b.toNat)
      (JVList.ofList (s.map fun b => JV.num (formatInt b.toNat))) := by
  induction s with
  | nil => exact .nil
  | cons b s ih => exact .cons (readsAs_number (isValidNumber_formatInt _)) ih

theorem readsAs_numLit {l t : Bytes}
    (h : (if l.isEmpty then Outcome.ok [0x30]
      else if isValidNumber l then Outcome.ok l else Outcome.err .marshal) = .ok t) :
    ReadsAs t (.num (numText l)) := by
  unfold numText
  split at h
  · rename_i he; injection h with h; subst h; rw [if_pos he]; exact readsAs_number (by decide)
  · rename_i he
    split at h
    · injection h with h; subst h; rw [if_neg he]; exact readsAs_number (by assumption)
    · cases h

theorem marshalExported_tree {env : Env} {e raw : Dyn} {t : Bytes} {rawTree : JV}
    (hraw : ∀ t, marshalDyn env raw = .ok t → ReadsAs t rawTree)
    (h : marshalExported env e raw = .ok t) : ReadsAs t (treeExported e rawTree) := by
  rw [marshalExported.eq_def] at h
  unfold treeExported
  split at h
  · injection h with h; subst h; exact readsAs_null
  · rename_i b; injection h with h; subst h
    cases b
    · exact readsAs_false
    · exact readsAs_true
  · injection h with h; subst h; exact readsAs_number (isValidNumber_formatInt _)
  · injection h with h; subst h; exact readsAs_quote _
  · exact readsAs_numLit h
  · rename_i h1 h2 h3 h4 h5
    have := hraw t h
    split
    · exact absurd rfl h1
    · exact absurd rfl (h2 _)
    · exact absurd rfl (h3 _ _)
    · exact absurd rfl (h4 _)
    · exact absurd rfl (h5 _)
    · exact this


mutual
  theorem marshalDyn_tree (env : Env) (hx : FloatTextOK env.ext) :
      ∀ (x : Dyn) (t : Bytes), marshalDyn env x = .ok t → ReadsAs t (treeDyn env x)
    | .nil, t, h => by
      rw [marshalDyn.eq_def] at h; injection h with h; subst h; exact readsAs_null
    | .bool b, t, h => by
      rw [marshalDyn.eq_def] at h; injection h with h; subst h
      cases b
      · exact readsAs_false
      · exact readsAs_true
    | .int _ v, t, h => by
      rw [marshalDyn.eq_def] at h; injection h with h; subst h
      exact readsAs_number (isValidNumber_formatInt v)
    | .f64 b, t, h => by
      rw [marshalDyn.eq_def] at h
      simp only at h
      split at h
      · rename_i s hs; injection h with h; subst h
        simp only [treeDyn, hs]; exact readsAs_number (hx _ _ _ hs)
      · cases h
      · cases h
    | .f32 b, t, h => by
      rw [marshalDyn.eq_def] at h
      simp only at h
      split at h
      · rename_i s hs; injection h with h; subst h
        simp only [treeDyn, hs]; exact readsAs_number (hx _ _ _ hs)
      · cases h
      · cases h
    | .str s, t, h => by
      rw [marshalDyn.eq_def] at h; injection h with h; subst h; exact readsAs_quote s
    | .bytes s, t, h => by
      rw [marshalDyn.eq_def] at h; injection h with h; subst h; exact readsAs_base64 s
    | .num l, t, h => by
      rw [marshalDyn.eq_def] at h; exact readsAs_numLit h
    | .time tm, t, h => by
      rw [marshalDyn.eq_def] at h
      simp only at h
      split at h
      · rename_i s hs; injection h with h; subst h; exact readsAs_time hs
      · cases h
    | .barr s, t, h => by
      rw [marshalDyn.eq_def] at h; injection h with h; subst h
      exact readsAs_array (readsList_barr s)
    | .arr xs, t, h => by
      rw [marshalDyn.eq_def] at h
      simp only at h
      split at h
      · rename_i parts hp; injection h with h; subst h
        exact readsAs_array (marshalList_tree env hx xs parts hp)
      · cases h
      · cases h
    | .gomap kvs, t, h => by
      rw [marshalDyn.eq_def] at h
      simp only at h
      split at h
      · rename_i parts hp; injection h with h; subst h
        exact readsAs_object (marshalMap_tree env hx kvs parts hp)
      · cases h
      · cases h
    | .val v, t, h => by
      rw [marshalDyn.eq_def] at h
      exact marshalVal_tree env hx v t h
    | .other _, t, h => by
      rw [marshalDyn.eq_def] at h; cases h
  theorem marshalList_tree (env : Env) (hx : FloatTextOK env.ext) :
      ∀ (xs : DynList) (parts : List Bytes), marshalList env xs = .ok parts →
        ReadsList parts (treeList env xs)
    | .nil, parts, h => by
      rw [marshalList.eq_def] at h; injection h with h; subst h; exact .nil
    | .cons x xs, parts, h => by
      rw [marshalList.eq_def] at h
      simp only at h
      split at h
      · rename_i b hb
        split at h
        · rename_i rest hr; injection h with h; subst h
          exact .cons (marshalDyn_tree env hx x b hb) (marshalList_tree env hx xs rest hr)
        · cases h
        · cases h
      · cases h
      · cases h
  theorem marshalMap_tree (env : Env) (hx : FloatTextOK env.ext) :
      ∀ (m : DynMap) (parts : List Bytes), marshalMap env m = .ok parts →
        ReadsMembers parts (treeMap env m)
    | .nil, parts, h => by
      rw [marshalMap.eq_def] at h; injection h with h; subst h; exact .nil
    | .cons k x m, parts, h => by
      rw [marshalMap.eq_def] at h
      simp only at h
      split at h
      · rename_i b hb
        split at h
        · rename_i rest hr; injection h with h; subst h
          exact .cons (marshalDyn_tree env hx x b hb) (marshalMap_tree env hx m rest hr)
        · cases h
        · cases h
      · cases h
      · cases h
  theorem marshalVal_tree (env : Env) (hx : FloatTextOK env.ext) :
      ∀ (v : Val) (t : Bytes), marshalVal env v = .ok t → ReadsAs t (treeVal env v)
    | .cell raw f typ, t, h => by
      rw [marshalVal.eq_def] at h
      simp only at h
      split at h
      · rename_i e he
        simp only [treeVal, he]
        exact marshalExported_tree (marshalDyn_tree env hx raw) h
      · cases h
      · cases h
    | .row ms, t, h => by
      rw [marshalVal.eq_def] at h
      simp only at h
      split at h
      · rename_i parts hp; injection h with h; subst h
        exact readsAs_object (marshalMembers_tree env hx ms parts hp)
      · cases h
      · cases h
  theorem marshalMembers_tree (env : Env) (hx : FloatTextOK env.ext) :
      ∀ (ms : Members) (parts : List Bytes), marshalMembers env ms = .ok parts →
        ReadsMembers parts (treeMembers env ms)
    | .nil, parts, h => by
      rw [marshalMembers.eq_def] at h; injection h with h; subst h; exact .nil
    | .cons k v ms, parts, h => by
      rw [marshalMembers.eq_def] at h
      simp only at h
      split at h
      · rename_i hh
        simp only [treeMembers, hh, if_true]
        exact marshalMembers_tree env hx ms parts h
      · rename_i hh
        simp only [treeMembers, hh]
        split at h
        · rename_i b hb
          split at h
          · rename_i rest hr; injection h with h; subst h
            exact .cons (marshalVal_tree env hx v b hb) (marshalMembers_tree env hx ms rest hr)
          · cases h
          · cases h
        · cases h
        · cases h
end

/-- What `row.UnmarshalJSON` delivers for a printed row: one member per visible cell, in print
    order, keys and strings after `sanitize`, numbers by their literal text. -/
theorem unmarshal_marshalRow (env : Env) (h : FloatTextOK env.ext) (ms : Members) (bs : Bytes)
    (hb : marshalRow env ms = .ok bs) : Json.unmarshal bs = (treeMembers env ms, true) := by
  obtain ⟨parts, hp, rfl⟩ := marshalRow_shape hb
  exact unmarshal_object (marshalMembers_tree env h ms parts hp)


/-- The expected tree of the demo row, computed: the hidden cell is absent, the ill-formed key
    byte has become U+FFFD, the newline in the value is back as a raw byte of the string. -/
example (env : Env) : treeMembers env demoRow =
    .cons [0x01, 0x22, 0xEF, 0xBF, 0xBD] (.str [0x0A])
      (.cons [0x6B] (.arr (.cons (.num [0x2D, 0x35]) (.cons .null .nil))) .nil) := by
  simp [demoRow, treeMembers, treeVal, treeDyn, treeList, treeExported, exportVal, Cells.format,
    sanitize, Utf8.seqLen, Utf8.replacement, formatInt, natDigits, digitChar]

example (env : Env) (h : FloatTextOK env.ext) :
    Json.unmarshal demoText = (treeMembers env demoRow, true) :=
  unmarshal_marshalRow env h demoRow demoText (demo_marshal env)


end Jl.JsonPrint

