/-
  Proofs.FlowTieStream — streamer.go: the two processors, NewStreamer, WithProcessor, Stream's loop and calls
  (one of the files Proofs.FlowTie*: split so that a change of one function stops only the properties that
  rest on it; the overview is in Proofs/FlowTie.lean)
-/
import Proofs.FlowTieDefs

namespace Jl.FlowTie
open Jl Jl.Flow Jl.Value Jl.Template

theorem defaultProcessor_as_modelled : Gen.flowTable.defaultProcessor = .returnsErr := by decide

theorem noFailureProcessor_as_modelled : Gen.flowTable.noFailureProcessor = .returnsNil := by decide

theorem newStreamer_as_modelled : Gen.flowTable.newStreamer = .storesBoth "DefaultProcessor" := by decide

theorem withProcessor_as_modelled : Gen.flowTable.withProcessor = .argOrDefault "DefaultProcessor" := by decide

theorem stream_as_modelled : Gen.flowTable.stream = FlowSpec.expectedFlow.stream := by decide

/-- `DefaultProcessor` is `Proc.default` (returns what it is given), `NoFailureProcessor` is `Proc.tolerant`. -/
theorem processors_as_modelled :
    procG Gen.flowTable.defaultProcessor = some .default
    ∧ procG Gen.flowTable.noFailureProcessor = some .tolerant
    ∧ (∀ n e, Stream.Proc.default.result n e = e) ∧ (∀ n e, Stream.Proc.tolerant.result n e = none) :=
  ⟨rfl, rfl, fun _ _ => rfl, fun _ _ => rfl⟩

/-- The four processor calls of `Stream`, as the source makes them today, are the four entries
    `Stream.loop` appends to `calls`: `(false, some e)` for a refused line (GetRow's row is nil with an
    error), `(true, none)` for a row, `(true, some e)` for a failed export, `(false, some ec)` for the
    scanner's error after the loop — whose result IS Stream's. -/
theorem stream_calls_as_modelled :
    ∃ onRowErr onRow onExportErr after rowWithErr w,
      Gen.flowTable.stream = .loop onRowErr onRow onExportErr (.errHandover after)
      ∧ Gen.flowTable.getRow = .scannerErrThenParse rowWithErr w
      ∧ onRowErr.recorded rowWithErr true = (false, true)
      ∧ onRow.recorded rowWithErr false = (true, false)
      ∧ onExportErr.recorded rowWithErr false = (true, true)
      ∧ after.recorded rowWithErr false = (false, true) :=
  ⟨_, _, _, _, _, _, rfl, rfl, rfl, rfl, rfl, rfl⟩

end Jl.FlowTie
