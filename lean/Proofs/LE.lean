/-
  Proofs.LE — encoding/binary little/big-endian put/get and two's complement (Model.LE):
  lengths, both round trips for every width, bounds, and the composite fixed-width integer
  round trips (value side and image side).  No bound on the byte count `n`.
-/
import Model.LE

namespace Jl.LE

/-! ### Little endian -/

theorem put_length (n x : Nat) : (put n x).length = n := by
  induction n generalizing x with
  | zero => rfl
  | succ n ih => simp [put, ih]

theorem get_put (n x : Nat) : get (put n x) = x % 256 ^ n := by
  induction n generalizing x with
  | zero => simp [put, get, Nat.mod_one]
  | succ n ih =>
    have h1 : (UInt8.ofNat (x % 256)).toNat = x % 256 := by
      rw [UInt8.toNat_ofNat']; omega
    have h2 : x % (256 * 256 ^ n) = x % 256 + 256 * (x / 256 % 256 ^ n) := Nat.mod_mul
    have h3 : 256 ^ (n + 1) = 256 * 256 ^ n := by rw [Nat.pow_succ, Nat.mul_comm]
    rw [put, get, ih, h1, h3, h2]

theorem get_lt (bs : Bytes) : get bs < 256 ^ bs.length := by
  induction bs with
  | nil => simp [get]
  | cons b rest ih =>
    have hb : b.toNat < 256 := UInt8.toNat_lt b
    simp only [get, List.length_cons, Nat.pow_succ]
    omega

theorem put_get (n : Nat) (bs : Bytes) (h : bs.length = n) : put n (get bs) = bs := by
  induction bs generalizing n with
  | nil => subst h; rfl
  | cons b rest ih =>
    subst h
    have hb : b.toNat < 256 := UInt8.toNat_lt b
    have h1 : (b.toNat + 256 * get rest) % 256 = b.toNat := by omega
    have h2 : (b.toNat + 256 * get rest) / 256 = get rest := by omega
    simp only [List.length_cons, put, get, h1, h2, UInt8.ofNat_toNat, ih _ rfl]

/-- `put n` only looks at `x mod 256^n`. -/
theorem put_mod (n x : Nat) : put n (x % 256 ^ n) = put n x := by
  rw [← get_put n x, put_get n _ (put_length n x)]

/-- `put n` is injective on values below `256^n`. -/
theorem put_inj (n x y : Nat) (hx : x < 256 ^ n) (hy : y < 256 ^ n) (h : put n x = put n y) :
    x = y := by
  have := congrArg get h
  rwa [get_put, get_put, Nat.mod_eq_of_lt hx, Nat.mod_eq_of_lt hy] at this

/-- `get` is injective on byte strings of the same length. -/
theorem get_inj (bs cs : Bytes) (hl : bs.length = cs.length) (h : get bs = get cs) : bs = cs := by
  rw [← put_get _ bs rfl, ← put_get _ cs rfl, h, hl]

/-! ### Big endian -/

theorem putBE_length (n x : Nat) : (putBE n x).length = n := by
  simp [putBE, put_length]

theorem getBE_putBE (n x : Nat) : getBE (putBE n x) = x % 256 ^ n := by
  simp [getBE, putBE, get_put]

theorem getBE_lt (bs : Bytes) : getBE bs < 256 ^ bs.length := by
  have := get_lt bs.reverse
  simpa [getBE] using this

theorem putBE_getBE (n : Nat) (bs : Bytes) (h : bs.length = n) : putBE n (getBE bs) = bs := by
  simp [putBE, getBE, put_get n bs.reverse (by simpa using h)]

/-- Byte order matters: the two images differ as soon as they can. -/
example : put 2 1 ≠ putBE 2 1 := by decide
example : put 4 0x01020304 = [4, 3, 2, 1] := by decide
example : putBE 4 0x01020304 = [1, 2, 3, 4] := by decide
example : get [4, 3, 2, 1] = 0x01020304 := by decide
example : getBE [4, 3, 2, 1] = 0x04030201 := by decide
/-- Truncation, as `PutUint16(uint16(x))`. -/
example : put 2 0x12345 = [0x45, 0x23] := by decide

/-- The two orders agree exactly on palindromic images. -/
theorem putBE_eq_reverse (n x : Nat) : putBE n x = (put n x).reverse := rfl

/-! ### Two's complement -/

theorem toU_lt (bits : Nat) (v : Int) : toU bits v < 2 ^ bits := by
  have hpos : (0 : Int) < 2 ^ bits := Int.pow_pos (by decide)
  have h1 := Int.emod_lt_of_pos v hpos
  have h0 := Int.emod_nonneg v (Int.ne_of_gt hpos)
  have hc : ((2 ^ bits : Nat) : Int) = (2 : Int) ^ bits := by simp
  unfold toU
  omega

theorem toU_of_nonneg (bits : Nat) (v : Int) (h0 : 0 ≤ v) (h1 : v < 2 ^ bits) :
    toU bits v = v.toNat := by
  unfold toU
  rw [Int.emod_eq_of_lt h0 h1]

theorem toU_natCast (bits u : Nat) (h : u < 2 ^ bits) : toU bits (u : Int) = u := by
  have hc : ((2 ^ bits : Nat) : Int) = (2 : Int) ^ bits := by simp
  rw [toU_of_nonneg bits u (by omega) (by omega)]
  simp

private theorem two_pow_pred (bits : Nat) (hb : 1 ≤ bits) :
    (2 : Int) ^ bits = 2 * 2 ^ (bits - 1) := by
  obtain ⟨k, rfl⟩ : ∃ k, bits = k + 1 := ⟨bits - 1, by omega⟩
  simp [Int.pow_succ, Int.mul_comm]

theorem ofU_toU (bits : Nat) (v : Int) (hb : 1 ≤ bits)
    (hlo : -(2 ^ (bits - 1) : Int) ≤ v) (hhi : v < 2 ^ (bits - 1)) :
    ofU bits (toU bits v) = v := by
  have hp := two_pow_pred bits hb
  have hpos : (0 : Int) < 2 ^ (bits - 1) := Int.pow_pos (by decide)
  have hc : ((2 ^ (bits - 1) : Nat) : Int) = (2 : Int) ^ (bits - 1) := by simp
  unfold ofU toU
  by_cases hv : 0 ≤ v
  · rw [Int.emod_eq_of_lt hv (by omega)]
    have : ¬ v.toNat ≥ 2 ^ (bits - 1) := by omega
    rw [if_neg this]; omega
  · have hm : v % 2 ^ bits = v + 2 ^ bits := by
      rw [← Int.add_emod_right, Int.emod_eq_of_lt (by omega) (by omega)]
    rw [hm]
    have : (v + 2 ^ bits).toNat ≥ 2 ^ (bits - 1) := by omega
    rw [if_pos this]; omega

theorem toU_ofU (bits u : Nat) (h : u < 2 ^ bits) : toU bits (ofU bits u) = u := by
  have hc : ((2 ^ bits : Nat) : Int) = (2 : Int) ^ bits := by simp
  unfold ofU
  split
  · unfold toU
    rw [Int.sub_emod_right, Int.emod_eq_of_lt (by omega) (by omega)]
    simp
  · exact toU_natCast bits u h

/-- The signed reading lands in the signed range. -/
theorem ofU_range (bits u : Nat) (hb : 1 ≤ bits) (h : u < 2 ^ bits) :
    -(2 ^ (bits - 1) : Int) ≤ ofU bits u ∧ ofU bits u < 2 ^ (bits - 1) := by
  have hp := two_pow_pred bits hb
  have hc : ((2 ^ bits : Nat) : Int) = (2 : Int) ^ bits := by simp
  have hc' : ((2 ^ (bits - 1) : Nat) : Int) = (2 : Int) ^ (bits - 1) := by simp
  unfold ofU
  split <;> omega

example : toU 8 (-1) = 255 := by decide
example : ofU 8 255 = -1 := by decide
example : ofU 8 128 = -128 := by decide
example : ofU 8 127 = 127 := by decide
example : toU 16 (-32768) = 32768 := by decide

/-! ### Fixed-width integers: `n` bytes, `8 * n` bits -/

theorem pow256 (n : Nat) : 256 ^ n = 2 ^ (8 * n) := by
  rw [Nat.pow_mul]

/-- Unsigned value side: `Uint<8n>(PutUint<8n>(v)) = v`. -/
theorem get_put_of_lt (n v : Nat) (h : v < 256 ^ n) : get (put n v) = v := by
  rw [get_put, Nat.mod_eq_of_lt h]

/-- Signed value side: `int<8n>(Uint<8n>(PutUint<8n>(uint<8n>(v)))) = v`. -/
theorem signed_roundtrip (n : Nat) (v : Int) (hn : 1 ≤ n)
    (hlo : -(2 ^ (8 * n - 1) : Int) ≤ v) (hhi : v < 2 ^ (8 * n - 1)) :
    ofU (8 * n) (get (put n (toU (8 * n) v))) = v := by
  rw [get_put_of_lt n _ (by rw [pow256]; exact toU_lt _ v)]
  exact ofU_toU (8 * n) v (by omega) hlo hhi

/-- Unsigned value side through `toU` (the encoder converts every integer with `uintN(v)`). -/
theorem unsigned_roundtrip (n : Nat) (v : Int) (h0 : 0 ≤ v) (h1 : v < 2 ^ (8 * n)) :
    (get (put n (toU (8 * n) v)) : Int) = v := by
  rw [get_put_of_lt n _ (by rw [pow256]; exact toU_lt _ v), toU_of_nonneg _ v h0 h1]
  omega

/-- Image side, signed: every `n`-byte string is the image of its signed reading. -/
theorem signed_image (n : Nat) (bs : Bytes) (h : bs.length = n) :
    put n (toU (8 * n) (ofU (8 * n) (get bs))) = bs := by
  have hlt : get bs < 2 ^ (8 * n) := by rw [← pow256, ← h]; exact get_lt bs
  rw [toU_ofU _ _ hlt, put_get n bs h]

/-- Image side, unsigned. -/
theorem unsigned_image (n : Nat) (bs : Bytes) (h : bs.length = n) :
    put n (toU (8 * n) (get bs : Int)) = bs := by
  have hlt : get bs < 2 ^ (8 * n) := by rw [← pow256, ← h]; exact get_lt bs
  rw [toU_natCast _ _ hlt, put_get n bs h]

/-- The same four composites in big-endian order. -/
theorem signed_roundtripBE (n : Nat) (v : Int) (hn : 1 ≤ n)
    (hlo : -(2 ^ (8 * n - 1) : Int) ≤ v) (hhi : v < 2 ^ (8 * n - 1)) :
    ofU (8 * n) (getBE (putBE n (toU (8 * n) v))) = v := by
  have : getBE (putBE n (toU (8 * n) v)) = get (put n (toU (8 * n) v)) := by
    simp [getBE, putBE]
  rw [this]; exact signed_roundtrip n v hn hlo hhi

theorem signed_imageBE (n : Nat) (bs : Bytes) (h : bs.length = n) :
    putBE n (toU (8 * n) (ofU (8 * n) (getBE bs))) = bs := by
  have hlt : getBE bs < 2 ^ (8 * n) := by rw [← pow256, ← h]; exact getBE_lt bs
  rw [toU_ofU _ _ hlt, putBE_getBE n bs h]

end Jl.LE
