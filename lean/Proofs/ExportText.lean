/-
  Proofs.ExportText — JSON TEXT handed straight to `Exporter.Export` / `Template.CreateRow`
  (a `string` or `[]byte` argument): the emitted line obeys the same rules as a line that went
  through an importer first (C01 valid line or nothing, C03 key order, C04 format classes).

  The text route: `CreateRow(text)` = `CreateRowEmpty` then `UnmarshalJSON(text)` into it, i.e.
  exactly `importer.GetRow` under the OUTPUT template; then `MarshalJSON` and a newline.  There is
  no second `CreateRow(Row)` pass: a declared column receives `importCell` under the output
  descriptor, not `NewValue` of an already imported raw value.

  1.  `createRow_str`, `exportLine_str`, `exportLine_text_ok_iff`   the structural equation;
      `Swallowed.routes_differ`: text route ≠ `jlLine [] to` (kernel-checked)
  2.  `text_bytes_keys` (+ `_first_appearance`, `_expected`)       C03 on the bytes
  3.  `text_bytes_in_class` (+ `_pointwise`, `_cell`)               C04 on the bytes, `genTables`
  4.  `text_line_valid_or_nothing`                                  C01
  5.  `Demo`                                                        non-vacuity, end to end
-/
import Model.Template
import Model.LineSpec
import Model.CastGen
import Proofs.Order
import Proofs.LineKeys
import Proofs.LineLevel
import Proofs.LineValues
import Proofs.JsonPrint
import Proofs.TimeShape
import Proofs.CastTyped

namespace Jl.ExportText
open Jl Jl.Value Jl.Template Jl.Cast Jl.CastTyped
open Jl.JsonQuote (sanitize)
open Jl.JsonPrint (treeDyn treeVal treeMembers treeExported FloatTextOK)
open Jl.TimeShape (ZoneOK TimeSrcOK)
open Jl.LineLevel (leafCols RowOK CellOK JsonShape)
open Jl.Order (appendNew inputKeys formatAt)

/-! ### 1. The structural equation -/

/-- `CreateRow(string)` IS `GetRow` under the same template: clone the prototype, unmarshal the
    text into the clone (definitional). -/
theorem createRow_str (env : Env) (to : Tmpl) (line : Bytes) :
    createRow env to (.str line) = getRow env to line := by
  unfold createRow getRow createRowEmpty
  cases cloneRow env to <;> rfl

/-- The same for a `[]byte` argument. -/
theorem createRow_bytes (env : Env) (to : Tmpl) (line : Bytes) :
    createRow env to (.bytes line) = getRow env to line := by
  unfold createRow getRow createRowEmpty
  cases cloneRow env to <;> rfl

/-- What the text route writes, in terms of `getRow` and `marshalRow` alone: `GetRow` under the
    OUTPUT template, print that very row, append LF. -/
def textLine (env : Env) (to : Tmpl) (line : Bytes) : Outcome (Bytes × Option ErrClass) :=
  match getRow env to line with
  | .err e => .err e
  | .panic s => .panic s
  | .ok (_, some e) => .ok ([], some e)
  | .ok (row, none) =>
    match RowPrint.marshalRow env (Members.ofList row) with
    | .ok b => .ok (b ++ [0x0A], none)
    | .err .ext => .err .ext
    | .err e => .ok ([], some e)
    | .panic s => .panic s

/-- Target 1: the exact relation, every outcome included (errors, panics, rejected lines). -/
theorem exportLine_str (env : Env) (to : Tmpl) (line : Bytes) :
    exportLine env to (.str line) = textLine env to line := by
  unfold exportLine textLine
  rw [createRow_str]
  rfl

theorem exportLine_bytes (env : Env) (to : Tmpl) (line : Bytes) :
    exportLine env to (.bytes line) = textLine env to line := by
  unfold exportLine textLine
  rw [createRow_bytes]
  rfl

/-- A string and a byte slice holding the same text are exported alike. -/
theorem exportLine_bytes_eq_str (env : Env) (to : Tmpl) (line : Bytes) :
    exportLine env to (.bytes line) = exportLine env to (.str line) := by
  rw [exportLine_bytes, exportLine_str]

/-- An emitted line of the text route went through exactly these steps (and conversely). -/
theorem textLine_ok_iff (env : Env) (to : Tmpl) (line b : Bytes) :
    textLine env to line = .ok (b, none) ↔
      ∃ row body, getRow env to line = .ok (row, none) ∧
        RowPrint.marshalRow env (Members.ofList row) = .ok body ∧ b = body ++ [0x0A] := by
  constructor
  · intro h
    unfold textLine at h
    split at h
    · cases h
    · cases h
    · cases h
    · rename_i row hget
      split at h
      · rename_i body hb
        simp only [Outcome.ok.injEq, Prod.mk.injEq, and_true] at h
        exact ⟨row, body, hget, hb, h.symm⟩
      · cases h
      · cases h
      · cases h
  · rintro ⟨row, body, hget, hm, rfl⟩
    unfold textLine
    simp only [hget, hm]

theorem exportLine_text_ok_iff (env : Env) (to : Tmpl) (line b : Bytes) :
    exportLine env to (.str line) = .ok (b, none) ↔
      ∃ row body, getRow env to line = .ok (row, none) ∧
        RowPrint.marshalRow env (Members.ofList row) = .ok body ∧ b = body ++ [0x0A] := by
  rw [exportLine_str]; exact textLine_ok_iff env to line b

/-- A rejected line of the text route: the import under the output template failed (or the text
    is not an object text), or the imported row does not render; nothing is written. -/
theorem textLine_rejected (env : Env) (to : Tmpl) (line b : Bytes) (e : ErrClass)
    (h : textLine env to line = .ok (b, some e)) :
    b = [] ∧ ((∃ row, getRow env to line = .ok (row, some e)) ∨
      ∃ row, getRow env to line = .ok (row, none) ∧
        RowPrint.marshalRow env (Members.ofList row) = .err e) := by
  unfold textLine at h
  split at h
  · cases h
  · cases h
  · rename_i row e' hget
    simp only [Outcome.ok.injEq, Prod.mk.injEq, Option.some.injEq] at h
    obtain ⟨h1, h2⟩ := h
    subst h1 h2
    exact ⟨rfl, .inl ⟨row, hget⟩⟩
  · rename_i row hget
    split at h
    · cases h
    · cases h
    · rename_i e' _ hm
      simp only [Outcome.ok.injEq, Prod.mk.injEq, Option.some.injEq] at h
      obtain ⟨h1, h2⟩ := h
      subst h1 h2
      exact ⟨rfl, .inr ⟨row, hget, hm⟩⟩
    · cases h

/-- The importer→exporter route in the same words: `jlLine` under ANY importer template runs
    `createRow(Row)` under the output template on the imported row before printing — the step the
    text route does not have. -/
theorem jlLine_steps (env : Env) (ti to : Tmpl) (line b : Bytes)
    (h : jlLine env ti to line = .ok (b, none)) :
    ∃ r row' body, getRow env ti line = .ok (r, none) ∧
      createRow env to (.val (.row (Members.ofList r))) = .ok (row', none) ∧
      RowPrint.marshalRow env (Members.ofList row') = .ok body ∧ b = body ++ [0x0A] :=
  Order.jlLine_ok env ti to line b h

/-! ### 2. C03 on the bytes for the text route

`UnmarshalJSON` into the clone of the output template: a declared key keeps its place and its
format (the values the decoder hands to `parseobject` are never cells: `LineLevel.JsonShape`), an
undeclared name is appended as an Auto cell at its first appearance.  Every cast table. -/

theorem importByFormat_format (env : Env) (f : Format) (typ : Ty) (x : Dyn) (c : Val)
    (e : Option ErrClass) (h : importByFormat env f typ x = .ok (c, e)) :
    Cells.format c = f := by
  unfold importByFormat at h
  simp only at h
  split at h
  · simp only [Outcome.ok.injEq, Prod.mk.injEq] at h
    rw [← h.1]; rfl
  · cases h
  · simp only [Outcome.ok.injEq, Prod.mk.injEq] at h
    rw [← h.1]; rfl
  · cases h

/-- Importing a decoder value into a cell never changes the cell's format. -/
theorem importCell_format (env : Env) (f : Format) (typ : Ty) (x : Dyn) (c : Val)
    (e : Option ErrClass) (hx : JsonShape x) (h : importCell env f typ x = .ok (c, e)) :
    Cells.format c = f := by
  unfold importCell at h
  split at h
  · simp only [Outcome.ok.injEq, Prod.mk.injEq] at h
    rw [← h.1]; rfl
  · split at h
    · simp only [Outcome.ok.injEq, Prod.mk.injEq] at h
      rw [← h.1]; rfl
    · exact importByFormat_format env f typ _ c e h
  · rename_i v hnr
    cases v with
    | cell _ _ _ => exact absurd hx (by simp [JsonShape])
    | row ms => exact absurd rfl (hnr ms)
  · exact importByFormat_format env f typ _ c e h

theorem importInto_format (env : Env) (fuel : Nat) (c : Val) (x : Dyn) (c' : Val)
    (e : Option ErrClass) (hx : JsonShape x) (h : importInto env fuel c x = .ok (c', e)) :
    Cells.format c' = Cells.format c := by
  cases fuel with
  | zero => simp [importInto] at h
  | succ fuel =>
    cases c with
    | cell raw f typ =>
      simp only [importInto] at h
      exact importCell_format env f typ x c' e hx h
    | row ms =>
      simp only [importInto] at h
      split at h
      · split at h
        · simp only [Outcome.ok.injEq, Prod.mk.injEq] at h
          rw [← h.1]; rfl
        · cases h
        · cases h
      · split at h
        · simp only [Outcome.ok.injEq, Prod.mk.injEq] at h
          rw [← h.1]; rfl
        · cases h
        · cases h
      · simp only [Outcome.ok.injEq, Prod.mk.injEq] at h
        rw [← h.1]

theorem parseMember_formatAt (env : Env) (o o' : List (Bytes × Val)) (k : Bytes) (x : Dyn)
    (e : Option ErrClass) (hx : JsonShape x) (h : parseMember env o k x = .ok (o', e))
    (k' : Bytes) :
    formatAt o' k' =
      if k' ∈ OMap.keys o then formatAt o k' else if k' = k then some .auto else none := by
  unfold parseMember at h
  split at h
  · rename_i c hc
    have hmem : k ∈ OMap.keys o := by
      apply Classical.byContradiction
      intro hn
      rw [lookup, (Order.lookup_eq_none_iff o k).mpr hn] at hc; cases hc
    split at h
    · rename_i c' e' hi
      simp only [Outcome.ok.injEq, Prod.mk.injEq] at h
      rw [← h.1, Order.formatAt_upsert]
      by_cases hk : k' = k
      · subst hk
        simp only [if_true, hmem]
        rw [importInto_format env 64 c x c' e' hx hi, formatAt]
        rw [lookup] at hc; rw [hc]; rfl
      · simp only [hk, if_false]
        split
        · rfl
        · rename_i hn; exact (Order.formatAt_eq_none_iff o k').mpr hn
    · cases h
    · cases h
  · rename_i hc
    have hmem : k ∉ OMap.keys o := (Order.lookup_eq_none_iff o k).mp hc
    simp only [Outcome.ok.injEq, Prod.mk.injEq] at h
    rw [← h.1, Order.formatAt_upsert]
    by_cases hk : k' = k
    · subst hk; simp [hmem, Cells.autoCell, Cells.format]
    · simp only [hk, if_false]
      split
      · rfl
      · rename_i hn; exact (Order.formatAt_eq_none_iff o k').mpr hn

theorem parseMembers_formatAt (env : Env) (l : List (Bytes × Dyn)) :
    ∀ (o o' : List (Bytes × Val)), (∀ kx ∈ l, JsonShape kx.2) →
      parseMembers env o l = .ok (o', none) → ∀ k,
      (k ∈ OMap.keys o → formatAt o' k = formatAt o k) ∧
      (k ∉ OMap.keys o → k ∈ OMap.keys o' → formatAt o' k = some .auto) := by
  induction l with
  | nil =>
    intro o o' _ h k
    simp only [parseMembers, Outcome.ok.injEq, Prod.mk.injEq, and_true] at h
    subst h
    exact ⟨fun _ => rfl, fun h1 h2 => absurd h2 h1⟩
  | cons kx l ih =>
    intro o o' hl h k
    obtain ⟨k0, x⟩ := kx
    simp only [parseMembers] at h
    split at h
    · rename_i o1 h1
      have hx := hl (k0, x) (List.mem_cons_self ..)
      have hk1 := Order.parseMember_keys env _ _ _ _ _ h1
      have hf1 := parseMember_formatAt env _ _ _ _ _ hx h1 k
      obtain ⟨ihA, ihB⟩ := ih _ _ (fun kx hkx => hl kx (List.mem_cons_of_mem _ hkx)) h k
      constructor
      · intro hm
        have : k ∈ OMap.keys o1 := by rw [hk1]; exact Order.mem_appendNew.mpr (.inl hm)
        rw [ihA this, hf1, if_pos hm]
      · intro hn hm'
        by_cases hm1 : k ∈ OMap.keys o1
        · rw [ihA hm1, hf1, if_neg hn]
          have : k = k0 := by
            rw [hk1] at hm1
            rcases Order.mem_appendNew.mp hm1 with h | h
            · exact absurd h hn
            · simpa using h
          rw [if_pos this]
        · exact ihB hm1 hm'
    · rename_i r hne
      exact absurd h (hne o')

/-- In the row the text route prints (for a template with distinct column names): every
    declared key holds a cell of the declared format, every other key an Auto cell. -/
theorem getRow_formats (env : Env) (to : Tmpl) (line : Bytes) (r : List (Bytes × Val))
    (hnd : (OMap.keys to).Nodup) (h : getRow env to line = .ok (r, none)) (k : Bytes) :
    (k ∈ OMap.keys to → formatAt r k = formatAt to k) ∧
    (k ∉ OMap.keys to → k ∈ OMap.keys r → formatAt r k = some .auto) := by
  obtain ⟨row0, h0, h1⟩ := Order.getRow_ok env to line r none h
  obtain ⟨l, hl, hp, _⟩ := Order.unmarshalInto_ok env row0 r line h1
  have hk0 : ∀ k, k ∈ OMap.keys row0 ↔ k ∈ OMap.keys to := by
    intro k; rw [Order.cloneRow_keys env to row0 h0, Order.mem_appendNew]; simp
  obtain ⟨hA, hB⟩ := parseMembers_formatAt env l row0 r
    (LineLevel.ofJVMembers_shape env _ l hl) hp k
  refine ⟨fun hm => ?_, fun hn hm => hB (fun h => hn ((hk0 k).mp h)) hm⟩
  rw [hA ((hk0 k).mpr hm), Order.cloneRow_formatAt env to row0 h0 hnd k]

/-- The key list of the row the text route prints. -/
theorem getRow_keys_text (env : Env) (to : Tmpl) (line : Bytes) (r : List (Bytes × Val))
    (hnd : (OMap.keys to).Nodup) (h : getRow env to line = .ok (r, none)) :
    OMap.keys r = appendNew (OMap.keys to) (inputKeys line) := by
  rw [Order.getRow_keys env to line r h, Order.appendNew_nil_of_nodup hnd]

/-- The emitted keys of the text route: the template's visible columns in declaration order, then
    the input's undeclared names in order of first appearance. -/
theorem text_visible_keys (env : Env) (to : Tmpl) (line : Bytes) (r : List (Bytes × Val))
    (hto : (OMap.keys to).Nodup) (hget : getRow env to line = .ok (r, none)) :
    RowPrint.visibleKeys r =
      ((OMap.keys to).filter fun k => formatAt to k != some .hidden) ++
      (appendNew (OMap.keys to) (inputKeys line)).filter (fun k => decide (k ∉ OMap.keys to)) := by
  have hk := getRow_keys_text env to line r hto hget
  have hnd : (OMap.keys r).Nodup := Order.getRow_keys_nodup env to line r hget
  have hf := getRow_formats env to line r hto hget
  have hsplit : OMap.keys r = OMap.keys to ++
      (appendNew (OMap.keys to) (inputKeys line)).filter (fun k => decide (k ∉ OMap.keys to)) := by
    rw [hk, Order.appendNew_eq_dedup, List.filter_append, List.filter_filter]
    have h1 : (OMap.keys to).filter (fun k => decide (k ∉ OMap.keys to)) = [] := by
      rw [List.filter_eq_nil_iff]
      intro k hk'
      simp [hk']
    rw [h1, List.nil_append]
    congr 1
    apply List.filter_congr
    intro k _
    simp
  rw [Order.visibleKeys_eq r hnd]
  conv => lhs; rw [hsplit]
  rw [List.filter_append]
  congr 1
  · apply List.filter_congr
    intro k hm
    rw [(hf k).1 hm]
  · rw [List.filter_eq_self]
    intro k hm
    have hn : k ∉ OMap.keys to := by
      simpa using (List.mem_filter.mp hm).2
    have hm' : k ∈ OMap.keys r := by rw [hsplit]; exact List.mem_append_right _ hm
    rw [(hf k).2 hn hm']
    rfl

/-- …the tail written as the first occurrences among the undeclared members only. -/
theorem text_visible_keys_first_appearance (env : Env) (to : Tmpl) (line : Bytes)
    (r : List (Bytes × Val)) (hto : (OMap.keys to).Nodup)
    (hget : getRow env to line = .ok (r, none)) :
    RowPrint.visibleKeys r =
      ((OMap.keys to).filter fun k => formatAt to k != some .hidden) ++
      ((inputKeys line).filter (fun k => decide (k ∉ OMap.keys to))).eraseDups := by
  rw [text_visible_keys env to line r hto hget,
    Order.filter_appendNew_of_same_names (fun _ => Iff.rfl), Order.eraseDups_filter]

/-- What the text route wrote, read back: the tree of the printed row. -/
theorem text_emitted (env : Env) (to : Tmpl) (line b : Bytes)
    (h : exportLine env to (.str line) = .ok (b, none)) (hx : FloatTextOK env.ext) :
    ∃ r body, getRow env to line = .ok (r, none) ∧
      RowPrint.marshalRow env (Members.ofList r) = .ok body ∧ b = body ++ [0x0A] ∧
      Json.unmarshal body = (treeMembers env (Members.ofList r), true) := by
  obtain ⟨r, body, hget, hm, hb⟩ := (exportLine_text_ok_iff env to line b).1 h
  exact ⟨r, body, hget, hm, hb, JsonPrint.unmarshal_marshalRow env hx _ body hm⟩

/-- Target 2 — C03 on the BYTES of a line the text route emitted, every cast table, every
    template with distinct column names: the line is an object text and a newline, and the object a
    JSON reader delivers for it has, in order, the template's visible columns in declaration order,
    then the input's undeclared names in order of first appearance — each as the escaper writes it
    (`sanitize`).  This is `C03.emitted_bytes_keys` with `ti := to`, word for word. -/
theorem text_bytes_keys (env : Env) (to : Tmpl) (line b : Bytes)
    (h : exportLine env to (.str line) = .ok (b, none)) (hx : FloatTextOK env.ext)
    (hto : (OMap.keys to).Nodup) :
    ∃ body t, b = body ++ [0x0A] ∧ Json.unmarshal body = (t, true) ∧
      LineSpec.keysOf t =
        (((OMap.keys to).filter fun k => formatAt to k != some .hidden) ++
          (appendNew (OMap.keys to) (inputKeys line)).filter
            (fun k => decide (k ∉ OMap.keys to))).map sanitize := by
  obtain ⟨r, body, hget, _, hb, hu⟩ := text_emitted env to line b h hx
  refine ⟨body, _, hb, hu, ?_⟩
  rw [LineLevel.keysOf_tree, text_visible_keys env to line r hto hget]

/-- The same with the tail spelled out: the undeclared members of the input, first occurrences. -/
theorem text_bytes_keys_first_appearance (env : Env) (to : Tmpl) (line b : Bytes)
    (h : exportLine env to (.str line) = .ok (b, none)) (hx : FloatTextOK env.ext)
    (hto : (OMap.keys to).Nodup) :
    ∃ body t, b = body ++ [0x0A] ∧ Json.unmarshal body = (t, true) ∧
      LineSpec.keysOf t =
        (((OMap.keys to).filter fun k => formatAt to k != some .hidden) ++
          ((inputKeys line).filter (fun k => decide (k ∉ OMap.keys to))).eraseDups).map
          sanitize := by
  obtain ⟨r, body, hget, _, hb, hu⟩ := text_emitted env to line b h hx
  refine ⟨body, _, hb, hu, ?_⟩
  rw [LineLevel.keysOf_tree, text_visible_keys_first_appearance env to line r hto hget]

/-- The same in the words of the oracle (`LineSpec.expectedKeys`, first clause of
    `orderViolation`) — the analogue of `C03.emitted_bytes_keys_expected`. -/
theorem text_bytes_keys_expected (env : Env) (to : Tmpl) (line b : Bytes)
    (h : exportLine env to (.str line) = .ok (b, none)) (hx : FloatTextOK env.ext)
    (hto : (OMap.keys to).Nodup) :
    ∃ body t, b = body ++ [0x0A] ∧ Json.unmarshal body = (t, true) ∧
      LineSpec.keysOf t =
        (LineSpec.expectedKeys (leafCols to) (LineSpec.keysOf (Json.unmarshal line).1)).map
          sanitize := by
  obtain ⟨body, t, hb, hu, hk⟩ := text_bytes_keys_first_appearance env to line b h hx hto
  refine ⟨body, t, hb, hu, ?_⟩
  rw [hk, LineLevel.expectedKeys_leafCols to hto]
  rfl

/-- A `[]byte` argument: the same three statements hold (`exportLine_bytes_eq_str`). -/
theorem text_bytes_keys_of_bytes (env : Env) (to : Tmpl) (line b : Bytes)
    (h : exportLine env to (.bytes line) = .ok (b, none)) (hx : FloatTextOK env.ext)
    (hto : (OMap.keys to).Nodup) :
    ∃ body t, b = body ++ [0x0A] ∧ Json.unmarshal body = (t, true) ∧
      LineSpec.keysOf t =
        (LineSpec.expectedKeys (leafCols to) (LineSpec.keysOf (Json.unmarshal line).1)).map
          sanitize :=
  text_bytes_keys_expected env to line b (by rw [← exportLine_bytes_eq_str]; exact h) hx hto

/-- Every emitted key is emitted once; a hidden column never appears. -/
theorem text_keys_nodup (env : Env) (to : Tmpl) (line : Bytes) (r : List (Bytes × Val))
    (hget : getRow env to line = .ok (r, none)) : (RowPrint.visibleKeys r).Nodup := by
  have hnd := Order.getRow_keys_nodup env to line r hget
  rw [Order.visibleKeys_eq r hnd]
  exact hnd.filter _

theorem text_hidden_never_emitted (env : Env) (to : Tmpl) (line : Bytes) (r : List (Bytes × Val))
    (hto : (OMap.keys to).Nodup) (hget : getRow env to line = .ok (r, none))
    (k : Bytes) (hk : formatAt to k = some .hidden) : k ∉ RowPrint.visibleKeys r := by
  have hnd := Order.getRow_keys_nodup env to line r hget
  have hm : k ∈ OMap.keys to := by
    apply Classical.byContradiction
    intro hn; rw [(Order.formatAt_eq_none_iff to k).mpr hn] at hk; cases hk
  rw [Order.visibleKeys_eq r hnd, List.mem_filter, (getRow_formats env to line r hto hget k).1 hm, hk]
  intro h
  exact absurd h.2 (by decide)

/-! ### 3. C04 on the bytes for the text route, over the regenerated cast tables

No hypothesis on the raw values: `LineLevel.member_in_class` holds of EVERY cell whose export
succeeded, and a cell whose export fails rejects the line.  The conditions left are those of
`C04.emitted_bytes_in_class` with the importer side gone: distinct names fixed by the escaper,
and — only when the template has a date-time column — printable zone offsets and no unprintable
`time.Time` in a prototype cell. -/

/-- The side conditions of the date-time verb for the text route (one template only). -/
def DateTimeSideText (ext : Ext) (to : Tmpl) : Prop := ZoneOK ext ∧ RowOK to

/-- Every key of the printed row is a column of the template or a member name of the input. -/
theorem text_keys_origin (env : Env) (to : Tmpl) (line : Bytes) (r : List (Bytes × Val))
    (hget : getRow env to line = .ok (r, none)) :
    ∀ k ∈ OMap.keys r, k ∈ OMap.keys to ++ inputKeys line := by
  intro k hk
  rw [Order.getRow_keys env to line r hget, Order.mem_appendNew, Order.mem_appendNew] at hk
  simp only [List.not_mem_nil, false_or] at hk
  exact List.mem_append.2 hk

/-- Target 3, pointwise form.  One line the text route emitted over the regenerated cast tables;
    template with distinct column names.  The written bytes are an object text and a newline; in
    the object the reader delivers, the member found under a declared column's name (as the
    escaper writes it) is in the lexical class of the column's format — for every column whose
    written name no other key of the line shares. -/
theorem text_bytes_in_class_pointwise (ext : Ext) (to : Tmpl) (line b : Bytes)
    (h : exportLine ⟨genTables, ext⟩ to (.str line) = .ok (b, none)) (hx : FloatTextOK ext)
    (hto : (OMap.keys to).Nodup)
    (hdt : (∃ kv ∈ to, Cells.format kv.2 = .datetime) → DateTimeSideText ext to) :
    ∃ body t, b = body ++ [0x0A] ∧ Json.unmarshal body = (t, true) ∧
      ∀ k c0, OMap.lookup to k = some c0 →
        (∀ k' ∈ OMap.keys to ++ inputKeys line, sanitize k' = sanitize k → k' = k) →
        ∀ v, LineSpec.lookupJV t (sanitize k) = some v →
          LineSpec.inClass (Cells.format c0) v = true := by
  obtain ⟨r, body, hget, hm, hb, hu⟩ := text_emitted ⟨genTables, ext⟩ to line b h hx
  refine ⟨body, _, hb, hu, ?_⟩
  intro k c0 hk hsep v hv
  have hnd := Order.getRow_keys_nodup _ to line r hget
  have horigin := text_keys_origin _ to line r hget
  -- the member found is the print of the row's cell at `k`
  obtain ⟨c, hmem, hvis, rfl⟩ := LineLevel.lookupJV_tree _ k r v
    (fun k' hk' => hsep k' (horigin k' (LineLevel.visibleKeys_subset r k' hk'))) hv
  have hlk := LineLevel.lookup_of_mem_nodup hnd hmem
  -- which has the declared format
  have hkm : k ∈ OMap.keys to := by
    apply Classical.byContradiction
    intro hn; rw [(Order.lookup_eq_none_iff to k).mpr hn] at hk; cases hk
  have hfmt : Cells.format c = Cells.format c0 := by
    have := (getRow_formats _ to line r hto hget k).1 hkm
    simp only [Order.formatAt, hlk, hk, Option.map_some, Option.some.injEq] at this
    exact this
  -- and was marshalled, hence exported
  obtain ⟨parts, hparts, _⟩ := JsonPrint.marshalRow_shape hm
  obtain ⟨bs, hbs⟩ := LineLevel.marshalMembers_mem _ r parts hparts k c hmem hvis
  rw [← hfmt]
  cases c with
  | row ms => exact LineLevel.inClass_auto _
  | cell raw f typ =>
    obtain ⟨e, he, _⟩ := LineLevel.marshalVal_cell_inv hbs
    refine LineLevel.member_in_class ext raw f typ e he ?_
    intro hf
    have hside := hdt ⟨(k, c0), LineLevel.mem_of_lookup hk, by rw [← hfmt]; exact hf⟩
    refine ⟨hside.1, ?_⟩
    have hrow : RowOK r := LineLevel.getRow_rowOK ext hside.1 to line r hside.2 hget
    exact hrow (k, .cell raw f typ) hmem

/-- The same for a column declared `With(name, f, typ)`. -/
theorem text_bytes_in_class_cell (ext : Ext) (to : Tmpl) (line b : Bytes)
    (h : exportLine ⟨genTables, ext⟩ to (.str line) = .ok (b, none)) (hx : FloatTextOK ext)
    (hto : (OMap.keys to).Nodup)
    (hdt : (∃ kv ∈ to, Cells.format kv.2 = .datetime) → DateTimeSideText ext to) :
    ∃ body t, b = body ++ [0x0A] ∧ Json.unmarshal body = (t, true) ∧
      ∀ k raw0 f typ, (k, Val.cell raw0 f typ) ∈ to →
        (∀ k' ∈ OMap.keys to ++ inputKeys line, sanitize k' = sanitize k → k' = k) →
        ∀ v, LineSpec.lookupJV t (sanitize k) = some v → LineSpec.inClass f v = true := by
  obtain ⟨body, t, hb, hu, hall⟩ := text_bytes_in_class_pointwise ext to line b h hx hto hdt
  refine ⟨body, t, hb, hu, ?_⟩
  intro k raw0 f typ hmem hsep v hv
  exact hall k _ (LineLevel.lookup_of_mem_nodup hto hmem) hsep v hv

/-- Member names of a tree the reader delivered are fixed by the escaper. -/
theorem keys_fixed_of_reader : ∀ (t : JVMembers), RoundTrip.ReaderStrings t →
    ∀ k ∈ t.toList.map Prod.fst, sanitize k = k
  | .nil, _, k, hk => by simp [JVMembers.toList] at hk
  | .cons k0 v ms, h, k, hk => by
    simp only [RoundTrip.ReaderStrings, RoundTrip.AllM] at h
    simp only [JVMembers.toList, List.map_cons, List.mem_cons] at hk
    rcases hk with rfl | hk
    · exact h.1
    · exact keys_fixed_of_reader ms h.2.2 k hk

/-- The member names the reader delivers for ANY input text are fixed by the escaper (it has
    already put U+FFFD in place of ill-formed bytes). -/
theorem inputKeys_fixed (line : Bytes) : ∀ k ∈ inputKeys line, sanitize k = k := by
  intro k hk
  have hrs := RoundTrip.reader_strings (line := line) (t := (Json.unmarshal line).1)
    (b := (Json.unmarshal line).2) rfl
  exact keys_fixed_of_reader _ hrs k hk

/-- Target 3 — C04 on the BYTES of a line the text route emitted, in the words of the oracle the
    correspondence check applies to the implementation's output: for every input text accepted by
    `Export(text)` over the regenerated cast tables, a template with distinct well-formed-UTF-8
    names, the line is an object text and a newline and `LineSpec.classViolation` finds nothing in
    the object a JSON reader delivers for it.  No hypothesis on the values: whatever the text
    holds under a declared name, the member is in its format's class or the line is rejected. -/
theorem text_bytes_in_class (ext : Ext) (to : Tmpl) (line b : Bytes) (fuel : Nat)
    (h : exportLine ⟨genTables, ext⟩ to (.str line) = .ok (b, none)) (hx : FloatTextOK ext)
    (hto : (OMap.keys to).Nodup) (hutf : ∀ k ∈ OMap.keys to, sanitize k = k)
    (hdt : (∃ kv ∈ to, Cells.format kv.2 = .datetime) → DateTimeSideText ext to) :
    ∃ body t, b = body ++ [0x0A] ∧ Json.unmarshal body = (t, true) ∧
      LineSpec.classViolation fuel (leafCols to) t = none := by
  obtain ⟨body, t, hb, hu, hall⟩ := text_bytes_in_class_pointwise ext to line b h hx hto hdt
  refine ⟨body, t, hb, hu, ?_⟩
  cases fuel with
  | zero => rfl
  | succ fuel =>
    rw [LineSpec.classViolation]
    apply LineLevel.foldl_none
    intro c hc
    obtain ⟨⟨k, c0⟩, hmem, rfl⟩ := List.mem_map.1 hc
    have hkm : k ∈ OMap.keys to := List.mem_map_of_mem (f := Prod.fst) hmem
    have hsep' : ∀ k' ∈ OMap.keys to ++ inputKeys line, sanitize k' = sanitize k → k' = k := by
      intro k' hk' hs
      rw [hutf k hkm] at hs
      rcases List.mem_append.1 hk' with hk' | hk'
      · rw [hutf k' hk'] at hs; exact hs
      · rw [inputKeys_fixed line k' hk'] at hs; exact hs
    simp only [LineSpec.Col.name]
    cases hl : LineSpec.lookupJV t k with
    | none => rfl
    | some v =>
      have hv : LineSpec.lookupJV t (sanitize k) = some v := by rw [hutf k hkm]; exact hl
      have := hall k c0 (LineLevel.lookup_of_mem_nodup hto hmem) hsep' v hv
      simp only [this, if_true]

/-- The same for a `[]byte` argument. -/
theorem text_bytes_in_class_of_bytes (ext : Ext) (to : Tmpl) (line b : Bytes) (fuel : Nat)
    (h : exportLine ⟨genTables, ext⟩ to (.bytes line) = .ok (b, none)) (hx : FloatTextOK ext)
    (hto : (OMap.keys to).Nodup) (hutf : ∀ k ∈ OMap.keys to, sanitize k = k)
    (hdt : (∃ kv ∈ to, Cells.format kv.2 = .datetime) → DateTimeSideText ext to) :
    ∃ body t, b = body ++ [0x0A] ∧ Json.unmarshal body = (t, true) ∧
      LineSpec.classViolation fuel (leafCols to) t = none :=
  text_bytes_in_class ext to line b fuel (by rw [← exportLine_bytes_eq_str]; exact h) hx hto hutf hdt

/-! #### Why no "well-typed raw value" caveat is left

On the importer→exporter route the cell that is printed comes from `NewValue(raw, f, typ)`, which
keeps `raw` UNCAST when `cast.To(typ, raw)` fails (finding swallowed-cast).  On the text route it
comes from `importCell f typ x`: a failing cast rejects the line, so a printed cell of a column
declared with a raw type holds nil, a value of exactly that type, or — Auto/Hidden columns only —
the nested row the text held (C10 `import_typed`, re-proved here for decoder values). -/

theorem castTo_ok_typed (ext : Ext) (typ : Ty) (ht : typ ≠ .none) (v r : Dyn)
    (h : importFail (castTo genTables ext typ v) = .ok r) : r = .nil ∨ typeOf r = typ := by
  have := gen_castTo_typed ext typ ht v r (LineLevel.importFail_ok h)
  by_cases hv : v = .nil
  · left; exact this.1.mpr hv
  · right; exact this.2 hv

theorem importFrom_typed (ext : Ext) (name : String) (typ : Ty) (ht : typ ≠ .none) (v r : Dyn)
    (h : importFrom ⟨genTables, ext⟩ name v typ = .ok r) : r = .nil ∨ typeOf r = typ := by
  unfold importFrom at h
  split at h
  · exact absurd rfl ht
  · exact castTo_ok_typed ext typ ht v r h

theorem importFromBinary_typed (ext : Ext) (typ : Ty) (ht : typ ≠ .none) (v r : Dyn)
    (h : importFromBinary ⟨genTables, ext⟩ v typ = .ok r) : r = .nil ∨ typeOf r = typ := by
  unfold importFromBinary at h
  split at h
  · split at h
    · cases h
    · split at h
      · exact absurd rfl ht
      · exact castTo_ok_typed ext typ ht _ r h
  · cases h
  · cases h
  · rename_i hne
    exact absurd h (hne r)

theorem importByFormat_typed (ext : Ext) (f : Format) (typ : Ty) (ht : typ ≠ .none) (v : Dyn)
    (c : Val) (h : importByFormat ⟨genTables, ext⟩ f typ v = .ok (c, none)) :
    ∃ raw, c = .cell raw f typ ∧ (raw = .nil ∨ typeOf raw = typ) := by
  unfold importByFormat at h
  simp only at h
  split at h
  · rename_i r hres
    simp only [Outcome.ok.injEq, Prod.mk.injEq, and_true] at h
    refine ⟨r, h.symm, ?_⟩
    cases f with
    | string => exact importFrom_typed ext _ typ ht v r hres
    | numeric => exact importFrom_typed ext _ typ ht v r hres
    | boolean => exact importFrom_typed ext _ typ ht v r hres
    | binary => exact importFromBinary_typed ext typ ht v r hres
    | date => exact importFrom_typed ext _ typ ht v r hres
    | datetime => exact importFrom_typed ext _ typ ht v r hres
    | timestamp => exact importFrom_typed ext _ typ ht v r hres
    | auto =>
      have hres' : castTo genTables ext typ v = .ok r := hres
      exact castTo_ok_typed ext typ ht v r (by rw [hres']; rfl)
    | hidden =>
      have hres' : castTo genTables ext typ v = .ok r := hres
      exact castTo_ok_typed ext typ ht v r (by rw [hres']; rfl)
    | bad => cases hres
  · cases h
  · simp only [Outcome.ok.injEq, Prod.mk.injEq] at h
    exact absurd h.2 (by simp)
  · cases h

/-- One import step of the text route into a column declared with raw type `typ`. -/
theorem text_cell_typed (ext : Ext) (f : Format) (typ : Ty) (ht : typ ≠ .none) (x : Dyn) (c : Val)
    (hx : JsonShape x) (h : importCell ⟨genTables, ext⟩ f typ x = .ok (c, none)) :
    ∃ raw, c = .cell raw f typ ∧
      (raw = .nil ∨ typeOf raw = typ ∨ ∃ ms, raw = .val (.row ms) ∧ (f = .auto ∨ f = .hidden)) := by
  have widen : (∃ raw, c = .cell raw f typ ∧ (raw = .nil ∨ typeOf raw = typ)) →
      ∃ raw, c = .cell raw f typ ∧
        (raw = .nil ∨ typeOf raw = typ ∨ ∃ ms, raw = .val (.row ms) ∧ (f = .auto ∨ f = .hidden)) := by
    rintro ⟨raw, hc, hr⟩
    exact ⟨raw, hc, hr.elim .inl (fun h => .inr (.inl h))⟩
  unfold importCell at h
  split at h
  · simp only [Outcome.ok.injEq, Prod.mk.injEq, and_true] at h
    exact ⟨.nil, h.symm, .inl rfl⟩
  · rename_i ms
    split at h
    · rename_i hf
      simp only [Outcome.ok.injEq, Prod.mk.injEq, and_true] at h
      refine ⟨_, h.symm, .inr (.inr ⟨ms, rfl, ?_⟩)⟩
      have hf' : (f = Format.auto ∨ f = Format.hidden) ∧ typ = Ty.none := by simpa using hf
      exact hf'.1
    · exact widen (importByFormat_typed ext f typ ht _ c h)
  · rename_i v hnr
    cases v with
    | cell _ _ _ => exact absurd hx (by simp [JsonShape])
    | row ms => exact absurd rfl (hnr ms)
  · exact widen (importByFormat_typed ext f typ ht _ c h)

/-! ### 4. C01 for the text route -/

/-- Target 4 — C01 for `Export(text)`: when a line is emitted, what reaches the writer is one
    RFC 8259 object text (`Grammar.IsObjectText`, accepted by the reader) holding no newline byte,
    then exactly one newline, which is the last byte; and the INPUT text was itself one object
    text.  When an error is reported (import failure, syntax error, row that does not render)
    nothing at all is written; the two remaining outcomes (`.err`, `.panic`) carry no bytes. -/
theorem text_line_valid_or_nothing (env : Env) (hx : FloatTextOK env.ext) (to : Tmpl)
    (line w : Bytes) :
    (exportLine env to (.str line) = .ok (w, none) →
      ∃ body, w = body ++ [0x0A] ∧ Grammar.IsObjectText body ∧ Json.accepts body = true ∧
        (0x0A : UInt8) ∉ body ∧ w.count 0x0A = 1 ∧ w.getLast? = some 0x0A ∧
        Grammar.IsObjectText line) ∧
    (∀ e, exportLine env to (.str line) = .ok (w, some e) → w = []) := by
  refine ⟨fun h => ?_, fun e h => JsonPrint.exportLine_error env to _ w e h⟩
  obtain ⟨body, hb, hacc, hnl⟩ := JsonPrint.exportLine_valid env hx to _ w h
  obtain ⟨h1, h2⟩ := JsonPrint.exportLine_one_newline env hx to _ w h
  refine ⟨body, hb, (JsonAcc.accepts_iff body).1 hacc, hacc, hnl, h1, h2, ?_⟩
  obtain ⟨r, _, hget, _, _⟩ := (exportLine_text_ok_iff env to line w).1 h
  obtain ⟨row0, _, h1⟩ := Order.getRow_ok env to line r none hget
  obtain ⟨_, _, _, hacc'⟩ := Order.unmarshalInto_ok env row0 r line h1
  exact (JsonAcc.accepts_iff line).1 hacc'

/-- The same for a `[]byte` argument. -/
theorem bytes_line_valid_or_nothing (env : Env) (hx : FloatTextOK env.ext) (to : Tmpl)
    (line w : Bytes) :
    (exportLine env to (.bytes line) = .ok (w, none) →
      ∃ body, w = body ++ [0x0A] ∧ Grammar.IsObjectText body ∧ Json.accepts body = true ∧
        (0x0A : UInt8) ∉ body ∧ w.count 0x0A = 1 ∧ w.getLast? = some 0x0A ∧
        Grammar.IsObjectText line) ∧
    (∀ e, exportLine env to (.bytes line) = .ok (w, some e) → w = []) := by
  rw [exportLine_bytes_eq_str]
  exact text_line_valid_or_nothing env hx to line w

/-- One write or nothing, in the words of `C01.one_write_or_nothing`: the single write is the
    print of the row `GetRow` delivers under the output template, plus LF. -/
theorem text_one_write_or_nothing (env : Env) (to : Tmpl) (line w : Bytes) (e : Option ErrClass)
    (h : exportLine env to (.str line) = .ok (w, e)) :
    (e = none → ∃ row bs, getRow env to line = .ok (row, none) ∧
      RowPrint.marshalRow env (Members.ofList row) = .ok bs ∧ w = bs ++ [0x0A]) ∧
    (e ≠ none → w = []) := by
  cases e with
  | none =>
    exact ⟨fun _ => (exportLine_text_ok_iff env to line w).1 h, fun hn => absurd rfl hn⟩
  | some e =>
    exact ⟨fun hn => (by cases hn), fun _ => JsonPrint.exportLine_error env to _ w e h⟩


/-! ### 1b. The text route is NOT `jlLine [] to`: finding swallowed-cast, kernel-checked

  Output template `c : string(int)`; text `{"c":""}`.  The text route imports `""` under the
  output descriptor: `cast.To(int, "")` fails, the import fails, the line is rejected and nothing
  is written.  The importer→exporter route (`jl` with no input template) first imports the member
  into an Auto cell, then `CreateRow(Row)` runs `NewValue("", string, int)`, which SWALLOWS the
  failing cast and keeps the string: the line `{"c":""}` is emitted. -/
namespace Swallowed
open RowPrint JsonWrite

def env : Env := ⟨genTables, Ext.empty⟩

/-- `c : string(int)` -/
def to : Tmpl := withCol [] [0x63] .string (.int .int)

/-- `{"c":""}` -/
def line : Bytes := [0x7B, 0x22, 0x63, 0x22, 0x3A, 0x22, 0x22, 0x7D]

theorem to_eq : to = [([0x63], .cell .nil .string (.int .int))] := rfl

open Json in
theorem unmarshal_line : Json.unmarshal line = (.cons [0x63] (.str []) .nil, true) := by
  simp [line, unmarshal, token, tokenCore, skipSpace, isSpace, asClose, parseObject, more,
    asKey, asTok, strBody, pre, handleDelim, scanScalar, valueAllowed, valueEnd, isEof]

/-- Text route: the import under the output descriptor fails. -/
theorem getRow_to : getRow env to line =
    .ok ([([0x63], .cell .nil .string (.int .int))], some .unsupportedImport) := by
  unfold getRow createRowEmpty
  have h0 : cloneRow env to = .ok to := rfl
  rw [h0]
  simp only [unmarshalInto, unmarshal_line]
  rfl

theorem text_rejected : exportLine env to (.str line) = .ok ([], some .unsupportedImport) := by
  rw [exportLine_str]
  simp only [textLine, getRow_to]

/-- Importer route, no input template: the member lands in an Auto cell… -/
theorem getRow_nil : getRow env [] line = .ok ([([0x63], .cell (.str []) .auto .none)], none) := by
  unfold getRow createRowEmpty
  have h0 : cloneRow env [] = .ok [] := rfl
  rw [h0]
  simp only [unmarshalInto, unmarshal_line]
  rfl

/-- …and `CreateRow(Row)` keeps the string uncast in the `string(int)` cell. -/
theorem createRow_imported :
    createRow env to (.val (.row (Members.ofList [([0x63], .cell (.str []) .auto .none)]))) =
      .ok ([([0x63], .cell (.str []) .string (.int .int))], none) := rfl

theorem export_c : exportVal env (.cell (.str []) .string (.int .int)) = .ok (.str []) := rfl

theorem marshal_c : marshalVal env (.cell (.str []) .string (.int .int)) = .ok (quote []) := by
  rw [marshalVal.eq_def]
  simp only [export_c]
  rw [marshalExported.eq_def]

theorem quote_c : quote [0x63] = [0x22, 0x63, 0x22] := by
  simp [JsonWrite.quote, JsonWrite.quoteBody, JsonWrite.htmlSafe]

theorem quote_empty : quote [] = [0x22, 0x22] := by
  simp [JsonWrite.quote, JsonWrite.quoteBody]

theorem jl_emitted : jlLine env [] to line = .ok (line ++ [0x0A], none) := by
  have h : marshalMembers env (Members.ofList [([0x63], .cell (.str []) .string (.int .int))]) =
      .ok [quote [0x63] ++ 0x3A :: quote []] :=
    JsonPrint.marshalMembers_cons env _ _ _ (by decide) marshal_c (JsonPrint.marshalMembers_nil env)
  have hm := JsonPrint.marshalRow_eq env _ h
  rw [quote_c, quote_empty] at hm
  simp only [jlLine, getRow_nil, exportLine, createRow_imported, hm]
  rfl

/-- The two routes differ on the same text and the same output template: the text route writes
    nothing and reports an import error, the importer→exporter route emits the line. -/
theorem routes_differ :
    exportLine env to (.str line) = .ok ([], some .unsupportedImport) ∧
    jlLine env [] to line = .ok (line ++ [0x0A], none) ∧
    exportLine env to (.str line) ≠ jlLine env [] to line := by
  refine ⟨text_rejected, jl_emitted, ?_⟩
  rw [text_rejected, jl_emitted]
  intro h
  cases h

/-- With the output template on the importer side too the line is rejected, as on the text
    route (the first import is the same import). -/
theorem jl_same_template_rejected : jlLine env to to line = .ok ([], some .unsupportedImport) := by
  simp only [jlLine, getRow_to]

end Swallowed


/-! ### 5. Non-vacuity: a concrete text through `Export` over the regenerated tables

  Template `c : numeric(int8)`, `h : hidden`; empty stdlib oracle.  The text
  `{"x":[{"q":1,"b":2}],"c":"12","h":5}` comes out as `{"c":12,"x":[{"q":1,"b":2}]}` and a
  newline (declared column first, converted through `int8`; hidden column gone; the undeclared
  member verbatim, inner order kept); `{"c":300}` is rejected (300 is no `int8`). -/
namespace Demo
open RowPrint JsonWrite

def env : Env := ⟨genTables, Ext.empty⟩

def tmpl : Tmpl := withCol (withCol [] [0x63] .numeric (.int .i8)) [0x68] .hidden .none

/-- `{"x":[{"q":1,"b":2}],"c":"12","h":5}` -/
def line : Bytes :=
  [0x7B, 0x22, 0x78, 0x22, 0x3A, 0x5B, 0x7B, 0x22, 0x71, 0x22, 0x3A, 0x31, 0x2C, 0x22, 0x62, 0x22,
   0x3A, 0x32, 0x7D, 0x5D, 0x2C, 0x22, 0x63, 0x22, 0x3A, 0x22, 0x31, 0x32, 0x22, 0x2C, 0x22, 0x68,
   0x22, 0x3A, 0x35, 0x7D]

/-- `{"c":12,"x":[{"q":1,"b":2}]}` -/
def out : Bytes :=
  [0x7B, 0x22, 0x63, 0x22, 0x3A, 0x31, 0x32, 0x2C, 0x22, 0x78, 0x22, 0x3A, 0x5B, 0x7B, 0x22, 0x71,
   0x22, 0x3A, 0x31, 0x2C, 0x22, 0x62, 0x22, 0x3A, 0x32, 0x7D, 0x5D, 0x7D]

theorem tmpl_eq :
    tmpl = [([0x63], .cell .nil .numeric (.int .i8)), ([0x68], .cell .nil .hidden .none)] := rfl

theorem tmpl_nodup : (OMap.keys tmpl).Nodup := by rw [tmpl_eq]; decide

open Json in
theorem unmarshal_line : Json.unmarshal line =
    (.cons [0x78]
        (.arr (.cons (.obj (.cons [0x71] (.num [0x31]) (.cons [0x62] (.num [0x32]) .nil))) .nil))
      (.cons [0x63] (.str [0x31, 0x32]) (.cons [0x68] (.num [0x35]) .nil)), true) := by
  simp [line, unmarshal, token, tokenCore, skipSpace, isSpace, asClose, parseObject, parseArray,
    more, asKey, asTok, strBody, pre, handleDelim, scanScalar, scanNumber, scanInt, scanFracExp,
    digits, Json.isDigit, valueAllowed, valueEnd, isEof]

theorem inputKeys_line : inputKeys line = [[0x78], [0x63], [0x68]] := by
  simp [Order.inputKeys, unmarshal_line, JVMembers.toList]

/-- the nested object of the undeclared member, as a row -/
def inner : Members :=
  .cons [0x71] (.cell (.num [0x31]) .auto .none) (.cons [0x62] (.cell (.num [0x32]) .auto .none) .nil)

/-- the row `CreateRow(text)` = `GetRow` delivers: `"12"` has become the `int8` 12 -/
def imported : List (Bytes × Val) :=
  [([0x63], .cell (.int .i8 12) .numeric (.int .i8)),
   ([0x68], .cell (.num [0x35]) .hidden .none),
   ([0x78], .cell (.arr (.cons (.val (.row inner)) .nil)) .auto .none)]

theorem getRow_line : getRow env tmpl line = .ok (imported, none) := by
  unfold getRow createRowEmpty
  have h0 : cloneRow env tmpl = .ok tmpl := rfl
  rw [h0]
  simp only [unmarshalInto, unmarshal_line]
  rfl

theorem createRow_line : createRow env tmpl (.str line) = .ok (imported, none) := by
  rw [createRow_str]; exact getRow_line

theorem formatInt_12 : IntText.formatInt 12 = [0x31, 0x32] := by
  simp [IntText.formatInt, IntText.natDigits, IntText.digitChar]

theorem export_c :
    exportVal env (.cell (.int .i8 12) .numeric (.int .i8)) = .ok (.num [0x31, 0x32]) := by
  have h : exportVal env (.cell (.int .i8 12) .numeric (.int .i8)) =
      .ok (.num (IntText.formatInt 12)) := rfl
  rw [h, formatInt_12]

theorem marshal_c :
    marshalVal env (.cell (.int .i8 12) .numeric (.int .i8)) = .ok [0x31, 0x32] := by
  rw [marshalVal.eq_def]
  simp only [export_c]
  rw [marshalExported.eq_def]
  rfl

theorem marshal_num (l : Bytes) (h : isValidNumber l = true) :
    marshalVal env (.cell (.num l) .auto .none) = .ok l := by
  rw [JsonPrint.marshalVal_auto, RoundTrip.marshalDyn_num env h]

theorem quote_c : quote [0x63] = [0x22, 0x63, 0x22] := by
  simp [JsonWrite.quote, JsonWrite.quoteBody, JsonWrite.htmlSafe]
theorem quote_x : quote [0x78] = [0x22, 0x78, 0x22] := by
  simp [JsonWrite.quote, JsonWrite.quoteBody, JsonWrite.htmlSafe]
theorem quote_q : quote [0x71] = [0x22, 0x71, 0x22] := by
  simp [JsonWrite.quote, JsonWrite.quoteBody, JsonWrite.htmlSafe]
theorem quote_b : quote [0x62] = [0x22, 0x62, 0x22] := by
  simp [JsonWrite.quote, JsonWrite.quoteBody, JsonWrite.htmlSafe]

theorem marshal_imported : marshalRow env (Members.ofList imported) = .ok out := by
  have hin : marshalMembers env inner =
      .ok [quote [0x71] ++ 0x3A :: [0x31], quote [0x62] ++ 0x3A :: [0x32]] :=
    JsonPrint.marshalMembers_cons env _ _ _ (by decide) (marshal_num _ (by decide))
      (JsonPrint.marshalMembers_cons env _ _ _ (by decide) (marshal_num _ (by decide))
        (JsonPrint.marshalMembers_nil env))
  have hx : marshalVal env (.cell (.arr (.cons (.val (.row inner)) .nil)) .auto .none) =
      .ok (0x5B :: (joinComma [0x7B :: (joinComma [quote [0x71] ++ 0x3A :: [0x31],
        quote [0x62] ++ 0x3A :: [0x32]] ++ [0x7D])] ++ [0x5D])) := by
    rw [JsonPrint.marshalVal_auto]
    exact JsonPrint.marshalDyn_arr env _ (JsonPrint.marshalList_cons env _ _
      (RoundTrip.marshalDyn_row env _ hin) (JsonPrint.marshalList_nil env))
  have h : marshalMembers env (Members.ofList imported) =
      .ok [quote [0x63] ++ 0x3A :: [0x31, 0x32],
        quote [0x78] ++ 0x3A :: (0x5B :: (joinComma [0x7B :: (joinComma [quote [0x71] ++ 0x3A :: [0x31],
          quote [0x62] ++ 0x3A :: [0x32]] ++ [0x7D])] ++ [0x5D]))] :=
    JsonPrint.marshalMembers_cons env _ _ _ (by decide) marshal_c
      (by
        show marshalMembers env (.cons [0x68] _ _) = _
        rw [JsonPrint.marshalMembers_hidden env _ _ _ rfl]
        exact JsonPrint.marshalMembers_cons env _ _ _ (by decide) hx
          (JsonPrint.marshalMembers_nil env))
  rw [JsonPrint.marshalRow_eq env _ h, quote_c, quote_x, quote_q, quote_b]
  rfl

/-- Target 5, first half: the whole text through `Export`, end to end. -/
theorem export_line : exportLine env tmpl (.str line) = .ok (out ++ [0x0A], none) := by
  rw [exportLine_text_ok_iff]
  exact ⟨imported, out, getRow_line, marshal_imported, rfl⟩

theorem export_line_bytes : exportLine env tmpl (.bytes line) = .ok (out ++ [0x0A], none) := by
  rw [exportLine_bytes_eq_str]; exact export_line

/-- `{"c":300}` -/
def line300 : Bytes := [0x7B, 0x22, 0x63, 0x22, 0x3A, 0x33, 0x30, 0x30, 0x7D]

open Json in
theorem unmarshal_line300 :
    Json.unmarshal line300 = (.cons [0x63] (.num [0x33, 0x30, 0x30]) .nil, true) := by
  simp [line300, unmarshal, token, tokenCore, skipSpace, isSpace, asClose, parseObject, more,
    asKey, asTok, strBody, pre, handleDelim, scanScalar, scanNumber, scanInt, scanFracExp, digits,
    Json.isDigit, valueAllowed, valueEnd, isEof]

theorem getRow_line300 : getRow env tmpl line300 =
    .ok ([([0x63], .cell .nil .numeric (.int .i8)), ([0x68], .cell .nil .hidden .none)],
      some .unsupportedImport) := by
  unfold getRow createRowEmpty
  have h0 : cloneRow env tmpl = .ok tmpl := rfl
  rw [h0]
  simp only [unmarshalInto, unmarshal_line300]
  rfl

/-- Target 5, second half: 300 is not an `int8`; the line is rejected, nothing is written. -/
theorem rejected_300 : exportLine env tmpl (.str line300) = .ok ([], some .unsupportedImport) := by
  rw [exportLine_str]
  simp only [textLine, getRow_line300]

theorem floatOK : FloatTextOK env.ext := by
  intro b sz s h; cases h

theorem sanitize_c : sanitize [0x63] = [0x63] := JsonPrint.sanitize_of_ascii _ (by decide)
theorem sanitize_h : sanitize [0x68] = [0x68] := JsonPrint.sanitize_of_ascii _ (by decide)
theorem sanitize_x : sanitize [0x78] = [0x78] := JsonPrint.sanitize_of_ascii _ (by decide)

theorem no_datetime : ¬ ∃ kv ∈ tmpl, Cells.format kv.2 = .datetime := by
  rw [tmpl_eq]
  rintro ⟨kv, hkv, hf⟩
  simp only [List.mem_cons, List.not_mem_nil, or_false] at hkv
  rcases hkv with rfl | rfl <;> cases hf

/-- `text_bytes_keys_first_appearance` applies (all its hypotheses hold) and its conclusion,
    computed: the member names the reader delivers for `out` are `c`, `x` — the declared visible
    column, then the undeclared name; the hidden column is absent. -/
example : ∃ t, Json.unmarshal out = (t, true) ∧ LineSpec.keysOf t = [[0x63], [0x78]] := by
  obtain ⟨body, t, hb, hu, hk⟩ :=
    text_bytes_keys_first_appearance env tmpl line _ export_line floatOK tmpl_nodup
  have : body = out := (List.append_cancel_right hb).symm
  subst this
  refine ⟨t, hu, ?_⟩
  have he : ([[0x78]] : List Bytes).eraseDups = [[0x78]] := Order.eraseDups_of_nodup (by decide)
  rw [hk]
  simp [tmpl_eq, inputKeys_line, OMap.keys, Order.formatAt, OMap.lookup, Cells.format,
    sanitize_c, sanitize_x, he]

/-- …and through the oracle's `expectedKeys`. -/
example : ∃ t, Json.unmarshal out = (t, true) ∧
    LineSpec.keysOf t =
      (LineSpec.expectedKeys (leafCols tmpl) [[0x78], [0x63], [0x68]]).map sanitize ∧
    LineSpec.expectedKeys (leafCols tmpl) [[0x78], [0x63], [0x68]] = [[0x63], [0x78]] := by
  obtain ⟨body, t, hb, hu, hk⟩ :=
    text_bytes_keys_expected env tmpl line _ export_line floatOK tmpl_nodup
  have : body = out := (List.append_cancel_right hb).symm
  subst this
  refine ⟨t, hu, ?_, by decide⟩
  rw [hk, unmarshal_line]
  rfl

/-- `text_bytes_in_class` applies: the oracle finds no class violation in what the reader
    delivers for the written text. -/
example : ∃ t, Json.unmarshal out = (t, true) ∧
    LineSpec.classViolation 8 (leafCols tmpl) t = none := by
  obtain ⟨body, t, hb, hu, hc⟩ :=
    text_bytes_in_class Ext.empty tmpl line _ 8 export_line floatOK tmpl_nodup
      (fun k hk => by
        rw [tmpl_eq] at hk
        simp only [OMap.keys, List.map_cons, List.map_nil, List.mem_cons, List.not_mem_nil,
          or_false] at hk
        rcases hk with rfl | rfl
        · exact sanitize_c
        · exact sanitize_h)
      (fun h => absurd h no_datetime)
  have : body = out := (List.append_cancel_right hb).symm
  subst this
  exact ⟨t, hu, hc⟩

/-- The tree of the printed row, computed; on it the oracle can be evaluated directly and agrees
    with the theorems, and it is not vacuous (a string under `c` is reported). -/
theorem unmarshal_out : Json.unmarshal out =
    (.cons [0x63] (.num [0x31, 0x32])
      (.cons [0x78]
        (.arr (.cons (.obj (.cons [0x71] (.num [0x31]) (.cons [0x62] (.num [0x32]) .nil))) .nil))
        .nil), true) := by
  open Json in
  simp [out, unmarshal, token, tokenCore, skipSpace, isSpace, asClose, parseObject, parseArray,
    more, asKey, asTok, strBody, pre, handleDelim, scanScalar, scanNumber, scanInt, scanFracExp,
    digits, Json.isDigit, valueAllowed, valueEnd, isEof]

example : LineSpec.classViolation 8 (leafCols tmpl)
    (.cons [0x63] (.num [0x31, 0x32]) (.cons [0x78] (.arr .nil) .nil)) = none := by decide

example : LineSpec.classViolation 8 (leafCols tmpl)
    (.cons [0x63] (.str [0x31, 0x32]) (.cons [0x78] (.arr .nil) .nil)) =
      some ("wrong-class-numeric", false) := by decide

/-- `text_line_valid_or_nothing` applies to both texts. -/
example : Grammar.IsObjectText out ∧ (0x0A : UInt8) ∉ out := by
  obtain ⟨body, hb, hobj, _, hnl, _⟩ :=
    (text_line_valid_or_nothing env floatOK tmpl line _).1 export_line
  have : body = out := (List.append_cancel_right hb).symm
  subst this
  exact ⟨hobj, hnl⟩

/-- `text_cell_typed` applies to the import of `"12"` into `numeric(int8)`: the raw value of the
    printed cell is an `int8`. -/
example : ∃ raw, Val.cell (.int .i8 12) .numeric (.int .i8) = .cell raw .numeric (.int .i8) ∧
    (raw = .nil ∨ typeOf raw = .int .i8 ∨
      ∃ ms, raw = .val (.row ms) ∧ (Format.numeric = .auto ∨ Format.numeric = .hidden)) :=
  text_cell_typed Ext.empty .numeric (.int .i8) (by decide) (.str [0x31, 0x32]) _ trivial rfl

/-- The date-time side condition is satisfiable: templates built with `With` hold nil prototype
    cells, the empty oracle names no zone. -/
example : DateTimeSideText Ext.empty (withCol tmpl [0x74] .datetime .none) :=
  ⟨fun _ _ h => (by cases h),
    LineLevel.rowOK_withCol (LineLevel.rowOK_withCol (LineLevel.rowOK_withCol LineLevel.rowOK_nil
      _ _ _) _ _ _) _ _ _⟩

end Demo

end Jl.ExportText
