/-
  Proofs.JlDescriptor — cmd/jl's column descriptors (property C19).

  `parseDescriptor` (cmd/jl/definition.go) applies the regular expression

      ^([^\(]+)(?:\(([^\)]+)\))?$

  with `FindStringSubmatch` and then looks the two groups up in `formatRegistry` and
  `typeRegistry`.  The model (Model.Jl) writes the expression as a function on bytes
  (`splitDescriptor`).  This file specifies the expression as a relation (`Matches`), proves
  that the match is unique, that the function IS the relation, what happens to every string
  (no failure; fallbacks `auto` / no raw type), that the names of the regenerated registries
  map to themselves, that case and white space are significant, and how an inline
  descriptor `in:out` is cut.

  Bytes and runes.  Go's regexp engine reads a string rune by rune (utf8.DecodeRuneInString):
  a well-formed sequence of 1–4 bytes is one rune, and a byte that does not start a
  well-formed sequence is ONE rune U+FFFD of width 1.  A class `[^\(]` matches every rune but
  '(' (negated classes match '\n' too; `$` without the `m` flag is the end of the text only),
  U+FFFD included.  The relation below is byte-wise.  The two readings coincide for this
  expression because its only literals and class exclusions are '(' and ')', both ASCII:
    * a byte < 0x80 is always a rune on its own — the decoder never takes it as the
      continuation of a multi-byte sequence (continuation bytes are 0x80..0xBF), and a
      truncated sequence before it is cut into width-1 U+FFFD runes;
    * hence a rune is '(' (resp. ')') iff it is the single byte 0x28 (0x29), the runes matched
      by `[^\(]+` are exactly the rune sequences whose bytes avoid 0x28, and the places where
      the byte-wise match cuts the string (before and after a 0x28 / 0x29 byte) are rune
      boundaries.
  This is proved below for every segmentation of the bytes into non-empty chunks in which a
  byte < 0x80 is a chunk on its own (`Seg`, `rune_match_iff_byte_match`), and Go's decoder —
  modelled with `Utf8.seqLen` — is shown to produce such a segmentation (`runes_seg`,
  `runes_flatten`).  What is not proved is that Go's regexp engine implements the rune-wise
  relation `MatchesR` (the engine is not modelled).
-/
import Model.Jl
import Gen.Registry
import Model.Basic
import Proofs.Row

namespace Jl.JlDescriptor
open Jl Jl.Value Jl.Template Jl.JlCmd

/-- '(' -/
abbrev LP : UInt8 := 0x28
/-- ')' -/
abbrev RP : UInt8 := 0x29

/-! ## 1. The regular expression as a relation; uniqueness of the match -/

/-- `Matches s name arg?`: `s` matches `^([^\(]+)(?:\(([^\)]+)\))?$` with group 1 = `name`
    and group 2 = `arg?` (`none`: the optional group did not take part). -/
inductive Matches : Bytes → Bytes → Option Bytes → Prop
  | plain (name : Bytes) : name ≠ [] → LP ∉ name → Matches name name none
  | typed (name arg : Bytes) : name ≠ [] → LP ∉ name → arg ≠ [] → RP ∉ arg →
      Matches (name ++ LP :: (arg ++ [RP])) name (some arg)

theorem takeWhile_of_not_mem (c : UInt8) (l : Bytes) (h : c ∉ l) :
    l.takeWhile (· != c) = l := by
  induction l with
  | nil => rfl
  | cons x l ih =>
    have hx : x ≠ c := fun e => h (by simp [e])
    simp [hx, ih (fun m => h (by simp [m]))]

theorem dropWhile_of_not_mem (c : UInt8) (l : Bytes) (h : c ∉ l) :
    l.dropWhile (· != c) = [] := by
  induction l with
  | nil => rfl
  | cons x l ih =>
    have hx : x ≠ c := fun e => h (by simp [e])
    simp [hx, ih (fun m => h (by simp [m]))]

theorem takeWhile_append_of_not_mem (c : UInt8) (l r : Bytes) (h : c ∉ l) :
    (l ++ r).takeWhile (· != c) = l ++ r.takeWhile (· != c) := by
  induction l with
  | nil => rfl
  | cons x l ih =>
    have hx : x ≠ c := fun e => h (by simp [e])
    simp [hx, ih (fun m => h (by simp [m]))]

theorem dropWhile_append_of_not_mem (c : UInt8) (l r : Bytes) (h : c ∉ l) :
    (l ++ r).dropWhile (· != c) = r.dropWhile (· != c) := by
  induction l with
  | nil => rfl
  | cons x l ih =>
    have hx : x ≠ c := fun e => h (by simp [e])
    simp [hx, ih (fun m => h (by simp [m]))]

theorem takeWhile_sep (c : UInt8) (l r : Bytes) (h : c ∉ l) :
    (l ++ c :: r).takeWhile (· != c) = l := by
  rw [takeWhile_append_of_not_mem c l _ h]; simp

theorem dropWhile_sep (c : UInt8) (l r : Bytes) (h : c ∉ l) :
    (l ++ c :: r).dropWhile (· != c) = c :: r := by
  rw [dropWhile_append_of_not_mem c l _ h]; simp

theorem not_mem_takeWhile (c : UInt8) (s : Bytes) : c ∉ s.takeWhile (· != c) := by
  induction s with
  | nil => simp
  | cons x s ih =>
    by_cases hx : x = c
    · simp [hx]
    · have hc : c ≠ x := fun e => hx e.symm
      simp [hx, hc, ih]

/-- What is left after the longest `c`-free prefix is empty or starts with `c`. -/
theorem dropWhile_shape (c : UInt8) (s : Bytes) :
    s.dropWhile (· != c) = [] ∨ ∃ r, s.dropWhile (· != c) = c :: r := by
  induction s with
  | nil => simp
  | cons x s ih =>
    by_cases hx : x = c
    · right; exact ⟨s, by simp [hx]⟩
    · simpa [hx] using ih

theorem span_append (c : UInt8) (s : Bytes) :
    s.takeWhile (· != c) ++ s.dropWhile (· != c) = s :=
  List.takeWhile_append_dropWhile

/-- Group 1 of a match is the longest '('-free prefix. -/
theorem Matches.name_eq {s n : Bytes} {a : Option Bytes} (h : Matches s n a) :
    n = s.takeWhile (· != LP) := by
  cases h with
  | plain _ _ hn => exact (takeWhile_of_not_mem LP _ hn).symm
  | typed _ arg _ hn _ _ => exact (takeWhile_sep LP _ _ hn).symm

/-- What follows group 1 determines group 2. -/
theorem Matches.rest_eq {s n : Bytes} {a : Option Bytes} (h : Matches s n a) :
    s.dropWhile (· != LP) = match a with | none => [] | some arg => LP :: (arg ++ [RP]) := by
  cases h with
  | plain _ _ hn => exact dropWhile_of_not_mem LP _ hn
  | typed _ arg _ hn _ _ => exact dropWhile_sep LP _ _ hn

/-- Target 1: the match is unique (the expression is anchored at both ends and each class
    excludes the delimiter that follows it, so leftmost-first has nothing to choose). -/
theorem matches_unique {s n n' : Bytes} {a a' : Option Bytes}
    (h : Matches s n a) (h' : Matches s n' a') : n = n' ∧ a = a' := by
  refine ⟨h.name_eq.trans h'.name_eq.symm, ?_⟩
  have e := h.rest_eq.symm.trans h'.rest_eq
  cases a <;> cases a' <;> simp at e
  · rfl
  · simpa using e

/-! ## 2. The model's function is the relation -/

/-- `FindStringSubmatch` reports a group that did not take part as "" — so does the model. -/
def group2 : Option Bytes → Bytes
  | none => []
  | some a => a

/-- Reading the model's second component back: "" is "the group did not take part" (sound
    because group 2, when it takes part, is never empty). -/
def argOf (g : Bytes) : Option Bytes := if g = [] then none else some g

theorem split_of_matches {s n : Bytes} {a : Option Bytes} (h : Matches s n a) :
    splitDescriptor s = some (n, group2 a) := by
  cases h with
  | plain _ hne hn =>
    unfold splitDescriptor
    simp [takeWhile_of_not_mem 0x28 _ hn, dropWhile_of_not_mem 0x28 _ hn, hne, group2]
  | typed _ arg hne hn hae ha =>
    unfold splitDescriptor
    simp [takeWhile_sep 0x28 _ _ hn, dropWhile_sep 0x28 _ _ hn, hne, group2, hae, ha]

theorem matches_of_split {s n g : Bytes} (h : splitDescriptor s = some (n, g)) :
    Matches s n (argOf g) := by
  have happ := span_append 0x28 s
  have hnm := not_mem_takeWhile 0x28 s
  have hsh := dropWhile_shape 0x28 s
  unfold splitDescriptor at h
  generalize s.takeWhile (· != 0x28) = g1 at *
  generalize s.dropWhile (· != 0x28) = rest at *
  subst happ
  simp only [] at h
  cases g1 with
  | nil => simp at h
  | cons x g1 =>
    rcases hsh with rfl | ⟨r, rfl⟩
    · simp at h
      obtain ⟨rfl, rfl⟩ := h
      simpa [argOf] using Matches.plain (x :: g1) (by simp) hnm
    · obtain ⟨rr, rfl⟩ : ∃ rr, r = rr.reverse := ⟨r.reverse, by simp⟩
      cases rr with
      | nil => simp at h
      | cons c rr =>
        simp at h
        split at h
        · rename_i revBody heq
          obtain ⟨rfl, rfl⟩ : c = 41 ∧ rr = revBody := by simpa using heq
          split at h
          · cases h
          · rename_i hcond
            have hb : rr ≠ [] ∧ (41 : UInt8) ∉ rr := by
              constructor
              · exact fun e => hcond (Or.inl e)
              · exact fun e => hcond (Or.inr e)
            simp only [Option.some.injEq, Prod.mk.injEq] at h
            obtain ⟨rfl, rfl⟩ := h
            have hne : rr.reverse ≠ [] := by simpa using hb.1
            have := Matches.typed (x :: g1) rr.reverse (by simp) hnm hne (by simpa using hb.2)
            simpa [argOf, hb.1] using this
        · cases h

/-- Target 2, first half: the model's splitting function returns `(name, arg?)` exactly when
    `Matches s name arg?`.  The function reports an absent group 2 as "" (as
    `FindStringSubmatch` does); `arg? ≠ some ""` says that this encoding loses nothing. -/
theorem parseDescriptor_iff (s name : Bytes) (arg : Option Bytes) :
    Matches s name arg ↔ (splitDescriptor s = some (name, group2 arg) ∧ arg ≠ some []) := by
  constructor
  · intro h
    refine ⟨split_of_matches h, ?_⟩
    cases h <;> simp [*]
  · rintro ⟨h, hne⟩
    have hm := matches_of_split h
    cases arg with
    | none => simpa [group2, argOf] using hm
    | some a =>
      have ha : a ≠ [] := by simpa using hne
      simpa [group2, argOf, ha] using hm

/-- The same, read from the function's side. -/
theorem splitDescriptor_eq_some_iff (s n g : Bytes) :
    splitDescriptor s = some (n, g) ↔ Matches s n (argOf g) := by
  constructor
  · exact matches_of_split
  · intro h
    have := split_of_matches h
    by_cases hg : g = [] <;> simpa [argOf, group2, hg] using this

/-- Target 2, second half: "no match" exactly when no `(name, arg?)` matches. -/
theorem parseDescriptor_none_iff (s : Bytes) :
    splitDescriptor s = none ↔ ¬ ∃ n a, Matches s n a := by
  constructor
  · rintro h ⟨n, a, hm⟩
    rw [split_of_matches hm] at h
    cases h
  · intro h
    cases hs : splitDescriptor s with
    | none => rfl
    | some p =>
      obtain ⟨n, g⟩ := p
      exact absurd ⟨n, _, matches_of_split hs⟩ h

theorem Matches.name_ok {s n : Bytes} {a : Option Bytes} (h : Matches s n a) : n ≠ [] ∧ LP ∉ n := by
  cases h <;> exact ⟨by assumption, by assumption⟩

theorem Matches.arg_ok {s n a : Bytes} (h : Matches s n (some a)) : a ≠ [] ∧ RP ∉ a := by
  cases h; exact ⟨by assumption, by assumption⟩

/-! ### The shapes that do not match -/

/-- The empty string. -/
theorem nomatch_empty : splitDescriptor [] = none := by decide

/-- A leading '(' (group 1 needs at least one byte). -/
theorem nomatch_leading_paren (r : Bytes) : splitDescriptor (LP :: r) = none := by
  simp [splitDescriptor]

/-- An opening parenthesis, and the text does not end with ')': unclosed parenthesis, or
    text after the closing one. -/
theorem nomatch_not_closed (s : Bytes) (ho : LP ∈ s) (hc : s.getLast? ≠ some RP) :
    splitDescriptor s = none := by
  rw [parseDescriptor_none_iff]
  rintro ⟨n, a, hm⟩
  cases hm with
  | plain _ _ hn => exact hn ho
  | typed _ arg _ _ _ _ => exact hc (by simp [List.getLast?_append, List.getLast?_cons])

/-- Between the first '(' and a final ')' there is nothing, or a ')': empty parentheses,
    nested parentheses `f((t))`, a second group `f(t)(u)`, text after the first closing
    parenthesis that itself ends with ')'. -/
theorem nomatch_bad_arg (n a : Bytes) (hn : LP ∉ n) (ha : a = [] ∨ RP ∈ a) :
    splitDescriptor (n ++ LP :: (a ++ [RP])) = none := by
  rw [parseDescriptor_none_iff]
  rintro ⟨n', a', hm⟩
  have hr := hm.rest_eq
  rw [dropWhile_sep 0x28 n _ hn] at hr
  cases a' with
  | none => simp at hr
  | some arg =>
    have he : a = arg := by simpa using hr
    subst he
    rcases ha with h | h
    · exact hm.arg_ok.1 h
    · exact hm.arg_ok.2 h

theorem nomatch_empty_parens (n : Bytes) (hn : LP ∉ n) : splitDescriptor (n ++ [LP, RP]) = none := by
  simpa using nomatch_bad_arg n [] hn (Or.inl rfl)

/-- Kernel-checked examples of each shape … -/
example : splitDescriptor [] = none := by decide
example : splitDescriptor [0x28, 0x69, 0x6E, 0x74, 0x29] = none := by decide
example : splitDescriptor [0x73, 0x74, 0x72, 0x69, 0x6E, 0x67, 0x28, 0x69, 0x6E, 0x74, 0x29, 0x78] = none := by decide
example : splitDescriptor [0x73, 0x74, 0x72, 0x69, 0x6E, 0x67, 0x28, 0x28, 0x69, 0x6E, 0x74, 0x29, 0x29] = none := by decide
example : splitDescriptor [0x73, 0x74, 0x72, 0x69, 0x6E, 0x67, 0x28, 0x69, 0x6E, 0x74] = none := by decide
example : splitDescriptor [0x73, 0x74, 0x72, 0x69, 0x6E, 0x67, 0x28, 0x69, 0x6E, 0x74, 0x29, 0x28, 0x69, 0x6E, 0x74, 0x29] = none := by decide
example : splitDescriptor [0x73, 0x74, 0x72, 0x69, 0x6E, 0x67, 0x28, 0x29] = none := by decide
example : splitDescriptor [0x73, 0x74, 0x72, 0x69, 0x6E, 0x67, 0x28, 0x69, 0x6E, 0x74, 0x29, 0x29] = none := by decide
/-- … and of matches that may surprise: ')' is allowed in group 1, '(' in group 2, and so
    are spaces, ':' and line feeds (negated classes match '\n'; `$` is the end of the text). -/
example : splitDescriptor [0x73, 0x74, 0x72, 0x69, 0x6E, 0x67, 0x29] = some ([0x73, 0x74, 0x72, 0x69, 0x6E, 0x67, 0x29], []) := by decide
example : splitDescriptor [0x73, 0x74, 0x72, 0x69, 0x6E, 0x67, 0x28, 0x69, 0x6E, 0x28, 0x74, 0x29] = some ([0x73, 0x74, 0x72, 0x69, 0x6E, 0x67], [0x69, 0x6E, 0x28, 0x74]) := by decide
example : splitDescriptor [0x73, 0x74, 0x72, 0x69, 0x6E, 0x67, 0x20, 0x28, 0x69, 0x6E, 0x74, 0x29] = some ([0x73, 0x74, 0x72, 0x69, 0x6E, 0x67, 0x20], [0x69, 0x6E, 0x74]) := by decide
example : splitDescriptor [0x73, 0x74, 0x72, 0x69, 0x6E, 0x67, 0x0A] = some ([0x73, 0x74, 0x72, 0x69, 0x6E, 0x67, 0x0A], []) := by decide
example : splitDescriptor [0x73, 0x74, 0x72, 0x69, 0x6E, 0x67, 0x28, 0x69, 0x6E, 0x74, 0x29] = some ([0x73, 0x74, 0x72, 0x69, 0x6E, 0x67], [0x69, 0x6E, 0x74]) := by decide

/-! ## 3. Totality and fallbacks over the regenerated registries -/

/-- Registry lookups are exact: a hit is an entry of the table with that very key. -/
theorem lookupB_some_mem {α : Type} (tbl : List (Bytes × α)) (k : Bytes) (v : α)
    (h : lookupB tbl k = some v) : (k, v) ∈ tbl := by
  unfold lookupB at h
  simp only [Option.map_eq_some_iff] at h
  obtain ⟨e, he, rfl⟩ := h
  have hk := List.find?_some he
  have hm := List.mem_of_find?_eq_some he
  have : e.1 = k := by simpa using hk
  subst this
  exact hm

theorem lookupB_none {α : Type} (tbl : List (Bytes × α)) (k : Bytes)
    (h : ∀ e ∈ tbl, e.1 ≠ k) : lookupB tbl k = none := by
  unfold lookupB
  simp only [Option.map_eq_none_iff, List.find?_eq_none]
  intro e he
  simpa using h e he

/-- The format a group 1 stands for, and the raw type a group 2 stands for. -/
def formatOf (n : Bytes) : Format := (lookupB Gen.formatRegistry n).getD .auto
def typeOf : Option Bytes → Ty
  | none => .none
  | some t => (lookupB Gen.typeRegistry t).getD .none

theorem lookup_type_empty : lookupB Gen.typeRegistry [] = none := by decide

/-- No match: the descriptor means (auto, no raw type) — silently, `parseDescriptor` has no
    error result (neither in Go nor in the model). -/
theorem parseDescriptor_of_nomatch {s : Bytes} (h : ¬ ∃ n a, Matches s n a) :
    parseDescriptor s = (.auto, .none) := by
  simp [parseDescriptor, (parseDescriptor_none_iff s).2 h]

/-- A match: both groups go through their registry, with the fallbacks. -/
theorem parseDescriptor_of_matches {s n : Bytes} {a : Option Bytes} (h : Matches s n a) :
    parseDescriptor s = (formatOf n, typeOf a) := by
  cases a with
  | none => simp [parseDescriptor, split_of_matches h, formatOf, typeOf, group2, lookup_type_empty]
  | some t => simp [parseDescriptor, split_of_matches h, formatOf, typeOf, group2]

/-- Target 3, totality: every string has a meaning, which is one of the two above.
    (`parseDescriptor : Bytes → Format × Ty` is a total function without error outcome; this
    spells out which value it takes.) -/
theorem parseDescriptor_total (s : Bytes) :
    (¬ (∃ n a, Matches s n a) ∧ parseDescriptor s = (.auto, .none)) ∨
    (∃ n a, Matches s n a ∧ parseDescriptor s = (formatOf n, typeOf a)) := by
  by_cases h : ∃ n a, Matches s n a
  · obtain ⟨n, a, hm⟩ := h
    exact Or.inr ⟨n, a, hm, parseDescriptor_of_matches hm⟩
  · exact Or.inl ⟨h, parseDescriptor_of_nomatch h⟩

/-- An unknown format name falls back to auto. -/
theorem unknown_format_auto {s n : Bytes} {a : Option Bytes} (h : Matches s n a)
    (hu : ∀ e ∈ Gen.formatRegistry, e.1 ≠ n) : (parseDescriptor s).1 = .auto := by
  simp [parseDescriptor_of_matches h, formatOf, lookupB_none _ _ hu]

/-- An unknown type name falls back to "no raw type". -/
theorem unknown_type_none {s n t : Bytes} (h : Matches s n (some t))
    (hu : ∀ e ∈ Gen.typeRegistry, e.1 ≠ t) : (parseDescriptor s).2 = .none := by
  simp [parseDescriptor_of_matches h, typeOf, lookupB_none _ _ hu]

/-- No type given: no raw type. -/
theorem absent_type_none {s n : Bytes} (h : Matches s n none) : (parseDescriptor s).2 = .none := by
  simp [parseDescriptor_of_matches h, typeOf]

/-- The two fallbacks are independent: an unknown format keeps a known type and conversely. -/
example : parseDescriptor [0x6D, 0x6F, 0x6E, 0x65, 0x79, 0x28, 0x69, 0x6E, 0x74, 0x29] = (.auto, .int .int) := by decide
example : parseDescriptor [0x73, 0x74, 0x72, 0x69, 0x6E, 0x67, 0x28, 0x6D, 0x6F, 0x6E, 0x65, 0x79, 0x29] = (.string, .none) := by decide
example : parseDescriptor [0x6D, 0x6F, 0x6E, 0x65, 0x79] = (.auto, .none) := by decide

/-- Facts about the regenerated tables (decided by the kernel on every regeneration): names are
    non-empty and free of the delimiter that would end their group; a name is found under
    itself (no duplicate key shadows another entry); no entry means "no raw type". -/
theorem format_names_ok : ∀ e ∈ Gen.formatRegistry, e.1 ≠ [] ∧ LP ∉ e.1 := by decide
theorem type_names_ok : ∀ e ∈ Gen.typeRegistry, e.1 ≠ [] ∧ RP ∉ e.1 := by decide
theorem format_lookup_self : ∀ e ∈ Gen.formatRegistry, lookupB Gen.formatRegistry e.1 = some e.2 := by
  decide
theorem type_lookup_self : ∀ e ∈ Gen.typeRegistry, lookupB Gen.typeRegistry e.1 = some e.2 := by
  decide
theorem type_values_not_none : ∀ e ∈ Gen.typeRegistry, e.2 ≠ Ty.none := by decide

/-- Target 3, known names: a format name alone. -/
theorem known_format (e : Bytes × Format) (he : e ∈ Gen.formatRegistry) :
    parseDescriptor e.1 = (e.2, .none) := by
  have hok := format_names_ok e he
  rw [parseDescriptor_of_matches (Matches.plain e.1 hok.1 hok.2)]
  simp [formatOf, typeOf, format_lookup_self e he]

/-- Target 3, known names: `format(type)`. -/
theorem known_format_type (e : Bytes × Format) (he : e ∈ Gen.formatRegistry)
    (t : Bytes × Ty) (ht : t ∈ Gen.typeRegistry) :
    parseDescriptor (e.1 ++ LP :: (t.1 ++ [RP])) = (e.2, t.2) := by
  have hok := format_names_ok e he
  have tok := type_names_ok t ht
  rw [parseDescriptor_of_matches (Matches.typed e.1 t.1 hok.1 hok.2 tok.1 tok.2)]
  simp [formatOf, typeOf, format_lookup_self e he, type_lookup_self t ht]

/-- Conversely a descriptor means something else than (auto, none) only through the tables:
    a format other than auto is the value of group 1 in the format registry; a raw type is
    the value of group 2 in the type registry. -/
theorem format_from_registry {s : Bytes} {f : Format} (h : (parseDescriptor s).1 = f) (hf : f ≠ .auto) :
    ∃ n a, Matches s n a ∧ (n, f) ∈ Gen.formatRegistry := by
  rcases parseDescriptor_total s with ⟨_, he⟩ | ⟨n, a, hm, he⟩
  · rw [he] at h; exact absurd h.symm hf
  · refine ⟨n, a, hm, ?_⟩
    rw [he] at h
    simp only [formatOf] at h
    cases hl : lookupB Gen.formatRegistry n with
    | none => rw [hl] at h; exact absurd h.symm hf
    | some v =>
      rw [hl] at h
      have : v = f := by simpa using h
      subst this
      exact lookupB_some_mem _ _ _ hl

theorem type_from_registry {s : Bytes} {ty : Ty} (h : (parseDescriptor s).2 = ty) (ht : ty ≠ .none) :
    ∃ n t, Matches s n (some t) ∧ (t, ty) ∈ Gen.typeRegistry := by
  rcases parseDescriptor_total s with ⟨_, he⟩ | ⟨n, a, hm, he⟩
  · rw [he] at h; exact absurd h.symm ht
  · rw [he] at h
    cases a with
    | none => exact absurd h.symm ht
    | some t =>
      refine ⟨n, t, hm, ?_⟩
      simp only [typeOf] at h
      cases hl : lookupB Gen.typeRegistry t with
      | none => rw [hl] at h; exact absurd h.symm ht
      | some v =>
        rw [hl] at h
        have : v = ty := by simpa using h
        subst this
        exact lookupB_some_mem _ _ _ hl

/-! ## 4. Case and white space are significant -/

/-- `String`, `string␠`, `␠string` are not names of the format registry; `Int`, `␠int` are not
    names of the type registry; in `string (int)` group 1 is `string␠`. -/
example : parseDescriptor [0x73, 0x74, 0x72, 0x69, 0x6E, 0x67] = (.string, .none) := by decide
example : parseDescriptor [0x53, 0x74, 0x72, 0x69, 0x6E, 0x67] = (.auto, .none) := by decide
example : parseDescriptor [0x73, 0x74, 0x72, 0x69, 0x6E, 0x67, 0x20] = (.auto, .none) := by decide
example : parseDescriptor [0x20, 0x73, 0x74, 0x72, 0x69, 0x6E, 0x67] = (.auto, .none) := by decide
example : parseDescriptor [0x73, 0x74, 0x72, 0x69, 0x6E, 0x67, 0x0A] = (.auto, .none) := by decide
example : parseDescriptor [0x73, 0x74, 0x72, 0x69, 0x6E, 0x67, 0x28, 0x69, 0x6E, 0x74, 0x29] = (.string, .int .int) := by decide
example : parseDescriptor [0x73, 0x74, 0x72, 0x69, 0x6E, 0x67, 0x20, 0x28, 0x69, 0x6E, 0x74, 0x29] = (.auto, .int .int) := by decide
example : parseDescriptor [0x73, 0x74, 0x72, 0x69, 0x6E, 0x67, 0x28, 0x49, 0x6E, 0x74, 0x29] = (.string, .none) := by decide
example : parseDescriptor [0x73, 0x74, 0x72, 0x69, 0x6E, 0x67, 0x28, 0x20, 0x69, 0x6E, 0x74, 0x29] = (.string, .none) := by decide
example : parseDescriptor [0x53, 0x54, 0x52, 0x49, 0x4E, 0x47, 0x28, 0x49, 0x4E, 0x54, 0x29] = (.auto, .none) := by decide

/-- What a "forgiving" loader would do. -/
def asciiLower (s : Bytes) : Bytes := s.map fun b => if 0x41 ≤ b ∧ b ≤ 0x5A then b + 0x20 else b
def trimSpaces (s : Bytes) : Bytes :=
  ((s.dropWhile (· == 0x20)).reverse.dropWhile (· == 0x20)).reverse

/-- A loader that lower-cases changes what a definition means … -/
theorem lowercasing_changes_meaning : ∃ s, parseDescriptor (asciiLower s) ≠ parseDescriptor s :=
  ⟨[0x53, 0x74, 0x72, 0x69, 0x6E, 0x67], by decide⟩

/-- … and so does a loader that trims. -/
theorem trimming_changes_meaning : ∃ s, parseDescriptor (trimSpaces s) ≠ parseDescriptor s :=
  ⟨[0x20, 0x73, 0x74, 0x72, 0x69, 0x6E, 0x67, 0x20], by decide⟩

/-- No registered format name has an upper-case letter or a space: every such spelling is
    "unknown", hence auto. -/
theorem format_names_lower_nospace :
    ∀ e ∈ Gen.formatRegistry, ∀ b ∈ e.1, b ≠ 0x20 ∧ ¬ (0x41 ≤ b ∧ b ≤ 0x5A) := by decide

theorem format_with_space_or_upper_is_auto {s n : Bytes} {a : Option Bytes} (h : Matches s n a)
    (b : UInt8) (hb : b ∈ n) (hbad : b = 0x20 ∨ (0x41 ≤ b ∧ b ≤ 0x5A)) :
    (parseDescriptor s).1 = .auto := by
  apply unknown_format_auto h
  intro e he hen
  subst hen
  have := format_names_lower_nospace e he b hb
  rcases hbad with h1 | h2
  · exact this.1 h1
  · exact this.2 h2

/-! ## 5. `in:out` -/

/-- The first ':' splits (`strings.SplitN(s, ":", 2)`): what follows may contain more. -/
theorem splitColon_first (a b : Bytes) (h : (0x3A : UInt8) ∉ a) :
    splitColon (a ++ 0x3A :: b) = (a, some b) := by
  simp [splitColon, takeWhile_sep 0x3A a b h, dropWhile_sep 0x3A a b h]

/-- Without ':' there is one part only. -/
theorem splitColon_none (s : Bytes) (h : (0x3A : UInt8) ∉ s) : splitColon s = (s, none) := by
  simp [splitColon, takeWhile_of_not_mem 0x3A s h, dropWhile_of_not_mem 0x3A s h]

theorem splitColon_eq_some_iff (s a b : Bytes) :
    splitColon s = (a, some b) ↔ (s = a ++ 0x3A :: b ∧ (0x3A : UInt8) ∉ a) := by
  constructor
  · intro h
    have happ := span_append 0x3A s
    have hnm := not_mem_takeWhile 0x3A s
    have hsh := dropWhile_shape 0x3A s
    unfold splitColon at h
    generalize s.takeWhile (· != 0x3A) = p at *
    generalize s.dropWhile (· != 0x3A) = r at *
    subst happ
    rcases hsh with rfl | ⟨r', rfl⟩
    · simp at h
    · simp at h
      obtain ⟨rfl, rfl⟩ := h
      exact ⟨rfl, hnm⟩
  · rintro ⟨rfl, h⟩
    exact splitColon_first a b h

theorem splitColon_eq_none_iff (s a : Bytes) :
    splitColon s = (a, none) ↔ (s = a ∧ (0x3A : UInt8) ∉ s) := by
  constructor
  · intro h
    have happ := span_append 0x3A s
    have hnm := not_mem_takeWhile 0x3A s
    have hsh := dropWhile_shape 0x3A s
    unfold splitColon at h
    generalize s.takeWhile (· != 0x3A) = p at *
    generalize s.dropWhile (· != 0x3A) = r at *
    subst happ
    rcases hsh with rfl | ⟨r', rfl⟩
    · simp at h
      subst h
      exact ⟨by simp, by simpa using hnm⟩
    · simp at h
  · rintro ⟨rfl, h⟩
    exact splitColon_none s h

/-- `a:b:c` is (a, b:c). -/
example : splitColon [0x61, 0x3A, 0x62, 0x3A, 0x63] = ([0x61], some [0x62, 0x3A, 0x63]) := by decide
example : splitColon [0x61] = ([0x61], none) := by decide
example : splitColon [0x61, 0x3A] = ([0x61], some []) := by decide
example : splitColon [0x3A, 0x61] = ([], some [0x61]) := by decide
example : splitColon [] = ([], none) := by decide

/-- The pair of meanings (input, output) of an inline leaf `text`, as `createTemplateFromRow`
    computes it: `parts[0]` for the input; `parts[1]` for the output if there is one, otherwise
    the input's meaning again. -/
def inlinePair (text : Bytes) : (Format × Ty) × (Format × Ty) :=
  let ab := splitColon text
  (parseDescriptor ab.1, match ab.2 with
    | some b => parseDescriptor b
    | none => parseDescriptor ab.1)

/-- This is what the model's inline route does with a leaf. -/
theorem inlineCol_leaf (env : Env) (sub : List ColDef → Outcome (Tmpl × Tmpl))
    (ti to : Tmpl) (name i o : Bytes) :
    inlineCol env sub (.ok (ti, to)) (.leaf name i o) =
      .ok (withCol ti name (inlinePair (inlineText i o)).1.1 (inlinePair (inlineText i o)).1.2,
           withCol to name (inlinePair (inlineText i o)).2.1 (inlinePair (inlineText i o)).2.2) := by
  simp only [inlineCol, inlinePair]
  cases (splitColon (inlineText i o)).2 <;> rfl

/-- A descriptor without ':' is input = output. -/
theorem inlinePair_no_colon (t : Bytes) (h : (0x3A : UInt8) ∉ t) :
    inlinePair t = (parseDescriptor t, parseDescriptor t) := by
  simp [inlinePair, splitColon_none t h]

/-- With ':' the first one splits. -/
theorem inlinePair_colon (a b : Bytes) (h : (0x3A : UInt8) ∉ a) :
    inlinePair (a ++ 0x3A :: b) = (parseDescriptor a, parseDescriptor b) := by
  simp [inlinePair, splitColon_first a b h]

/-- Hence `"col":"d"` and `"col":"d:d"` declare the same column. -/
theorem inline_short_form (d : Bytes) (h : (0x3A : UInt8) ∉ d) :
    inlinePair d = inlinePair (inlineText d d) := by
  rw [inlinePair_no_colon d h]
  exact (inlinePair_colon d d h).symm

/-- In the model's `ColDef` an inline leaf is always written `in:out` (`inlineText`), so the
    one-part branch of `inlineCol` is never taken through `ColDef`: the short form is covered
    by `inline_short_form` only. -/
theorem inlineText_two_parts (i o : Bytes) : (splitColon (inlineText i o)).2 ≠ none := by
  have hsh := dropWhile_shape 0x3A (inlineText i o)
  have hmem : (0x3A : UInt8) ∈ inlineText i o := by simp [inlineText]
  unfold splitColon
  rcases hsh with h | ⟨r, h⟩
  · exfalso
    have happ := span_append 0x3A (inlineText i o)
    rw [h, List.append_nil] at happ
    exact not_mem_takeWhile 0x3A (inlineText i o) (by rw [happ]; exact hmem)
  · simp [h]

/-- Outside C19's common domain (a ':' inside the YAML input descriptor) the inline text cuts
    elsewhere: `input: "a:b"`, `output: "o"` written inline is (a, b:o). -/
theorem inlineText_colon_in_input (a b o : Bytes) (h : (0x3A : UInt8) ∉ a) :
    splitColon (inlineText (a ++ 0x3A :: b) o) = (a, some (b ++ 0x3A :: o)) := by
  have : inlineText (a ++ 0x3A :: b) o = a ++ 0x3A :: (b ++ 0x3A :: o) := by simp [inlineText]
  rw [this]
  exact splitColon_first a _ h

/-- … and the two routes then disagree: YAML `input: "string:numeric"`, `output: "boolean"` is
    (auto, boolean); the inline text `string:numeric:boolean` is (string, auto). -/
example : (parseDescriptor [0x73, 0x74, 0x72, 0x69, 0x6E, 0x67, 0x3A, 0x6E, 0x75, 0x6D, 0x65, 0x72, 0x69, 0x63], parseDescriptor [0x62, 0x6F, 0x6F, 0x6C, 0x65, 0x61, 0x6E]) = ((.auto, .none), (.boolean, .none)) := by
  decide
example : inlinePair (inlineText [0x73, 0x74, 0x72, 0x69, 0x6E, 0x67, 0x3A, 0x6E, 0x75, 0x6D, 0x65, 0x72, 0x69, 0x63] [0x62, 0x6F, 0x6F, 0x6C, 0x65, 0x61, 0x6E]) = ((.string, .none), (.auto, .none)) := by
  decide

/-! ## 6. Bytes and runes (see the header) -/

/-- A segmentation of a byte string into runes the way Go's decoder cuts it: non-empty
    chunks, and a byte < 0x80 is always a chunk on its own. -/
def Seg (cs : List Bytes) : Prop := ∀ c ∈ cs, c ≠ [] ∧ ∀ b ∈ c, b < 0x80 → c = [b]

/-- The expression read rune by rune: the class `[^\(]` matches any chunk but `[0x28]`, the
    literal `\(` matches the chunk `[0x28]` (same for ')'). -/
inductive MatchesR : List Bytes → List Bytes → Option (List Bytes) → Prop
  | plain (n : List Bytes) : n ≠ [] → [LP] ∉ n → MatchesR n n none
  | typed (n a : List Bytes) : n ≠ [] → [LP] ∉ n → a ≠ [] → [RP] ∉ a →
      MatchesR (n ++ [LP] :: (a ++ [[RP]])) n (some a)

theorem Seg.append {a b : List Bytes} (h : Seg (a ++ b)) : Seg a ∧ Seg b :=
  ⟨fun c hc => h c (by simp [hc]), fun c hc => h c (by simp [hc])⟩

theorem Seg.tail {c : Bytes} {cs : List Bytes} (h : Seg (c :: cs)) : Seg cs :=
  fun d hd => h d (by simp [hd])

theorem Seg.flatten_eq_nil {cs : List Bytes} (h : Seg cs) (he : cs.flatten = []) : cs = [] := by
  cases cs with
  | nil => rfl
  | cons c cs =>
    have := (h c (by simp)).1
    simp at he
    exact absurd he.1 this

theorem Seg.mem_flatten {cs : List Bytes} (h : Seg cs) {x : UInt8} (hx : x < 0x80) :
    x ∈ cs.flatten ↔ [x] ∈ cs := by
  constructor
  · intro hm
    obtain ⟨c, hc, hxc⟩ := List.mem_flatten.1 hm
    have := (h c hc).2 x hxc hx
    exact this ▸ hc
  · intro hm
    exact List.mem_flatten.2 ⟨[x], hm, by simp⟩

/-- An ASCII byte of the flattened string is a chunk, and the string splits around it on
    chunk boundaries. -/
theorem Seg.split_at {x : UInt8} (hx : x < 0x80) :
    ∀ (cs : List Bytes) (p q : Bytes), Seg cs → cs.flatten = p ++ x :: q → x ∉ p →
      ∃ cp cq, cs = cp ++ [x] :: cq ∧ cp.flatten = p ∧ cq.flatten = q := by
  intro cs
  induction cs with
  | nil => intro p q _ he _; simp at he
  | cons c cs ih =>
    intro p q hseg he hp
    have hc := hseg c (by simp)
    simp only [List.flatten_cons] at he
    rcases List.append_eq_append_iff.1 he with ⟨a', hpa, hF⟩ | ⟨c', hcp, hxq⟩
    · -- c is a prefix of p
      subst hpa
      obtain ⟨cp, cq, rfl, h1, h2⟩ := ih a' q hseg.tail hF (fun m => hp (by simp [m]))
      exact ⟨c :: cp, cq, by simp, by simp [h1], h2⟩
    · cases c' with
      | nil =>
        simp at hcp hxq
        subst hcp
        obtain ⟨cp, cq, rfl, h1, h2⟩ := ih [] q hseg.tail (by simpa using hxq.symm) (by simp)
        exact ⟨c :: cp, cq, by simp, by simp [h1], h2⟩
      | cons y c'' =>
        simp only [List.cons_append, List.cons.injEq] at hxq
        obtain ⟨rfl, hq⟩ := hxq
        have hcx : c = [x] := hc.2 x (by simp [hcp]) hx
        rw [hcx] at hcp
        have hp0 : p = [] := by
          cases p with
          | nil => rfl
          | cons z p' =>
            simp at hcp
        subst hp0
        have hc0 : c'' = [] := by simpa using hcp.symm
        subst hc0
        exact ⟨[], cs, by simp [hcx], rfl, by simpa using hq.symm⟩

/-- Rune-wise match ⇒ byte-wise match, with the same groups. -/
theorem byte_match_of_rune_match {cs n : List Bytes} {a : Option (List Bytes)} (hseg : Seg cs)
    (h : MatchesR cs n a) : Matches cs.flatten n.flatten (a.map List.flatten) := by
  have hLP : (LP : UInt8) < 0x80 := by decide
  have hRP : (RP : UInt8) < 0x80 := by decide
  cases h with
  | plain _ hne hn =>
    have hne' : cs.flatten ≠ [] := fun e => hne (hseg.flatten_eq_nil e)
    exact Matches.plain _ hne' (fun m => hn ((hseg.mem_flatten hLP).1 m))
  | typed _ a hne hn hae ha =>
    have hs1 := hseg.append.1
    have hs2 := (hseg.append.2.tail).append.1
    have := Matches.typed n.flatten a.flatten (fun e => hne (hs1.flatten_eq_nil e))
      (fun m => hn ((hs1.mem_flatten hLP).1 m)) (fun e => hae (hs2.flatten_eq_nil e))
      (fun m => ha ((hs2.mem_flatten hRP).1 m))
    simpa using this

/-- Byte-wise match ⇒ rune-wise match: the groups end on rune boundaries. -/
theorem rune_match_of_byte_match {cs : List Bytes} {name : Bytes} {arg : Option Bytes} (hseg : Seg cs)
    (h : Matches cs.flatten name arg) :
    ∃ n a, MatchesR cs n a ∧ n.flatten = name ∧ a.map List.flatten = arg := by
  have hLP : (LP : UInt8) < 0x80 := by decide
  have hRP : (RP : UInt8) < 0x80 := by decide
  generalize hs : cs.flatten = s at h
  cases h with
  | plain _ hne hn =>
    subst hs
    refine ⟨cs, none, MatchesR.plain cs ?_ ?_, rfl, rfl⟩
    · intro e; subst e; exact hne rfl
    · exact fun m => hn ((hseg.mem_flatten hLP).2 m)
  | typed _ arg hne hn hae ha =>
    obtain ⟨cn, r, rfl, h1, h2⟩ := Seg.split_at hLP cs name _ hseg hs hn
    have hsr := hseg.append.2.tail
    obtain ⟨ca, cq, rfl, h3, h4⟩ := Seg.split_at hRP r arg [] hsr h2 ha
    have hcq : cq = [] := (hsr.append.2.tail).flatten_eq_nil h4
    subst hcq
    refine ⟨cn, some ca, MatchesR.typed cn ca ?_ ?_ ?_ ?_, h1, by simp [h3]⟩
    · intro e; subst e; exact hne (by simpa using h1.symm)
    · exact fun m => hn (h1 ▸ (hseg.append.1.mem_flatten hLP).2 m)
    · intro e; subst e; exact hae (by simpa using h3.symm)
    · exact fun m => ha (h3 ▸ (hsr.append.1.mem_flatten hRP).2 m)

/-- Rune-wise and byte-wise reading of the expression accept the same strings with the same
    groups, for every segmentation in which ASCII bytes stand alone. -/
theorem rune_match_iff_byte_match {cs : List Bytes} (hseg : Seg cs) (name : Bytes) (arg : Option Bytes) :
    (∃ n a, MatchesR cs n a ∧ n.flatten = name ∧ a.map List.flatten = arg) ↔
      Matches cs.flatten name arg := by
  constructor
  · rintro ⟨n, a, h, rfl, rfl⟩
    exact byte_match_of_rune_match hseg h
  · exact rune_match_of_byte_match hseg

/-- Go's decoder as the regexp engine steps through a string (`utf8.DecodeRuneInString`):
    a byte < 0x80 is a rune; a well-formed sequence of 2–4 bytes (`Utf8.seqLen`) is a rune;
    anything else is U+FFFD of width 1. -/
def runes : Bytes → List Bytes
  | [] => []
  | c :: rest =>
    if c < 0x80 then [c] :: runes rest
    else match Utf8.seqLen (c :: rest) with
      | some 2 => (c :: rest.take 1) :: runes (rest.drop 1)
      | some 3 => (c :: rest.take 2) :: runes (rest.drop 2)
      | some 4 => (c :: rest.take 3) :: runes (rest.drop 3)
      | _ => [c] :: runes rest
termination_by bs => bs.length
decreasing_by all_goals simp <;> omega

theorem runes_flatten (s : Bytes) : (runes s).flatten = s := by
  fun_induction runes s <;>
    simp only [List.flatten_cons, List.flatten_nil, List.cons_append, List.nil_append,
      List.take_append_drop, *]

theorem isCont_ge {b : UInt8} (h : Utf8.isCont b = true) : 0x80 ≤ b := by
  simp [Utf8.isCont] at h; exact h.1

/-- The bytes after the first of a well-formed multi-byte sequence are ≥ 0x80. -/
theorem seqLen_tail_high (c : UInt8) (rest : Bytes) (k : Nat)
    (h : Utf8.seqLen (c :: rest) = some (k + 1)) : ∀ b ∈ rest.take k, 0x80 ≤ b := by
  cases rest with
  | nil => simp [Utf8.seqLen] at h
  | cons b1 rest =>
    unfold Utf8.seqLen at h
    simp only [] at h
    repeat' split at h
    all_goals first | (cases h; done) | skip
    all_goals
      injection h with h
      simp at h
      subst h
      simp [Utf8.isCont, UInt8.le_iff_toNat_le] at *
      omega

theorem Seg.cons {c : Bytes} {cs : List Bytes} (hc : c ≠ [] ∧ ∀ b ∈ c, b < 0x80 → c = [b])
    (h : Seg cs) : Seg (c :: cs) := by
  intro d hd
  rcases List.mem_cons.1 hd with rfl | hd
  · exact hc
  · exact h d hd

theorem single_chunk (c : UInt8) : [c] ≠ [] ∧ ∀ b ∈ [c], b < 0x80 → [c] = [b] := by simp

theorem high_chunk (c : UInt8) (t : Bytes) (hc : ¬ c < 0x80) (ht : ∀ b ∈ t, 0x80 ≤ b) :
    c :: t ≠ [] ∧ ∀ b ∈ c :: t, b < 0x80 → c :: t = [b] := by
  refine ⟨by simp, ?_⟩
  intro b hb hlt
  exfalso
  rcases List.mem_cons.1 hb with rfl | hb
  · exact hc hlt
  · have := ht b hb
    simp only [UInt8.lt_iff_toNat_lt, UInt8.le_iff_toNat_le] at hlt this
    have e : (0x80 : UInt8).toNat = 128 := by decide
    omega

/-- Go's decoder cuts a string into non-empty chunks in which ASCII bytes stand alone. -/
theorem runes_seg (s : Bytes) : Seg (runes s) := by
  fun_induction runes s
  · intro c hc; simp at hc
  all_goals first
    | exact Seg.cons (single_chunk _) ‹_›
    | exact Seg.cons (high_chunk _ _ ‹_› (seqLen_tail_high _ _ _ ‹_›)) ‹_›

/-- For Go's own segmentation: the byte-wise relation is the rune-wise one. -/
theorem go_rune_match_iff_byte_match (s name : Bytes) (arg : Option Bytes) :
    (∃ n a, MatchesR (runes s) n a ∧ n.flatten = name ∧ a.map List.flatten = arg) ↔
      Matches s name arg := by
  have := rune_match_iff_byte_match (runes_seg s) name arg
  rwa [runes_flatten] at this

/-- Ill-formed UTF-8 around the delimiters (the same results were observed with Go's
    regexp on these strings): `"\xe2(\xe2\x82)"` has groups `"\xe2"` and `"\xe2\x82"`;
    `"\xe2(\xa1"` does not match. -/
example : splitDescriptor [0xE2, 0x28, 0xE2, 0x82, 0x29] = some ([0xE2], [0xE2, 0x82]) := by decide
example : splitDescriptor [0xE2, 0x28, 0xA1] = none := by decide

end Jl.JlDescriptor
