/-
  Proofs.StreamAccept — the stream writes EXACTLY the acceptable lines, in order
  (C07 "one in-order outcome per line, independent of neighbours" + C16 "a line is accepted iff it
  is exactly one valid JSON object whose declared columns convert" + C01 "every emitted line is one
  valid JSON object plus newline").

  For a fault-free reader (any chunking), a writer that never fails and lines that fit the limit:

  * tolerant processor (the one `jl` uses): the writes are, in input order, what `jlLine` emits
    for exactly the lines that are `Acceptable` (`IsObjectText ∧ ConvertsAll ∧ RendersAll`), each
    write being one JSON object text and one LF; the errors handed to the processor are, in input
    order, the errors of the other lines — BLANK LINES INCLUDED: an empty (or all-white-space) line
    is not an object text, `GetRow` reports `.syntax` for it and nothing is written;
  * independence from neighbours: `pre ++ l ++ LF ++ post` writes
    `writes(pre) ++ out(l) ++ writes(post)`;
  * default processor: the writes are those of the longest prefix of acceptable lines, `ret` is the
    error of the first line that is not acceptable (a blank line is such a line), `none` if there
    is none; the lines after that first rejected line are never looked at (`default_stream_prefix`
    needs no hypothesis on them);
  * a five-line run over the regenerated tables.

  Abstention: the theorems carry `Settled cfg l` for the lines — `jlLine` ends with `.ok _`, i.e. the
  model did not run into an answer of the standard library that was not supplied (`.err .ext`).
  Over the regenerated tables this is exactly `jlLine … ≠ .err .ext` (`gen_settled_iff`).
-/
import Model.Stream
import Proofs.Stream
import Proofs.Scanner
import Proofs.LineAccept
import Proofs.JsonPrint
import Proofs.Order
import Proofs.NoPanic
import Proofs.CastTyped

namespace Jl.StreamAccept
open Jl Jl.Value Jl.Template Jl.Scanner Jl.Stream Jl.LineAccept

set_option linter.unusedSimpArgs false

/-! ### 0. Vocabulary: what one line does, in terms of `jlLine` -/

/-- What the line makes `jl` write: the bytes `jlLine` hands to the writer when it reports no
    error, nothing otherwise. -/
def out (cfg : Cfg) (l : Bytes) : Option Bytes :=
  match jlLine cfg.env cfg.ti cfg.to l with
  | .ok (b, none) => some b
  | _ => none

/-- The emitted line (`[]` when there is none). -/
def emitted (cfg : Cfg) (l : Bytes) : Bytes := (out cfg l).getD []

/-- The error `jl` reports for the line, if any. -/
def lineErr (cfg : Cfg) (l : Bytes) : Option ErrClass :=
  match jlLine cfg.env cfg.ti cfg.to l with
  | .ok (_, e) => e
  | _ => none

/-- C16's acceptance condition, with the exporter's side (`LineAccept.jlLine_accepts_iff`). -/
def Acceptable (cfg : Cfg) (l : Bytes) : Prop :=
  Grammar.IsObjectText l ∧ ConvertsAll cfg.env cfg.ti l = true ∧
    RendersAll cfg.env cfg.to (importedRow cfg.env cfg.ti l) = true

/-- The same, executable. -/
def acceptable (cfg : Cfg) (l : Bytes) : Bool :=
  Json.accepts l && ConvertsAll cfg.env cfg.ti l &&
    RendersAll cfg.env cfg.to (importedRow cfg.env cfg.ti l)

/-- No abstention on this line: `jlLine` ends with a proper outcome (a line or an error), not with
    the model's "stdlib answer missing" marker nor a panic. -/
def Settled (cfg : Cfg) (l : Bytes) : Prop := ∃ r, jlLine cfg.env cfg.ti cfg.to l = .ok r

theorem acceptable_iff (cfg : Cfg) (l : Bytes) : acceptable cfg l = true ↔ Acceptable cfg l := by
  simp only [acceptable, Acceptable, Bool.and_eq_true, JsonAcc.accepts_iff, and_assoc]

theorem out_eq_some_iff (cfg : Cfg) (l b : Bytes) :
    out cfg l = some b ↔ jlLine cfg.env cfg.ti cfg.to l = .ok (b, none) := by
  unfold out
  split
  · rename_i b' h; rw [h]; simp
  · rename_i hn
    simp only [reduceCtorEq, false_iff]
    intro h
    exact hn b h

/-- **A line is written iff it is acceptable** (`jlLine_accepts_iff`). -/
theorem out_isSome_iff (cfg : Cfg) (l : Bytes) : (out cfg l).isSome = true ↔ Acceptable cfg l := by
  unfold Acceptable
  rw [← jlLine_accepts_iff, Option.isSome_iff_exists]
  exact exists_congr fun b => out_eq_some_iff cfg l b

theorem out_isSome_eq (cfg : Cfg) (l : Bytes) : (out cfg l).isSome = acceptable cfg l := by
  rw [Bool.eq_iff_iff, out_isSome_iff, acceptable_iff]

theorem out_eq_none_iff (cfg : Cfg) (l : Bytes) : out cfg l = none ↔ ¬ Acceptable cfg l := by
  rw [← out_isSome_iff]; cases out cfg l <;> simp

theorem out_of_acceptable {cfg : Cfg} {l : Bytes} (h : acceptable cfg l = true) :
    out cfg l = some (emitted cfg l) := by
  rw [← out_isSome_eq] at h
  unfold emitted
  cases ho : out cfg l with
  | none => rw [ho] at h; cases h
  | some b => rfl

/-- What is emitted for an acceptable line is what `jlLine` wrote. -/
theorem jlLine_of_acceptable {cfg : Cfg} {l : Bytes} (h : acceptable cfg l = true) :
    jlLine cfg.env cfg.ti cfg.to l = .ok (emitted cfg l, none) :=
  (out_eq_some_iff cfg l _).1 (out_of_acceptable h)

/-- A settled line that is not written carries an error. -/
theorem lineErr_isSome_eq {cfg : Cfg} {l : Bytes} (hs : Settled cfg l) :
    (lineErr cfg l).isSome = !acceptable cfg l := by
  rw [← out_isSome_eq]
  obtain ⟨⟨b, e⟩, h⟩ := hs
  unfold lineErr out
  rw [h]
  cases e <;> rfl

/-- An error line writes nothing (`jlLine_error_writes_nothing`). -/
theorem jlLine_of_lineErr {cfg : Cfg} {l : Bytes} {e : ErrClass} (h : lineErr cfg l = some e) :
    jlLine cfg.env cfg.ti cfg.to l = .ok ([], some e) := by
  unfold lineErr at h
  split at h
  · rename_i b e' hj
    subst h
    rw [hj, jlLine_error_writes_nothing _ _ _ _ b e hj]
  · cases h

/-- **C01 for the emitted lines**: what an acceptable line emits is one JSON object text (the
    reader's recogniser accepts it, i.e. the RFC 8259 grammar `IsObjectText`), free of LF,
    followed by exactly one LF. -/
theorem emitted_valid (cfg : Cfg) (hx : JsonPrint.FloatTextOK cfg.env.ext) (l : Bytes)
    (h : acceptable cfg l = true) :
    ∃ body, emitted cfg l = body ++ [0x0A] ∧ Grammar.IsObjectText body ∧
      Json.accepts body = true ∧ (0x0A : UInt8) ∉ body := by
  obtain ⟨body, h1, h2, h3⟩ :=
    JsonPrint.jlLine_valid cfg.env hx cfg.ti cfg.to l _ (jlLine_of_acceptable h)
  exact ⟨body, h1, (JsonAcc.accepts_iff body).1 h2, h2, h3⟩

/-! ### 1. `lineOutcome` (C07's per-line function) in terms of `jlLine` -/

/-- The write a line outcome stands for. -/
def owrite : LineOutcome → Option Bytes
  | .written b => some b
  | _ => none

/-- The error a line outcome stands for. -/
def oerror : LineOutcome → Option ErrClass
  | .importError e => some e
  | .written _ => none
  | .exportError e => some e

/-- The processor calls a line outcome stands for. -/
def ocalls : LineOutcome → List (Bool × Option ErrClass)
  | .importError e => [(false, some e)]
  | .written _ => [(true, none)]
  | .exportError e => [(true, none), (true, some e)]

/-- `lineOutcome`, totalised (the default is never met on settled lines). -/
def lo (cfg : Cfg) (l : Bytes) : LineOutcome :=
  match lineOutcome cfg l with
  | .ok o => o
  | _ => .importError .ext

/-- The processor calls the line causes: `(row ≠ nil, error)`; an import error is one call without
    a row, a written line one call with its row, an export error that call and a second one with
    the error. -/
def lineCalls (cfg : Cfg) (l : Bytes) : List (Bool × Option ErrClass) := ocalls (lo cfg l)

theorem lineOutcome_cases (cfg : Cfg) (l : Bytes) :
    match jlLine cfg.env cfg.ti cfg.to l with
    | .ok (b, none) => lineOutcome cfg l = .ok (.written b)
    | .ok (_, some e) =>
      lineOutcome cfg l = .ok (.importError e) ∨ lineOutcome cfg l = .ok (.exportError e)
    | .err e => lineOutcome cfg l = .err e
    | .panic s => lineOutcome cfg l = .panic s := by
  unfold jlLine lineOutcome
  cases getRow cfg.env cfg.ti l with
  | err e => simp only
  | panic s => simp only
  | ok p =>
    obtain ⟨row, oe⟩ := p
    cases oe with
    | some e => simp only [true_or]
    | none =>
      simp only
      cases exportLine cfg.env cfg.to (.val (.row (Members.ofList row))) with
      | err e => simp only
      | panic s => simp only
      | ok q =>
        obtain ⟨b, oe⟩ := q
        cases oe with
        | none => simp only
        | some e => simp only [or_true]

theorem lineOutcome_of_settled {cfg : Cfg} {l : Bytes} (hs : Settled cfg l) :
    lineOutcome cfg l = .ok (lo cfg l) := by
  obtain ⟨⟨b, e⟩, h⟩ := hs
  have hc := lineOutcome_cases cfg l
  rw [h] at hc
  unfold lo
  cases e with
  | none => simp only at hc; rw [hc]
  | some e =>
    simp only at hc
    rcases hc with hc | hc <;> rw [hc]

theorem owrite_lo (cfg : Cfg) (l : Bytes) : owrite (lo cfg l) = out cfg l := by
  have hc := lineOutcome_cases cfg l
  unfold lo out
  cases h : jlLine cfg.env cfg.ti cfg.to l with
  | ok p =>
    obtain ⟨b, e⟩ := p
    rw [h] at hc
    cases e with
    | none => simp only at hc; rw [hc]; rfl
    | some e => simp only at hc; rcases hc with hc | hc <;> rw [hc] <;> rfl
  | err e => rw [h] at hc; simp only at hc; rw [hc]; rfl
  | panic s => rw [h] at hc; simp only at hc; rw [hc]; rfl

theorem oerror_lo {cfg : Cfg} {l : Bytes} (hs : Settled cfg l) : oerror (lo cfg l) = lineErr cfg l := by
  obtain ⟨⟨b, e⟩, h⟩ := hs
  have hc := lineOutcome_cases cfg l
  unfold lo lineErr
  rw [h] at hc ⊢
  cases e with
  | none => simp only at hc; rw [hc]; rfl
  | some e => simp only at hc; rcases hc with hc | hc <;> rw [hc] <;> rfl

theorem mapOutcomes_of_settled (cfg : Cfg) : ∀ (ls : List Bytes), (∀ l ∈ ls, Settled cfg l) →
    mapOutcomes cfg ls = .ok (ls.map (lo cfg))
  | [], _ => rfl
  | l :: ls, h => by
    simp only [mapOutcomes, lineOutcome_of_settled (h l (by simp)),
      mapOutcomes_of_settled cfg ls (fun x hx => h x (by simp [hx])), List.map_cons]

/-- The errors among the calls of one outcome. -/
theorem ocalls_errors (o : LineOutcome) : (ocalls o).filterMap (·.2) = (oerror o).toList := by
  cases o <;> rfl

/-! ### 2. The two folds in closed form -/

theorem fold_tolerant : ∀ (os : List LineOutcome) (obs : Obs),
    foldOutcomes .tolerant os obs =
      ⟨obs.ret, obs.calls ++ os.flatMap ocalls, obs.writes ++ os.filterMap owrite⟩
  | [], obs => by simp [foldOutcomes]
  | o :: os, obs => by
    cases o <;>
      simp [foldOutcomes, Proc.result, fold_tolerant os, ocalls, owrite, List.flatMap_cons,
        List.filterMap_cons]

/-- The default processor stops at the first outcome that is not a written line. -/
theorem fold_default : ∀ (os : List LineOutcome) (obs : Obs),
    foldOutcomes .default os obs =
      ⟨match os.find? (fun o => !(owrite o).isSome) with
        | none => obs.ret
        | some o => oerror o,
       obs.calls ++ (os.takeWhile (fun o => (owrite o).isSome)).flatMap ocalls ++
        ((os.find? (fun o => !(owrite o).isSome)).map ocalls).getD [],
       obs.writes ++ (os.takeWhile (fun o => (owrite o).isSome)).filterMap owrite⟩
  | [], obs => by simp [foldOutcomes]
  | o :: os, obs => by
    cases o <;>
      simp [foldOutcomes, Proc.result, fold_default os, ocalls, owrite, oerror, List.flatMap_cons,
        List.takeWhile_cons, List.find?_cons]

/-! ### 3. List facts -/

theorem filterMap_eq_filter_map {α β : Type} (f : α → Option β) (d : β) : ∀ (l : List α),
    l.filterMap f = (l.filter (fun x => (f x).isSome)).map (fun x => (f x).getD d)
  | [] => rfl
  | x :: l => by
    rw [List.filterMap_cons, List.filter_cons, filterMap_eq_filter_map f d l]
    cases h : f x <;> simp [h]

theorem length_filterMap_eq {α β : Type} (f : α → Option β) (l : List α) :
    (l.filterMap f).length = (l.filter (fun x => (f x).isSome)).length := by
  cases l with
  | nil => rfl
  | cons x l' =>
    cases h : f x with
    | none =>
      have := length_filterMap_eq f l'
      simp [List.filterMap_cons, List.filter_cons, h, this]
    | some y =>
      have := length_filterMap_eq f l'
      simp [List.filterMap_cons, List.filter_cons, h, this]

theorem mem_of_mem_takeWhile {α : Type} {p : α → Bool} {l : List α} {x : α}
    (h : x ∈ l.takeWhile p) : x ∈ l :=
  (List.takeWhile_sublist p).subset h

theorem find_split {α : Type} (p : α → Bool) : ∀ (ls : List α) (l : α),
    ls.find? (fun x => !p x) = some l →
    ∃ good rest, ls = good ++ l :: rest ∧ (∀ x ∈ good, p x = true) ∧ p l = false ∧
      ls.takeWhile p = good
  | [], _, h => by cases h
  | x :: xs, l, h => by
    cases hx : p x with
    | false =>
      simp only [List.find?_cons, hx, Bool.not_false, Option.some.injEq] at h
      subst h
      exact ⟨[], xs, rfl, (fun _ h => by cases h), hx, by simp [List.takeWhile_cons, hx]⟩
    | true =>
      simp only [List.find?_cons, hx, Bool.not_true] at h
      obtain ⟨good, rest, h1, h2, h3, h4⟩ := find_split p xs l h
      refine ⟨x :: good, rest, by rw [h1]; rfl, ?_, h3, by simp [List.takeWhile_cons, hx, h4]⟩
      intro y hy
      rcases List.mem_cons.1 hy with rfl | hy
      · exact hx
      · exact h2 y hy

/-! ### 4. The stream as the fold of the lines' outcomes -/

/-- The hypotheses of C07's theorem: a fault-free reader script (every event is data, whatever the
    chunking; at most 100 consecutive empty reads), a writer that never fails, every line within
    `cfg.maxSize`, and the buffer sizes in the doubling relation (64 KiB → 10 MiB satisfies it). -/
structure FaultFree (cfg : Cfg) (reader : List ReadEv) (ws : List WriteEv) : Prop where
  calm : Calm 100 reader
  fit : LinesFit cfg.maxSize (allData reader)
  le : cfg.initSize ≤ cfg.maxSize
  pow : cfg.maxSize ≤ cfg.initSize * 2 ^ 200
  writer : ∀ w ∈ ws, w = WriteEv.ok

theorem stream_of_settled (cfg : Cfg) (reader : List ReadEv) (ws : List WriteEv)
    (hff : FaultFree cfg reader ws) (hset : ∀ l ∈ specLines (allData reader), Settled cfg l) :
    stream cfg reader ws =
      .ok (foldOutcomes cfg.proc ((specLines (allData reader)).map (lo cfg)) ⟨none, [], []⟩) := by
  have hmap := mapOutcomes_of_settled cfg _ hset
  rw [C07_stream_eq_spec cfg reader ws hff.calm hff.fit hff.le hff.pow hff.writer _ hmap]
  unfold specObs
  rw [hmap]

theorem errors_of_lines (cfg : Cfg) : ∀ (ls : List Bytes), (∀ l ∈ ls, Settled cfg l) →
    (ls.flatMap (lineCalls cfg)).filterMap (·.2) = ls.filterMap (lineErr cfg)
  | [], _ => rfl
  | l :: ls, h => by
    rw [List.flatMap_cons, List.filterMap_append, errors_of_lines cfg ls (fun x hx => h x (by simp [hx])),
      lineCalls, ocalls_errors, oerror_lo (h l (by simp)), List.filterMap_cons]
    cases lineErr cfg l <;> rfl

theorem lineCalls_of_acceptable {cfg : Cfg} {l : Bytes} (h : acceptable cfg l = true) :
    lineCalls cfg l = [(true, none)] := by
  have h1 := owrite_lo cfg l
  rw [out_of_acceptable h] at h1
  unfold lineCalls
  cases hl : lo cfg l with
  | written b => rfl
  | importError e => rw [hl] at h1; cases h1
  | exportError e => rw [hl] at h1; cases h1

/-- A settled line that is not acceptable causes exactly one call carrying an error — its own. -/
theorem lineCalls_of_rejected {cfg : Cfg} {l : Bytes} (hs : Settled cfg l)
    (h : acceptable cfg l = false) :
    ∃ e, lineErr cfg l = some e ∧ jlLine cfg.env cfg.ti cfg.to l = .ok ([], some e) ∧
      (lineCalls cfg l = [(false, some e)] ∨ lineCalls cfg l = [(true, none), (true, some e)]) := by
  have h1 := lineErr_isSome_eq hs
  rw [h] at h1
  obtain ⟨e, he⟩ := Option.isSome_iff_exists.1 h1
  refine ⟨e, he, jlLine_of_lineErr he, ?_⟩
  have h2 := oerror_lo hs
  rw [he] at h2
  unfold lineCalls
  cases hl : lo cfg l with
  | written b => rw [hl] at h2; cases h2
  | importError e' => rw [hl] at h2; cases h2; exact .inl rfl
  | exportError e' => rw [hl] at h2; cases h2; exact .inr rfl

/-- A line the importer rejects: one call, without a row, carrying the importer's error. -/
theorem lineCalls_of_getRow_error {cfg : Cfg} {l : Bytes} {r : List (Bytes × Val)} {e : ErrClass}
    (h : getRow cfg.env cfg.ti l = .ok (r, some e)) : lineCalls cfg l = [(false, some e)] := by
  simp [lineCalls, lo, lineOutcome, h, ocalls]

theorem linesFit_of_length {m : Nat} {bs : Bytes} (h : bs.length < m) : LinesFit m bs :=
  fun _ hseg _ => Nat.lt_of_le_of_lt hseg.length_le h

/-! ### 5. Target 1 — the tolerant processor -/

/-- **Target 1, raw form.**  Under the tolerant processor the stream returns nil; the writes are,
    in input order, what each line makes `jlLine` emit (`out`); the calls are the lines' calls, in
    order; and the errors the processor was handed are, in input order, the errors of the lines. -/
theorem tolerant_stream (cfg : Cfg) (hp : cfg.proc = .tolerant) (reader : List ReadEv)
    (ws : List WriteEv) (hff : FaultFree cfg reader ws)
    (hset : ∀ l ∈ specLines (allData reader), Settled cfg l) :
    ∃ obs, stream cfg reader ws = .ok obs ∧ obs.ret = none ∧
      obs.writes = (specLines (allData reader)).filterMap (out cfg) ∧
      obs.calls = (specLines (allData reader)).flatMap (lineCalls cfg) ∧
      obs.calls.filterMap (·.2) = (specLines (allData reader)).filterMap (lineErr cfg) := by
  refine ⟨_, stream_of_settled cfg reader ws hff hset, ?_⟩
  rw [hp, fold_tolerant]
  have hw : (List.map (lo cfg) (specLines (allData reader))).filterMap owrite =
      (specLines (allData reader)).filterMap (out cfg) := by
    rw [List.filterMap_map]
    exact congrArg (fun f => List.filterMap f _) (funext fun l => owrite_lo cfg l)
  have hc : (List.map (lo cfg) (specLines (allData reader))).flatMap ocalls =
      (specLines (allData reader)).flatMap (lineCalls cfg) := by
    rw [List.flatMap_map]; rfl
  simp only [List.nil_append, hw, hc, true_and]
  exact errors_of_lines cfg _ hset

/-- **Target 1.**  Fault-free reader (any chunking), no writer fault, lines within the limit,
    tolerant processor, no abstention: the stream returns nil and

    * the writes are EXACTLY the emitted lines of the acceptable input lines, in input order:
      `writes = (lines.filter acceptable).map emitted`, where `acceptable l` is
      `IsObjectText l ∧ ConvertsAll … l ∧ RendersAll …` (`acceptable_iff`) and `emitted l` is what
      `jlLine` writes for `l` (`jlLine_of_acceptable`);
    * the number of processor calls carrying an error is the number of lines that are NOT
      acceptable — blank lines included (`blank_not_acceptable` below: an empty line is not an
      object text; it costs one error call and no write). -/
theorem tolerant_writes_exactly_acceptable (cfg : Cfg) (hp : cfg.proc = .tolerant)
    (reader : List ReadEv) (ws : List WriteEv) (hff : FaultFree cfg reader ws)
    (hset : ∀ l ∈ specLines (allData reader), Settled cfg l) :
    ∃ obs, stream cfg reader ws = .ok obs ∧ obs.ret = none ∧
      obs.writes = ((specLines (allData reader)).filter (acceptable cfg)).map (emitted cfg) ∧
      (obs.calls.filter (fun c => c.2.isSome)).length =
        ((specLines (allData reader)).filter (fun l => !acceptable cfg l)).length ∧
      obs.calls.filterMap (·.2) =
        ((specLines (allData reader)).filter (fun l => !acceptable cfg l)).filterMap (lineErr cfg) := by
  obtain ⟨obs, h, hr, hw, _, he⟩ := tolerant_stream cfg hp reader ws hff hset
  have hf : (specLines (allData reader)).filter (fun l => (lineErr cfg l).isSome) =
      (specLines (allData reader)).filter (fun l => !acceptable cfg l) :=
    List.filter_congr fun l hl => lineErr_isSome_eq (hset l hl)
  refine ⟨obs, h, hr, ?_, ?_, ?_⟩
  · rw [hw, filterMap_eq_filter_map (out cfg) []]
    have : (fun l => (out cfg l).isSome) = acceptable cfg := funext fun l => out_isSome_eq cfg l
    rw [this]
    rfl
  · rw [← length_filterMap_eq (·.2) obs.calls, he, length_filterMap_eq, hf]
  · rw [he, ← hf]
    generalize specLines (allData reader) = ls
    induction ls with
    | nil => rfl
    | cons l ls ih =>
      rw [List.filterMap_cons, List.filter_cons]
      cases hl : lineErr cfg l with
      | none => simpa using ih
      | some e => simp [hl, ih]

/-- **Target 1, C01 part**: every write of the tolerant stream is one JSON object text, free of
    LF, followed by exactly one LF, and it is what `jlLine` emits for an acceptable input line. -/
theorem tolerant_writes_valid (cfg : Cfg) (hp : cfg.proc = .tolerant)
    (hx : JsonPrint.FloatTextOK cfg.env.ext)
    (reader : List ReadEv) (ws : List WriteEv) (hff : FaultFree cfg reader ws)
    (hset : ∀ l ∈ specLines (allData reader), Settled cfg l) :
    ∃ obs, stream cfg reader ws = .ok obs ∧
      ∀ w ∈ obs.writes, ∃ l body, l ∈ specLines (allData reader) ∧ Acceptable cfg l ∧
        jlLine cfg.env cfg.ti cfg.to l = .ok (w, none) ∧ w = body ++ [0x0A] ∧
        Grammar.IsObjectText body ∧ (0x0A : UInt8) ∉ body := by
  obtain ⟨obs, h, _, hw, _⟩ := tolerant_writes_exactly_acceptable cfg hp reader ws hff hset
  refine ⟨obs, h, ?_⟩
  intro w hwm
  rw [hw, List.mem_map] at hwm
  obtain ⟨l, hl, rfl⟩ := hwm
  rw [List.mem_filter] at hl
  obtain ⟨body, h1, h2, _, h4⟩ := emitted_valid cfg hx l hl.2
  exact ⟨l, body, hl.1, (acceptable_iff cfg l).1 hl.2, jlLine_of_acceptable hl.2, h1, h2, h4⟩

/-! #### Blank lines -/

/-- A blank line — empty, or white space only — is not an object text … -/
theorem blank_not_objectText (l : Bytes) (h : Grammar.WS l) : ¬ Grammar.IsObjectText l := by
  rintro ⟨w1, o, w2, rfl, _, ho, _⟩
  have hm : (0x7B : UInt8) ∈ w1 ++ o ++ w2 := by
    cases ho with
    | empty w hw => simp
    | members body hb => simp
  have := h _ hm
  revert this
  decide

/-- … so it is never acceptable, whatever the templates and the environment: nothing is written
    for it. -/
theorem blank_not_acceptable (cfg : Cfg) (l : Bytes) (h : Grammar.WS l) : acceptable cfg l = false := by
  cases ha : acceptable cfg l with
  | false => rfl
  | true => exact absurd ((acceptable_iff cfg l).1 ha).1 (blank_not_objectText l h)

theorem blank_writes_nothing (cfg : Cfg) (l : Bytes) (h : Grammar.WS l) : out cfg l = none := by
  have := out_isSome_eq cfg l
  rw [blank_not_acceptable cfg l h] at this
  cases ho : out cfg l with
  | none => rfl
  | some b => rw [ho] at this; cases this

theorem ws_nil : Grammar.WS [] := fun _ h => by cases h

theorem unmarshal_nil : Json.unmarshal [] = (.nil, false) := by
  simp [Json.unmarshal, Json.token, Json.tokenCore, Json.skipSpace, Json.asClose]

/-- The EMPTY line, precisely: when the importer's template row can be made, `GetRow` reports a
    syntax error ("unexpected end of JSON input"); `jl` writes nothing and hands `.syntax` to the
    processor in one call without a row. -/
theorem empty_line (cfg : Cfg) (row : List (Bytes × Val)) (hc : cloneRow cfg.env cfg.ti = .ok row) :
    jlLine cfg.env cfg.ti cfg.to [] = .ok ([], some .syntax) ∧ Settled cfg [] ∧
      lineErr cfg [] = some .syntax ∧ lineCalls cfg [] = [(false, some .syntax)] := by
  have hg : getRow cfg.env cfg.ti [] = .ok (row, some .syntax) := by
    simp [getRow, createRowEmpty, hc, unmarshalInto, unmarshal_nil, ofJVMembers, parseMembers]
  have hj : jlLine cfg.env cfg.ti cfg.to [] = .ok ([], some .syntax) :=
    jlLine_of_getRow_error _ _ _ _ _ _ hg
  refine ⟨hj, ⟨_, hj⟩, by simp [lineErr, hj], ?_⟩
  simp [lineCalls, lo, lineOutcome, hg, ocalls]

/-! ### 6. Target 2 — independence from the neighbours -/

/-- The writes of a byte stream under the tolerant processor, as a function of the bytes alone
    (`tolerant_stream`: these ARE the stream's writes). -/
def writesOf (cfg : Cfg) (bs : Bytes) : List Bytes := (specLines bs).filterMap (out cfg)

theorem specLines_append_aux : ∀ (n : Nat) (pre rest : Bytes), pre.length ≤ n →
    (pre = [] ∨ ∃ q, pre = q ++ [0x0A]) → specLines (pre ++ rest) = specLines pre ++ specLines rest := by
  intro n
  induction n with
  | zero =>
    intro pre rest hn _
    have : pre = [] := List.eq_nil_of_length_eq_zero (by omega)
    subst this
    simp [specLines_nil]
  | succ n ih =>
    intro pre rest hn hpre
    rcases hpre with rfl | ⟨q, rfl⟩
    · simp [specLines_nil]
    · cases hs : splitLF q with
      | none =>
        have hq : (0x0A : UInt8) ∉ q := splitLF_none.1 hs
        rw [List.append_assoc, List.singleton_append, specLines_line q rest hq,
          specLines_line q [] hq, specLines_nil]
        rfl
      | some p =>
        obtain ⟨raw, r⟩ := p
        obtain ⟨rfl, hraw⟩ := splitLF_some.1 hs
        have e1 : raw ++ 0x0A :: r ++ [0x0A] ++ rest = raw ++ 0x0A :: ((r ++ [0x0A]) ++ rest) := by simp
        have e2 : raw ++ 0x0A :: r ++ [0x0A] = raw ++ 0x0A :: (r ++ [0x0A]) := by simp
        rw [e1, e2, specLines_line raw _ hraw, specLines_line raw _ hraw,
          ih (r ++ [0x0A]) rest (by simp at hn ⊢; omega) (.inr ⟨r, rfl⟩)]
        rfl

/-- Splitting into lines commutes with concatenation at a line boundary. -/
theorem specLines_append (pre rest : Bytes) (hpre : pre = [] ∨ ∃ q, pre = q ++ [0x0A]) :
    specLines (pre ++ rest) = specLines pre ++ specLines rest :=
  specLines_append_aux pre.length pre rest (Nat.le_refl _) hpre

/-- The lines of `pre ++ l ++ LF ++ post`: those of `pre`, then `l` (less one trailing CR), then
    those of `post`. -/
theorem specLines_around (pre l post : Bytes) (hpre : pre = [] ∨ ∃ q, pre = q ++ [0x0A])
    (hl : (0x0A : UInt8) ∉ l) :
    specLines (pre ++ l ++ [0x0A] ++ post) = specLines pre ++ dropCR l :: specLines post := by
  have e : pre ++ l ++ [0x0A] ++ post = pre ++ (l ++ 0x0A :: post) := by simp
  rw [e, specLines_append pre _ hpre, specLines_line l post hl]

/-- **Target 2, as a function of the bytes**: the line `l` contributes `out cfg (dropCR l)` — a
    function of the line and the templates alone — between the writes of what precedes and the
    writes of what follows.  Inserting, deleting or changing OTHER lines changes `pre` and `post`
    only. -/
theorem writesOf_around (cfg : Cfg) (pre l post : Bytes) (hpre : pre = [] ∨ ∃ q, pre = q ++ [0x0A])
    (hl : (0x0A : UInt8) ∉ l) :
    writesOf cfg (pre ++ l ++ [0x0A] ++ post) =
      writesOf cfg pre ++ (out cfg (dropCR l)).toList ++ writesOf cfg post := by
  unfold writesOf
  rw [specLines_around pre l post hpre hl, List.filterMap_append, List.filterMap_cons]
  cases out cfg (dropCR l) <;> simp

/-- Deleting the line: what is left writes what the neighbours wrote. -/
theorem writesOf_append (cfg : Cfg) (pre post : Bytes) (hpre : pre = [] ∨ ∃ q, pre = q ++ [0x0A]) :
    writesOf cfg (pre ++ post) = writesOf cfg pre ++ writesOf cfg post := by
  unfold writesOf
  rw [specLines_append pre post hpre, List.filterMap_append]

/-- A final line without its LF. -/
theorem writesOf_last (cfg : Cfg) (pre l : Bytes) (hpre : pre = [] ∨ ∃ q, pre = q ++ [0x0A])
    (hne : l ≠ []) (hl : (0x0A : UInt8) ∉ l) :
    writesOf cfg (pre ++ l) = writesOf cfg pre ++ (out cfg (dropCR l)).toList := by
  unfold writesOf
  rw [specLines_append pre l hpre, specLines_last l hne hl, List.filterMap_append,
    List.filterMap_cons]
  cases out cfg (dropCR l) <;> simp

theorem linesFit_infix {m : Nat} {a b : Bytes} (h : LinesFit m b) (hs : a <:+: b) : LinesFit m a :=
  fun seg hseg hn => h seg (List.IsInfix.trans hseg hs) hn

/-- **Target 2, for the streams themselves** (tolerant processor): the stream over
    `pre ++ l ++ LF ++ post` writes what the stream over `pre` writes, then what `l` alone makes
    `jl` write, then what the stream over `post` writes — whatever the three readers' chunkings. -/
theorem tolerant_independent (cfg : Cfg) (hp : cfg.proc = .tolerant) (pre l post : Bytes)
    (hpre : pre = [] ∨ ∃ q, pre = q ++ [0x0A]) (hl : (0x0A : UInt8) ∉ l)
    (reader rpre rpost : List ReadEv) (ws wpre wpost : List WriteEv)
    (hd : allData reader = pre ++ l ++ [0x0A] ++ post)
    (hdpre : allData rpre = pre) (hdpost : allData rpost = post)
    (hff : FaultFree cfg reader ws)
    (hcpre : Calm 100 rpre) (hcpost : Calm 100 rpost)
    (hwpre : ∀ w ∈ wpre, w = WriteEv.ok) (hwpost : ∀ w ∈ wpost, w = WriteEv.ok)
    (hset : ∀ x ∈ specLines (allData reader), Settled cfg x) :
    ∃ obs opre opost, stream cfg reader ws = .ok obs ∧ stream cfg rpre wpre = .ok opre ∧
      stream cfg rpost wpost = .ok opost ∧
      obs.writes = opre.writes ++ (out cfg (dropCR l)).toList ++ opost.writes := by
  have hlines := specLines_around pre l post hpre hl
  have hfpre : FaultFree cfg rpre wpre :=
    ⟨hcpre, by
      rw [hdpre]
      exact linesFit_infix hff.fit ⟨[], l ++ [0x0A] ++ post, by rw [hd]; simp⟩,
     hff.le, hff.pow, hwpre⟩
  have hfpost : FaultFree cfg rpost wpost :=
    ⟨hcpost, by
      rw [hdpost]
      exact linesFit_infix hff.fit ⟨pre ++ l ++ [0x0A], [], by rw [hd]; simp⟩,
     hff.le, hff.pow, hwpost⟩
  have hspre : ∀ x ∈ specLines (allData rpre), Settled cfg x := by
    intro x hx
    apply hset
    rw [hd, hlines, ← hdpre]
    exact List.mem_append_left _ hx
  have hspost : ∀ x ∈ specLines (allData rpost), Settled cfg x := by
    intro x hx
    apply hset
    rw [hd, hlines, ← hdpost]
    exact List.mem_append_right _ (List.mem_cons_of_mem _ hx)
  obtain ⟨obs, h, _, hw, _⟩ := tolerant_stream cfg hp reader ws hff hset
  obtain ⟨opre, h1, _, hw1, _⟩ := tolerant_stream cfg hp rpre wpre hfpre hspre
  obtain ⟨opost, h2, _, hw2, _⟩ := tolerant_stream cfg hp rpost wpost hfpost hspost
  refine ⟨obs, opre, opost, h, h1, h2, ?_⟩
  rw [hw, hw1, hw2, hd, hdpre, hdpost]
  exact writesOf_around cfg pre l post hpre hl

/-! ### 7. Target 3 — the default processor (stops at the first error) -/

theorem default_fold_lines (cfg : Cfg) (ls : List Bytes) (hset : ∀ l ∈ ls, Settled cfg l) :
    foldOutcomes .default (ls.map (lo cfg)) ⟨none, [], []⟩ =
      ⟨(ls.find? (fun l => !acceptable cfg l)).bind (lineErr cfg),
       (ls.takeWhile (acceptable cfg)).flatMap (lineCalls cfg) ++
         ((ls.find? (fun l => !acceptable cfg l)).map (lineCalls cfg)).getD [],
       (ls.takeWhile (acceptable cfg)).map (emitted cfg)⟩ := by
  have h1 : (fun o => (owrite o).isSome) ∘ lo cfg = acceptable cfg :=
    funext fun l => by simp only [Function.comp, owrite_lo, out_isSome_eq]
  have h2 : (fun o => !(owrite o).isSome) ∘ lo cfg = fun l => !acceptable cfg l :=
    funext fun l => by simp only [Function.comp, owrite_lo, out_isSome_eq]
  rw [fold_default, List.find?_map, List.takeWhile_map, h1, h2, List.filterMap_map, List.flatMap_map]
  have hw : List.filterMap (owrite ∘ lo cfg) (ls.takeWhile (acceptable cfg)) =
      (ls.takeWhile (acceptable cfg)).map (emitted cfg) := by
    have : owrite ∘ lo cfg = out cfg := funext fun l => owrite_lo cfg l
    rw [this]
    generalize ls = xs
    induction xs with
    | nil => rfl
    | cons x xs ih =>
      rw [List.takeWhile_cons]
      cases hx : acceptable cfg x with
      | false => rfl
      | true =>
        simp only [if_true, List.filterMap_cons, List.map_cons, out_of_acceptable hx, ih]
  simp only [List.nil_append, hw]
  cases hf : ls.find? (fun l => !acceptable cfg l) with
  | none => rfl
  | some l =>
    have hs := hset l (List.mem_of_find?_eq_some hf)
    simp only [Option.map_some, Option.bind_some, Option.getD_some, oerror_lo hs]
    rfl

/-- **Target 3.**  Fault-free reader, no writer fault, lines within the limit, DEFAULT processor,
    no abstention: the writes are the emitted lines of the longest prefix of lines that are all
    acceptable; `ret` is the error of the first line that is not acceptable (`none` when every line
    is acceptable); the calls are one `(row, nil)` per written line (`lineCalls_of_acceptable`) and
    then the calls of that first rejected line, the last of which carries the returned error
    (`lineCalls_of_rejected`).  A BLANK line is such a rejected line (`blank_not_acceptable`): it
    stops the stream with `.syntax` (`empty_line`). -/
theorem default_stream (cfg : Cfg) (hp : cfg.proc = .default) (reader : List ReadEv)
    (ws : List WriteEv) (hff : FaultFree cfg reader ws)
    (hset : ∀ l ∈ specLines (allData reader), Settled cfg l) :
    ∃ obs, stream cfg reader ws = .ok obs ∧
      obs.writes = ((specLines (allData reader)).takeWhile (acceptable cfg)).map (emitted cfg) ∧
      obs.ret = ((specLines (allData reader)).find? (fun l => !acceptable cfg l)).bind (lineErr cfg) ∧
      obs.calls = ((specLines (allData reader)).takeWhile (acceptable cfg)).flatMap (lineCalls cfg) ++
        (((specLines (allData reader)).find? (fun l => !acceptable cfg l)).map (lineCalls cfg)).getD [] := by
  refine ⟨_, stream_of_settled cfg reader ws hff hset, ?_⟩
  rw [hp, default_fold_lines cfg _ hset]
  exact ⟨rfl, rfl, rfl⟩

/-- Target 3, the return value read off: nil exactly when every line is acceptable, else the
    error `jlLine` reports for the first line that is not. -/
theorem default_ret (cfg : Cfg) (hp : cfg.proc = .default) (reader : List ReadEv)
    (ws : List WriteEv) (hff : FaultFree cfg reader ws)
    (hset : ∀ l ∈ specLines (allData reader), Settled cfg l) :
    ∃ obs, stream cfg reader ws = .ok obs ∧
      (obs.ret = none ↔ ∀ l ∈ specLines (allData reader), Acceptable cfg l) ∧
      (∀ e, obs.ret = some e → ∃ good l rest, specLines (allData reader) = good ++ l :: rest ∧
        (∀ x ∈ good, Acceptable cfg x) ∧ ¬ Acceptable cfg l ∧
        jlLine cfg.env cfg.ti cfg.to l = .ok ([], some e) ∧
        obs.writes = good.map (emitted cfg)) := by
  obtain ⟨obs, h, hw, hr, _⟩ := default_stream cfg hp reader ws hff hset
  refine ⟨obs, h, ?_, ?_⟩
  · rw [hr]
    cases hf : (specLines (allData reader)).find? (fun l => !acceptable cfg l) with
    | none =>
      simp only [Option.bind_none, true_iff]
      intro l hl
      have := List.find?_eq_none.1 hf l hl
      exact (acceptable_iff cfg l).1 (by simpa using this)
    | some l =>
      have hm := List.mem_of_find?_eq_some hf
      have hb : acceptable cfg l = false := by simpa using List.find?_some hf
      obtain ⟨e, he, _⟩ := lineCalls_of_rejected (hset l hm) hb
      simp only [Option.bind_some, he, reduceCtorEq, false_iff]
      intro hall
      have := (acceptable_iff cfg l).2 (hall l hm)
      rw [hb] at this
      cases this
  · intro e he
    rw [hr] at he
    cases hf : (specLines (allData reader)).find? (fun l => !acceptable cfg l) with
    | none => rw [hf] at he; cases he
    | some l =>
      rw [hf] at he
      simp only [Option.bind_some] at he
      obtain ⟨good, rest, h1, h2, h3, h4⟩ := find_split (acceptable cfg) _ l hf
      refine ⟨good, l, rest, h1, fun x hx => (acceptable_iff cfg x).1 (h2 x hx), ?_,
        jlLine_of_lineErr he, by rw [hw, h4]⟩
      intro ha
      have := (acceptable_iff cfg l).2 ha
      rw [h3] at this; cases this

theorem getRow_exportLine_of_jlLine {env : Env} {ti to : Tmpl} {l b : Bytes}
    (h : jlLine env ti to l = .ok (b, none)) :
    ∃ r, getRow env ti l = .ok (r, none) ∧
      exportLine env to (.val (.row (Members.ofList r))) = .ok (b, none) := by
  unfold jlLine at h
  split at h
  · cases h
  · cases h
  · cases h
  · rename_i r hg
    exact ⟨r, hg, h⟩

/-- The loop under the default processor, over a scanner that delivers `good ++ l :: rest`: the
    acceptable lines `good` are written, `l` (settled, not acceptable) stops the loop with its
    error; `rest` is never looked at. -/
theorem default_loop_prefix (cfg : Cfg) (hp : cfg.proc = .default) :
    ∀ (good : List Bytes) (l : Bytes) (rest : List Bytes) (st : St) (fuel : Nat) (ws : List WriteEv)
      (obs : Obs),
      ScansAs cfg.initSize cfg.maxSize st (good ++ l :: rest) →
      (∀ w ∈ ws, w = WriteEv.ok) → good.length < fuel →
      (∀ x ∈ good, acceptable cfg x = true) → Settled cfg l → acceptable cfg l = false →
      ∃ st', loop cfg fuel st ws obs =
        .ok (⟨lineErr cfg l, obs.calls ++ good.flatMap (lineCalls cfg) ++ lineCalls cfg l,
              obs.writes ++ good.map (emitted cfg)⟩, st') := by
  intro good
  induction good with
  | nil =>
    intro l rest st fuel ws obs hsc hws hfuel _ hs hacc
    obtain ⟨f, rfl⟩ : ∃ f, fuel = f + 1 := ⟨fuel - 1, by simp at hfuel; omega⟩
    cases hsc with
    | cons hsn he hrest =>
    rename_i s'
    rw [loop_succ]
    unfold lstep
    rw [hsn]
    obtain ⟨⟨b0, e0⟩, hj⟩ := hs
    cases hg : getRow cfg.env cfg.ti l with
    | err e => simp [jlLine, hg] at hj
    | panic s => simp [jlLine, hg] at hj
    | ok p =>
      obtain ⟨row, oe⟩ := p
      cases oe with
      | some e =>
        have h1 : lineErr cfg l = some e := by simp [lineErr, jlLine, hg]
        have h2 := lineCalls_of_getRow_error hg
        refine ⟨s', ?_⟩
        simp [Scanner.errOf, he, hg, default_result cfg hp, LStep.run, h1, h2]
      | none =>
        cases hx : exportLine cfg.env cfg.to (.val (.row (Members.ofList row))) with
        | err e => simp [jlLine, hg, hx] at hj
        | panic s => simp [jlLine, hg, hx] at hj
        | ok q =>
          obtain ⟨b, oe⟩ := q
          cases oe with
          | none =>
            have : out cfg l = some b := (out_eq_some_iff cfg l b).2 (by simp [jlLine, hg, hx])
            have h3 := out_isSome_eq cfg l
            rw [this, hacc] at h3
            cases h3
          | some e =>
            have h1 : lineErr cfg l = some e := by simp [lineErr, jlLine, hg, hx]
            have h2 : lineCalls cfg l = [(true, none), (true, some e)] := by
              simp [lineCalls, lo, lineOutcome, hg, hx, ocalls]
            refine ⟨s', ?_⟩
            simp [Scanner.errOf, he, hg, default_result cfg hp, LStep.run, h1, h2, exportWith, hx]
  | cons x good ih =>
    intro l rest st fuel ws obs hsc hws hfuel hgood hs hacc
    obtain ⟨f, rfl⟩ : ∃ f, fuel = f + 1 := ⟨fuel - 1, by simp at hfuel; omega⟩
    have hf : good.length < f := by simp at hfuel; omega
    cases hsc with
    | cons hsn he hrest =>
    rename_i s'
    have hx : acceptable cfg x = true := hgood x (by simp)
    obtain ⟨r, hg, hex⟩ := getRow_exportLine_of_jlLine (jlLine_of_acceptable hx)
    rw [loop_succ]
    unfold lstep
    rw [hsn]
    have hc := lineCalls_of_acceptable hx
    cases ws with
    | nil =>
      obtain ⟨st', h⟩ := ih l rest s' f []
        { obs with calls := obs.calls ++ [(true, none)], writes := obs.writes ++ [emitted cfg x] }
        hrest (by simp) hf (fun y hy => hgood y (by simp [hy])) hs hacc
      refine ⟨st', ?_⟩
      simp only [Scanner.errOf, he, hg, default_result cfg hp, exportWith, hex, LStep.run]
      rw [h]
      simp [List.flatMap_cons, hc]
    | cons w wrest =>
      have hw : w = WriteEv.ok := hws w (by simp)
      subst hw
      obtain ⟨st', h⟩ := ih l rest s' f wrest
        { obs with calls := obs.calls ++ [(true, none)], writes := obs.writes ++ [emitted cfg x] }
        hrest (fun w hw => hws w (by simp [hw])) hf (fun y hy => hgood y (by simp [hy])) hs hacc
      refine ⟨st', ?_⟩
      simp only [Scanner.errOf, he, hg, default_result cfg hp, exportWith, hex, LStep.run]
      rw [h]
      simp [List.flatMap_cons, hc]

/-- **Target 3, sharpened**: under the default processor only the lines UP TO the first one that is
    not acceptable matter.  When the lines are `good ++ l :: rest` with every line of `good`
    acceptable and `l` settled and not acceptable, the stream writes the emitted lines of `good`,
    returns the error of `l`, and never looks at `rest` — no hypothesis on `rest` at all (its
    lines may even be ones on which the model abstains). -/
theorem default_stream_prefix (cfg : Cfg) (hp : cfg.proc = .default) (reader : List ReadEv)
    (ws : List WriteEv) (hff : FaultFree cfg reader ws) (good : List Bytes) (l : Bytes)
    (rest : List Bytes) (hlines : specLines (allData reader) = good ++ l :: rest)
    (hgood : ∀ x ∈ good, acceptable cfg x = true) (hs : Settled cfg l)
    (hacc : acceptable cfg l = false) :
    stream cfg reader ws =
      .ok ⟨lineErr cfg l, good.flatMap (lineCalls cfg) ++ lineCalls cfg l, good.map (emitted cfg)⟩ := by
  have hsc := A4_chunk_independence cfg.initSize cfg.maxSize reader hff.calm hff.fit hff.le hff.pow
  have hfuel : good.length < scriptSize reader + 2 := by
    have h1 := specLinesAux_length ((allData reader).length + 1) (allData reader)
    have h2 := scriptSize_ge reader
    have h3 : good.length ≤ (specLines (allData reader)).length := by rw [hlines]; simp
    unfold specLines at h3
    omega
  rw [hlines] at hsc
  obtain ⟨st', h⟩ := default_loop_prefix cfg hp good l rest _ (scriptSize reader + 2) ws ⟨none, [], []⟩
    hsc hff.writer hfuel hgood hs hacc
  unfold stream streamSt
  rw [h]
  simp

theorem settled_of_acceptable {cfg : Cfg} {l : Bytes} (h : acceptable cfg l = true) : Settled cfg l :=
  ⟨_, jlLine_of_acceptable h⟩

theorem takeWhile_all {α : Type} (p : α → Bool) : ∀ (l : List α), (∀ x ∈ l, p x = true) →
    l.takeWhile p = l
  | [], _ => rfl
  | x :: xs, h => by
    rw [List.takeWhile_cons, h x (by simp)]
    simp only [if_true]
    rw [takeWhile_all p xs fun y hy => h y (by simp [hy])]

/-- Target 3 when every line is acceptable: everything is written, nil is returned. -/
theorem default_stream_all_acceptable (cfg : Cfg) (hp : cfg.proc = .default) (reader : List ReadEv)
    (ws : List WriteEv) (hff : FaultFree cfg reader ws)
    (hall : ∀ l ∈ specLines (allData reader), acceptable cfg l = true) :
    stream cfg reader ws =
      .ok ⟨none, (specLines (allData reader)).flatMap (lineCalls cfg),
        (specLines (allData reader)).map (emitted cfg)⟩ := by
  obtain ⟨obs, h, hw, hr, hc⟩ := default_stream cfg hp reader ws hff
    fun l hl => settled_of_acceptable (hall l hl)
  have hf : (specLines (allData reader)).find? (fun l => !acceptable cfg l) = none :=
    List.find?_eq_none.2 fun x hx => by simp [hall x hx]
  rw [takeWhile_all _ _ hall] at hw hc
  rw [hf] at hr hc
  rw [h]
  obtain ⟨r, c, w⟩ := obs
  simp only at hw hr hc
  rw [hw, hr, hc]
  simp

/-! ### 8. Over the regenerated tables: abstention is `.err .ext`, nothing else -/

theorem gen_settled_iff (ext : Ext) (cfg : Cfg) (henv : cfg.env = ⟨genTables, ext⟩) (l : Bytes) :
    Settled cfg l ↔ jlLine cfg.env cfg.ti cfg.to l ≠ .err .ext := by
  unfold Settled
  rw [henv]
  rcases gen_jlLine_cases ext cfg.ti cfg.to l with ⟨b, h⟩ | ⟨e, h⟩ | h
  · rw [h]; simp
  · rw [h]; simp
  · rw [h]; simp

/-- Target 1 over the regenerated tables, the abstention hypothesis in its plain form. -/
theorem gen_tolerant_writes_exactly_acceptable (ext : Ext) (cfg : Cfg)
    (henv : cfg.env = ⟨genTables, ext⟩) (hp : cfg.proc = .tolerant)
    (reader : List ReadEv) (ws : List WriteEv) (hff : FaultFree cfg reader ws)
    (hset : ∀ l ∈ specLines (allData reader), jlLine cfg.env cfg.ti cfg.to l ≠ .err .ext) :
    ∃ obs, stream cfg reader ws = .ok obs ∧ obs.ret = none ∧
      obs.writes = ((specLines (allData reader)).filter (acceptable cfg)).map (emitted cfg) ∧
      (obs.calls.filter (fun c => c.2.isSome)).length =
        ((specLines (allData reader)).filter (fun l => !acceptable cfg l)).length ∧
      obs.calls.filterMap (·.2) =
        ((specLines (allData reader)).filter (fun l => !acceptable cfg l)).filterMap (lineErr cfg) :=
  tolerant_writes_exactly_acceptable cfg hp reader ws hff
    fun l hl => (gen_settled_iff ext cfg henv l).2 (hset l hl)

/-- Target 3 over the regenerated tables. -/
theorem gen_default_stream (ext : Ext) (cfg : Cfg)
    (henv : cfg.env = ⟨genTables, ext⟩) (hp : cfg.proc = .default)
    (reader : List ReadEv) (ws : List WriteEv) (hff : FaultFree cfg reader ws)
    (hset : ∀ l ∈ specLines (allData reader), jlLine cfg.env cfg.ti cfg.to l ≠ .err .ext) :
    ∃ obs, stream cfg reader ws = .ok obs ∧
      obs.writes = ((specLines (allData reader)).takeWhile (acceptable cfg)).map (emitted cfg) ∧
      obs.ret = ((specLines (allData reader)).find? (fun l => !acceptable cfg l)).bind (lineErr cfg) ∧
      obs.calls = ((specLines (allData reader)).takeWhile (acceptable cfg)).flatMap (lineCalls cfg) ++
        (((specLines (allData reader)).find? (fun l => !acceptable cfg l)).map (lineCalls cfg)).getD [] :=
  default_stream cfg hp reader ws hff fun l hl => (gen_settled_iff ext cfg henv l).2 (hset l hl)

/-! ### 9. Target 4 — non-vacuity: five lines under a numeric(int8) column `n`

  Importer and exporter template: one column `n`, format numeric, raw type int8; the regenerated
  tables and `Ext.empty`; buffer sizes of the source (64 KiB, 10 MiB).  Input (no final newline):

      {"n":1}        accepted, written as it is
      {"n":300}      one object, but 300 does not convert to int8: ErrUnsupportedImportType
      (empty line)   not an object text: syntax error
      {"n":2} x      not an object text (trailing bytes): syntax error
      {"n":3}        accepted, written as it is

  The scanner is not evaluated: the lines come from `specLines` and the general theorems above, so
  the result holds for EVERY fault-free chunking of the input. -/
namespace Demo
open LineAccept.Demo

def cfgOf (p : Proc) : Cfg :=
  { env := env, ti := ti, to := ti, proc := p, initSize := 65536, maxSize := 10485760 }

/-- `{"n":1}` -/
def l1 : Bytes := [0x7B, 0x22, 0x6E, 0x22, 0x3A, 0x31, 0x7D]
/-- `{"n":300}` -/
def l300 : Bytes := [0x7B, 0x22, 0x6E, 0x22, 0x3A, 0x33, 0x30, 0x30, 0x7D]
/-- `{"n":2} x` -/
def l2x : Bytes := [0x7B, 0x22, 0x6E, 0x22, 0x3A, 0x32, 0x7D, 0x20, 0x78]
/-- `{"n":3}` -/
def l3 : Bytes := [0x7B, 0x22, 0x6E, 0x22, 0x3A, 0x33, 0x7D]

/-- `{"n":1}\n{"n":300}\n\n{"n":2} x\n{"n":3}` -/
def input : Bytes := l1 ++ [0x0A] ++ l300 ++ [0x0A] ++ [0x0A] ++ l2x ++ [0x0A] ++ l3

theorem lines_input : specLines input = [l1, l300, [], l2x, l3] := by
  have e : input = l1 ++ 0x0A :: (l300 ++ 0x0A :: ([] ++ 0x0A :: (l2x ++ 0x0A :: l3))) := by
    simp [input]
  rw [e, specLines_line _ _ (by decide), specLines_line _ _ (by decide),
    specLines_line _ _ (by decide), specLines_line _ _ (by decide),
    specLines_last _ (by decide) (by decide)]
  rfl

theorem parse300 : IntText.parseInt0 [0x33, 0x30, 0x30] 8 = none := by decide
theorem parse2 : IntText.parseInt0 [0x32] 8 = some 2 := by decide
theorem parse3 : IntText.parseInt0 [0x33] 8 = some 3 := by decide
theorem wrap2 : IntTy.i8.wrap 2 = 2 := by decide
theorem wrap3 : IntTy.i8.wrap 3 = 3 := by decide

theorem import_300 : importCell env .numeric (.int .i8) (.num [0x33, 0x30, 0x30]) =
    .ok (.cell .nil .numeric (.int .i8), some .unsupportedImport) := by
  simp [env, importCell, importByFormat, importFrom, importFail, Cast.castTo, Cast.callNamed, genTables,
    Gen.dispatchTo, Gen.casters, Cast.findClause, Cast.typeOf, Cast.evalBranch, Cast.evalE, Cast.runParse,
    parse300, Cast.failWith, Gen.sentinels, Cast.wrapsRoot]
theorem import_2 : importCell env .numeric (.int .i8) (.num [0x32]) =
    .ok (.cell (.int .i8 2) .numeric (.int .i8), none) := by
  simp [env, importCell, importByFormat, importFrom, importFail, Cast.castTo, Cast.callNamed, genTables,
    Gen.dispatchTo, Gen.casters, Cast.findClause, Cast.typeOf, Cast.evalBranch, Cast.evalE, Cast.runParse,
    parse2, wrap2]
theorem import_3 : importCell env .numeric (.int .i8) (.num [0x33]) =
    .ok (.cell (.int .i8 3) .numeric (.int .i8), none) := by
  simp [env, importCell, importByFormat, importFrom, importFail, Cast.castTo, Cast.callNamed, genTables,
    Gen.dispatchTo, Gen.casters, Cast.findClause, Cast.typeOf, Cast.evalBranch, Cast.evalE, Cast.runParse,
    parse3, wrap3]

open Json in
theorem unmarshal_l1 : Json.unmarshal l1 = (.cons [0x6E] (.num [0x31]) .nil, true) := by
  simp [l1, unmarshal, token, tokenCore, skipSpace, isSpace, asClose, parseObject, Json.more, asKey,
    asTok, strBody, pre, handleDelim, scanScalar, scanNumber, scanInt, scanFracExp, digits, isDigit,
    valueAllowed, valueEnd, isEof]
open Json in
theorem unmarshal_l300 : Json.unmarshal l300 = (.cons [0x6E] (.num [0x33, 0x30, 0x30]) .nil, true) := by
  simp [l300, unmarshal, token, tokenCore, skipSpace, isSpace, asClose, parseObject, Json.more, asKey,
    asTok, strBody, pre, handleDelim, scanScalar, scanNumber, scanInt, scanFracExp, digits, isDigit,
    valueAllowed, valueEnd, isEof]
open Json in
theorem unmarshal_l2x : Json.unmarshal l2x = (.cons [0x6E] (.num [0x32]) .nil, false) := by
  simp [l2x, unmarshal, token, tokenCore, skipSpace, isSpace, asClose, parseObject, Json.more, asKey,
    asTok, strBody, pre, handleDelim, scanScalar, scanNumber, scanInt, scanFracExp, digits, isDigit,
    valueAllowed, valueEnd, isEof]
open Json in
theorem unmarshal_l3 : Json.unmarshal l3 = (.cons [0x6E] (.num [0x33]) .nil, true) := by
  simp [l3, unmarshal, token, tokenCore, skipSpace, isSpace, asClose, parseObject, Json.more, asKey,
    asTok, strBody, pre, handleDelim, scanScalar, scanNumber, scanInt, scanFracExp, digits, isDigit,
    valueAllowed, valueEnd, isEof]

theorem getRow_l1 : getRow env ti l1 =
    .ok ([([0x6E], .cell (.int .i8 1) .numeric (.int .i8))], none) := by
  simp [getRow, createRowEmpty, clone_ti, unmarshalInto, unmarshal_l1, ofJVMembers, ofJV,
    parseMembers, parseMember, importVal, importInto, ti_eq, lookup, OMap.lookup, upsert,
    OMap.upsert, import_1]
theorem getRow_l300 : getRow env ti l300 =
    .ok ([([0x6E], .cell .nil .numeric (.int .i8))], some .unsupportedImport) := by
  simp [getRow, createRowEmpty, clone_ti, unmarshalInto, unmarshal_l300, ofJVMembers, ofJV,
    parseMembers, parseMember, importVal, importInto, ti_eq, lookup, OMap.lookup, upsert,
    OMap.upsert, import_300]
theorem getRow_l2x : getRow env ti l2x =
    .ok ([([0x6E], .cell (.int .i8 2) .numeric (.int .i8))], some .syntax) := by
  simp [getRow, createRowEmpty, clone_ti, unmarshalInto, unmarshal_l2x, ofJVMembers, ofJV,
    parseMembers, parseMember, importVal, importInto, ti_eq, lookup, OMap.lookup, upsert,
    OMap.upsert, import_2]
theorem getRow_l3 : getRow env ti l3 =
    .ok ([([0x6E], .cell (.int .i8 3) .numeric (.int .i8))], none) := by
  simp [getRow, createRowEmpty, clone_ti, unmarshalInto, unmarshal_l3, ofJVMembers, ofJV,
    parseMembers, parseMember, importVal, importInto, ti_eq, lookup, OMap.lookup, upsert,
    OMap.upsert, import_3]

theorem fmt3 : IntText.formatInt 3 = [0x33] := by
  simp [IntText.formatInt, IntText.natDigits, IntText.digitChar]

theorem marshal_3 : RowPrint.marshalVal env (.cell (.int .i8 3) .numeric (.int .i8)) = .ok [0x33] := by
  have n1 : JsonWrite.isValidNumber [0x33] = true := by decide
  have w3 : IntTy.i64.wrap 3 = 3 := by decide
  simp [env, RowPrint.marshalVal, exportVal, exportFail, Cast.castNamed, Cast.callNamed, genTables, Gen.casters,
    Cast.findClause, Cast.typeOf, Cast.evalBranch, Cast.evalE, w3, fmt3, RowPrint.marshalExported, n1]

theorem jlLine_l1 : jlLine env ti ti l1 = .ok (l1 ++ [0x0A], none) := by
  simp only [jlLine, getRow_l1]
  simp [exportLine, createRow, ti_eq, clone_ti, fillPairs, fill, lookup, OMap.lookup,
    upsert, OMap.upsert, Cells.raw, Cells.format, Cells.rawType, newValue_int, Members.ofList,
    Members.toList, RowPrint.marshalRow, RowPrint.marshalVal, RowPrint.marshalMembers, marshal_1,
    quote_n, RowPrint.joinComma, l1]

theorem jlLine_l300 : jlLine env ti ti l300 = .ok ([], some .unsupportedImport) :=
  jlLine_of_getRow_error env ti ti l300 _ _ getRow_l300

theorem jlLine_l2x : jlLine env ti ti l2x = .ok ([], some .syntax) :=
  jlLine_of_getRow_error env ti ti l2x _ _ getRow_l2x

theorem jlLine_l3 : jlLine env ti ti l3 = .ok (l3 ++ [0x0A], none) := by
  simp only [jlLine, getRow_l3]
  simp [exportLine, createRow, ti_eq, clone_ti, fillPairs, fill, lookup, OMap.lookup,
    upsert, OMap.upsert, Cells.raw, Cells.format, Cells.rawType, newValue_int, Members.ofList,
    Members.toList, RowPrint.marshalRow, RowPrint.marshalVal, RowPrint.marshalMembers, marshal_3,
    quote_n, RowPrint.joinComma, l3]

theorem jlLine_blank : jlLine env ti ti [] = .ok ([], some .syntax) :=
  (empty_line (cfgOf .tolerant) _ clone_ti).1

/-! the five lines under `cfgOf p` -/

theorem out_l1 (p : Proc) : out (cfgOf p) l1 = some (l1 ++ [0x0A]) := (out_eq_some_iff _ _ _).2 jlLine_l1
theorem out_l3 (p : Proc) : out (cfgOf p) l3 = some (l3 ++ [0x0A]) := (out_eq_some_iff _ _ _).2 jlLine_l3
theorem out_l300 (p : Proc) : out (cfgOf p) l300 = none := by simp [out, cfgOf, jlLine_l300]
theorem out_l2x (p : Proc) : out (cfgOf p) l2x = none := by simp [out, cfgOf, jlLine_l2x]
theorem out_blank (p : Proc) : out (cfgOf p) [] = none := blank_writes_nothing _ _ ws_nil

theorem acceptable_l1 (p : Proc) : acceptable (cfgOf p) l1 = true := by
  rw [← out_isSome_eq, out_l1]; rfl
theorem acceptable_l3 (p : Proc) : acceptable (cfgOf p) l3 = true := by
  rw [← out_isSome_eq, out_l3]; rfl
theorem acceptable_l300 (p : Proc) : acceptable (cfgOf p) l300 = false := by
  rw [← out_isSome_eq, out_l300]; rfl
theorem acceptable_l2x (p : Proc) : acceptable (cfgOf p) l2x = false := by
  rw [← out_isSome_eq, out_l2x]; rfl

/-- `{"n":300}` IS one JSON object — it is its column that does not convert. -/
theorem l300_objectText_not_converting :
    Grammar.IsObjectText l300 ∧ ConvertsAll env ti l300 = false :=
  ⟨(JsonAcc.accepts_iff _).1 (by simp [Json.accepts, unmarshal_l300]), by
    simp [ConvertsAll, clone_ti, unmarshal_l300, ofJVMembers, ofJV, convertsFrom, memberImport, ti_eq,
      lookup, OMap.lookup, Cells.format, Cells.rawType, import_300]⟩

/-- `{"n":2} x` is not an object text — its one delivered member converts. -/
theorem l2x_not_objectText : ¬ Grammar.IsObjectText l2x :=
  (JsonAcc.rejects_iff _).1 (by simp [Json.accepts, unmarshal_l2x])

theorem calls_l1 (p : Proc) : lineCalls (cfgOf p) l1 = [(true, none)] :=
  lineCalls_of_acceptable (acceptable_l1 p)
theorem calls_l3 (p : Proc) : lineCalls (cfgOf p) l3 = [(true, none)] :=
  lineCalls_of_acceptable (acceptable_l3 p)
theorem calls_l300 (p : Proc) : lineCalls (cfgOf p) l300 = [(false, some .unsupportedImport)] :=
  lineCalls_of_getRow_error (cfg := cfgOf p) getRow_l300
theorem calls_l2x (p : Proc) : lineCalls (cfgOf p) l2x = [(false, some .syntax)] :=
  lineCalls_of_getRow_error (cfg := cfgOf p) getRow_l2x
theorem calls_blank (p : Proc) : lineCalls (cfgOf p) [] = [(false, some .syntax)] :=
  (empty_line (cfgOf p) _ clone_ti).2.2.2

theorem input_length : input.length = 36 := by decide

theorem faultFree (p : Proc) (reader : List ReadEv) (hcalm : Calm 100 reader)
    (hd : allData reader = input) : FaultFree (cfgOf p) reader [] :=
  ⟨hcalm, linesFit_of_length (by rw [hd, input_length]; show (36 : Nat) < 10485760; decide),
    (by show (65536 : Nat) ≤ 10485760; decide),
    (by show (10485760 : Nat) ≤ 65536 * 2 ^ 200; decide), fun _ h => by cases h⟩

theorem settled (p : Proc) (reader : List ReadEv) (hd : allData reader = input) :
    ∀ l ∈ specLines (allData reader), Settled (cfgOf p) l := by
  rw [hd, lines_input]
  intro l hl
  simp only [List.mem_cons, List.not_mem_nil, or_false] at hl
  rcases hl with rfl | rfl | rfl | rfl | rfl
  · exact ⟨_, jlLine_l1⟩
  · exact ⟨_, jlLine_l300⟩
  · exact ⟨_, jlLine_blank⟩
  · exact ⟨_, jlLine_l2x⟩
  · exact ⟨_, jlLine_l3⟩

/-- **Target 4, tolerant**: whatever the chunking, `{"n":1}\n` and `{"n":3}\n` are written, in that
    order; the processor gets five calls, THREE of them with an error — the int8 overflow, the
    blank line (a syntax error: an empty line is not a JSON object) and the trailing garbage —
    and the stream returns nil. -/
theorem tolerant_run (reader : List ReadEv) (hcalm : Calm 100 reader) (hd : allData reader = input) :
    stream (cfgOf .tolerant) reader [] =
      .ok ⟨none,
        [(true, none), (false, some .unsupportedImport), (false, some .syntax),
         (false, some .syntax), (true, none)],
        [l1 ++ [0x0A], l3 ++ [0x0A]]⟩ := by
  obtain ⟨obs, h, hr, hw, hc, _⟩ := tolerant_stream (cfgOf .tolerant) rfl reader []
    (faultFree _ reader hcalm hd) (settled _ reader hd)
  rw [hd, lines_input] at hw hc
  rw [h]
  obtain ⟨r, c, w⟩ := obs
  simp only at hr hw hc
  subst hr
  rw [hw, hc]
  simp [List.filterMap_cons, List.flatMap_cons, out_l1, out_l3, out_l300, out_l2x, out_blank,
    calls_l1, calls_l3, calls_l300, calls_l2x, calls_blank]

/-- **Target 4, default**: `{"n":1}\n` only, and the stream returns the import error of
    `{"n":300}`; the lines after it are not processed. -/
theorem default_run (reader : List ReadEv) (hcalm : Calm 100 reader) (hd : allData reader = input) :
    stream (cfgOf .default) reader [] =
      .ok ⟨some .unsupportedImport, [(true, none), (false, some .unsupportedImport)],
        [l1 ++ [0x0A]]⟩ := by
  obtain ⟨obs, h, hw, hr, hc⟩ := default_stream (cfgOf .default) rfl reader []
    (faultFree _ reader hcalm hd) (settled _ reader hd)
  rw [hd, lines_input] at hw hr hc
  rw [h]
  obtain ⟨r, c, w⟩ := obs
  simp only at hr hw hc
  have he : lineErr (cfgOf .default) l300 = some .unsupportedImport := by
    simp [lineErr, cfgOf, jlLine_l300]
  have hm : emitted (cfgOf .default) l1 = l1 ++ [0x0A] := by simp [emitted, out_l1]
  rw [hw, hr, hc]
  simp [List.takeWhile_cons, List.find?_cons, acceptable_l1, acceptable_l300, he, hm, calls_l1,
    calls_l300]

/-- The same runs for one concrete chunking (the input split in the middle of the second line, an
    empty read in between). -/
example : stream (cfgOf .tolerant) [.data (input.take 12), .empty, .data (input.drop 12)] [] =
    .ok ⟨none,
      [(true, none), (false, some .unsupportedImport), (false, some .syntax),
       (false, some .syntax), (true, none)],
      [l1 ++ [0x0A], l3 ++ [0x0A]]⟩ :=
  tolerant_run _ (by
    have h1 : input.take 12 ≠ [] := by decide
    have h2 : input.drop 12 ≠ [] := by decide
    simp [Calm, h1, h2]) (by simp [allData])

example : stream (cfgOf .default) [.data input] [] =
    .ok ⟨some .unsupportedImport, [(true, none), (false, some .unsupportedImport)], [l1 ++ [0x0A]]⟩ :=
  default_run _ (by
    have h1 : input ≠ [] := by decide
    simp [Calm, h1]) (by simp [allData])

/-- Target 2 on this input: dropping the two rejected middle lines and the blank one leaves the
    writes of the neighbours unchanged. -/
example (p : Proc) : writesOf (cfgOf p) input = [l1 ++ [0x0A], l3 ++ [0x0A]] ∧
    writesOf (cfgOf p) (l1 ++ [0x0A] ++ l3) = [l1 ++ [0x0A], l3 ++ [0x0A]] := by
  constructor
  · unfold writesOf
    rw [lines_input]
    simp [List.filterMap_cons, out_l1, out_l3, out_l300, out_l2x, out_blank]
  · have e : l1 ++ [0x0A] ++ l3 = l1 ++ 0x0A :: l3 := by simp
    unfold writesOf
    rw [e, specLines_line _ _ (by decide), specLines_last _ (by decide) (by decide)]
    have d1 : dropCR l1 = l1 := by decide
    have d3 : dropCR l3 = l3 := by decide
    simp [List.filterMap_cons, d1, d3, out_l1, out_l3]

/-- **A blank line is not skipped**: the input consisting of one empty line (`"\n"`) costs one
    processor call carrying a syntax error and writes nothing; the default processor returns that
    error.  (So "the error calls are the NON-BLANK unacceptable lines" is false in the model: the
    count in `tolerant_writes_exactly_acceptable` is over all lines that are not acceptable.) -/
theorem blank_line_run (reader : List ReadEv) (hcalm : Calm 100 reader) (hd : allData reader = [0x0A]) :
    stream (cfgOf .tolerant) reader [] = .ok ⟨none, [(false, some .syntax)], []⟩ ∧
    stream (cfgOf .default) reader [] = .ok ⟨some .syntax, [(false, some .syntax)], []⟩ := by
  have hl : specLines [0x0A] = [[]] := by decide
  have hff : ∀ p, FaultFree (cfgOf p) reader [] := fun p =>
    ⟨hcalm, linesFit_of_length (by rw [hd]; show (1 : Nat) < 10485760; decide),
      (by show (65536 : Nat) ≤ 10485760; decide),
      (by show (10485760 : Nat) ≤ 65536 * 2 ^ 200; decide), fun _ h => by cases h⟩
  have hs : ∀ p, ∀ l ∈ specLines (allData reader), Settled (cfgOf p) l := by
    intro p l h
    rw [hd, hl] at h
    simp only [List.mem_cons, List.not_mem_nil, or_false] at h
    subst h
    exact ⟨_, jlLine_blank⟩
  constructor
  · obtain ⟨obs, h, hr, hw, hc, _⟩ := tolerant_stream (cfgOf .tolerant) rfl reader [] (hff _) (hs _)
    rw [hd, hl] at hw hc
    rw [h]
    obtain ⟨r, c, w⟩ := obs
    simp only at hr hw hc
    subst hr
    rw [hw, hc]
    simp [List.filterMap_cons, List.flatMap_cons, out_blank, calls_blank]
  · obtain ⟨obs, h, hw, hr, hc⟩ := default_stream (cfgOf .default) rfl reader [] (hff _) (hs _)
    rw [hd, hl] at hw hr hc
    rw [h]
    obtain ⟨r, c, w⟩ := obs
    simp only at hr hw hc
    have ha : acceptable (cfgOf .default) [] = false := blank_not_acceptable _ _ ws_nil
    have he : lineErr (cfgOf .default) [] = some .syntax := (empty_line (cfgOf .default) _ clone_ti).2.2.1
    rw [hw, hr, hc]
    simp [List.takeWhile_cons, List.find?_cons, ha, he, calls_blank]

end Demo

end Jl.StreamAccept
