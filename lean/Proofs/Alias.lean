/-
  Proofs.Alias — property C15: rows made from a template are independent of the template and
  of one another (Model.Alias).

  Layout
   1  `cloneRow`: fresh, distinct addresses; heap unchanged below the old `next`; content of the
      clone (`cloneRow_content`).
   3  invariants: `Disj` (weak separation: bounds + no cell shared between two row objects),
      `AddrsNodup`, `KeysNodup`; `sep_iff : Sep w ↔ Disj w ∧ AddrsNodup w`.
   5  `Upd`: the five shapes of a step; `step_upd`.
   6  preservation: `disj_step` / `disj_run` (unconditional), `sep_step` / `sep_run` (with
      distinct keys), `sep_step_of_not_setKey`.
   7  `sep_init`, `content_init`.
   8  frame property for one step: `frame_proto`, `frame_row` (+ per-operation corollaries),
      `frame_drop`, `frame_content`.
   9  histories: `template_unchanged`, `template_content_init`, `template_produces_same`,
      `createEmpty_after_history`, `frame_run`, `clone_independent`.
  10  `Live`: every cell in use exists (so `cloneRow` skips nothing in a reachable world).
  11  witnesses on a concrete world, the NEGATIVE witness `bad_createEmpty_breaks_template`, and
      the counterexample `sep_step_setKey_dupkeys_false`.

  NOT proved, because false as stated:
    -- theorem sep_step' (op : Op C) : Sep w → Sep (step w op)
  With a key occurring twice in a row, `setKey` writes ONE new address at both entries
  (`replaceAddr` maps every matching entry), so the row's own address list gets a duplicate and
  `Sep` fails (`sep_step_setKey_dupkeys_false`).  Nothing is shared BETWEEN row objects, and
  that is all the frame property needs: every frame / history theorem below is proved from
  `Disj`, which `Sep` implies and which every step preserves unconditionally; so they hold for
  any `Sep` world and any history, duplicate keys or not.
-/
import Model.Alias

namespace Jl.Alias
variable {C : Type}

/-- `omega` does not look through the abbreviation `Addr := Nat`; unfold it first. -/
local macro "aomega" : tactic => `(tactic| ((try dsimp only [Addr] at *); omega))

/-! ## 0. Heap primitives -/

@[simp] theorem alloc_next (h : Heap C) (c : C) : (h.alloc c).1.next = h.next + 1 := rfl
@[simp] theorem alloc_addr (h : Heap C) (c : C) : (h.alloc c).2 = h.next := rfl
@[simp] theorem alloc_cells (h : Heap C) (c : C) (a : Addr) :
    (h.alloc c).1.cells a = if a = h.next then some c else h.cells a := rfl
@[simp] theorem write_next (h : Heap C) (a : Addr) (c : C) : (h.write a c).next = h.next := rfl
@[simp] theorem write_cells (h : Heap C) (a : Addr) (c : C) (a' : Addr) :
    (h.write a c).cells a' = if a' = a then some c else h.cells a' := rfl

@[simp] theorem addrs_nil : addrs [] = [] := rfl
@[simp] theorem addrs_cons (e : Bytes × Addr) (r : RowObj) : addrs (e :: r) = e.2 :: addrs r := rfl
@[simp] theorem addrs_append (r s : RowObj) : addrs (r ++ s) = addrs r ++ addrs s := by
  simp [addrs]
@[simp] theorem content_nil (h : Heap C) : content h [] = [] := rfl
@[simp] theorem content_cons (h : Heap C) (e : Bytes × Addr) (r : RowObj) :
    content h (e :: r) = (e.1, h.cells e.2) :: content h r := rfl
@[simp] theorem content_append (h : Heap C) (r s : RowObj) :
    content h (r ++ s) = content h r ++ content h s := by
  simp [content]

/-- Two heaps that agree on the addresses of a row give it the same content. -/
theorem content_congr {h h' : Heap C} {r : RowObj}
    (hh : ∀ a ∈ addrs r, h'.cells a = h.cells a) : content h' r = content h r := by
  induction r with
  | nil => rfl
  | cons e r ih =>
    simp only [content_cons]
    rw [hh e.2 (by simp), ih (fun a ha => hh a (by simp [ha]))]

/-- Writing a cell that is not one of the row's cells does not change the row's content. -/
theorem content_write_of_not_mem (h : Heap C) (a : Addr) (c : C) (r : RowObj)
    (ha : a ∉ addrs r) : content (h.write a c) r = content h r := by
  apply content_congr
  intro b hb
  have : b ≠ a := fun e => ha (e ▸ hb)
  simp [this]

/-- Allocation does not change the content of a row whose cells are already allocated. -/
theorem content_alloc_of_lt (h : Heap C) (c : C) (r : RowObj)
    (hr : ∀ a ∈ addrs r, a < h.next) : content (h.alloc c).1 r = content h r := by
  apply content_congr
  intro b hb
  have : b ≠ h.next := Nat.ne_of_lt (hr b hb)
  simp [this]

/-! ## 1. `cloneRow` -/

theorem cloneRow_nil (clone : C → C) (h : Heap C) : cloneRow clone h [] = (h, []) := rfl

theorem cloneRow_cons_none (clone : C → C) (h : Heap C) (k : Bytes) (a : Addr) (rest : RowObj)
    (ha : h.cells a = none) : cloneRow clone h ((k, a) :: rest) = cloneRow clone h rest := by
  simp [cloneRow, ha]

theorem cloneRow_cons_some (clone : C → C) (h : Heap C) (k : Bytes) (a : Addr) (rest : RowObj)
    (c : C) (ha : h.cells a = some c) :
    cloneRow clone h ((k, a) :: rest) =
      ((cloneRow clone (h.alloc (clone c)).1 rest).1,
        (k, h.next) :: (cloneRow clone (h.alloc (clone c)).1 rest).2) := by
  simp [cloneRow, ha]

/-- `next` only grows. -/
theorem cloneRow_next_le (clone : C → C) (h : Heap C) (r : RowObj) :
    h.next ≤ (cloneRow clone h r).1.next := by
  induction r generalizing h with
  | nil => simp [cloneRow_nil]
  | cons e rest ih =>
    obtain ⟨k, a⟩ := e
    cases ha : h.cells a with
    | none => rw [cloneRow_cons_none _ _ _ _ _ ha]; exact ih h
    | some c =>
      rw [cloneRow_cons_some _ _ _ _ _ c ha]
      have := ih (h.alloc (clone c)).1
      simp at this ⊢; aomega

/-- The heap is unchanged below the old `next`. -/
theorem cloneRow_cells_below (clone : C → C) (h : Heap C) (r : RowObj) :
    ∀ a, a < h.next → (cloneRow clone h r).1.cells a = h.cells a := by
  induction r generalizing h with
  | nil => intro a _; rfl
  | cons e rest ih =>
    obtain ⟨k, a⟩ := e
    intro b hb
    cases ha : h.cells a with
    | none => rw [cloneRow_cons_none _ _ _ _ _ ha]; exact ih h b hb
    | some c =>
      rw [cloneRow_cons_some _ _ _ _ _ c ha]
      have := ih (h.alloc (clone c)).1 b (by simp; aomega)
      simp only [this, alloc_cells]
      simp [Nat.ne_of_lt hb]

/-- Every address of the clone is fresh: at or above the old `next`, below the new `next`. -/
theorem cloneRow_addrs_fresh (clone : C → C) (h : Heap C) (r : RowObj) :
    ∀ a ∈ addrs (cloneRow clone h r).2, h.next ≤ a ∧ a < (cloneRow clone h r).1.next := by
  induction r generalizing h with
  | nil => intro a ha; simp [cloneRow_nil] at ha
  | cons e rest ih =>
    obtain ⟨k, a⟩ := e
    intro b hb
    cases ha : h.cells a with
    | none => rw [cloneRow_cons_none _ _ _ _ _ ha] at hb ⊢; exact ih h b hb
    | some c =>
      rw [cloneRow_cons_some _ _ _ _ _ c ha] at hb ⊢
      simp only [addrs_cons, List.mem_cons] at hb
      have hle := cloneRow_next_le clone (h.alloc (clone c)).1 rest
      simp only [alloc_next] at hle
      rcases hb with rfl | hb
      · simp only; aomega
      · have := ih (h.alloc (clone c)).1 b hb
        simp only [alloc_next] at this
        simp only; aomega

/-- The addresses of the clone are pairwise distinct. -/
theorem cloneRow_addrs_nodup (clone : C → C) (h : Heap C) (r : RowObj) :
    (addrs (cloneRow clone h r).2).Nodup := by
  induction r generalizing h with
  | nil => simp [cloneRow_nil]
  | cons e rest ih =>
    obtain ⟨k, a⟩ := e
    cases ha : h.cells a with
    | none => rw [cloneRow_cons_none _ _ _ _ _ ha]; exact ih h
    | some c =>
      rw [cloneRow_cons_some _ _ _ _ _ c ha]
      simp only [addrs_cons, List.nodup_cons]
      refine ⟨fun hm => ?_, ih _⟩
      have := (cloneRow_addrs_fresh clone (h.alloc (clone c)).1 rest _ hm).1
      simp only [alloc_next] at this; aomega

/-- No address of the clone is an address that was in use (below the old `next`). -/
theorem cloneRow_addrs_not_old (clone : C → C) (h : Heap C) (r : RowObj) (a : Addr)
    (ha : a < h.next) : a ∉ addrs (cloneRow clone h r).2 := fun hm =>
  Nat.lt_irrefl _ (Nat.lt_of_lt_of_le ha (cloneRow_addrs_fresh clone h r a hm).1)

/-- Every cell of the clone exists in the new heap. -/
theorem cloneRow_cells_new (clone : C → C) (h : Heap C) (r : RowObj) :
    ∀ a ∈ addrs (cloneRow clone h r).2, ((cloneRow clone h r).1.cells a).isSome = true := by
  induction r generalizing h with
  | nil => intro a ha; simp [cloneRow_nil] at ha
  | cons e rest ih =>
    obtain ⟨k, a⟩ := e
    intro b hb
    cases ha : h.cells a with
    | none => rw [cloneRow_cons_none _ _ _ _ _ ha] at hb ⊢; exact ih h b hb
    | some c =>
      rw [cloneRow_cons_some _ _ _ _ _ c ha] at hb ⊢
      simp only [addrs_cons, List.mem_cons] at hb
      rcases hb with rfl | hb
      · simp only
        rw [cloneRow_cells_below clone (h.alloc (clone c)).1 rest h.next (by simp)]
        simp
      · exact ih (h.alloc (clone c)).1 b hb

/-- Cloning does not change the content of any row whose cells are already allocated. -/
theorem content_cloneRow_of_lt (clone : C → C) (h : Heap C) (src r : RowObj)
    (hr : ∀ a ∈ addrs r, a < h.next) : content (cloneRow clone h src).1 r = content h r :=
  content_congr fun a ha => cloneRow_cells_below clone h src a (hr a ha)

/-- The keys of the clone: a sublist of the source's keys (entries without a cell are skipped). -/
theorem cloneRow_keys_sublist (clone : C → C) (h : Heap C) (r : RowObj) :
    ((cloneRow clone h r).2.map Prod.fst).Sublist (r.map Prod.fst) := by
  induction r generalizing h with
  | nil => simp [cloneRow_nil]
  | cons e rest ih =>
    obtain ⟨k, a⟩ := e
    cases ha : h.cells a with
    | none =>
      rw [cloneRow_cons_none _ _ _ _ _ ha]
      exact List.Sublist.cons _ (ih h)
    | some c =>
      rw [cloneRow_cons_some _ _ _ _ _ c ha]
      simp only [List.map_cons]
      exact List.Sublist.cons_cons _ (ih _)

/-- What a clone holds: `clone` applied to the content of each source entry that has a cell
    (entries without a cell are skipped). -/
def cloned (clone : C → C) (l : List (Bytes × Option C)) : List (Bytes × Option C) :=
  l.filterMap fun e => e.2.map fun c => (e.1, some (clone c))

/-- The content of the clone is `clone` applied to the content of the source. -/
theorem cloneRow_content (clone : C → C) (h : Heap C) (r : RowObj)
    (hr : ∀ a ∈ addrs r, a < h.next) :
    content (cloneRow clone h r).1 (cloneRow clone h r).2 = cloned clone (content h r) := by
  induction r generalizing h with
  | nil => simp [cloneRow_nil, cloned]
  | cons e rest ih =>
    obtain ⟨k, a⟩ := e
    have hrest : ∀ b ∈ addrs rest, b < h.next := fun b hb => hr b (by simp [hb])
    cases ha : h.cells a with
    | none =>
      rw [cloneRow_cons_none _ _ _ _ _ ha, ih h hrest]
      simp [cloned, ha]
    | some c =>
      rw [cloneRow_cons_some _ _ _ _ _ c ha]
      have h1 := ih (h.alloc (clone c)).1 (fun b hb => by simp; have := hrest b hb; aomega)
      have h2 := cloneRow_cells_below clone (h.alloc (clone c)).1 rest h.next (by simp)
      simp only [content_cons, h1, h2, content_alloc_of_lt h (clone c) rest hrest]
      simp [cloned, ha]

theorem cloned_map_some (clone : C → C) (l : List (Bytes × C)) :
    cloned clone (l.map fun e => (e.1, some e.2)) = l.map fun e => (e.1, some (clone e.2)) := by
  induction l with
  | nil => rfl
  | cons e l ih =>
    simp only [cloned] at ih
    simp [cloned, ih]

/-- When every source entry has a cell (the source's content is `l` with all cells present), the
    clone has the same keys in the same order, each holding `clone` of the source cell. -/
theorem cloneRow_content_full (clone : C → C) (h : Heap C) (r : RowObj)
    (hr : ∀ a ∈ addrs r, a < h.next) (l : List (Bytes × C))
    (hl : content h r = l.map fun e => (e.1, some e.2)) :
    content (cloneRow clone h r).1 (cloneRow clone h r).2 =
      l.map fun e => (e.1, some (clone e.2)) := by
  rw [cloneRow_content clone h r hr, hl, cloned_map_some]

/-! ## 2. List helpers -/

section ListHelpers
variable {α : Type}

theorem getElem?_append_singleton {l : List α} {x y : α} {i : Nat}
    (h : (l ++ [x])[i]? = some y) : l[i]? = some y ∨ (i = l.length ∧ y = x) := by
  rw [List.getElem?_append] at h
  split at h
  · exact .inl h
  · rw [List.getElem?_singleton] at h
    split at h
    · right; constructor
      · omega
      · exact (Option.some.inj h).symm
    · cases h

theorem getElem?_set_some {l : List α} {x y : α} {i j : Nat}
    (h : (l.set i x)[j]? = some y) : (j = i ∧ y = x) ∨ (j ≠ i ∧ l[j]? = some y) := by
  rw [List.getElem?_set] at h
  split at h
  · split at h
    · left; exact ⟨by omega, (Option.some.inj h).symm⟩
    · cases h
  · right; exact ⟨by omega, h⟩

theorem getElem?_eraseIdx_some {l : List α} {y : α} {i j : Nat}
    (h : (l.eraseIdx i)[j]? = some y) :
    ∃ j', l[j']? = some y ∧ j' = if j < i then j else j + 1 := by
  rw [List.getElem?_eraseIdx] at h
  split at h
  · exact ⟨j, h, by simp [*]⟩
  · exact ⟨j + 1, h, by simp [*]⟩

/-- Duplicate-freeness of a concatenation of lists: each list is duplicate-free and the lists
    are pairwise disjoint. -/
theorem nodup_flatten_iff (L : List (List α)) :
    L.flatten.Nodup ↔
      (∀ l ∈ L, l.Nodup) ∧ L.Pairwise (fun x y => ∀ a ∈ x, a ∉ y) := by
  induction L with
  | nil => simp
  | cons x L ih =>
    simp only [List.flatten_cons, List.nodup_append, ih, List.mem_cons, List.pairwise_cons,
      List.mem_flatten]
    constructor
    · rintro ⟨hx, ⟨hL, hP⟩, hd⟩
      refine ⟨?_, ?_, hP⟩
      · rintro l (rfl | hl)
        · exact hx
        · exact hL l hl
      · intro y hy a hax hay
        exact hd a hax a ⟨y, hy, hay⟩ rfl
    · rintro ⟨hN, hd, hP⟩
      refine ⟨hN x (.inl rfl), ⟨fun l hl => hN l (.inr hl), hP⟩, ?_⟩
      rintro a hax b ⟨y, hy, hby⟩ rfl
      exact hd y hy a hax hby

/-- Pairwise disjointness stated with indices. -/
theorem pairwise_disjoint_iff (L : List (List α)) :
    L.Pairwise (fun x y => ∀ a ∈ x, a ∉ y) ↔
      ∀ (i j : Nat) x y, L[i]? = some x → L[j]? = some y → i ≠ j → ∀ a ∈ x, a ∉ y := by
  rw [List.pairwise_iff_getElem]
  constructor
  · intro H i j x y hi hj hij a hax hay
    obtain ⟨hi', rfl⟩ := List.getElem?_eq_some_iff.mp hi
    obtain ⟨hj', rfl⟩ := List.getElem?_eq_some_iff.mp hj
    rcases Nat.lt_or_gt_of_ne hij with hlt | hgt
    · exact H i j hi' hj' hlt a hax hay
    · exact H j i hj' hi' hgt a hay hax
  · intro H i j hi hj hij
    exact H i j _ _ (List.getElem?_eq_getElem hi) (List.getElem?_eq_getElem hj) (Nat.ne_of_lt hij)

end ListHelpers

/-! ## 3. Invariants -/

def keys (r : RowObj) : List Bytes := r.map Prod.fst

@[simp] theorem keys_nil : keys [] = [] := rfl
@[simp] theorem keys_cons (e : Bytes × Addr) (r : RowObj) : keys (e :: r) = e.1 :: keys r := rfl
@[simp] theorem keys_append (r s : RowObj) : keys (r ++ s) = keys r ++ keys s := by simp [keys]

/-- Weak separation (all that the frame property needs): every address in use is allocated, the
    prototype shares no cell with a live row, and two different live rows share no cell.
    Unlike `Sep` it does not ask a row's own addresses to be duplicate-free. -/
structure Disj (w : World C) : Prop where
  proto_lt : ∀ a ∈ addrs w.proto, a < w.heap.next
  rows_lt : ∀ r ∈ w.rows, ∀ a ∈ addrs r, a < w.heap.next
  proto_rows : ∀ r ∈ w.rows, ∀ a ∈ addrs w.proto, a ∉ addrs r
  rows_rows : ∀ (i j : Nat) ri rj, w.rows[i]? = some ri → w.rows[j]? = some rj → i ≠ j →
    ∀ a ∈ addrs ri, a ∉ addrs rj

/-- Each row object (prototype included) holds pairwise distinct addresses. -/
structure AddrsNodup (w : World C) : Prop where
  proto : (addrs w.proto).Nodup
  rows : ∀ r ∈ w.rows, (addrs r).Nodup

/-- Each row object (prototype included) has pairwise distinct keys. -/
structure KeysNodup (w : World C) : Prop where
  proto : (keys w.proto).Nodup
  rows : ∀ r ∈ w.rows, (keys r).Nodup

/-- `Sep` is exactly weak separation plus duplicate-freeness inside each row object. -/
theorem sep_iff (w : World C) : Sep w ↔ Disj w ∧ AddrsNodup w := by
  unfold Sep
  rw [List.nodup_append, nodup_flatten_iff, pairwise_disjoint_iff]
  constructor
  · rintro ⟨hlt, hp, ⟨hr, hrr⟩, hpr⟩
    refine ⟨⟨?_, ?_, ?_, ?_⟩, ⟨hp, ?_⟩⟩
    · intro a ha; exact hlt a (List.mem_append_left _ ha)
    · intro r hr' a ha
      exact hlt a (List.mem_append_right _ (List.mem_flatten.mpr ⟨_, List.mem_map_of_mem hr', ha⟩))
    · intro r hr' a ha hm
      exact hpr a ha a (List.mem_flatten.mpr ⟨_, List.mem_map_of_mem hr', hm⟩) rfl
    · intro i j ri rj hi hj hij a hai haj
      exact hrr i j (addrs ri) (addrs rj) (by simp [hi]) (by simp [hj]) hij a hai haj
    · intro r hr'; exact hr _ (List.mem_map_of_mem hr')
  · rintro ⟨d, n⟩
    refine ⟨?_, n.proto, ⟨?_, ?_⟩, ?_⟩
    · intro a ha
      rcases List.mem_append.mp ha with ha | ha
      · exact d.proto_lt a ha
      · obtain ⟨l, hl, hal⟩ := List.mem_flatten.mp ha
        obtain ⟨r, hr, rfl⟩ := List.mem_map.mp hl
        exact d.rows_lt r hr a hal
    · intro l hl
      obtain ⟨r, hr, rfl⟩ := List.mem_map.mp hl
      exact n.rows r hr
    · intro i j x y hi hj hij a hax hay
      rw [List.getElem?_map, Option.map_eq_some_iff] at hi hj
      obtain ⟨ri, hi, rfl⟩ := hi
      obtain ⟨rj, hj, rfl⟩ := hj
      exact d.rows_rows i j ri rj hi hj hij a hax hay
    · rintro a ha b hb rfl
      obtain ⟨l, hl, hal⟩ := List.mem_flatten.mp hb
      obtain ⟨r, hr, rfl⟩ := List.mem_map.mp hl
      exact d.proto_rows r hr a ha hal

theorem Sep.disj {w : World C} (h : Sep w) : Disj w := ((sep_iff w).mp h).1
theorem Sep.addrsNodup {w : World C} (h : Sep w) : AddrsNodup w := ((sep_iff w).mp h).2

/-! ## 4. `addrOf`, `replaceAddr` -/

theorem addrOf_some_mem {r : RowObj} {k : Bytes} {a : Addr} (h : addrOf r k = some a) :
    a ∈ addrs r := by
  unfold addrOf at h
  rw [Option.map_eq_some_iff] at h
  obtain ⟨e, he, rfl⟩ := h
  exact List.mem_map_of_mem (List.mem_of_find?_eq_some he)

theorem addrOf_none_not_mem {r : RowObj} {k : Bytes} (h : addrOf r k = none) : k ∉ keys r := by
  unfold addrOf at h
  rw [Option.map_eq_none_iff, List.find?_eq_none] at h
  intro hk
  obtain ⟨e, he, rfl⟩ := List.mem_map.mp hk
  exact h e he (by simp)

/-- The entry-rewriting function of `replaceAddr`. -/
def repl (k : Bytes) (a : Addr) (e : Bytes × Addr) : Bytes × Addr := if e.1 == k then (k, a) else e

theorem replaceAddr_present {r : RowObj} {k : Bytes} (a : Addr)
    (h : (addrOf r k).isSome = true) : replaceAddr r k a = r.map (repl k a) := by
  unfold replaceAddr; rw [if_pos h]; rfl

theorem replaceAddr_absent {r : RowObj} {k : Bytes} (a : Addr)
    (h : addrOf r k = none) : replaceAddr r k a = r ++ [(k, a)] := by
  unfold replaceAddr; rw [if_neg (by simp [h])]

theorem repl_fst (k : Bytes) (a : Addr) (e : Bytes × Addr) : (repl k a e).1 = e.1 := by
  unfold repl
  split
  · rename_i h; exact (eq_of_beq h).symm
  · rfl

theorem repl_snd (k : Bytes) (a : Addr) (e : Bytes × Addr) :
    (repl k a e).2 = e.2 ∨ (repl k a e).2 = a := by
  unfold repl
  split
  · exact .inr rfl
  · exact .inl rfl

theorem keys_map_repl (r : RowObj) (k : Bytes) (a : Addr) : keys (r.map (repl k a)) = keys r := by
  induction r with
  | nil => rfl
  | cons e r ih => simp [repl_fst, ih]

theorem mem_addrs_map_repl {r : RowObj} {k : Bytes} {a b : Addr}
    (h : b ∈ addrs (r.map (repl k a))) : b ∈ addrs r ∨ b = a := by
  induction r with
  | nil => simp at h
  | cons e r ih =>
    simp only [List.map_cons, addrs_cons, List.mem_cons] at h ⊢
    rcases h with rfl | h
    · rcases repl_snd k a e with h | h
      · exact .inl (.inl h)
      · exact .inr h
    · rcases ih h with h | h
      · exact .inl (.inr h)
      · exact .inr h

theorem map_repl_of_not_mem {r : RowObj} {k : Bytes} (a : Addr) (h : k ∉ keys r) :
    r.map (repl k a) = r := by
  induction r with
  | nil => rfl
  | cons e r ih =>
    simp only [keys_cons, List.mem_cons, not_or] at h
    have : repl k a e = e := by
      unfold repl
      rw [if_neg]
      intro hb; exact h.1 (eq_of_beq hb).symm
    simp [this, ih h.2]

/-- With distinct keys, rewriting the address at key `k` to a fresh address keeps the addresses
    of the row distinct. -/
theorem nodup_addrs_map_repl {r : RowObj} {k : Bytes} {a : Addr}
    (hk : (keys r).Nodup) (hn : (addrs r).Nodup) (ha : a ∉ addrs r) :
    (addrs (r.map (repl k a))).Nodup := by
  induction r with
  | nil => simp
  | cons e r ih =>
    simp only [keys_cons, addrs_cons, List.nodup_cons, List.mem_cons, not_or] at hk hn ha
    by_cases hb : (e.1 == k) = true
    · have hk' : k ∉ keys r := by rw [← eq_of_beq hb]; exact hk.1
      have he : repl k a e = (k, a) := by unfold repl; rw [if_pos hb]
      rw [List.map_cons, map_repl_of_not_mem a hk', he]
      simp only [addrs_cons, List.nodup_cons]
      exact ⟨ha.2, hn.2⟩
    · have he : repl k a e = e := by unfold repl; rw [if_neg hb]
      rw [List.map_cons, he]
      simp only [addrs_cons, List.nodup_cons]
      refine ⟨fun hm => ?_, ih hk.2 hn.2 ha.2⟩
      rcases mem_addrs_map_repl hm with hm | hm
      · exact hn.1 hm
      · exact ha.1 hm.symm

theorem mem_addrs_replaceAddr {r : RowObj} {k : Bytes} {a b : Addr}
    (h : b ∈ addrs (replaceAddr r k a)) : b ∈ addrs r ∨ b = a := by
  cases hk : addrOf r k with
  | none =>
    rw [replaceAddr_absent a hk] at h
    simpa using h
  | some a' =>
    rw [replaceAddr_present a (by simp [hk])] at h
    exact mem_addrs_map_repl h

theorem nodup_keys_replaceAddr {r : RowObj} {k : Bytes} {a : Addr} (hk : (keys r).Nodup) :
    (keys (replaceAddr r k a)).Nodup := by
  cases h : addrOf r k with
  | none =>
    rw [replaceAddr_absent a h, keys_append, List.nodup_append]
    refine ⟨hk, by simp, ?_⟩
    intro x hx y hy hxy
    simp only [keys_cons, keys_nil, List.mem_singleton] at hy
    exact addrOf_none_not_mem h (hy ▸ hxy ▸ hx)
  | some a' =>
    rw [replaceAddr_present a (by simp [h]), keys_map_repl]
    exact hk

theorem nodup_addrs_append_fresh {r : RowObj} {k : Bytes} {a : Addr}
    (hn : (addrs r).Nodup) (ha : a ∉ addrs r) : (addrs (r ++ [(k, a)])).Nodup := by
  rw [addrs_append, List.nodup_append]
  refine ⟨hn, by simp, ?_⟩
  intro x hx y hy hxy
  simp only [addrs_cons, addrs_nil, List.mem_singleton] at hy
  exact ha (hy ▸ hxy ▸ hx)

theorem nodup_addrs_replaceAddr {r : RowObj} {k : Bytes} {a : Addr}
    (hk : (keys r).Nodup) (hn : (addrs r).Nodup) (ha : a ∉ addrs r) :
    (addrs (replaceAddr r k a)).Nodup := by
  cases h : addrOf r k with
  | none =>
    rw [replaceAddr_absent a h]
    exact nodup_addrs_append_fresh hn ha
  | some a' =>
    rw [replaceAddr_present a (by simp [h])]
    exact nodup_addrs_map_repl hk hn ha

/-! ## 5. The shape of a step -/

theorem step_createEmpty (w : World C) (clone : C → C) :
    step w (.createEmpty clone) =
      { w with heap := (cloneRow clone w.heap w.proto).1,
               rows := w.rows ++ [(cloneRow clone w.heap w.proto).2] } := rfl

theorem step_cloneLive_some {w : World C} {i : Nat} {src : RowObj} (clone : C → C)
    (h : w.rows[i]? = some src) :
    step w (.cloneLive i clone) =
      { w with heap := (cloneRow clone w.heap src).1,
               rows := w.rows ++ [(cloneRow clone w.heap src).2] } := by
  simp only [step, h]

theorem step_cloneLive_none {w : World C} {i : Nat} (clone : C → C) (h : w.rows[i]? = none) :
    step w (.cloneLive i clone) = w := by
  simp only [step, h]

theorem step_importKey_present {w : World C} {i : Nat} {r : RowObj} {k : Bytes} {a : Addr}
    (f : Option C → C) (h : w.rows[i]? = some r) (ha : addrOf r k = some a) :
    step w (.importKey i k f) = { w with heap := w.heap.write a (f (w.heap.cells a)) } := by
  simp only [step, h, ha]

theorem step_importKey_absent {w : World C} {i : Nat} {r : RowObj} {k : Bytes}
    (f : Option C → C) (h : w.rows[i]? = some r) (ha : addrOf r k = none) :
    step w (.importKey i k f) =
      { w with heap := (w.heap.alloc (f none)).1,
               rows := w.rows.set i (r ++ [(k, w.heap.next)]) } := by
  simp only [step, h, ha]; rfl

theorem step_importKey_none {w : World C} {i : Nat} (k : Bytes) (f : Option C → C)
    (h : w.rows[i]? = none) : step w (.importKey i k f) = w := by
  simp only [step, h]

theorem step_setKey_some {w : World C} {i : Nat} {r : RowObj} (k : Bytes) (f : Option C → C)
    (h : w.rows[i]? = some r) :
    step w (.setKey i k f) =
      { w with heap := (w.heap.alloc (f ((addrOf r k).bind w.heap.cells))).1,
               rows := w.rows.set i (replaceAddr r k w.heap.next) } := by
  simp only [step, h]; rfl

theorem step_setKey_none {w : World C} {i : Nat} (k : Bytes) (f : Option C → C)
    (h : w.rows[i]? = none) : step w (.setKey i k f) = w := by
  simp only [step, h]

theorem step_drop (w : World C) (i : Nat) :
    step w (.drop i) = { w with rows := w.rows.eraseIdx i } := rfl

/-- The row an operation works on (the only row whose content it may change). -/
def Op.target : Op C → Option Nat
  | .importKey i _ _ => some i
  | .setKey i _ _ => some i
  | _ => none

/-- The five shapes a step can take.  The index is the row operated on. -/
inductive Upd (w : World C) : Option Nat → World C → Prop
  /-- nothing happens (index out of range) -/
  | same (t : Option Nat) : Upd w t w
  /-- a new row made of fresh cells is appended; cells in use are untouched -/
  | push (t : Option Nat) (h' : Heap C) (src r : RowObj) :
      (src = w.proto ∨ src ∈ w.rows) →
      w.heap.next ≤ h'.next →
      (∀ a, a < w.heap.next → h'.cells a = w.heap.cells a) →
      (∀ a ∈ addrs r, w.heap.next ≤ a ∧ a < h'.next) →
      (addrs r).Nodup →
      (keys r).Sublist (keys src) →
      (∀ a ∈ addrs r, (h'.cells a).isSome = true) →
      Upd w t { w with heap := h', rows := w.rows ++ [r] }
  /-- a cell of row `i` is overwritten in place -/
  | write (i : Nat) (r : RowObj) (a : Addr) (c : C) :
      w.rows[i]? = some r → a ∈ addrs r →
      Upd w (some i) { w with heap := w.heap.write a c }
  /-- one cell is allocated and row `i` is replaced by a row made of its old cells and the new one -/
  | set (i : Nat) (r r' : RowObj) (c : C) :
      w.rows[i]? = some r →
      (∀ b ∈ addrs r', b ∈ addrs r ∨ b = w.heap.next) →
      ((keys r).Nodup → (addrs r).Nodup → w.heap.next ∉ addrs r → (addrs r').Nodup) →
      ((keys r).Nodup → (keys r').Nodup) →
      Upd w (some i) { w with heap := (w.heap.alloc c).1, rows := w.rows.set i r' }
  /-- a row is removed -/
  | erase (t : Option Nat) (i : Nat) : Upd w t { w with rows := w.rows.eraseIdx i }

theorem upd_cloneRow (w : World C) (t : Option Nat) (clone : C → C) (src : RowObj)
    (hsrc : src = w.proto ∨ src ∈ w.rows) :
    Upd w t { w with heap := (cloneRow clone w.heap src).1,
                     rows := w.rows ++ [(cloneRow clone w.heap src).2] } :=
  Upd.push t _ src _ hsrc (cloneRow_next_le clone w.heap src) (cloneRow_cells_below clone w.heap src)
    (cloneRow_addrs_fresh clone w.heap src) (cloneRow_addrs_nodup clone w.heap src)
    (cloneRow_keys_sublist clone w.heap src) (cloneRow_cells_new clone w.heap src)

/-- Every step has one of the five shapes. -/
theorem step_upd (w : World C) (op : Op C) : Upd w op.target (step w op) := by
  cases op with
  | createEmpty clone =>
    rw [step_createEmpty]; exact upd_cloneRow w _ clone w.proto (.inl rfl)
  | cloneLive i clone =>
    cases h : w.rows[i]? with
    | none => rw [step_cloneLive_none clone h]; exact .same _
    | some src =>
      rw [step_cloneLive_some clone h]
      exact upd_cloneRow w _ clone src (.inr (List.mem_of_getElem? h))
  | importKey i k f =>
    cases h : w.rows[i]? with
    | none => rw [step_importKey_none k f h]; exact .same _
    | some r =>
      cases ha : addrOf r k with
      | some a =>
        rw [step_importKey_present f h ha]
        exact .write i r a _ h (addrOf_some_mem ha)
      | none =>
        rw [step_importKey_absent f h ha]
        refine .set i r _ _ h ?_ ?_ ?_
        · intro b hb; simpa using hb
        · intro _ hn hf; exact nodup_addrs_append_fresh hn hf
        · intro hk
          have := nodup_keys_replaceAddr (k := k) (a := w.heap.next) hk
          rwa [replaceAddr_absent _ ha] at this
  | setKey i k f =>
    cases h : w.rows[i]? with
    | none => rw [step_setKey_none k f h]; exact .same _
    | some r =>
      rw [step_setKey_some k f h]
      exact .set i r _ _ h (fun b hb => mem_addrs_replaceAddr hb)
        (fun hk hn hf => nodup_addrs_replaceAddr hk hn hf) (fun hk => nodup_keys_replaceAddr hk)
  | drop i => rw [step_drop]; exact .erase _ i

/-! ## 6. The invariants are preserved -/

theorem Disj.upd {w w' : World C} {t : Option Nat} (u : Upd w t w') (d : Disj w) : Disj w' := by
  cases u with
  | same => exact d
  | push _ h' src r hsrc hle hcells hfresh hnd hkeys hnew =>
    refine ⟨?_, ?_, ?_, ?_⟩
    · intro a ha; exact Nat.lt_of_lt_of_le (d.proto_lt a ha) hle
    · intro r' hr' a ha
      rcases List.mem_append.mp hr' with hr' | hr'
      · exact Nat.lt_of_lt_of_le (d.rows_lt r' hr' a ha) hle
      · rw [List.mem_singleton] at hr'; subst hr'; exact (hfresh a ha).2
    · intro r' hr' a ha hm
      rcases List.mem_append.mp hr' with hr' | hr'
      · exact d.proto_rows r' hr' a ha hm
      · rw [List.mem_singleton] at hr'; subst hr'
        have := d.proto_lt a ha; have := (hfresh a hm).1; aomega
    · intro i j ri rj hi hj hij a hai haj
      rcases getElem?_append_singleton hi with hi1 | ⟨hi1, rfl⟩ <;>
        rcases getElem?_append_singleton hj with hj1 | ⟨hj1, rfl⟩
      · exact d.rows_rows i j ri rj hi1 hj1 hij a hai haj
      · have := d.rows_lt ri (List.mem_of_getElem? hi1) a hai; have := (hfresh a haj).1; aomega
      · have := d.rows_lt rj (List.mem_of_getElem? hj1) a haj; have := (hfresh a hai).1; aomega
      · exact hij (hi1.trans hj1.symm)
  | write i r a c hr ha => exact ⟨d.proto_lt, d.rows_lt, d.proto_rows, d.rows_rows⟩
  | set i r r' c hr hsub _ _ =>
    have hrm := List.mem_of_getElem? hr
    refine ⟨?_, ?_, ?_, ?_⟩
    · intro a ha; exact Nat.lt_succ_of_lt (d.proto_lt a ha)
    · intro r'' hr'' a ha
      rcases List.mem_or_eq_of_mem_set hr'' with hr'' | rfl
      · exact Nat.lt_succ_of_lt (d.rows_lt r'' hr'' a ha)
      · rcases hsub a ha with h | rfl
        · exact Nat.lt_succ_of_lt (d.rows_lt r hrm a h)
        · exact Nat.lt_succ_self _
    · intro r'' hr'' a ha hm
      rcases List.mem_or_eq_of_mem_set hr'' with hr'' | rfl
      · exact d.proto_rows r'' hr'' a ha hm
      · rcases hsub a hm with h | rfl
        · exact d.proto_rows r hrm a ha h
        · exact Nat.lt_irrefl _ (d.proto_lt _ ha)
    · intro i' j' ri rj hi hj hij a hai haj
      rcases getElem?_set_some hi with ⟨rfl, rfl⟩ | ⟨hi1, hi2⟩ <;>
        rcases getElem?_set_some hj with ⟨rfl, rfl⟩ | ⟨hj1, hj2⟩
      · exact hij rfl
      · rcases hsub a hai with h | rfl
        · exact d.rows_rows _ _ r rj hr hj2 hij a h haj
        · exact Nat.lt_irrefl _ (d.rows_lt rj (List.mem_of_getElem? hj2) _ haj)
      · rcases hsub a haj with h | rfl
        · exact d.rows_rows _ _ ri r hi2 hr hij a hai h
        · exact Nat.lt_irrefl _ (d.rows_lt ri (List.mem_of_getElem? hi2) _ hai)
      · exact d.rows_rows _ _ ri rj hi2 hj2 hij a hai haj
  | erase _ i =>
    refine ⟨d.proto_lt, ?_, ?_, ?_⟩
    · intro r hr; exact d.rows_lt r (List.mem_of_mem_eraseIdx hr)
    · intro r hr; exact d.proto_rows r (List.mem_of_mem_eraseIdx hr)
    · intro i' j' ri rj hi hj hij
      obtain ⟨i'', hi, hi'⟩ := getElem?_eraseIdx_some hi
      obtain ⟨j'', hj, hj'⟩ := getElem?_eraseIdx_some hj
      refine d.rows_rows i'' j'' ri rj hi hj ?_
      subst hi' hj'
      split <;> split <;> omega

theorem KeysNodup.upd {w w' : World C} {t : Option Nat} (u : Upd w t w') (n : KeysNodup w) :
    KeysNodup w' := by
  cases u with
  | same => exact n
  | push _ h' src r hsrc hle hcells hfresh hnd hkeys hnew =>
    refine ⟨n.proto, ?_⟩
    intro r' hr'
    rcases List.mem_append.mp hr' with hr' | hr'
    · exact n.rows r' hr'
    · rw [List.mem_singleton] at hr'; subst hr'
      apply hkeys.nodup
      rcases hsrc with rfl | hsrc
      · exact n.proto
      · exact n.rows src hsrc
  | write i r a c hr ha => exact ⟨n.proto, n.rows⟩
  | set i r r' c hr _ _ hk =>
    refine ⟨n.proto, ?_⟩
    intro r'' hr''
    rcases List.mem_or_eq_of_mem_set hr'' with hr'' | rfl
    · exact n.rows r'' hr''
    · exact hk (n.rows r (List.mem_of_getElem? hr))
  | erase _ i => exact ⟨n.proto, fun r hr => n.rows r (List.mem_of_mem_eraseIdx hr)⟩

theorem AddrsNodup.upd {w w' : World C} {t : Option Nat} (u : Upd w t w') (d : Disj w)
    (kn : KeysNodup w) (n : AddrsNodup w) : AddrsNodup w' := by
  cases u with
  | same => exact n
  | push _ h' src r hsrc hle hcells hfresh hnd hkeys hnew =>
    refine ⟨n.proto, ?_⟩
    intro r' hr'
    rcases List.mem_append.mp hr' with hr' | hr'
    · exact n.rows r' hr'
    · rw [List.mem_singleton] at hr'; subst hr'; exact hnd
  | write i r a c hr ha => exact ⟨n.proto, n.rows⟩
  | set i r r' c hr _ hn _ =>
    have hrm := List.mem_of_getElem? hr
    refine ⟨n.proto, ?_⟩
    intro r'' hr''
    rcases List.mem_or_eq_of_mem_set hr'' with hr'' | rfl
    · exact n.rows r'' hr''
    · exact hn (kn.rows r hrm) (n.rows r hrm) (fun hm => Nat.lt_irrefl _ (d.rows_lt r hrm _ hm))
  | erase _ i => exact ⟨n.proto, fun r hr => n.rows r (List.mem_of_mem_eraseIdx hr)⟩

/-- Weak separation is preserved by every operation, unconditionally. -/
theorem disj_step {w : World C} (op : Op C) (d : Disj w) : Disj (step w op) :=
  d.upd (step_upd w op)

theorem disj_run {w : World C} (ops : List (Op C)) (d : Disj w) : Disj (run w ops) := by
  induction ops generalizing w with
  | nil => exact d
  | cons op ops ih => exact ih (disj_step op d)

theorem keysNodup_step {w : World C} (op : Op C) (n : KeysNodup w) : KeysNodup (step w op) :=
  n.upd (step_upd w op)

theorem keysNodup_run {w : World C} (ops : List (Op C)) (n : KeysNodup w) :
    KeysNodup (run w ops) := by
  induction ops generalizing w with
  | nil => exact n
  | cons op ops ih => exact ih (keysNodup_step op n)

/-- `Sep` is preserved by every operation when the keys of each row object are distinct
    (as they are in the code, where a row is a key list plus a map).  Without distinct keys
    `setKey` breaks `Sep`: see `sep_step_setKey_dupkeys_false` below. -/
theorem sep_step {w : World C} (op : Op C) (kn : KeysNodup w) (h : Sep w) : Sep (step w op) := by
  have u := step_upd w op
  exact (sep_iff _).mpr ⟨h.disj.upd u, h.addrsNodup.upd u h.disj kn⟩

theorem sep_run {w : World C} (ops : List (Op C)) (kn : KeysNodup w) (h : Sep w) :
    Sep (run w ops) ∧ KeysNodup (run w ops) := by
  induction ops generalizing w with
  | nil => exact ⟨h, kn⟩
  | cons op ops ih => exact ih (keysNodup_step op kn) (sep_step op kn h)

/-- For every operation other than `setKey`, `Sep` is preserved with no assumption on keys. -/
theorem sep_step_of_not_setKey {w : World C} (op : Op C) (hop : ∀ i k f, op ≠ .setKey i k f)
    (h : Sep w) : Sep (step w op) := by
  refine (sep_iff _).mpr ⟨disj_step op h.disj, ?_⟩
  have n := h.addrsNodup
  have d := h.disj
  have hpush : ∀ (clone : C → C) (src : RowObj),
      AddrsNodup { w with heap := (cloneRow clone w.heap src).1,
                          rows := w.rows ++ [(cloneRow clone w.heap src).2] } := by
    intro clone src
    refine ⟨n.proto, ?_⟩
    intro r' hr'
    rcases List.mem_append.mp hr' with hr' | hr'
    · exact n.rows r' hr'
    · rw [List.mem_singleton] at hr'; subst hr'; exact cloneRow_addrs_nodup clone w.heap src
  cases op with
  | createEmpty clone => rw [step_createEmpty]; exact hpush clone w.proto
  | cloneLive i clone =>
    cases hi : w.rows[i]? with
    | none => rw [step_cloneLive_none clone hi]; exact n
    | some src => rw [step_cloneLive_some clone hi]; exact hpush clone src
  | importKey i k f =>
    cases hi : w.rows[i]? with
    | none => rw [step_importKey_none k f hi]; exact n
    | some r =>
      have hrm := List.mem_of_getElem? hi
      cases ha : addrOf r k with
      | some a => rw [step_importKey_present f hi ha]; exact ⟨n.proto, n.rows⟩
      | none =>
        rw [step_importKey_absent f hi ha]
        refine ⟨n.proto, ?_⟩
        intro r'' hr''
        rcases List.mem_or_eq_of_mem_set hr'' with hr'' | rfl
        · exact n.rows r'' hr''
        · exact nodup_addrs_append_fresh (n.rows r hrm)
            (fun hm => Nat.lt_irrefl _ (d.rows_lt r hrm _ hm))
  | setKey i k f => exact absurd rfl (hop i k f)
  | drop i =>
    rw [step_drop]
    exact ⟨n.proto, fun r hr => n.rows r (List.mem_of_mem_eraseIdx hr)⟩

/-! ## 7. The world made by the template builder -/

theorem build_nil (h : Heap C) : initWorld.build h [] = (h, []) := rfl

theorem build_cons (h : Heap C) (k : Bytes) (c : C) (rest : List (Bytes × C)) :
    initWorld.build h ((k, c) :: rest) =
      ((initWorld.build (h.alloc c).1 rest).1,
        (k, h.next) :: (initWorld.build (h.alloc c).1 rest).2) := rfl

theorem initWorld_eq (cols : List (Bytes × C)) :
    initWorld cols =
      { heap := (initWorld.build ⟨fun _ => none, 0⟩ cols).1,
        proto := (initWorld.build ⟨fun _ => none, 0⟩ cols).2, rows := [] } := rfl

theorem build_next (h : Heap C) (cols : List (Bytes × C)) :
    (initWorld.build h cols).1.next = h.next + cols.length := by
  induction cols generalizing h with
  | nil => rfl
  | cons e rest ih =>
    obtain ⟨k, c⟩ := e
    rw [build_cons]; simp only [ih, alloc_next, List.length_cons]; aomega

theorem build_cells_below (h : Heap C) (cols : List (Bytes × C)) :
    ∀ a, a < h.next → (initWorld.build h cols).1.cells a = h.cells a := by
  induction cols generalizing h with
  | nil => intro a _; rfl
  | cons e rest ih =>
    obtain ⟨k, c⟩ := e
    intro a ha
    rw [build_cons]
    simp only [ih (h.alloc c).1 a (by simp only [alloc_next]; aomega), alloc_cells]
    simp [Nat.ne_of_lt ha]

/-- The builder allocates the prototype's cells consecutively. -/
theorem build_addrs (h : Heap C) (cols : List (Bytes × C)) :
    addrs (initWorld.build h cols).2 = List.range' h.next cols.length := by
  induction cols generalizing h with
  | nil => rfl
  | cons e rest ih =>
    obtain ⟨k, c⟩ := e
    rw [build_cons]
    simp only [addrs_cons, ih, alloc_next, List.length_cons, List.range'_succ]

theorem build_keys (h : Heap C) (cols : List (Bytes × C)) :
    keys (initWorld.build h cols).2 = cols.map Prod.fst := by
  induction cols generalizing h with
  | nil => rfl
  | cons e rest ih =>
    obtain ⟨k, c⟩ := e
    rw [build_cons]; simp [ih]

theorem build_content (h : Heap C) (cols : List (Bytes × C)) :
    content (initWorld.build h cols).1 (initWorld.build h cols).2 =
      cols.map fun e => (e.1, some e.2) := by
  induction cols generalizing h with
  | nil => rfl
  | cons e rest ih =>
    obtain ⟨k, c⟩ := e
    rw [build_cons]
    simp only [content_cons, ih, List.map_cons]
    rw [build_cells_below (h.alloc c).1 rest h.next (by simp)]
    simp

/-- The world made by the builder is separated. -/
theorem sep_init (cols : List (Bytes × C)) : Sep (initWorld cols) := by
  rw [sep_iff, initWorld_eq]
  refine ⟨⟨?_, ?_, ?_, ?_⟩, ⟨?_, ?_⟩⟩
  · intro a ha
    simp only [build_addrs, List.mem_range'_1] at ha
    simp only [build_next]; exact ha.2
  · intro r hr; cases hr
  · intro r hr; cases hr
  · intro i j ri rj hi; simp at hi
  · simp only [build_addrs]; exact List.nodup_range' 1
  · intro r hr; cases hr

theorem keysNodup_init (cols : List (Bytes × C)) (h : (cols.map Prod.fst).Nodup) :
    KeysNodup (initWorld cols) := by
  rw [initWorld_eq]
  exact ⟨by simpa only [build_keys] using h, fun r hr => by cases hr⟩

/-- What the freshly built template holds: the columns. -/
theorem content_init (cols : List (Bytes × C)) :
    content (initWorld cols).heap (initWorld cols).proto = cols.map fun e => (e.1, some e.2) := by
  rw [initWorld_eq]; exact build_content _ cols

/-! ## 8. The frame property: a step changes the content of nothing but the row it works on -/

theorem Upd.proto_eq {w w' : World C} {t : Option Nat} (u : Upd w t w') : w'.proto = w.proto := by
  cases u <;> rfl

/-- No step changes the content of the prototype. -/
theorem Upd.content_proto {w w' : World C} {t : Option Nat} (u : Upd w t w') (d : Disj w) :
    content w'.heap w.proto = content w.heap w.proto := by
  cases u with
  | same => rfl
  | push _ h' src r hsrc hle hcells hfresh hnd hkeys hnew =>
    exact content_congr fun a ha => hcells a (d.proto_lt a ha)
  | write i r a c hr ha =>
    exact content_write_of_not_mem _ _ _ _
      (fun hm => d.proto_rows r (List.mem_of_getElem? hr) a hm ha)
  | set i r r' c hr _ _ _ => exact content_alloc_of_lt _ _ _ d.proto_lt
  | erase _ i => rfl

/-- No step changes the content of a live row other than the one it works on. -/
theorem Upd.content_row {w w' : World C} {t : Option Nat} (u : Upd w t w') (d : Disj w)
    {j : Nat} {rj : RowObj} (hj : w.rows[j]? = some rj) (ht : t ≠ some j) :
    content w'.heap rj = content w.heap rj := by
  have hlt := d.rows_lt rj (List.mem_of_getElem? hj)
  cases u with
  | same => rfl
  | push _ h' src r hsrc hle hcells hfresh hnd hkeys hnew =>
    exact content_congr fun a ha => hcells a (hlt a ha)
  | write i r a c hr ha =>
    have hij : i ≠ j := fun e => ht (e ▸ rfl)
    exact content_write_of_not_mem _ _ _ _ (d.rows_rows i j r rj hr hj hij a ha)
  | set i r r' c hr _ _ _ => exact content_alloc_of_lt _ _ _ hlt
  | erase _ i => rfl

/-- The template object never changes through row operations. -/
theorem step_proto (w : World C) (op : Op C) : (step w op).proto = w.proto :=
  (step_upd w op).proto_eq

theorem frame_proto_of_disj {w : World C} (d : Disj w) (op : Op C) :
    content (step w op).heap w.proto = content w.heap w.proto ∧ (step w op).proto = w.proto :=
  ⟨(step_upd w op).content_proto d, step_proto w op⟩

/-- C15, template part, one step: EVERY operation leaves the template's content unchanged. -/
theorem frame_proto {w : World C} (h : Sep w) (op : Op C) :
    content (step w op).heap w.proto = content w.heap w.proto ∧ (step w op).proto = w.proto :=
  frame_proto_of_disj h.disj op

/-- An operation touches row index `j` when it works on row `j`, or removes a row at or before
    `j` (which renumbers row `j`). -/
def Op.touches (j : Nat) : Op C → Prop
  | .importKey i _ _ => i = j
  | .setKey i _ _ => i = j
  | .drop i => i ≤ j
  | _ => False

theorem target_ne_of_not_touches {op : Op C} {j : Nat} (h : ¬ op.touches j) :
    op.target ≠ some j := by
  cases op <;> simp_all [Op.touches, Op.target]

/-- A row that is not touched stays where it is in the list of live rows. -/
theorem step_rows_untouched {w : World C} (op : Op C) {j : Nat} {rj : RowObj}
    (hj : w.rows[j]? = some rj) (hop : ¬ op.touches j) : (step w op).rows[j]? = some rj := by
  have hlen : j < w.rows.length := (List.getElem?_eq_some_iff.mp hj).1
  cases op with
  | createEmpty clone =>
    rw [step_createEmpty]; simp only; rw [List.getElem?_append_left hlen]; exact hj
  | cloneLive i clone =>
    cases hi : w.rows[i]? with
    | none => rw [step_cloneLive_none clone hi]; exact hj
    | some src =>
      rw [step_cloneLive_some clone hi]; simp only
      rw [List.getElem?_append_left hlen]; exact hj
  | importKey i k f =>
    have hij : ¬ i = j := hop
    cases hi : w.rows[i]? with
    | none => rw [step_importKey_none k f hi]; exact hj
    | some r =>
      cases ha : addrOf r k with
      | some a => rw [step_importKey_present f hi ha]; exact hj
      | none =>
        rw [step_importKey_absent f hi ha]; simp only
        rw [List.getElem?_set, if_neg hij]; exact hj
  | setKey i k f =>
    have hij : ¬ i = j := hop
    cases hi : w.rows[i]? with
    | none => rw [step_setKey_none k f hi]; exact hj
    | some r =>
      rw [step_setKey_some k f hi]; simp only
      rw [List.getElem?_set, if_neg hij]; exact hj
  | drop i =>
    have hij : j < i := Nat.lt_of_not_le hop
    rw [step_drop]; simp only
    rw [List.getElem?_eraseIdx, if_pos hij]; exact hj

theorem frame_row_of_disj {w : World C} (d : Disj w) (op : Op C) {j : Nat} {rj : RowObj}
    (hj : w.rows[j]? = some rj) (hop : ¬ op.touches j) :
    (step w op).rows[j]? = some rj ∧ content (step w op).heap rj = content w.heap rj :=
  ⟨step_rows_untouched op hj hop,
    (step_upd w op).content_row d hj (target_ne_of_not_touches hop)⟩

/-- C15, row part, one step: a live row that the operation does not work on keeps its place and
    its content. -/
theorem frame_row {w : World C} (h : Sep w) (op : Op C) {j : Nat} {rj : RowObj}
    (hj : w.rows[j]? = some rj) (hop : ¬ op.touches j) :
    (step w op).rows[j]? = some rj ∧ content (step w op).heap rj = content w.heap rj :=
  frame_row_of_disj h.disj op hj hop

/-- `createEmpty` (CreateRow / CreateRowEmpty) changes no existing row. -/
theorem frame_createEmpty {w : World C} (h : Sep w) (clone : C → C) {j : Nat} {rj : RowObj}
    (hj : w.rows[j]? = some rj) :
    (step w (.createEmpty clone)).rows[j]? = some rj ∧
      content (step w (.createEmpty clone)).heap rj = content w.heap rj :=
  frame_row h _ hj (fun hf => hf)

/-- `cloneLive` (CloneRow) changes no existing row — the source `j = i` included. -/
theorem frame_cloneLive {w : World C} (h : Sep w) (i : Nat) (clone : C → C) {j : Nat}
    {rj : RowObj} (hj : w.rows[j]? = some rj) :
    (step w (.cloneLive i clone)).rows[j]? = some rj ∧
      content (step w (.cloneLive i clone)).heap rj = content w.heap rj :=
  frame_row h _ hj (fun hf => hf)

/-- `importKey i` (in-place `Import`, successful or not) changes no row `j ≠ i`. -/
theorem frame_importKey {w : World C} (h : Sep w) (i : Nat) (k : Bytes) (f : Option C → C)
    {j : Nat} {rj : RowObj} (hj : w.rows[j]? = some rj) (hne : j ≠ i) :
    (step w (.importKey i k f)).rows[j]? = some rj ∧
      content (step w (.importKey i k f)).heap rj = content w.heap rj :=
  frame_row h _ hj (fun hf : i = j => hne hf.symm)

/-- `setKey i` changes no row `j ≠ i`. -/
theorem frame_setKey {w : World C} (h : Sep w) (i : Nat) (k : Bytes) (f : Option C → C)
    {j : Nat} {rj : RowObj} (hj : w.rows[j]? = some rj) (hne : j ≠ i) :
    (step w (.setKey i k f)).rows[j]? = some rj ∧
      content (step w (.setKey i k f)).heap rj = content w.heap rj :=
  frame_row h _ hj (fun hf : i = j => hne hf.symm)

/-- `drop i`: the surviving rows are the others, the heap is untouched, so every row keeps its
    content. -/
theorem frame_drop (w : World C) (i : Nat) :
    (step w (.drop i)).rows = w.rows.eraseIdx i ∧ (step w (.drop i)).heap = w.heap ∧
      ∀ r ∈ w.rows.eraseIdx i, r ∈ w.rows ∧ content (step w (.drop i)).heap r = content w.heap r :=
  ⟨rfl, rfl, fun _ hr => ⟨List.mem_of_mem_eraseIdx hr, rfl⟩⟩

/-- Whatever the operation (drops included), a row that was live and is not the one operated on
    has the same content afterwards. -/
theorem frame_content {w : World C} (h : Sep w) (op : Op C) {j : Nat} {rj : RowObj}
    (hj : w.rows[j]? = some rj) (ht : op.target ≠ some j) :
    content (step w op).heap rj = content w.heap rj :=
  (step_upd w op).content_row h.disj hj ht

/-! ## 9. Histories -/

theorem run_nil (w : World C) : run w [] = w := rfl
theorem run_cons (w : World C) (op : Op C) (ops : List (Op C)) :
    run w (op :: ops) = run (step w op) ops := rfl

theorem run_append (w : World C) (ops ops' : List (Op C)) :
    run w (ops ++ ops') = run (run w ops) ops' := by
  induction ops generalizing w with
  | nil => rfl
  | cons op ops ih => exact ih (step w op)

theorem run_proto (w : World C) (ops : List (Op C)) : (run w ops).proto = w.proto := by
  induction ops generalizing w with
  | nil => rfl
  | cons op ops ih => rw [run_cons, ih, step_proto]

theorem template_unchanged_of_disj {w : World C} (d : Disj w) (ops : List (Op C)) :
    content (run w ops).heap (run w ops).proto = content w.heap w.proto ∧
      (run w ops).proto = w.proto := by
  refine ⟨?_, run_proto w ops⟩
  rw [run_proto]
  induction ops generalizing w with
  | nil => rfl
  | cons op ops ih =>
    rw [run_cons]
    have := ih (disj_step op d)
    rw [step_proto] at this
    rw [this, (frame_proto_of_disj d op).1]

/-- C15, template part: after ANY history of row operations the template holds what it held. -/
theorem template_unchanged {w : World C} (h : Sep w) (ops : List (Op C)) :
    content (run w ops).heap (run w ops).proto = content w.heap w.proto ∧
      (run w ops).proto = w.proto :=
  template_unchanged_of_disj h.disj ops

/-- After any history, the template made by the builder still holds its columns. -/
theorem template_content_init (cols : List (Bytes × C)) (ops : List (Op C)) :
    content (run (initWorld cols) ops).heap (run (initWorld cols) ops).proto =
      cols.map fun e => (e.1, some e.2) := by
  rw [(template_unchanged (sep_init cols) ops).1, content_init]

/-- What `createEmpty` produces: a new last row holding `clone` of the template's content. -/
theorem createEmpty_content_of_disj {w : World C} (d : Disj w) (clone : C → C) :
    ∃ r, (step w (.createEmpty clone)).rows = w.rows ++ [r] ∧
      content (step w (.createEmpty clone)).heap r = cloned clone (content w.heap w.proto) :=
  ⟨_, rfl, cloneRow_content clone w.heap w.proto d.proto_lt⟩

/-- "What the template produces afterwards" is unchanged: `createEmpty` after any history yields
    a row with the same content as `createEmpty` before it. -/
theorem template_produces_same {w : World C} (h : Sep w) (ops : List (Op C)) (clone : C → C) :
    ∃ r0 r1, (step w (.createEmpty clone)).rows = w.rows ++ [r0] ∧
      (step (run w ops) (.createEmpty clone)).rows = (run w ops).rows ++ [r1] ∧
      content (step (run w ops) (.createEmpty clone)).heap r1 =
        content (step w (.createEmpty clone)).heap r0 := by
  obtain ⟨r0, h0, c0⟩ := createEmpty_content_of_disj h.disj clone
  obtain ⟨r1, h1, c1⟩ := createEmpty_content_of_disj (disj_run ops h.disj) clone
  exact ⟨r0, r1, h0, h1, by rw [c0, c1, (template_unchanged h ops).1]⟩

/-- `createEmpty` after ANY history on a built template yields a row holding `clone` of the
    columns, in order. -/
theorem createEmpty_after_history (cols : List (Bytes × C)) (ops : List (Op C)) (clone : C → C) :
    ∃ r, (step (run (initWorld cols) ops) (.createEmpty clone)).rows =
          (run (initWorld cols) ops).rows ++ [r] ∧
      content (step (run (initWorld cols) ops) (.createEmpty clone)).heap r =
        cols.map fun e => (e.1, some (clone e.2)) := by
  obtain ⟨r, hr, hc⟩ :=
    createEmpty_content_of_disj (disj_run ops (sep_init cols).disj) clone
  exact ⟨r, hr, by rw [hc, template_content_init, cloned_map_some]⟩

theorem frame_run_of_disj {w : World C} (d : Disj w) (ops : List (Op C)) {j : Nat} {rj : RowObj}
    (hj : w.rows[j]? = some rj) (hops : ∀ op ∈ ops, ¬ op.touches j) :
    (run w ops).rows[j]? = some rj ∧ content (run w ops).heap rj = content w.heap rj := by
  induction ops generalizing w with
  | nil => exact ⟨hj, rfl⟩
  | cons op ops ih =>
    obtain ⟨h1, h2⟩ := frame_row_of_disj d op hj (hops op (by simp))
    obtain ⟨h3, h4⟩ := ih (disj_step op d) h1 (fun op' h' => hops op' (by simp [h']))
    exact ⟨h3, h4.trans h2⟩

/-- C15, row part, any interleaving: a live row keeps its place and its content through any
    history whose operations work on other rows (creating, cloning — this row included —,
    importing into, setting, or dropping later rows). -/
theorem frame_run {w : World C} (h : Sep w) (ops : List (Op C)) {j : Nat} {rj : RowObj}
    (hj : w.rows[j]? = some rj) (hops : ∀ op ∈ ops, ¬ op.touches j) :
    (run w ops).rows[j]? = some rj ∧ content (run w ops).heap rj = content w.heap rj :=
  frame_run_of_disj h.disj ops hj hops

/-- A cloned row can be modified at its top level without affecting its source: after
    `cloneLive i` the source keeps its content, the clone (the new last row, index
    `w.rows.length`) holds `clone` of the source's content, and any later history of
    `importKey` / `setKey` on the clone leaves the source's content unchanged. -/
theorem clone_independent {w : World C} (h : Sep w) {i : Nat} {src : RowObj}
    (hi : w.rows[i]? = some src) (clone : C → C) :
    ∃ r, (step w (.cloneLive i clone)).rows = w.rows ++ [r] ∧
      (step w (.cloneLive i clone)).rows[i]? = some src ∧
      content (step w (.cloneLive i clone)).heap src = content w.heap src ∧
      content (step w (.cloneLive i clone)).heap r = cloned clone (content w.heap src) ∧
      ∀ ops : List (Op C),
        (∀ op ∈ ops, ∃ k f, op = .importKey w.rows.length k f ∨ op = .setKey w.rows.length k f) →
        (run (step w (.cloneLive i clone)) ops).rows[i]? = some src ∧
          content (run (step w (.cloneLive i clone)) ops).heap src = content w.heap src := by
  have d := h.disj
  have hlen : i < w.rows.length := (List.getElem?_eq_some_iff.mp hi).1
  obtain ⟨h1, h2⟩ := frame_cloneLive h i clone hi
  refine ⟨(cloneRow clone w.heap src).2, ?_, h1, h2, ?_, ?_⟩
  · rw [step_cloneLive_some clone hi]
  · rw [step_cloneLive_some clone hi]
    exact cloneRow_content clone w.heap src (d.rows_lt src (List.mem_of_getElem? hi))
  · intro ops hops
    have := frame_run_of_disj (disj_step (.cloneLive i clone) d) ops h1 (by
      intro op hop
      obtain ⟨k, f, rfl | rfl⟩ := hops op hop
      · show ¬ w.rows.length = i; omega
      · show ¬ w.rows.length = i; omega)
    exact ⟨this.1, this.2.trans h2⟩

/-! ## 10. Every cell in use exists, so a clone has all the keys of its source

`Sep` bounds the addresses in use by `next` but does not say that a cell is stored there, and
`cloneRow` skips an entry without a cell.  `Live` adds this; it holds of `initWorld` and is
preserved by every step, so in every reachable world a clone has exactly the keys of its source. -/

/-- Every address held by the prototype or a live row has a cell. -/
structure Live (w : World C) : Prop where
  proto : ∀ a ∈ addrs w.proto, (w.heap.cells a).isSome = true
  rows : ∀ r ∈ w.rows, ∀ a ∈ addrs r, (w.heap.cells a).isSome = true

theorem Live.upd {w w' : World C} {t : Option Nat} (u : Upd w t w') (d : Disj w) (l : Live w) :
    Live w' := by
  cases u with
  | same => exact l
  | push _ h' src r hsrc hle hcells hfresh hnd hkeys hnew =>
    refine ⟨?_, ?_⟩
    · intro a ha; simp only; rw [hcells a (d.proto_lt a ha)]; exact l.proto a ha
    · intro r' hr' a ha
      rcases List.mem_append.mp hr' with hr' | hr'
      · simp only; rw [hcells a (d.rows_lt r' hr' a ha)]; exact l.rows r' hr' a ha
      · rw [List.mem_singleton] at hr'; subst hr'; exact hnew a ha
  | write i r a c hr ha =>
    refine ⟨?_, ?_⟩
    · intro b hb
      simp only [write_cells]; split
      · rfl
      · exact l.proto b hb
    · intro r' hr' b hb
      simp only [write_cells]; split
      · rfl
      · exact l.rows r' hr' b hb
  | set i r r' c hr hsub _ _ =>
    have hrm := List.mem_of_getElem? hr
    have hold : ∀ b, (w.heap.cells b).isSome = true → ((w.heap.alloc c).1.cells b).isSome = true := by
      intro b hb; simp only [alloc_cells]; split
      · rfl
      · exact hb
    refine ⟨fun a ha => hold a (l.proto a ha), ?_⟩
    intro r'' hr'' a ha
    rcases List.mem_or_eq_of_mem_set hr'' with hr'' | rfl
    · exact hold a (l.rows r'' hr'' a ha)
    · rcases hsub a ha with h | rfl
      · exact hold a (l.rows r hrm a h)
      · simp
  | erase _ i => exact ⟨l.proto, fun r hr => l.rows r (List.mem_of_mem_eraseIdx hr)⟩

theorem live_step {w : World C} (op : Op C) (d : Disj w) (l : Live w) : Live (step w op) :=
  l.upd (step_upd w op) d

theorem live_run {w : World C} (ops : List (Op C)) (d : Disj w) (l : Live w) :
    Live (run w ops) := by
  induction ops generalizing w with
  | nil => exact l
  | cons op ops ih => exact ih (disj_step op d) (live_step op d l)

theorem live_init (cols : List (Bytes × C)) : Live (initWorld cols) := by
  refine ⟨?_, fun r hr => by cases hr⟩
  have hc := content_init cols
  generalize (initWorld cols).heap = h at hc ⊢
  generalize (initWorld cols).proto = p at hc ⊢
  induction p generalizing cols with
  | nil => intro a ha; cases ha
  | cons e p ih =>
    cases cols with
    | nil => cases hc
    | cons c cols =>
      simp only [content_cons, List.map_cons, List.cons.injEq, Prod.mk.injEq] at hc
      intro a ha
      simp only [addrs_cons, List.mem_cons] at ha
      rcases ha with rfl | ha
      · rw [hc.1.2]; rfl
      · exact ih cols hc.2 a ha

/-- When every cell exists, `cloned` keeps every entry. -/
theorem cloned_of_all_some (clone : C → C) (h : Heap C) (r : RowObj)
    (hl : ∀ a ∈ addrs r, (h.cells a).isSome = true) :
    cloned clone (content h r) = (content h r).map fun e => (e.1, e.2.map clone) := by
  induction r with
  | nil => rfl
  | cons e r ih =>
    have h1 := hl e.2 (by simp)
    have h2 := ih (fun a ha => hl a (by simp [ha]))
    obtain ⟨c, hc⟩ := Option.isSome_iff_exists.mp h1
    simp only [cloned] at h2
    simp [cloned, hc, h2]

/-- In a world where every cell in use exists, the clone of a live row has the keys of its source,
    in order, each holding `clone` of the source's cell. -/
theorem cloneLive_content {w : World C} (h : Sep w) (l : Live w) {i : Nat} {src : RowObj}
    (hi : w.rows[i]? = some src) (clone : C → C) :
    ∃ r, (step w (.cloneLive i clone)).rows = w.rows ++ [r] ∧
      content (step w (.cloneLive i clone)).heap r =
        (content w.heap src).map fun e => (e.1, e.2.map clone) := by
  have hm := List.mem_of_getElem? hi
  refine ⟨(cloneRow clone w.heap src).2, by rw [step_cloneLive_some clone hi], ?_⟩
  rw [step_cloneLive_some clone hi]
  simp only
  rw [cloneRow_content clone w.heap src (h.disj.rows_lt src hm),
    cloned_of_all_some clone w.heap src (l.rows src hm)]

/-! ## 11. Witnesses on a concrete world (`C := Nat`) -/

section Witness

private def kA : Bytes := [97]
private def kB : Bytes := [98]
private def kZ : Bytes := [122]

/-- A template with two columns. -/
private def w0 : World Nat := initWorld [(kA, 1), (kB, 2)]

/-- A history touching everything: two rows from the template, an in-place import into row 0,
    a clone of row 0, an import of a new key and a `Set` on the clone, an import into row 1, a
    dropped row, and one more row from the template. -/
private def hist : List (Op Nat) :=
  [.createEmpty (· + 10), .createEmpty (· + 20),
   .importKey 0 kA (fun _ => 77),
   .cloneLive 0 (· + 100),
   .importKey 2 kZ (fun _ => 5), .setKey 2 kA (fun _ => 6), .importKey 2 kB (fun _ => 8),
   .importKey 1 kB (fun o => o.getD 0 + 1),
   .importKey 9 kA (fun _ => 0),          -- no such row: nothing happens
   .drop 1,
   .createEmpty id]

-- the template holds its columns, before and after
example : content w0.heap w0.proto = [(kA, some 1), (kB, some 2)] := by decide
example : content (run w0 hist).heap (run w0 hist).proto = [(kA, some 1), (kB, some 2)] := by
  decide
-- the rows hold what the operations on THEM put there, and nothing else
example : (run w0 hist).rows.map (content (run w0 hist).heap) =
    [ [(kA, some 77), (kB, some 12)],                       -- row 0: import at a
      [(kA, some 6), (kB, some 8), (kZ, some 5)],           -- the clone of row 0, then modified
      [(kA, some 1), (kB, some 2)] ] := by decide           -- made last: the template's content
-- after the clone was modified its source still holds 77 / 12 (instance of `clone_independent`)
example : (run w0 (hist.take 7)).rows.map (content (run w0 (hist.take 7)).heap) =
    [ [(kA, some 77), (kB, some 12)], [(kA, some 21), (kB, some 22)],
      [(kA, some 6), (kB, some 8), (kZ, some 5)] ] := by decide
-- the hypotheses of the theorems hold on this world (they are not vacuous)
example : Sep w0 ∧ KeysNodup w0 := ⟨sep_init _, keysNodup_init _ (by decide)⟩
example : Sep (run w0 hist) := (sep_run hist (keysNodup_init _ (by decide)) (sep_init _)).1
example : Live (run w0 hist) := live_run hist (sep_init _).disj (live_init _)
example : (addrs (run w0 hist).proto, (run w0 hist).rows.map addrs, (run w0 hist).heap.next) =
    ([0, 1], [[2, 3], [9, 7, 8], [10, 11]], 12) := by decide

/-- The broken variant: `createEmpty` hands out the prototype itself instead of a clone. -/
def stepBad (w : World C) : Op C → World C
  | .createEmpty _ => { w with rows := w.rows ++ [w.proto] }
  | op => step w op

def runBad (w : World C) : List (Op C) → World C
  | [] => w
  | op :: ops => runBad (stepBad w op) ops

/-- NEGATIVE witness: without cloning, importing into a row made from the template changes what
    the template holds — the frame property really depends on `cloneRow`. -/
theorem bad_createEmpty_breaks_template :
    let w := runBad w0 [.createEmpty id, .importKey 0 kA (fun _ => 77)]
    content w.heap w.proto = [(kA, some 77), (kB, some 2)] ∧
      content w.heap w.proto ≠ content w0.heap w0.proto := by
  decide

/-- ... and the separation invariant is what fails: the shared world is not `Sep`. -/
theorem bad_createEmpty_not_sep : ¬ Sep (stepBad w0 (.createEmpty id)) := by
  intro h
  exact absurd h.2 (by decide)

/-- the same two operations with the real `step` leave the template alone -/
example :
    let w := run w0 [.createEmpty id, .importKey 0 kA (fun _ => 77)]
    content w.heap w.proto = [(kA, some 1), (kB, some 2)] ∧
      w.rows.map (content w.heap) = [[(kA, some 77), (kB, some 2)]] := by
  decide

/-- A template with the same key twice (the model does not forbid it). -/
private def wDup : World Nat := step (initWorld [(kA, 1), (kA, 2)]) (.createEmpty id)

/-- Why `sep_step` needs distinct keys: with a duplicated key, `setKey` stores the ONE new cell
    at both entries, so the row's address list is no longer duplicate-free and `Sep` (as
    defined) fails — although nothing is shared between different row objects (`Disj` still
    holds, by `disj_step`, and with it every frame theorem). -/
theorem sep_step_setKey_dupkeys_false :
    Sep wDup ∧ ¬ Sep (step wDup (.setKey 0 kA (fun _ => 9))) := by
  refine ⟨sep_step_of_not_setKey _ (by intro i k f h; cases h) (sep_init _), ?_⟩
  intro h
  exact absurd h.2 (by decide)

example : addrs ((step wDup (.setKey 0 kA (fun _ => 9))).rows[0]!) = [4, 4] := by decide

end Witness

end Jl.Alias
