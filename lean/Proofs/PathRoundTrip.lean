/-
  Proofs.PathRoundTrip — C18, writing through a dotted path and reading through it.

  `ImportAtPath` (Model.Path.importAtKeys) against `GetValueAtPath` (getValueAtKeys) and
  `FindValuesAtPath` (findValues), for every row (nested rows bare or Auto-wrapped, any mixture),
  every depth, every path:

  * `get_after_import`         what is read back at the path after a successful import;
  * `import_keeps_other_paths` every path that is neither a prefix nor an extension of the
                               written one reads the very same value as before;
  * `import_missing_is_error_and_noop`
                               an unwalkable path: ErrPathNotFound and the row is untouched;
  * `import_import`            two imports at one path = the second import;
  * `find_single`              `FindValuesAtPath` = singleton of `GetValueAtPath` when no array
                               is met on the way;
  * `Demo`                     the parsed line `{"a":{"b":{"c":1,"d":null}},"s":1}`.
-/
import Model.Path
import Model.CastGen
import Proofs.Row
import Proofs.CastTyped

namespace Jl.PathRoundTrip
open Jl Jl.Value Jl.Path

/-! ### The ordered map under `lookup` / `upsert` -/

theorem lookup_upsert_self (row : List (Bytes × Val)) (k : Bytes) (c : Val) :
    lookup (upsert row k c) k = some c := by
  simp [lookup, upsert, OMap.lookup_upsert]

theorem lookup_upsert_ne (row : List (Bytes × Val)) (k k' : Bytes) (c : Val) (h : k' ≠ k) :
    lookup (upsert row k c) k' = lookup row k' := by
  simp [lookup, upsert, OMap.lookup_upsert, h]

theorem upsert_upsert (row : List (Bytes × Val)) (k : Bytes) (a b : Val) :
    upsert (upsert row k a) k b = upsert row k b := by
  unfold upsert
  induction row with
  | nil => simp [OMap.upsert]
  | cons p t ih =>
    obtain ⟨k0, c0⟩ := p
    by_cases h : k0 = k
    · simp [OMap.upsert, h]
    · simp [OMap.upsert, h, ih]

/-- Writing back what is there changes nothing. -/
theorem upsert_same (row : List (Bytes × Val)) (k : Bytes) (v : Val) (h : lookup row k = some v) :
    upsert row k v = row := by
  unfold upsert
  unfold lookup at h
  induction row with
  | nil => simp [OMap.lookup] at h
  | cons p t ih =>
    obtain ⟨k0, c0⟩ := p
    by_cases h0 : k0 = k
    · simp [OMap.lookup, h0] at h
      simp [OMap.upsert, h0, h]
    · simp [OMap.lookup, h0] at h
      simp [OMap.upsert, h0, ih h]

/-! ### The two representations of a nested row -/

theorem asRow_withRow (v : Val) (sub : List (Bytes × Val)) : asRow (withRow v sub) = some sub := by
  cases v <;> simp [withRow, asRow]

theorem withRow_withRow (v : Val) (s₁ s₂ : List (Bytes × Val)) :
    withRow (withRow v s₁) s₂ = withRow v s₂ := by
  cases v <;> simp [withRow]

/-- Putting back the content a value has gives the value back — as far as the row's members
    are concerned (`Members.ofList ms.toList = ms`). -/
theorem ofList_toList : (ms : Members) → Members.ofList ms.toList = ms
  | .nil => rfl
  | .cons k v ms => by simp [Members.toList, Members.ofList, ofList_toList ms]

theorem withRow_same (v : Val) (sub : List (Bytes × Val)) (h : asRow v = some sub) :
    withRow v sub = v := by
  cases v with
  | row ms => simp [asRow] at h; subst h; simp [withRow, ofList_toList]
  | cell r f t =>
    cases r with
    | val w =>
      cases w with
      | row ms => simp [asRow] at h; subst h; simp [withRow, ofList_toList]
      | cell _ _ _ => simp [asRow] at h
    | _ => simp [asRow] at h

/-- A cell holding a Go map (or any raw value but a row) is not a row: paths stop there. -/
theorem asRow_gomap (m : DynMap) (f : Format) (t : Ty) : asRow (.cell (.gomap m) f t) = none := rfl

theorem importVal_cell (env : Env) (r : Dyn) (f : Format) (t : Ty) (x : Dyn) :
    importVal env (.cell r f t) x = importCell env f t x := rfl

/-! ### Unfolding the path functions one key at a time -/

theorem get_one (row : List (Bytes × Val)) (k : Bytes) : getValueAtKeys row [k] = lookup row k := rfl

theorem get_step (row : List (Bytes × Val)) (k k2 : Bytes) (rest : List Bytes) :
    getValueAtKeys row (k :: k2 :: rest) =
      match lookup row k with
      | none => none
      | some v =>
        match asRow v with
        | none => none
        | some sub => getValueAtKeys sub (k2 :: rest) := by
  simp only [getValueAtKeys]
  rfl

theorem get_step_of (row sub : List (Bytes × Val)) (k k2 : Bytes) (rest : List Bytes) (v : Val)
    (hl : lookup row k = some v) (ha : asRow v = some sub) :
    getValueAtKeys row (k :: k2 :: rest) = getValueAtKeys sub (k2 :: rest) := by
  rw [get_step, hl]; simp only [ha]

/-- A lookup at a non-empty path depends on the row only through its first key. -/
theorem get_congr_first (row row' : List (Bytes × Val)) (k : Bytes) (rest : List Bytes)
    (h : lookup row' k = lookup row k) :
    getValueAtKeys row' (k :: rest) = getValueAtKeys row (k :: rest) := by
  cases rest with
  | nil => simpa [get_one] using h
  | cons k2 rest2 => rw [get_step, get_step, h]

theorem import_one (env : Env) (row : List (Bytes × Val)) (k : Bytes) (x : Dyn) :
    importAtKeys env row [k] x =
      match lookup row k with
      | none => .ok (row, some .pathNotFound)
      | some v =>
        match importVal env v x with
        | .ok (v', e) => .ok (upsert row k v', e)
        | .err e => .err e
        | .panic s => .panic s := by
  simp only [importAtKeys]
  rfl

theorem import_step (env : Env) (row : List (Bytes × Val)) (k k2 : Bytes) (rest : List Bytes)
    (x : Dyn) :
    importAtKeys env row (k :: k2 :: rest) x =
      match lookup row k with
      | none => .ok (row, some .pathNotFound)
      | some v =>
        match asRow v with
        | none => .ok (row, some .pathNotFound)
        | some sub =>
          match importAtKeys env sub (k2 :: rest) x with
          | .ok (sub', e) => .ok (upsert row k (withRow v sub'), e)
          | .err e => .err e
          | .panic s => .panic s := by
  simp only [importAtKeys]
  rfl

theorem import_one_of (env : Env) (row : List (Bytes × Val)) (k : Bytes) (x : Dyn) (v : Val)
    (hl : lookup row k = some v) :
    importAtKeys env row [k] x =
      match importVal env v x with
      | .ok (v', e) => .ok (upsert row k v', e)
      | .err e => .err e
      | .panic s => .panic s := by
  rw [import_one, hl]

theorem import_step_of (env : Env) (row sub : List (Bytes × Val)) (k k2 : Bytes)
    (rest : List Bytes) (x : Dyn) (v : Val) (hl : lookup row k = some v) (ha : asRow v = some sub) :
    importAtKeys env row (k :: k2 :: rest) x =
      match importAtKeys env sub (k2 :: rest) x with
      | .ok (sub', e) => .ok (upsert row k (withRow v sub'), e)
      | .err e => .err e
      | .panic s => .panic s := by
  rw [import_step, hl]; simp only [ha]

/-! ### 1. Reading back what was written -/

/-- An import that does not answer ErrPathNotFound walked the whole path: the path is readable. -/
theorem walkable_of_import (env : Env) (keys : List Bytes) :
    ∀ (row row' : List (Bytes × Val)) (x : Dyn) (e : Option ErrClass),
    importAtKeys env row keys x = .ok (row', e) → e ≠ some .pathNotFound →
    ∃ v, getValueAtKeys row keys = some v := by
  induction keys with
  | nil => intro row row' x e _ _; exact ⟨_, rfl⟩
  | cons k rest ih =>
    intro row row' x e h hne
    cases rest with
    | nil =>
      rw [import_one] at h
      cases hl : lookup row k with
      | none => rw [hl] at h; cases h; exact absurd rfl hne
      | some v => exact ⟨v, by rw [get_one, hl]⟩
    | cons k2 rest2 =>
      rw [import_step] at h
      cases hl : lookup row k with
      | none => rw [hl] at h; cases h; exact absurd rfl hne
      | some v =>
        rw [hl] at h
        cases ha : asRow v with
        | none => simp only [ha] at h; cases h; exact absurd rfl hne
        | some sub =>
          simp only [ha] at h
          cases hi : importAtKeys env sub (k2 :: rest2) x with
          | ok p =>
            obtain ⟨sub', e'⟩ := p
            simp only [hi] at h
            cases h
            obtain ⟨w, hw⟩ := ih sub sub' x _ hi hne
            exact ⟨w, by rw [get_step_of row sub k k2 rest2 v hl ha, hw]⟩
          | err e' => simp only [hi] at h; cases h
          | panic s => simp only [hi] at h; cases h

/-- Keys level, any error class: when the path addresses `v`, the import is `v.Import(x)`, and
    the path then addresses the value `v.Import(x)` left (also when it left an error). -/
theorem get_after_import_keys (env : Env) (keys : List Bytes) :
    ∀ (row row' : List (Bytes × Val)) (x : Dyn) (e : Option ErrClass) (v : Val),
    keys ≠ [] → getValueAtKeys row keys = some v →
    importAtKeys env row keys x = .ok (row', e) →
    ∃ v', importVal env v x = .ok (v', e) ∧ getValueAtKeys row' keys = some v' := by
  induction keys with
  | nil => intro _ _ _ _ _ hne; exact absurd rfl hne
  | cons k rest ih =>
    intro row row' x e v _ hg h
    cases rest with
    | nil =>
      rw [get_one] at hg
      rw [import_one_of env row k x v hg] at h
      cases hi : importVal env v x with
      | ok p =>
        obtain ⟨v', e'⟩ := p
        simp only [hi] at h
        cases h
        exact ⟨v', rfl, by rw [get_one, lookup_upsert_self]⟩
      | err e' => simp only [hi] at h; cases h
      | panic s => simp only [hi] at h; cases h
    | cons k2 rest2 =>
      rw [get_step] at hg
      cases hl : lookup row k with
      | none => rw [hl] at hg; cases hg
      | some w =>
        rw [hl] at hg
        cases ha : asRow w with
        | none => simp only [ha] at hg; cases hg
        | some sub =>
          simp only [ha] at hg
          rw [import_step_of env row sub k k2 rest2 x w hl ha] at h
          cases hi : importAtKeys env sub (k2 :: rest2) x with
          | ok p =>
            obtain ⟨sub', e'⟩ := p
            simp only [hi] at h
            cases h
            obtain ⟨v', hv', hg'⟩ := ih sub sub' x _ v (by simp) hg hi
            refine ⟨v', hv', ?_⟩
            rw [get_step_of _ sub' k k2 rest2 _ (lookup_upsert_self row k _) (asRow_withRow w sub')]
            exact hg'
          | err e' => simp only [hi] at h; cases h
          | panic s => simp only [hi] at h; cases h

/-- Conversely the import at a readable path goes through exactly when `v.Import(x)` does. -/
theorem import_of_get_keys (env : Env) (keys : List Bytes) :
    ∀ (row : List (Bytes × Val)) (x : Dyn) (e : Option ErrClass) (v v' : Val),
    keys ≠ [] → getValueAtKeys row keys = some v → importVal env v x = .ok (v', e) →
    ∃ row', importAtKeys env row keys x = .ok (row', e) := by
  induction keys with
  | nil => intro _ _ _ _ _ hne; exact absurd rfl hne
  | cons k rest ih =>
    intro row x e v v' _ hg hi
    cases rest with
    | nil =>
      rw [get_one] at hg
      exact ⟨_, by rw [import_one_of env row k x v hg, hi]⟩
    | cons k2 rest2 =>
      rw [get_step] at hg
      cases hl : lookup row k with
      | none => rw [hl] at hg; cases hg
      | some w =>
        rw [hl] at hg
        cases ha : asRow w with
        | none => simp only [ha] at hg; cases hg
        | some sub =>
          simp only [ha] at hg
          obtain ⟨sub', hs⟩ := ih sub x e v v' (by simp) hg hi
          exact ⟨_, by rw [import_step_of env row sub k k2 rest2 x w hl ha, hs]⟩

theorem splitDots_ne_nil (p : Bytes) : splitDots p ≠ [] := by
  induction p with
  | nil => simp [splitDots]
  | cons c rest ih =>
    unfold splitDots
    split
    · simp
    · split <;> simp

/-- **Target 1.** A successful `ImportAtPath` makes the path readable, and what is read is the
    value `Import(x)` produced from the value that was there (`importVal` = `Value.Import`). -/
theorem get_after_import (env : Env) (row row' : List (Bytes × Val)) (path : Bytes) (x : Dyn)
    (h : importAtPath env row path x = .ok (row', none)) :
    ∃ v v', getValueAtPath row path = some v ∧ importVal env v x = .ok (v', none) ∧
      getValueAtPath row' path = some v' := by
  obtain ⟨v, hv⟩ := walkable_of_import env _ row row' x none h (by simp)
  obtain ⟨v', hi, hg⟩ := get_after_import_keys env _ row row' x none v (splitDots_ne_nil path) hv h
  exact ⟨v, v', hv, hi, hg⟩

/-- Target 1 with the descriptor of the cell that was there: the path reads the cell
    `importCell` makes of `x` under that descriptor — with its error, when it left one (the
    cell is then the nil cell of the same descriptor, `importByFormat`). -/
theorem get_after_import_cell (env : Env) (row row' : List (Bytes × Val)) (path : Bytes) (x : Dyn)
    (e : Option ErrClass) (r : Dyn) (f : Format) (t : Ty)
    (hc : getValueAtPath row path = some (.cell r f t))
    (h : importAtPath env row path x = .ok (row', e)) :
    ∃ c', importCell env f t x = .ok (c', e) ∧ getValueAtPath row' path = some c' :=
  get_after_import_keys env _ row row' x e _ (splitDots_ne_nil path) hc h

/-- A value that is not itself a `jsonline.Value` cell (a Value given to `Import` replaces the
    descriptor: `importCell`, third case). -/
def Plain (x : Dyn) : Prop := ∀ r f t, x ≠ .val (.cell r f t)

/-- An Auto or Hidden cell without raw type keeps any plain value as it is (`cast.To(nil, x) = x`
    over the generated tables). -/
theorem importCell_auto (ext : Ext) (f : Format) (x : Dyn) (hf : f = .auto ∨ f = .hidden)
    (hx : Plain x) : importCell ⟨genTables, ext⟩ f .none x = .ok (.cell x f .none, none) := by
  cases x with
  | val v =>
    cases v with
    | cell r f' t' => exact absurd rfl (hx r f' t')
    | row ms => rcases hf with rfl | rfl <;> simp [importCell]
  | nil => rfl
  | _ => rcases hf with rfl | rfl <;> simp [importCell, importByFormat, CastTyped.gen_castTo_none]

/-- Target 1 for an Auto/Hidden cell without raw type and a plain value: no error, the path
    reads a cell holding `x` itself, descriptor unchanged. -/
theorem get_after_import_auto (ext : Ext) (row row' : List (Bytes × Val)) (path : Bytes) (x : Dyn)
    (e : Option ErrClass) (r : Dyn) (f : Format) (hf : f = .auto ∨ f = .hidden) (hx : Plain x)
    (hc : getValueAtPath row path = some (.cell r f .none))
    (h : importAtPath ⟨genTables, ext⟩ row path x = .ok (row', e)) :
    e = none ∧ getValueAtPath row' path = some (.cell x f .none) ∧ getAtPath row' path = some x := by
  obtain ⟨c', hi, hg⟩ := get_after_import_cell _ row row' path x e r f .none hc h
  rw [importCell_auto ext f x hf hx] at hi
  cases hi
  exact ⟨rfl, hg, by simp [getAtPath, hg, Cells.raw]⟩

/-- …and that import does go through. -/
theorem import_auto_ok (ext : Ext) (row : List (Bytes × Val)) (path : Bytes) (x : Dyn)
    (r : Dyn) (f : Format) (hf : f = .auto ∨ f = .hidden) (hx : Plain x)
    (hc : getValueAtPath row path = some (.cell r f .none)) :
    ∃ row', importAtPath ⟨genTables, ext⟩ row path x = .ok (row', none) :=
  import_of_get_keys _ _ row x none _ _ (splitDots_ne_nil path) hc
    (by rw [importVal_cell, importCell_auto ext f x hf hx])

/-! ### 2. Every other path keeps its value -/

/-- The first level: any key but the addressed one keeps its value (from
    `C18.import_touches_only_addressed`, re-proved here on `lookup_upsert_ne`). -/
theorem import_other_first (env : Env) (row row' : List (Bytes × Val)) (k : Bytes)
    (rest : List Bytes) (x : Dyn) (e : Option ErrClass)
    (h : importAtKeys env row (k :: rest) x = .ok (row', e)) (k' : Bytes) (hk : k' ≠ k) :
    lookup row' k' = lookup row k' := by
  cases rest with
  | nil =>
    rw [import_one] at h
    cases hl : lookup row k with
    | none => rw [hl] at h; cases h; rfl
    | some v =>
      rw [hl] at h
      cases hi : importVal env v x with
      | ok p => obtain ⟨v', e'⟩ := p; simp only [hi] at h; cases h; exact lookup_upsert_ne _ _ _ _ hk
      | err e' => simp only [hi] at h; cases h
      | panic s => simp only [hi] at h; cases h
  | cons k2 rest2 =>
    rw [import_step] at h
    cases hl : lookup row k with
    | none => rw [hl] at h; cases h; rfl
    | some v =>
      rw [hl] at h
      cases ha : asRow v with
      | none => simp only [ha] at h; cases h; rfl
      | some sub =>
        simp only [ha] at h
        cases hi : importAtKeys env sub (k2 :: rest2) x with
        | ok p => obtain ⟨s', e'⟩ := p; simp only [hi] at h; cases h; exact lookup_upsert_ne _ _ _ _ hk
        | err e' => simp only [hi] at h; cases h
        | panic s => simp only [hi] at h; cases h

/-- Keys level, every depth, any error class: a key list that is neither a prefix nor an
    extension of the written one reads the same value in the row afterwards. -/
theorem import_keeps_other_keys (env : Env) (ps : List Bytes) :
    ∀ (row row' : List (Bytes × Val)) (x : Dyn) (e : Option ErrClass) (qs : List Bytes),
    importAtKeys env row ps x = .ok (row', e) → ¬ qs <+: ps → ¬ ps <+: qs →
    getValueAtKeys row' qs = getValueAtKeys row qs := by
  induction ps with
  | nil => intro _ _ _ _ qs _ _ h2; exact absurd (List.nil_prefix) h2
  | cons k rest ih =>
    intro row row' x e qs h h1 h2
    cases qs with
    | nil => exact absurd (List.nil_prefix) h1
    | cons q qrest =>
      by_cases hq : q = k
      · subst hq
        have h1' : ¬ qrest <+: rest := fun hp => h1 (List.cons_prefix_cons.mpr ⟨rfl, hp⟩)
        have h2' : ¬ rest <+: qrest := fun hp => h2 (List.cons_prefix_cons.mpr ⟨rfl, hp⟩)
        cases rest with
        | nil => exact absurd (List.nil_prefix) h2'
        | cons k2 rest2 =>
          cases qrest with
          | nil => exact absurd (List.nil_prefix) h1'
          | cons q2 qrest2 =>
            rw [import_step] at h
            cases hl : lookup row q with
            | none => rw [hl] at h; cases h; rfl
            | some v =>
              rw [hl] at h
              cases ha : asRow v with
              | none => simp only [ha] at h; cases h; rfl
              | some sub =>
                simp only [ha] at h
                cases hi : importAtKeys env sub (k2 :: rest2) x with
                | ok p =>
                  obtain ⟨sub', e'⟩ := p
                  simp only [hi] at h
                  cases h
                  rw [get_step_of _ sub' q q2 qrest2 _ (lookup_upsert_self row q _)
                        (asRow_withRow v sub'),
                      get_step_of row sub q q2 qrest2 v hl ha]
                  exact ih sub sub' x _ _ hi h1' h2'
                | err e' => simp only [hi] at h; cases h
                | panic s => simp only [hi] at h; cases h
      · exact get_congr_first row row' q qrest (import_other_first env row row' k rest x e h q hq)

/-- **Target 2.** Whatever `ImportAtPath(path, x)` did (success or error), every path `q` that
    is — key by key — neither a prefix nor an extension of `path` reads the same value as
    before, at every depth, through bare and Auto-wrapped nested rows alike. -/
theorem import_keeps_other_paths (env : Env) (row row' : List (Bytes × Val)) (path q : Bytes)
    (x : Dyn) (e : Option ErrClass) (h : importAtPath env row path x = .ok (row', e))
    (h1 : ¬ splitDots q <+: splitDots path) (h2 : ¬ splitDots path <+: splitDots q) :
    getValueAtPath row' q = getValueAtPath row q :=
  import_keeps_other_keys env _ row row' x e _ h h1 h2

/-- The raw values read through `GetAtPath` likewise. -/
theorem import_keeps_other_raws (env : Env) (row row' : List (Bytes × Val)) (path q : Bytes)
    (x : Dyn) (e : Option ErrClass) (h : importAtPath env row path x = .ok (row', e))
    (h1 : ¬ splitDots q <+: splitDots path) (h2 : ¬ splitDots path <+: splitDots q) :
    getAtPath row' q = getAtPath row q := by
  simp only [getAtPath, import_keeps_other_paths env row row' path q x e h h1 h2]

/-- The keys of the row, their order included, stay (`C18.import_touches_only_addressed`, path level). -/
theorem import_keeps_keys (env : Env) (row row' : List (Bytes × Val)) (path : Bytes) (x : Dyn)
    (e : Option ErrClass) (h : importAtPath env row path x = .ok (row', e)) :
    OMap.keys row' = OMap.keys row := by
  unfold importAtPath at h
  cases hs : splitDots path with
  | nil => exact absurd hs (splitDots_ne_nil path)
  | cons k rest =>
    rw [hs] at h
    have hup : ∀ v c, lookup row k = some v → OMap.keys (upsert row k c) = OMap.keys row := by
      intro v c hv
      have hmem : k ∈ OMap.keys row := by
        by_cases hm : k ∈ OMap.keys row
        · exact hm
        · have := OMap.lookup_none_of_not_mem row k hm
          simp [lookup, this] at hv
      simp [upsert, OMap.keys_upsert, hmem]
    cases rest with
    | nil =>
      rw [import_one] at h
      cases hl : lookup row k with
      | none => rw [hl] at h; cases h; rfl
      | some v =>
        rw [hl] at h
        cases hi : importVal env v x with
        | ok p => obtain ⟨v', e'⟩ := p; simp only [hi] at h; cases h; exact hup v _ hl
        | err e' => simp only [hi] at h; cases h
        | panic s => simp only [hi] at h; cases h
    | cons k2 rest2 =>
      rw [import_step] at h
      cases hl : lookup row k with
      | none => rw [hl] at h; cases h; rfl
      | some v =>
        rw [hl] at h
        cases ha : asRow v with
        | none => simp only [ha] at h; cases h; rfl
        | some sub =>
          simp only [ha] at h
          cases hi : importAtKeys env sub (k2 :: rest2) x with
          | ok p => obtain ⟨s', e'⟩ := p; simp only [hi] at h; cases h; exact hup v _ hl
          | err e' => simp only [hi] at h; cases h
          | panic s => simp only [hi] at h; cases h

/-! ### 3. A path that cannot be walked -/

/-- Keys level: when the keys address nothing — a segment is missing, or the path goes on below
    a value that neither is nor wraps a row (a scalar, an array, a Go map) — the import answers
    ErrPathNotFound and hands the row back as it was. -/
theorem import_unwalkable_keys (env : Env) (keys : List Bytes) :
    ∀ (row : List (Bytes × Val)) (x : Dyn), getValueAtKeys row keys = none →
    importAtKeys env row keys x = .ok (row, some .pathNotFound) := by
  induction keys with
  | nil => intro row x h; cases h
  | cons k rest ih =>
    intro row x hg
    cases rest with
    | nil =>
      rw [get_one] at hg
      rw [import_one, hg]
    | cons k2 rest2 =>
      rw [get_step] at hg
      rw [import_step]
      cases hl : lookup row k with
      | none => rfl
      | some v =>
        rw [hl] at hg
        simp only
        cases ha : asRow v with
        | none => rfl
        | some sub =>
          simp only [ha] at hg
          simp only [ih sub x hg]
          rw [withRow_same v sub ha, upsert_same row k v hl]

/-- **Target 3.** `ImportAtPath` at a path `GetValueAtPath` does not find: the error class is
    ErrPathNotFound and the row is the same row (for every environment and every value). -/
theorem import_missing_is_error_and_noop (env : Env) (row : List (Bytes × Val)) (path : Bytes)
    (x : Dyn) (h : getValueAtPath row path = none) :
    importAtPath env row path x = .ok (row, some .pathNotFound) :=
  import_unwalkable_keys env _ row x h

/-- The three ways not to be walkable, spelt out at the first level (deeper levels: through
    `import_missing_is_error_and_noop` and `C18.missing_segment_is_absent` / `below_scalar_is_absent`). -/
theorem import_missing_segment (env : Env) (row : List (Bytes × Val)) (k : Bytes) (rest : List Bytes)
    (x : Dyn) (h : lookup row k = none) :
    importAtKeys env row (k :: rest) x = .ok (row, some .pathNotFound) := by
  cases rest with
  | nil => rw [import_one, h]
  | cons k2 rest2 => rw [import_step, h]

theorem import_below_scalar (env : Env) (row : List (Bytes × Val)) (k k2 : Bytes) (rest : List Bytes)
    (x : Dyn) (v : Val) (h : lookup row k = some v) (hs : asRow v = none) :
    importAtKeys env row (k :: k2 :: rest) x = .ok (row, some .pathNotFound) := by
  rw [import_step, h]; simp only [hs]

theorem import_through_gomap (env : Env) (row : List (Bytes × Val)) (k k2 : Bytes) (rest : List Bytes)
    (x : Dyn) (m : DynMap) (f : Format) (t : Ty) (h : lookup row k = some (.cell (.gomap m) f t)) :
    importAtKeys env row (k :: k2 :: rest) x = .ok (row, some .pathNotFound) :=
  import_below_scalar env row k k2 rest x _ h (asRow_gomap m f t)

/-! ### 3′. ErrPathNotFound is answered only then (generated tables) -/

/-- The error classes `Value.Import` can leave. -/
def ImportErr (e : ErrClass) : Prop := e = .cast ∨ e = .unsupportedImport ∨ e = .unsupportedFormat

theorem importFail_err {o : Outcome Dyn} {e : ErrClass} (h : importFail o = .err e) :
    e = .ext ∨ e = .unsupportedImport := by
  unfold importFail at h
  split at h
  · cases h; exact Or.inl rfl
  · cases h; exact Or.inr rfl
  · rename_i h1 h2
    cases o with
    | ok a => cases h
    | panic s => cases h
    | err e' =>
      cases h
      by_cases he : e = .ext
      · exact absurd (by rw [he]) h1
      · exact absurd rfl (h2 e)

theorem importFrom_err {env : Env} {dflt : String} {val : Dyn} {typ : Ty} {e : ErrClass}
    (h : importFrom env dflt val typ = .err e) : e = .ext ∨ e = .unsupportedImport := by
  unfold importFrom at h
  split at h <;> exact importFail_err h

theorem importFromBinary_err {env : Env} {val : Dyn} {typ : Ty} {e : ErrClass}
    (h : importFromBinary env val typ = .err e) : e = .ext ∨ e = .unsupportedImport := by
  unfold importFromBinary at h
  split at h
  · split at h
    · cases h; exact Or.inr rfl
    · split at h
      · cases h
      · exact importFail_err h
  · cases h
  · cases h
  · exact importFail_err h

theorem importByFormat_err (ext : Ext) (f : Format) (typ : Ty) (val : Dyn) (c : Val) (e : ErrClass)
    (h : importByFormat ⟨genTables, ext⟩ f typ val = .ok (c, some e)) : ImportErr e := by
  unfold importByFormat at h
  simp only at h
  split at h
  · cases h
  · cases h
  · rename_i e' hne hres
    cases h
    have hcl : e = .ext ∨ e = .unsupportedImport ∨ e = .cast ∨ e = .unsupportedFormat := by
      revert hres
      cases f
      · intro hres; rcases importFrom_err hres with h | h <;> simp [h]
      · intro hres; rcases importFrom_err hres with h | h <;> simp [h]
      · intro hres; rcases importFrom_err hres with h | h <;> simp [h]
      · intro hres; rcases importFromBinary_err hres with h | h <;> simp [h]
      · intro hres; rcases importFrom_err hres with h | h <;> simp [h]
      · intro hres; rcases importFrom_err hres with h | h <;> simp [h]
      · intro hres; rcases importFrom_err hres with h | h <;> simp [h]
      · intro hres; rcases CastTyped.gen_castTo_err ext typ val e hres with h | h <;> simp [h]
      · intro hres; rcases CastTyped.gen_castTo_err ext typ val e hres with h | h <;> simp [h]
      · intro hres; cases hres; simp
    rcases hcl with h | h | h | h
    · exact absurd h (by intro h'; exact hne (by rw [h']))
    · exact Or.inr (Or.inl h)
    · exact Or.inl h
    · exact Or.inr (Or.inr h)
  · cases h

theorem importCell_err (ext : Ext) (f : Format) (typ : Ty) (x : Dyn) (c : Val) (e : ErrClass)
    (h : importCell ⟨genTables, ext⟩ f typ x = .ok (c, some e)) : ImportErr e := by
  unfold importCell at h
  split at h
  · cases h
  · split at h
    · cases h
    · exact importByFormat_err ext f typ _ c e h
  · cases h
  · exact importByFormat_err ext f typ _ c e h

theorem importAtKeyWith_err {imp : Val → Dyn → Outcome (Val × Option ErrClass)}
    (himp : ∀ c x c' e, imp c x = .ok (c', some e) → ImportErr e)
    (o o' : List (Bytes × Val)) (k : Bytes) (x : Dyn) (e : ErrClass)
    (h : importAtKeyWith imp o k x = .ok (o', some e)) : ImportErr e := by
  unfold importAtKeyWith at h
  split at h
  · split at h
    · rename_i c' e' hi
      cases h
      exact himp _ _ _ _ hi
    · cases h
    · cases h
  · cases h

theorem importSliceWith_err {imp : Val → Dyn → Outcome (Val × Option ErrClass)}
    (himp : ∀ c x c' e, imp c x = .ok (c', some e) → ImportErr e) (xs : List Dyn) :
    ∀ (o o' : List (Bytes × Val)) (i : Nat) (e : ErrClass),
    importSliceWith imp o i xs = .ok (o', some e) → ImportErr e := by
  induction xs with
  | nil => intro o o' i e h; simp [importSliceWith] at h
  | cons x xs ih =>
    intro o o' i e h
    unfold importSliceWith at h
    split at h
    · exact ih _ _ _ _ h
    · exact importAtKeyWith_err himp _ _ _ _ _ h

theorem importMapWith_err {imp : Val → Dyn → Outcome (Val × Option ErrClass)}
    (himp : ∀ c x c' e, imp c x = .ok (c', some e) → ImportErr e) (kvs : List (Bytes × Dyn)) :
    ∀ (o o' : List (Bytes × Val)) (e : ErrClass),
    importMapWith imp o kvs = .ok (o', some e) → ImportErr e := by
  induction kvs with
  | nil => intro o o' e h; simp [importMapWith] at h
  | cons kv kvs ih =>
    obtain ⟨k, x⟩ := kv
    intro o o' e h
    unfold importMapWith at h
    split at h
    · exact ih _ _ _ h
    · exact importAtKeyWith_err himp _ _ _ _ _ h

theorem importInto_err (ext : Ext) (fuel : Nat) : ∀ (c : Val) (x : Dyn) (c' : Val) (e : ErrClass),
    importInto ⟨genTables, ext⟩ fuel c x = .ok (c', some e) → ImportErr e := by
  induction fuel with
  | zero => intro c x c' e h; simp [importInto] at h
  | succ fuel ih =>
    intro c x c' e h
    unfold importInto at h
    split at h
    · exact importCell_err ext _ _ x c' e h
    · split at h
      · split at h
        · rename_i o e' hs
          cases h
          exact importSliceWith_err ih _ _ _ _ _ hs
        · cases h
        · cases h
      · split at h
        · rename_i o e' hs
          cases h
          exact importMapWith_err ih _ _ _ _ hs
        · cases h
        · cases h
      · cases h; exact Or.inr (Or.inl rfl)

/-- Over the generated tables `Value.Import` never answers ErrPathNotFound itself… -/
theorem importVal_not_pathNotFound (ext : Ext) (c c' : Val) (x : Dyn) :
    importVal ⟨genTables, ext⟩ c x ≠ .ok (c', some .pathNotFound) := by
  intro h
  rcases importInto_err ext 64 c x c' _ h with h | h | h <;> cases h

/-- …so `ImportAtPath` answers ErrPathNotFound exactly when `GetValueAtPath` finds nothing, and
    then the row is unchanged. -/
theorem import_pathNotFound_iff (ext : Ext) (row row' : List (Bytes × Val)) (path : Bytes) (x : Dyn)
    (e : Option ErrClass) (h : importAtPath ⟨genTables, ext⟩ row path x = .ok (row', e)) :
    e = some .pathNotFound ↔ getValueAtPath row path = none := by
  constructor
  · intro he
    subst he
    cases hg : getValueAtPath row path with
    | none => rfl
    | some v =>
      obtain ⟨v', hi, _⟩ := get_after_import_keys _ _ row row' x _ v (splitDots_ne_nil path) hg h
      exact absurd hi (importVal_not_pathNotFound ext v v' x)
  · intro hg
    rw [import_missing_is_error_and_noop _ row path x hg] at h
    cases h; rfl

theorem import_pathNotFound_noop (ext : Ext) (row row' : List (Bytes × Val)) (path : Bytes) (x : Dyn)
    (h : importAtPath ⟨genTables, ext⟩ row path x = .ok (row', some .pathNotFound)) : row' = row := by
  have hg := (import_pathNotFound_iff ext row row' path x _ h).mp rfl
  rw [import_missing_is_error_and_noop _ row path x hg] at h
  cases h; rfl

/-! ### 4. Two imports at one path -/

theorem importByFormat_descriptor (env : Env) (f : Format) (t : Ty) (x : Dyn) (c : Val)
    (e : Option ErrClass) (h : importByFormat env f t x = .ok (c, e)) : ∃ r, c = .cell r f t := by
  unfold importByFormat at h
  simp only at h
  split at h
  · cases h; exact ⟨_, rfl⟩
  · cases h
  · cases h; exact ⟨_, rfl⟩
  · cases h

/-- `Import` of a plain value keeps the cell's descriptor (format and raw type), whatever the
    descriptor and the outcome; what it stores does not depend on what the cell held. -/
theorem importCell_descriptor (env : Env) (f : Format) (t : Ty) (x : Dyn) (hx : Plain x) (c : Val)
    (e : Option ErrClass) (h : importCell env f t x = .ok (c, e)) : ∃ r, c = .cell r f t := by
  unfold importCell at h
  split at h
  · cases h; exact ⟨_, rfl⟩
  · split at h
    · cases h; exact ⟨_, rfl⟩
    · exact importByFormat_descriptor env f t _ c e h
  · rename_i v hnr
    cases v with
    | cell r' f' t' => exact absurd rfl (hx r' f' t')
    | row ms => exact absurd rfl (hnr ms)
  · exact importByFormat_descriptor env f t _ c e h

/-- Keys level: when the first import left a cell of the same descriptor at the path, the
    second import gives what it would have given on the original row. -/
theorem import_import_keys (env : Env) (keys : List Bytes) :
    ∀ (row row₁ : List (Bytes × Val)) (x₁ x₂ : Dyn) (e₁ : Option ErrClass) (r r₁ : Dyn)
      (f : Format) (t : Ty),
    keys ≠ [] → getValueAtKeys row keys = some (.cell r f t) →
    importAtKeys env row keys x₁ = .ok (row₁, e₁) →
    getValueAtKeys row₁ keys = some (.cell r₁ f t) →
    importAtKeys env row₁ keys x₂ = importAtKeys env row keys x₂ := by
  induction keys with
  | nil => intro _ _ _ _ _ _ _ _ _ hne; exact absurd rfl hne
  | cons k rest ih =>
    intro row row₁ x₁ x₂ e₁ r r₁ f t _ hg h₁ hg₁
    cases rest with
    | nil =>
      rw [get_one] at hg hg₁
      rw [import_one_of env row k x₁ _ hg] at h₁
      rw [import_one_of env row₁ k x₂ _ hg₁, import_one_of env row k x₂ _ hg]
      simp only [importVal_cell] at h₁ ⊢
      cases hi : importCell env f t x₁ with
      | ok p =>
        obtain ⟨c₁, e'⟩ := p
        simp only [hi] at h₁
        cases h₁
        cases importCell env f t x₂ with
        | ok p₂ => obtain ⟨c₂, e₂⟩ := p₂; simp only [upsert_upsert]
        | err e₂ => rfl
        | panic s => rfl
      | err e' => simp only [hi] at h₁; cases h₁
      | panic s => simp only [hi] at h₁; cases h₁
    | cons k2 rest2 =>
      rw [get_step] at hg
      cases hl : lookup row k with
      | none => rw [hl] at hg; cases hg
      | some w =>
        rw [hl] at hg
        cases ha : asRow w with
        | none => simp only [ha] at hg; cases hg
        | some sub =>
          simp only [ha] at hg
          rw [import_step_of env row sub k k2 rest2 x₁ w hl ha] at h₁
          rw [import_step_of env row sub k k2 rest2 x₂ w hl ha]
          cases hi : importAtKeys env sub (k2 :: rest2) x₁ with
          | ok p =>
            obtain ⟨sub₁, e'⟩ := p
            simp only [hi] at h₁
            cases h₁
            have hl₁ := lookup_upsert_self row k (withRow w sub₁)
            have ha₁ := asRow_withRow w sub₁
            rw [get_step_of _ sub₁ k k2 rest2 _ hl₁ ha₁] at hg₁
            rw [import_step_of env _ sub₁ k k2 rest2 x₂ _ hl₁ ha₁,
              ih sub sub₁ x₁ x₂ _ r r₁ f t (by simp) hg hi hg₁]
            cases importAtKeys env sub (k2 :: rest2) x₂ with
            | ok p₂ => obtain ⟨sub₂, e₂⟩ := p₂; simp only [upsert_upsert, withRow_withRow]
            | err e₂ => rfl
            | panic s => rfl
          | err e' => simp only [hi] at h₁; cases h₁
          | panic s => simp only [hi] at h₁; cases h₁

/-- **Target 4.** Importing `x₁` then `x₂` at a path that addresses a cell = importing `x₂`
    (same row, same error class) — for every descriptor (not only Auto / no raw type), every
    environment and every `x₂`, as soon as `x₁` is a plain value; and whether or not the first
    import left an error. -/
theorem import_import (env : Env) (row row₁ : List (Bytes × Val)) (path : Bytes) (x₁ x₂ : Dyn)
    (e₁ : Option ErrClass) (r : Dyn) (f : Format) (t : Ty)
    (hc : getValueAtPath row path = some (.cell r f t)) (hx₁ : Plain x₁)
    (h₁ : importAtPath env row path x₁ = .ok (row₁, e₁)) :
    importAtPath env row₁ path x₂ = importAtPath env row path x₂ := by
  obtain ⟨c₁, hi, hg₁⟩ := get_after_import_cell env row row₁ path x₁ e₁ r f t hc h₁
  obtain ⟨r₁, rfl⟩ := importCell_descriptor env f t x₁ hx₁ c₁ e₁ hi
  exact import_import_keys env _ row row₁ x₁ x₂ e₁ r r₁ f t (splitDots_ne_nil path) hc h₁ hg₁

/-- "The most recently stored value", through paths: Auto/Hidden cell without raw type, two
    plain values, generated tables — both imports succeed and the path reads the second. -/
theorem import_import_auto (ext : Ext) (row row₁ row₂ : List (Bytes × Val)) (path : Bytes)
    (x₁ x₂ : Dyn) (e₁ e₂ : Option ErrClass) (r : Dyn) (f : Format) (hf : f = .auto ∨ f = .hidden)
    (hx₁ : Plain x₁) (hx₂ : Plain x₂) (hc : getValueAtPath row path = some (.cell r f .none))
    (h₁ : importAtPath ⟨genTables, ext⟩ row path x₁ = .ok (row₁, e₁))
    (h₂ : importAtPath ⟨genTables, ext⟩ row₁ path x₂ = .ok (row₂, e₂)) :
    importAtPath ⟨genTables, ext⟩ row path x₂ = .ok (row₂, e₂) ∧ e₁ = none ∧ e₂ = none ∧
      getAtPath row₂ path = some x₂ := by
  have h := import_import _ row row₁ path x₁ x₂ e₁ r f .none hc hx₁ h₁
  rw [h₂] at h
  obtain ⟨he₁, _, _⟩ := get_after_import_auto ext row row₁ path x₁ e₁ r f hf hx₁ hc h₁
  obtain ⟨he₂, _, hraw⟩ := get_after_import_auto ext row row₂ path x₂ e₂ r f hf hx₂ hc h.symm
  exact ⟨h.symm, he₁, he₂, hraw⟩

/-- Why `x₁` must be plain: a `jsonline.Value` given to `Import` replaces the descriptor of the
    addressed cell, and the second import is judged by the new one.  Here the Auto cell `k` is
    given a Value of an unknown format; `"v"` is then refused, though the original cell takes it. -/
theorem import_import_needs_plain (ext : Ext) :
    let env : Env := ⟨genTables, ext⟩
    let k : Bytes := [0x6B]
    let row : List (Bytes × Val) := [(k, .cell .nil .auto .none)]
    let x₁ : Dyn := .val (.cell .nil .bad .none)
    let x₂ : Dyn := .str [0x76]
    ∃ row₁, importAtPath env row k x₁ = .ok (row₁, none) ∧
      importAtPath env row₁ k x₂ = .ok ([(k, .cell .nil .bad .none)], some .unsupportedFormat) ∧
      importAtPath env row k x₂ = .ok ([(k, .cell x₂ .auto .none)], none) := by
  refine ⟨[([0x6B], .cell .nil .bad .none)], rfl, rfl, ?_⟩
  show importAtKeys _ _ [[0x6B]] _ = _
  rw [import_one_of _ _ _ _ (.cell .nil .auto .none) rfl, importVal_cell,
    importCell_auto ext .auto _ (Or.inl rfl) (by intro r f t h; cases h)]
  rfl

/-! ### 5. The two readers -/

theorem splitDots_length (p : Bytes) : (splitDots p).length ≤ p.length + 1 := by
  induction p with
  | nil => simp [splitDots]
  | cons c rest ih =>
    unfold splitDots
    split
    · simp only [List.length_cons]; omega
    · split
      · simp
      · rename_i k ks hs
        rw [hs] at ih
        simp only [List.length_cons] at ih ⊢
        omega

theorem find_one (fuel : Nat) (row : List (Bytes × Val)) (k : Bytes) :
    findValues (fuel + 1) row [k] = (lookup row k).map fun v => [v] := by
  simp only [findValues]

theorem find_step (fuel : Nat) (row : List (Bytes × Val)) (k k2 : Bytes) (rest : List Bytes) :
    findValues (fuel + 1) row (k :: k2 :: rest) =
      match lookup row k with
      | none => none
      | some v =>
        match asRow v with
        | some sub => findValues fuel sub (k2 :: rest)
        | none =>
          match Cells.raw v with
          | .arr xs => some (xs.toList.foldl (fun acc x =>
              match x with
              | .val (.row ms) => acc ++ (findValues fuel ms.toList (k2 :: rest)).getD []
              | _ => acc) [])
          | _ => none := by
  simp only [findValues]
  rfl

/-- Whatever `GetValueAtPath` finds, `FindValuesAtPath` finds alone: a readable path crosses
    rows only. -/
theorem find_of_get_keys (keys : List Bytes) :
    ∀ (fuel : Nat) (row : List (Bytes × Val)) (v : Val), keys ≠ [] → keys.length ≤ fuel →
    getValueAtKeys row keys = some v → findValues fuel row keys = some [v] := by
  induction keys with
  | nil => intro _ _ _ hne; exact absurd rfl hne
  | cons k rest ih =>
    intro fuel row v _ hf hg
    cases fuel with
    | zero => simp at hf
    | succ n =>
      cases rest with
      | nil =>
        rw [get_one] at hg
        rw [find_one, hg]; rfl
      | cons k2 rest2 =>
        rw [get_step] at hg
        rw [find_step]
        cases hl : lookup row k with
        | none => rw [hl] at hg; cases hg
        | some w =>
          rw [hl] at hg
          cases ha : asRow w with
          | none => simp only [ha] at hg; cases hg
          | some sub =>
            simp only [ha] at hg ⊢
            exact ih n sub v (by simp) (by simp only [List.length_cons] at hf ⊢; omega) hg

/-- "No array lies on the path": the first value on the way that neither is nor wraps a row,
    if there is one before the last key, is not an array (`[]interface{}`). -/
def NoArrayOn (row : List (Bytes × Val)) : List Bytes → Prop
  | [] => True
  | [_] => True
  | k :: rest =>
    match lookup row k with
    | none => True
    | some v =>
      match asRow v with
      | some sub => NoArrayOn sub rest
      | none => ∀ xs, Cells.raw v ≠ .arr xs

theorem noArrayOn_step (row : List (Bytes × Val)) (k k2 : Bytes) (rest : List Bytes) :
    NoArrayOn row (k :: k2 :: rest) =
      match lookup row k with
      | none => True
      | some v =>
        match asRow v with
        | some sub => NoArrayOn sub (k2 :: rest)
        | none => ∀ xs, Cells.raw v ≠ .arr xs := by
  simp only [NoArrayOn]

/-- A readable path has no array on it. -/
theorem noArrayOn_of_get (keys : List Bytes) : ∀ (row : List (Bytes × Val)) (v : Val),
    getValueAtKeys row keys = some v → NoArrayOn row keys := by
  induction keys with
  | nil => intro _ _ _; trivial
  | cons k rest ih =>
    intro row v hg
    cases rest with
    | nil => trivial
    | cons k2 rest2 =>
      rw [get_step] at hg
      rw [noArrayOn_step]
      cases hl : lookup row k with
      | none => trivial
      | some w =>
        rw [hl] at hg
        cases ha : asRow w with
        | none => simp only [ha] at hg; cases hg
        | some sub =>
          simp only [ha] at hg ⊢
          exact ih sub v hg

/-- Where `GetValueAtPath` finds nothing and no array is met, `FindValuesAtPath` finds nothing. -/
theorem find_none_keys (keys : List Bytes) :
    ∀ (fuel : Nat) (row : List (Bytes × Val)), getValueAtKeys row keys = none →
    NoArrayOn row keys → findValues fuel row keys = none := by
  induction keys with
  | nil => intro _ _ hg; cases hg
  | cons k rest ih =>
    intro fuel row hg hna
    cases fuel with
    | zero => simp [findValues]
    | succ n =>
      cases rest with
      | nil =>
        rw [get_one] at hg
        rw [find_one, hg]; rfl
      | cons k2 rest2 =>
        rw [get_step] at hg
        rw [noArrayOn_step] at hna
        rw [find_step]
        cases hl : lookup row k with
        | none => rfl
        | some w =>
          rw [hl] at hg hna
          cases ha : asRow w with
          | none =>
            simp only [ha] at hna ⊢
            split
            · rename_i xs hx; exact absurd hx (hna xs)
            · rfl
          | some sub =>
            simp only [ha] at hg hna ⊢
            exact ih n sub hg hna

/-- **Target 5.** When no array lies on the path, `FindValuesAtPath` is `GetValueAtPath`: the
    singleton of the value found, absent when absent. -/
theorem find_single (row : List (Bytes × Val)) (path : Bytes)
    (hna : NoArrayOn row (splitDots path)) :
    findValuesAtPath row path = (getValueAtPath row path).map fun v => [v] := by
  unfold findValuesAtPath
  cases hg : getValueAtPath row path with
  | none => exact find_none_keys _ _ row hg hna
  | some v =>
    exact find_of_get_keys _ _ row v (splitDots_ne_nil path)
      (by have := splitDots_length path; omega) hg

/-- Without the hypothesis, in the one direction that needs none: a value `GetValueAtPath`
    finds is the only one `FindValuesAtPath` returns. -/
theorem find_of_get (row : List (Bytes × Val)) (path : Bytes) (v : Val)
    (hg : getValueAtPath row path = some v) : findValuesAtPath row path = some [v] := by
  rw [find_single row path (noArrayOn_of_get _ row v hg), hg]; rfl

/-- Why the hypothesis: through an array the two readers part — `GetValueAtPath` reports
    absence, `FindValuesAtPath` a (possibly empty) list. -/
theorem find_through_array (fuel : Nat) (row : List (Bytes × Val)) (k k2 : Bytes) (rest : List Bytes)
    (v : Val) (xs : DynList) (hl : lookup row k = some v) (ha : asRow v = none)
    (hx : Cells.raw v = .arr xs) :
    getValueAtKeys row (k :: k2 :: rest) = none ∧
      (findValues (fuel + 1) row (k :: k2 :: rest)).isSome = true := by
  constructor
  · rw [get_step, hl]; simp only [ha]
  · rw [find_step, hl]; simp only [ha, hx]; rfl

/-! ### 6. The statements are not vacuous: a parsed line -/

namespace Demo

def env : Env := ⟨genTables, Ext.empty⟩

/-- `{"a":{"b":{"c":1,"d":null}},"s":1}` -/
def line : Bytes :=
  [0x7B, 0x22, 0x61, 0x22, 0x3A, 0x7B, 0x22, 0x62, 0x22, 0x3A, 0x7B, 0x22, 0x63, 0x22, 0x3A, 0x31,
   0x2C, 0x22, 0x64, 0x22, 0x3A, 0x6E, 0x75, 0x6C, 0x6C, 0x7D, 0x7D, 0x2C, 0x22, 0x73, 0x22, 0x3A,
   0x31, 0x7D]

def tree : JVMembers :=
  .cons [0x61] (.obj (.cons [0x62] (.obj (.cons [0x63] (.num [0x31]) (.cons [0x64] .null .nil))) .nil))
    (.cons [0x73] (.num [0x31]) .nil)

/-- the row `UnmarshalJSON` builds from the line: nested objects are Auto cells wrapping rows -/
def inner (c : Dyn) : Val :=
  .cell (.val (.row (.cons [0x63] (.cell c .auto .none) (.cons [0x64] (.cell .nil .auto .none) .nil))))
    .auto .none

def rowWith (c : Dyn) : List (Bytes × Val) :=
  [([0x61], .cell (.val (.row (.cons [0x62] (inner c) .nil))) .auto .none),
   ([0x73], .cell (.num [0x31]) .auto .none)]

def row : List (Bytes × Val) := rowWith (.num [0x31])

def pABC : Bytes := [0x61, 0x2E, 0x62, 0x2E, 0x63]   -- a.b.c
def pABD : Bytes := [0x61, 0x2E, 0x62, 0x2E, 0x64]   -- a.b.d
def pSX : Bytes := [0x73, 0x2E, 0x78]                -- s.x
def seven : Dyn := .int .int 7

open Json in
theorem unmarshal_line : Json.unmarshal line = (tree, true) := by
  simp [line, tree, unmarshal, token, tokenCore, skipSpace, isSpace, asClose, parseObject,
    more, asKey, asTok, strBody, pre, handleDelim, scanScalar, scanNumber, scanInt,
    scanFracExp, digits, Json.isDigit, valueAllowed, valueEnd, isEof, stripPrefix]

/-- The row is the one the model's reader makes of the text. -/
theorem parsed : unmarshalInto env [] line = .ok (row, none) := by
  simp only [unmarshalInto, unmarshal_line]
  rfl

theorem split_abc : splitDots pABC = [[0x61], [0x62], [0x63]] := by decide
theorem split_abd : splitDots pABD = [[0x61], [0x62], [0x64]] := by decide
theorem split_sx : splitDots pSX = [[0x73], [0x78]] := by decide

theorem get_abc (c : Dyn) : getValueAtPath (rowWith c) pABC = some (.cell c .auto .none) := by
  rw [getValueAtPath, split_abc]; rfl

theorem get_abd (c : Dyn) : getValueAtPath (rowWith c) pABD = some (.cell .nil .auto .none) := by
  rw [getValueAtPath, split_abd]; rfl

/-- Import of 7 at `a.b.c`: the row afterwards is the same row with 7 in that cell. -/
theorem import_abc : importAtPath env row pABC seven = .ok (rowWith seven, none) := by
  have hc : importVal env (.cell (.num [0x31]) .auto .none) seven = .ok (.cell seven .auto .none, none) := by
    rw [importVal_cell]
    exact importCell_auto Ext.empty .auto seven (Or.inl rfl) (by intro r f t h; cases h)
  rw [importAtPath, split_abc]
  rw [import_step_of env row [([0x62], inner (.num [0x31]))] [0x61] [0x62] [[0x63]] seven _ rfl rfl,
    import_step_of env _ [([0x63], .cell (.num [0x31]) .auto .none), ([0x64], .cell .nil .auto .none)]
      [0x62] [0x63] [] seven _ rfl rfl,
    import_one_of env _ [0x63] seven _ rfl, hc]
  rfl

/-- **Target 6.** On the parsed line: importing 7 at `a.b.c` succeeds; `a.b.c` then reads 7;
    `a.b.d` reads what it read before (a nil cell); importing at `s.x` — below the scalar `s` —
    answers ErrPathNotFound and changes nothing. -/
theorem demo :
    unmarshalInto env [] line = .ok (row, none) ∧
    ∃ row', importAtPath env row pABC seven = .ok (row', none) ∧
      getAtPath row' pABC = some seven ∧
      getValueAtPath row' pABD = getValueAtPath row pABD ∧
      getValueAtPath row pABD = some (.cell .nil .auto .none) ∧
      importAtPath env row' pSX seven = .ok (row', some .pathNotFound) ∧
      importAtPath env row pSX seven = .ok (row, some .pathNotFound) := by
  refine ⟨parsed, rowWith seven, import_abc, ?_, ?_, get_abd _, ?_, ?_⟩
  · simp [getAtPath, get_abc, Cells.raw]
  · rw [get_abd, show row = rowWith (.num [0x31]) from rfl, get_abd]
  · exact import_missing_is_error_and_noop env _ pSX seven (by rw [getValueAtPath, split_sx]; rfl)
  · exact import_missing_is_error_and_noop env _ pSX seven (by rw [getValueAtPath, split_sx]; rfl)

/-- The same facts obtained from the general theorems (their hypotheses are met here). -/
theorem demo_general (row' : List (Bytes × Val)) (e : Option ErrClass)
    (h : importAtPath env row pABC seven = .ok (row', e)) :
    e = none ∧ getAtPath row' pABC = some seven ∧
      getValueAtPath row' pABD = getValueAtPath row pABD := by
  obtain ⟨he, _, hr⟩ := get_after_import_auto Ext.empty row row' pABC seven e (.num [0x31]) .auto
    (Or.inl rfl) (by intro r f t h; cases h) (get_abc _) h
  refine ⟨he, hr, import_keeps_other_paths env row row' pABC pABD seven e h ?_ ?_⟩
  · rw [split_abc, split_abd]; decide
  · rw [split_abc, split_abd]; decide

/-- `find_single` on the parsed row. -/
theorem demo_find : findValuesAtPath row pABC = some [.cell (.num [0x31]) .auto .none] :=
  find_of_get row pABC _ (get_abc _)

end Demo

/-! A built row: the nested row is a bare row cell, and stays one. -/
namespace DemoBuilt

def env : Env := ⟨genTables, Ext.empty⟩

def rowWith (c : Dyn) : List (Bytes × Val) :=
  [([0x61], .row (.cons [0x62] (.cell c .auto .none) (.cons [0x63] (.cell (.bool true) .auto .none) .nil)))]

def row : List (Bytes × Val) := rowWith .nil
def pAB : Bytes := [0x61, 0x2E, 0x62]   -- a.b
def pAC : Bytes := [0x61, 0x2E, 0x63]   -- a.c
def x : Dyn := .str [0x76]

theorem split_ab : splitDots pAB = [[0x61], [0x62]] := by decide
theorem split_ac : splitDots pAC = [[0x61], [0x63]] := by decide

theorem get_ab (c : Dyn) : getValueAtPath (rowWith c) pAB = some (.cell c .auto .none) := by
  rw [getValueAtPath, split_ab]; rfl

theorem import_ab : importAtPath env row pAB x = .ok (rowWith x, none) := by
  have hc : importVal env (.cell .nil .auto .none) x = .ok (.cell x .auto .none, none) := by
    rw [importVal_cell]
    exact importCell_auto Ext.empty .auto x (Or.inl rfl) (by intro r f t h; cases h)
  rw [importAtPath, split_ab,
    import_step_of env row [([0x62], .cell .nil .auto .none), ([0x63], .cell (.bool true) .auto .none)]
      [0x61] [0x62] [] x _ rfl rfl,
    import_one_of env _ [0x62] x _ rfl, hc]
  rfl

theorem demo (row' : List (Bytes × Val)) (e : Option ErrClass)
    (h : importAtPath env row pAB x = .ok (row', e)) :
    e = none ∧ getAtPath row' pAB = some x ∧ getValueAtPath row' pAC = getValueAtPath row pAC ∧
      getValueAtPath row pAC = some (.cell (.bool true) .auto .none) := by
  obtain ⟨he, _, hr⟩ := get_after_import_auto Ext.empty row row' pAB x e .nil .auto
    (Or.inl rfl) (by intro r f t h; cases h) (get_ab _) h
  refine ⟨he, hr, import_keeps_other_paths env row row' pAB pAC x e h ?_ ?_, ?_⟩
  · rw [split_ab, split_ac]; decide
  · rw [split_ab, split_ac]; decide
  · rw [getValueAtPath, split_ac]; rfl

end DemoBuilt

end Jl.PathRoundTrip
