/-
  Proofs.Base64 — encoding/base64.StdEncoding (Model.Base64):
  decode ∘ encode = id, shape of the encoder's output (alphabet, length, padding only at the
  end, no CR/LF), injectivity of `encode`, and the canonical form: a CR/LF-free string whose
  unused trailing bits are zero and which decodes to `bs` *is* `encode bs`.
-/
import Model.Base64

namespace Jl.Base64

/-! ### The alphabet -/

/-- `c` is one of the 64 alphabet characters. -/
def IsAlpha (c : UInt8) : Prop := (decChar c).isSome = true

instance (c : UInt8) : Decidable (IsAlpha c) := by unfold IsAlpha; infer_instance

theorem decChar_encChar : ∀ n, n < 64 → decChar (encChar n) = some n := by decide

/-- Out of range the encoder's table lookup is modelled by `/` (never reached by `encode`). -/
theorem encChar_ge (n : Nat) (h : 64 ≤ n) : encChar n = 0x2F := by
  unfold encChar
  have h1 : ¬ n < 26 := by omega
  have h2 : ¬ n < 52 := by omega
  have h3 : ¬ n < 62 := by omega
  have h4 : (n == 62) = false := by simp; omega
  simp [h1, h2, h3, h4]

theorem encChar_alpha (n : Nat) : IsAlpha (encChar n) := by
  unfold IsAlpha
  by_cases h : n < 64
  · rw [decChar_encChar n h]; rfl
  · rw [encChar_ge n (by omega)]; decide

theorem alpha_ne (c : UInt8) (h : IsAlpha c) : c ≠ 0x3D ∧ c ≠ 0x0D ∧ c ≠ 0x0A := by
  refine ⟨?_, ?_, ?_⟩ <;> (intro hc; subst hc; revert h; decide)

theorem encChar_ne_pad (n : Nat) : encChar n ≠ 0x3D := (alpha_ne _ (encChar_alpha n)).1
theorem encChar_ne_cr (n : Nat) : encChar n ≠ 0x0D := (alpha_ne _ (encChar_alpha n)).2.1
theorem encChar_ne_lf (n : Nat) : encChar n ≠ 0x0A := (alpha_ne _ (encChar_alpha n)).2.2

theorem encChar_inj (m n : Nat) (hm : m < 64) (hn : n < 64) (h : encChar m = encChar n) :
    m = n := by
  have := congrArg decChar h
  rw [decChar_encChar m hm, decChar_encChar n hn] at this
  exact Option.some.inj this

set_option maxRecDepth 4096 in
private theorem decChar_ofNat_aux : ∀ k, k < 256 →
    (decChar (UInt8.ofNat k)).all (fun n => decide (n < 64) && encChar n == UInt8.ofNat k)
      = true := by
  decide

/-- `decChar` is the partial inverse of `encChar` on 0..63. -/
theorem decChar_some (c : UInt8) (n : Nat) (h : decChar c = some n) :
    n < 64 ∧ encChar n = c := by
  have := decChar_ofNat_aux c.toNat (UInt8.toNat_lt c)
  rw [UInt8.ofNat_toNat, h] at this
  simpa using this

/-! ### decode ∘ encode -/

theorem decodeQuanta_encode (bs : Bytes) : decodeQuanta (encode bs) = some bs := by
  induction bs using encode.induct with
  | case1 a b c rest ih =>
    have ha := UInt8.toNat_lt a
    have hb := UInt8.toNat_lt b
    have hc := UInt8.toNat_lt c
    rw [encode]
    generalize hn : a.toNat * 65536 + b.toNat * 256 + c.toNat = n
    rw [decodeQuanta.eq_4 _ _ _ _ _ (fun _ h _ => encChar_ne_pad _ h)
      (fun h _ => encChar_ne_pad _ h)]
    rw [decChar_encChar _ (by omega), decChar_encChar _ (by omega), decChar_encChar _ (by omega),
      decChar_encChar _ (by omega), ih]
    have e : ((n / 262144 * 64 + n / 4096 % 64) * 64 + n / 64 % 64) * 64 + n % 64 = n := by omega
    have e1 : n / 65536 = a.toNat := by omega
    have e2 : n / 256 % 256 = b.toNat := by omega
    have e3 : n % 256 = c.toNat := by omega
    simp only [Option.bind_eq_bind, Option.bind_some, e, e1, e2, e3, UInt8.ofNat_toNat, pure]
  | case2 a b =>
    have ha := UInt8.toNat_lt a
    have hb := UInt8.toNat_lt b
    rw [encode]
    generalize hn : a.toNat * 65536 + b.toNat * 256 = n
    rw [decodeQuanta.eq_3 _ _ _ (encChar_ne_pad _)]
    rw [decChar_encChar _ (by omega), decChar_encChar _ (by omega), decChar_encChar _ (by omega)]
    have e1 : ((n / 262144 * 64 + n / 4096 % 64) * 64 + n / 64 % 64) / 1024 = a.toNat := by omega
    have e2 : ((n / 262144 * 64 + n / 4096 % 64) * 64 + n / 64 % 64) / 4 % 256 = b.toNat := by
      omega
    simp only [Option.bind_eq_bind, Option.bind_some, e1, e2, UInt8.ofNat_toNat, pure]
  | case3 a =>
    have ha := UInt8.toNat_lt a
    rw [encode]
    generalize hn : a.toNat * 65536 = n
    rw [decodeQuanta.eq_2]
    rw [decChar_encChar _ (by omega), decChar_encChar _ (by omega)]
    have e1 : (n / 262144 * 64 + n / 4096 % 64) / 16 = a.toNat := by omega
    simp only [Option.bind_eq_bind, Option.bind_some, e1, UInt8.ofNat_toNat, pure]
  | case4 => rfl

/-! ### Shape of the encoder's output -/

theorem encode_length (bs : Bytes) : (encode bs).length = 4 * ((bs.length + 2) / 3) := by
  induction bs using encode.induct with
  | case1 a b c rest ih => rw [encode]; simp only [List.length_cons, ih]; omega
  | case2 a b => simp [encode]
  | case3 a => simp [encode]
  | case4 => rfl

/-- The output is a run of alphabet characters followed by 0, 1 or 2 `=`: exactly
    `(3 - len % 3) % 3` of them. -/
theorem encode_shape (bs : Bytes) :
    ∃ body, encode bs = body ++ List.replicate ((3 - bs.length % 3) % 3) 0x3D ∧
      ∀ ch ∈ body, IsAlpha ch := by
  induction bs using encode.induct with
  | case1 a b c rest ih =>
    obtain ⟨body, hb, hall⟩ := ih
    rw [encode, hb]
    generalize a.toNat * 65536 + b.toNat * 256 + c.toNat = n
    refine ⟨encChar (n / 262144) :: encChar (n / 4096 % 64) :: encChar (n / 64 % 64) ::
      encChar (n % 64) :: body, ?_, ?_⟩
    · have : (rest.length + 1 + 1 + 1) % 3 = rest.length % 3 := by omega
      simp only [List.length_cons, this, List.cons_append]
    · intro ch hch
      simp only [List.mem_cons] at hch
      rcases hch with h | h | h | h | h
      · exact h ▸ encChar_alpha _
      · exact h ▸ encChar_alpha _
      · exact h ▸ encChar_alpha _
      · exact h ▸ encChar_alpha _
      · exact hall ch h
  | case2 a b =>
    rw [encode]
    generalize a.toNat * 65536 + b.toNat * 256 = n
    refine ⟨[encChar (n / 262144), encChar (n / 4096 % 64), encChar (n / 64 % 64)], rfl, ?_⟩
    intro ch hch
    simp only [List.mem_cons, List.not_mem_nil, or_false] at hch
    rcases hch with h | h | h <;> exact h ▸ encChar_alpha _
  | case3 a =>
    rw [encode]
    generalize a.toNat * 65536 = n
    refine ⟨[encChar (n / 262144), encChar (n / 4096 % 64)], rfl, ?_⟩
    intro ch hch
    simp only [List.mem_cons, List.not_mem_nil, or_false] at hch
    rcases hch with h | h <;> exact h ▸ encChar_alpha _
  | case4 => exact ⟨[], rfl, by simp⟩

/-- Only alphabet characters and `=`. -/
theorem encode_chars (bs : Bytes) : ∀ ch ∈ encode bs, IsAlpha ch ∨ ch = 0x3D := by
  obtain ⟨body, hb, hall⟩ := encode_shape bs
  intro ch hch
  rw [hb, List.mem_append] at hch
  rcases hch with h | h
  · exact Or.inl (hall ch h)
  · exact Or.inr (List.eq_of_mem_replicate h)

theorem encode_no_crlf (bs : Bytes) : ∀ ch ∈ encode bs, ch ≠ 0x0D ∧ ch ≠ 0x0A := by
  intro ch hch
  rcases encode_chars bs ch hch with h | h
  · exact (alpha_ne ch h).2
  · subst h; decide

/-- `=` can only be one of the last two bytes. -/
theorem encode_pad_last (bs : Bytes) (i : Nat) (h : (encode bs)[i]? = some 0x3D) :
    (encode bs).length ≤ i + 2 := by
  obtain ⟨body, hb, hall⟩ := encode_shape bs
  rw [hb] at h ⊢
  have hk : (3 - bs.length % 3) % 3 ≤ 2 := by omega
  rw [List.length_append, List.length_replicate]
  by_cases hi : i < body.length
  · rw [List.getElem?_append_left hi] at h
    have hm : (0x3D : UInt8) ∈ body := List.mem_of_getElem? h
    exact absurd rfl (alpha_ne _ (hall _ hm)).1
  · omega

/-- The CR/LF filter of `decode` is the identity on the encoder's output. -/
theorem filter_encode (bs : Bytes) :
    (encode bs).filter (fun c => c != 0x0D && c != 0x0A) = encode bs := by
  rw [List.filter_eq_self]
  intro ch hch
  have := encode_no_crlf bs ch hch
  simp [this.1, this.2]

theorem decode_encode (bs : Bytes) : decode (encode bs) = some bs := by
  unfold decode
  rw [filter_encode, decodeQuanta_encode]

theorem encode_injective (as bs : Bytes) (h : encode as = encode bs) : as = bs := by
  have := decode_encode as
  rw [h, decode_encode] at this
  exact (Option.some.inj this).symm

/-! ### Canonical form -/

/-- The unused trailing bits of the last quantum are zero: 4 bits of the second character
    before `==`, 2 bits of the third character before a single `=`. -/
def TailZero (s : Bytes) : Prop :=
  (∀ p b y, s = p ++ [b, 0x3D, 0x3D] → decChar b = some y → y % 16 = 0) ∧
  (∀ p c z, s = p ++ [c, 0x3D] → decChar c = some z → z % 4 = 0)

theorem encode_decodeQuanta (s bs : Bytes) (h : decodeQuanta s = some bs) (hz : TailZero s) :
    encode bs = s := by
  induction s using decodeQuanta.induct generalizing bs with
  | case1 =>
    rw [decodeQuanta] at h
    cases h; rfl
  | case2 a b =>
    rw [decodeQuanta.eq_2] at h
    cases hx : decChar a with
    | none => simp [hx] at h
    | some x =>
      cases hy : decChar b with
      | none => simp [hx, hy] at h
      | some y =>
        simp only [hx, hy, Option.bind_eq_bind, Option.bind_some, pure, Option.some.injEq] at h
        subst h
        obtain ⟨hx64, hxa⟩ := decChar_some a x hx
        obtain ⟨hy64, hyb⟩ := decChar_some b y hy
        have hy0 : y % 16 = 0 := hz.1 [a] b y rfl hy
        rw [encode, UInt8.toNat_ofNat']
        have e1 : (x * 64 + y) / 16 % 2 ^ 8 * 65536 / 262144 = x := by omega
        have e2 : (x * 64 + y) / 16 % 2 ^ 8 * 65536 / 4096 % 64 = y := by omega
        rw [e1, e2, hxa, hyb]
  | case3 a b c hc =>
    rw [decodeQuanta.eq_3 _ _ _ hc] at h
    cases hx : decChar a with
    | none => simp [hx] at h
    | some x =>
      cases hy : decChar b with
      | none => simp [hx, hy] at h
      | some y =>
        cases hz' : decChar c with
        | none => simp [hx, hy, hz'] at h
        | some z =>
          simp only [hx, hy, hz', Option.bind_eq_bind, Option.bind_some, pure,
            Option.some.injEq] at h
          subst h
          obtain ⟨hx64, hxa⟩ := decChar_some a x hx
          obtain ⟨hy64, hyb⟩ := decChar_some b y hy
          obtain ⟨hz64, hzc⟩ := decChar_some c z hz'
          have hz0 : z % 4 = 0 := hz.2 [a, b] c z rfl hz'
          rw [encode, UInt8.toNat_ofNat', UInt8.toNat_ofNat']
          generalize hn : (x * 64 + y) * 64 + z = n
          have e1 : (n / 1024 % 2 ^ 8 * 65536 + n / 4 % 256 % 2 ^ 8 * 256) / 262144 = x := by
            omega
          have e2 : (n / 1024 % 2 ^ 8 * 65536 + n / 4 % 256 % 2 ^ 8 * 256) / 4096 % 64 = y := by
            omega
          have e3 : (n / 1024 % 2 ^ 8 * 65536 + n / 4 % 256 % 2 ^ 8 * 256) / 64 % 64 = z := by
            omega
          rw [e1, e2, e3, hxa, hyb, hzc]
  | case4 a b c d rest h1 h2 ih =>
    rw [decodeQuanta.eq_4 _ _ _ _ _ h1 h2] at h
    cases hx : decChar a with
    | none => simp [hx] at h
    | some x =>
      cases hy : decChar b with
      | none => simp [hx, hy] at h
      | some y =>
        cases hz' : decChar c with
        | none => simp [hx, hy, hz'] at h
        | some z =>
          cases hw : decChar d with
          | none => simp [hx, hy, hz', hw] at h
          | some w =>
            cases hr : decodeQuanta rest with
            | none => simp [hx, hy, hz', hw, hr] at h
            | some r =>
              simp only [hx, hy, hz', hw, hr, Option.bind_eq_bind, Option.bind_some, pure,
                Option.some.injEq] at h
              subst h
              obtain ⟨hx64, hxa⟩ := decChar_some a x hx
              obtain ⟨hy64, hyb⟩ := decChar_some b y hy
              obtain ⟨hz64, hzc⟩ := decChar_some c z hz'
              obtain ⟨hw64, hwd⟩ := decChar_some d w hw
              have hzr : TailZero rest :=
                ⟨fun p b' y' hp hb' => hz.1 (a :: b :: c :: d :: p) b' y' (by rw [hp]; rfl) hb',
                 fun p c' z' hp hc' => hz.2 (a :: b :: c :: d :: p) c' z' (by rw [hp]; rfl) hc'⟩
              rw [encode, ih r hr hzr, UInt8.toNat_ofNat', UInt8.toNat_ofNat',
                UInt8.toNat_ofNat']
              generalize hn : ((x * 64 + y) * 64 + z) * 64 + w = n
              have e0 : n / 65536 % 2 ^ 8 * 65536 + n / 256 % 256 % 2 ^ 8 * 256 + n % 256 % 2 ^ 8
                  = n := by omega
              have e1 : n / 262144 = x := by omega
              have e2 : n / 4096 % 64 = y := by omega
              have e3 : n / 64 % 64 = z := by omega
              have e4 : n % 64 = w := by omega
              rw [e0, e1, e2, e3, e4, hxa, hyb, hzc, hwd]
  | case5 s h1 h2 h3 h4 =>
    rw [decodeQuanta.eq_5 s h1 h2 h3 h4] at h
    cases h

/-- Canonical form: a string without CR/LF, with zero trailing bits, that decodes to `bs`
    is the encoder's output for `bs`. -/
theorem encode_decode (s bs : Bytes) (h : decode s = some bs)
    (hcrlf : ∀ ch ∈ s, ch ≠ 0x0D ∧ ch ≠ 0x0A) (hz : TailZero s) : encode bs = s := by
  have hf : s.filter (fun c => c != 0x0D && c != 0x0A) = s := by
    rw [List.filter_eq_self]
    intro ch hch
    have := hcrlf ch hch
    simp [this.1, this.2]
  unfold decode at h
  rw [hf] at h
  exact encode_decodeQuanta s bs h hz

/-- With CR/LF: what is left after removing them is the canonical encoding. -/
theorem encode_decode_filter (s bs : Bytes) (h : decode s = some bs)
    (hz : TailZero (s.filter fun c => c != 0x0D && c != 0x0A)) :
    encode bs = s.filter fun c => c != 0x0D && c != 0x0A :=
  encode_decodeQuanta _ bs h hz

/-- Weak form (needs no hypothesis on `s`): whatever decodes re-encodes to something that
    decodes to the same bytes. -/
theorem decode_encode_of_decode (s bs : Bytes) (_h : decode s = some bs) :
    decode (encode bs) = some bs := decode_encode bs

/-! ### The encoder's output is canonical -/

private theorem cons4_eq_append {α : Type} (q0 q1 q2 q3 : α) (E p t : List α)
    (hE : 4 ≤ E.length) (ht : t.length ≤ 4) (h : q0 :: q1 :: q2 :: q3 :: E = p ++ t) :
    ∃ p', p = q0 :: q1 :: q2 :: q3 :: p' ∧ E = p' ++ t := by
  have hl := congrArg List.length h
  simp only [List.length_cons, List.length_append] at hl
  match p, h with
  | p0 :: p1 :: p2 :: p3 :: p', h =>
    simp only [List.cons_append, List.cons.injEq] at h
    obtain ⟨rfl, rfl, rfl, rfl, h⟩ := h
    exact ⟨p', rfl, h⟩
  | [], _ => simp at hl; omega
  | [_], _ => simp at hl; omega
  | [_, _], _ => simp at hl; omega
  | [_, _, _], _ => simp at hl; omega

private theorem pre_one {α : Type} {l p t : List α} (h : l = p ++ t)
    (hl : l.length = t.length + 1) : ∃ x, p = [x] := by
  have := congrArg List.length h
  rw [List.length_append] at this
  exact List.length_eq_one_iff.mp (by omega)

private theorem pre_two {α : Type} {l p t : List α} (h : l = p ++ t)
    (hl : l.length = t.length + 2) : ∃ x y, p = [x, y] := by
  have := congrArg List.length h
  rw [List.length_append] at this
  have h2 : p.length = 2 := by omega
  match p, h2 with
  | [x, y], _ => exact ⟨x, y, rfl⟩
  | [], h2 => simp at h2
  | [_], h2 => simp at h2
  | _ :: _ :: _ :: _, h2 => simp at h2

private theorem tailZero_quad (q0 q1 q2 q3 : UInt8)
    (h1 : ∀ y, q2 = 0x3D → q3 = 0x3D → decChar q1 = some y → y % 16 = 0)
    (h2 : ∀ z, q3 = 0x3D → decChar q2 = some z → z % 4 = 0) : TailZero [q0, q1, q2, q3] := by
  constructor
  · intro p b y hp hb
    obtain ⟨x, rfl⟩ := pre_one hp rfl
    simp only [List.cons_append, List.nil_append, List.cons.injEq, and_true] at hp
    obtain ⟨_, rfl, rfl, rfl⟩ := hp
    exact h1 y rfl rfl hb
  · intro p c z hp hc
    obtain ⟨x, x', rfl⟩ := pre_two hp rfl
    simp only [List.cons_append, List.nil_append, List.cons.injEq, and_true] at hp
    obtain ⟨_, _, rfl, rfl⟩ := hp
    exact h2 z rfl hc

theorem tailZero_encode (bs : Bytes) : TailZero (encode bs) := by
  induction bs using encode.induct with
  | case1 a b c rest ih =>
    rw [encode]
    by_cases hr : rest = []
    · subst hr
      rw [encode]
      exact tailZero_quad _ _ _ _ (fun _ _ h => absurd h (encChar_ne_pad _))
        (fun _ h => absurd h (encChar_ne_pad _))
    · have hE : 4 ≤ (encode rest).length := by
        rw [encode_length]
        have : 1 ≤ rest.length := by
          cases rest with
          | nil => exact absurd rfl hr
          | cons _ _ => simp
        omega
      constructor
      · intro p b' y hp hb'
        obtain ⟨p', _, hp'⟩ := cons4_eq_append _ _ _ _ _ p _ hE (by simp) hp
        exact ih.1 p' b' y hp' hb'
      · intro p c' z hp hc'
        obtain ⟨p', _, hp'⟩ := cons4_eq_append _ _ _ _ _ p _ hE (by simp) hp
        exact ih.2 p' c' z hp' hc'
  | case2 a b =>
    have hb := UInt8.toNat_lt b
    rw [encode]
    refine tailZero_quad _ _ _ _ (fun _ h => absurd h (encChar_ne_pad _)) ?_
    intro z _ hz
    rw [decChar_encChar _ (by omega)] at hz
    cases hz
    omega
  | case3 a =>
    have ha := UInt8.toNat_lt a
    rw [encode]
    refine tailZero_quad _ _ _ _ ?_ ?_
    · intro y _ _ hy
      rw [decChar_encChar _ (by omega)] at hy
      cases hy
      omega
    · intro z _ hz
      have hn : decChar 0x3D = none := by decide
      rw [hn] at hz
      cases hz
  | case4 =>
    constructor
    · intro p b y hp; simp [encode] at hp
    · intro p b y hp; simp [encode] at hp

/-- Characterisation of the encoder's output among CR/LF-free strings. -/
theorem eq_encode_iff (s bs : Bytes) :
    s = encode bs ↔ decodeQuanta s = some bs ∧ TailZero s := by
  constructor
  · rintro rfl; exact ⟨decodeQuanta_encode bs, tailZero_encode bs⟩
  · rintro ⟨h, hz⟩; exact (encode_decodeQuanta s bs h hz).symm

/-- The same at the level of `decode`: the encoder's outputs are exactly the CR/LF-free,
    zero-trailing-bits strings that decode. -/
theorem eq_encode_iff_decode (s bs : Bytes) :
    s = encode bs ↔
      decode s = some bs ∧ (∀ ch ∈ s, ch ≠ 0x0D ∧ ch ≠ 0x0A) ∧ TailZero s := by
  constructor
  · rintro rfl; exact ⟨decode_encode bs, encode_no_crlf bs, tailZero_encode bs⟩
  · rintro ⟨h, hc, hz⟩; exact (encode_decode s bs h hc hz).symm

/-! ### Concrete checks (non-vacuity) -/

/-- "hello" ↦ "aGVsbG8=" -/
example : encode [104, 101, 108, 108, 111] = [97, 71, 86, 115, 98, 71, 56, 61] := by decide
example : decode [97, 71, 86, 115, 98, 71, 56, 61] = some [104, 101, 108, 108, 111] := by decide
/-- CR LF inside the text are skipped. -/
example : decode [97, 71, 86, 115, 13, 10, 98, 71, 56, 61] = some [104, 101, 108, 108, 111] := by
  decide
/-- "aGVsbG9=" has non-zero trailing bits and decodes to "hello" as well (Go's non-strict
    mode): the `TailZero` hypothesis of `encode_decode` cannot be dropped. -/
example : decode [97, 71, 86, 115, 98, 71, 57, 61] = some [104, 101, 108, 108, 111] := by decide
example : ¬ TailZero [97, 71, 86, 115, 98, 71, 57, 61] := by
  intro h
  have := h.2 [97, 71, 86, 115, 98, 71] 57 61 rfl (by decide)
  exact absurd this (by decide)
/-- "" , "f" ↦ "Zg==", "fo" ↦ "Zm8=", "foo" ↦ "Zm9v" (RFC 4648 §10). -/
example : encode [] = [] := by decide
example : encode [102] = [90, 103, 61, 61] := by decide
example : encode [102, 111] = [90, 109, 56, 61] := by decide
example : encode [102, 111, 111] = [90, 109, 57, 118] := by decide
/-- Missing padding and padding in the middle are refused. -/
example : decode [90, 103] = none := by decide
example : decode [90, 103, 61] = none := by decide
example : decode [90, 103, 61, 61, 90, 103, 61, 61] = none := by decide
example : decode [90, 61, 61, 61] = none := by decide

end Jl.Base64
