/-
  Proofs.IntTextJson — FormatInt output against encoding/json's `isValidNumber` and the
  plain-decimal predicate of the cast specification; relation of `isValidNumber` to the
  reader's number scanner.
-/
import Proofs.IntText
import Model.JsonWrite
import Model.CastSpec

namespace Jl.IntText
open JsonWrite

/-! ### `isValidNumber` in stages

Named copies of the inline `let`/`match` stages of `JsonWrite.isValidNumber`; the restatement
`isValidNumber_eq` holds by `rfl`, the model is unchanged. -/

def stripMinus (s : Bytes) : Bytes :=
  match s with
  | 0x2D :: r => r
  | _ => s

def afterInt (s : Bytes) : Option Bytes :=
  match s with
  | [] => none
  | c :: r =>
    if c == 0x30 then some r
    else if 0x31 ≤ c && c ≤ 0x39 then some (dropDigits r)
    else none

def afterFrac (s : Bytes) : Option Bytes :=
  match s with
  | 0x2E :: d :: r => if JsonWrite.isDigit d then some (dropDigits r) else none
  | 0x2E :: [] => none
  | _ => some s

def afterExp (s : Bytes) : Option Bytes :=
  match s with
  | e :: r =>
    if e == 0x65 || e == 0x45 then
      let r := match r with
        | sg :: r' => if sg == 0x2B || sg == 0x2D then r' else r
        | [] => r
      match r with
      | d :: r' => if JsonWrite.isDigit d then some (dropDigits r') else none
      | [] => none
    else some s
  | [] => some s

def isNil (o : Option Bytes) : Bool :=
  match o with
  | some [] => true
  | _ => false

theorem isValidNumber_eq (s : Bytes) :
    isValidNumber s = isNil (((afterInt (stripMinus s)).bind afterFrac).bind afterExp) := by
  cases s with
  | nil => rfl
  | cons c r =>
    have h1 : isValidNumber (c :: r) =
        match stripMinus (c :: r) with
        | [] => false
        | c :: r =>
          match (if c == 0x30 then some r
              else if 0x31 ≤ c && c ≤ 0x39 then some (dropDigits r) else none : Option Bytes) with
          | none => false
          | some s =>
            match afterFrac s with
            | none => false
            | some s => isNil (afterExp s) := rfl
    rw [h1]
    cases stripMinus (c :: r) with
    | nil => rfl
    | cons c' r' =>
      simp only [afterInt]
      cases (if c' == 0x30 then some r'
              else if 0x31 ≤ c' && c' ≤ 0x39 then some (dropDigits r') else none : Option Bytes) with
      | none => rfl
      | some s1 =>
        simp only [Option.bind_some]
        cases afterFrac s1 <;> rfl

/-! ### FormatInt output is a valid, plain-decimal JSON number -/

theorem stripMinus_minus (r : Bytes) : stripMinus (0x2D :: r) = r := rfl

theorem stripMinus_of_ne {c : UInt8} (tl : Bytes) (h : c ≠ 0x2D) :
    stripMinus (c :: tl) = c :: tl := by
  unfold stripMinus
  split
  · rename_i h'; injection h' with h1 _; exact absurd h1 h
  · rfl

theorem dropDigits_of_all (ds : Bytes) (h : ∀ d ∈ ds, IsDig d) : dropDigits ds = [] := by
  induction ds with
  | nil => rfl
  | cons d ds ih =>
    have hd : JsonWrite.isDigit d = true := (isDigit_iff d).2 (h d (by simp))
    simp [dropDigits, hd, ih (fun x hx => h x (by simp [hx]))]

theorem afterInt_natDigits (n : Nat) : afterInt (natDigits n) = some [] := by
  by_cases hn : n = 0
  · subst hn; rw [natDigits_zero]; rfl
  · obtain ⟨c, tl, e, h1, h2, h3⟩ := natDigits_pos_shape n (by omega)
    have hc0 : c ≠ 0x30 := ne_of_toNat_ne (by simp; omega)
    have hc1 : (0x31 ≤ c && c ≤ 0x39) = true := (nonzero_digit_iff c).2 ⟨h1, h2⟩
    rw [e]
    simp only [afterInt, beq_iff_eq, hc0, if_false, hc1, if_true, dropDigits_of_all tl h3]

theorem stripMinus_formatInt (v : Int) :
    stripMinus (formatInt v) = natDigits (if v < 0 then (-v).toNat else v.toNat) := by
  unfold formatInt
  by_cases hv : v < 0
  · simp only [hv, if_true, stripMinus_minus]
  · simp only [hv, if_false]
    obtain ⟨c, tl, e, _, h2⟩ := natDigits_head_ne_sign v.toNat
    rw [e]; exact stripMinus_of_ne tl h2

theorem isValidNumber_formatInt (v : Int) : isValidNumber (formatInt v) = true := by
  rw [isValidNumber_eq, stripMinus_formatInt, afterInt_natDigits]; rfl

theorem formatInt_bytes (v : Int) : ∀ c ∈ formatInt v, c = 0x2D ∨ IsDig c := by
  intro c hc
  unfold formatInt at hc
  split at hc
  · simp at hc
    rcases hc with hc | hc
    · exact .inl hc
    · exact .inr (natDigits_all_isDig _ c hc)
  · exact .inr (natDigits_all_isDig _ c hc)

theorem formatInt_no_exponent (v : Int) :
    (formatInt v).contains 0x65 = false ∧ (formatInt v).contains 0x45 = false := by
  constructor
  · simp only [List.contains_eq_mem, decide_eq_false_iff_not]
    intro h
    rcases formatInt_bytes v _ h with h | h
    · revert h; decide
    · revert h; decide
  · simp only [List.contains_eq_mem, decide_eq_false_iff_not]
    intro h
    rcases formatInt_bytes v _ h with h | h
    · revert h; decide
    · revert h; decide

theorem plainDecimal_formatInt (v : Int) : CastSpec.plainDecimal (formatInt v) = true := by
  unfold CastSpec.plainDecimal
  rw [isValidNumber_formatInt, (formatInt_no_exponent v).1, (formatInt_no_exponent v).2]; rfl

/-! ### Non-finite float spellings are not numbers

`ofString` goes through `String.toUTF8`, which plain `decide` does not unfold on a literal
(default transparency); `with_unfolding_all decide` evaluates it — still kernel-checked, no
extra axioms.  The byte-literal forms below are by plain `decide`. -/

theorem ofString_NaN : IntText.ofString "NaN" = [0x4E, 0x61, 0x4E] := by with_unfolding_all rfl
theorem ofString_pInf : IntText.ofString "+Inf" = [0x2B, 0x49, 0x6E, 0x66] := by
  with_unfolding_all rfl
theorem ofString_mInf : IntText.ofString "-Inf" = [0x2D, 0x49, 0x6E, 0x66] := by
  with_unfolding_all rfl
theorem ofString_Inf : IntText.ofString "Inf" = [0x49, 0x6E, 0x66] := by with_unfolding_all rfl

theorem isValidNumber_NaN : isValidNumber (IntText.ofString "NaN") = false := by
  with_unfolding_all decide
theorem isValidNumber_pInf : isValidNumber (IntText.ofString "+Inf") = false := by
  with_unfolding_all decide
theorem isValidNumber_mInf : isValidNumber (IntText.ofString "-Inf") = false := by
  with_unfolding_all decide
theorem isValidNumber_Inf : isValidNumber (IntText.ofString "Inf") = false := by
  with_unfolding_all decide

example : isValidNumber [0x4E, 0x61, 0x4E] = false := by decide
example : isValidNumber [0x2B, 0x49, 0x6E, 0x66] = false := by decide
example : isValidNumber [0x2D, 0x49, 0x6E, 0x66] = false := by decide
example : isValidNumber [0x49, 0x6E, 0x66] = false := by decide

/-! Non-vacuity of the positive statements. -/
example : isValidNumber (formatInt (-128)) = true := isValidNumber_formatInt _
example : isValidNumber [0x2D, 0x31, 0x32, 0x38] = true := by decide
example : isValidNumber [0x30] = true := by decide
example : isValidNumber [0x30, 0x31] = false := by decide
example : isValidNumber [0x2D] = false := by decide
example : CastSpec.plainDecimal [0x2D, 0x31, 0x32, 0x38] = true := by decide
example : CastSpec.plainDecimal [0x31, 0x65, 0x32] = false := by decide
example : isValidNumber [0x31, 0x65, 0x32] = true := by decide

/-! ### `isValidNumber` and the reader's `scanNumber` accept the same texts -/

theorem digits_cons (c : UInt8) (r : Bytes) :
    Json.digits (c :: r) =
      if Json.isDigit c then (c :: (Json.digits r).1, (Json.digits r).2) else ([], c :: r) := by
  simp only [Json.digits]

theorem dropDigits_eq (s : Bytes) : dropDigits s = (Json.digits s).2 := by
  induction s with
  | nil => rfl
  | cons c r ih =>
    rw [digits_cons, dropDigits, ih]
    change (if Json.isDigit c = true then _ else _) = _
    split <;> rfl

theorem digits_append_eq (s : Bytes) : (Json.digits s).1 ++ (Json.digits s).2 = s := by
  induction s with
  | nil => rfl
  | cons c r ih =>
    rw [digits_cons]
    split
    · simp [ih]
    · rfl

theorem scanInt_snd (s : Bytes) : (Json.scanInt s).map (·.2) = afterInt s := by
  cases s with
  | nil => rfl
  | cons c r =>
    simp only [Json.scanInt, afterInt, dropDigits_eq]
    split
    · rfl
    · split <;> rfl

theorem scanInt_lit {s l r : Bytes} (h : Json.scanInt s = some (l, r)) : l ++ r = s := by
  cases s with
  | nil => cases h
  | cons c t =>
    simp only [Json.scanInt] at h
    split at h
    · injection h with h; injection h with h1 h2; subst h1 h2; rfl
    · split at h
      · injection h with h; injection h with h1 h2; subst h1 h2
        simp [digits_append_eq]
      · cases h

theorem isDigit_eq (c : UInt8) : JsonWrite.isDigit c = Json.isDigit c := rfl

def stripSign (r : Bytes) : Bytes :=
  match r with
  | sg :: r' => if sg == 0x2B || sg == 0x2D then r' else r
  | [] => r

def needDigit (r : Bytes) : Option Bytes :=
  match r with
  | d :: r' => if JsonWrite.isDigit d then some (dropDigits r') else none
  | [] => none

theorem afterExp_cons (e : UInt8) (r : Bytes) :
    afterExp (e :: r) =
      if e == 0x65 || e == 0x45 then needDigit (stripSign r) else some (e :: r) := rfl

theorem afterFrac_dot (r : Bytes) : afterFrac (0x2E :: r) = needDigit r := by
  cases r <;> rfl

theorem afterFrac_of_ne {c : UInt8} (r : Bytes) (h : c ≠ 0x2E) :
    afterFrac (c :: r) = some (c :: r) := by
  unfold afterFrac
  split
  · rename_i h'; injection h' with h1 _; exact absurd h1 h
  · rename_i h'; injection h' with h1 _; exact absurd h1 h
  · rfl

theorem digits_needDigit (r : Bytes) :
    (if (Json.digits r).1.isEmpty then none else some (Json.digits r).2 : Option Bytes)
      = needDigit r := by
  cases r with
  | nil => rfl
  | cons d r' =>
    by_cases h : Json.isDigit d = true
    · simp [digits_cons, needDigit, isDigit_eq, h, dropDigits_eq]
    · simp [digits_cons, needDigit, isDigit_eq, h]

theorem scanExp_snd (r : Bytes) : (Json.scanExp r).map (·.2) = needDigit (stripSign r) := by
  rw [← digits_needDigit]
  unfold Json.scanExp stripSign
  cases r with
  | nil => rfl
  | cons c t =>
    simp only []
    split <;> (simp only []; split <;> rfl)


theorem scanExp_lit {s l r : Bytes} (h : Json.scanExp s = some (l, r)) : l ++ r = s := by
  unfold Json.scanExp at h
  cases s with
  | nil => simp [Json.digits] at h
  | cons c t =>
    simp only [] at h
    split at h
    · simp only [] at h
      split at h
      · cases h
      · injection h with h; injection h with h1 h2; subst h1 h2
        simp [digits_append_eq]
    · simp only [] at h
      split at h
      · cases h
      · injection h with h; injection h with h1 h2; subst h1 h2
        simp [digits_append_eq]

theorem scanFracExp_snd (s : Bytes) :
    (Json.scanFracExp s).map (·.2) = (afterFrac s).bind afterExp := by
  cases s with
  | nil => rfl
  | cons c r =>
    by_cases hc : c = 0x2E
    · subst hc
      rw [afterFrac_dot, ← digits_needDigit]
      simp only [Json.scanFracExp, beq_self_eq_true, if_true]
      split
      · rfl
      · simp only [Option.bind_some]
        cases h : (Json.digits r).2 with
        | nil => rfl
        | cons e r'' =>
          simp only [afterExp_cons, ← scanExp_snd]
          split
          · simp [Option.map_map, Function.comp_def]
          · rfl
    · rw [afterFrac_of_ne r hc, Option.bind_some, afterExp_cons, ← scanExp_snd]
      simp only [Json.scanFracExp, beq_iff_eq, hc, if_false]
      split
      · simp [Option.map_map, Function.comp_def]
      · rfl


theorem scanFracExp_lit {s l r : Bytes} (h : Json.scanFracExp s = some (l, r)) : l ++ r = s := by
  cases s with
  | nil =>
    simp only [Json.scanFracExp] at h
    injection h with h; injection h with h1 h2; subst h1 h2; rfl
  | cons c t =>
    simp only [Json.scanFracExp] at h
    split at h
    · have hd := digits_append_eq t
      cases hdt : Json.digits t with
      | mk ds r' =>
      rw [hdt] at h hd
      simp only [] at h hd
      split at h
      · cases h
      · split at h
        · rename_i e r''
          split at h
          · cases hx : Json.scanExp r'' with
            | none => rw [hx] at h; cases h
            | some p =>
              obtain ⟨x, rest⟩ := p
              rw [hx] at h
              simp only [Option.map_some] at h
              injection h with h; injection h with h1 h2; subst h1 h2
              have := scanExp_lit hx
              rw [← hd, ← this]; simp
          · injection h with h; injection h with h1 h2; subst h1 h2
            rw [← hd]; simp
        · injection h with h; injection h with h1 h2; subst h1 h2
          rw [← hd]; simp
    · split at h
      · cases hx : Json.scanExp t with
        | none => rw [hx] at h; cases h
        | some p =>
          obtain ⟨x, rest⟩ := p
          rw [hx] at h
          simp only [Option.map_some] at h
          injection h with h; injection h with h1 h2; subst h1 h2
          have := scanExp_lit hx
          rw [← this]; simp
      · injection h with h; injection h with h1 h2; subst h1 h2; rfl

/-- `scanNumber` as "optional minus, then `scanInt`, then `scanFracExp`". -/
theorem scanNumber_eq (s : Bytes) :
    Json.scanNumber s =
      (Json.scanInt (stripMinus s)).bind fun p =>
        (Json.scanFracExp p.2).map fun q =>
          ((if stripMinus s = s then [] else [0x2D]) ++ p.1 ++ q.1, q.2) := by
  cases s with
  | nil => rfl
  | cons c t =>
    by_cases hc : c = 0x2D
    · subst hc
      have hne : ¬ (t = 0x2D :: t) := fun h => by
        have := congrArg List.length h; simp at this
      simp only [Json.scanNumber, beq_self_eq_true, if_true, stripMinus_minus, hne, if_false]
      cases Json.scanInt t with
      | none => rfl
      | some p =>
        obtain ⟨ip, r1⟩ := p
        simp only [Option.bind_some]
        cases Json.scanFracExp r1 with
        | none => rfl
        | some q => rfl
    · simp only [Json.scanNumber, beq_iff_eq, hc, if_false, stripMinus_of_ne t hc, if_true]
      cases Json.scanInt (c :: t) with
      | none => rfl
      | some p =>
        obtain ⟨ip, r1⟩ := p
        simp only [Option.bind_some]
        cases Json.scanFracExp r1 with
        | none => rfl
        | some q => rfl

theorem stripMinus_cases (s : Bytes) : s = 0x2D :: stripMinus s ∨ stripMinus s = s := by
  unfold stripMinus
  split
  · exact .inl rfl
  · exact .inr rfl

theorem scanNumber_snd (s : Bytes) :
    (Json.scanNumber s).map (·.2) = ((afterInt (stripMinus s)).bind afterFrac).bind afterExp := by
  rw [scanNumber_eq, ← scanInt_snd]
  cases Json.scanInt (stripMinus s) with
  | none => rfl
  | some p =>
    simp only [Option.bind_some, Option.map_some, Option.map_map, Function.comp_def]
    rw [← scanFracExp_snd]

theorem scanNumber_lit {s l r : Bytes} (h : Json.scanNumber s = some (l, r)) : l ++ r = s := by
  rw [scanNumber_eq] at h
  cases h1 : Json.scanInt (stripMinus s) with
  | none => rw [h1] at h; cases h
  | some p =>
    obtain ⟨ip, r1⟩ := p
    rw [h1] at h
    simp only [Option.bind_some] at h
    cases h2 : Json.scanFracExp r1 with
    | none => rw [h2] at h; cases h
    | some q =>
      obtain ⟨fe, r2⟩ := q
      rw [h2] at h
      simp only [Option.map_some] at h
      injection h with h; injection h with ha hb; subst ha hb
      have e1 := scanInt_lit h1
      have e2 := scanFracExp_lit h2
      rcases stripMinus_cases s with hs | hs
      · have hne : ¬ (stripMinus s = s) := fun h' => by
          have := congrArg List.length hs; rw [h'] at this; simp at this
        rw [if_neg hne]
        rw [hs]
        simp only [List.append_assoc, e2, e1, List.cons_append, List.nil_append]
      · rw [if_pos hs, ← hs, ← e1, ← e2]; simp


theorem isNil_eq_true {o : Option Bytes} : isNil o = true ↔ o = some [] := by
  cases o with
  | none => simp [isNil]
  | some l => cases l <;> simp [isNil]

/-- encoding/json's writer-side validator and the reader's scanner agree: a text is a valid
    `json.Number` exactly when the scanner consumes all of it as one number literal. -/
theorem isValidNumber_iff_scanNumber (s : Bytes) :
    isValidNumber s = true ↔ Json.scanNumber s = some (s, []) := by
  rw [isValidNumber_eq, isNil_eq_true, ← scanNumber_snd]
  constructor
  · intro h
    cases hs : Json.scanNumber s with
    | none => rw [hs] at h; cases h
    | some p =>
      obtain ⟨l, r⟩ := p
      rw [hs] at h
      simp only [Option.map_some] at h
      injection h with h
      subst h
      have := scanNumber_lit hs
      rw [List.append_nil] at this
      rw [this]
  · intro h; rw [h]; rfl

/-- Item (1) again, now as a corollary of item 7 of `Proofs.IntText`. -/
example (v : Int) : isValidNumber (formatInt v) = true :=
  (isValidNumber_iff_scanNumber _).2 (scanNumber_formatInt_nil v)

end Jl.IntText
