/-
  Proofs.SelfReadable — C05 at cell level for the pairings of `Tables.selfReadable` that are
  NOT lossless (`nonlossless_selfReadable_cases`): boolean(T), hidden(T),
  date(none / string / []byte / json.Number), datetime(string / []byte),
  timestamp(json.Number / float64 / float32), numeric(string / []byte).

  A fixed-point statement for the descriptor (f, ty) and a well-typed raw value has the form
      exportVal env (.cell raw f ty) = .ok e →
      ∃ c, importCell env f ty e' = .ok (c, none) ∧ exportVal env c = .ok e        (`FixedPoint`)
  where `e'` is what the JSON reader delivers for the emitted `e` (a string after
  `JsonQuote.sanitize`, the identity on the ASCII texts written here; a bool as itself; an
  int64 `n` as `.num (IntText.formatInt n)`; a json.Number by its literal), env = ⟨genTables, ext⟩.

  Per group: the pairing theorem(s), the C05 corollary, a non-vacuity example.
    1–2  `boolean_int`, `boolean_bool`, `boolean_str`, `boolean_bytes`, `boolean_num` (needs
         `Pairings.DigitLaw`), `boolean_float`, `boolean_time` (needs the zone at seconds 0 / 1),
         `boolean_other_not_emitted`; the whole row: `boolean_fixed_point`.
    3    `hidden_export`, `hidden_not_emitted`, `hidden_line`, `hidden_line_indep`,
         `hidden_not_visible`, `hidden_stays_hidden`, `hidden_none_fixed_point`.
    4    `toDate_ok` (ToDate returns nil or a text the date layout ACCEPTS), `date_reread`,
         `date_fixed_point` (every raw value, well-typed or not, no hypothesis on `ext`).
    5    `parse_format25`, `parse_format_trunc` (parse ∘ format beyond `Time.C14_parse_format`:
         offsets up to 25 h, and offsets with seconds), `datetime_reread`, `datetime_fixed_point`;
         FINDING `datetime_str_offset_25h_counterexample`: the raw string
         `2000-01-01T00:00:00+24:60` is accepted, written `…+25:00`, re-read, and the second write
         fails; `datetime_zone_seconds_counterexample`: the zone hypothesis is needed.
    6    `timestamp_num` (no hypothesis), `timestamp_f64`, `timestamp_f32` (ParseFloat's answer
         as a hypothesis), `timestamp_f64_exact`, `timestamp_f32_exact` (|n| ≤ 2^53 / 2^24 and
         ParseFloat = Go's `float64(n)` / `float32(n)`, via `toFVal_ofInt_f64_le`, `…f32_le`).
    7    `numeric_text`, `numeric_text_fixed_point`, `numeric_str_empty`.

  Proofs/TimeShape.lean cannot be imported together with Proofs/Pairings.lean (both generate
  the equation lemma `Jl.Gen.casters.eq_1`: "environment already contains …"), so the facts
  about the verbatim date / time bodies that are needed here are proved again below.
-/
import Model.Tables
import Model.Value
import Model.CastGen
import Model.RowPrint
import Model.LineSpec
import Proofs.Pairings
import Proofs.CastTyped

namespace Jl.SelfReadable
open Jl Jl.Value Cast Jl.Pairings Jl.CastTyped

set_option linter.unusedSimpArgs false

/-- The emitted value `e`, delivered by the JSON reader as `e'`, is accepted under the same
    descriptor and re-emitted as `e`. -/
def FixedPoint (env : Env) (f : Format) (ty : Ty) (e e' : Dyn) : Prop :=
  ∃ c, importCell env f ty e' = .ok (c, none) ∧ exportVal env c = .ok e

/-! ### Plumbing -/

theorem exportFail_inv {o : Outcome Dyn} {r : Dyn} (h : exportFail o = .ok r) : o = .ok r := by
  cases o with
  | ok a => exact h
  | err e => cases e <;> cases h
  | panic p => cases h

theorem failWith_ne_ok (T : CastTables) (s : String) (r : Dyn) : failWith T s ≠ .ok r := by
  unfold failWith
  split <;> simp

/-- `x, err := f(..); if err != nil { fail }; return k(x)` delivers a value only through `k`. -/
theorem chain_ok {T : CastTables} {sent : String} {o : Outcome Dyn} {k : Dyn → Outcome Dyn} {r : Dyn}
    (h : (match (generalizing := false) o with
      | .ok i => k i
      | .err .ext => .err .ext
      | .err _ => failWith T sent
      | .panic s => .panic s) = .ok r) : ∃ i, o = .ok i ∧ k i = .ok r := by
  cases o with
  | ok i => exact ⟨i, rfl, h⟩
  | err e => cases e <;> first | cases h | exact absurd h (failWith_ne_ok _ _ _)
  | panic s => cases h

/-- A null is a fixed point of every descriptor: written as null, read as null. -/
theorem nil_fixed_point (env : Env) (f : Format) (ty : Ty) :
    exportVal env (.cell .nil f ty) = .ok .nil ∧ FixedPoint env f ty .nil .nil :=
  ⟨by simp only [exportVal], .cell .nil f ty, by simp only [importCell], by simp only [exportVal]⟩

/-- What a non-null cell of a boolean column exports is what `ToBool` returns. -/
theorem export_boolean_inv {env : Env} {raw : Dyn} {ty : Ty} {e : Dyn} (hraw : raw ≠ .nil)
    (h : exportVal env (.cell raw .boolean ty) = .ok e) :
    castNamed env.T env.ext "ToBool" raw = .ok e := by
  cases raw with
  | nil => exact absurd rfl hraw
  | _ => simp only [exportVal] at h; exact exportFail_inv h

/-! ### 1. boolean(T) for the ten integer types, and boolean(bool) -/

theorem toBool_int (ext : Ext) (t : IntTy) (v : Int) :
    castNamed genTables ext "ToBool" (.int t v) = .ok (.bool (v != 0)) := by
  cases t <;>
  simp [castNamed, callNamed, genTables, Gen.casters, findClause, typeOf, evalBranch, evalE]

theorem castTo_int_bool (ext : Ext) (t : IntTy) (b : Bool) :
    castTo genTables ext (.int t) (.bool b) = .ok (.int t (if b then 1 else 0)) := by
  rw [castTo_int]
  unfold callNamed
  simp only [caster_present t, typeOf]
  have hb := bool_branches_ok t
  generalize findClause (casterOf genTables (casterOfInt t)) .bool = br at hb ⊢
  unfold boolBranchSpec at hb
  split at hb
  · obtain ⟨rfl, rfl⟩ := hb
    cases b <;> simp [evalBranch, evalE]
  · exact absurd hb id

/-- boolean(INT), all ten integer types, EVERY value (in range or not): written as the bool
    `v ≠ 0`, read back as the integer 1 / 0 of the same type, written again as the same bool.
    The value is not preserved (the pairing is not lossless), the emitted text is. -/
theorem boolean_int (ext : Ext) (t : IntTy) (v : Int) :
    exportVal ⟨genTables, ext⟩ (.cell (.int t v) .boolean (.int t)) = .ok (.bool (v != 0)) ∧
    importCell ⟨genTables, ext⟩ .boolean (.int t) (.bool (v != 0)) =
      .ok (.cell (.int t (if (v != 0) = true then 1 else 0)) .boolean (.int t), none) ∧
    exportVal ⟨genTables, ext⟩ (.cell (.int t (if (v != 0) = true then 1 else 0)) .boolean (.int t)) =
      .ok (.bool (v != 0)) := by
  refine ⟨?_, ?_, ?_⟩
  · simp only [exportVal, exportFail_ok _ _ (toBool_int ext t v)]
  · simp only [importCell, importByFormat, importFrom, importFail_ok _ _ (castTo_int_bool ext t _)]
  · simp only [exportVal, exportFail_ok _ _ (toBool_int ext t _)]
    cases h : (v != 0) <;> simp

/-- boolean(bool) (a lossless pairing, restated here for completeness of the boolean row). -/
theorem boolean_bool (ext : Ext) (b : Bool) :
    exportVal ⟨genTables, ext⟩ (.cell (.bool b) .boolean .bool) = .ok (.bool b) ∧
    importCell ⟨genTables, ext⟩ .boolean .bool (.bool b) = .ok (.cell (.bool b) .boolean .bool, none) := by
  constructor
  · simp only [exportVal, exportFail_ok _ _ (toBool_bool ext b)]
  · simp only [importCell, importByFormat, importFrom, importFail_ok _ _ (castTo_bool_bool ext b)]

/-- C05 for boolean(INT) and boolean(bool). -/
theorem boolean_int_fixed_point (ext : Ext) (t : IntTy) (v : Int) :
    ∃ e, exportVal ⟨genTables, ext⟩ (.cell (.int t v) .boolean (.int t)) = .ok e ∧ e = .bool (v != 0) ∧
      FixedPoint ⟨genTables, ext⟩ .boolean (.int t) e e := by
  obtain ⟨a1, a2, a3⟩ := boolean_int ext t v
  exact ⟨_, a1, rfl, _, a2, a3⟩

theorem boolean_bool_fixed_point (ext : Ext) (b : Bool) :
    ∃ e, exportVal ⟨genTables, ext⟩ (.cell (.bool b) .boolean .bool) = .ok e ∧ e = .bool b ∧
      FixedPoint ⟨genTables, ext⟩ .boolean .bool e e := by
  obtain ⟨a1, a2⟩ := boolean_bool ext b
  exact ⟨_, a1, rfl, _, a2, a1⟩

/-! Non-vacuity: int8 −128 under boolean(int8) is written `true`, read back as int8 1, written
    `true` again; uint64 2^64 − 1 likewise; 0 is written `false`. -/
example : exportVal ⟨genTables, Ext.empty⟩ (.cell (.int .i8 (-128)) .boolean (.int .i8)) = .ok (.bool true) ∧
    importCell ⟨genTables, Ext.empty⟩ .boolean (.int .i8) (.bool true) =
      .ok (.cell (.int .i8 1) .boolean (.int .i8), none) ∧
    exportVal ⟨genTables, Ext.empty⟩ (.cell (.int .i8 1) .boolean (.int .i8)) = .ok (.bool true) :=
  boolean_int Ext.empty .i8 (-128)
example : exportVal ⟨genTables, Ext.empty⟩ (.cell (.int .u64 0) .boolean (.int .u64)) = .ok (.bool false) ∧
    importCell ⟨genTables, Ext.empty⟩ .boolean (.int .u64) (.bool false) =
      .ok (.cell (.int .u64 0) .boolean (.int .u64), none) :=
  ⟨(boolean_int Ext.empty .u64 0).1, (boolean_int Ext.empty .u64 0).2.1⟩

/-! ### 2. boolean(string), boolean([]byte), boolean(json.Number), boolean(float), boolean(time) -/

/-- Whatever `ToBool` returns normally for a non-nil value is a bool. -/
theorem toBool_result (ext : Ext) (v r : Dyn) (hv : v ≠ .nil)
    (h : castNamed genTables ext "ToBool" v = .ok r) : ∃ b, r = .bool b := by
  have ht := (gen_cast_typed ext "ToBool" (by decide) v r h).2 hv
  have : typeOf r = .bool := by
    have e : resultTyOfCaster? "ToBool" = some .bool := by decide
    rw [e] at ht
    exact Option.some.inj ht
  cases r <;> simp [typeOf] at this
  exact ⟨_, rfl⟩

/-- A boolean column emits a bool for every non-null raw value it accepts. -/
theorem boolean_emits_bool (ext : Ext) (raw : Dyn) (ty : Ty) (e : Dyn) (hraw : raw ≠ .nil)
    (h : exportVal ⟨genTables, ext⟩ (.cell raw .boolean ty) = .ok e) : ∃ b, e = .bool b :=
  toBool_result ext raw e hraw (export_boolean_inv hraw h)

theorem castTo_str_bool (ext : Ext) (b : Bool) :
    castTo genTables ext .str (.bool b) = .ok (.str (IntText.formatBool b)) := by
  simp [castTo, callNamed, genTables, Gen.casters, Gen.dispatchTo, findClause, typeOf, evalBranch, evalE]

theorem parseBool_formatBool (b : Bool) : IntText.parseBool (IntText.formatBool b) = some b := by
  cases b <;> decide

/-- ToBool of a string that strconv.ParseBool accepts (no stdlib answer needed). -/
theorem toBool_str_parseBool (ext : Ext) (s : Bytes) (b : Bool) (h : IntText.parseBool s = some b) :
    castNamed genTables ext "ToBool" (.str s) = .ok (.bool b) := by
  simp [castNamed, callNamed, genTables, Gen.casters, findClause, typeOf, evalBranch, special, h]

/-- ToBool of a string that ParseBool rejects: ParseFloat's answer, `≠ 0`. -/
theorem toBool_str_parseFloat (ext : Ext) (s : Bytes) (y : Nat) (h : IntText.parseBool s = none)
    (hp : ext.parseFloat s 64 = some (some y)) :
    castNamed genTables ext "ToBool" (.str s) = .ok (.bool (!Float.isZero Float.f64 y)) := by
  simp [castNamed, callNamed, genTables, Gen.casters, findClause, typeOf, evalBranch, special, h,
    runParse, hp, evalE]

/-- boolean(string): for EVERY raw string the column accepts (the texts of ParseBool, or — given
    strconv's answer — a float text), the emitted bool is read back as the string
    "true" / "false", which is written as the same bool.  No hypothesis on `ext`. -/
theorem boolean_str (ext : Ext) (s : Bytes) (e : Dyn)
    (h : exportVal ⟨genTables, ext⟩ (.cell (.str s) .boolean .str) = .ok e) :
    ∃ b, e = .bool b ∧
      importCell ⟨genTables, ext⟩ .boolean .str (.bool b) =
        .ok (.cell (.str (IntText.formatBool b)) .boolean .str, none) ∧
      exportVal ⟨genTables, ext⟩ (.cell (.str (IntText.formatBool b)) .boolean .str) = .ok (.bool b) := by
  obtain ⟨b, rfl⟩ := boolean_emits_bool ext _ _ _ (by simp) h
  refine ⟨b, rfl, ?_, ?_⟩
  · simp only [importCell, importByFormat, importFrom, importFail_ok _ _ (castTo_str_bool ext b)]
  · simp only [exportVal, exportFail_ok _ _ (toBool_str_parseBool ext _ b (parseBool_formatBool b))]


/-- ToBool of a byte string: one byte, `≠ 0`; any other length is rejected. -/
theorem toBool_bytes (ext : Ext) (s : Bytes) :
    castNamed genTables ext "ToBool" (.bytes s) =
      match s with
      | [c] => .ok (.bool (c != 0))
      | _ => .err .cast := by
  match s with
  | [] | [c] | _ :: _ :: _ =>
    simp [castNamed, callNamed, genTables, Gen.casters, Gen.binFns, findClause, typeOf, evalBranch,
      evalE, binGet, failWith, Gen.sentinels, wrapsRoot]

theorem castTo_bytes_bool (ext : Ext) (b : Bool) :
    castTo genTables ext .bytes (.bool b) = .ok (.bytes [if b then 1 else 0]) := by
  cases b <;>
  simp [castTo, callNamed, genTables, Gen.casters, Gen.binFns, Gen.dispatchTo, findClause, typeOf,
    evalBranch, evalE, binPut]

/-- boolean([]byte): the raw value is accepted exactly when it is one byte `c`; the emitted
    bool `c ≠ 0` is read back as the one byte 01 / 00, which is written as the same bool. -/
theorem boolean_bytes (ext : Ext) (s : Bytes) (e : Dyn)
    (h : exportVal ⟨genTables, ext⟩ (.cell (.bytes s) .boolean .bytes) = .ok e) :
    ∃ c, s = [c] ∧ e = .bool (c != 0) ∧
      importCell ⟨genTables, ext⟩ .boolean .bytes (.bool (c != 0)) =
        .ok (.cell (.bytes [if (c != 0) = true then 1 else 0]) .boolean .bytes, none) ∧
      exportVal ⟨genTables, ext⟩ (.cell (.bytes [if (c != 0) = true then 1 else 0]) .boolean .bytes) =
        .ok (.bool (c != 0)) := by
  have h1 := export_boolean_inv (by simp) h
  simp only at h1
  rw [toBool_bytes] at h1
  match s, h1 with
  | [c], h1 =>
    cases h1
    refine ⟨c, rfl, rfl, ?_, ?_⟩
    · simp only [importCell, importByFormat, importFrom, importFail_ok _ _ (castTo_bytes_bool ext _)]
    · simp only [exportVal, toBool_bytes, exportFail]
      cases hc : (c != 0) <;> simp

theorem castTo_num_bool (ext : Ext) (b : Bool) :
    castTo genTables ext .num (.bool b) = .ok (.num (if b then [0x31] else [0x30])) := by
  cases b <;>
  simp [castTo, callNamed, genTables, Gen.casters, Gen.dispatchTo, findClause, typeOf, evalBranch, evalE]

/-- ToBool of the json.Number `1` / `0`, given what strconv.ParseFloat answers for these two
    texts (`Pairings.DigitLaw`). -/
theorem toBool_num_digit (ext : Ext) (law : DigitLaw ext) (b : Bool) :
    castNamed genTables ext "ToBool" (.num (if b then [0x31] else [0x30])) = .ok (.bool b) := by
  obtain ⟨b1, hp1, hz1⟩ := law.one
  obtain ⟨b0, hp0, hz0⟩ := law.zero
  cases b <;>
  simp [castNamed, callNamed, genTables, Gen.casters, findClause, typeOf, evalBranch, evalE,
    special, runParse, hp1, hz1, hp0, hz0]

/-- ToBool of a json.Number: ParseFloat's answer for the literal, `≠ 0`. -/
theorem toBool_num (ext : Ext) (l : Bytes) (y : Nat) (hp : ext.parseFloat l 64 = some (some y)) :
    castNamed genTables ext "ToBool" (.num l) = .ok (.bool (!Float.isZero Float.f64 y)) := by
  simp [castNamed, callNamed, genTables, Gen.casters, findClause, typeOf, evalBranch, evalE,
    special, runParse, hp]

/-- boolean(json.Number): for every literal the column accepts, the emitted bool is read back
    as the literal `1` / `0`, which (given ParseFloat's answers for "1" and "0") is written as
    the same bool. -/
theorem boolean_num (ext : Ext) (law : DigitLaw ext) (l : Bytes) (e : Dyn)
    (h : exportVal ⟨genTables, ext⟩ (.cell (.num l) .boolean .num) = .ok e) :
    ∃ b, e = .bool b ∧
      importCell ⟨genTables, ext⟩ .boolean .num (.bool b) =
        .ok (.cell (.num (if b then [0x31] else [0x30])) .boolean .num, none) ∧
      exportVal ⟨genTables, ext⟩ (.cell (.num (if b then [0x31] else [0x30])) .boolean .num) =
        .ok (.bool b) := by
  obtain ⟨b, rfl⟩ := boolean_emits_bool ext _ _ _ (by simp) h
  refine ⟨b, rfl, ?_, ?_⟩
  · simp only [importCell, importByFormat, importFrom, importFail_ok _ _ (castTo_num_bool ext b)]
  · have := toBool_num_digit ext law b
    cases b <;> simp only [exportVal] <;> exact exportFail_ok _ _ this

theorem toBool_f64 (ext : Ext) (x : Nat) :
    castNamed genTables ext "ToBool" (.f64 x) = .ok (.bool (!Float.isZero Float.f64 x)) := by
  simp [castNamed, callNamed, genTables, Gen.casters, findClause, typeOf, evalBranch, evalE]

theorem toBool_f32 (ext : Ext) (x : Nat) :
    castNamed genTables ext "ToBool" (.f32 x) = .ok (.bool (!Float.isZero Float.f32 x)) := by
  simp [castNamed, callNamed, genTables, Gen.casters, findClause, typeOf, evalBranch, evalE]

theorem castTo_f64_bool (ext : Ext) (b : Bool) :
    castTo genTables ext .f64 (.bool b) = .ok (.f64 (Float.ofInt Float.f64 (if b then 1 else 0))) := by
  cases b <;>
  simp [castTo, callNamed, genTables, Gen.casters, Gen.dispatchTo, findClause, typeOf, evalBranch, evalE]

theorem castTo_f32_bool (ext : Ext) (b : Bool) :
    castTo genTables ext .f32 (.bool b) = .ok (.f32 (Float.ofInt Float.f32 (if b then 1 else 0))) := by
  cases b <;>
  simp [castTo, callNamed, genTables, Gen.casters, Gen.dispatchTo, findClause, typeOf, evalBranch, evalE]

theorem isZero_ofInt_bool (b : Bool) :
    Float.isZero Float.f64 (Float.ofInt Float.f64 (if b then 1 else 0)) = !b ∧
    Float.isZero Float.f32 (Float.ofInt Float.f32 (if b then 1 else 0)) = !b := by
  cases b <;> decide

/-- boolean(float64) and boolean(float32), EVERY bit pattern (NaN, ±Inf, −0, subnormals): written
    as the bool `x ≠ 0` (false for ±0 only), read back as the float 1.0 / 0.0, written as the
    same bool.  No hypothesis on `ext`: no float text is involved. -/
theorem boolean_float (ext : Ext) (x : Nat) :
    (exportVal ⟨genTables, ext⟩ (.cell (.f64 x) .boolean .f64) = .ok (.bool (!Float.isZero Float.f64 x)) ∧
     ∀ b : Bool,
      importCell ⟨genTables, ext⟩ .boolean .f64 (.bool b) =
        .ok (.cell (.f64 (Float.ofInt Float.f64 (if b then 1 else 0))) .boolean .f64, none) ∧
      exportVal ⟨genTables, ext⟩ (.cell (.f64 (Float.ofInt Float.f64 (if b then 1 else 0))) .boolean .f64) =
        .ok (.bool b)) ∧
    (exportVal ⟨genTables, ext⟩ (.cell (.f32 x) .boolean .f32) = .ok (.bool (!Float.isZero Float.f32 x)) ∧
     ∀ b : Bool,
      importCell ⟨genTables, ext⟩ .boolean .f32 (.bool b) =
        .ok (.cell (.f32 (Float.ofInt Float.f32 (if b then 1 else 0))) .boolean .f32, none) ∧
      exportVal ⟨genTables, ext⟩ (.cell (.f32 (Float.ofInt Float.f32 (if b then 1 else 0))) .boolean .f32) =
        .ok (.bool b)) := by
  refine ⟨⟨?_, fun b => ⟨?_, ?_⟩⟩, ⟨?_, fun b => ⟨?_, ?_⟩⟩⟩
  · simp only [exportVal, exportFail_ok _ _ (toBool_f64 ext x)]
  · simp only [importCell, importByFormat, importFrom, importFail_ok _ _ (castTo_f64_bool ext b)]
  · simp only [exportVal, exportFail_ok _ _ (toBool_f64 ext _), (isZero_ofInt_bool b).1, Bool.not_not]
  · simp only [exportVal, exportFail_ok _ _ (toBool_f32 ext x)]
  · simp only [importCell, importByFormat, importFrom, importFail_ok _ _ (castTo_f32_bool ext b)]
  · simp only [exportVal, exportFail_ok _ _ (toBool_f32 ext _), (isZero_ofInt_bool b).2, Bool.not_not]

theorem toBool_time (ext : Ext) (t : GoTime) :
    castNamed genTables ext "ToBool" (.time t) = .ok (.bool (t.sec != 0)) := by
  simp [castNamed, callNamed, genTables, Gen.casters, findClause, typeOf, evalBranch, evalE]

/-- cast.To(time.Time, bool): ToTime's default clause goes through ToInt64 (1 / 0) and
    time.Unix, rendered in the process zone. -/
theorem castTo_time_bool (ext : Ext) (b : Bool) (off : Int)
    (hz : ext.zoneOffset (if b then 1 else 0) = some off) :
    castTo genTables ext .time (.bool b) = .ok (.time ⟨if b then 1 else 0, 0, off⟩) := by
  cases b <;> simp at hz <;>
  simp [castTo, callNamed, genTables, Gen.casters, Gen.dispatchTo, findClause, typeOf, evalBranch, evalE,
    special, hz]

/-- boolean(time.Time): written as the bool `Unix second ≠ 0`, read back as the instant
    1970-01-01T00:00:01Z / the epoch (at the offset of the process zone, which must answer
    there), written as the same bool. -/
theorem boolean_time (ext : Ext) (t : GoTime) (off : Int)
    (hz : ext.zoneOffset (if (t.sec != 0) = true then 1 else 0) = some off) :
    exportVal ⟨genTables, ext⟩ (.cell (.time t) .boolean .time) = .ok (.bool (t.sec != 0)) ∧
    importCell ⟨genTables, ext⟩ .boolean .time (.bool (t.sec != 0)) =
      .ok (.cell (.time ⟨if (t.sec != 0) = true then 1 else 0, 0, off⟩) .boolean .time, none) ∧
    exportVal ⟨genTables, ext⟩ (.cell (.time ⟨if (t.sec != 0) = true then 1 else 0, 0, off⟩) .boolean .time) =
      .ok (.bool (t.sec != 0)) := by
  refine ⟨?_, ?_, ?_⟩
  · simp only [exportVal, exportFail_ok _ _ (toBool_time ext t)]
  · simp only [importCell, importByFormat, importFrom, importFail_ok _ _ (castTo_time_bool ext _ off hz)]
  · simp only [exportVal, exportFail_ok _ _ (toBool_time ext _)]
    cases h : (t.sec != 0) <;> simp

/-- boolean(a type jsonline has no case for): nothing is ever emitted — ToBool rejects the
    value — so the fixed-point statement is vacuous there. -/
theorem boolean_other_not_emitted (ext : Ext) (raw : Dyn) (ty : Ty) (h : typeOf raw = .other) :
    exportVal ⟨genTables, ext⟩ (.cell raw .boolean ty) = .err .unsupportedExport := by
  have : castNamed genTables ext "ToBool" raw = .err .cast := by
    cases raw <;> simp [typeOf] at h <;>
    simp [castNamed, callNamed, genTables, Gen.casters, findClause, typeOf, evalBranch, failWith,
      Gen.sentinels, wrapsRoot]
  cases raw <;> simp [typeOf] at h <;> simp only [exportVal, this, exportFail]


/-- The raw value is well-typed for the descriptor: null, or of the declared raw type, or —
    with no declared raw type — of the format's default type. -/
def WellTyped (f : Format) (ty : Ty) (raw : Dyn) : Prop :=
  raw = .nil ∨ (ty ≠ .none ∧ typeOf raw = ty) ∨ (ty = .none ∧ typeOf raw = Tables.defaultTy f)

/-- What the boolean pairings need from the standard library (parameters of the model):
    ParseFloat's answers for "1" and "0" under boolean(json.Number); the process zone's offset
    at the Unix seconds 0 and 1 under boolean(time.Time); nothing otherwise. -/
def BooleanHyp (ext : Ext) : Ty → Prop
  | .num => DigitLaw ext
  | .time => (∃ o, ext.zoneOffset 0 = some o) ∧ (∃ o, ext.zoneOffset 1 = some o)
  | _ => True

/-- **C05 for the whole boolean row**: for every raw type and every well-typed raw value, what
    a boolean column emits (a bool or null) is read back under the same descriptor and
    emitted again unchanged. -/
theorem boolean_fixed_point (ext : Ext) (raw : Dyn) (ty : Ty) (e : Dyn)
    (hwt : WellTyped .boolean ty raw) (hh : BooleanHyp ext ty)
    (h : exportVal ⟨genTables, ext⟩ (.cell raw .boolean ty) = .ok e) :
    (e = .nil ∨ ∃ b, e = .bool b) ∧ FixedPoint ⟨genTables, ext⟩ .boolean ty e e := by
  by_cases hnil : raw = .nil
  · subst hnil
    obtain ⟨a1, a2⟩ := nil_fixed_point ⟨genTables, ext⟩ .boolean ty
    rw [a1] at h; cases h
    exact ⟨.inl rfl, a2⟩
  · have hty : (ty ≠ .none ∧ typeOf raw = ty) ∨ (ty = .none ∧ typeOf raw = .bool) := by
      rcases hwt with h0 | h1 | h2
      · exact absurd h0 hnil
      · exact .inl h1
      · exact .inr h2
    cases raw with
    | nil => exact absurd rfl hnil
    | int t v =>
      rcases hty with ⟨_, rfl⟩ | ⟨_, h2⟩
      · obtain ⟨a1, a2, a3⟩ := boolean_int ext t v
        simp only [typeOf] at h
        rw [a1] at h; cases h
        exact ⟨.inr ⟨_, rfl⟩, _, a2, a3⟩
      · simp [typeOf] at h2
    | f64 x =>
      rcases hty with ⟨_, rfl⟩ | ⟨_, h2⟩
      · obtain ⟨⟨a1, a2⟩, _⟩ := boolean_float ext x
        simp only [typeOf] at h
        rw [a1] at h; cases h
        exact ⟨.inr ⟨_, rfl⟩, _, (a2 _).1, (a2 _).2⟩
      · simp [typeOf] at h2
    | f32 x =>
      rcases hty with ⟨_, rfl⟩ | ⟨_, h2⟩
      · obtain ⟨_, ⟨a1, a2⟩⟩ := boolean_float ext x
        simp only [typeOf] at h
        rw [a1] at h; cases h
        exact ⟨.inr ⟨_, rfl⟩, _, (a2 _).1, (a2 _).2⟩
      · simp [typeOf] at h2
    | bool b =>
      rcases hty with ⟨_, rfl⟩ | ⟨rfl, _⟩
      · obtain ⟨a1, a2⟩ := boolean_bool ext b
        simp only [typeOf] at h
        rw [a1] at h; cases h
        exact ⟨.inr ⟨_, rfl⟩, _, a2, a1⟩
      · obtain ⟨_, ⟨a1, a2⟩⟩ := auto_bool ext b
        rw [a1] at h; cases h
        exact ⟨.inr ⟨_, rfl⟩, _, a2, a1⟩
    | str s =>
      rcases hty with ⟨_, rfl⟩ | ⟨_, h2⟩
      · obtain ⟨b, rfl, a2, a3⟩ := boolean_str ext s e h
        exact ⟨.inr ⟨_, rfl⟩, _, a2, a3⟩
      · simp [typeOf] at h2
    | bytes s =>
      rcases hty with ⟨_, rfl⟩ | ⟨_, h2⟩
      · obtain ⟨c, _, rfl, a2, a3⟩ := boolean_bytes ext s e h
        exact ⟨.inr ⟨_, rfl⟩, _, a2, a3⟩
      · simp [typeOf] at h2
    | num l =>
      rcases hty with ⟨_, rfl⟩ | ⟨_, h2⟩
      · obtain ⟨b, rfl, a2, a3⟩ := boolean_num ext hh l e h
        exact ⟨.inr ⟨_, rfl⟩, _, a2, a3⟩
      · simp [typeOf] at h2
    | time t =>
      rcases hty with ⟨_, rfl⟩ | ⟨_, h2⟩
      · obtain ⟨⟨o0, h0⟩, ⟨o1, h1⟩⟩ := hh
        have hz : ∃ off, ext.zoneOffset (if (t.sec != 0) = true then 1 else 0) = some off := by
          cases (t.sec != 0)
          · exact ⟨o0, by simpa using h0⟩
          · exact ⟨o1, by simpa using h1⟩
        obtain ⟨off, hz⟩ := hz
        obtain ⟨a1, a2, a3⟩ := boolean_time ext t off hz
        simp only [typeOf] at h
        rw [a1] at h; cases h
        exact ⟨.inr ⟨_, rfl⟩, _, a2, a3⟩
      · simp [typeOf] at h2
    | barr _ | arr _ | gomap _ | val _ | other _ =>
      rw [boolean_other_not_emitted ext _ ty rfl] at h
      cases h

/-! Non-vacuity: the string "T" (ParseBool accepts it) is written `true`, read back as the
    string "true", written `true`; the byte 02; the literal `1` with a ParseFloat that knows "1"
    and "0"; the float64 NaN 7FF8000000000001 (written `true`, read back as 1.0). -/
example : exportVal ⟨genTables, Ext.empty⟩ (.cell (.str [0x54]) .boolean .str) = .ok (.bool true) ∧
    importCell ⟨genTables, Ext.empty⟩ .boolean .str (.bool true) =
      .ok (.cell (.str [0x74, 0x72, 0x75, 0x65]) .boolean .str, none) ∧
    exportVal ⟨genTables, Ext.empty⟩ (.cell (.str [0x74, 0x72, 0x75, 0x65]) .boolean .str) = .ok (.bool true) := by
  have h : exportVal ⟨genTables, Ext.empty⟩ (.cell (.str [0x54]) .boolean .str) = .ok (.bool true) := by
    simp only [exportVal, exportFail_ok _ _ (toBool_str_parseBool Ext.empty [0x54] true (by decide))]
  obtain ⟨b, hb, a2, a3⟩ := boolean_str Ext.empty [0x54] _ h
  cases hb
  exact ⟨h, a2, a3⟩
example : exportVal ⟨genTables, Ext.empty⟩ (.cell (.bytes [0x02]) .boolean .bytes) = .ok (.bool true) ∧
    FixedPoint ⟨genTables, Ext.empty⟩ .boolean .bytes (.bool true) (.bool true) := by
  have h : exportVal ⟨genTables, Ext.empty⟩ (.cell (.bytes [0x02]) .boolean .bytes) = .ok (.bool true) := by
    simp only [exportVal, toBool_bytes, exportFail]; rfl
  exact ⟨h, (boolean_fixed_point Ext.empty _ .bytes _ (.inr (.inl ⟨by decide, rfl⟩)) trivial h).2⟩
example : exportVal ⟨genTables, digitExt⟩ (.cell (.num [0x31]) .boolean .num) = .ok (.bool true) ∧
    FixedPoint ⟨genTables, digitExt⟩ .boolean .num (.bool true) (.bool true) := by
  have h : exportVal ⟨genTables, digitExt⟩ (.cell (.num [0x31]) .boolean .num) = .ok (.bool true) := by
    simp only [exportVal]
    exact exportFail_ok _ _ (toBool_num_digit digitExt digitExt_law true)
  exact ⟨h, (boolean_fixed_point digitExt _ .num _ (.inr (.inl ⟨by decide, rfl⟩)) digitExt_law h).2⟩
example : exportVal ⟨genTables, Ext.empty⟩ (.cell (.f64 0x7FF8000000000001) .boolean .f64) = .ok (.bool true) ∧
    importCell ⟨genTables, Ext.empty⟩ .boolean .f64 (.bool true) =
      .ok (.cell (.f64 0x3FF0000000000000) .boolean .f64, none) ∧
    exportVal ⟨genTables, Ext.empty⟩ (.cell (.f64 0x3FF0000000000000) .boolean .f64) = .ok (.bool true) := by
  obtain ⟨⟨a1, a2⟩, _⟩ := boolean_float Ext.empty 0x7FF8000000000001
  have e1 : (!Float.isZero Float.f64 0x7FF8000000000001) = true := by decide
  have e2 : Float.ofInt Float.f64 (if true = true then 1 else 0) = 0x3FF0000000000000 := by decide
  rw [e1] at a1
  have := a2 true
  rw [e2] at this
  exact ⟨a1, this.1, this.2⟩


/-! ### 3. hidden(T)

A hidden column exports its raw value as it is, but `row.MarshalJSON` skips it: nothing is
emitted.  The emitted line is the line of the row without its hidden cells, it does not depend
on what the hidden cells hold, and it has no member for them — so reading the line back never
reaches a hidden cell, and a hidden cell stays hidden whatever is imported into it.  Being a
fixed point is therefore a statement about the other columns only. -/

/-- `Export` of a hidden cell: the raw value, whatever it is and whatever the raw type. -/
theorem hidden_export (env : Env) (raw : Dyn) (ty : Ty) :
    exportVal env (.cell raw .hidden ty) = .ok raw := by
  cases raw <;> simp only [exportVal]

/-- … but the row writer skips the member: the hidden cell contributes no byte. -/
theorem hidden_not_emitted (env : Env) (k : Bytes) (v : Val) (ms : Members)
    (h : Cells.format v = .hidden) :
    RowPrint.marshalMembers env (.cons k v ms) = RowPrint.marshalMembers env ms := by
  rw [RowPrint.marshalMembers]
  simp [h]

/-- The row without its hidden cells. -/
def dropHidden : Members → Members
  | .nil => .nil
  | .cons k v ms => if Cells.format v == .hidden then dropHidden ms else .cons k v (dropHidden ms)

/-- The members written for a row are those written for the row without its hidden cells,
    wherever these stand. -/
theorem marshalMembers_dropHidden (env : Env) :
    ∀ ms : Members, RowPrint.marshalMembers env ms = RowPrint.marshalMembers env (dropHidden ms)
  | .nil => by simp [dropHidden]
  | .cons k v ms => by
    have ih := marshalMembers_dropHidden env ms
    by_cases h : Cells.format v = .hidden
    · rw [hidden_not_emitted env k v ms h, ih]
      simp [dropHidden, h]
    · have hb : (Cells.format v == Format.hidden) = false := by simpa using h
      have hd : dropHidden (.cons k v ms) = .cons k v (dropHidden ms) := by
        simp [dropHidden, hb]
      rw [hd]
      conv => lhs; rw [RowPrint.marshalMembers]
      conv => rhs; rw [RowPrint.marshalMembers]
      simp only [hb, ih]

/-- The emitted line is the line of the row without its hidden cells: in particular it does
    not depend on the raw values, the raw types or the number of the hidden cells. -/
theorem hidden_line (env : Env) (ms : Members) :
    RowPrint.marshalRow env ms = RowPrint.marshalRow env (dropHidden ms) := by
  unfold RowPrint.marshalRow
  rw [RowPrint.marshalVal, RowPrint.marshalVal, marshalMembers_dropHidden]

theorem hidden_line_indep (env : Env) (k : Bytes) (raw raw' : Dyn) (ty ty' : Ty) (ms : Members) :
    RowPrint.marshalRow env (.cons k (.cell raw .hidden ty) ms) =
      RowPrint.marshalRow env (.cons k (.cell raw' .hidden ty') ms) := by
  rw [hidden_line, hidden_line env (.cons k (.cell raw' .hidden ty') ms)]
  simp [dropHidden, Cells.format]

/-- The emitted object has no key for a hidden cell. -/
theorem hidden_not_visible (k : Bytes) (v : Val) (o : List (Bytes × Val)) (h : Cells.format v = .hidden) :
    RowPrint.visibleKeys ((k, v) :: o) = RowPrint.visibleKeys o := by
  simp [RowPrint.visibleKeys, h]

/-- A hidden cell stays hidden whatever the JSON reader could deliver into it (null, bool,
    number, string, array, nested object — anything but a bare jsonline cell used as data),
    accepted or rejected. -/
theorem hidden_stays_hidden (env : Env) (ty : Ty) (x : Dyn) (c : Val) (err : Option ErrClass)
    (hx : ∀ r f t, x ≠ .val (.cell r f t))
    (h : importCell env .hidden ty x = .ok (c, err)) : Cells.format c = .hidden := by
  have key : importByFormat env .hidden ty x = .ok (c, err) → Cells.format c = .hidden := by
    intro h
    simp only [importByFormat] at h
    split at h
    · cases h; rfl
    · cases h
    · cases h; rfl
    · cases h
  cases x with
  | nil => simp only [importCell] at h; cases h; rfl
  | val v =>
    cases v with
    | cell r f t => exact absurd rfl (hx r f t)
    | row ms =>
      simp only [importCell] at h
      split at h
      · cases h; rfl
      · exact key h
  | _ => exact key (by simpa only [importCell] using h)

/-- The hidden column as a fixed point, cell level: the raw value it "exports" is taken back
    unchanged when it is of the declared raw type (cast.To(T, v) = v for a `v` of type `T` is
    what `Tables.lossless` / C13 state per type; with no raw type it is immediate). -/
theorem hidden_none_fixed_point (ext : Ext) (raw : Dyn) (hraw : ∀ v, raw ≠ .val v) :
    exportVal ⟨genTables, ext⟩ (.cell raw .hidden .none) = .ok raw ∧
    importCell ⟨genTables, ext⟩ .hidden .none raw = .ok (.cell raw .hidden .none, none) := by
  refine ⟨hidden_export _ _ _, ?_⟩
  cases raw with
  | nil => simp only [importCell]
  | val v => exact absurd rfl (hraw v)
  | _ => simp only [importCell, importByFormat, gen_castTo_none]

/-! Non-vacuity: a row with a hidden int8 between two visible columns is written exactly as
    the row of the two visible columns. -/
example (env : Env) (a b : Val) :
    RowPrint.marshalRow env (.cons [0x61] a (.cons [0x68] (.cell (.int .i8 5) .hidden (.int .i8)) (.cons [0x62] b .nil))) =
    RowPrint.marshalRow env (.cons [0x61] a (.cons [0x62] b .nil)) := by
  rw [hidden_line, hidden_line env (.cons [0x61] a (.cons [0x62] b .nil))]
  by_cases ha : Cells.format a = .hidden <;> by_cases hb : Cells.format b = .hidden <;>
    simp [dropHidden, Cells.format, ha, hb]


/-! ### 4. date(none), date(string), date([]byte), date(json.Number)

`ToDate` returns a date text that `time.Parse("2006-01-02", ·)` accepts — the raw string itself
when it is one, else the text written for the instant the value denotes — and ToDate of an
accepted date text is that text.  (Proofs/TimeShape.lean proves the lexical shape of these
results; it cannot be imported together with Proofs/Pairings.lean, so the few facts about the
verbatim bodies that are needed are proved again here, with the stronger class.) -/

theorem find_toDate :
    genTables.casters.find? (fun c => c.name == "ToDate") = some (casterOf genTables "ToDate") := by
  simp [casterOf, genTables, Gen.casters]

/-- The branch `ToDate` takes for each dynamic type of its argument (checked against the
    regenerated table by `toDate_clause`). -/
def toDateBranch : Ty → Branch
  | .none => .ret .val
  | .time => .guarded (.or (.cmp .lt (.year .val) 0) (.cmp .gt (.year .val) 9999))
      "ErrUnableToCastToDate" (.timeFormat .val (.lit "2006-01-02"))
  | .str => .special "date.string"
  | .bytes => .special "date.bytes"
  | .int .i64 => .tail "ToDate" (.timeUnix .val)
  | _ => .special "date.default"

theorem toDate_clause (ty : Ty) : findClause (casterOf genTables "ToDate") ty = toDateBranch ty := by
  cases ty with
  | int i => cases i <;> simp [casterOf, genTables, Gen.casters, findClause, toDateBranch]
  | _ => simp [casterOf, genTables, Gen.casters, findClause, toDateBranch]

theorem toDate_call (ext : Ext) (f : Nat) (v : Dyn) :
    callNamed genTables ext (f + 1) "ToDate" v =
      evalBranch genTables ext f (casterOf genTables "ToDate").name (toDateBranch (typeOf v)) v := by
  simp only [callNamed, find_toDate, toDate_clause]

/-- Null, or a text that `time.Parse("2006-01-02", ·)` accepts. -/
def DateOk (r : Dyn) : Prop := r = .nil ∨ ∃ s, r = .str s ∧ Time.parseDateOk s = true

theorem special_date_string {T : CastTables} {ext : Ext} {k : Nat} {s : Bytes} {r : Dyn}
    (h : special T ext (k + 1) "date.string" (.str s) = .ok r) :
    (Time.parseDateOk s = true ∧ r = .str s) ∨
      ∃ i, callNamed T ext k "ToInt64" (.str s) = .ok i ∧ callNamed T ext k "ToDate" i = .ok r := by
  simp [special] at h
  split at h
  · rename_i hp
    exact Or.inl ⟨hp, by cases h; rfl⟩
  · exact Or.inr (chain_ok h)

theorem special_date_bytes {T : CastTables} {ext : Ext} {k : Nat} {s : Bytes} {r : Dyn}
    (h : special T ext (k + 1) "date.bytes" (.bytes s) = .ok r) :
    callNamed T ext k "ToDate" (.str s) = .ok r ∨
      ∃ i, callNamed T ext k "ToInt64" (.bytes s) = .ok i ∧ callNamed T ext k "ToDate" i = .ok r := by
  simp [special] at h
  cases hc : callNamed T ext k "ToDate" (.str s) with
  | ok t => simp [hc] at h; exact Or.inl (by rw [h])
  | panic p => simp [hc] at h
  | err e =>
    rw [hc] at h
    cases e <;> first | cases h | exact Or.inr (chain_ok h)

theorem special_date_default {T : CastTables} {ext : Ext} {k : Nat} {v r : Dyn}
    (h : special T ext (k + 1) "date.default" v = .ok r) :
    ∃ i, callNamed T ext k "ToString" v = .ok i ∧ callNamed T ext k "ToDate" i = .ok r := by
  simp [special] at h
  exact chain_ok h

/-- The guard `val.Year() < 0 || val.Year() > 9999` before formatting a time: a normal result
    means the year is in 0..9999 and comes from the guarded expression. -/
theorem year_guarded_ok {T : CastTables} {ext : Ext} {g : Nat} {self sent : String} {e : E}
    {t : GoTime} {r : Dyn}
    (h : evalBranch T ext (g + 1) self
      (.guarded (.or (.cmp .lt (.year .val) 0) (.cmp .gt (.year .val) 9999)) sent e) (.time t) = .ok r) :
    evalE T ext (.time t) .nil e = .ok r ∧ 0 ≤ Time.year t ∧ Time.year t ≤ 9999 := by
  simp only [evalBranch, evalG, evalE, cmpInt] at h
  by_cases h1 : Time.year t < 0
  · simp [h1] at h
    exact absurd h (failWith_ne_ok _ _ _)
  · by_cases h2 : Time.year t > 9999
    · simp [h1, h2] at h
      exact absurd h (failWith_ne_ok _ _ _)
    · simp [h1, h2] at h
      exact ⟨h, by omega, by omega⟩

theorem toDate_time_branch {T : CastTables} {ext : Ext} {g : Nat} {self : String} {t : GoTime} {r : Dyn}
    (h : evalBranch T ext (g + 1) self (toDateBranch .time) (.time t) = .ok r) :
    r = .str (Time.formatDate t) ∧ 0 ≤ Time.year t ∧ Time.year t ≤ 9999 := by
  obtain ⟨he, h0, h1⟩ := year_guarded_ok h
  simp [evalE, layoutString] at he
  exact ⟨he.symm, h0, h1⟩

/-- Every normal result of `ToDate`, at every fuel and for every source value and stdlib
    oracle, is nil or a text that the date layout accepts. -/
theorem toDate_fuel (ext : Ext) :
    ∀ (fuel : Nat) (v r : Dyn), callNamed genTables ext fuel "ToDate" v = .ok r → DateOk r := by
  intro fuel
  induction fuel using Nat.strongRecOn with
  | _ fuel ih =>
    intro v r h
    cases fuel with
    | zero => simp [callNamed] at h
    | succ f =>
      rw [toDate_call] at h
      cases f with
      | zero => simp [evalBranch] at h
      | succ g =>
        have viaSpecial : ∀ id, special genTables ext g id v = .ok r →
            ((∃ s, v = .str s ∧ id = "date.string") ∨ (∃ s, v = .bytes s ∧ id = "date.bytes") ∨
              id = "date.default") → DateOk r := by
          intro id hs hid
          cases g with
          | zero => simp [special] at hs
          | succ k =>
            rcases hid with ⟨s, rfl, rfl⟩ | ⟨s, rfl, rfl⟩ | rfl
            · rcases special_date_string hs with ⟨hp, rfl⟩ | ⟨i, _, hi⟩
              · exact Or.inr ⟨s, rfl, hp⟩
              · exact ih k (by omega) i r hi
            · rcases special_date_bytes hs with hi | ⟨i, _, hi⟩
              · exact ih k (by omega) _ r hi
              · exact ih k (by omega) i r hi
            · obtain ⟨i, _, hi⟩ := special_date_default hs
              exact ih k (by omega) i r hi
        have dflt : toDateBranch (typeOf v) = .special "date.default" → DateOk r := by
          intro hb
          rw [hb] at h
          simp only [evalBranch] at h
          exact viaSpecial _ h (Or.inr (Or.inr rfl))
        cases v with
        | nil =>
          simp [typeOf, toDateBranch, evalBranch, evalE] at h
          exact Or.inl h.symm
        | time t =>
          obtain ⟨rfl, h0, h1⟩ := toDate_time_branch h
          exact Or.inr ⟨_, rfl, (Time.parseDatePart_formatDate t h0 h1).2⟩
        | str s =>
          simp only [typeOf, toDateBranch, evalBranch] at h
          exact viaSpecial _ h (Or.inl ⟨s, rfl, rfl⟩)
        | bytes s =>
          simp only [typeOf, toDateBranch, evalBranch] at h
          exact viaSpecial _ h (Or.inr (Or.inl ⟨s, rfl, rfl⟩))
        | int t x =>
          cases t with
          | i64 =>
            simp only [typeOf, toDateBranch, evalBranch] at h
            cases he : evalE genTables ext (.int .i64 x) .nil (.timeUnix .val) with
            | ok w => rw [he] at h; exact ih g (by omega) w r h
            | err e => rw [he] at h; cases h
            | panic p => rw [he] at h; cases h
          | _ => exact dflt rfl
        | _ => exact dflt rfl

/-- Whatever `ToDate` returns normally is nil or a text that the date layout accepts. -/
theorem toDate_ok (ext : Ext) (v r : Dyn) (h : castNamed genTables ext "ToDate" v = .ok r) :
    DateOk r :=
  toDate_fuel ext 24 v r h

theorem toString_nil (ext : Ext) : castNamed genTables ext "ToString" .nil = .ok .nil :=
  gen_cast_nil ext "ToString" (by decide)

/-- A non-nil raw value of a `date` column goes through `ToDate`, then `ToString`. -/
theorem export_date_inv {env : Env} {raw : Dyn} {typ : Ty} {e : Dyn} (hraw : raw ≠ .nil)
    (h : exportVal env (.cell raw .date typ) = .ok e) :
    ∃ t, castNamed env.T env.ext "ToDate" raw = .ok t ∧
      castNamed env.T env.ext "ToString" t = .ok e := by
  cases raw with
  | nil => exact absurd rfl hraw
  | _ =>
    simp only [exportVal] at h
    split at h
    · rename_i t ht
      exact ⟨t, exportFail_inv ht, exportFail_inv h⟩
    · rename_i hne
      exact absurd h (hne e)

/-- A `date` column emits null or a text that the date layout accepts (a real calendar date,
    not only the shape `YYYY-MM-DD`) — whatever the raw value, the raw type and the oracle. -/
theorem date_export_class (ext : Ext) (raw : Dyn) (typ : Ty) (e : Dyn)
    (h : exportVal ⟨genTables, ext⟩ (.cell raw .date typ) = .ok e) : DateOk e := by
  by_cases hraw : raw = .nil
  · subst hraw
    simp [exportVal] at h
    exact Or.inl h.symm
  · obtain ⟨t, hd, h2⟩ := export_date_inv hraw h
    simp only at hd h2
    rcases toDate_ok ext raw t hd with rfl | ⟨s, rfl, hs⟩
    · rw [toString_nil] at h2
      cases h2
      exact Or.inl rfl
    · rw [toString_str] at h2
      cases h2
      exact Or.inr ⟨s, rfl, hs⟩

/-- ToDate of an accepted date text is that text, at any fuel the interpreter reaches it with. -/
theorem call_toDate_str (ext : Ext) (d : Bytes) (hd : Time.parseDateOk d = true) (k : Nat) :
    callNamed genTables ext (k + 3) "ToDate" (.str d) = .ok (.str d) := by
  rw [toDate_call]
  simp [typeOf, toDateBranch, evalBranch, special, hd]

theorem toDate_str (ext : Ext) (d : Bytes) (hd : Time.parseDateOk d = true) :
    castNamed genTables ext "ToDate" (.str d) = .ok (.str d) :=
  call_toDate_str ext d hd 21

/-- ToDate of the bytes of an accepted date text: `string(bytes)` is tried first. -/
theorem toDate_bytes (ext : Ext) (d : Bytes) (hd : Time.parseDateOk d = true) :
    castNamed genTables ext "ToDate" (.bytes d) = .ok (.str d) := by
  unfold castNamed
  rw [show (24 : Nat) = 23 + 1 from rfl, toDate_call]
  simp [typeOf, toDateBranch, evalBranch, special, call_toDate_str ext d hd 18]

theorem call_toString_num (ext : Ext) (l : Bytes) (k : Nat) :
    callNamed genTables ext (k + 3) "ToString" (.num l) = .ok (.str l) := by
  simp [callNamed, genTables, Gen.casters, findClause, typeOf, evalBranch, evalE]

/-- ToDate of a json.Number whose literal is an accepted date text: the default clause goes
    through ToString. -/
theorem toDate_num (ext : Ext) (d : Bytes) (hd : Time.parseDateOk d = true) :
    castNamed genTables ext "ToDate" (.num d) = .ok (.str d) := by
  unfold castNamed
  rw [show (24 : Nat) = 23 + 1 from rfl, toDate_call]
  simp [typeOf, toDateBranch, evalBranch, special, call_toString_num ext d 18,
    call_toDate_str ext d hd 18]

theorem castTo_bytes_str (ext : Ext) (s : Bytes) :
    castTo genTables ext .bytes (.str s) = .ok (.bytes s) := by
  simp [castTo, callNamed, genTables, Gen.casters, Gen.dispatchTo, findClause, typeOf, evalBranch, evalE]

/-- An accepted date text is re-read under each of the four descriptors into a cell that is
    written as the same text. -/
theorem date_reread (ext : Ext) (d : Bytes) (hd : Time.parseDateOk d = true) :
    (importCell ⟨genTables, ext⟩ .date .none (.str d) = .ok (.cell (.str d) .date .none, none) ∧
     exportVal ⟨genTables, ext⟩ (.cell (.str d) .date .none) = .ok (.str d)) ∧
    (importCell ⟨genTables, ext⟩ .date .str (.str d) = .ok (.cell (.str d) .date .str, none) ∧
     exportVal ⟨genTables, ext⟩ (.cell (.str d) .date .str) = .ok (.str d)) ∧
    (importCell ⟨genTables, ext⟩ .date .bytes (.str d) = .ok (.cell (.bytes d) .date .bytes, none) ∧
     exportVal ⟨genTables, ext⟩ (.cell (.bytes d) .date .bytes) = .ok (.str d)) ∧
    (importCell ⟨genTables, ext⟩ .date .num (.str d) = .ok (.cell (.num d) .date .num, none) ∧
     exportVal ⟨genTables, ext⟩ (.cell (.num d) .date .num) = .ok (.str d)) := by
  have hexp : ∀ ty, exportVal ⟨genTables, ext⟩ (.cell (.str d) .date ty) = .ok (.str d) := by
    intro ty
    simp only [exportVal, exportFail_ok _ _ (toDate_str ext d hd), exportFail_ok _ _ (toString_str ext d)]
  refine ⟨⟨?_, hexp _⟩, ⟨?_, hexp _⟩, ⟨?_, ?_⟩, ⟨?_, ?_⟩⟩
  · simp only [importCell, importByFormat, importFrom, importFail_ok _ _ (toDate_str ext d hd)]
  · simp only [importCell, importByFormat, importFrom, importFail_ok _ _ (castTo_str_str ext d)]
  · simp only [importCell, importByFormat, importFrom, importFail_ok _ _ (castTo_bytes_str ext d)]
  · simp only [exportVal, exportFail_ok _ _ (toDate_bytes ext d hd), exportFail_ok _ _ (toString_str ext d)]
  · simp only [importCell, importByFormat, importFrom, importFail_ok _ _ (castTo_num_str ext d)]
  · simp only [exportVal, exportFail_ok _ _ (toDate_num ext d hd), exportFail_ok _ _ (toString_str ext d)]


/-! The accepted date texts are ASCII, so the JSON reader delivers them unchanged. -/

theorem ascii_of_time_isDigit {c : UInt8} (h : Time.isDigit c = true) : c < 0x80 := by
  unfold Time.isDigit at h
  simp only [Bool.and_eq_true, decide_eq_true_eq] at h
  exact lt128_of_le h.2 (by decide)

theorem num4_ascii {s : Bytes} {n : Nat} {r : Bytes} (h : Time.num4 s = some (n, r)) :
    ∃ p, s = p ++ r ∧ Ascii p := by
  unfold Time.num4 at h
  split at h
  · rename_i a b c d rest
    split at h
    · rename_i hd
      simp only [Bool.and_eq_true] at hd
      simp only [Option.some.injEq, Prod.mk.injEq] at h
      obtain ⟨_, rfl⟩ := h
      refine ⟨[a, b, c, d], rfl, ?_⟩
      intro x hx
      simp at hx
      rcases hx with rfl | rfl | rfl | rfl
      · exact ascii_of_time_isDigit hd.1.1.1
      · exact ascii_of_time_isDigit hd.1.1.2
      · exact ascii_of_time_isDigit hd.1.2
      · exact ascii_of_time_isDigit hd.2
    · cases h
  · cases h

theorem num2_ascii {s : Bytes} {n : Nat} {r : Bytes} (h : Time.num2 s = some (n, r)) :
    ∃ p, s = p ++ r ∧ Ascii p := by
  unfold Time.num2 at h
  split at h
  · rename_i a b rest
    split at h
    · rename_i hd
      simp only [Bool.and_eq_true] at hd
      simp only [Option.some.injEq, Prod.mk.injEq] at h
      obtain ⟨_, rfl⟩ := h
      refine ⟨[a, b], rfl, ?_⟩
      intro x hx
      simp at hx
      rcases hx with rfl | rfl
      · exact ascii_of_time_isDigit hd.1
      · exact ascii_of_time_isDigit hd.2
    · cases h
  · cases h

theorem expect_some {c : UInt8} {s r : Bytes} (h : Time.expect c s = some r) : s = c :: r := by
  unfold Time.expect at h
  split at h
  · split at h
    · rename_i hx
      simp only [Option.some.injEq] at h
      rw [h, eq_of_beq hx]
    · cases h
  · cases h

/-- What the `2006-01-02` prefix parser consumes is ASCII. -/
theorem parseDatePart_ascii {s : Bytes} {y : Int} {m d : Nat} {r : Bytes}
    (h : Time.parseDatePart s = some (y, m, d, r)) : ∃ p, s = p ++ r ∧ Ascii p := by
  unfold Time.parseDatePart at h
  simp only [Option.bind_eq_bind] at h
  cases h4 : Time.num4 s with
  | none => simp [h4] at h
  | some p4 =>
    obtain ⟨yy, s1⟩ := p4
    obtain ⟨p1, rfl, a1⟩ := num4_ascii h4
    simp only [h4, Option.bind_some] at h
    cases he1 : Time.expect 0x2D s1 with
    | none => simp [he1] at h
    | some s2 =>
      have e1 := expect_some he1
      subst e1
      simp only [he1, Option.bind_some] at h
      cases hm : Time.num2 s2 with
      | none => simp [hm] at h
      | some pm =>
        obtain ⟨mm, s3⟩ := pm
        obtain ⟨p2, rfl, a2⟩ := num2_ascii hm
        simp only [hm, Option.bind_some] at h
        cases he2 : Time.expect 0x2D s3 with
        | none => simp [he2] at h
        | some s4 =>
          have e2 := expect_some he2
          subst e2
          simp only [he2, Option.bind_some] at h
          cases hdd : Time.num2 s4 with
          | none => simp [hdd] at h
          | some pd =>
            obtain ⟨dd, s5⟩ := pd
            obtain ⟨p3, rfl, a3⟩ := num2_ascii hdd
            simp only [hdd, Option.bind_some] at h
            split at h
            · cases h
            · split at h
              · cases h
              · simp only [Option.some.injEq, Prod.mk.injEq] at h
                obtain ⟨_, _, _, rfl⟩ := h
                refine ⟨p1 ++ 0x2D :: (p2 ++ 0x2D :: p3), by simp, ?_⟩
                have one : Ascii [(0x2D : UInt8)] := ascii_cons.2 ⟨by decide, ascii_nil⟩
                have e : p1 ++ 0x2D :: (p2 ++ 0x2D :: p3) = p1 ++ ([0x2D] ++ (p2 ++ ([0x2D] ++ p3))) := by simp
                rw [e]
                exact ascii_append.2 ⟨a1, ascii_append.2 ⟨one, ascii_append.2 ⟨a2, ascii_append.2 ⟨one, a3⟩⟩⟩⟩

theorem ascii_dateOk {d : Bytes} (h : Time.parseDateOk d = true) : Ascii d := by
  unfold Time.parseDateOk at h
  split at h
  · rename_i y m dd hp
    obtain ⟨p, rfl, hasc⟩ := parseDatePart_ascii hp
    simpa using hasc
  · cases h

theorem sanitize_dateOk {d : Bytes} (h : Time.parseDateOk d = true) : JsonQuote.sanitize d = d :=
  sanitize_ascii_text d (ascii_dateOk h)

/-- **C05 for date(none), date(string), date([]byte), date(json.Number)**: whatever such a
    column emits — for EVERY raw value it accepts, well-typed or not — is null or a date text
    `d` that the layout accepts; the JSON reader delivers `d` unchanged, `d` is accepted under
    the same descriptor, and the cell it gives is written as `d` again. -/
theorem date_fixed_point (ext : Ext) (raw : Dyn) (ty : Ty) (e : Dyn)
    (hty : ty = .none ∨ ty = .str ∨ ty = .bytes ∨ ty = .num)
    (h : exportVal ⟨genTables, ext⟩ (.cell raw .date ty) = .ok e) :
    (e = .nil ∧ FixedPoint ⟨genTables, ext⟩ .date ty .nil .nil) ∨
    (∃ d, e = .str d ∧ Time.parseDateOk d = true ∧ JsonQuote.sanitize d = d ∧
      FixedPoint ⟨genTables, ext⟩ .date ty (.str d) (.str (JsonQuote.sanitize d))) := by
  rcases date_export_class ext raw ty e h with rfl | ⟨d, rfl, hd⟩
  · exact .inl ⟨rfl, (nil_fixed_point _ _ _).2⟩
  · refine .inr ⟨d, rfl, hd, sanitize_dateOk hd, ?_⟩
    rw [sanitize_dateOk hd]
    obtain ⟨⟨a1, a2⟩, ⟨b1, b2⟩, ⟨c1, c2⟩, ⟨d1, d2⟩⟩ := date_reread ext d hd
    rcases hty with rfl | rfl | rfl | rfl
    · exact ⟨_, a1, a2⟩
    · exact ⟨_, b1, b2⟩
    · exact ⟨_, c1, c2⟩
    · exact ⟨_, d1, d2⟩

/-! Non-vacuity: the string "2024-02-29" under date(string) and its bytes under date([]byte);
    the json.Number `0` under date(json.Number) in a process at UTC is written "1970-01-01",
    which is read back as the json.Number with the literal `1970-01-01` (cast.To(json.Number,
    string) does not look at the text) and written "1970-01-01" again. -/
def feb29 : Bytes := [0x32, 0x30, 0x32, 0x34, 0x2D, 0x30, 0x32, 0x2D, 0x32, 0x39]

example : exportVal ⟨genTables, Ext.empty⟩ (.cell (.str feb29) .date .str) = .ok (.str feb29) ∧
    FixedPoint ⟨genTables, Ext.empty⟩ .date .str (.str feb29) (.str (JsonQuote.sanitize feb29)) := by
  have hd : Time.parseDateOk feb29 = true := by decide
  have h := ((date_reread Ext.empty feb29 hd).2.1).2
  refine ⟨h, ?_⟩
  rcases date_fixed_point Ext.empty _ .str _ (.inr (.inl rfl)) h with ⟨h0, _⟩ | ⟨d, hd', _, _, hfp⟩
  · cases h0
  · cases hd'; exact hfp

example : exportVal ⟨genTables, Ext.empty⟩ (.cell (.bytes feb29) .date .bytes) = .ok (.str feb29) ∧
    importCell ⟨genTables, Ext.empty⟩ .date .bytes (.str feb29) = .ok (.cell (.bytes feb29) .date .bytes, none) :=
  have hd : Time.parseDateOk feb29 = true := by decide
  ⟨((date_reread Ext.empty feb29 hd).2.2.1).2, ((date_reread Ext.empty feb29 hd).2.2.1).1⟩


/-- A process zone that is UTC everywhere. -/
def utcExt : Ext := { Ext.empty with zoneOffset := fun _ => some 0 }

def epochDate : Bytes := [0x31, 0x39, 0x37, 0x30, 0x2D, 0x30, 0x31, 0x2D, 0x30, 0x31]

theorem toDate_num_zero : castNamed genTables utcExt "ToDate" (.num [0x30]) = .ok (.str epochDate) := by
  have hc : Time.civilOf ⟨0, 0, 0⟩ = ⟨1970, 1, 1, 0, 0, 0⟩ := by decide
  have hy : Time.year ⟨0, 0, 0⟩ = 1970 := by simp [Time.year, hc]
  have hf : Time.formatDate ⟨0, 0, 0⟩ = epochDate := by
    simp [Time.formatDate, hc, Time.appendInt, Time.pad, IntText.natDigits, epochDate]
    decide
  have hp : Time.parseDateOk [0x30] = false := by decide
  have hi : IntText.parseInt0 [0x30] 64 = some 0 := by decide
  have hz : utcExt.zoneOffset 0 = some 0 := rfl
  simp [castNamed, callNamed, genTables, Gen.casters, findClause, typeOf, evalBranch, evalE, evalG, cmpInt,
    special, runParse, hp, hi, hz, hy, hf, layoutString]

example : exportVal ⟨genTables, utcExt⟩ (.cell (.num [0x30]) .date .num) = .ok (.str epochDate) ∧
    importCell ⟨genTables, utcExt⟩ .date .num (.str epochDate) = .ok (.cell (.num epochDate) .date .num, none) ∧
    exportVal ⟨genTables, utcExt⟩ (.cell (.num epochDate) .date .num) = .ok (.str epochDate) := by
  have hd : Time.parseDateOk epochDate = true := by decide
  refine ⟨?_, ((date_reread utcExt epochDate hd).2.2.2).1, ((date_reread utcExt epochDate hd).2.2.2).2⟩
  simp only [exportVal, exportFail_ok _ _ toDate_num_zero, exportFail_ok _ _ (toString_str utcExt epochDate)]


/-! ### 5. datetime(string), datetime([]byte)

The raw text is read as RFC 3339 (or, failing that, as an integer text of Unix seconds rendered
in the process zone); the column writes `formatRFC3339` of that time `t`.  Re-read, the written
text stays a string / []byte, and writing it parses it again: since parse ∘ format gives back
the same second and offset, format ∘ parse ∘ format = format.  `Time.C14_parse_format` asks
for an offset of whole minutes below 24 h; the parser itself accepts offsets up to `+24:60`,
so parse ∘ format is proved again here up to (excluding) 25 h — and at exactly 25 h the
pairing is NOT a fixed point (`datetime_str_offset_25h_counterexample`). -/

/-- The zone parser on `sign hh:mm`, hours up to 24 (what `time.Parse` tolerates). -/
theorem parseZone_signed24 {sign : UInt8} {hr mm : Nat} (hs : sign = 0x2B ∨ sign = 0x2D)
    (hhr : hr ≤ 24) (hmm : mm < 60) (rest : Bytes) :
    Time.parseZone (sign :: (Time.pad hr 2 ++ [0x3A] ++ Time.pad mm 2) ++ rest) =
      some (if sign = 0x2B then (((hr * 60 + mm) * 60 : Nat) : Int)
            else -(((hr * 60 + mm) * 60 : Nat) : Int), rest) := by
  rw [Time.pad2 (show hr < 100 by omega), Time.pad2 (show mm < 100 by omega)]
  have d1 := Time.isDigit_digitChar (show hr / 10 < 10 by omega)
  have d2 := Time.isDigit_digitChar (show hr % 10 < 10 by omega)
  have d3 := Time.isDigit_digitChar (show mm / 10 < 10 by omega)
  have d4 := Time.isDigit_digitChar (show mm % 10 < 10 by omega)
  have v1 := Time.dval_digitChar (show hr / 10 < 10 by omega)
  have v2 := Time.dval_digitChar (show hr % 10 < 10 by omega)
  have v3 := Time.dval_digitChar (show mm / 10 < 10 by omega)
  have v4 := Time.dval_digitChar (show mm % 10 < 10 by omega)
  have e1 : hr / 10 * 10 + hr % 10 = hr := by omega
  have e2 : mm / 10 * 10 + mm % 10 = mm := by omega
  rcases hs with rfl | rfl
  · simp [Time.parseZone, d1, d2, d3, d4, v1, v2, v3, v4, e1, e2]
    omega
  · simp [Time.parseZone, d1, d2, d3, d4, v1, v2, v3, v4, e1, e2]
    omega

/-- An offset of whole minutes below 25 h, written by the `Z07:00` verb, is read back. -/
theorem parseZone_formatZone25 {off : Int} (h60 : off % 60 = 0) (hb : off.natAbs < 90000)
    (rest : Bytes) :
    Time.parseZone (Time.formatZone off ++ rest) = some (off, rest) := by
  have htd : off.tdiv 60 = off / 60 := Int.tdiv_eq_ediv_of_dvd (Int.dvd_of_emod_eq_zero h60)
  rw [Time.formatZone_eq, htd]
  by_cases h0 : off = 0
  · subst h0; simp [Time.parseZone]
  · rw [if_neg h0]
    by_cases hneg : off / 60 < 0
    · rw [if_pos hneg,
        parseZone_signed24 (Or.inr rfl) (show (-(off / 60)).toNat / 60 ≤ 24 by omega)
          (Nat.mod_lt _ (by decide))]
      simp only [show ¬ ((0x2D : UInt8) = 0x2B) by decide, if_false]
      congr 2; omega
    · rw [if_neg hneg,
        parseZone_signed24 (Or.inl rfl) (show (off / 60).toNat / 60 ≤ 24 by omega)
          (Nat.mod_lt _ (by decide))]
      simp only [if_true]
      congr 2; omega

/-- parse ∘ format for every offset of whole minutes that the parser accepts and the writer
    reproduces (below 25 h): the same second and offset, nanoseconds dropped. -/
theorem parse_format25 (t : GoTime) (hy0 : 0 ≤ Time.year t) (hy1 : Time.year t ≤ 9999)
    (h60 : t.off % 60 = 0) (hb : t.off.natAbs < 90000) :
    Time.parseRFC3339 (Time.formatRFC3339 t) = some ⟨t.sec, 0, t.off⟩ := by
  have hv := Time.civilOf_valid t
  rw [Time.parseRFC3339_eq, Time.formatRFC3339_eq, Time.parseHead_headText hy0 hy1 hv]
  simp only [Option.bind_some]
  unfold Time.parseTail
  simp only [Time.parseFrac_formatZone]
  have hz := parseZone_formatZone25 h60 hb []
  rw [List.append_nil] at hz
  rw [hz]
  have c : (decide ((Time.civilOf t).hour ≥ 24) || decide ((Time.civilOf t).min ≥ 60) ||
      decide ((Time.civilOf t).sec ≥ 60)) = false := by
    have := hv.2.1; have := hv.2.2.1; have := hv.2.2.2
    simp; omega
  simp only [c, List.isEmpty_nil, Bool.not_true, Bool.false_eq_true, if_false]
  rw [Time.seconds_civilOf]

theorem parseZone_minutes {z : Bytes} {off : Int} {r : Bytes} (h : Time.parseZone z = some (off, r)) :
    off % 60 = 0 ∧ off.natAbs ≤ 90000 := by
  unfold Time.parseZone at h
  split at h
  · simp only [Option.some.injEq, Prod.mk.injEq] at h
    obtain ⟨rfl, _⟩ := h
    decide
  · rename_i sign h1 h2 colon m1 m2 rest _
    split at h
    · cases h
    · split at h
      · cases h
      · simp only at h
        split at h
        · cases h
        · rename_i hb
          simp only [Bool.or_eq_true, decide_eq_true_eq, not_or, Nat.not_lt] at hb
          split at h
          · simp only [Option.some.injEq, Prod.mk.injEq] at h
            obtain ⟨rfl, _⟩ := h
            omega
          · split at h
            · simp only [Option.some.injEq, Prod.mk.injEq] at h
              obtain ⟨rfl, _⟩ := h
              omega
            · cases h
  · cases h

/-- The offset of a time read by `time.Parse(time.RFC3339, s)`: whole minutes, at most 25 h. -/
theorem parseRFC3339_off {s : Bytes} {t : GoTime} (h : Time.parseRFC3339 s = some t) :
    t.off % 60 = 0 ∧ t.off.natAbs ≤ 90000 := by
  rw [Time.parseRFC3339_eq] at h
  cases hh : Time.parseHead s with
  | none => simp [hh] at h
  | some p =>
    obtain ⟨⟨y, m, d, hh', mi, ss⟩, rest⟩ := p
    simp only [hh, Option.bind_some, Time.parseTail] at h
    split at h
    · cases h
    · rename_i off r hz
      split at h
      · cases h
      · split at h
        · cases h
        · simp only [Option.some.injEq] at h
          subst h
          exact parseZone_minutes hz


theorem find_toTime :
    genTables.casters.find? (fun c => c.name == "ToTime") = some (casterOf genTables "ToTime") := by
  simp [casterOf, genTables, Gen.casters]

/-- The branch `ToTime` takes for each dynamic type of its argument (checked against the
    regenerated table by `toTime_clause`). -/
def toTimeBranch : Ty → Branch
  | .none => .ret .val
  | .time => .ret .val
  | .str => .special "time.string"
  | .bytes => .special "time.bytes"
  | .int .i64 => .ret (.timeUnix .val)
  | _ => .special "time.default"

theorem toTime_clause (ty : Ty) : findClause (casterOf genTables "ToTime") ty = toTimeBranch ty := by
  cases ty with
  | int i => cases i <;> simp [casterOf, genTables, Gen.casters, findClause, toTimeBranch]
  | _ => simp [casterOf, genTables, Gen.casters, findClause, toTimeBranch]

theorem toTime_call (ext : Ext) (f : Nat) (v : Dyn) :
    callNamed genTables ext (f + 1) "ToTime" v =
      evalBranch genTables ext f (casterOf genTables "ToTime").name (toTimeBranch (typeOf v)) v := by
  simp only [callNamed, find_toTime, toTime_clause]

theorem special_time_string {T : CastTables} {ext : Ext} {k : Nat} {s : Bytes} {r : Dyn}
    (h : special T ext (k + 1) "time.string" (.str s) = .ok r) :
    (∃ t, Time.parseRFC3339 s = some t ∧ r = .time t) ∨
      ∃ i, callNamed T ext k "ToInt64" (.str s) = .ok i ∧ callNamed T ext k "ToTime" i = .ok r := by
  simp [special] at h
  split at h
  · split at h
    · rename_i t ht
      exact Or.inl ⟨t, ht, by cases h; rfl⟩
    · exact Or.inr (chain_ok h)
  · cases h

theorem special_time_bytes {T : CastTables} {ext : Ext} {k : Nat} {s : Bytes} {r : Dyn}
    (h : special T ext (k + 1) "time.bytes" (.bytes s) = .ok r) :
    callNamed T ext k "ToTime" (.str s) = .ok r ∨
      ∃ i, callNamed T ext k "ToInt64" (.bytes s) = .ok i ∧ callNamed T ext k "ToTime" i = .ok r := by
  simp [special] at h
  cases hc : callNamed T ext k "ToTime" (.str s) with
  | ok t => simp [hc] at h; exact Or.inl (by rw [h])
  | panic p => simp [hc] at h
  | err e =>
    rw [hc] at h
    cases e <;> first | cases h | exact Or.inr (chain_ok h)

/-- What `ToInt64` returns for a string or a byte string is an int64. -/
theorem toInt64_text_result (ext : Ext) (fuel : Nat) (v i : Dyn) (hv : typeOf v = .str ∨ typeOf v = .bytes)
    (h : callNamed genTables ext fuel "ToInt64" v = .ok i) : ∃ x, i = .int .i64 x := by
  have hg := callNamed_good ext genTables_ok (name := "ToInt64") (gen_isCaster (by decide))
    (t := .int .i64) rfl fuel v
  rw [h] at hg
  simp only [good_ok] at hg
  have : typeOf i = .int .i64 := by
    rcases hv with hv | hv <;> rw [hv] at hg <;> simpa [wantFor] using hg
  cases i <;> simp [typeOf] at this
  subst this
  exact ⟨_, rfl⟩

theorem timeUnix_ok {T : CastTables} {ext : Ext} {x : Int} {r : Dyn}
    (h : evalE T ext (.int .i64 x) .nil (.timeUnix .val) = .ok r) :
    ∃ off, ext.zoneOffset x = some off ∧ r = .time ⟨x, 0, off⟩ := by
  simp only [evalE] at h
  split at h
  · cases h
  · cases hz : ext.zoneOffset x with
    | none => simp [hz] at h
    | some off =>
      simp only [hz, Outcome.ok.injEq] at h
      exact ⟨off, rfl, h.symm⟩

/-- ToTime of an int64 (any fuel): time.Unix in the process zone. -/
theorem call_toTime_i64_inv (ext : Ext) (fuel : Nat) (x : Int) (r : Dyn)
    (h : callNamed genTables ext fuel "ToTime" (.int .i64 x) = .ok r) :
    ∃ off, ext.zoneOffset x = some off ∧ r = .time ⟨x, 0, off⟩ := by
  cases fuel with
  | zero => simp [callNamed] at h
  | succ f =>
    rw [toTime_call] at h
    cases f with
    | zero => simp [evalBranch] at h
    | succ g =>
      simp only [typeOf, toTimeBranch, evalBranch] at h
      exact timeUnix_ok h

/-- Where the time a text column is rendered from comes from: the text parsed as RFC 3339, or
    a Unix second rendered at the offset the process zone has there. -/
def TimeFrom (ext : Ext) (s : Bytes) (t : GoTime) : Prop :=
  Time.parseRFC3339 s = some t ∨ ∃ v off, ext.zoneOffset v = some off ∧ t = ⟨v, 0, off⟩

theorem call_toTime_str_inv (ext : Ext) (fuel : Nat) (s : Bytes) (r : Dyn)
    (h : callNamed genTables ext fuel "ToTime" (.str s) = .ok r) :
    ∃ t, r = .time t ∧ TimeFrom ext s t := by
  cases fuel with
  | zero => simp [callNamed] at h
  | succ f =>
    rw [toTime_call] at h
    cases f with
    | zero => simp [evalBranch] at h
    | succ g =>
      simp only [typeOf, toTimeBranch, evalBranch] at h
      cases g with
      | zero => simp [special] at h
      | succ k =>
        rcases special_time_string h with ⟨t, hp, rfl⟩ | ⟨i, h64, hi⟩
        · exact ⟨t, rfl, .inl hp⟩
        · obtain ⟨x, rfl⟩ := toInt64_text_result ext k _ i (.inl rfl) h64
          obtain ⟨off, hz, rfl⟩ := call_toTime_i64_inv ext k x r hi
          exact ⟨_, rfl, .inr ⟨x, off, hz, rfl⟩⟩

theorem toTime_bytes_inv (ext : Ext) (s : Bytes) (r : Dyn)
    (h : castNamed genTables ext "ToTime" (.bytes s) = .ok r) :
    ∃ t, r = .time t ∧ TimeFrom ext s t := by
  unfold castNamed at h
  rw [show (24 : Nat) = 21 + 1 + 1 + 1 from rfl, toTime_call] at h
  simp only [typeOf, toTimeBranch, evalBranch] at h
  rcases special_time_bytes h with hs | ⟨i, h64, hi⟩
  · exact call_toTime_str_inv ext _ s r hs
  · obtain ⟨x, rfl⟩ := toInt64_text_result ext _ _ i (.inr rfl) h64
    obtain ⟨off, hz, rfl⟩ := call_toTime_i64_inv ext _ x r hi
    exact ⟨_, rfl, .inr ⟨x, off, hz, rfl⟩⟩

/-- ToString of a time, inverted: the RFC 3339 text, and the year is in 0..9999. -/
theorem toString_time_inv (ext : Ext) (t : GoTime) (r : Dyn)
    (h : castNamed genTables ext "ToString" (.time t) = .ok r) :
    r = .str (Time.formatRFC3339 t) ∧ 0 ≤ Time.year t ∧ Time.year t ≤ 9999 := by
  by_cases h0 : 0 ≤ Time.year t
  · by_cases h1 : Time.year t ≤ 9999
    · rw [toString_time ext t h0 h1] at h
      cases h
      exact ⟨rfl, h0, h1⟩
    · have hg : 9999 < Time.year t := by omega
      have hl : ¬ Time.year t < 0 := by omega
      simp [castNamed, callNamed, genTables, Gen.casters, findClause, typeOf, evalBranch, evalE, evalG,
        cmpInt, hg, hl, failWith, Gen.sentinels, wrapsRoot] at h
  · have hl : Time.year t < 0 := by omega
    simp [castNamed, callNamed, genTables, Gen.casters, findClause, typeOf, evalBranch, evalE, evalG,
      cmpInt, hl, failWith, Gen.sentinels, wrapsRoot] at h

/-- A non-nil raw value of a `datetime` column goes through `ToTime`, then `ToString`. -/
theorem export_datetime_inv {env : Env} {raw : Dyn} {typ : Ty} {e : Dyn} (hraw : raw ≠ .nil)
    (h : exportVal env (.cell raw .datetime typ) = .ok e) :
    ∃ t, castNamed env.T env.ext "ToTime" raw = .ok t ∧
      castNamed env.T env.ext "ToString" t = .ok e := by
  cases raw with
  | nil => exact absurd rfl hraw
  | _ =>
    simp only [exportVal] at h
    split at h
    · rename_i t ht
      exact ⟨t, exportFail_inv ht, exportFail_inv h⟩
    · rename_i hne
      exact absurd h (hne e)

/-- What a datetime column emits for a raw string or []byte: the RFC 3339 text of a time with a
    year in 0..9999 that comes from the text or from the process zone. -/
theorem datetime_text_export (ext : Ext) (raw : Dyn) (s : Bytes) (ty : Ty) (e : Dyn)
    (hraw : raw = .str s ∨ raw = .bytes s)
    (h : exportVal ⟨genTables, ext⟩ (.cell raw .datetime ty) = .ok e) :
    ∃ t, e = .str (Time.formatRFC3339 t) ∧ TimeFrom ext s t ∧ 0 ≤ Time.year t ∧ Time.year t ≤ 9999 := by
  obtain ⟨r, h1, h2⟩ := export_datetime_inv (by rcases hraw with rfl | rfl <;> simp) h
  simp only at h1 h2
  have : ∃ t, r = .time t ∧ TimeFrom ext s t := by
    rcases hraw with rfl | rfl
    · exact call_toTime_str_inv ext 24 s r h1
    · exact toTime_bytes_inv ext s r h1
  obtain ⟨t, rfl, hfrom⟩ := this
  obtain ⟨rfl, h0, h1⟩ := toString_time_inv ext t e h2
  exact ⟨t, rfl, hfrom, h0, h1⟩

/-- The time the RFC 3339 text of `t` denotes: the same local clock reading, the offset
    truncated to whole minutes (what the `Z07:00` verb prints), nanoseconds dropped. -/
def truncOff (t : GoTime) : GoTime := ⟨t.sec + t.off - 60 * t.off.tdiv 60, 0, 60 * t.off.tdiv 60⟩

theorem civilOf_truncOff (t : GoTime) : Time.civilOf (truncOff t) = Time.civilOf t := by
  rw [Time.civilOf_eq, Time.civilOf_eq]
  have : (truncOff t).sec + (truncOff t).off = t.sec + t.off := by
    simp only [truncOff]; omega
  rw [this]

/-- Offsets whose text is read back and written again unchanged: zero, or at least one minute
    in magnitude (below a minute the verb prints `+00:00`, which reads as `Z`), and below 25 h
    once truncated to minutes (from `25:00` on the parser rejects the hour). -/
def OffsetOK (off : Int) : Prop := (off = 0 ∨ off.tdiv 60 ≠ 0) ∧ (off.tdiv 60).natAbs < 1500

/-- Every offset of whole minutes below 25 h is such an offset. -/
theorem offsetOK_of_minutes {off : Int} (h60 : off % 60 = 0) (hb : off.natAbs < 90000) : OffsetOK off := by
  have htd : off.tdiv 60 = off / 60 := Int.tdiv_eq_ediv_of_dvd (Int.dvd_of_emod_eq_zero h60)
  unfold OffsetOK
  rw [htd]
  constructor <;> omega

theorem formatZone_truncOff {off : Int} (h : off = 0 ∨ off.tdiv 60 ≠ 0) :
    Time.formatZone (60 * off.tdiv 60) = Time.formatZone off := by
  rw [Time.formatZone_eq, Time.formatZone_eq]
  have e : (60 * off.tdiv 60).tdiv 60 = off.tdiv 60 := Int.mul_tdiv_cancel_left _ (by decide)
  rcases h with rfl | h
  · simp
  · have h0 : off ≠ 0 := by rintro rfl; simp at h
    have h1 : 60 * off.tdiv 60 ≠ 0 := by omega
    rw [if_neg h0, if_neg h1, e]

theorem formatRFC3339_truncOff (t : GoTime) (h : t.off = 0 ∨ t.off.tdiv 60 ≠ 0) :
    Time.formatRFC3339 (truncOff t) = Time.formatRFC3339 t := by
  rw [Time.formatRFC3339_eq, Time.formatRFC3339_eq, civilOf_truncOff]
  show _ ++ Time.formatZone (60 * t.off.tdiv 60) = _
  rw [formatZone_truncOff h]

/-- parse ∘ format in general: the text of `t` denotes `truncOff t` — in particular `t` itself
    (nanoseconds dropped) when the offset is a whole number of minutes. -/
theorem parse_format_trunc (t : GoTime) (hy0 : 0 ≤ Time.year t) (hy1 : Time.year t ≤ 9999)
    (hoff : OffsetOK t.off) :
    Time.parseRFC3339 (Time.formatRFC3339 t) = some (truncOff t) := by
  have hy : Time.year (truncOff t) = Time.year t := by unfold Time.year; rw [civilOf_truncOff]
  have h := parse_format25 (truncOff t) (by rw [hy]; exact hy0) (by rw [hy]; exact hy1)
    (by show (60 * t.off.tdiv 60) % 60 = 0; omega)
    (by show (60 * t.off.tdiv 60).natAbs < 90000
        have := hoff.2; omega)
  rw [formatRFC3339_truncOff t hoff.1] at h
  exact h

/-- ToTime of the bytes of an RFC 3339 text: `string(bytes)` is tried first. -/
theorem toTime_bytes (ext : Ext) (s : Bytes) (t : GoTime) (h : Time.parseRFC3339 s = some t) :
    castNamed genTables ext "ToTime" (.bytes s) = .ok (.time t) := by
  simp [castNamed, callNamed, genTables, Gen.casters, findClause, typeOf, evalBranch, special,
    Gen.timeStringFormat, h]

/-- The written text of a time with year 0..9999 and an `OffsetOK` offset is re-read under
    datetime(string) / datetime([]byte) into a cell that is written as the same text
    (format ∘ parse ∘ format = format). -/
theorem datetime_reread (ext : Ext) (t : GoTime) (hy0 : 0 ≤ Time.year t) (hy1 : Time.year t ≤ 9999)
    (hoff : OffsetOK t.off) :
    (importCell ⟨genTables, ext⟩ .datetime .str (.str (Time.formatRFC3339 t)) =
       .ok (.cell (.str (Time.formatRFC3339 t)) .datetime .str, none) ∧
     exportVal ⟨genTables, ext⟩ (.cell (.str (Time.formatRFC3339 t)) .datetime .str) =
       .ok (.str (Time.formatRFC3339 t))) ∧
    (importCell ⟨genTables, ext⟩ .datetime .bytes (.str (Time.formatRFC3339 t)) =
       .ok (.cell (.bytes (Time.formatRFC3339 t)) .datetime .bytes, none) ∧
     exportVal ⟨genTables, ext⟩ (.cell (.bytes (Time.formatRFC3339 t)) .datetime .bytes) =
       .ok (.str (Time.formatRFC3339 t))) := by
  have hp := parse_format_trunc t hy0 hy1 hoff
  have hy : Time.year (truncOff t) = Time.year t := by unfold Time.year; rw [civilOf_truncOff]
  have hs := toString_time ext (truncOff t) (by rw [hy]; exact hy0) (by rw [hy]; exact hy1)
  rw [formatRFC3339_truncOff t hoff.1] at hs
  refine ⟨⟨?_, ?_⟩, ⟨?_, ?_⟩⟩
  · simp only [importCell, importByFormat, importFrom, importFail_ok _ _ (castTo_str_str ext _)]
  · simp only [exportVal, exportFail_ok _ _ (toTime_str ext _ _ hp), exportFail_ok _ _ hs]
  · simp only [importCell, importByFormat, importFrom, importFail_ok _ _ (castTo_bytes_str ext _)]
  · simp only [exportVal, exportFail_ok _ _ (toTime_bytes ext _ _ hp), exportFail_ok _ _ hs]

/-- **C05 for datetime(string) and datetime([]byte)**: for every raw text the column accepts,
    the emitted RFC 3339 text is delivered unchanged by the JSON reader, accepted under the same
    descriptor, and written again as the same text — provided the offset that reaches the
    `Z07:00` verb is one whose text is read back: an offset parsed from the raw text (whole
    minutes, at most 25 h by the parser) must not be exactly ±25 h (`±24:60`), and the offsets
    of the process zone, which are used when the raw text is an integer text, must be
    `OffsetOK` (zero or at least a minute, below 25 h; seconds are allowed).  Both conditions
    are needed: `datetime_str_offset_25h_counterexample`, `datetime_zone_seconds_counterexample`. -/
theorem datetime_fixed_point (ext : Ext) (raw : Dyn) (s : Bytes) (ty : Ty) (e : Dyn)
    (hwt : (ty = .str ∧ raw = .str s) ∨ (ty = .bytes ∧ raw = .bytes s))
    (hzone : ∀ v off, ext.zoneOffset v = some off → OffsetOK off)
    (hs : ∀ t, Time.parseRFC3339 s = some t → t.off.natAbs ≠ 90000)
    (h : exportVal ⟨genTables, ext⟩ (.cell raw .datetime ty) = .ok e) :
    ∃ t, e = .str (Time.formatRFC3339 t) ∧ TimeFrom ext s t ∧
      JsonQuote.sanitize (Time.formatRFC3339 t) = Time.formatRFC3339 t ∧
      FixedPoint ⟨genTables, ext⟩ .datetime ty e (.str (JsonQuote.sanitize (Time.formatRFC3339 t))) := by
  have hraw : raw = .str s ∨ raw = .bytes s := by
    rcases hwt with ⟨_, h⟩ | ⟨_, h⟩
    · exact .inl h
    · exact .inr h
  obtain ⟨t, rfl, hfrom, h0, h1⟩ := datetime_text_export ext raw s ty e hraw h
  have hoff : OffsetOK t.off := by
    rcases hfrom with hp | ⟨v, off, hz, rfl⟩
    · have := parseRFC3339_off hp
      have := hs t hp
      exact offsetOK_of_minutes (by omega) (by omega)
    · exact hzone v off hz
  obtain ⟨⟨a1, a2⟩, ⟨b1, b2⟩⟩ := datetime_reread ext t h0 h1 hoff
  refine ⟨t, rfl, hfrom, sanitize_formatRFC3339 t, ?_⟩
  rw [sanitize_formatRFC3339]
  rcases hwt with ⟨rfl, _⟩ | ⟨rfl, _⟩
  · exact ⟨_, a1, a2⟩
  · exact ⟨_, b1, b2⟩

/-- The customary reading (process zone at whole minutes below 24 h; no `±24:60` in the raw
    text) as a special case. -/
theorem datetime_fixed_point_whole_minutes (ext : Ext) (raw : Dyn) (s : Bytes) (ty : Ty) (e : Dyn)
    (hwt : (ty = .str ∧ raw = .str s) ∨ (ty = .bytes ∧ raw = .bytes s))
    (hzone : ∀ v off, ext.zoneOffset v = some off → off % 60 = 0 ∧ off.natAbs < 86400)
    (hs : ∀ t, Time.parseRFC3339 s = some t → t.off.natAbs < 86400)
    (h : exportVal ⟨genTables, ext⟩ (.cell raw .datetime ty) = .ok e) :
    ∃ d, e = .str d ∧ JsonQuote.sanitize d = d ∧
      FixedPoint ⟨genTables, ext⟩ .datetime ty e (.str (JsonQuote.sanitize d)) := by
  obtain ⟨t, he, _, hsan, hfp⟩ := datetime_fixed_point ext raw s ty e hwt
    (fun v off hz => offsetOK_of_minutes (hzone v off hz).1 (by have := (hzone v off hz).2; omega))
    (fun t ht => by have := hs t ht; omega) h
  exact ⟨_, he, hsan, hfp⟩

/-- `2000-01-01T00:00:00+24:60` — an offset `time.Parse` tolerates (hour ≤ 24, minute ≤ 60). -/
def text2460 : Bytes :=
  [0x32, 0x30, 0x30, 0x30, 0x2D, 0x30, 0x31, 0x2D, 0x30, 0x31, 0x54, 0x30, 0x30, 0x3A, 0x30, 0x30, 0x3A,
    0x30, 0x30, 0x2B, 0x32, 0x34, 0x3A, 0x36, 0x30]

/-- `2000-01-01T00:00:00+25:00` — what the `Z07:00` verb writes for that offset (90000 s). -/
def text2500 : Bytes :=
  [0x32, 0x30, 0x30, 0x30, 0x2D, 0x30, 0x31, 0x2D, 0x30, 0x31, 0x54, 0x30, 0x30, 0x3A, 0x30, 0x30, 0x3A,
    0x30, 0x30, 0x2B, 0x32, 0x35, 0x3A, 0x30, 0x30]

theorem parse_text2460 : Time.parseRFC3339 text2460 = some ⟨946594800, 0, 90000⟩ := by decide

theorem civilOf_2460 : Time.civilOf ⟨946594800, 0, 90000⟩ = ⟨2000, 1, 1, 0, 0, 0⟩ := by decide

theorem format_2460 : Time.formatRFC3339 ⟨946594800, 0, 90000⟩ = text2500 := by
  simp [Time.formatRFC3339, Time.formatDate, Time.formatZone, civilOf_2460, Time.appendInt, Time.pad,
    IntText.natDigits, Int.tdiv, text2500]
  decide

/-- **Finding: datetime(string) is NOT a fixed point for every well-typed raw value.**  The raw
    string `2000-01-01T00:00:00+24:60` is accepted (the RFC 3339 parser tolerates an offset of
    24 h 60 min), the column writes `2000-01-01T00:00:00+25:00`, that text is accepted when
    read back under datetime(string) (it stays a string) — and the second write FAILS: `+25:00`
    is not an offset the parser accepts, and the text is no integer either.  Whatever `ext` is
    (no stdlib answer is involved).  This is the only offset for which it happens
    (`datetime_fixed_point`). -/
theorem datetime_str_offset_25h_counterexample (ext : Ext) :
    exportVal ⟨genTables, ext⟩ (.cell (.str text2460) .datetime .str) = .ok (.str text2500) ∧
    JsonQuote.sanitize text2500 = text2500 ∧
    importCell ⟨genTables, ext⟩ .datetime .str (.str text2500) =
      .ok (.cell (.str text2500) .datetime .str, none) ∧
    exportVal ⟨genTables, ext⟩ (.cell (.str text2500) .datetime .str) = .err .unsupportedExport := by
  have hy : Time.year ⟨946594800, 0, 90000⟩ = 2000 := by simp [Time.year, civilOf_2460]
  have hs := toString_time ext ⟨946594800, 0, 90000⟩ (by rw [hy]; decide) (by rw [hy]; decide)
  rw [format_2460] at hs
  have hA : Time.parseRFC3339 text2500 = none := by decide
  have hB : IntText.parseInt0 text2500 64 = none := by decide
  have hfail : castNamed genTables ext "ToTime" (.str text2500) = .err .cast :=
    call_toTime_str_fail ext text2500 hA hB 24 (by decide)
  refine ⟨?_, ?_, ?_, ?_⟩
  · simp only [exportVal, exportFail_ok _ _ (toTime_str ext _ _ parse_text2460), exportFail_ok _ _ hs]
  · rw [← format_2460]; exact sanitize_formatRFC3339 _
  · simp only [importCell, importByFormat, importFrom, importFail_ok _ _ (castTo_str_str ext _)]
  · simp only [exportVal, hfail, exportFail]

/-- A process zone 30 seconds east of UTC. -/
def ext30 : Ext := { Ext.empty with zoneOffset := fun _ => some 30 }

/-- `1970-01-01T00:00:30+00:00` -/
def text0030p : Bytes :=
  [0x31, 0x39, 0x37, 0x30, 0x2D, 0x30, 0x31, 0x2D, 0x30, 0x31, 0x54, 0x30, 0x30, 0x3A, 0x30, 0x30, 0x3A,
    0x33, 0x30, 0x2B, 0x30, 0x30, 0x3A, 0x30, 0x30]

/-- `1970-01-01T00:00:30Z` -/
def text0030z : Bytes :=
  [0x31, 0x39, 0x37, 0x30, 0x2D, 0x30, 0x31, 0x2D, 0x30, 0x31, 0x54, 0x30, 0x30, 0x3A, 0x30, 0x30, 0x3A,
    0x33, 0x30, 0x5A]

theorem civilOf_0030 : Time.civilOf ⟨0, 0, 30⟩ = ⟨1970, 1, 1, 0, 0, 30⟩ := by decide

theorem civilOf_30z : Time.civilOf ⟨30, 0, 0⟩ = ⟨1970, 1, 1, 0, 0, 30⟩ := by decide

theorem format_0030 : Time.formatRFC3339 ⟨0, 0, 30⟩ = text0030p := by
  simp [Time.formatRFC3339, Time.formatDate, Time.formatZone, civilOf_0030, Time.appendInt, Time.pad,
    IntText.natDigits, Int.tdiv, text0030p]
  decide

theorem format_30z : Time.formatRFC3339 ⟨30, 0, 0⟩ = text0030z := by
  simp [Time.formatRFC3339, Time.formatDate, Time.formatZone, civilOf_30z, Time.appendInt, Time.pad,
    IntText.natDigits, text0030z]
  decide

theorem toTime_str_zero (ext : Ext) (off : Int) (hz : ext.zoneOffset 0 = some off) :
    castNamed genTables ext "ToTime" (.str [0x30]) = .ok (.time ⟨0, 0, off⟩) := by
  have hA : Time.parseRFC3339 [0x30] = none := by decide
  have hB : IntText.parseInt0 [0x30] 64 = some 0 := by decide
  simp [castNamed, callNamed, genTables, Gen.casters, findClause, typeOf, evalBranch, evalE,
    special, Gen.timeStringFormat, hA, runParse, hB, hz]

/-- **The hypothesis on the process zone is needed** (model level; no real zone has such an
    offset): in a zone 30 s east of UTC the raw string "0" (an integer text: Unix second 0)
    under datetime(string) is written `1970-01-01T00:00:30+00:00` — the verb prints the offset
    truncated to minutes, but `Z` only for offset 0 — which is accepted when read back and then
    written `1970-01-01T00:00:30Z`: other bytes. -/
theorem datetime_zone_seconds_counterexample :
    exportVal ⟨genTables, ext30⟩ (.cell (.str [0x30]) .datetime .str) = .ok (.str text0030p) ∧
    importCell ⟨genTables, ext30⟩ .datetime .str (.str text0030p) =
      .ok (.cell (.str text0030p) .datetime .str, none) ∧
    exportVal ⟨genTables, ext30⟩ (.cell (.str text0030p) .datetime .str) = .ok (.str text0030z) ∧
    text0030p ≠ text0030z := by
  have hy1 : Time.year ⟨0, 0, 30⟩ = 1970 := by simp [Time.year, civilOf_0030]
  have hy2 : Time.year ⟨30, 0, 0⟩ = 1970 := by simp [Time.year, civilOf_30z]
  have hs1 := toString_time ext30 ⟨0, 0, 30⟩ (by rw [hy1]; decide) (by rw [hy1]; decide)
  have hs2 := toString_time ext30 ⟨30, 0, 0⟩ (by rw [hy2]; decide) (by rw [hy2]; decide)
  rw [format_0030] at hs1
  rw [format_30z] at hs2
  have hp : Time.parseRFC3339 text0030p = some ⟨30, 0, 0⟩ := by decide
  refine ⟨?_, ?_, ?_, by decide⟩
  · simp only [exportVal, exportFail_ok _ _ (toTime_str_zero ext30 30 rfl), exportFail_ok _ _ hs1]
  · simp only [importCell, importByFormat, importFrom, importFail_ok _ _ (castTo_str_str ext30 _)]
  · simp only [exportVal, exportFail_ok _ _ (toTime_str ext30 _ _ hp), exportFail_ok _ _ hs2]

/-! Non-vacuity of `datetime_fixed_point`, beyond the hypotheses of `Time.C14_parse_format`: the
    raw string `2000-01-01T00:00:00+24:00` (offset 86400 s) is written as the same text, which
    is a fixed point; no stdlib answer is used. -/
def text2400 : Bytes :=
  [0x32, 0x30, 0x30, 0x30, 0x2D, 0x30, 0x31, 0x2D, 0x30, 0x31, 0x54, 0x30, 0x30, 0x3A, 0x30, 0x30, 0x3A,
    0x30, 0x30, 0x2B, 0x32, 0x34, 0x3A, 0x30, 0x30]

theorem parse_text2400 : Time.parseRFC3339 text2400 = some ⟨946598400, 0, 86400⟩ := by decide

theorem civilOf_2400 : Time.civilOf ⟨946598400, 0, 86400⟩ = ⟨2000, 1, 1, 0, 0, 0⟩ := by decide

theorem format_2400 : Time.formatRFC3339 ⟨946598400, 0, 86400⟩ = text2400 := by
  simp [Time.formatRFC3339, Time.formatDate, Time.formatZone, civilOf_2400, Time.appendInt, Time.pad,
    IntText.natDigits, Int.tdiv, text2400]
  decide

example : exportVal ⟨genTables, Ext.empty⟩ (.cell (.str text2400) .datetime .str) = .ok (.str text2400) ∧
    FixedPoint ⟨genTables, Ext.empty⟩ .datetime .str (.str text2400) (.str (JsonQuote.sanitize text2400)) := by
  have hy : Time.year ⟨946598400, 0, 86400⟩ = 2000 := by simp [Time.year, civilOf_2400]
  have hs := toString_time Ext.empty ⟨946598400, 0, 86400⟩ (by rw [hy]; decide) (by rw [hy]; decide)
  rw [format_2400] at hs
  have h : exportVal ⟨genTables, Ext.empty⟩ (.cell (.str text2400) .datetime .str) = .ok (.str text2400) := by
    simp only [exportVal, exportFail_ok _ _ (toTime_str Ext.empty _ _ parse_text2400), exportFail_ok _ _ hs]
  refine ⟨h, ?_⟩
  obtain ⟨t, he, _, _, hfp⟩ := datetime_fixed_point Ext.empty _ text2400 .str _ (.inl ⟨rfl, rfl⟩)
    (fun v off hz => by cases hz)
    (fun t ht => by rw [parse_text2400] at ht; cases ht; decide) h
  rw [← Dyn.str.inj he] at hfp
  exact hfp

example : exportVal ⟨genTables, Ext.empty⟩ (.cell (.bytes text2400) .datetime .bytes) = .ok (.str text2400) ∧
    importCell ⟨genTables, Ext.empty⟩ .datetime .bytes (.str text2400) =
      .ok (.cell (.bytes text2400) .datetime .bytes, none) := by
  have hy : Time.year ⟨946598400, 0, 86400⟩ = 2000 := by simp [Time.year, civilOf_2400]
  obtain ⟨_, ⟨b1, b2⟩⟩ := datetime_reread Ext.empty ⟨946598400, 0, 86400⟩ (by rw [hy]; decide)
    (by rw [hy]; decide) ⟨by decide, by decide⟩
  rw [format_2400] at b1 b2
  exact ⟨b2, b1⟩


/-- A process zone 9 min 21 s east of UTC (Paris local mean time, which tzdata carries). -/
def ext561 : Ext := { Ext.empty with zoneOffset := fun _ => some 561 }

/-! Non-vacuity of the zone hypothesis with seconds: in that zone the raw string "0" is written
    as the text of 1970-01-01T00:09:21 at `+00:09`, which is a fixed point. -/
example : ∃ d, exportVal ⟨genTables, ext561⟩ (.cell (.str [0x30]) .datetime .str) = .ok (.str d) ∧
    FixedPoint ⟨genTables, ext561⟩ .datetime .str (.str d) (.str (JsonQuote.sanitize d)) := by
  have hc : Time.civilOf ⟨0, 0, 561⟩ = ⟨1970, 1, 1, 0, 9, 21⟩ := by decide
  have hy : Time.year ⟨0, 0, 561⟩ = 1970 := by simp [Time.year, hc]
  have hs := toString_time ext561 ⟨0, 0, 561⟩ (by rw [hy]; decide) (by rw [hy]; decide)
  have h : exportVal ⟨genTables, ext561⟩ (.cell (.str [0x30]) .datetime .str) =
      .ok (.str (Time.formatRFC3339 ⟨0, 0, 561⟩)) := by
    simp only [exportVal, exportFail_ok _ _ (toTime_str_zero ext561 561 rfl), exportFail_ok _ _ hs]
  refine ⟨_, h, ?_⟩
  obtain ⟨t, he, _, _, hfp⟩ := datetime_fixed_point ext561 _ [0x30] .str _ (.inl ⟨rfl, rfl⟩)
    (fun v off hz => by
      simp only [ext561, Option.some.injEq] at hz
      subst hz
      exact ⟨by decide, by decide⟩)
    (fun t ht => by
      have : Time.parseRFC3339 [0x30] = none := by decide
      rw [this] at ht; cases ht) h
  rw [← Dyn.str.inj he] at hfp
  exact hfp

/-! ### 6. timestamp(json.Number), timestamp(float64), timestamp(float32)

ToTimestamp has no case for these types: its default clause is ToInt64, which parses the
literal as an integer, resp. truncates the float toward zero (rejecting NaN, ±Inf and values
outside int64).  The emitted int64 `n` comes back as the literal `formatInt n`, which is cast
to the raw type and written again as `n`: for json.Number the literal is kept and parsed
again; for floats `strconv.ParseFloat(formatInt n)` (a parameter of the model) must answer the
float whose value is `n` — that float exists, since `n` is the truncation of a float of the
same precision; it is the nearest one, what ParseFloat returns, whenever |n| ≤ 2^53 (2^24). -/

/-- What ParseInt(s, 0, 64) returns fits int64. -/
theorem parseInt0_range64 {s : Bytes} {n : Int} (h : IntText.parseInt0 s 64 = some n) :
    IntTy.i64.inRange n := by
  have goal : -(2 ^ 63 : Int) ≤ n ∧ n < 2 ^ 63 → IntTy.i64.inRange n := by
    intro hh
    simp [IntTy.inRange, IntTy.min, IntTy.max, IntTy.signed, IntTy.bits]; omega
  apply goal
  cases s with
  | nil => simp [IntText.parseInt0] at h
  | cons c rest =>
    by_cases h1 : c = 0x2D
    · subst h1
      rw [IntText.parseInt0_minus] at h
      cases hu : IntText.parseInt0.parseUintAny rest with
      | none => simp [hu] at h
      | some un =>
        simp [hu] at h
        obtain ⟨hle, rfl⟩ := h
        omega
    · by_cases h2 : c = 0x2B
      · subst h2
        unfold IntText.parseInt0 at h
        simp at h
        cases hu : IntText.parseInt0.parseUintAny rest with
        | none => simp [hu] at h
        | some un =>
          simp [hu] at h
          obtain ⟨hlt, rfl⟩ := h
          omega
      · rw [IntText.parseInt0_nosign rest 64 h2 h1] at h
        cases hu : IntText.parseInt0.parseUintAny (c :: rest) with
        | none => simp [hu] at h
        | some un =>
          simp [hu] at h
          obtain ⟨hle, rfl⟩ := h
          omega

/-- ToTimestamp of a json.Number: ParseInt(literal, 0, 64) — base prefixes, underscores and a
    leading `+` included. -/
theorem toTimestamp_num (ext : Ext) (l : Bytes) :
    castNamed genTables ext "ToTimestamp" (.num l) =
      match IntText.parseInt0 l 64 with
      | some n => .ok (.int .i64 n)
      | none => .err .cast := by
  cases h : IntText.parseInt0 l 64 <;>
  simp [castNamed, callNamed, genTables, Gen.casters, findClause, typeOf, evalBranch, evalE, runParse, h,
    failWith, Gen.sentinels, wrapsRoot]


/-- ToInt64 of a float (any fuel ≥ 2): NaN / ±Inf are rejected; a finite value is converted to
    its truncation (which fits) or rejected. -/
theorem call_toInt64_float (ext : Ext) (src : Dyn) (x : FVal) (b : Nat)
    (hsrc : (src = .f64 b ∧ x = Float.toFVal Float.f64 b) ∨ (src = .f32 b ∧ x = Float.toFVal Float.f32 b))
    (k : Nat) :
    floatOutcomeSpec .i64 x (callNamed genTables ext (k + 2) "ToInt64" src) := by
  have hc : genTables.casters.find? (fun c => c.name == "ToInt64") =
      some (casterOf genTables (casterOfInt .i64)) := caster_present .i64
  have hspec : floatBranchSpec genTables .i64 (findClause (casterOf genTables (casterOfInt .i64)) (typeOf src)) := by
    rcases hsrc with ⟨rfl, _⟩ | ⟨rfl, _⟩
    · exact float64_branches_ok .i64
    · exact float32_branches_ok .i64
  unfold floatOutcomeSpec
  have hwf : x.WF := by
    rcases hsrc with ⟨_, rfl⟩ | ⟨_, rfl⟩ <;> exact toFVal_WF _ _
  unfold callNamed
  simp only [hc]
  generalize findClause (casterOf genTables (casterOfInt .i64)) (typeOf src) = br at hspec
  unfold floatBranchSpec at hspec
  split at hspec
  · obtain ⟨ht, hs, hg, hnan, hinf, hrej, hacc⟩ := hspec
    subst ht
    rename_i br g s
    simp only [evalBranch, evalG_float genTables ext src x g hsrc hg, failWith, hs]
    cases x with
    | nan => simp [hnan]
    | inf n => simp [hinf n]
    | fin tr frac neg =>
      cases hgv : evalGF g (.fin tr frac neg) with
      | true =>
        right
        refine ⟨by simp, ?_⟩
        intro hf hin
        subst hf
        have := hacc tr neg hwf hin
        rw [this] at hgv
        cases hgv
      | false =>
        have hin := hrej tr frac neg hwf hgv
        left
        refine ⟨?_, hin⟩
        rcases hsrc with ⟨rfl, hx⟩ | ⟨rfl, hx⟩ <;>
          simp [evalE, ← hx, floatToInt_exact _ tr frac neg hin]
  · exact absurd hspec id

theorem find_toTimestamp :
    genTables.casters.find? (fun c => c.name == "ToTimestamp") = some (casterOf genTables "ToTimestamp") := by
  simp [casterOf, genTables, Gen.casters]

/-- ToTimestamp has no case for floats and json.Number: its default clause is ToInt64. -/
theorem call_toTimestamp_dflt (ext : Ext) (k : Nat) (v : Dyn)
    (hv : typeOf v = .f64 ∨ typeOf v = .f32 ∨ typeOf v = .num) :
    callNamed genTables ext (k + 2) "ToTimestamp" v = callNamed genTables ext k "ToInt64" v := by
  have hcl : findClause (casterOf genTables "ToTimestamp") (typeOf v) = .tail "ToInt64" .val := by
    rcases hv with h | h | h <;> rw [h] <;> simp [casterOf, genTables, Gen.casters, findClause]
  simp only [callNamed, find_toTimestamp, hcl, evalBranch, evalE]


theorem toTimestamp_float_spec (ext : Ext) (src : Dyn) (x : FVal) (b : Nat)
    (hsrc : (src = .f64 b ∧ x = Float.toFVal Float.f64 b) ∨ (src = .f32 b ∧ x = Float.toFVal Float.f32 b)) :
    floatOutcomeSpec .i64 x (castNamed genTables ext "ToTimestamp" src) := by
  have hv : typeOf src = .f64 ∨ typeOf src = .f32 ∨ typeOf src = .num := by
    rcases hsrc with ⟨rfl, _⟩ | ⟨rfl, _⟩
    · exact .inl rfl
    · exact .inr (.inl rfl)
  have e : castNamed genTables ext "ToTimestamp" src = callNamed genTables ext (20 + 2) "ToInt64" src :=
    call_toTimestamp_dflt ext 22 src hv
  rw [e]
  exact call_toInt64_float ext src x b hsrc 20

/-- What a timestamp column emits for a float: its truncation toward zero, which fits int64
    (NaN, ±Inf and values outside int64 are rejected). -/
theorem timestamp_float_export (ext : Ext) (src : Dyn) (x : FVal) (b : Nat) (ty : Ty) (e : Dyn)
    (hsrc : (src = .f64 b ∧ x = Float.toFVal Float.f64 b) ∨ (src = .f32 b ∧ x = Float.toFVal Float.f32 b))
    (h : exportVal ⟨genTables, ext⟩ (.cell src .timestamp ty) = .ok e) :
    ∃ n frac neg, x = .fin n frac neg ∧ IntTy.i64.inRange n ∧ e = .int .i64 n := by
  have hc : castNamed genTables ext "ToTimestamp" src = .ok e := by
    rcases hsrc with ⟨rfl, _⟩ | ⟨rfl, _⟩ <;> simp only [exportVal] at h <;> exact exportFail_inv h
  have hs := toTimestamp_float_spec ext src x b hsrc
  rw [hc] at hs
  unfold floatOutcomeSpec at hs
  cases x with
  | nan => cases hs
  | inf n => cases hs
  | fin tr frac neg =>
    rcases hs with ⟨he, hin⟩ | ⟨he, _⟩
    · injection he with he
      exact ⟨tr, frac, neg, rfl, hin, he⟩
    · cases he

/-- ToTimestamp of a float whose value is exactly the integer `n` (which fits int64). -/
theorem toTimestamp_float_exact (ext : Ext) (src : Dyn) (b : Nat) (n : Int) (neg : Bool)
    (hsrc : (src = .f64 b ∧ Float.toFVal Float.f64 b = .fin n false neg) ∨
      (src = .f32 b ∧ Float.toFVal Float.f32 b = .fin n false neg))
    (hr : IntTy.i64.inRange n) :
    castNamed genTables ext "ToTimestamp" src = .ok (.int .i64 n) := by
  have hs := toTimestamp_float_spec ext src (.fin n false neg) b
    (by rcases hsrc with ⟨h1, h2⟩ | ⟨h1, h2⟩
        · exact .inl ⟨h1, h2.symm⟩
        · exact .inr ⟨h1, h2.symm⟩)
  unfold floatOutcomeSpec at hs
  rcases hs with ⟨he, _⟩ | ⟨_, hn⟩
  · exact he
  · exact absurd hr (hn rfl)

theorem castTo_f64_num (ext : Ext) (s : Bytes) (y : Nat) (hp : ext.parseFloat s 64 = some (some y)) :
    castTo genTables ext .f64 (.num s) = .ok (.f64 y) := by
  simp [castTo, callNamed, genTables, Gen.casters, Gen.dispatchTo, findClause, typeOf, evalBranch, evalE,
    runParse, hp]

theorem castTo_f32_num (ext : Ext) (s : Bytes) (r : Nat) (hp : ext.parseFloat s 32 = some (some r)) :
    castTo genTables ext .f32 (.num s) = .ok (.f32 (Float.f64to32 r)) := by
  simp [castTo, callNamed, genTables, Gen.casters, Gen.dispatchTo, findClause, typeOf, evalBranch, evalE,
    runParse, hp]

/-- timestamp(float64), EVERY bit pattern the column accepts: the emitted int64 `n` is the
    truncation of the raw float; whenever strconv.ParseFloat answers, for the text of `n`, a
    float64 `y` whose value is exactly `n`, the literal is read back as `y` and `y` is written
    as `n` again. -/
theorem timestamp_f64 (ext : Ext) (x : Nat) (e : Dyn)
    (h : exportVal ⟨genTables, ext⟩ (.cell (.f64 x) .timestamp .f64) = .ok e) :
    ∃ n, (∃ frac neg, Float.toFVal Float.f64 x = .fin n frac neg) ∧ IntTy.i64.inRange n ∧ e = .int .i64 n ∧
      ∀ y neg, ext.parseFloat (IntText.formatInt n) 64 = some (some y) →
        Float.toFVal Float.f64 y = .fin n false neg →
        importCell ⟨genTables, ext⟩ .timestamp .f64 (.num (IntText.formatInt n)) =
          .ok (.cell (.f64 y) .timestamp .f64, none) ∧
        exportVal ⟨genTables, ext⟩ (.cell (.f64 y) .timestamp .f64) = .ok (.int .i64 n) := by
  obtain ⟨n, frac, neg, hx, hr, rfl⟩ := timestamp_float_export ext (.f64 x) _ x .f64 e (.inl ⟨rfl, rfl⟩) h
  refine ⟨n, ⟨frac, neg, hx⟩, hr, rfl, ?_⟩
  intro y negy hp hy
  constructor
  · simp only [importCell, importByFormat, importFrom, importFail_ok _ _ (castTo_f64_num ext _ y hp)]
  · simp only [exportVal]
    exact exportFail_ok _ _ (toTimestamp_float_exact ext (.f64 y) y n negy (.inl ⟨rfl, hy⟩) hr)

/-- timestamp(float32): the same, with ParseFloat at bit size 32 and the narrowing to float32. -/
theorem timestamp_f32 (ext : Ext) (x : Nat) (e : Dyn)
    (h : exportVal ⟨genTables, ext⟩ (.cell (.f32 x) .timestamp .f32) = .ok e) :
    ∃ n, (∃ frac neg, Float.toFVal Float.f32 x = .fin n frac neg) ∧ IntTy.i64.inRange n ∧ e = .int .i64 n ∧
      ∀ r neg, ext.parseFloat (IntText.formatInt n) 32 = some (some r) →
        Float.toFVal Float.f32 (Float.f64to32 r) = .fin n false neg →
        importCell ⟨genTables, ext⟩ .timestamp .f32 (.num (IntText.formatInt n)) =
          .ok (.cell (.f32 (Float.f64to32 r)) .timestamp .f32, none) ∧
        exportVal ⟨genTables, ext⟩ (.cell (.f32 (Float.f64to32 r)) .timestamp .f32) = .ok (.int .i64 n) := by
  obtain ⟨n, frac, neg, hx, hr, rfl⟩ := timestamp_float_export ext (.f32 x) _ x .f32 e (.inr ⟨rfl, rfl⟩) h
  refine ⟨n, ⟨frac, neg, hx⟩, hr, rfl, ?_⟩
  intro r negy hp hy
  constructor
  · simp only [importCell, importByFormat, importFrom, importFail_ok _ _ (castTo_f32_num ext _ r hp)]
  · simp only [exportVal]
    exact exportFail_ok _ _ (toTimestamp_float_exact ext (.f32 _) _ n negy (.inr ⟨rfl, hy⟩) hr)

/-- timestamp(json.Number), EVERY literal the column accepts (any integer text of ParseInt base
    0 that fits int64): the emitted int64 `n` is read back as the json.Number with the canonical
    decimal literal of `n`, which is written as `n` again.  No hypothesis on `ext`. -/
theorem timestamp_num (ext : Ext) (l : Bytes) (e : Dyn)
    (h : exportVal ⟨genTables, ext⟩ (.cell (.num l) .timestamp .num) = .ok e) :
    ∃ n, IntText.parseInt0 l 64 = some n ∧ IntTy.i64.inRange n ∧ e = .int .i64 n ∧
      importCell ⟨genTables, ext⟩ .timestamp .num (.num (IntText.formatInt n)) =
        .ok (.cell (.num (IntText.formatInt n)) .timestamp .num, none) ∧
      exportVal ⟨genTables, ext⟩ (.cell (.num (IntText.formatInt n)) .timestamp .num) = .ok (.int .i64 n) := by
  simp only [exportVal] at h
  have hc := exportFail_inv h
  rw [toTimestamp_num] at hc
  cases hp : IntText.parseInt0 l 64 with
  | none => rw [hp] at hc; cases hc
  | some n =>
    rw [hp] at hc
    injection hc with hc
    subst hc
    have hr := parseInt0_range64 hp
    refine ⟨n, rfl, hr, rfl, ?_, ?_⟩
    · simp only [importCell, importByFormat, importFrom, importFail_ok _ _ (castTo_num_num ext _)]
    · have hre : IntText.parseInt0 (IntText.formatInt n) 64 = some n := by
        rw [IntText.parseInt0_formatInt]
        have : -(2 ^ 63 : Int) ≤ n ∧ n < 2 ^ 63 := by
          simp [IntTy.inRange, IntTy.min, IntTy.max, IntTy.signed, IntTy.bits] at hr; omega
        simpa using this
      simp only [exportVal, toTimestamp_num, hre, exportFail]



/-- C05 for the three timestamp pairings. -/
theorem timestamp_num_fixed_point (ext : Ext) (l : Bytes) (e : Dyn)
    (h : exportVal ⟨genTables, ext⟩ (.cell (.num l) .timestamp .num) = .ok e) :
    ∃ n, e = .int .i64 n ∧ FixedPoint ⟨genTables, ext⟩ .timestamp .num e (.num (IntText.formatInt n)) := by
  obtain ⟨n, _, _, rfl, a1, a2⟩ := timestamp_num ext l e h
  exact ⟨n, rfl, _, a1, a2⟩

theorem timestamp_f64_fixed_point (ext : Ext) (x : Nat) (e : Dyn)
    (h : exportVal ⟨genTables, ext⟩ (.cell (.f64 x) .timestamp .f64) = .ok e) :
    ∃ n, e = .int .i64 n ∧
      ∀ y neg, ext.parseFloat (IntText.formatInt n) 64 = some (some y) →
        Float.toFVal Float.f64 y = .fin n false neg →
        FixedPoint ⟨genTables, ext⟩ .timestamp .f64 e (.num (IntText.formatInt n)) := by
  obtain ⟨n, _, _, rfl, a⟩ := timestamp_f64 ext x e h
  exact ⟨n, rfl, fun y neg hp hy => ⟨_, (a y neg hp hy).1, (a y neg hp hy).2⟩⟩

theorem timestamp_f32_fixed_point (ext : Ext) (x : Nat) (e : Dyn)
    (h : exportVal ⟨genTables, ext⟩ (.cell (.f32 x) .timestamp .f32) = .ok e) :
    ∃ n, e = .int .i64 n ∧
      ∀ r neg, ext.parseFloat (IntText.formatInt n) 32 = some (some r) →
        Float.toFVal Float.f32 (Float.f64to32 r) = .fin n false neg →
        FixedPoint ⟨genTables, ext⟩ .timestamp .f32 e (.num (IntText.formatInt n)) := by
  obtain ⟨n, _, _, rfl, a⟩ := timestamp_f32 ext x e h
  exact ⟨n, rfl, fun r neg hp hy => ⟨_, (a r neg hp hy).1, (a r neg hp hy).2⟩⟩

/-! Go's integer → float conversion (`Float.ofInt`, round to nearest even) is exact up to 2^53
    (2^24) in magnitude: the float decodes to the integer itself.  This is where the bounds of
    the float pairings come from: below them "the float whose value is `n`" is `float64(n)`
    (`float32(n)`), which is what a correct ParseFloat answers for the decimal text of `n`. -/

theorem pow_split {L p : Nat} (h : L ≤ p) : 2 ^ L * 2 ^ (p - L) = 2 ^ p := by
  rw [← Nat.pow_add]; congr 1; omega

theorem encode_f64_small (neg : Bool) (m : Nat) (hm : m ≠ 0) (hlt : m < 2 ^ 53) :
    Float.encode Float.f64 neg m 0 =
      (if neg then 9223372036854775808 else 0) + (Nat.log2 m + 1023) * 4503599627370496 +
        (m * 2 ^ (52 - Nat.log2 m) - 4503599627370496) := by
  have hL : Nat.log2 m < 53 := (Nat.log2_lt hm).2 hlt
  have h1 : 2 ^ Nat.log2 m ≤ m := Nat.log2_self_le hm
  have hM : 2 ^ 52 ≤ m * 2 ^ (52 - Nat.log2 m) := by
    rw [← pow_split (show Nat.log2 m ≤ 52 by omega)]
    exact Nat.mul_le_mul_right _ h1
  have hq : max ((Nat.log2 m : Int) - 52) (-1074) = (Nat.log2 m : Int) - 52 := by omega
  have hc : (Nat.log2 m : Int) - 52 ≤ 0 := by omega
  have ht : (-((Nat.log2 m : Int) - 52)).toNat = 52 - Nat.log2 m := by omega
  have hM' : ¬ (m * 2 ^ (52 - Nat.log2 m) < 4503599627370496) := by
    simpa using hM
  have hex : ¬ ((2047 : Int) ≤ (Nat.log2 m : Int) + 1023) := by omega
  have hex2 : ((Nat.log2 m : Int) + 1023).toNat = Nat.log2 m + 1023 := by omega
  unfold Float.encode
  simp [Float.f64, Float.Fmt.bias, hm, hq, hc, ht, hM', hex, hex2]

theorem decode_f64_normal (neg : Bool) (E M : Nat) (hE0 : 0 < E) (hE : E < 2047)
    (hM0 : 4503599627370496 ≤ M) (hM : M < 9007199254740992) :
    Float.decode Float.f64 ((if neg then 9223372036854775808 else 0) + E * 4503599627370496 + (M - 4503599627370496)) =
      .fin neg M ((E : Int) - 1023 - 52) := by
  unfold Float.decode
  simp only [Float.f64, Float.Fmt.bias, Nat.reducePow, Nat.reduceAdd, Nat.reduceSub]
  generalize hbits : (if neg then 9223372036854775808 else 0) + E * 4503599627370496 + (M - 4503599627370496) = bits
  have hb : bits / 9223372036854775808 % 2 = (if neg then 1 else 0) := by
    subst hbits; cases neg <;> simp <;> omega
  have he : bits / 4503599627370496 % 2048 = E := by
    subst hbits; cases neg <;> simp <;> omega
  have hf : bits % 4503599627370496 = M - 4503599627370496 := by
    subst hbits; cases neg <;> simp <;> omega
  have e1 : (E == 2047) = false := by simp; omega
  have e2 : (E == 0) = false := by simp; omega
  simp only [hb, he, hf, e1, e2]
  cases neg <;> simp <;> omega

/-- Go's `float64(n)` is exact below 2^53 in magnitude: the float decodes to the integer `n`. -/
theorem toFVal_ofInt_f64 (n : Int) (h : n.natAbs < 2 ^ 53) :
    Float.toFVal Float.f64 (Float.ofInt Float.f64 n) = .fin n false (decide (n < 0)) := by
  by_cases h0 : n = 0
  · subst h0
    have e : Float.ofInt Float.f64 0 = 0 := by decide
    have hd : Float.decode Float.f64 0 = .fin false 0 (-1074) := by decide
    rw [e]
    unfold Float.toFVal
    rw [hd]
    have hneg : ¬ ((-1074 : Int) ≥ 0) := by decide
    simp only [hneg, if_false, Nat.zero_div, Nat.zero_mod]
    decide
  · have hm : n.natAbs ≠ 0 := by omega
    have hL : Nat.log2 n.natAbs < 53 := (Nat.log2_lt hm).2 h
    have h1 : 2 ^ Nat.log2 n.natAbs ≤ n.natAbs := Nat.log2_self_le hm
    have h2 : n.natAbs < 2 ^ (Nat.log2 n.natAbs + 1) := Nat.lt_log2_self
    have hM0 : 4503599627370496 ≤ n.natAbs * 2 ^ (52 - Nat.log2 n.natAbs) := by
      have := Nat.mul_le_mul_right (2 ^ (52 - Nat.log2 n.natAbs)) h1
      rw [pow_split (show Nat.log2 n.natAbs ≤ 52 by omega)] at this
      simpa using this
    have hM1 : n.natAbs * 2 ^ (52 - Nat.log2 n.natAbs) < 9007199254740992 := by
      have hp : 0 < 2 ^ (52 - Nat.log2 n.natAbs) := Nat.two_pow_pos _
      have := Nat.mul_lt_mul_of_pos_right h2 hp
      have e : 2 ^ (Nat.log2 n.natAbs + 1) * 2 ^ (52 - Nat.log2 n.natAbs) = 2 ^ 53 := by
        rw [← Nat.pow_add]; congr 1; omega
      rw [e] at this
      simpa using this
    unfold Float.ofInt Float.toFVal
    rw [encode_f64_small _ _ hm h, decode_f64_normal _ _ _ (by omega) (by omega) hM0 hM1]
    simp only
    generalize hk : Nat.log2 n.natAbs = L at *
    by_cases hge : ((L + 1023 : Nat) : Int) - 1023 - 52 ≥ 0
    · have hL52 : L = 52 := by omega
      subst hL52
      simp only [hge, if_true]
      by_cases hneg : n < 0 <;> simp [hneg] <;> omega
    · simp only [hge, if_false]
      have hs : (-(((L + 1023 : Nat) : Int) - 1023 - 52)).toNat = 52 - L := by omega
      rw [hs, Nat.mul_div_cancel _ (Nat.two_pow_pos _), Nat.mul_mod_left]
      by_cases hneg : n < 0 <;> simp [hneg] <;> omega

theorem encode_f32_small (neg : Bool) (m : Nat) (hm : m ≠ 0) (hlt : m < 2 ^ 24) :
    Float.encode Float.f32 neg m 0 =
      (if neg then 2147483648 else 0) + (Nat.log2 m + 127) * 8388608 +
        (m * 2 ^ (23 - Nat.log2 m) - 8388608) := by
  have hL : Nat.log2 m < 24 := (Nat.log2_lt hm).2 hlt
  have h1 : 2 ^ Nat.log2 m ≤ m := Nat.log2_self_le hm
  have hM : 2 ^ 23 ≤ m * 2 ^ (23 - Nat.log2 m) := by
    rw [← pow_split (show Nat.log2 m ≤ 23 by omega)]
    exact Nat.mul_le_mul_right _ h1
  have hq : max ((Nat.log2 m : Int) - 23) (-149) = (Nat.log2 m : Int) - 23 := by omega
  have hc : (Nat.log2 m : Int) - 23 ≤ 0 := by omega
  have ht : (-((Nat.log2 m : Int) - 23)).toNat = 23 - Nat.log2 m := by omega
  have hM' : ¬ (m * 2 ^ (23 - Nat.log2 m) < 8388608) := by
    simpa using hM
  have hex : ¬ ((255 : Int) ≤ (Nat.log2 m : Int) + 127) := by omega
  have hex2 : ((Nat.log2 m : Int) + 127).toNat = Nat.log2 m + 127 := by omega
  unfold Float.encode
  simp [Float.f32, Float.Fmt.bias, hm, hq, hc, ht, hM', hex, hex2]

theorem decode_f32_normal (neg : Bool) (E M : Nat) (hE0 : 0 < E) (hE : E < 255)
    (hM0 : 8388608 ≤ M) (hM : M < 16777216) :
    Float.decode Float.f32 ((if neg then 2147483648 else 0) + E * 8388608 + (M - 8388608)) =
      .fin neg M ((E : Int) - 127 - 23) := by
  unfold Float.decode
  simp only [Float.f32, Float.Fmt.bias, Nat.reducePow, Nat.reduceAdd, Nat.reduceSub]
  generalize hbits : (if neg then 2147483648 else 0) + E * 8388608 + (M - 8388608) = bits
  have hb : bits / 2147483648 % 2 = (if neg then 1 else 0) := by
    subst hbits; cases neg <;> simp <;> omega
  have he : bits / 8388608 % 256 = E := by
    subst hbits; cases neg <;> simp <;> omega
  have hf : bits % 8388608 = M - 8388608 := by
    subst hbits; cases neg <;> simp <;> omega
  have e1 : (E == 255) = false := by simp; omega
  have e2 : (E == 0) = false := by simp; omega
  simp only [hb, he, hf, e1, e2]
  cases neg <;> simp <;> omega

/-- Go's `float32(n)` is exact below 2^24 in magnitude. -/
theorem toFVal_ofInt_f32 (n : Int) (h : n.natAbs < 2 ^ 24) :
    Float.toFVal Float.f32 (Float.ofInt Float.f32 n) = .fin n false (decide (n < 0)) := by
  by_cases h0 : n = 0
  · subst h0
    have e : Float.ofInt Float.f32 0 = 0 := by decide
    have hd : Float.decode Float.f32 0 = .fin false 0 (-149) := by decide
    rw [e]
    unfold Float.toFVal
    rw [hd]
    have hneg : ¬ ((-149 : Int) ≥ 0) := by decide
    simp only [hneg, if_false, Nat.zero_div, Nat.zero_mod]
    decide
  · have hm : n.natAbs ≠ 0 := by omega
    have hL : Nat.log2 n.natAbs < 24 := (Nat.log2_lt hm).2 h
    have h1 : 2 ^ Nat.log2 n.natAbs ≤ n.natAbs := Nat.log2_self_le hm
    have h2 : n.natAbs < 2 ^ (Nat.log2 n.natAbs + 1) := Nat.lt_log2_self
    have hM0 : 8388608 ≤ n.natAbs * 2 ^ (23 - Nat.log2 n.natAbs) := by
      have := Nat.mul_le_mul_right (2 ^ (23 - Nat.log2 n.natAbs)) h1
      rw [pow_split (show Nat.log2 n.natAbs ≤ 23 by omega)] at this
      simpa using this
    have hM1 : n.natAbs * 2 ^ (23 - Nat.log2 n.natAbs) < 16777216 := by
      have hp : 0 < 2 ^ (23 - Nat.log2 n.natAbs) := Nat.two_pow_pos _
      have := Nat.mul_lt_mul_of_pos_right h2 hp
      have e : 2 ^ (Nat.log2 n.natAbs + 1) * 2 ^ (23 - Nat.log2 n.natAbs) = 2 ^ 24 := by
        rw [← Nat.pow_add]; congr 1; omega
      rw [e] at this
      simpa using this
    unfold Float.ofInt Float.toFVal
    rw [encode_f32_small _ _ hm h, decode_f32_normal _ _ _ (by omega) (by omega) hM0 hM1]
    simp only
    generalize hk : Nat.log2 n.natAbs = L at *
    by_cases hge : ((L + 127 : Nat) : Int) - 127 - 23 ≥ 0
    · have hL23 : L = 23 := by omega
      subst hL23
      simp only [hge, if_true]
      by_cases hneg : n < 0 <;> simp [hneg] <;> omega
    · simp only [hge, if_false]
      have hs : (-(((L + 127 : Nat) : Int) - 127 - 23)).toNat = 23 - L := by omega
      rw [hs, Nat.mul_div_cancel _ (Nat.two_pow_pos _), Nat.mul_mod_left]
      by_cases hneg : n < 0 <;> simp [hneg] <;> omega

theorem toFVal_ofInt_f64_le (n : Int) (h : n.natAbs ≤ 2 ^ 53) :
    Float.toFVal Float.f64 (Float.ofInt Float.f64 n) = .fin n false (decide (n < 0)) := by
  by_cases hlt : n.natAbs < 2 ^ 53
  · exact toFVal_ofInt_f64 n hlt
  · have : n = 9007199254740992 ∨ n = -9007199254740992 := by omega
    rcases this with rfl | rfl <;> decide

theorem toFVal_ofInt_f32_le (n : Int) (h : n.natAbs ≤ 2 ^ 24) :
    Float.toFVal Float.f32 (Float.ofInt Float.f32 n) = .fin n false (decide (n < 0)) := by
  by_cases hlt : n.natAbs < 2 ^ 24
  · exact toFVal_ofInt_f32 n hlt
  · have : n = 16777216 ∨ n = -16777216 := by omega
    rcases this with rfl | rfl <;> decide

/-- timestamp(float64) with the stdlib answer as a hypothesis in the style of
    `Pairings.text_f64`: for an emitted `n` with |n| ≤ 2^53, if ParseFloat(text of n, 64) is
    `float64(n)`, the emitted number is a fixed point. -/
theorem timestamp_f64_exact (ext : Ext) (x : Nat) (e : Dyn)
    (h : exportVal ⟨genTables, ext⟩ (.cell (.f64 x) .timestamp .f64) = .ok e) :
    ∃ n, e = .int .i64 n ∧
      (n.natAbs ≤ 2 ^ 53 →
        ext.parseFloat (IntText.formatInt n) 64 = some (some (Float.ofInt Float.f64 n)) →
        FixedPoint ⟨genTables, ext⟩ .timestamp .f64 e (.num (IntText.formatInt n))) := by
  obtain ⟨n, rfl, a⟩ := timestamp_f64_fixed_point ext x e h
  exact ⟨n, rfl, fun hb hp => a _ _ hp (toFVal_ofInt_f64_le n hb)⟩

/-- timestamp(float32): for an emitted `n` with |n| ≤ 2^24, if ParseFloat(text of n, 32),
    narrowed to float32, is `float32(n)`, the emitted number is a fixed point. -/
theorem timestamp_f32_exact (ext : Ext) (x : Nat) (e : Dyn)
    (h : exportVal ⟨genTables, ext⟩ (.cell (.f32 x) .timestamp .f32) = .ok e) :
    ∃ n, e = .int .i64 n ∧
      (n.natAbs ≤ 2 ^ 24 → ∀ r,
        ext.parseFloat (IntText.formatInt n) 32 = some (some r) →
        Float.f64to32 r = Float.ofInt Float.f32 n →
        FixedPoint ⟨genTables, ext⟩ .timestamp .f32 e (.num (IntText.formatInt n))) := by
  obtain ⟨n, rfl, a⟩ := timestamp_f32_fixed_point ext x e h
  exact ⟨n, rfl, fun hb r hp hr => a r _ hp (by rw [hr]; exact toFVal_ofInt_f32_le n hb)⟩

/-! Non-vacuity: the json.Number `0x1F` (ParseInt base 0 reads 31) is written 31, read back as
    the json.Number `31`, written 31.  The float64 1.5 is written 1; with a ParseFloat that knows
    "1" the literal `1` is read back as 1.0, written 1.  The float32 2.5 is written 2, read back
    as 2.0 (given ParseFloat("2", 32) = 2.0), written 2. -/
example : exportVal ⟨genTables, Ext.empty⟩ (.cell (.num [0x30, 0x78, 0x31, 0x46]) .timestamp .num) = .ok (.int .i64 31) ∧
    importCell ⟨genTables, Ext.empty⟩ .timestamp .num (.num [0x33, 0x31]) =
      .ok (.cell (.num [0x33, 0x31]) .timestamp .num, none) ∧
    exportVal ⟨genTables, Ext.empty⟩ (.cell (.num [0x33, 0x31]) .timestamp .num) = .ok (.int .i64 31) := by
  have hp : IntText.parseInt0 [0x30, 0x78, 0x31, 0x46] 64 = some 31 := by decide
  have h : exportVal ⟨genTables, Ext.empty⟩ (.cell (.num [0x30, 0x78, 0x31, 0x46]) .timestamp .num) =
      .ok (.int .i64 31) := by
    simp only [exportVal, toTimestamp_num, hp, exportFail]
  obtain ⟨n, hn, _, he, a1, a2⟩ := timestamp_num Ext.empty _ _ h
  injection he with _ he
  subst he
  have e : IntText.formatInt 31 = [0x33, 0x31] := by
    simp [IntText.formatInt, IntText.natDigits, IntText.digitChar]
  rw [e] at a1 a2
  exact ⟨h, a1, a2⟩

theorem toTimestamp_f64_one_and_half (ext : Ext) :
    castNamed genTables ext "ToTimestamp" (.f64 0x3FF8000000000000) = .ok (.int .i64 1) := by
  have hv : Float.toFVal Float.f64 0x3FF8000000000000 = .fin 1 true false := by decide
  simp [castNamed, callNamed, genTables, Gen.casters, findClause, typeOf, evalBranch, evalE, evalG, cmpF,
    FVal.ge, FVal.lt, hv, floatToInt, IntTy.wrap, IntTy.signed, IntTy.bits]

example : exportVal ⟨genTables, digitExt⟩ (.cell (.f64 0x3FF8000000000000) .timestamp .f64) = .ok (.int .i64 1) ∧
    importCell ⟨genTables, digitExt⟩ .timestamp .f64 (.num [0x31]) =
      .ok (.cell (.f64 0x3FF0000000000000) .timestamp .f64, none) ∧
    exportVal ⟨genTables, digitExt⟩ (.cell (.f64 0x3FF0000000000000) .timestamp .f64) = .ok (.int .i64 1) := by
  have h : exportVal ⟨genTables, digitExt⟩ (.cell (.f64 0x3FF8000000000000) .timestamp .f64) =
      .ok (.int .i64 1) := by
    simp only [exportVal, exportFail_ok _ _ (toTimestamp_f64_one_and_half digitExt)]
  obtain ⟨n, _, _, he, a⟩ := timestamp_f64 digitExt _ _ h
  injection he with _ he
  subst he
  have e : IntText.formatInt 1 = [0x31] := by
    simp [IntText.formatInt, IntText.natDigits, IntText.digitChar]
  rw [e] at a
  have := a 0x3FF0000000000000 false (by simp [digitExt]) (by decide)
  exact ⟨h, this.1, this.2⟩

/-- A ParseFloat that knows "2" at bit size 32 (2.0). -/
def twoExt : Ext :=
  { Ext.empty with
    parseFloat := fun s bits => if s = [0x32] ∧ bits = 32 then some (some 0x4000000000000000) else none }

theorem toTimestamp_f32_two_and_half (ext : Ext) :
    castNamed genTables ext "ToTimestamp" (.f32 0x40200000) = .ok (.int .i64 2) := by
  have hv : Float.toFVal Float.f32 0x40200000 = .fin 2 true false := by decide
  simp [castNamed, callNamed, genTables, Gen.casters, findClause, typeOf, evalBranch, evalE, evalG, cmpF,
    FVal.ge, FVal.lt, hv, floatToInt, IntTy.wrap, IntTy.signed, IntTy.bits]

example : exportVal ⟨genTables, twoExt⟩ (.cell (.f32 0x40200000) .timestamp .f32) = .ok (.int .i64 2) ∧
    importCell ⟨genTables, twoExt⟩ .timestamp .f32 (.num [0x32]) =
      .ok (.cell (.f32 0x40000000) .timestamp .f32, none) ∧
    exportVal ⟨genTables, twoExt⟩ (.cell (.f32 0x40000000) .timestamp .f32) = .ok (.int .i64 2) := by
  have h : exportVal ⟨genTables, twoExt⟩ (.cell (.f32 0x40200000) .timestamp .f32) = .ok (.int .i64 2) := by
    simp only [exportVal, exportFail_ok _ _ (toTimestamp_f32_two_and_half twoExt)]
  obtain ⟨n, _, _, he, a⟩ := timestamp_f32 twoExt _ _ h
  injection he with _ he
  subst he
  have e : IntText.formatInt 2 = [0x32] := by
    simp [IntText.formatInt, IntText.natDigits, IntText.digitChar]
  have e2 : Float.f64to32 0x4000000000000000 = 0x40000000 := by decide
  rw [e] at a
  have := a 0x4000000000000000 false (by simp [twoExt]) (by rw [e2]; decide)
  rw [e2] at this
  exact ⟨h, this.1, this.2⟩

/-! ### 7. numeric(string), numeric([]byte)

ToNumber of a string / []byte is the json.Number with that text (no check: it is json.Marshal
that refuses an invalid literal, so a line is emitted only for valid ones); the literal is
read back as the same text with the same Go type: value and type are preserved. -/

theorem toNumber_str (ext : Ext) (s : Bytes) :
    castNamed genTables ext "ToNumber" (.str s) = .ok (.num s) := by
  simp [castNamed, callNamed, genTables, Gen.casters, findClause, typeOf, evalBranch, evalE]

theorem toNumber_bytes (ext : Ext) (s : Bytes) :
    castNamed genTables ext "ToNumber" (.bytes s) = .ok (.num s) := by
  simp [castNamed, callNamed, genTables, Gen.casters, findClause, typeOf, evalBranch, evalE]

theorem castTo_str_num (ext : Ext) (l : Bytes) :
    castTo genTables ext .str (.num l) = .ok (.str l) := by
  simp [castTo, callNamed, genTables, Gen.casters, Gen.dispatchTo, findClause, typeOf, evalBranch, evalE]

theorem castTo_bytes_num (ext : Ext) (l : Bytes) :
    castTo genTables ext .bytes (.num l) = .ok (.bytes l) := by
  simp [castTo, callNamed, genTables, Gen.casters, Gen.dispatchTo, findClause, typeOf, evalBranch, evalE]

/-- numeric(string) and numeric([]byte), EVERY text: written as the json.Number with that
    literal; the literal is read back as the same string / []byte.  (When the literal is a
    valid JSON number — the only case in which a line is emitted — the reader's scanner
    consumes it verbatim.) -/
theorem numeric_text (ext : Ext) (s : Bytes) :
    (JsonWrite.isValidNumber s = true → Json.scanNumber s = some (s, [])) ∧
    (exportVal ⟨genTables, ext⟩ (.cell (.str s) .numeric .str) = .ok (.num s) ∧
     importCell ⟨genTables, ext⟩ .numeric .str (.num s) = .ok (.cell (.str s) .numeric .str, none)) ∧
    (exportVal ⟨genTables, ext⟩ (.cell (.bytes s) .numeric .bytes) = .ok (.num s) ∧
     importCell ⟨genTables, ext⟩ .numeric .bytes (.num s) = .ok (.cell (.bytes s) .numeric .bytes, none)) := by
  refine ⟨(IntText.isValidNumber_iff_scanNumber s).mp, ⟨?_, ?_⟩, ⟨?_, ?_⟩⟩
  · simp only [exportVal, exportFail_ok _ _ (toNumber_str ext s)]
  · simp only [importCell, importByFormat, importFrom, importFail_ok _ _ (castTo_str_num ext s)]
  · simp only [exportVal, exportFail_ok _ _ (toNumber_bytes ext s)]
  · simp only [importCell, importByFormat, importFrom, importFail_ok _ _ (castTo_bytes_num ext s)]

/-- C05 for numeric(string) and numeric([]byte). -/
theorem numeric_text_fixed_point (ext : Ext) (s : Bytes) :
    (∃ e, exportVal ⟨genTables, ext⟩ (.cell (.str s) .numeric .str) = .ok e ∧ e = .num s ∧
      FixedPoint ⟨genTables, ext⟩ .numeric .str e e) ∧
    (∃ e, exportVal ⟨genTables, ext⟩ (.cell (.bytes s) .numeric .bytes) = .ok e ∧ e = .num s ∧
      FixedPoint ⟨genTables, ext⟩ .numeric .bytes e e) := by
  obtain ⟨_, ⟨a1, a2⟩, ⟨b1, b2⟩⟩ := numeric_text ext s
  exact ⟨⟨_, a1, rfl, _, a2, a1⟩, ⟨_, b1, rfl, _, b2, b1⟩⟩

/-- The one text for which the bytes written differ from the literal: the EMPTY string is
    exported as the json.Number "", which json.Marshal writes as `0`; `0` is read back as the
    string "0", exported as the json.Number "0" and written `0` again — still a fixed point of
    the line (but the raw value "" has become "0"). -/
theorem numeric_str_empty (ext : Ext) (raw : Dyn) :
    exportVal ⟨genTables, ext⟩ (.cell (.str []) .numeric .str) = .ok (.num []) ∧
    RowPrint.marshalExported ⟨genTables, ext⟩ (.num []) raw = .ok [0x30] ∧
    importCell ⟨genTables, ext⟩ .numeric .str (.num [0x30]) = .ok (.cell (.str [0x30]) .numeric .str, none) ∧
    exportVal ⟨genTables, ext⟩ (.cell (.str [0x30]) .numeric .str) = .ok (.num [0x30]) ∧
    RowPrint.marshalExported ⟨genTables, ext⟩ (.num [0x30]) raw = .ok [0x30] := by
  obtain ⟨_, ⟨a1, _⟩, _⟩ := numeric_text ext []
  obtain ⟨_, ⟨b1, b2⟩, _⟩ := numeric_text ext [0x30]
  refine ⟨a1, ?_, b2, b1, ?_⟩
  · simp [RowPrint.marshalExported]
  · have : JsonWrite.isValidNumber [0x30] = true := by decide
    simp [RowPrint.marshalExported, this]

/-! Non-vacuity: the string `-1.5e+3` under numeric(string). -/
example : exportVal ⟨genTables, Ext.empty⟩ (.cell (.str [0x2D, 0x31, 0x2E, 0x35, 0x65, 0x2B, 0x33]) .numeric .str) =
      .ok (.num [0x2D, 0x31, 0x2E, 0x35, 0x65, 0x2B, 0x33]) ∧
    importCell ⟨genTables, Ext.empty⟩ .numeric .str (.num [0x2D, 0x31, 0x2E, 0x35, 0x65, 0x2B, 0x33]) =
      .ok (.cell (.str [0x2D, 0x31, 0x2E, 0x35, 0x65, 0x2B, 0x33]) .numeric .str, none) :=
  (numeric_text Ext.empty _).2.1

/-! ### Coverage -/

/-- The pairings of `Tables.selfReadable` that are not lossless are exactly the ones treated
    in this file. -/
theorem nonlossless_selfReadable_cases (f : Format) (ty : Ty)
    (h1 : Tables.selfReadable f ty = true) (h2 : Tables.lossless f ty = false) :
    (f = .boolean ∧ ty ≠ .none ∧ ty ≠ .bool) ∨ f = .hidden ∨
    (f = .date ∧ (ty = .none ∨ ty = .str ∨ ty = .bytes ∨ ty = .num)) ∨
    (f = .datetime ∧ (ty = .str ∨ ty = .bytes)) ∨
    (f = .timestamp ∧ (ty = .num ∨ ty = .f64 ∨ ty = .f32)) ∨
    (f = .numeric ∧ (ty = .str ∨ ty = .bytes)) := by
  cases f <;> cases ty <;>
    simp [Tables.selfReadable, Tables.lossless, Tables.isInt, Tables.isFlt] at h1 h2 ⊢

end Jl.SelfReadable
