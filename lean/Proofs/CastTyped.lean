/-
  Proofs.CastTyped — C10: casts are total and return exactly the requested type.

  Reflection style.
  Part 1  a static type checker for the branch language of Model.CastSyntax (`tyE`, `tyG`,
          `branchOK`, `specialOK`, `casterOK`, `dispatchOK`, `tablesOK`) and its evaluation on
          the *regenerated* tables: `genTables_ok`, by `decide` (nothing of Gen.CastTable is
          copied here; a changed table is re-checked, a table that fails re-opens the proof).
  Part 2  soundness of the checker for the interpreter of Model.Cast: `evalE_good` (induction
          on the expression), `call_step` / `branch_step` / `special_step` and `inv_all`
          (induction on the fuel of the mutual `callNamed` / `evalBranch` / `special`).
  Part 3  for any table with `tablesOK T`: `cast_typed`, `cast_no_panic`, `cast_err`, `cast_nil`,
          `castTo_typed`, `castTo_none`, `castTo_no_panic`, `castTo_err`, and the link to the
          harness oracle `CastSpec.typedViolation` (`typedViolation_of_good`).
  Part 4  the same for `genTables`, without hypotheses (`gen_*`).

  Reading of the outcomes.  `Outcome.err .cast` = an error that wraps `cast.ErrUnableToCast`
  (`failWith` with a sentinel whose `%w` chain reaches the root, which the checker demands of
  every sentinel in a reachable branch, in binary_ops.go and in the verbatim bodies).
  `Outcome.err .ext` is not an outcome of the code: it is the model's marker for "a standard
  library answer was not supplied" (and for exhausted fuel / unrecognised shapes) and is the
  third possibility in the statements.  What is *not* proved here: that `.err .ext` arises only
  from `Ext` (no progress / fuel-sufficiency theorem); the checker is written so that a
  well-typed branch has no "wrong shape" fallback, but only typedness, panic-freedom and the
  error class are proved.  A well-typed but diverging table (a default clause that tail-calls
  its own caster on `val`) passes the checker: termination is not part of it.
-/
import Model.CastGen
import Model.CastSpec

namespace Jl
namespace CastTyped
open Cast

/-! ## Part 1: the checker -/

/-- All dynamic-type tags. -/
def allTys : List Ty :=
  [.none, .int .int, .int .i64, .int .i32, .int .i16, .int .i8, .int .uint, .int .u64, .int .u32,
   .int .u16, .int .u8, .f64, .f32, .bool, .str, .bytes, .time, .num, .other]

theorem mem_allTys (t : Ty) : t ∈ allTys := by
  cases t with
  | int i => cases i <;> simp [allTys]
  | _ => simp [allTys]

/-- int / float64 / float32: the operand types of Go's numeric conversions. -/
def isNumeric : Ty → Bool
  | .int _ | .f64 | .f32 => true
  | _ => false

def lookupBin (binfns : List (String × BinFn)) (fn : String) : Option BinFn :=
  (binfns.find? (fun p => p.1 == fn)).map (·.2)

/-- Is `fn` one of the `xToBytes` shapes? -/
def isPut : BinFn → Bool
  | .put .. | .put1 _ | .putBool _ => true
  | _ => false

/-- Static type of an expression when `val : vt` and the parse-bound variable has type `pt`.
    `some t` only where `evalE` cannot reach one of its "wrong shape" `.err .ext` fallbacks. -/
def tyE (binfns : List (String × BinFn)) (vt pt : Ty) : E → Option Ty
  | .val => some vt
  | .parsed => some pt
  | .intLit t _ => some (.int t)
  | .f64Lit _ => some .f64
  | .f32Lit _ => some .f32
  | .numLit _ => some .num
  | .toInt t e =>
    match tyE binfns vt pt e with
    | some a => if isNumeric a then some (.int t) else none
    | none => none
  | .toF64 e =>
    match tyE binfns vt pt e with
    | some a => if isNumeric a then some .f64 else none
    | none => none
  | .toF32 e =>
    match tyE binfns vt pt e with
    | some a => if isNumeric a then some .f32 else none
    | none => none
  | .toStr e =>
    match tyE binfns vt pt e with
    | some .bytes | some .num | some .str => some .str
    | _ => none
  | .toBytes e =>
    match tyE binfns vt pt e with
    | some .bytes | some .num | some .str => some .bytes
    | _ => none
  | .toNum e =>
    match tyE binfns vt pt e with
    | some .num | some .str => some .num
    | _ => none
  | .unix e =>
    match tyE binfns vt pt e with
    | some .time => some (.int .i64)
    | _ => none
  | .year e =>
    match tyE binfns vt pt e with
    | some .time => some (.int .int)
    | _ => none
  | .ne0 e =>
    match tyE binfns vt pt e with
    | some a => if isNumeric a then some .bool else none
    | none => none
  | .fmtInt e base =>
    match tyE binfns vt pt e with
    | some (.int _) => if base == 10 then some .str else none
    | _ => none
  | .fmtUint e base =>
    match tyE binfns vt pt e with
    | some (.int _) => if base == 10 then some .str else none
    | _ => none
  | .itoa e =>
    match tyE binfns vt pt e with
    | some (.int _) => some .str
    | _ => none
  | .fmtFloat e verb prec _ =>
    match tyE binfns vt pt e with
    | some .f64 => if verb == 102 && prec == -1 then some .str else none
    | _ => none
  | .fmtBool e =>
    match tyE binfns vt pt e with
    | some .bool => some .str
    | _ => none
  | .timeFormat e _ =>
    match tyE binfns vt pt e with
    | some .time => some .str
    | _ => none
  | .timeUnix e =>
    match tyE binfns vt pt e with
    | some (.int _) => some .time
    | _ => none
  | .call fn e =>
    match tyE binfns vt pt e, lookupBin binfns fn with
    | some a, some f => if (isNumeric a || a == .bool) && isPut f then some .bytes else none
    | _, _ => none

/-- Guards compare numeric expressions only (then `evalG` is never `none`). -/
def tyG (binfns : List (String × BinFn)) (vt : Ty) : G → Bool
  | .cmp _ l _ =>
    match tyE binfns vt .none l with
    | some a => isNumeric a
    | none => false
  | .or a b => tyG binfns vt a && tyG binfns vt b
  | .and a b => tyG binfns vt a && tyG binfns vt b
  | .not a => tyG binfns vt a

/-- Type of the variable bound by a strconv.ParseX call. -/
def parseTy : ParseFn → Ty
  | .parseInt .. => .int .i64
  | .parseUint .. => .int .u64
  | .parseFloat _ => .f64

/-- The parse calls the model reads (base 0 for the integer parsers). -/
def parseFnOK : ParseFn → Bool
  | .parseInt base _ => base == 0
  | .parseUint base _ => base == 0
  | .parseFloat _ => true

/-- Result type of a `xFromBytes` function. -/
def binGetTy : BinFn → Option Ty
  | .get _ _ _ res _ _ => if isNumeric res then some res else none
  | .get1 _ res _ => if isNumeric res then some res else none
  | .getBool _ _ => some .bool
  | _ => none

def orderOK (order : String) : Bool := order == "LittleEndian" || order == "BigEndian"

/-- A function of binary_ops.go: sizes are consistent (no index out of range in
    `binPut` / `binGet`), the result type is one `ofUnsigned` builds, and the sentinel wraps the
    root. -/
def binFnOK (T : CastTables) : BinFn → Bool
  | .get size order width res _ s =>
    decide (width / 8 ≤ size) && orderOK order && isNumeric res && wrapsRoot T.sentinels 4 s
  | .put size order width => decide (width / 8 ≤ size) && orderOK order
  | .get1 size res s => decide (1 ≤ size) && isNumeric res && wrapsRoot T.sentinels 4 s
  | .put1 size => decide (1 ≤ size)
  | .getBool size s => decide (1 ≤ size) && wrapsRoot T.sentinels 4 s
  | .putBool size => decide (1 ≤ size)
  | .unknown _ => false

def isCaster (T : CastTables) (name : String) : Bool :=
  (T.casters.find? (fun c => c.name == name)).isSome

/-- Type of the normal results of `callNamed T _ _ name v` for `v : at`, mirroring its lookup
    order: a caster maps nil to nil and anything else to its promised type; a `xFromBytes`
    function wants bytes. -/
def calleeTy (T : CastTables) (promised : String → Option Ty) (name : String) (at_ : Ty) : Option Ty :=
  if isCaster T name then
    if at_ == .none then some .none else promised name
  else
    match lookupBin T.binFns name with
    | some f => if at_ == .bytes then binGetTy f else none
    | none => none

/-- What each body recognised verbatim needs: the source type it is written for (`none`: any
    non-nil), its result type, the casters it calls with the types they must promise, and the
    sentinels it fails with. -/
structure SpecialSig where
  src : Option Ty
  res : Ty
  callees : List (String × Ty)
  sentinels : List String

def specialSig : String → Option SpecialSig
  | "binary.default" => some ⟨none, .bytes, [], ["ErrUnableToCastToBinary"]⟩
  | "bool.string" => some ⟨some .str, .bool, [("ToFloat64", .f64)], ["ErrUnableToCastToBool"]⟩
  | "bool.number" => some ⟨none, .bool, [("ToFloat64", .f64)], ["ErrUnableToCastToBool"]⟩
  | "date.string" =>
    some ⟨some .str, .str, [("ToInt64", .int .i64), ("ToDate", .str)], ["ErrUnableToCastToDate"]⟩
  | "date.bytes" =>
    some ⟨some .bytes, .str, [("ToInt64", .int .i64), ("ToDate", .str)], ["ErrUnableToCastToDate"]⟩
  | "date.default" =>
    some ⟨none, .str, [("ToString", .str), ("ToDate", .str)], ["ErrUnableToCastToTime"]⟩
  | "time.string" =>
    some ⟨some .str, .time, [("ToInt64", .int .i64), ("ToTime", .time)], ["ErrUnableToCastToTime"]⟩
  | "time.bytes" =>
    some ⟨some .bytes, .time, [("ToInt64", .int .i64), ("ToTime", .time)], ["ErrUnableToCastToTime"]⟩
  | "time.default" =>
    some ⟨none, .time, [("ToInt64", .int .i64), ("ToTime", .time)], ["ErrUnableToCastToTime"]⟩
  | "timestamp.string" => some ⟨some .str, .int .i64, [], ["ErrUnableToCastToTime"]⟩
  | _ => none

def specialOK (T : CastTables) (promised : String → Option Ty) (want vt : Ty) (id : String) : Bool :=
  match specialSig id with
  | some sg =>
    vt != .none && (match sg.src with | some s => vt == s | none => true) && sg.res == want &&
    sg.callees.all (fun p => isCaster T p.1 && promised p.1 == some p.2) &&
    sg.sentinels.all (fun s => wrapsRoot T.sentinels 4 s)
  | none => false

/-- For a source of type `vt`, every normal return of the branch has type `want`, every error
    wraps the root sentinel, and no panic is reachable. -/
def branchOK (T : CastTables) (promised : String → Option Ty) (want vt : Ty) : Branch → Bool
  | .ret e => tyE T.binFns vt .none e == some want
  | .retNil => want == .none
  | .fail s => wrapsRoot T.sentinels 4 s
  | .guarded g s e =>
    tyG T.binFns vt g && wrapsRoot T.sentinels 4 s && tyE T.binFns vt .none e == some want
  | .ifBool t f =>
    vt == .bool && tyE T.binFns vt .none t == some want && tyE T.binFns vt .none f == some want
  | .parse fn e s =>
    vt == .str && parseFnOK fn && wrapsRoot T.sentinels 4 s &&
      tyE T.binFns vt (parseTy fn) e == some want
  | .tail callee e =>
    match tyE T.binFns vt .none e with
    | some a => calleeTy T promised callee a == some want
    | none => false
  | .special id => specialOK T promised want vt id
  | .unknown _ => false

/-- The type a cast to `t` must deliver for a source of type `vt`: nil for nil. -/
def wantFor (t vt : Ty) : Ty := if vt == .none then .none else t

/-- `case nil` hands nil back (`return nil, nil` or `return val, nil`). -/
def nilBranchOK : Branch → Bool
  | .retNil => true
  | .ret .val => true
  | _ => false

/-- No type is listed by two case clauses (Go rejects duplicate cases): then every clause is
    the one `findClause` selects for each type it lists (`clause_checked`). -/
def noDupCases (c : Caster) : Bool := decide (c.clauses.flatMap (·.types)).Nodup

/-- One caster: it promises a (non-nil) type; the branch the type switch selects for each of
    the 19 source tags (a clause or the default) is well typed for it; nil returns nil. -/
def casterOK (T : CastTables) (promised : String → Option Ty) (c : Caster) : Bool :=
  match promised c.name with
  | some t =>
    t != .none && nilBranchOK (findClause c .none) && noDupCases c &&
    allTys.all (fun vt => branchOK T promised (wantFor t vt) vt (findClause c vt))
  | none => false

/-- The 18 sample types `cast.To` has a case for (every tag but `other`; `none` is the nil
    sample). -/
def dispatchOK (T : CastTables) (promised : String → Option Ty) : Bool :=
  allTys.all (fun t =>
    match T.dispatchTo.find? (fun p => p.1 == t) with
    | some (_, br) =>
      if t == .none then br == .ret .val
      else
        (match br with
         | .tail callee .val => isCaster T callee && promised callee == some t
         | _ => false) &&
        allTys.all (fun vt => branchOK T promised (wantFor t vt) vt br)
    | none => t == .other) &&
  (match T.dispatchToDefault with
   | .fail s => wrapsRoot T.sentinels 4 s
   | _ => false)

def tablesOKFor (promised : String → Option Ty) (T : CastTables) : Bool :=
  T.casters.all (casterOK T promised) &&
  T.binFns.all (fun p => binFnOK T p.2) &&
  dispatchOK T promised &&
  T.sentinels.any (fun p => p.1 == "ErrUnableToCast")

/-- The whole-table check, against the types `resultTyOfCaster?` promises. -/
def tablesOK (T : CastTables) : Bool := tablesOKFor resultTyOfCaster? T

set_option maxRecDepth 100000 in
theorem genTables_ok : tablesOK genTables = true := by decide

/-! ## Part 2: soundness of the checker -/

/-- Acceptable outcomes of an expression of static type `want`. -/
def GoodE (want : Ty) : Outcome Dyn → Prop
  | .ok r => typeOf r = want
  | .err e => e = .ext
  | .panic _ => False

/-- Acceptable outcomes of a branch / cast whose normal results must have type `want`. -/
def Good (want : Ty) : Outcome Dyn → Prop
  | .ok r => typeOf r = want
  | .err e => e = .cast ∨ e = .ext
  | .panic _ => False

theorem GoodE.good {want : Ty} {o : Outcome Dyn} (h : GoodE want o) : Good want o := by
  cases o with
  | ok r => exact h
  | err e => exact Or.inr h
  | panic s => exact h

@[simp] theorem good_ext (want : Ty) : Good want (.err .ext) := Or.inr rfl
@[simp] theorem goodE_ext (want : Ty) : GoodE want (.err .ext) := rfl

theorem typeOf_eq_none {r : Dyn} : typeOf r = .none ↔ r = .nil := by
  cases r <;> simp [typeOf]

theorem failWith_good (T : CastTables) (s : String) (want : Ty)
    (h : wrapsRoot T.sentinels 4 s = true) : Good want (failWith T s) := by
  simp [failWith, h, Good]

@[simp] theorem goodE_ok (w : Ty) (r : Dyn) : GoodE w (.ok r) = (typeOf r = w) := rfl
@[simp] theorem goodE_err (w : Ty) (e : ErrClass) : GoodE w (.err e) = (e = .ext) := rfl
@[simp] theorem goodE_panic (w : Ty) (s : String) : GoodE w (.panic s) = False := rfl
@[simp] theorem good_ok (w : Ty) (r : Dyn) : Good w (.ok r) = (typeOf r = w) := rfl
@[simp] theorem good_err (w : Ty) (e : ErrClass) : Good w (.err e) = (e = .cast ∨ e = .ext) := rfl
@[simp] theorem good_panic (w : Ty) (s : String) : Good w (.panic s) = False := rfl

theorem goodE_ite {w : Ty} {c : Prop} [Decidable c] {a b : Outcome Dyn}
    (ha : GoodE w a) (hb : GoodE w b) : GoodE w (if c then a else b) := by
  split <;> assumption

theorem good_ite {w : Ty} {c : Prop} [Decidable c] {a b : Outcome Dyn}
    (ha : Good w a) (hb : Good w b) : Good w (if c then a else b) := by
  split <;> assumption

theorem binPut_good (T : CastTables) (f : BinFn) (v : Dyn) (h : binFnOK T f = true) :
    GoodE .bytes (binPut f v) := by
  cases f with
  | put size order width =>
    simp only [binFnOK, Bool.and_eq_true, decide_eq_true_eq] at h
    have : ¬ size < width / 8 := by omega
    cases v <;> simp only [binPut, this, if_false, goodE_ext] <;>
      exact goodE_ite rfl rfl
  | put1 size =>
    simp only [binFnOK, decide_eq_true_eq] at h
    have : ¬ size < 1 := by omega
    cases v <;> simp [binPut, this, typeOf]
  | putBool size =>
    simp only [binFnOK, decide_eq_true_eq] at h
    have : ¬ size < 1 := by omega
    cases v <;> simp [binPut, this, typeOf]
  | _ => cases v <;> simp [binPut]

theorem ofUnsigned_ty {res : Ty} {w u : Nat} {d : Dyn} (h : ofUnsigned res w u = some d) :
    typeOf d = res := by
  unfold ofUnsigned at h
  split at h <;> simp at h <;> subst h <;> simp [typeOf]

theorem binGet_good (T : CastTables) (f : BinFn) (v : Dyn) (want : Ty) (h : binFnOK T f = true)
    (ht : binGetTy f = some want) : Good want (binGet T f v) := by
  cases f with
  | get size order width res nc sent =>
    simp only [binFnOK, Bool.and_eq_true, decide_eq_true_eq] at h
    obtain ⟨⟨⟨h1, _⟩, hres⟩, hs⟩ := h
    simp only [binGetTy, hres, if_true, Option.some.injEq] at ht
    subst ht
    cases v <;> simp only [binGet, good_ext]
    rename_i s
    by_cases hlen : s.length = size
    · have h2 : ¬ s.length < width / 8 := by omega
      simp only [hlen, bne_self_eq_false, Bool.false_eq_true, if_false]
      rw [hlen] at h2
      simp only [h2, if_false]
      split
      · rename_i d hd
        simp only [Option.bind_eq_some_iff] at hd
        obtain ⟨u, _, hu⟩ := hd
        exact ofUnsigned_ty hu
      · simp
    · have : (s.length != size) = true := by simpa using hlen
      simp only [this, if_true]
      exact failWith_good T _ _ hs
  | get1 size res sent =>
    simp only [binFnOK, Bool.and_eq_true, decide_eq_true_eq] at h
    obtain ⟨⟨h1, hres⟩, hs⟩ := h
    simp only [binGetTy, hres, if_true, Option.some.injEq] at ht
    subst ht
    cases v <;> simp only [binGet, good_ext]
    rename_i s
    by_cases hlen : s.length = size
    · simp only [hlen, bne_self_eq_false, Bool.false_eq_true, if_false]
      cases s with
      | nil => simp at hlen; omega
      | cons b s =>
        simp only
        split
        · rename_i d hd
          exact ofUnsigned_ty hd
        · simp
    · have : (s.length != size) = true := by simpa using hlen
      simp only [this, if_true]
      exact failWith_good T _ _ hs
  | getBool size sent =>
    simp only [binFnOK, Bool.and_eq_true, decide_eq_true_eq] at h
    obtain ⟨h1, hs⟩ := h
    simp only [binGetTy, Option.some.injEq] at ht
    subst ht
    cases v <;> simp only [binGet, good_ext]
    rename_i s
    by_cases hlen : s.length = size
    · simp only [hlen, bne_self_eq_false, Bool.false_eq_true, if_false]
      cases s with
      | nil => simp at hlen; omega
      | cons b s => simp [typeOf]
    · have : (s.length != size) = true := by simpa using hlen
      simp only [this, if_true]
      exact failWith_good T _ _ hs
  | _ => simp [binGetTy] at ht


theorem lookupBin_mem {binfns : List (String × BinFn)} {fn : String} {f : BinFn}
    (h : lookupBin binfns fn = some f) :
    ∃ n, binfns.find? (fun p => p.1 == fn) = some (n, f) ∧ (n, f) ∈ binfns := by
  unfold lookupBin at h
  cases hf : binfns.find? (fun p => p.1 == fn) with
  | none => simp [hf] at h
  | some p =>
    simp [hf] at h
    subst h
    exact ⟨p.1, rfl, List.mem_of_find?_eq_some hf⟩

/-- Every function of binary_ops.go in the table passes `binFnOK`. -/
def BinOK (T : CastTables) : Prop := ∀ p ∈ T.binFns, binFnOK T p.2 = true

/-- The constructors of `E` with one sub-expression whose value `evalE` inspects. -/
local macro "unary_case" T:ident ext:ident val:ident parsed:ident e:ident ih:ident : tactic =>
  `(tactic| (
    intro want h
    simp only [tyE] at h
    cases ha : tyE ($T).binFns (typeOf $val) (typeOf $parsed) $e with
    | none => simp [ha] at h
    | some a =>
      have hg := $ih a ha
      simp only [ha] at h
      simp only [evalE]
      cases hr : evalE $T $ext $val $parsed $e with
      | panic s => simp [hr] at hg
      | err er => simpa [hr] using hg
      | ok r =>
        simp only [hr, goodE_ok] at hg
        subst hg
        cases r <;> simp [typeOf, isNumeric] at h <;> (try subst h) <;> simp [typeOf] <;>
          (repeat' split) <;> simp_all [typeOf]))

theorem evalE_good (T : CastTables) (ext : Ext) (val parsed : Dyn) (hb : BinOK T) :
    ∀ (e : E) (want : Ty), tyE T.binFns (typeOf val) (typeOf parsed) e = some want →
      GoodE want (evalE T ext val parsed e) := by
  intro e
  induction e with
  | val => intro want h; simp [tyE] at h; simp [evalE, h]
  | parsed => intro want h; simp [tyE] at h; simp [evalE, h]
  | intLit t n => intro want h; simp [tyE] at h; simp [evalE, typeOf, h]
  | f64Lit n => intro want h; simp [tyE] at h; simp [evalE, typeOf, h]
  | f32Lit n => intro want h; simp [tyE] at h; simp [evalE, typeOf, h]
  | numLit n => intro want h; simp [tyE] at h; simp [evalE, typeOf, h]
  | call fn e ih =>
    intro want h
    simp only [tyE] at h
    cases ha : tyE T.binFns (typeOf val) (typeOf parsed) e with
    | none => simp [ha] at h
    | some a =>
      cases hf : lookupBin T.binFns fn with
      | none => simp [ha, hf] at h
      | some f =>
        simp only [ha, hf] at h
        split at h <;> simp at h
        subst h
        obtain ⟨n, hfind, hmem⟩ := lookupBin_mem hf
        have hg := ih a ha
        simp only [evalE]
        cases hr : evalE T ext val parsed e with
        | panic s => simp [hr] at hg
        | err er => simpa [hr] using hg
        | ok r =>
          simp only [hfind]
          exact binPut_good T f r (hb _ hmem)
  | toInt t e ih => unary_case T ext val parsed e ih
  | toF64 e ih => unary_case T ext val parsed e ih
  | toF32 e ih => unary_case T ext val parsed e ih
  | toStr e ih => unary_case T ext val parsed e ih
  | toBytes e ih => unary_case T ext val parsed e ih
  | toNum e ih => unary_case T ext val parsed e ih
  | unix e ih => unary_case T ext val parsed e ih
  | year e ih => unary_case T ext val parsed e ih
  | ne0 e ih => unary_case T ext val parsed e ih
  | fmtInt e base ih => unary_case T ext val parsed e ih
  | itoa e ih => unary_case T ext val parsed e ih
  | fmtUint e base ih => unary_case T ext val parsed e ih
  | fmtFloat e verb prec bits ih => unary_case T ext val parsed e ih
  | fmtBool e ih => unary_case T ext val parsed e ih
  | timeFormat e l ih => unary_case T ext val parsed e ih
  | timeUnix e ih => unary_case T ext val parsed e ih

/-- `evalE` respects the static type (the form asked for by the design). -/
theorem evalE_typed (T : CastTables) (ext : Ext) (val parsed : Dyn) (hb : BinOK T) (e : E)
    (t : Ty) (r : Dyn) (ht : tyE T.binFns (typeOf val) (typeOf parsed) e = some t)
    (hr : evalE T ext val parsed e = .ok r) : typeOf r = t ∧ (t ≠ .none → r ≠ .nil) := by
  have hg := evalE_good T ext val parsed hb e t ht
  rw [hr] at hg
  simp only [goodE_ok] at hg
  exact ⟨hg, fun hn hnil => hn (by rw [← hg, hnil]; rfl)⟩

theorem evalE_no_panic (T : CastTables) (ext : Ext) (val parsed : Dyn) (hb : BinOK T) (e : E)
    (t : Ty) (ht : tyE T.binFns (typeOf val) (typeOf parsed) e = some t) (s : String) :
    evalE T ext val parsed e ≠ .panic s := by
  intro hp
  have hg := evalE_good T ext val parsed hb e t ht
  simp [hp] at hg

/-- The three mutually recursive functions at one fuel level. -/
structure Inv (T : CastTables) (ext : Ext) (promised : String → Option Ty) (fuel : Nat) : Prop where
  call : ∀ name v want, calleeTy T promised name (typeOf v) = some want →
    Good want (callNamed T ext fuel name v)
  branch : ∀ self br v want, branchOK T promised want (typeOf v) br = true →
    Good want (evalBranch T ext fuel self br v)
  special : ∀ id v want, specialOK T promised want (typeOf v) id = true →
    Good want (special T ext fuel id v)

/-- Every caster of the table passes `casterOK`. -/
def CastersOK (T : CastTables) (promised : String → Option Ty) : Prop :=
  ∀ c ∈ T.casters, casterOK T promised c = true

theorem find_caster {T : CastTables} {name : String} {c : Caster}
    (hf : T.casters.find? (fun c => c.name == name) = some c) : c ∈ T.casters ∧ c.name = name := by
  refine ⟨List.mem_of_find?_eq_some hf, ?_⟩
  have := List.find?_some hf
  simpa using this

theorem casterOK_branch {T : CastTables} {promised : String → Option Ty} {c : Caster}
    (hok : casterOK T promised c = true) :
    ∃ t, promised c.name = some t ∧ t ≠ .none ∧ nilBranchOK (findClause c .none) = true ∧
      ∀ vt, branchOK T promised (wantFor t vt) vt (findClause c vt) = true := by
  unfold casterOK at hok
  cases hp : promised c.name with
  | none => simp [hp] at hok
  | some t =>
    simp only [hp, Bool.and_eq_true, List.all_eq_true] at hok
    obtain ⟨⟨⟨htn, hnil⟩, _⟩, hall⟩ := hok
    exact ⟨t, rfl, by simpa using htn, hnil, fun vt => hall vt (mem_allTys vt)⟩

theorem find_clause_of_nodup (cls : List Clause) (cl : Clause) (vt : Ty)
    (hnd : (cls.flatMap (·.types)).Nodup) (hcl : cl ∈ cls) (hvt : vt ∈ cl.types) :
    cls.find? (fun cl => cl.types.contains vt) = some cl := by
  induction cls with
  | nil => cases hcl
  | cons a l ih =>
    simp only [List.flatMap_cons, List.nodup_append] at hnd
    obtain ⟨_, hl, hdis⟩ := hnd
    rcases List.mem_cons.mp hcl with rfl | hmem
    · simp [List.find?, hvt]
    · have hna : vt ∉ a.types := by
        intro ha
        exact hdis vt ha vt (List.mem_flatMap.mpr ⟨cl, hmem, hvt⟩) rfl
      have hc : a.types.contains vt = false := by simpa using hna
      rw [List.find?_cons, hc]
      exact ih hl hmem

/-- `casterOK` checks every case clause for every type it lists (not only the default). -/
theorem clause_checked {T : CastTables} {promised : String → Option Ty} {c : Caster}
    (hok : casterOK T promised c = true) (cl : Clause) (hcl : cl ∈ c.clauses) (vt : Ty)
    (hvt : vt ∈ cl.types) :
    ∃ t, promised c.name = some t ∧ branchOK T promised (wantFor t vt) vt cl.body = true := by
  obtain ⟨t, hp, _, _, hall⟩ := casterOK_branch hok
  refine ⟨t, hp, ?_⟩
  have hnd : (c.clauses.flatMap (·.types)).Nodup := by
    unfold casterOK at hok
    simp only [hp, Bool.and_eq_true, noDupCases, decide_eq_true_eq] at hok
    exact hok.1.2
  have := hall vt
  unfold findClause at this
  rwa [find_clause_of_nodup c.clauses cl vt hnd hcl hvt] at this

theorem inv_zero (T : CastTables) (ext : Ext) (promised : String → Option Ty) :
    Inv T ext promised 0 := by
  constructor <;> intros <;> simp [callNamed, evalBranch, special]

theorem call_step {T : CastTables} {ext : Ext} {promised : String → Option Ty} {fuel : Nat}
    (hc : CastersOK T promised) (hb : BinOK T) (ih : Inv T ext promised fuel)
    (name : String) (v : Dyn) (want : Ty)
    (h : calleeTy T promised name (typeOf v) = some want) :
    Good want (callNamed T ext (fuel + 1) name v) := by
  simp only [callNamed]
  unfold calleeTy isCaster at h
  cases hf : T.casters.find? (fun c => c.name == name) with
  | some c =>
    simp only [hf, Option.isSome_some, if_true] at h
    obtain ⟨hmem, hname⟩ := find_caster hf
    obtain ⟨t, hp, _, _, hall⟩ := casterOK_branch (hc c hmem)
    have hw : want = wantFor t (typeOf v) := by
      unfold wantFor
      rw [hname] at hp
      split at h <;> simp_all
    subst hw
    exact ih.branch c.name _ v _ (hall (typeOf v))
  | none =>
    simp only [hf, Option.isSome_none, Bool.false_eq_true, if_false] at h
    cases hl : lookupBin T.binFns name with
    | none => simp [hl] at h
    | some f =>
      simp only [hl] at h
      split at h
      · obtain ⟨n, hfind, hmem⟩ := lookupBin_mem hl
        simp only [hfind]
        exact binGet_good T f v want (hb _ hmem) h
      · simp at h

theorem runParse_ty {ext : Ext} {fn : ParseFn} {s : Bytes} {v : Dyn}
    (h : runParse ext fn s = some (some v)) : typeOf v = parseTy fn := by
  unfold runParse at h
  cases fn with
  | parseInt base bits =>
    simp only at h
    split at h
    · simp only [Option.some.injEq, Option.map_eq_some_iff] at h
      obtain ⟨x, _, rfl⟩ := h
      rfl
    · simp at h
  | parseUint base bits =>
    simp only at h
    split at h
    · simp only [Option.some.injEq, Option.map_eq_some_iff] at h
      obtain ⟨x, _, rfl⟩ := h
      rfl
    · simp at h
  | parseFloat bits =>
    simp only [Option.map_eq_some_iff] at h
    obtain ⟨r, _, hr⟩ := h
    obtain ⟨b, _, rfl⟩ := hr
    rfl

theorem branch_step {T : CastTables} {ext : Ext} {promised : String → Option Ty} {fuel : Nat}
    (hb : BinOK T) (ih : Inv T ext promised fuel)
    (self : String) (br : Branch) (v : Dyn) (want : Ty)
    (h : branchOK T promised want (typeOf v) br = true) :
    Good want (evalBranch T ext (fuel + 1) self br v) := by
  cases br with
  | ret e =>
    simp only [branchOK, beq_iff_eq] at h
    simp only [evalBranch]
    exact (evalE_good T ext v .nil hb e want h).good
  | retNil =>
    simp only [branchOK, beq_iff_eq] at h
    simp [evalBranch, typeOf, h]
  | fail s =>
    simp only [branchOK] at h
    simp only [evalBranch]
    exact failWith_good T s want h
  | guarded g s e =>
    simp only [branchOK, Bool.and_eq_true, beq_iff_eq] at h
    obtain ⟨⟨_, hs⟩, he⟩ := h
    simp only [evalBranch]
    cases evalG T ext v g with
    | none => simp
    | some b =>
      cases b with
      | true => exact failWith_good T s want hs
      | false => exact (evalE_good T ext v .nil hb e want he).good
  | ifBool t f =>
    simp only [branchOK, Bool.and_eq_true, beq_iff_eq] at h
    obtain ⟨⟨_, ht⟩, hf⟩ := h
    cases v with
    | bool b =>
      cases b with
      | true => simp only [evalBranch]; exact (evalE_good T ext _ .nil hb t want ht).good
      | false => simp only [evalBranch]; exact (evalE_good T ext _ .nil hb f want hf).good
    | _ => simp [evalBranch]
  | parse fn e s =>
    simp only [branchOK, Bool.and_eq_true, beq_iff_eq] at h
    obtain ⟨⟨_, hs⟩, he⟩ := h
    cases v with
    | str str =>
      simp only [evalBranch]
      cases hp : runParse ext fn str with
      | none => simp
      | some o =>
        cases o with
        | none => exact failWith_good T s want hs
        | some p =>
          have hpt := runParse_ty hp
          rw [← hpt] at he
          exact (evalE_good T ext _ p hb e want he).good
    | _ => simp [evalBranch]
  | tail callee e =>
    simp only [branchOK] at h
    simp only [evalBranch]
    cases ha : tyE T.binFns (typeOf v) .none e with
    | none => simp [ha] at h
    | some a =>
      simp only [ha, beq_iff_eq] at h
      have hg := evalE_good T ext v .nil hb e a ha
      cases hr : evalE T ext v .nil e with
      | panic s => simp [hr] at hg
      | err er => simp [hr] at hg; simp [hg]
      | ok r =>
        simp only [hr, goodE_ok] at hg
        subst hg
        exact ih.call callee r want h
  | special id =>
    simp only [branchOK] at h
    simp only [evalBranch]
    exact ih.special id v want h
  | unknown s => simp [branchOK] at h

theorem calleeTy_caster {T : CastTables} {promised : String → Option Ty} {name : String}
    {a t : Ty} (hc : isCaster T name = true) (hp : promised name = some t) (hn : a ≠ .none) :
    calleeTy T promised name a = some t := by
  simp [calleeTy, hc, hn, hp]

theorem specialOK_unpack {T : CastTables} {promised : String → Option Ty} {want vt : Ty}
    {id : String} (h : specialOK T promised want vt id = true) :
    ∃ sg, specialSig id = some sg ∧ vt ≠ .none ∧ sg.res = want ∧
      (∀ p ∈ sg.callees, isCaster T p.1 = true ∧ promised p.1 = some p.2) ∧
      (∀ s ∈ sg.sentinels, wrapsRoot T.sentinels 4 s = true) := by
  unfold specialOK at h
  cases hs : specialSig id with
  | none => simp [hs] at h
  | some sg =>
    simp only [hs, Bool.and_eq_true, List.all_eq_true, bne_iff_ne, beq_iff_eq] at h
    obtain ⟨⟨⟨⟨h1, _⟩, h3⟩, h4⟩, h5⟩ := h
    exact ⟨sg, rfl, h1, h3, h4, h5⟩

theorem specialSig_cases {id : String} {sg : SpecialSig} (h : specialSig id = some sg) :
    id ∈ ["binary.default", "bool.string", "bool.number", "date.string", "date.bytes",
      "date.default", "time.string", "time.bytes", "time.default", "timestamp.string"] := by
  unfold specialSig at h
  split at h <;> simp at h ⊢

/-- `x, err := f(..); if err != nil { fail }; return k(x)` -/
theorem good_chain {T : CastTables} {want a : Ty} {o : Outcome Dyn} {k : Dyn → Outcome Dyn}
    {sent : String} (ho : Good a o) (hs : wrapsRoot T.sentinels 4 sent = true)
    (hk : ∀ i, typeOf i = a → Good want (k i)) :
    Good want (match (generalizing := false) o with
      | .ok i => k i
      | .err .ext => .err .ext
      | .err _ => failWith T sent
      | .panic s => .panic s) := by
  cases o with
  | ok i => exact hk i ho
  | err e => cases e <;> simp [failWith, hs]
  | panic s => exact ho

/-- `f, err := ToFloat64(val); if err != nil { fail }; return f != 0` -/
theorem good_nonzero {T : CastTables} {a : Ty} {o : Outcome Dyn} {sent : String}
    (ho : Good a o) (hs : wrapsRoot T.sentinels 4 sent = true) :
    Good .bool (match (generalizing := false) o with
      | .ok (.f64 b) => .ok (.bool (!Float.isZero Float.f64 b))
      | .ok _ => .err .ext
      | .err .ext => .err .ext
      | .err _ => failWith T sent
      | .panic s => .panic s) := by
  cases o with
  | ok i => cases i <;> simp [typeOf]
  | err e => cases e <;> simp [failWith, hs]
  | panic s => exact ho

theorem special_step {T : CastTables} {ext : Ext} {promised : String → Option Ty} {fuel : Nat}
    (ih : Inv T ext promised fuel)
    (id : String) (v : Dyn) (want : Ty)
    (h : specialOK T promised want (typeOf v) id = true) :
    Good want (special T ext (fuel + 1) id v) := by
  obtain ⟨sg, hsg, hv, hres, hcal, hsent⟩ := specialOK_unpack h
  have hid := specialSig_cases hsg
  simp only [List.mem_cons, List.mem_nil_iff, or_false] at hid
  rcases hid with rfl | rfl | rfl | rfl | rfl | rfl | rfl | rfl | rfl | rfl <;>
    simp [specialSig] at hsg <;> subst hsg <;> simp at hres hcal hsent <;> subst hres
  · -- binary.default
    simp [special]
    split
    · simp [typeOf]
    · exact failWith_good T _ _ hsent
  · -- bool.string
    cases v with
    | str s =>
      simp [special]
      split
      · simp [typeOf]
      · exact good_nonzero (ih.call "ToFloat64" (.str s) _ (calleeTy_caster hcal.1 hcal.2 hv)) hsent
    | _ => simp [special]
  · -- bool.number
    simp [special]
    exact good_nonzero (ih.call "ToFloat64" v _ (calleeTy_caster hcal.1 hcal.2 hv)) hsent
  · -- date.string
    cases v with
    | str s =>
      simp [special]
      split
      · simp [typeOf]
      · exact good_chain (ih.call "ToInt64" (.str s) _ (calleeTy_caster hcal.1.1 hcal.1.2 hv)) hsent
          (fun i hi => ih.call "ToDate" i _ (calleeTy_caster hcal.2.1 hcal.2.2 (by rw [hi]; simp)))
    | _ => simp [special]
  · -- date.bytes
    cases v with
    | bytes s =>
      simp [special]
      have h1 := ih.call "ToDate" (.str s) _ (calleeTy_caster (a := .str) hcal.2.1 hcal.2.2 (by simp))
      cases hc : callNamed T ext fuel "ToDate" (.str s) with
      | ok t => simpa [hc] using h1
      | panic p => simp [hc] at h1
      | err e =>
        cases e <;> simp <;>
        exact good_chain (ih.call "ToInt64" (.bytes s) _ (calleeTy_caster hcal.1.1 hcal.1.2 hv)) hsent
          (fun i hi => ih.call "ToDate" i _ (calleeTy_caster hcal.2.1 hcal.2.2 (by rw [hi]; simp)))
    | _ => simp [special]
  · -- date.default
    simp [special]
    exact good_chain (ih.call "ToString" v _ (calleeTy_caster hcal.1.1 hcal.1.2 hv)) hsent
      (fun i hi => ih.call "ToDate" i _ (calleeTy_caster hcal.2.1 hcal.2.2 (by rw [hi]; simp)))
  · -- time.string
    cases v with
    | str s =>
      simp [special]
      split
      · split
        · simp [typeOf]
        · exact good_chain (ih.call "ToInt64" (.str s) _ (calleeTy_caster hcal.1.1 hcal.1.2 hv)) hsent
            (fun i hi => ih.call "ToTime" i _ (calleeTy_caster hcal.2.1 hcal.2.2 (by rw [hi]; simp)))
      · simp
    | _ => simp [special]
  · -- time.bytes
    cases v with
    | bytes s =>
      simp [special]
      have h1 := ih.call "ToTime" (.str s) _ (calleeTy_caster (a := .str) hcal.2.1 hcal.2.2 (by simp))
      cases hc : callNamed T ext fuel "ToTime" (.str s) with
      | ok t => simpa [hc] using h1
      | panic p => simp [hc] at h1
      | err e =>
        cases e <;> simp <;>
        exact good_chain (ih.call "ToInt64" (.bytes s) _ (calleeTy_caster hcal.1.1 hcal.1.2 hv)) hsent
          (fun i hi => ih.call "ToTime" i _ (calleeTy_caster hcal.2.1 hcal.2.2 (by rw [hi]; simp)))
    | _ => simp [special]
  · -- time.default
    simp [special]
    exact good_chain (ih.call "ToInt64" v _ (calleeTy_caster hcal.1.1 hcal.1.2 hv)) hsent
      (fun i hi => ih.call "ToTime" i _ (calleeTy_caster hcal.2.1 hcal.2.2 (by rw [hi]; simp)))
  · -- timestamp.string
    cases v with
    | str s =>
      simp [special]
      split
      · split
        · simp [typeOf]
        · exact failWith_good T _ _ hsent
      · simp
    | _ => simp [special]

theorem inv_all {T : CastTables} {promised : String → Option Ty} (ext : Ext)
    (hc : CastersOK T promised) (hb : BinOK T) : ∀ fuel, Inv T ext promised fuel
  | 0 => inv_zero T ext promised
  | fuel + 1 =>
    ⟨call_step hc hb (inv_all ext hc hb fuel), branch_step hb (inv_all ext hc hb fuel),
      special_step (inv_all ext hc hb fuel)⟩

/-! ## Part 3: typedness and totality for any table that passes the check -/

theorem tablesOKFor_unpack {promised : String → Option Ty} {T : CastTables}
    (h : tablesOKFor promised T = true) :
    CastersOK T promised ∧ BinOK T ∧ dispatchOK T promised = true := by
  simp only [tablesOKFor, Bool.and_eq_true, List.all_eq_true] at h
  obtain ⟨⟨⟨h1, h2⟩, h3⟩, _⟩ := h
  exact ⟨h1, h2, h3⟩

theorem inv_of_ok {T : CastTables} (ext : Ext) (h : tablesOK T = true) (fuel : Nat) :
    Inv T ext resultTyOfCaster? fuel :=
  let ⟨hc, hb, _⟩ := tablesOKFor_unpack h
  inv_all ext hc hb fuel

theorem isCaster_of_mem {T : CastTables} {name : String}
    (h : name ∈ T.casters.map (·.name)) : isCaster T name = true := by
  simp only [List.mem_map] at h
  obtain ⟨c, hc, rfl⟩ := h
  simp only [isCaster, List.find?_isSome]
  exact ⟨c, hc, by simp⟩

/-- The promised type of a caster of a checked table. -/
theorem promised_of_ok {T : CastTables} (h : tablesOK T = true) {name : String}
    (hn : isCaster T name = true) : ∃ t, resultTyOfCaster? name = some t ∧ t ≠ .none := by
  obtain ⟨hc, _, _⟩ := tablesOKFor_unpack h
  unfold isCaster at hn
  cases hf : T.casters.find? (fun c => c.name == name) with
  | none => simp [hf] at hn
  | some c =>
    obtain ⟨hmem, hname⟩ := find_caster hf
    obtain ⟨t, hp, htn, _, _⟩ := casterOK_branch (hc c hmem)
    exact ⟨t, hname ▸ hp, htn⟩

/-- Main lemma for a caster: at every fuel the outcome is a value of the promised type (nil
    for nil), an error that wraps the root sentinel or the model's EXT marker — never a panic. -/
theorem callNamed_good {T : CastTables} (ext : Ext) (h : tablesOK T = true) {name : String}
    (hn : isCaster T name = true) {t : Ty} (ht : resultTyOfCaster? name = some t) (fuel : Nat)
    (v : Dyn) : Good (wantFor t (typeOf v)) (callNamed T ext fuel name v) := by
  apply (inv_of_ok ext h fuel).call
  unfold calleeTy wantFor
  simp only [hn, if_true, ht]
  split <;> rfl

theorem wantFor_eq_none {t vt : Ty} (ht : t ≠ .none) : wantFor t vt = .none ↔ vt = .none := by
  unfold wantFor
  split <;> simp_all

theorem good_ok_iff {t : Ty} (ht : t ≠ .none) {v r : Dyn}
    (hg : Good (wantFor t (typeOf v)) (.ok r)) :
    (r = .nil ↔ v = .nil) ∧ (v ≠ .nil → typeOf r = t) := by
  simp only [good_ok] at hg
  constructor
  · rw [← typeOf_eq_none, hg, wantFor_eq_none ht, typeOf_eq_none]
  · intro hv
    have : ¬ typeOf v = .none := fun h => hv (typeOf_eq_none.mp h)
    simpa [wantFor, this] using hg

/-- C10 (typedness) for the casters: a normal result is nil exactly for nil input and otherwise
    has exactly the promised type. -/
theorem cast_typed (T : CastTables) (ext : Ext) (h : tablesOK T = true) (name : String)
    (v r : Dyn) (hn : isCaster T name = true) (hr : castNamed T ext name v = .ok r) :
    (r = .nil ↔ v = .nil) ∧ (v ≠ .nil → some (typeOf r) = resultTyOfCaster? name) := by
  obtain ⟨t, ht, htn⟩ := promised_of_ok h hn
  have hg := callNamed_good ext h hn ht 24 v
  unfold castNamed at hr
  rw [hr] at hg
  obtain ⟨h1, h2⟩ := good_ok_iff htn hg
  exact ⟨h1, fun hv => by rw [ht, h2 hv]⟩

/-- C10 (totality): no cast panics. -/
theorem cast_no_panic (T : CastTables) (ext : Ext) (h : tablesOK T = true) (name : String)
    (v : Dyn) (hn : isCaster T name = true) (s : String) : castNamed T ext name v ≠ .panic s := by
  obtain ⟨t, ht, _⟩ := promised_of_ok h hn
  have hg := callNamed_good ext h hn ht 24 v
  intro hp
  unfold castNamed at hp
  simp [hp] at hg

/-- C10 (error class): every error wraps `ErrUnableToCast` (or is the model's EXT marker). -/
theorem cast_err (T : CastTables) (ext : Ext) (h : tablesOK T = true) (name : String)
    (v : Dyn) (hn : isCaster T name = true) (e : ErrClass)
    (he : castNamed T ext name v = .err e) : e = .cast ∨ e = .ext := by
  obtain ⟨t, ht, _⟩ := promised_of_ok h hn
  have hg := callNamed_good ext h hn ht 24 v
  unfold castNamed at he
  simpa [he] using hg

/-- `case nil` of every caster: nil is handed back. -/
theorem cast_nil (T : CastTables) (ext : Ext) (h : tablesOK T = true) (name : String)
    (hn : isCaster T name = true) : castNamed T ext name .nil = .ok .nil := by
  obtain ⟨hc, _, _⟩ := tablesOKFor_unpack h
  unfold isCaster at hn
  cases hf : T.casters.find? (fun c => c.name == name) with
  | none => simp [hf] at hn
  | some c =>
    obtain ⟨hmem, _⟩ := find_caster hf
    obtain ⟨t, _, _, hnil, _⟩ := casterOK_branch (hc c hmem)
    unfold castNamed
    rw [show (24 : Nat) = 22 + 1 + 1 from rfl]
    simp only [callNamed, hf, typeOf]
    generalize findClause c Ty.none = br at hnil
    unfold nilBranchOK at hnil
    split at hnil
    · simp [evalBranch]
    · simp [evalBranch, evalE]
    · simp at hnil

/-! ### `cast.To` -/

theorem castTo_good {T : CastTables} (ext : Ext) (h : tablesOK T = true) {t : Ty} (ht : t ≠ .none)
    (v : Dyn) : Good (wantFor t (typeOf v)) (castTo T ext t v) := by
  obtain ⟨_, _, hd⟩ := tablesOKFor_unpack h
  simp only [dispatchOK, Bool.and_eq_true, List.all_eq_true] at hd
  obtain ⟨hd1, hd2⟩ := hd
  unfold castTo
  cases hf : T.dispatchTo.find? (fun p => p.1 == t) with
  | some p =>
    obtain ⟨t', br⟩ := p
    have h1 := hd1 t (mem_allTys t)
    simp only [hf, beq_iff_eq, ht, if_false, Bool.and_eq_true, List.all_eq_true] at h1
    exact (inv_of_ok ext h 24).branch "To" br v _ (h1.2 (typeOf v) (mem_allTys _))
  | none =>
    simp only
    generalize T.dispatchToDefault = d at hd2
    split at hd2
    · rename_i s
      rw [show (24 : Nat) = 23 + 1 from rfl]
      simp only [evalBranch]
      exact failWith_good T s _ hd2
    · simp at hd2

/-- C10 for `cast.To(sample of type t, v)`, `t` not the nil sample. -/
theorem castTo_typed (T : CastTables) (ext : Ext) (h : tablesOK T = true) (t : Ty) (ht : t ≠ .none)
    (v r : Dyn) (hr : castTo T ext t v = .ok r) :
    (r = .nil ↔ v = .nil) ∧ (v ≠ .nil → typeOf r = t) := by
  have hg := castTo_good ext h ht v
  rw [hr] at hg
  exact good_ok_iff ht hg

/-- `cast.To(nil, v)` returns `v` itself. -/
theorem castTo_none (T : CastTables) (ext : Ext) (h : tablesOK T = true) (v : Dyn) :
    castTo T ext .none v = .ok v := by
  obtain ⟨_, _, hd⟩ := tablesOKFor_unpack h
  simp only [dispatchOK, Bool.and_eq_true, List.all_eq_true] at hd
  have h1 := hd.1 .none (mem_allTys _)
  unfold castTo
  cases hf : T.dispatchTo.find? (fun p => p.1 == Ty.none) with
  | some p =>
    obtain ⟨t', br⟩ := p
    simp only [hf, beq_self_eq_true, if_true, beq_iff_eq] at h1
    subst h1
    rw [show (24 : Nat) = 23 + 1 from rfl]
    simp [evalBranch, evalE]
  | none => simp [hf] at h1

theorem castTo_no_panic (T : CastTables) (ext : Ext) (h : tablesOK T = true) (t : Ty) (v : Dyn)
    (s : String) : castTo T ext t v ≠ .panic s := by
  intro hp
  by_cases ht : t = .none
  · subst ht
    rw [castTo_none T ext h v] at hp
    cases hp
  · have hg := castTo_good ext h ht v
    simp [hp] at hg

theorem castTo_err (T : CastTables) (ext : Ext) (h : tablesOK T = true) (t : Ty) (v : Dyn)
    (e : ErrClass) (he : castTo T ext t v = .err e) : e = .cast ∨ e = .ext := by
  by_cases ht : t = .none
  · subst ht
    rw [castTo_none T ext h v] at he
    cases he
  · have hg := castTo_good ext h ht v
    simpa [he] using hg

/-- The oracle of the differential harness (`CastSpec.typedViolation`) accepts every outcome
    the soundness theorem allows, the EXT marker aside. -/
theorem typedViolation_of_good {t : Ty} (ht : t ≠ .none) {v : Dyn} {o : Outcome Dyn}
    (hg : Good (wantFor t (typeOf v)) o) :
    CastSpec.typedViolation t v o = none ∨ o = .err .ext := by
  cases o with
  | panic s => exact absurd hg (by simp)
  | err e =>
    simp only [good_err] at hg
    rcases hg with rfl | rfl
    · left; rfl
    · right; rfl
  | ok r =>
    left
    obtain ⟨h1, h2⟩ := good_ok_iff ht hg
    unfold CastSpec.typedViolation
    simp only
    split
    · rfl
    · rename_i hr; exact absurd (h1.mpr rfl) hr
    · rename_i hv; exact absurd (h1.mp rfl) hv
    · rename_i hv _ _; simp [h2 hv]

/-! ## Part 4: the regenerated tables -/

/-- The conversion functions of pkg/cast. -/
def casterNames : List String :=
  ["ToInt", "ToInt64", "ToInt32", "ToInt16", "ToInt8", "ToUint", "ToUint64", "ToUint32", "ToUint16",
   "ToUint8", "ToFloat64", "ToFloat32", "ToBool", "ToString", "ToNumber", "ToBinary", "ToTime",
   "ToDate", "ToTimestamp"]

set_option maxRecDepth 100000 in
theorem casterNames_present : casterNames.all (isCaster genTables) = true := by decide

theorem gen_isCaster {name : String} (hn : name ∈ casterNames) : isCaster genTables name = true :=
  List.all_eq_true.mp casterNames_present name hn

/-- C10 for the current source, typedness. -/
theorem gen_cast_typed (ext : Ext) (name : String) (hn : name ∈ casterNames) (v r : Dyn)
    (hr : castNamed genTables ext name v = .ok r) :
    (r = .nil ↔ v = .nil) ∧ (v ≠ .nil → some (typeOf r) = resultTyOfCaster? name) :=
  cast_typed genTables ext genTables_ok name v r (gen_isCaster hn) hr

/-- C10 for the current source, totality. -/
theorem gen_cast_no_panic (ext : Ext) (name : String) (hn : name ∈ casterNames) (v : Dyn)
    (s : String) : castNamed genTables ext name v ≠ .panic s :=
  cast_no_panic genTables ext genTables_ok name v (gen_isCaster hn) s

/-- C10 for the current source, error class. -/
theorem gen_cast_err (ext : Ext) (name : String) (hn : name ∈ casterNames) (v : Dyn) (e : ErrClass)
    (he : castNamed genTables ext name v = .err e) : e = .cast ∨ e = .ext :=
  cast_err genTables ext genTables_ok name v (gen_isCaster hn) e he

theorem gen_cast_nil (ext : Ext) (name : String) (hn : name ∈ casterNames) :
    castNamed genTables ext name .nil = .ok .nil :=
  cast_nil genTables ext genTables_ok name (gen_isCaster hn)

theorem gen_castTo_typed (ext : Ext) (t : Ty) (ht : t ≠ .none) (v r : Dyn)
    (hr : castTo genTables ext t v = .ok r) : (r = .nil ↔ v = .nil) ∧ (v ≠ .nil → typeOf r = t) :=
  castTo_typed genTables ext genTables_ok t ht v r hr

theorem gen_castTo_none (ext : Ext) (v : Dyn) : castTo genTables ext .none v = .ok v :=
  castTo_none genTables ext genTables_ok v

theorem gen_castTo_no_panic (ext : Ext) (t : Ty) (v : Dyn) (s : String) :
    castTo genTables ext t v ≠ .panic s :=
  castTo_no_panic genTables ext genTables_ok t v s

theorem gen_castTo_err (ext : Ext) (t : Ty) (v : Dyn) (e : ErrClass)
    (he : castTo genTables ext t v = .err e) : e = .cast ∨ e = .ext :=
  castTo_err genTables ext genTables_ok t v e he

/-- C10 in the words of the harness oracle: for every caster, source and stdlib oracle, the
    model's outcome is accepted by `CastSpec.typedViolation` or is the EXT marker. -/
theorem gen_cast_no_violation (ext : Ext) (name : String) (hn : name ∈ casterNames) (v : Dyn)
    (want : Ty) (hw : resultTyOfCaster? name = some want) :
    CastSpec.typedViolation want v (castNamed genTables ext name v) = none ∨
      castNamed genTables ext name v = .err .ext := by
  obtain ⟨t, ht, htn⟩ := promised_of_ok genTables_ok (gen_isCaster hn)
  have : t = want := by rw [ht] at hw; exact Option.some.inj hw
  subst this
  exact typedViolation_of_good htn (callNamed_good ext genTables_ok (gen_isCaster hn) ht 24 v)

theorem gen_castTo_no_violation (ext : Ext) (t : Ty) (ht : t ≠ .none) (v : Dyn) :
    CastSpec.typedViolation t v (castTo genTables ext t v) = none ∨
      castTo genTables ext t v = .err .ext :=
  typedViolation_of_good ht (castTo_good ext genTables_ok ht v)


/-- C10 for the casters of the current source, in one statement. -/
theorem gen_cast_C10 (ext : Ext) (name : String) (hn : name ∈ casterNames) (v : Dyn) :
    match castNamed genTables ext name v with
    | .ok r => (r = .nil ↔ v = .nil) ∧ (v ≠ .nil → some (typeOf r) = resultTyOfCaster? name)
    | .err e => e = .cast ∨ e = .ext
    | .panic _ => False := by
  cases h : castNamed genTables ext name v with
  | ok r => exact gen_cast_typed ext name hn v r h
  | err e => exact gen_cast_err ext name hn v e h
  | panic s => exact gen_cast_no_panic ext name hn v s h

/-- C10 for `cast.To` of the current source, in one statement (`t` = dynamic type of the
    sample; `Ty.none` = nil sample, `Ty.other` = a sample of a type without a case). -/
theorem gen_castTo_C10 (ext : Ext) (t : Ty) (v : Dyn) :
    match castTo genTables ext t v with
    | .ok r => if t = .none then r = v else (r = .nil ↔ v = .nil) ∧ (v ≠ .nil → typeOf r = t)
    | .err e => e = .cast ∨ e = .ext
    | .panic _ => False := by
  cases h : castTo genTables ext t v with
  | ok r =>
    simp only
    split
    · rename_i ht
      subst ht
      rw [gen_castTo_none] at h
      exact (Outcome.ok.inj h).symm
    · rename_i ht
      exact gen_castTo_typed ext t ht v r h
  | err e => exact gen_castTo_err ext t v e h
  | panic s => exact gen_castTo_no_panic ext t v s h

end CastTyped
end Jl
