/-
  Proofs.NoPanic — C17, model side: no modelled operation of values, rows, templates, importers,
  exporters, paths or streamers returns `Outcome.panic`, whatever the key, index, path or data,
  over the cast tables generated from the source (`genTables`) and for every `Ext`.

  The only panic sites of the models are
    * `Cast.binPut` / `Cast.binGet` (index expressions of binary_ops.go) — excluded by
      `CastTyped.gen_cast_no_panic` / `gen_castTo_no_panic`;
    * `Value.importFromBinary`: `str.(string)` on `ToString`'s result — reached only with a
      non-nil source (`importCell` returns before for nil, as `value.Import` does), for which
      `gen_cast_typed` gives a Go string;
    * `Value.exportVal`, Binary format: `b.([]byte)` on `ToBinary`'s result — reached only with a
      non-nil raw value (`Export` returns nil before), for which `gen_cast_typed` gives `[]byte`.
  Everything else propagates.  The proofs follow the recursion of the definitions: fuel
  (`importInto`, `Stream.loop`, `ofYaml`, `ofInline`), lists, and the mutual structural recursions
  of `exportVal`, `ofJV` and `marshalDyn`.

  Last section: `marshalExported` replaces the exported value by the raw one in its fallback
  branch; `exportCell_shape` / `marshalVal_cell` show that this is not observable.
-/
import Model.Template
import Model.Path
import Model.Stream
import Model.Jl
import Proofs.CastTyped

namespace Jl.NoPanic
open Jl Jl.Value Cast CastTyped

/-- The outcome is not a panic. -/
def NP {α : Type} (o : Outcome α) : Prop := ∀ s, o ≠ .panic s

theorem np_ok {α : Type} (a : α) : NP (Outcome.ok a) := fun _ h => by cases h
theorem np_err {α : Type} (e : ErrClass) : NP (Outcome.err e : Outcome α) := fun _ h => by cases h

theorem np_castNamed (ext : Ext) {name : String} (hn : name ∈ casterNames) (v : Dyn) :
    NP (castNamed genTables ext name v) := fun s => gen_cast_no_panic ext name hn v s

theorem np_castTo (ext : Ext) (t : Ty) (v : Dyn) : NP (castTo genTables ext t v) :=
  fun s => gen_castTo_no_panic ext t v s

theorem np_exportFail {o : Outcome Dyn} (h : NP o) : NP (exportFail o) := by
  intro s hp
  unfold exportFail at hp
  split at hp
  · cases hp
  · cases hp
  · exact h s hp

theorem np_importFail {o : Outcome Dyn} (h : NP o) : NP (importFail o) := by
  intro s hp
  unfold importFail at hp
  split at hp
  · cases hp
  · cases hp
  · exact h s hp

theorem exportFail_ok {o : Outcome Dyn} {r : Dyn} (h : exportFail o = .ok r) : o = .ok r := by
  unfold exportFail at h
  split at h
  · cases h
  · cases h
  · exact h

theorem importFail_ok {o : Outcome Dyn} {r : Dyn} (h : importFail o = .ok r) : o = .ok r := by
  unfold importFail at h
  split at h
  · cases h
  · cases h
  · exact h

/-- A non-nil source converted by `ToString` gives a Go string. -/
theorem toString_str (ext : Ext) {v r : Dyn} (hv : v ≠ .nil)
    (h : castNamed genTables ext "ToString" v = .ok r) : ∃ s, r = .str s := by
  obtain ⟨_, h2⟩ := gen_cast_typed ext "ToString" (by simp [casterNames]) v r h
  have ht := h2 hv
  have : typeOf r = .str := by
    have : some (typeOf r) = some Ty.str := ht
    exact Option.some.inj this
  cases r <;> simp [typeOf] at this
  exact ⟨_, rfl⟩

/-- A non-nil source converted by `ToBinary` gives a byte slice. -/
theorem toBinary_bytes (ext : Ext) {v r : Dyn} (hv : v ≠ .nil)
    (h : castNamed genTables ext "ToBinary" v = .ok r) : ∃ b, r = .bytes b := by
  obtain ⟨_, h2⟩ := gen_cast_typed ext "ToBinary" (by simp [casterNames]) v r h
  have ht := h2 hv
  have : typeOf r = .bytes := by
    have : some (typeOf r) = some Ty.bytes := ht
    exact Option.some.inj this
  cases r <;> simp [typeOf] at this
  exact ⟨_, rfl⟩

theorem np_importFrom (ext : Ext) {dflt : String} (hn : dflt ∈ casterNames) (val : Dyn) (typ : Ty) :
    NP (importFrom ⟨genTables, ext⟩ dflt val typ) := by
  unfold importFrom
  split
  · exact np_importFail (np_castNamed ext hn val)
  · exact np_importFail (np_castTo ext typ val)

theorem np_importFromBinary (ext : Ext) (val : Dyn) (typ : Ty) (hv : val ≠ .nil) :
    NP (importFromBinary ⟨genTables, ext⟩ val typ) := by
  intro s hp
  unfold importFromBinary at hp
  split at hp
  · split at hp
    · cases hp
    · split at hp
      · cases hp
      · exact np_importFail (np_castTo ext typ _) s hp
  · rename_i h
    obtain ⟨_, hs⟩ := toString_str ext hv (importFail_ok h)
    cases hs
  · rename_i r hns hnn h
    obtain ⟨b, hs⟩ := toString_str ext hv (importFail_ok h)
    exact hns b hs
  · rename_i h1 h2 h3
    exact np_importFail (np_castNamed ext (by simp [casterNames]) val) s hp

/-- The nil guard of `importCell` (`value.Import` returns before for a nil value) is what keeps
    the assertion `str.(string)` safe: the unexported `importFromBinary` itself panics on nil. -/
theorem importFromBinary_nil (ext : Ext) (typ : Ty) :
    importFromBinary ⟨genTables, ext⟩ .nil typ =
      .panic "interface conversion: interface {} is nil, not string" := by
  unfold importFromBinary
  simp only [gen_cast_nil ext "ToString" (by simp [casterNames]), importFail]

theorem np_importByFormat (ext : Ext) (f : Format) (typ : Ty) (val : Dyn) (hv : val ≠ .nil) :
    NP (importByFormat ⟨genTables, ext⟩ f typ val) := by
  intro s hp
  unfold importByFormat at hp
  simp only at hp
  split at hp
  · cases hp
  · cases hp
  · cases hp
  · rename_i s' h
    cases hp
    revert h
    cases f
    · exact np_importFrom ext (by simp [casterNames]) val typ s
    · exact np_importFrom ext (by simp [casterNames]) val typ s
    · exact np_importFrom ext (by simp [casterNames]) val typ s
    · exact np_importFromBinary ext val typ hv s
    · exact np_importFrom ext (by simp [casterNames]) val typ s
    · exact np_importFrom ext (by simp [casterNames]) val typ s
    · exact np_importFrom ext (by simp [casterNames]) val typ s
    · exact np_castTo ext typ val s
    · exact np_castTo ext typ val s
    · intro h; cases h

/-- Target 1. -/
theorem importCell_no_panic (ext : Ext) (f : Format) (typ : Ty) (v : Dyn) (s : String) :
    importCell ⟨genTables, ext⟩ f typ v ≠ .panic s := by
  intro hp
  unfold importCell at hp
  split at hp
  · cases hp
  · split at hp
    · cases hp
    · exact np_importByFormat ext f typ _ (by simp) s hp
  · cases hp
  · rename_i hnil _ _
    exact np_importByFormat ext f typ v (fun h => hnil h) s hp

/-! ### Rows importing into their own cells -/

theorem np_importAtKeyWith {imp : Val → Dyn → Outcome (Val × Option ErrClass)}
    (himp : ∀ c x, NP (imp c x)) (o : List (Bytes × Val)) (k : Bytes) (x : Dyn) :
    NP (importAtKeyWith imp o k x) := by
  intro s hp
  unfold importAtKeyWith at hp
  split at hp
  · split at hp
    · cases hp
    · cases hp
    · rename_i s' h
      exact himp _ _ s' h
  · cases hp

theorem np_importSliceWith {imp : Val → Dyn → Outcome (Val × Option ErrClass)}
    (himp : ∀ c x, NP (imp c x)) (o : List (Bytes × Val)) (i : Nat) (xs : List Dyn) :
    NP (importSliceWith imp o i xs) := by
  induction xs generalizing o i with
  | nil => intro s hp; simp [importSliceWith] at hp
  | cons x xs ih =>
    intro s hp
    unfold importSliceWith at hp
    split at hp
    · exact ih _ _ s hp
    · exact np_importAtKeyWith himp _ _ _ s hp

theorem np_importMapWith {imp : Val → Dyn → Outcome (Val × Option ErrClass)}
    (himp : ∀ c x, NP (imp c x)) (o : List (Bytes × Val)) (kvs : List (Bytes × Dyn)) :
    NP (importMapWith imp o kvs) := by
  induction kvs generalizing o with
  | nil => intro s hp; simp [importMapWith] at hp
  | cons kv kvs ih =>
    obtain ⟨k, x⟩ := kv
    intro s hp
    unfold importMapWith at hp
    split at hp
    · exact ih _ s hp
    · exact np_importAtKeyWith himp _ _ _ s hp

theorem np_importInto (ext : Ext) (fuel : Nat) : ∀ (c : Val) (x : Dyn),
    NP (importInto ⟨genTables, ext⟩ fuel c x) := by
  induction fuel with
  | zero => intro c x s hp; simp [importInto] at hp
  | succ fuel ih =>
    intro c x s hp
    unfold importInto at hp
    split at hp
    · exact importCell_no_panic ext _ _ x s hp
    · split at hp
      · split at hp
        · cases hp
        · cases hp
        · rename_i s' h
          exact np_importSliceWith ih _ _ _ s' h
      · split at hp
        · cases hp
        · cases hp
        · rename_i s' h
          exact np_importMapWith ih _ _ s' h
      · cases hp

/-- Target 2. -/
theorem importInto_no_panic (ext : Ext) (fuel : Nat) (c : Val) (x : Dyn) (s : String) :
    importInto ⟨genTables, ext⟩ fuel c x ≠ .panic s := np_importInto ext fuel c x s

theorem importVal_no_panic (ext : Ext) (c : Val) (x : Dyn) (s : String) :
    importVal ⟨genTables, ext⟩ c x ≠ .panic s := np_importInto ext 64 c x s

theorem importAtKeyWith_no_panic (ext : Ext) (fuel : Nat) (o : List (Bytes × Val)) (k : Bytes)
    (x : Dyn) (s : String) :
    importAtKeyWith (importInto ⟨genTables, ext⟩ fuel) o k x ≠ .panic s :=
  np_importAtKeyWith (np_importInto ext fuel) o k x s

theorem importSliceWith_no_panic (ext : Ext) (fuel : Nat) (o : List (Bytes × Val)) (i : Nat)
    (xs : List Dyn) (s : String) :
    importSliceWith (importInto ⟨genTables, ext⟩ fuel) o i xs ≠ .panic s :=
  np_importSliceWith (np_importInto ext fuel) o i xs s

theorem importMapWith_no_panic (ext : Ext) (fuel : Nat) (o : List (Bytes × Val))
    (kvs : List (Bytes × Dyn)) (s : String) :
    importMapWith (importInto ⟨genTables, ext⟩ fuel) o kvs ≠ .panic s :=
  np_importMapWith (np_importInto ext fuel) o kvs s

theorem parseMember_no_panic (ext : Ext) (o : List (Bytes × Val)) (k : Bytes) (x : Dyn)
    (s : String) : parseMember ⟨genTables, ext⟩ o k x ≠ .panic s := by
  intro hp
  unfold parseMember at hp
  split at hp
  · split at hp
    · cases hp
    · cases hp
    · rename_i s' h
      exact importVal_no_panic ext _ _ s' h
  · cases hp

theorem parseMembers_no_panic (ext : Ext) (o : List (Bytes × Val)) (l : List (Bytes × Dyn))
    (s : String) : parseMembers ⟨genTables, ext⟩ o l ≠ .panic s := by
  induction l generalizing o with
  | nil => intro hp; simp [parseMembers] at hp
  | cons kv l ih =>
    obtain ⟨k, x⟩ := kv
    intro hp
    unfold parseMembers at hp
    split at hp
    · exact ih _ hp
    · exact parseMember_no_panic ext _ _ _ s hp

/-! ### Export -/

theorem np_exportCell (ext : Ext) (raw : Dyn) (f : Format) (typ : Ty) :
    NP (exportVal ⟨genTables, ext⟩ (.cell raw f typ)) := by
  intro s hp
  rw [exportVal.eq_def] at hp
  simp only at hp
  split at hp
  · cases hp
  · rename_i hnil
    split at hp
    · exact np_exportFail (np_castNamed ext (by simp [casterNames]) raw) s hp
    · exact np_exportFail (np_castNamed ext (by simp [casterNames]) raw) s hp
    · exact np_exportFail (np_castNamed ext (by simp [casterNames]) raw) s hp
    · split at hp
      · cases hp
      · rename_i r hnb h
        obtain ⟨b, hb⟩ := toBinary_bytes ext (fun h => hnil h) (exportFail_ok h)
        exact hnb b hb
      · exact np_exportFail (np_castNamed ext (by simp [casterNames]) raw) s hp
    · split at hp
      · exact np_exportFail (np_castNamed ext (by simp [casterNames]) _) s hp
      · exact np_exportFail (np_castNamed ext (by simp [casterNames]) raw) s hp
    · split at hp
      · exact np_exportFail (np_castNamed ext (by simp [casterNames]) _) s hp
      · exact np_exportFail (np_castNamed ext (by simp [casterNames]) raw) s hp
    · exact np_exportFail (np_castNamed ext (by simp [casterNames]) raw) s hp
    · cases hp
    · cases hp
    · cases hp

mutual
  /-- Target 3. -/
  theorem exportVal_no_panic (ext : Ext) : ∀ (v : Val) (s : String),
      exportVal ⟨genTables, ext⟩ v ≠ .panic s
    | .cell raw f typ, s => np_exportCell ext raw f typ s
    | .row ms, s => by
      intro hp
      rw [exportVal.eq_def] at hp
      simp only at hp
      split at hp
      · cases hp
      · cases hp
      · rename_i s' h
        exact exportMembers_no_panic ext ms s' h
  theorem exportMembers_no_panic (ext : Ext) : ∀ (ms : Members) (s : String),
      exportMembers ⟨genTables, ext⟩ ms ≠ .panic s
    | .nil, s => by
      intro hp
      rw [exportMembers.eq_def] at hp
      cases hp
    | .cons k v ms, s => by
      intro hp
      rw [exportMembers.eq_def] at hp
      simp only at hp
      split at hp
      · split at hp
        · cases hp
        · cases hp
        · rename_i s' h
          exact exportMembers_no_panic ext ms s' h
      · cases hp
      · rename_i s' h
        exact exportVal_no_panic ext v s' h
end

/-! ### Parsed values -/

mutual
  /-- Target 4. -/
  theorem ofJV_no_panic (ext : Ext) : ∀ (v : JV) (s : String), ofJV ⟨genTables, ext⟩ v ≠ .panic s
    | .null, s => by rw [ofJV.eq_def]; intro hp; cases hp
    | .bool b, s => by rw [ofJV.eq_def]; intro hp; cases hp
    | .num l, s => by rw [ofJV.eq_def]; intro hp; cases hp
    | .str b, s => by rw [ofJV.eq_def]; intro hp; cases hp
    | .arr xs, s => by
      intro hp
      rw [ofJV.eq_def] at hp
      simp only at hp
      split at hp
      · cases hp
      · cases hp
      · rename_i s' h
        exact ofJVList_no_panic ext xs s' h
    | .obj ms, s => by
      intro hp
      rw [ofJV.eq_def] at hp
      simp only at hp
      split at hp
      · split at hp
        · cases hp
        · cases hp
        · rename_i s' h
          exact parseMembers_no_panic ext _ _ s' h
      · cases hp
      · rename_i s' h
        exact ofJVMembers_no_panic ext ms s' h
  theorem ofJVList_no_panic (ext : Ext) : ∀ (xs : JVList) (s : String),
      ofJVList ⟨genTables, ext⟩ xs ≠ .panic s
    | .nil, s => by rw [ofJVList.eq_def]; intro hp; cases hp
    | .cons x xs, s => by
      intro hp
      rw [ofJVList.eq_def] at hp
      simp only at hp
      split at hp
      · split at hp
        · cases hp
        · cases hp
        · rename_i s' h
          exact ofJVList_no_panic ext xs s' h
      · cases hp
      · rename_i s' h
        exact ofJV_no_panic ext x s' h
  theorem ofJVMembers_no_panic (ext : Ext) : ∀ (ms : JVMembers) (s : String),
      ofJVMembers ⟨genTables, ext⟩ ms ≠ .panic s
    | .nil, s => by rw [ofJVMembers.eq_def]; intro hp; cases hp
    | .cons k v ms, s => by
      intro hp
      rw [ofJVMembers.eq_def] at hp
      simp only at hp
      split at hp
      · split at hp
        · cases hp
        · cases hp
        · rename_i s' h
          exact ofJVMembers_no_panic ext ms s' h
      · cases hp
      · rename_i s' h
        exact ofJV_no_panic ext v s' h
end

theorem unmarshalInto_no_panic (ext : Ext) (o : List (Bytes × Val)) (text : Bytes) (s : String) :
    unmarshalInto ⟨genTables, ext⟩ o text ≠ .panic s := by
  intro hp
  unfold unmarshalInto at hp
  simp only at hp
  split at hp
  · split at hp
    · cases hp
    · cases hp
    · cases hp
    · rename_i s' h
      exact parseMembers_no_panic ext _ _ s' h
  · cases hp
  · rename_i s' h
    exact ofJVMembers_no_panic ext _ s' h

/-! ### Printing -/

open RowPrint in
theorem np_marshalExported {env : Env} {e raw : Dyn} (hraw : NP (marshalDyn env raw)) :
    NP (marshalExported env e raw) := by
  intro s hp
  rw [marshalExported.eq_def] at hp
  split at hp
  · cases hp
  · cases hp
  · cases hp
  · cases hp
  · split at hp
    · cases hp
    · split at hp <;> cases hp
  · exact hraw s hp

open RowPrint in
mutual
  /-- Target 5. -/
  theorem marshalDyn_no_panic (ext : Ext) : ∀ (x : Dyn) (s : String),
      marshalDyn ⟨genTables, ext⟩ x ≠ .panic s
    | .nil, s => by rw [marshalDyn.eq_def]; intro hp; cases hp
    | .bool b, s => by rw [marshalDyn.eq_def]; intro hp; cases hp
    | .int _ v, s => by rw [marshalDyn.eq_def]; intro hp; cases hp
    | .f64 b, s => by
      rw [marshalDyn.eq_def]; intro hp; simp only at hp; split at hp <;> cases hp
    | .f32 b, s => by
      rw [marshalDyn.eq_def]; intro hp; simp only at hp; split at hp <;> cases hp
    | .str b, s => by rw [marshalDyn.eq_def]; intro hp; cases hp
    | .bytes b, s => by rw [marshalDyn.eq_def]; intro hp; cases hp
    | .num l, s => by
      rw [marshalDyn.eq_def]; intro hp; simp only at hp
      split at hp
      · cases hp
      · split at hp <;> cases hp
    | .time t, s => by
      rw [marshalDyn.eq_def]; intro hp; simp only at hp; split at hp <;> cases hp
    | .barr b, s => by rw [marshalDyn.eq_def]; intro hp; cases hp
    | .arr xs, s => by
      rw [marshalDyn.eq_def]; intro hp; simp only at hp
      split at hp
      · cases hp
      · cases hp
      · rename_i s' h
        exact marshalList_no_panic ext xs s' h
    | .gomap kvs, s => by
      rw [marshalDyn.eq_def]; intro hp; simp only at hp
      split at hp
      · cases hp
      · cases hp
      · rename_i s' h
        exact marshalMap_no_panic ext kvs s' h
    | .val v, s => by
      rw [marshalDyn.eq_def]
      exact marshalVal_no_panic ext v s
    | .other _, s => by rw [marshalDyn.eq_def]; intro hp; cases hp
  theorem marshalList_no_panic (ext : Ext) : ∀ (xs : DynList) (s : String),
      marshalList ⟨genTables, ext⟩ xs ≠ .panic s
    | .nil, s => by rw [marshalList.eq_def]; intro hp; cases hp
    | .cons x xs, s => by
      rw [marshalList.eq_def]; intro hp; simp only at hp
      split at hp
      · split at hp
        · cases hp
        · cases hp
        · rename_i s' h
          exact marshalList_no_panic ext xs s' h
      · cases hp
      · rename_i s' h
        exact marshalDyn_no_panic ext x s' h
  theorem marshalMap_no_panic (ext : Ext) : ∀ (m : DynMap) (s : String),
      marshalMap ⟨genTables, ext⟩ m ≠ .panic s
    | .nil, s => by rw [marshalMap.eq_def]; intro hp; cases hp
    | .cons k x m, s => by
      rw [marshalMap.eq_def]; intro hp; simp only at hp
      split at hp
      · split at hp
        · cases hp
        · cases hp
        · rename_i s' h
          exact marshalMap_no_panic ext m s' h
      · cases hp
      · rename_i s' h
        exact marshalDyn_no_panic ext x s' h
  theorem marshalVal_no_panic (ext : Ext) : ∀ (v : Val) (s : String),
      marshalVal ⟨genTables, ext⟩ v ≠ .panic s
    | .cell raw f typ, s => by
      rw [marshalVal.eq_def]; intro hp; simp only at hp
      split at hp
      · exact np_marshalExported (marshalDyn_no_panic ext raw) s hp
      · cases hp
      · rename_i s' h
        exact exportVal_no_panic ext _ s' h
    | .row ms, s => by
      rw [marshalVal.eq_def]; intro hp; simp only at hp
      split at hp
      · cases hp
      · cases hp
      · rename_i s' h
        exact marshalMembers_no_panic ext ms s' h
  theorem marshalMembers_no_panic (ext : Ext) : ∀ (ms : Members) (s : String),
      marshalMembers ⟨genTables, ext⟩ ms ≠ .panic s
    | .nil, s => by rw [marshalMembers.eq_def]; intro hp; cases hp
    | .cons k v ms, s => by
      rw [marshalMembers.eq_def]; intro hp; simp only at hp
      split at hp
      · exact marshalMembers_no_panic ext ms s hp
      · split at hp
        · split at hp
          · cases hp
          · cases hp
          · rename_i s' h
            exact marshalMembers_no_panic ext ms s' h
        · cases hp
        · rename_i s' h
          exact marshalVal_no_panic ext v s' h
end

theorem marshalExported_no_panic (ext : Ext) (e raw : Dyn) (s : String) :
    RowPrint.marshalExported ⟨genTables, ext⟩ e raw ≠ .panic s :=
  np_marshalExported (marshalDyn_no_panic ext raw) s

theorem marshalRow_no_panic (ext : Ext) (ms : Members) (s : String) :
    RowPrint.marshalRow ⟨genTables, ext⟩ ms ≠ .panic s :=
  marshalVal_no_panic ext (.row ms) s

/-! ### Templates, exporter and importer (one line) -/

open Template

theorem newValue_no_panic (ext : Ext) (v : Dyn) (f : Format) (typ : Ty) (s : String) :
    newValue ⟨genTables, ext⟩ v f typ ≠ .panic s := by
  intro hp
  unfold newValue at hp
  split at hp
  · cases hp
  · cases hp
  · cases hp
  · rename_i s' h
    exact gen_castTo_no_panic ext typ v s' h

theorem setExisting_no_panic (ext : Ext) (c : Val) (x : Dyn) (s : String) :
    setExisting ⟨genTables, ext⟩ c x ≠ .panic s := by
  intro hp
  unfold setExisting at hp
  simp only at hp
  split at hp
  · exact newValue_no_panic ext _ _ _ s hp
  · cases hp
  · exact newValue_no_panic ext _ _ _ s hp
  · rename_i s' h
    exact gen_castTo_no_panic ext _ x s' h

theorem cloneValue_no_panic (ext : Ext) (v : Val) (s : String) :
    cloneValue ⟨genTables, ext⟩ v ≠ .panic s :=
  newValue_no_panic ext _ _ _ s

theorem cloneInto_no_panic (ext : Ext) (acc r : List (Bytes × Val)) (s : String) :
    cloneInto ⟨genTables, ext⟩ acc r ≠ .panic s := by
  induction r generalizing acc with
  | nil => intro hp; simp [cloneInto] at hp
  | cons kv r ih =>
    obtain ⟨k, v⟩ := kv
    intro hp
    unfold cloneInto at hp
    split at hp
    · exact ih _ hp
    · cases hp
    · rename_i s' h
      exact cloneValue_no_panic ext v s' h

/-- Target 6. -/
theorem cloneRow_no_panic (ext : Ext) (r : List (Bytes × Val)) (s : String) :
    cloneRow ⟨genTables, ext⟩ r ≠ .panic s :=
  cloneInto_no_panic ext [] r s

theorem createRowEmpty_no_panic (ext : Ext) (t : Tmpl) (s : String) :
    createRowEmpty ⟨genTables, ext⟩ t ≠ .panic s :=
  cloneRow_no_panic ext t s

theorem withRow_no_panic (ext : Ext) (t : Tmpl) (name : Bytes) (sub : Tmpl) (s : String) :
    Template.withRow ⟨genTables, ext⟩ t name sub ≠ .panic s := by
  intro hp
  unfold Template.withRow at hp
  split at hp
  · cases hp
  · cases hp
  · rename_i s' h
    exact cloneRow_no_panic ext sub s' h

theorem fill_no_panic (ext : Ext) (row : List (Bytes × Val)) (k : Bytes) (x : Dyn) (s : String) :
    fill ⟨genTables, ext⟩ row k x ≠ .panic s := by
  intro hp
  unfold fill at hp
  split at hp
  · split at hp
    · cases hp
    · cases hp
    · rename_i s' h
      exact newValue_no_panic ext _ _ _ s' h
  · cases hp

theorem fillSlice_no_panic (ext : Ext) (row : List (Bytes × Val)) (i : Nat) (xs : List Dyn)
    (s : String) : fillSlice ⟨genTables, ext⟩ row i xs ≠ .panic s := by
  induction xs generalizing row i with
  | nil => intro hp; simp [fillSlice] at hp
  | cons x xs ih =>
    intro hp
    unfold fillSlice at hp
    split at hp
    · exact ih _ _ hp
    · exact fill_no_panic ext _ _ _ s hp

theorem fillPairs_no_panic (ext : Ext) (row : List (Bytes × Val)) (kvs : List (Bytes × Dyn))
    (s : String) : fillPairs ⟨genTables, ext⟩ row kvs ≠ .panic s := by
  induction kvs generalizing row with
  | nil => intro hp; simp [fillPairs] at hp
  | cons kv kvs ih =>
    obtain ⟨k, x⟩ := kv
    intro hp
    unfold fillPairs at hp
    split at hp
    · exact ih _ hp
    · exact fill_no_panic ext _ _ _ s hp

theorem createRow_no_panic (ext : Ext) (t : Tmpl) (v : Dyn) (s : String) :
    createRow ⟨genTables, ext⟩ t v ≠ .panic s := by
  intro hp
  unfold createRow at hp
  split at hp
  · cases hp
  · rename_i s' h
    exact cloneRow_no_panic ext t s' h
  · simp only at hp
    split at hp
    · split at hp
      · cases hp
      · cases hp
      · rename_i s' h
        exact fillSlice_no_panic ext _ _ _ s' h
    · split at hp
      · cases hp
      · cases hp
      · rename_i s' h
        exact fillPairs_no_panic ext _ _ s' h
    · split at hp
      · cases hp
      · cases hp
      · rename_i s' h
        exact fillPairs_no_panic ext _ _ s' h
    · exact unmarshalInto_no_panic ext _ _ s hp
    · exact unmarshalInto_no_panic ext _ _ s hp
    · cases hp

theorem exportLine_no_panic (ext : Ext) (t : Tmpl) (v : Dyn) (s : String) :
    exportLine ⟨genTables, ext⟩ t v ≠ .panic s := by
  intro hp
  unfold exportLine at hp
  split at hp
  · cases hp
  · rename_i s' h
    exact createRow_no_panic ext t v s' h
  · cases hp
  · split at hp
    · cases hp
    · cases hp
    · cases hp
    · rename_i s' h
      exact marshalRow_no_panic ext _ s' h

theorem getRow_no_panic (ext : Ext) (t : Tmpl) (line : Bytes) (s : String) :
    getRow ⟨genTables, ext⟩ t line ≠ .panic s := by
  intro hp
  unfold getRow at hp
  split at hp
  · cases hp
  · rename_i s' h
    exact createRowEmpty_no_panic ext t s' h
  · exact unmarshalInto_no_panic ext _ _ s hp

theorem jlLine_no_panic (ext : Ext) (ti to : Tmpl) (line : Bytes) (s : String) :
    jlLine ⟨genTables, ext⟩ ti to line ≠ .panic s := by
  intro hp
  unfold jlLine at hp
  split at hp
  · cases hp
  · rename_i s' h
    exact getRow_no_panic ext ti line s' h
  · cases hp
  · exact exportLine_no_panic ext to _ s hp

/-! ### Paths -/

/-- Target 7. -/
theorem importAtKeys_no_panic (ext : Ext) (row : List (Bytes × Val)) (keys : List Bytes) (x : Dyn)
    (s : String) : Path.importAtKeys ⟨genTables, ext⟩ row keys x ≠ .panic s := by
  induction keys generalizing row s with
  | nil => intro hp; simp [Path.importAtKeys] at hp
  | cons k rest ih =>
    intro hp
    cases rest with
    | nil =>
      simp only [Path.importAtKeys] at hp
      split at hp
      · cases hp
      · split at hp
        · cases hp
        · cases hp
        · rename_i s' h
          exact importVal_no_panic ext _ _ s' h
    | cons k2 rest2 =>
      simp only [Path.importAtKeys] at hp
      split at hp
      · cases hp
      · split at hp
        · cases hp
        · split at hp
          · cases hp
          · cases hp
          · rename_i s' h
            exact ih _ s' h

theorem importAtPath_no_panic (ext : Ext) (row : List (Bytes × Val)) (path : Bytes) (x : Dyn)
    (s : String) : Path.importAtPath ⟨genTables, ext⟩ row path x ≠ .panic s :=
  importAtKeys_no_panic ext row _ x s

/-! ### Streams -/

open Jl.Stream

theorem env_eq {cfg : Cfg} (hT : cfg.env.T = genTables) : cfg.env = ⟨genTables, cfg.env.ext⟩ := by
  cases cfg with
  | mk env ti to proc i m =>
    cases env with
    | mk T ext => simp only at hT; subst hT; rfl

theorem exportWith_no_panic (cfg : Cfg) (hT : cfg.env.T = genTables) (row : List (Bytes × Val))
    (ws : List WriteEv) (s : String) : exportWith cfg row ws ≠ .panic s := by
  intro hp
  unfold exportWith at hp
  split at hp
  · cases hp
  · rename_i s' h
    rw [env_eq hT] at h
    exact exportLine_no_panic _ _ _ s' h
  · cases hp
  · split at hp <;> cases hp

/-- Target 8. -/
theorem loop_no_panic (cfg : Cfg) (hT : cfg.env.T = genTables) (fuel : Nat) (st : Scanner.St)
    (ws : List WriteEv) (obs : Obs) (s : String) : loop cfg fuel st ws obs ≠ .panic s := by
  induction fuel generalizing st ws obs with
  | zero => intro hp; simp [loop] at hp
  | succ fuel ih =>
    intro hp
    unfold loop at hp
    split at hp
    · split at hp <;> cases hp
    · simp only at hp
      split at hp
      · cases hp
      · rename_i s' h
        split at h
        · cases h
        · split at h
          · cases h
          · cases h
          · cases h
          · rename_i s'' h'
            rw [env_eq hT] at h'
            exact getRow_no_panic _ _ _ s'' h'
      · split at hp
        · cases hp
        · exact ih _ _ _ hp
      · cases hp
      · split at hp
        · cases hp
        · split at hp
          · cases hp
          · rename_i s' h
            exact exportWith_no_panic cfg hT _ _ s' h
          · exact ih _ _ _ hp
          · split at hp
            · cases hp
            · exact ih _ _ _ hp

theorem streamSt_no_panic (cfg : Cfg) (hT : cfg.env.T = genTables) (reader : List Scanner.ReadEv)
    (writer : List WriteEv) (s : String) : streamSt cfg reader writer ≠ .panic s :=
  loop_no_panic cfg hT _ _ _ _ s

theorem stream_no_panic (cfg : Cfg) (hT : cfg.env.T = genTables) (reader : List Scanner.ReadEv)
    (writer : List WriteEv) (s : String) : stream cfg reader writer ≠ .panic s := by
  intro hp
  unfold stream at hp
  split at hp
  · cases hp
  · cases hp
  · rename_i s' h
    exact streamSt_no_panic cfg hT reader writer s' h

/-! The specification side of C07 (`specObs`) does not panic either. -/

theorem lineOutcome_no_panic (cfg : Cfg) (hT : cfg.env.T = genTables) (l : Bytes) (s : String) :
    lineOutcome cfg l ≠ .panic s := by
  intro hp
  unfold lineOutcome at hp
  rw [env_eq hT] at hp
  split at hp
  · cases hp
  · rename_i s' h
    exact getRow_no_panic _ _ _ s' h
  · cases hp
  · split at hp
    · cases hp
    · rename_i s' h
      exact exportLine_no_panic _ _ _ s' h
    · cases hp
    · cases hp

theorem mapOutcomes_no_panic (cfg : Cfg) (hT : cfg.env.T = genTables) (ls : List Bytes)
    (s : String) : mapOutcomes cfg ls ≠ .panic s := by
  induction ls generalizing s with
  | nil => intro hp; simp [mapOutcomes] at hp
  | cons l rest ih =>
    intro hp
    unfold mapOutcomes at hp
    split at hp
    · split at hp
      · cases hp
      · cases hp
      · rename_i s' h
        exact ih s' h
    · cases hp
    · rename_i s' h
      exact lineOutcome_no_panic cfg hT l s' h

theorem specObs_no_panic (cfg : Cfg) (hT : cfg.env.T = genTables) (bs : Bytes) (s : String) :
    specObs cfg bs ≠ .panic s := by
  intro hp
  unfold specObs at hp
  split at hp
  · cases hp
  · cases hp
  · rename_i s' h
    exact mapOutcomes_no_panic cfg hT _ s' h

/-! ### cmd/jl: building the two templates (`WithRow` is the only step with an outcome) -/

open Jl.JlCmd

theorem np_pairRows {a b : Outcome Tmpl} (ha : NP a) (hb : NP b) : NP (pairRows a b) := by
  intro s hp
  cases a with
  | panic s' => exact ha s' rfl
  | err e => simp [pairRows] at hp
  | ok x =>
    cases b with
    | panic s' => exact hb s' rfl
    | err e => simp [pairRows] at hp
    | ok y => simp [pairRows] at hp

theorem np_yamlCol (ext : Ext) {sub : List ColDef → Outcome (Tmpl × Tmpl)} (hsub : ∀ cols, NP (sub cols))
    {acc : Outcome (Tmpl × Tmpl)} (hacc : NP acc) (c : ColDef) :
    NP (yamlCol ⟨genTables, ext⟩ sub acc c) := by
  intro s hp
  unfold yamlCol at hp
  split at hp
  · split at hp
    · cases hp
    · simp only at hp
      split at hp
      · cases hp
      · split at hp
        · exact np_pairRows (fun s => withRow_no_panic ext _ _ _ s)
            (fun s => withRow_no_panic ext _ _ _ s) s hp
        · exact hsub _ s hp
  · exact hacc s hp

theorem np_inlineCol (ext : Ext) {sub : List ColDef → Outcome (Tmpl × Tmpl)} (hsub : ∀ cols, NP (sub cols))
    {acc : Outcome (Tmpl × Tmpl)} (hacc : NP acc) (c : ColDef) :
    NP (inlineCol ⟨genTables, ext⟩ sub acc c) := by
  intro s hp
  unfold inlineCol at hp
  split at hp
  · split at hp
    · cases hp
    · split at hp
      · exact np_pairRows (fun s => withRow_no_panic ext _ _ _ s)
          (fun s => withRow_no_panic ext _ _ _ s) s hp
      · exact hsub _ s hp
  · exact hacc s hp

theorem np_foldl {α β : Type} {f : Outcome β → α → Outcome β}
    (hf : ∀ acc a, NP acc → NP (f acc a)) (l : List α) {acc : Outcome β} (hacc : NP acc) :
    NP (l.foldl f acc) := by
  induction l generalizing acc with
  | nil => exact hacc
  | cons a l ih => exact ih (hf _ _ hacc)

theorem ofYaml_no_panic (ext : Ext) (fuel : Nat) (cols : List ColDef) (s : String) :
    ofYaml ⟨genTables, ext⟩ fuel cols ≠ .panic s := by
  induction fuel generalizing cols s with
  | zero => intro hp; simp [ofYaml] at hp
  | succ fuel ih =>
    unfold ofYaml
    exact np_foldl (fun acc c hacc => np_yamlCol ext (fun cols s => ih cols s) hacc c) cols
      (np_ok _) s

theorem ofInline_no_panic (ext : Ext) (fuel : Nat) (cols : List ColDef) (s : String) :
    ofInline ⟨genTables, ext⟩ fuel cols ≠ .panic s := by
  induction fuel generalizing cols s with
  | zero => intro hp; simp [ofInline] at hp
  | succ fuel ih =>
    unfold ofInline
    exact np_foldl (fun acc c hacc => np_inlineCol ext (fun cols s => ih cols s) hacc c) cols
      (np_ok _) s

theorem createTemplate_no_panic (ext : Ext) (file : List ColDef) (inline : Option (List ColDef))
    (s : String) : createTemplate ⟨genTables, ext⟩ file inline ≠ .panic s := by
  intro hp
  unfold createTemplate at hp
  split at hp
  · split at hp
    · cases hp
    · exact ofInline_no_panic ext _ _ s hp
  · exact ofYaml_no_panic ext _ _ s hp

/-! ### `marshalExported`'s fallback hides nothing

`RowPrint.marshalExported env e raw` prints `e` when it is nil, a bool, an integer, a string or a
number, and otherwise prints `raw` *instead of* `e` (this is what makes the mutual recursion of
`marshalVal` structural).  The lemmas below show that the replacement is never observable over
the generated tables: `Export` of a cell returns either the raw value itself or a scalar. -/

theorem cast_ty (ext : Ext) {name : String} (hn : name ∈ casterNames) {t : Ty}
    (ht : resultTyOfCaster? name = some t) {v r : Dyn} (hv : v ≠ .nil)
    (h : castNamed genTables ext name v = .ok r) : r ≠ .nil ∧ typeOf r = t := by
  obtain ⟨h1, h2⟩ := gen_cast_typed ext name hn v r h
  refine ⟨fun hr => hv (h1.mp hr), ?_⟩
  have := h2 hv
  rw [ht] at this
  exact Option.some.inj this

/-- Scalars that `marshalExported` prints by itself. -/
def Scalar (e : Dyn) : Prop :=
  (∃ s, e = .str s) ∨ (∃ l, e = .num l) ∨ (∃ b, e = .bool b) ∨ (∃ t v, e = .int t v)

theorem scalar_of_ty {r : Dyn} {t : Ty} (h : typeOf r = t)
    (ht : t = .str ∨ t = .num ∨ t = .bool ∨ t = .int .i64) : Scalar r := by
  subst h
  cases r <;> simp [typeOf] at ht
  · exact .inr (.inr (.inr ⟨_, _, rfl⟩))
  · exact .inr (.inr (.inl ⟨_, rfl⟩))
  · exact .inl ⟨_, rfl⟩
  · exact .inr (.inl ⟨_, rfl⟩)

/-- `Export` of a cell returns the raw value itself or a scalar. -/
theorem exportCell_shape (ext : Ext) {raw : Dyn} {f : Format} {typ : Ty} {e : Dyn}
    (h : exportVal ⟨genTables, ext⟩ (.cell raw f typ) = .ok e) : e = raw ∨ Scalar e := by
  rw [exportVal.eq_def] at h
  simp only at h
  split at h
  · cases h; exact .inl rfl
  · rename_i hnil
    have hraw : raw ≠ .nil := fun h => hnil h
    split at h
    · exact .inr (scalar_of_ty (cast_ty ext (by simp [casterNames]) rfl hraw (exportFail_ok h)).2
        (by simp))
    · exact .inr (scalar_of_ty (cast_ty ext (by simp [casterNames]) rfl hraw (exportFail_ok h)).2
        (by simp))
    · exact .inr (scalar_of_ty (cast_ty ext (by simp [casterNames]) rfl hraw (exportFail_ok h)).2
        (by simp))
    · split at h
      · cases h; exact .inr (.inl ⟨_, rfl⟩)
      · cases h
      · rename_i h1 h2
        cases hx : exportFail (castNamed genTables ext "ToBinary" raw) with
        | ok r =>
          obtain ⟨b, hb⟩ := toBinary_bytes ext hraw (exportFail_ok hx)
          subst hb
          exact absurd hx (h1 b)
        | err e' => rw [hx] at h; cases h
        | panic s => rw [hx] at h; cases h
    · split at h
      · rename_i t ht
        have ht' := cast_ty ext (name := "ToDate") (by simp [casterNames]) rfl hraw (exportFail_ok ht)
        exact .inr (scalar_of_ty (cast_ty ext (by simp [casterNames]) rfl ht'.1 (exportFail_ok h)).2
          (by simp))
      · rename_i h1
        exact absurd h (h1 e)
    · split at h
      · rename_i t ht
        have ht' := cast_ty ext (name := "ToTime") (by simp [casterNames]) rfl hraw (exportFail_ok ht)
        exact .inr (scalar_of_ty (cast_ty ext (by simp [casterNames]) rfl ht'.1 (exportFail_ok h)).2
          (by simp))
      · rename_i h1
        exact absurd h (h1 e)
    · exact .inr (scalar_of_ty (cast_ty ext (by simp [casterNames]) rfl hraw (exportFail_ok h)).2
        (by simp))
    · cases h; exact .inl rfl
    · cases h; exact .inl rfl
    · cases h

open RowPrint in
theorem marshalExported_self (env : Env) (raw : Dyn) :
    marshalExported env raw raw = marshalDyn env raw := by
  rw [marshalExported.eq_def]
  cases raw <;> simp only <;> rw [marshalDyn.eq_def]

open RowPrint in
theorem marshalExported_scalar (env : Env) {e : Dyn} (raw : Dyn) (h : Scalar e) :
    marshalExported env e raw = marshalDyn env e := by
  rcases h with ⟨s, rfl⟩ | ⟨l, rfl⟩ | ⟨b, rfl⟩ | ⟨t, v, rfl⟩ <;>
    rw [marshalExported.eq_def] <;> simp only <;> rw [marshalDyn.eq_def]

open RowPrint in
/-- `value.MarshalJSON` is `Export` followed by `json.Marshal` of the exported value, as in the
    code: the `raw`-for-`e` replacement inside `marshalExported` is not observable. -/
theorem marshalVal_cell (ext : Ext) (raw : Dyn) (f : Format) (typ : Ty) :
    marshalVal ⟨genTables, ext⟩ (.cell raw f typ) =
      match exportVal ⟨genTables, ext⟩ (.cell raw f typ) with
      | .ok e => marshalDyn ⟨genTables, ext⟩ e
      | .err e => .err e
      | .panic s => .panic s := by
  rw [marshalVal.eq_def]
  simp only
  cases h : exportVal ⟨genTables, ext⟩ (.cell raw f typ) with
  | ok e =>
    simp only
    rcases exportCell_shape ext h with rfl | hs
    · exact marshalExported_self _ _
    · exact marshalExported_scalar _ _ hs
  | err e => rfl
  | panic s => rfl

end Jl.NoPanic
