/-
  Proofs.RowTieText — the parameters of Model.Path and of the text reader (UnmarshalJSON, parseobject, parsearray, handledelim)
  (one of the files Proofs.RowTie* : split so that a change of one function of row.go stops only the
  properties that rest on it; the overview is in Proofs/RowTie.lean)
-/
import Model.RowFactsSpec
import Model.RowPrint
import Model.MapTo
import Gen.RowFacts

namespace Jl.RowTie
open Jl

/-- The parameters of Model.Path: paths split on `.` (`Path.splitDots`: 0x2E), each segment looked up with
    `GetValue` (`Value.lookup`), descent through `asRow` (`Path.asRow`: a row, or a cell whose raw value is one). -/
theorem path_as_modelled :
    Gen.rowFacts.getValueAtPath = .splitDescend "." "GetValue" "asRow"
    ∧ Gen.rowFacts.findValuesAtPath = .firstKeyThenRowOrArrayOfRows "." "GetValue" "asRow"
    ∧ Gen.rowFacts.asRow = .rowOrRawRow
    ∧ Gen.rowFacts.readers.lookup "GetValue" = some .mapValue
    ∧ Gen.rowFacts.readers.lookup "GetAtPath" = some (.rawOf "GetValueAtPath") := by
  decide

/-- The parameters of `Value.unmarshalInto` / `Json.unmarshal`: numbers are kept as literals (UseNumber), the
    text is one object (`{` … `}`) and nothing after it, nested objects are fresh rows filled by the same
    `parseobject` and arrays go through `parsearray`, both element by element through `handledelim`. -/
theorem unmarshal_as_modelled :
    Gen.rowFacts.unmarshal = [.newDecoder true, .openDelim 0x7B, .members "parseobject", .onlyEOF]
    ∧ (∃ k, Gen.rowFacts.parseObject = .whileMore "handledelim" k 0x7D)
    ∧ Gen.rowFacts.parseArray = .whileMore "handledelim" 0x5D
    ∧ Gen.rowFacts.handleDelim = .scalarObjectArray 0x7B "NewRow" "parseobject" 0x5B "parsearray" := by
  refine ⟨by decide, ⟨_, rfl⟩, by decide, by decide⟩


end Jl.RowTie
