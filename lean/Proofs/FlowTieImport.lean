/-
  Proofs.FlowTieImport — importer.go: NewImporter (scanner sizes), Import, Err, GetRow = `getRow`, ReadOne
  (one of the files Proofs.FlowTie*: split so that a change of one function stops only the properties that
  rest on it; the overview is in Proofs/FlowTie.lean)
-/
import Proofs.FlowTieDefs

namespace Jl.FlowTie
open Jl Jl.Flow Jl.Value Jl.Template

theorem newImporter_as_modelled : Gen.flowTable.newImporter = .scanner 0 65536 10485760 := by decide

theorem importerWithTemplate_as_modelled : Gen.flowTable.importerWithTemplate = .storesArg := by decide

theorem import_as_modelled : Gen.flowTable.importerImport = .scan := by decide

theorem err_as_modelled : Gen.flowTable.importerErr = .scannerErr := by decide

theorem getRow_as_modelled : Gen.flowTable.getRow = .scannerErrThenParse .nil .wrapped := by decide

theorem readOne_as_modelled : Gen.flowTable.readOne = .importThenGetRow := by decide

theorem getRow_is_getRow (env : Env) (t : Tmpl) (line : Bytes) :
    getRowG Gen.flowTable.getRow Gen.flowTable.createRowEmpty env t line = some (getRow env t line) := rfl

/-- The scanner's initial buffer and token limit are the constants Gen.Sites reads from importer.go, the
    values the drivers and Props.C07 use; no `Split` call (the shape `scanner` has none). -/
theorem scanner_sizes :
    Gen.flowTable.newImporter = .scanner 0 Gen.initialBufferSize Gen.maximumBufferSize
    ∧ Gen.initialBufferSize = 65536 ∧ Gen.maximumBufferSize = 10485760 := by decide

end Jl.FlowTie
