/-
  Proofs.FlowTieAll — the regenerated flow table as a whole: nothing unknown, equal to the assumed one
  (one of the files Proofs.FlowTie*: split so that a change of one function stops only the properties that
  rest on it; the overview is in Proofs/FlowTie.lean)
-/
import Proofs.FlowTieDefs

namespace Jl.FlowTie
open Jl Jl.Flow Jl.Value Jl.Template

/-- The regenerated table holds no `.unknown`. -/
theorem flow_known : Gen.flowTable.known = true := by decide

/-- The regenerated table is the one Model.Template and Model.Stream were written against. -/
theorem flow_as_modelled : Gen.flowTable = FlowSpec.expectedFlow := by decide

end Jl.FlowTie
