/-
  Proofs.LineValues — undeclared members (and `auto` columns without raw type) pass through a
  templated line VERBATIM at every depth (C03 "nested objects under undeclared keys keep their
  input member order; no level is ever re-sorted"; C02's "order-preserving at all depths" when a
  template IS present).

  `Proofs.LineKeys` / `Proofs.LineLevel` speak of the NAMES and the lexical classes of the
  top-level members of an emitted line; here the whole VALUE of a member is followed from the
  input text to the emitted text:

    text --reader--> JV --ofJV--> Auto cell holding the row of the value   (importer, `GetRow`)
         --CreateRow(Row)--> the same Auto cell                            (exporter)
         --marshalRow--> text --reader--> the same JV.

  0.  `upsertKV_eq`: the oracle's `upsertKV` is `OMap.upsert` on lists without repeated names
  1.  `ofJV_norm`: what `handledelim` builds for ANY tree is the row of `normDupV` of the tree — a
      repeated name inside a nested object is imported into the first occurrence's Auto cell
      (first position, last value), which is the oracle's `normDup`
  2.  `allV_norm`, `treeVal_cellOf_reader`: `normDup` keeps reader trees; the printed tree
  3.  `parseMembers_at`, 4. `fillPairs_at`: one name through importer and exporter
  5.  `lookupJV_tree_of_lookup`: the member found under the written name
  6.  `passed_member_verbatim` (general), `undeclared_member_verbatim` (target 1),
      `auto_column_verbatim` (target 2), `…_gen` over the regenerated tables
  7.  `passed_member_not_resorted`, `undeclared_clause_none` (target 3, the oracle's words)
  8.  `undeclared_member_verbatim_unique`: ANY cast tables on C02's domain (unique names)
  9.  `Demo` (target 4), 10. `Dup`: a repeated name inside the value, and why the statement is
      about `normDup` (`Dup.raw_value_not_kept`)

  The notion of "same value" proved is JV EQUALITY with the value the oracle's `normDup` keeps
  under the name: the LAST member of that name, and inside it (at every depth, objects inside
  arrays included) every repeated name at its first position with its last value; on values
  without repeated names this is the value the reader delivered, unchanged (`normDup_unique`).
-/
import Model.LineSpec
import Model.Template
import Model.CastGen
import Proofs.LineKeys
import Proofs.LineLevel
import Proofs.Order
import Proofs.JsonPrint
import Proofs.RoundTrip
import Proofs.CastTyped

namespace Jl.LineValues
open Jl Jl.Value Jl.Template Jl.Cast
open Jl.JsonQuote (sanitize)
open Jl.JsonPrint (treeDyn treeVal treeMembers treeExported FloatTextOK)
open Jl.RoundTrip (dynOf dynListOf membersOf canonV canonL canon AllV AllL AllM StrOK NumOK
  ReaderTree)

/-! ### 0. Lists of members: `upsertKV` is the ordered map's upsert -/

/-- `cast.To(nil, x) = x` in this environment (true of the regenerated tables, whatever the
    standard-library parameters: `CastTyped.gen_castTo_none`). -/
def NoneId (env : Env) : Prop := ∀ x : Dyn, castTo env.T env.ext .none x = .ok x

theorem noneId_gen (ext : Ext) : NoneId ⟨genTables, ext⟩ := fun x => CastTyped.gen_castTo_none ext x

theorem jv_toList_ofList (l : List (Bytes × JV)) : (JVMembers.ofList l).toList = l := by
  induction l with
  | nil => rfl
  | cons a l ih => obtain ⟨k, v⟩ := a; simp [JVMembers.ofList, JVMembers.toList, ih]

theorem map_replace_id {k : Bytes} {w : JV} : ∀ (rest : List (Bytes × JV)),
    k ∉ OMap.keys rest → rest.map (fun kv => if kv.1 == k then (k, w) else kv) = rest := by
  intro rest
  induction rest with
  | nil => intro _; rfl
  | cons a rest ih =>
    intro h
    obtain ⟨k0, w0⟩ := a
    simp only [OMap.keys, List.map_cons, List.mem_cons, not_or] at h
    have hne : (k0 == k) = false := by
      simp only [beq_eq_false_iff_ne, ne_eq]; exact fun e => h.1 e.symm
    simp only [List.map_cons, hne, Bool.false_eq_true, if_false]
    exact congrArg _ (ih h.2)

theorem any_false_of_not_mem {k : Bytes} : ∀ (rest : List (Bytes × JV)),
    k ∉ OMap.keys rest → rest.any (fun kv => kv.1 == k) = false := by
  intro rest h
  rw [List.any_eq_false]
  intro kv hkv hk
  exact h (by
    have : kv.1 = k := by simpa using hk
    exact this ▸ List.mem_map_of_mem (f := Prod.fst) hkv)

/-- On a list without repeated names the oracle's `upsertKV` is `OMap.upsert`. -/
theorem upsertKV_eq (k : Bytes) (w : JV) : ∀ (acc : List (Bytes × JV)), (OMap.keys acc).Nodup →
    LineSpec.upsertKV acc k w = OMap.upsert acc k w := by
  intro acc
  induction acc with
  | nil => intro _; rfl
  | cons a rest ih =>
    intro hnd
    obtain ⟨k0, w0⟩ := a
    simp only [OMap.keys, List.map_cons, List.nodup_cons] at hnd
    by_cases hk : k0 = k
    · subst hk
      have h1 : ((k0, w0) :: rest).any (fun kv => kv.1 == k0) = true := by simp
      simp only [LineSpec.upsertKV, h1, if_true, List.map_cons, beq_self_eq_true, OMap.upsert]
      exact congrArg _ (map_replace_id rest hnd.1)
    · have hne : (k0 == k) = false := by simpa using hk
      have ih' := ih hnd.2
      unfold LineSpec.upsertKV at ih' ⊢
      simp only [List.any_cons, hne, Bool.false_or, List.map_cons, Bool.false_eq_true, if_false,
        OMap.upsert, hk, List.cons_append]
      split
      · rename_i hany
        simp only [hany, if_true] at ih'
        exact congrArg _ ih'
      · rename_i hany
        simp only [hany, Bool.false_eq_true, if_false] at ih'
        exact congrArg _ ih'

theorem nodup_upsert {C : Type} (acc : OMap C) (k : Bytes) (w : C) (h : (OMap.keys acc).Nodup) :
    (OMap.keys (OMap.upsert acc k w)).Nodup := by
  rw [OMap.keys_upsert]
  split
  · exact h
  · rename_i hk
    rw [List.nodup_append]
    refine ⟨h, by simp, ?_⟩
    intro a ha b hb
    simp only [List.mem_singleton] at hb
    subst hb
    exact fun e => hk (e ▸ ha)

theorem nodup_upsertKV (acc : List (Bytes × JV)) (k : Bytes) (w : JV) (h : (OMap.keys acc).Nodup) :
    (OMap.keys (LineSpec.upsertKV acc k w)).Nodup := by
  rw [upsertKV_eq k w acc h]; exact nodup_upsert acc k w h

/-- The oracle's look-up is the ordered map's. -/
theorem lookupJV_eq (k : Bytes) : ∀ ms : JVMembers, LineSpec.lookupJV ms k = OMap.lookup ms.toList k
  | .nil => rfl
  | .cons k0 v0 ms => by
    rw [LineLevel.lookupJV_cons, lookupJV_eq k ms]
    simp only [JVMembers.toList, OMap.lookup]

theorem lookupJV_ofList (k : Bytes) (l : List (Bytes × JV)) :
    LineSpec.lookupJV (JVMembers.ofList l) k = OMap.lookup l k := by
  rw [lookupJV_eq, jv_toList_ofList]

theorem nodup_normDupM : ∀ (ms : JVMembers) (acc : List (Bytes × JV)), (OMap.keys acc).Nodup →
    (OMap.keys (LineSpec.normDupM ms acc)).Nodup
  | .nil, acc, h => by simpa [LineSpec.normDupM] using h
  | .cons k v ms, acc, h => by
    rw [LineSpec.normDupM]
    exact nodup_normDupM ms _ (nodup_upsertKV acc k _ h)

/-! ### 1. What `handledelim` builds for ANY tree: the row of the tree with repeated names resolved

A repeated name inside a nested object is imported into the cell of its first occurrence — an
Auto cell without raw type, whose `Import` stores the new value as it is: first position, last
value, which is exactly the oracle's `normDupV`. -/

/-- The Auto cell a member of a nested object (or an undeclared member of the line) is kept in. -/
def cellOf (w : JV) : Val := .cell (dynOf w) .auto .none

def cellsOf (acc : List (Bytes × JV)) : List (Bytes × Val) := acc.map fun kv => (kv.1, cellOf kv.2)

theorem cellsOf_upsert (k : Bytes) (w : JV) : ∀ acc : List (Bytes × JV),
    cellsOf (OMap.upsert acc k w) = OMap.upsert (cellsOf acc) k (cellOf w) := by
  intro acc
  induction acc with
  | nil => rfl
  | cons a rest ih =>
    obtain ⟨k0, w0⟩ := a
    by_cases hk : k0 = k
    · simp [cellsOf, OMap.upsert, hk]
    · simp only [cellsOf, List.map_cons, OMap.upsert, hk, if_false] at ih ⊢
      exact congrArg _ ih

theorem lookup_cellsOf (k : Bytes) : ∀ acc : List (Bytes × JV),
    OMap.lookup (cellsOf acc) k = (OMap.lookup acc k).map cellOf := by
  intro acc
  induction acc with
  | nil => rfl
  | cons a rest ih =>
    obtain ⟨k0, w0⟩ := a
    by_cases hk : k0 = k
    · simp [cellsOf, OMap.lookup, hk]
    · simp only [cellsOf, List.map_cons, OMap.lookup, hk, if_false] at ih ⊢
      exact ih

theorem membersOf_ofList : ∀ l : List (Bytes × JV),
    membersOf (JVMembers.ofList l) = Members.ofList (cellsOf l) := by
  intro l
  induction l with
  | nil => rfl
  | cons a rest ih =>
    obtain ⟨k0, w0⟩ := a
    simp only [JVMembers.ofList, membersOf, cellsOf, List.map_cons, Members.ofList, cellOf] at ih ⊢
    rw [ih]

/-- `Import` of a value the decoder built into an Auto cell without raw type: the value is stored
    as it is (nil; a row kept as a row; anything else through `cast.To(nil, ·)`). -/
theorem importVal_auto (env : Env) (hN : NoneId env) (raw : Dyn) (w : JV) :
    importVal env (.cell raw .auto .none) (dynOf w) = .ok (cellOf w, none) := by
  cases w <;>
    simp [importVal, importInto, importCell, importByFormat, dynOf, cellOf, hN _]

/-- One member of `parseobject` whose name is absent or names an Auto cell without raw type. -/
theorem parseMember_auto (env : Env) (hN : NoneId env) (o : List (Bytes × Val)) (k : Bytes) (w : JV)
    (hp : ∀ c, OMap.lookup o k = some c → ∃ raw, c = .cell raw .auto .none) :
    parseMember env o k (dynOf w) = .ok (OMap.upsert o k (cellOf w), none) := by
  unfold parseMember
  cases hl : lookup o k with
  | none => rfl
  | some c =>
    obtain ⟨raw, rfl⟩ := hp c hl
    simp only [importVal_auto env hN raw w]
    rfl

/-- The member list `parseobject` receives for an object: names in text order, values converted
    (nested objects with their repeated names resolved). -/
def pairsN : JVMembers → List (Bytes × Dyn)
  | .nil => []
  | .cons k v ms => (k, dynOf (LineSpec.normDupV v)) :: pairsN ms

theorem parseMembers_norm (env : Env) (hN : NoneId env) : ∀ (ms : JVMembers)
    (acc : List (Bytes × JV)), (OMap.keys acc).Nodup →
    parseMembers env (cellsOf acc) (pairsN ms) = .ok (cellsOf (LineSpec.normDupM ms acc), none)
  | .nil, acc, _ => by simp [pairsN, parseMembers, LineSpec.normDupM]
  | .cons k v ms, acc, hnd => by
    have hstep := parseMember_auto env hN (cellsOf acc) k (LineSpec.normDupV v) (by
      intro c hc
      rw [lookup_cellsOf] at hc
      cases hl : OMap.lookup acc k with
      | none => rw [hl] at hc; cases hc
      | some w0 => rw [hl] at hc; cases hc; exact ⟨_, rfl⟩)
    rw [pairsN, parseMembers, hstep]
    simp only
    rw [← cellsOf_upsert, ← upsertKV_eq k _ acc hnd, LineSpec.normDupM]
    exact parseMembers_norm env hN ms _ (nodup_upsertKV acc k _ hnd)

mutual
  /-- `handledelim`'s value for any tree is the row of the tree with repeated names resolved. -/
  theorem ofJV_norm (env : Env) (hN : NoneId env) :
      ∀ v : JV, ofJV env v = .ok (dynOf (LineSpec.normDupV v))
    | .null => by simp [ofJV, dynOf, LineSpec.normDupV]
    | .bool _ => by simp [ofJV, dynOf, LineSpec.normDupV]
    | .num _ => by simp [ofJV, dynOf, LineSpec.normDupV]
    | .str _ => by simp [ofJV, dynOf, LineSpec.normDupV]
    | .arr xs => by
      simp only [ofJV, ofJVList_norm env hN xs, LineSpec.normDupV, dynOf,
        RoundTrip.DynList.ofList_toList]
    | .obj ms => by
      have hp := parseMembers_norm env hN ms [] List.nodup_nil
      simp only [cellsOf, List.map_nil] at hp
      simp only [ofJV, ofJVMembers_norm env hN ms, hp, LineSpec.normDupV, dynOf, membersOf_ofList,
        cellsOf]
  theorem ofJVList_norm (env : Env) (hN : NoneId env) :
      ∀ xs : JVList, ofJVList env xs = .ok (dynListOf (LineSpec.normDupL xs)).toList
    | .nil => by simp [ofJVList, dynListOf, DynList.toList, LineSpec.normDupL]
    | .cons x xs => by
      simp only [ofJVList, ofJV_norm env hN x, ofJVList_norm env hN xs, LineSpec.normDupL,
        dynListOf, DynList.toList]
  theorem ofJVMembers_norm (env : Env) (hN : NoneId env) :
      ∀ ms : JVMembers, ofJVMembers env ms = .ok (pairsN ms)
    | .nil => by simp [ofJVMembers, pairsN]
    | .cons k v ms => by
      simp only [ofJVMembers, ofJV_norm env hN v, ofJVMembers_norm env hN ms, pairsN]
end

/-! ### 2. Resolving repeated names keeps a reader tree a reader tree; the printed tree -/

def AllAcc (P Q : Bytes → Prop) (l : List (Bytes × JV)) : Prop := ∀ kv ∈ l, P kv.1 ∧ AllV P Q kv.2

theorem allAcc_upsertKV {P Q : Bytes → Prop} {acc : List (Bytes × JV)} {k : Bytes} {w : JV}
    (ha : AllAcc P Q acc) (hk : P k) (hw : AllV P Q w) : AllAcc P Q (LineSpec.upsertKV acc k w) := by
  intro kv hkv
  unfold LineSpec.upsertKV at hkv
  split at hkv
  · obtain ⟨kv0, h0, rfl⟩ := List.mem_map.1 hkv
    split
    · exact ⟨hk, hw⟩
    · exact ha kv0 h0
  · rcases List.mem_append.1 hkv with h | h
    · exact ha kv h
    · simp only [List.mem_singleton] at h
      subst h; exact ⟨hk, hw⟩

theorem allM_ofList {P Q : Bytes → Prop} : ∀ l : List (Bytes × JV),
    AllAcc P Q l → AllM P Q (JVMembers.ofList l) := by
  intro l
  induction l with
  | nil => intro _; simp [JVMembers.ofList, AllM]
  | cons a rest ih =>
    intro h
    obtain ⟨k0, w0⟩ := a
    simp only [JVMembers.ofList, AllM]
    have h0 := h (k0, w0) (List.mem_cons_self ..)
    exact ⟨h0.1, h0.2, ih fun kv hkv => h kv (List.mem_cons_of_mem _ hkv)⟩

mutual
  theorem allV_norm {P Q : Bytes → Prop} : ∀ v : JV, AllV P Q v → AllV P Q (LineSpec.normDupV v)
    | .null, h => by simpa [LineSpec.normDupV] using h
    | .bool _, h => by simpa [LineSpec.normDupV] using h
    | .num _, h => by simpa [LineSpec.normDupV] using h
    | .str _, h => by simpa [LineSpec.normDupV] using h
    | .arr xs, h => by
      simp only [AllV] at h
      simp only [LineSpec.normDupV, AllV]
      exact allL_norm xs h
    | .obj ms, h => by
      simp only [AllV] at h
      simp only [LineSpec.normDupV, AllV]
      exact allM_ofList _ (allM_norm ms [] h (fun _ hkv => by cases hkv))
  theorem allL_norm {P Q : Bytes → Prop} : ∀ xs : JVList, AllL P Q xs →
      AllL P Q (LineSpec.normDupL xs)
    | .nil, _ => by simp [LineSpec.normDupL, AllL]
    | .cons x xs, h => by
      simp only [AllL] at h
      simp only [LineSpec.normDupL, AllL]
      exact ⟨allV_norm x h.1, allL_norm xs h.2⟩
  theorem allM_norm {P Q : Bytes → Prop} : ∀ (ms : JVMembers) (acc : List (Bytes × JV)),
      AllM P Q ms → AllAcc P Q acc → AllAcc P Q (LineSpec.normDupM ms acc)
    | .nil, acc, _, ha => by simpa [LineSpec.normDupM] using ha
    | .cons k v ms, acc, h, ha => by
      simp only [AllM] at h
      rw [LineSpec.normDupM]
      exact allM_norm ms _ h.2.2 (allAcc_upsertKV ha h.1 (allV_norm v h.2.1))
end

/-- What the reader delivers for the print of the Auto cell of `w`. -/
theorem treeVal_cellOf (env : Env) (w : JV) : treeVal env (cellOf w) = canonV w := by
  unfold cellOf
  rw [RoundTrip.treeVal_auto, RoundTrip.treeDyn_dynOf env w]
  cases w <;> simp [dynOf, treeExported, canonV]

theorem treeVal_cellOf_reader (env : Env) (w : JV) (hw : AllV StrOK NumOK w) :
    treeVal env (cellOf w) = w := by
  rw [treeVal_cellOf, RoundTrip.canonV_id w hw]

/-! ### 3. One name through the importer (`GetRow`) -/

/-- The name `k` is absent from the row or names an Auto cell without raw type. -/
def Pass (o : List (Bytes × Val)) (k : Bytes) : Prop :=
  ∀ c, OMap.lookup o k = some c → ∃ raw, c = .cell raw .auto .none

/-- The same on a template (every column called `k`, should the template repeat the name). -/
def PassT (t : Tmpl) (k : Bytes) : Prop :=
  ∀ c, (k, c) ∈ t → Cells.format c = .auto ∧ Cells.rawType c = .none

theorem passT_of_not_mem {t : Tmpl} {k : Bytes} (h : k ∉ OMap.keys t) : PassT t k :=
  fun _ hc => absurd (List.mem_map_of_mem (f := Prod.fst) hc) h

theorem pass_upsert_same (o : List (Bytes × Val)) (k : Bytes) (raw : Dyn) :
    Pass (OMap.upsert o k (.cell raw .auto .none)) k := by
  intro c hc
  rw [OMap.lookup_upsert, if_pos rfl] at hc
  cases hc; exact ⟨_, rfl⟩

theorem pass_of_lookup_eq {o o' : List (Bytes × Val)} {k : Bytes}
    (h : OMap.lookup o' k = OMap.lookup o k) (hp : Pass o k) : Pass o' k :=
  fun c hc => hp c (h ▸ hc)

theorem newValue_cell {env : Env} {x : Dyn} {f : Format} {typ : Ty} {c : Val}
    (h : newValue env x f typ = .ok c) : ∃ raw, c = .cell raw f typ := by
  unfold newValue at h
  split at h
  · cases h; exact ⟨_, rfl⟩
  · cases h
  · cases h; exact ⟨_, rfl⟩
  · cases h

theorem cloneInto_pass (env : Env) (k : Bytes) : ∀ (t acc r : List (Bytes × Val)),
    PassT t k → Pass acc k → cloneInto env acc t = .ok r → Pass r k := by
  intro t
  induction t with
  | nil =>
    intro acc r _ ha h
    simp only [cloneInto, Outcome.ok.injEq] at h
    subst h; exact ha
  | cons a rest ih =>
    intro acc r ht ha h
    obtain ⟨k0, v0⟩ := a
    simp only [cloneInto] at h
    split at h
    · rename_i c hc
      refine ih _ r (fun c' hc' => ht c' (List.mem_cons_of_mem _ hc')) ?_ h
      by_cases hk : k0 = k
      · subst hk
        obtain ⟨raw, rfl⟩ := newValue_cell hc
        obtain ⟨h1, h2⟩ := ht v0 (List.mem_cons_self ..)
        rw [h1, h2]
        exact pass_upsert_same acc k0 raw
      · refine pass_of_lookup_eq ?_ ha
        unfold upsert
        rw [OMap.lookup_upsert, if_neg (fun e => hk e.symm)]
    · cases h
    · cases h

theorem cloneRow_pass (env : Env) (k : Bytes) (t r : List (Bytes × Val)) (ht : PassT t k)
    (h : cloneRow env t = .ok r) : Pass r k :=
  cloneInto_pass env k t [] r ht (fun c hc => by cases hc) h

/-- A member of another name leaves the cell at `k` alone. -/
theorem parseMember_other (env : Env) (o o1 : List (Bytes × Val)) (k k' : Bytes) (x : Dyn)
    (e : Option ErrClass) (hk : k' ≠ k) (h : parseMember env o k' x = .ok (o1, e)) :
    OMap.lookup o1 k = OMap.lookup o k := by
  unfold parseMember at h
  split at h
  · split at h
    · simp only [Outcome.ok.injEq, Prod.mk.injEq] at h
      rw [← h.1]
      unfold upsert
      rw [OMap.lookup_upsert, if_neg (fun e => hk e.symm)]
    · cases h
    · cases h
  · simp only [Outcome.ok.injEq, Prod.mk.injEq] at h
    rw [← h.1]
    unfold upsert
    rw [OMap.lookup_upsert, if_neg (fun e => hk e.symm)]

/-- The members of the line through `parseobject`, followed at one name `k` that the row lets
    pass: the row ends up holding, in an Auto cell, the row of the value the oracle's `normDup`
    keeps for `k` (the LAST member of that name, repeated names inside it resolved). -/
theorem parseMembers_at (env : Env) (hN : NoneId env) (k : Bytes) : ∀ (ms : JVMembers)
    (acc : List (Bytes × JV)) (o o' : List (Bytes × Val)), (OMap.keys acc).Nodup →
    parseMembers env o (pairsN ms) = .ok (o', none) → Pass o k →
    (∀ w, OMap.lookup acc k = some w → OMap.lookup o k = some (cellOf w)) →
    ∀ w, OMap.lookup (LineSpec.normDupM ms acc) k = some w → OMap.lookup o' k = some (cellOf w)
  | .nil, acc, o, o', _, h, _, hrel => by
    simp only [pairsN, parseMembers, Outcome.ok.injEq, Prod.mk.injEq, and_true] at h
    subst h
    simpa [LineSpec.normDupM] using hrel
  | .cons k' v ms, acc, o, o', hnd, h, hp, hrel => by
    rw [LineSpec.normDupM, upsertKV_eq k' _ acc hnd]
    rw [pairsN, parseMembers] at h
    by_cases hk : k' = k
    · subst hk
      rw [parseMember_auto env hN o k' _ hp] at h
      simp only at h
      refine parseMembers_at env hN k' ms _ _ o' (nodup_upsert acc k' _ hnd) h
        (pass_upsert_same o k' _) ?_
      intro w hw
      rw [OMap.lookup_upsert, if_pos rfl] at hw ⊢
      cases hw; rfl
    · split at h
      · rename_i o1 h1
        have hl := parseMember_other env o o1 k k' _ none hk h1
        refine parseMembers_at env hN k ms _ _ o' (nodup_upsert acc k' _ hnd) h
          (pass_of_lookup_eq hl hp) ?_
        intro w hw
        rw [OMap.lookup_upsert, if_neg (fun e => hk e.symm)] at hw
        rw [hl]; exact hrel w hw
      · rename_i hne
        exact absurd h (hne o')

/-! ### 4. One name through the exporter's `CreateRow` -/

/-- `k` is let through by the row: absent (no cast at all), or an Auto cell without raw type in an
    environment whose `cast.To(nil, ·)` is the identity. -/
def Lets (env : Env) (o : List (Bytes × Val)) (k : Bytes) : Prop :=
  (NoneId env ∧ Pass o k) ∨ OMap.lookup o k = none

theorem lets_of_lookup_eq {env : Env} {o o' : List (Bytes × Val)} {k : Bytes}
    (h : OMap.lookup o' k = OMap.lookup o k) (hl : Lets env o k) : Lets env o' k := by
  rcases hl with ⟨hN, hp⟩ | hn
  · exact .inl ⟨hN, pass_of_lookup_eq h hp⟩
  · exact .inr (h.trans hn)

theorem fill_auto (env : Env) (o : List (Bytes × Val)) (k : Bytes) (d : Dyn)
    (hl : Lets env o k) : fill env o k d = .ok (OMap.upsert o k (.cell d .auto .none)) := by
  unfold fill
  rcases hl with ⟨hN, hp⟩ | hn
  · cases hl : lookup o k with
    | none => rfl
    | some c =>
      obtain ⟨raw, rfl⟩ := hp c hl
      simp only [Cells.format, Cells.rawType, newValue, hN d]
      rfl
  · have hn' : lookup o k = none := hn
    rw [hn']
    rfl

theorem fill_other (env : Env) (o o1 : List (Bytes × Val)) (k k' : Bytes) (x : Dyn)
    (hk : k' ≠ k) (h : fill env o k' x = .ok o1) : OMap.lookup o1 k = OMap.lookup o k := by
  unfold fill at h
  split at h
  · split at h
    · cases h
      unfold upsert
      rw [OMap.lookup_upsert, if_neg (fun e => hk e.symm)]
    · cases h
    · cases h
  · cases h
    unfold upsert
    rw [OMap.lookup_upsert, if_neg (fun e => hk e.symm)]

theorem fillPairs_other (env : Env) (k : Bytes) : ∀ (kvs : List (Bytes × Dyn))
    (o o' : List (Bytes × Val)), k ∉ kvs.map Prod.fst → fillPairs env o kvs = .ok o' →
    OMap.lookup o' k = OMap.lookup o k := by
  intro kvs
  induction kvs with
  | nil =>
    intro o o' _ h
    simp only [fillPairs, Outcome.ok.injEq] at h
    subst h; rfl
  | cons a rest ih =>
    intro o o' hk h
    obtain ⟨k0, x0⟩ := a
    simp only [List.map_cons, List.mem_cons, not_or] at hk
    simp only [fillPairs] at h
    split at h
    · rename_i o1 h1
      rw [ih o1 o' hk.2 h]
      exact fill_other env o o1 k k0 x0 (fun e => hk.1 e.symm) h1
    · rename_i hne
      exact absurd h (hne o')

theorem fillPairs_at (env : Env) (k : Bytes) (d : Dyn) :
    ∀ (kvs : List (Bytes × Dyn)) (o o' : List (Bytes × Val)), (kvs.map Prod.fst).Nodup →
    (k, d) ∈ kvs → Lets env o k → fillPairs env o kvs = .ok o' →
    OMap.lookup o' k = some (.cell d .auto .none) := by
  intro kvs
  induction kvs with
  | nil => intro o o' _ hm; cases hm
  | cons a rest ih =>
    intro o o' hnd hm hp h
    obtain ⟨k0, x0⟩ := a
    simp only [List.map_cons, List.nodup_cons] at hnd
    simp only [fillPairs] at h
    by_cases hk : k0 = k
    · subst hk
      have hx : x0 = d := by
        rcases List.mem_cons.1 hm with e | hm'
        · cases e; rfl
        · exact absurd (List.mem_map_of_mem (f := Prod.fst) hm') hnd.1
      subst hx
      rw [fill_auto env o k0 x0 hp] at h
      simp only at h
      rw [fillPairs_other env k0 rest _ o' hnd.1 h, OMap.lookup_upsert, if_pos rfl]
    · split at h
      · rename_i o1 h1
        have hm' : (k, d) ∈ rest := by
          rcases List.mem_cons.1 hm with e | hm'
          · cases e; exact absurd rfl hk
          · exact hm'
        exact ih o1 o' hnd.2 hm'
          (lets_of_lookup_eq (fill_other env o o1 k k0 x0 hk h1) hp) h
      · rename_i hne
        exact absurd h (hne o')

/-! ### 5. The member the reader finds under the written name -/

theorem lookupJV_tree_of_lookup (env : Env) (k : Bytes) : ∀ (row : List (Bytes × Val)) (c : Val),
    (∀ k' ∈ RowPrint.visibleKeys row, sanitize k' = sanitize k → k' = k) →
    OMap.lookup row k = some c → Cells.format c ≠ .hidden →
    LineSpec.lookupJV (treeMembers env (Members.ofList row)) (sanitize k) = some (treeVal env c) := by
  intro row
  induction row with
  | nil => intro c _ h; cases h
  | cons a rest ih =>
    obtain ⟨k0, c0⟩ := a
    intro c hsep hl hvis
    rw [LineLevel.visibleKeys_cons] at hsep
    simp only [OMap.lookup] at hl
    by_cases hk : k0 = k
    · subst hk
      simp only [if_true, Option.some.injEq] at hl
      subst hl
      simp only [Members.ofList, treeMembers, beq_iff_eq, hvis, if_false]
      rw [LineLevel.lookupJV_cons, if_pos rfl]
    · simp only [hk, if_false] at hl
      by_cases hh : Cells.format c0 = .hidden
      · simp only [hh, if_true] at hsep
        simp only [Members.ofList, treeMembers, hh, beq_self_eq_true, if_true]
        exact ih c hsep hl hvis
      · simp only [hh, if_false] at hsep
        simp only [Members.ofList, treeMembers, beq_iff_eq, hh, if_false]
        have hne : ¬ sanitize k0 = sanitize k := fun e => hk (hsep k0 (List.mem_cons_self ..) e)
        rw [LineLevel.lookupJV_cons, if_neg hne]
        exact ih c (fun k' hk' => hsep k' (List.mem_cons_of_mem _ hk')) hl hvis

/-! ### 6. The theorems -/

theorem mem_of_lookup {C : Type} {l : OMap C} {k : Bytes} {c : C} (h : OMap.lookup l k = some c) :
    (k, c) ∈ l := by
  induction l with
  | nil => cases h
  | cons a rest ih =>
    obtain ⟨k0, c0⟩ := a
    simp only [OMap.lookup] at h
    split at h
    · rename_i hk
      subst hk
      cases h
      exact List.mem_cons_self ..
    · exact List.mem_cons_of_mem _ (ih h)

/-- What the oracle's `normDup` keeps under a name of the input is a reader value (every string
    and name well-formed UTF-8, every number literal a valid number), and so is the name. -/
theorem normDup_reader (line : Bytes) (k : Bytes) (v : JV)
    (hv : LineSpec.lookupJV (LineSpec.normDup (Json.unmarshal line).1) k = some v) :
    sanitize k = k ∧ AllV StrOK NumOK v := by
  rw [LineSpec.normDup, lookupJV_ofList] at hv
  exact allM_norm (Json.unmarshal line).1 [] (RoundTrip.reader_tree_ok line)
    (fun _ hkv => by cases hkv) (k, v) (mem_of_lookup hv)

/-- General form.  One accepted line through `jlLine`, any cast tables whose `cast.To` with a nil
    target type returns its argument (as the source's does), any pair of templates (no hypothesis
    on the other columns, repeated column names allowed).  `k`: a name that each template either
    does not declare or declares as an `auto` column without raw type.  `v`: the value the input
    holds under `k` as the oracle reads it (`normDup`: the LAST member called `k`, and inside it
    every repeated name resolved the same way — first position, last value).  Then the object the
    reader delivers for the written bytes holds under the written name of `k` EXACTLY `v`: JV
    equality — same members in the same order at every depth, arrays element by element, strings
    as decoded, number literals verbatim.

    `hsep` is `LineLevel`'s separation hypothesis: no other key of the line is written like `k`. -/
theorem passed_member_verbatim (T : CastTables) (ext : Ext) (ti to : Tmpl) (line b k : Bytes) (v : JV)
    (hT : ∀ x : Dyn, castTo T ext .none x = .ok x)
    (h : jlLine ⟨T, ext⟩ ti to line = .ok (b, none)) (hx : FloatTextOK ext)
    (hti : PassT ti k) (hto : PassT to k)
    (hsep : ∀ k' ∈ OMap.keys to ++ OMap.keys ti ++ Order.inputKeys line,
      sanitize k' = sanitize k → k' = k)
    (hv : LineSpec.lookupJV (LineSpec.normDup (Json.unmarshal line).1) k = some v) :
    ∃ body t, b = body ++ [0x0A] ∧ Json.unmarshal body = (t, true) ∧
      LineSpec.lookupJV t (sanitize k) = some v := by
  have hN : NoneId ⟨T, ext⟩ := hT
  obtain ⟨r, row', body, hget, hcr, _, hb, hu⟩ :=
    LineLevel.emitted_text ⟨T, ext⟩ ti to line b h hx
  refine ⟨body, _, hb, hu, ?_⟩
  have hvw := (normDup_reader line k v hv).2
  -- the importer's row holds the row of `v` in an Auto cell
  obtain ⟨row0, h0, h1⟩ := Order.getRow_ok _ ti line r none hget
  obtain ⟨l, hl, hp, _⟩ := Order.unmarshalInto_ok _ row0 r line h1
  rw [ofJVMembers_norm _ hN] at hl
  cases hl
  rw [LineSpec.normDup, lookupJV_ofList] at hv
  have hr : OMap.lookup r k = some (cellOf v) :=
    parseMembers_at _ hN k _ [] row0 r List.nodup_nil hp (cloneRow_pass _ k ti row0 hti h0)
      (fun w hw => by cases hw) v hv
  -- so does the exporter's
  obtain ⟨row0', h0', h1', _⟩ := Order.createRow_row_ok _ to r row' none hcr
  have hr' : OMap.lookup row' k = some (cellOf v) :=
    fillPairs_at _ k (dynOf v) _ row0' row'
      (by rw [Order.keys_map_raw]; exact Order.getRow_keys_nodup _ ti line r hget)
      (List.mem_map.2 ⟨(k, cellOf v), mem_of_lookup hr, rfl⟩)
      (.inl ⟨hN, cloneRow_pass _ k to row0' hto h0'⟩) h1'
  -- and the reader finds its print under the written name
  have horigin := LineLevel.created_keys_origin _ ti to line r row' hget hcr
  rw [← treeVal_cellOf_reader ⟨T, ext⟩ v hvw]
  exact lookupJV_tree_of_lookup _ k row' (cellOf v)
    (fun k' hk' => hsep k' (horigin k' (LineLevel.visibleKeys_subset row' k' hk'))) hr'
    (by simp [cellOf, Cells.format])

/-- The name under which the member is found is `k` itself: a name of the input is well-formed
    UTF-8 (the reader has already replaced ill-formed bytes), so the escaper writes it as it is. -/
theorem passed_member_verbatim' (T : CastTables) (ext : Ext) (ti to : Tmpl) (line b k : Bytes) (v : JV)
    (hT : ∀ x : Dyn, castTo T ext .none x = .ok x)
    (h : jlLine ⟨T, ext⟩ ti to line = .ok (b, none)) (hx : FloatTextOK ext)
    (hti : PassT ti k) (hto : PassT to k)
    (hsep : ∀ k' ∈ OMap.keys to ++ OMap.keys ti ++ Order.inputKeys line, sanitize k' = k → k' = k)
    (hv : LineSpec.lookupJV (LineSpec.normDup (Json.unmarshal line).1) k = some v) :
    ∃ body t, b = body ++ [0x0A] ∧ Json.unmarshal body = (t, true) ∧
      LineSpec.lookupJV t k = some v := by
  have hk := (normDup_reader line k v hv).1
  have := passed_member_verbatim T ext ti to line b k v hT h hx hti hto
    (by rw [hk]; exact hsep) hv
  rwa [hk] at this

/-- Target 1.  A member whose name NEITHER template declares passes through whole. -/
theorem undeclared_member_verbatim (T : CastTables) (ext : Ext) (ti to : Tmpl) (line b k : Bytes)
    (v : JV) (hT : ∀ x : Dyn, castTo T ext .none x = .ok x)
    (h : jlLine ⟨T, ext⟩ ti to line = .ok (b, none)) (hx : FloatTextOK ext)
    (hki : k ∉ OMap.keys ti) (hko : k ∉ OMap.keys to)
    (hsep : ∀ k' ∈ OMap.keys to ++ OMap.keys ti ++ Order.inputKeys line,
      sanitize k' = sanitize k → k' = k)
    (hv : LineSpec.lookupJV (LineSpec.normDup (Json.unmarshal line).1) k = some v) :
    ∃ body t, b = body ++ [0x0A] ∧ Json.unmarshal body = (t, true) ∧
      LineSpec.lookupJV t (sanitize k) = some v :=
  passed_member_verbatim T ext ti to line b k v hT h hx (passT_of_not_mem hki)
    (passT_of_not_mem hko) hsep hv

/-- Target 1 over the regenerated cast tables, any standard-library parameters. -/
theorem undeclared_member_verbatim_gen (ext : Ext) (ti to : Tmpl) (line b k : Bytes) (v : JV)
    (h : jlLine ⟨genTables, ext⟩ ti to line = .ok (b, none)) (hx : FloatTextOK ext)
    (hki : k ∉ OMap.keys ti) (hko : k ∉ OMap.keys to)
    (hsep : ∀ k' ∈ OMap.keys to ++ OMap.keys ti ++ Order.inputKeys line,
      sanitize k' = sanitize k → k' = k)
    (hv : LineSpec.lookupJV (LineSpec.normDup (Json.unmarshal line).1) k = some v) :
    ∃ body t, b = body ++ [0x0A] ∧ Json.unmarshal body = (t, true) ∧
      LineSpec.lookupJV t (sanitize k) = some v :=
  undeclared_member_verbatim genTables ext ti to line b k v (CastTyped.gen_castTo_none ext) h hx
    hki hko hsep hv

theorem passT_of_nodup {t : Tmpl} {k : Bytes} {raw : Dyn} (hnd : (OMap.keys t).Nodup)
    (hm : (k, Val.cell raw .auto .none) ∈ t) : PassT t k := by
  intro c hc
  have h1 := LineLevel.lookup_of_mem_nodup hnd hm
  have h2 := LineLevel.lookup_of_mem_nodup hnd hc
  rw [h1] at h2
  cases h2
  exact ⟨rfl, rfl⟩

/-- Target 2.  The same for a name declared as an `auto` column without raw type in BOTH templates
    (distinct column names): nested objects and arrays under an auto column keep their member
    order at every depth.  (`passed_member_verbatim` also covers a name declared so in one
    template and undeclared in the other.) -/
theorem auto_column_verbatim (T : CastTables) (ext : Ext) (ti to : Tmpl) (line b k : Bytes) (v : JV)
    (ri ro : Dyn) (hT : ∀ x : Dyn, castTo T ext .none x = .ok x)
    (h : jlLine ⟨T, ext⟩ ti to line = .ok (b, none)) (hx : FloatTextOK ext)
    (hndi : (OMap.keys ti).Nodup) (hndo : (OMap.keys to).Nodup)
    (hci : (k, Val.cell ri .auto .none) ∈ ti) (hco : (k, Val.cell ro .auto .none) ∈ to)
    (hsep : ∀ k' ∈ OMap.keys to ++ OMap.keys ti ++ Order.inputKeys line,
      sanitize k' = sanitize k → k' = k)
    (hv : LineSpec.lookupJV (LineSpec.normDup (Json.unmarshal line).1) k = some v) :
    ∃ body t, b = body ++ [0x0A] ∧ Json.unmarshal body = (t, true) ∧
      LineSpec.lookupJV t (sanitize k) = some v :=
  passed_member_verbatim T ext ti to line b k v hT h hx (passT_of_nodup hndi hci)
    (passT_of_nodup hndo hco) hsep hv

theorem auto_column_verbatim_gen (ext : Ext) (ti to : Tmpl) (line b k : Bytes) (v : JV)
    (ri ro : Dyn) (h : jlLine ⟨genTables, ext⟩ ti to line = .ok (b, none)) (hx : FloatTextOK ext)
    (hndi : (OMap.keys ti).Nodup) (hndo : (OMap.keys to).Nodup)
    (hci : (k, Val.cell ri .auto .none) ∈ ti) (hco : (k, Val.cell ro .auto .none) ∈ to)
    (hsep : ∀ k' ∈ OMap.keys to ++ OMap.keys ti ++ Order.inputKeys line,
      sanitize k' = sanitize k → k' = k)
    (hv : LineSpec.lookupJV (LineSpec.normDup (Json.unmarshal line).1) k = some v) :
    ∃ body t, b = body ++ [0x0A] ∧ Json.unmarshal body = (t, true) ∧
      LineSpec.lookupJV t (sanitize k) = some v :=
  auto_column_verbatim genTables ext ti to line b k v ri ro (CastTyped.gen_castTo_none ext) h hx
    hndi hndo hci hco hsep hv

/-! ### 7. In the oracle's words: no level is re-sorted -/

mutual
  /-- The member-name lists of every object of a value, outermost first, in text order (objects
      inside arrays included). -/
  def namesDeep : JV → List (List Bytes)
    | .obj ms => LineSpec.keysOf ms :: namesDeepM ms
    | .arr xs => namesDeepL xs
    | _ => []
  def namesDeepM : JVMembers → List (List Bytes)
    | .nil => []
    | .cons _ v ms => namesDeep v ++ namesDeepM ms
  def namesDeepL : JVList → List (List Bytes)
    | .nil => []
    | .cons v xs => namesDeep v ++ namesDeepL xs
end

mutual
  theorem sameShape_refl : ∀ v : JV, LineSpec.sameShape v v = true
    | .null => by simp [LineSpec.sameShape]
    | .bool _ => by simp [LineSpec.sameShape]
    | .num _ => by simp [LineSpec.sameShape]
    | .str _ => by simp [LineSpec.sameShape]
    | .arr xs => by simp only [LineSpec.sameShape]; exact sameShapeL_refl xs
    | .obj ms => by simp only [LineSpec.sameShape]; exact sameShapeM_refl ms
  theorem sameShapeL_refl : ∀ xs : JVList, LineSpec.sameShapeL xs xs = true
    | .nil => by simp [LineSpec.sameShapeL]
    | .cons v xs => by simp [LineSpec.sameShapeL, sameShape_refl v, sameShapeL_refl xs]
  theorem sameShapeM_refl : ∀ ms : JVMembers, LineSpec.sameShapeM ms ms = true
    | .nil => by simp [LineSpec.sameShapeM]
    | .cons k v ms => by simp [LineSpec.sameShapeM, sameShape_refl v, sameShapeM_refl ms]
end

/-- Target 3, per name.  For a name that passes (targets 1 and 2), the value emitted under it
    has, at every depth, the member names of the input's value in the input's order, and the
    oracle's shape comparison (`LineSpec.sameShape`: names and order at every depth, array
    lengths) accepts the pair. -/
theorem passed_member_not_resorted (T : CastTables) (ext : Ext) (ti to : Tmpl) (line b k : Bytes)
    (v : JV) (hT : ∀ x : Dyn, castTo T ext .none x = .ok x)
    (h : jlLine ⟨T, ext⟩ ti to line = .ok (b, none)) (hx : FloatTextOK ext)
    (hti : PassT ti k) (hto : PassT to k)
    (hsep : ∀ k' ∈ OMap.keys to ++ OMap.keys ti ++ Order.inputKeys line,
      sanitize k' = sanitize k → k' = k)
    (hv : LineSpec.lookupJV (LineSpec.normDup (Json.unmarshal line).1) k = some v) :
    ∃ body t ov, b = body ++ [0x0A] ∧ Json.unmarshal body = (t, true) ∧
      LineSpec.lookupJV t (sanitize k) = some ov ∧ namesDeep ov = namesDeep v ∧
      LineSpec.sameShape v ov = true := by
  obtain ⟨body, t, hb, hu, hl⟩ :=
    passed_member_verbatim T ext ti to line b k v hT h hx hti hto hsep hv
  exact ⟨body, t, v, hb, hu, hl, rfl, sameShape_refl v⟩

/-- The last clause of `LineSpec.orderViolation` (undeclared keys: containers keep the input's
    shape), as a function of its own. -/
def undeclaredClause (cols : List LineSpec.Col) (input output : JVMembers) (inSub : Bool) :
    Option (String × Bool) :=
  (LineSpec.keysOf output).foldl (fun acc k =>
    match acc with
    | some v => some v
    | none =>
      if (cols.map LineSpec.Col.name).contains k then none
      else
        match LineSpec.lookupJV input k, LineSpec.lookupJV output k with
        | some iv, some ov =>
          if LineSpec.sameShape iv ov then none else some ("undeclared-value-reshaped", inSub)
        | _, _ => none) none

/-- The clause before it (declared columns). -/
def declaredClause (fuel : Nat) (cols : List LineSpec.Col) (input output : JVMembers)
    (inSub : Bool) : Option (String × Bool) :=
  cols.foldl (fun acc c =>
    match acc with
    | some v => some v
    | none =>
      match c, LineSpec.lookupJV output c.name with
      | .sub n sub, some (.obj o) =>
        match LineSpec.lookupJV input n with
        | some (.obj i) => LineSpec.orderViolation fuel sub i o true
        | _ => LineSpec.orderViolation fuel sub .nil o true
      | .sub _ _, some .null => none
      | .sub _ _, some _ => some ("sub-row-not-an-object", true)
      | .leaf n _ _, some ov =>
        match LineSpec.lookupJV input n with
        | some iv =>
          if LineSpec.isContainer ov && !(LineSpec.sameShape iv ov) then
            some ("nested-object-resorted", inSub) else none
        | none => none
      | _, none => none) none

/-- `undeclaredClause` IS the oracle's last clause. -/
theorem orderViolation_succ (fuel : Nat) (cols : List LineSpec.Col) (input output : JVMembers)
    (inSub : Bool) :
    LineSpec.orderViolation (fuel + 1) cols input output inSub =
      if LineSpec.hasDupKeys input then none
      else if LineSpec.keysOf output != LineSpec.expectedKeys cols (LineSpec.keysOf input) then
        some ("key-order-or-presence", inSub)
      else (declaredClause fuel cols input output inSub).orElse fun _ =>
        undeclaredClause cols input output inSub := by
  rw [LineSpec.orderViolation]
  rfl

theorem allM_keys {P Q : Bytes → Prop} : ∀ ms : JVMembers, AllM P Q ms →
    ∀ k ∈ ms.toList.map Prod.fst, P k
  | .nil, _, k, hk => by cases hk
  | .cons k0 v ms, h, k, hk => by
    simp only [AllM] at h
    simp only [JVMembers.toList, List.map_cons, List.mem_cons] at hk
    rcases hk with rfl | hk
    · exact h.1
    · exact allM_keys ms h.2.2 k hk

/-- Every member name the reader delivers is written as it is. -/
theorem inputKeys_fixed (line : Bytes) : ∀ k ∈ Order.inputKeys line, sanitize k = k :=
  allM_keys _ (RoundTrip.reader_tree_ok line)

/-- Target 3, in the oracle's words.  For an emitted line over the regenerated tables, an
    importer template declaring no name the exporter's does not declare, exporter column names
    well-formed UTF-8: the oracle's check of the undeclared members of the emitted object against
    the input (as the driver calls it: `normDup` of what the reader delivers for the input line)
    finds nothing — every undeclared member has the input's shape at every depth.  (It has the
    input's VALUE: `passed_member_verbatim`.) -/
theorem undeclared_clause_none (ext : Ext) (ti to : Tmpl) (line b : Bytes)
    (h : jlLine ⟨genTables, ext⟩ ti to line = .ok (b, none)) (hx : FloatTextOK ext)
    (hsub : ∀ k ∈ OMap.keys ti, k ∈ OMap.keys to)
    (hfix : ∀ k ∈ OMap.keys to, sanitize k = k) :
    ∃ body t, b = body ++ [0x0A] ∧ Json.unmarshal body = (t, true) ∧
      undeclaredClause (LineLevel.leafCols to) (LineSpec.normDup (Json.unmarshal line).1) t false
        = none := by
  obtain ⟨r, row', body, _, _, _, hb, hu⟩ :=
    LineLevel.emitted_text ⟨genTables, ext⟩ ti to line b h hx
  refine ⟨body, _, hb, hu, ?_⟩
  unfold undeclaredClause
  apply LineLevel.foldl_none
  intro k _
  simp only [LineLevel.leafCols_names, List.contains_eq_mem, decide_eq_true_eq]
  by_cases hk : k ∈ OMap.keys to
  · simp [hk]
  · simp only [hk, if_false]
    cases hi : LineSpec.lookupJV (LineSpec.normDup (Json.unmarshal line).1) k with
    | none => rfl
    | some iv =>
      obtain ⟨body', t', hb', hu', hl'⟩ :=
        passed_member_verbatim' genTables ext ti to line b k iv (CastTyped.gen_castTo_none ext)
          h hx (passT_of_not_mem fun hki => hk (hsub k hki)) (passT_of_not_mem hk)
          (by
            intro k' hk' hs
            rw [List.append_assoc] at hk'
            rcases List.mem_append.1 hk' with hk' | hk'
            · rw [hfix k' hk'] at hs; exact hs
            · rcases List.mem_append.1 hk' with hk' | hk'
              · rw [hfix k' (hsub k' hk')] at hs; exact hs
              · rw [inputKeys_fixed line k' hk'] at hs; exact hs) hi
      have hbody : body' = body := List.append_cancel_right (hb'.symm.trans hb)
      subst hbody
      rw [hu] at hu'
      cases hu'
      simp only [hl', sameShape_refl, if_true]

/-! ### 8. Any cast tables at all, for lines whose member names are unique at every depth

No cast is consulted on the way of an undeclared member whose name is not repeated: the
hypothesis on `cast.To(nil, ·)` can be dropped on C02's domain (`RoundTrip.UniqueKeys`), where
`normDup` is the identity. -/

theorem hasKey_false {k : Bytes} : ∀ {ms : JVMembers}, RoundTrip.hasKey k ms = false →
    k ∉ ms.toList.map Prod.fst
  | .nil, _ => by simp [JVMembers.toList]
  | .cons k0 v ms, h => by
    simp only [RoundTrip.hasKey, Bool.or_eq_false_iff, decide_eq_false_iff_not] at h
    simp only [JVMembers.toList, List.map_cons, List.mem_cons, not_or]
    exact ⟨fun e => h.1 e.symm, hasKey_false h.2⟩

theorem jv_ofList_toList : ∀ ms : JVMembers, JVMembers.ofList ms.toList = ms
  | .nil => rfl
  | .cons k v ms => by simp [JVMembers.toList, JVMembers.ofList, jv_ofList_toList ms]

mutual
  theorem normDupV_unique : ∀ v : JV, RoundTrip.uniqueV v = true → LineSpec.normDupV v = v
    | .null, _ => by simp [LineSpec.normDupV]
    | .bool _, _ => by simp [LineSpec.normDupV]
    | .num _, _ => by simp [LineSpec.normDupV]
    | .str _, _ => by simp [LineSpec.normDupV]
    | .arr xs, h => by
      simp only [RoundTrip.uniqueV] at h
      simp only [LineSpec.normDupV, normDupL_unique xs h]
    | .obj ms, h => by
      simp only [RoundTrip.uniqueV] at h
      simp only [LineSpec.normDupV, normDupM_unique ms [] h (fun _ hk => by cases hk),
        List.nil_append, jv_ofList_toList]
  theorem normDupL_unique : ∀ xs : JVList, RoundTrip.uniqueL xs = true → LineSpec.normDupL xs = xs
    | .nil, _ => by simp [LineSpec.normDupL]
    | .cons x xs, h => by
      simp only [RoundTrip.uniqueL, Bool.and_eq_true] at h
      simp only [LineSpec.normDupL, normDupV_unique x h.1, normDupL_unique xs h.2]
  theorem normDupM_unique : ∀ (ms : JVMembers) (acc : List (Bytes × JV)),
      RoundTrip.uniqueM ms = true → (∀ k ∈ OMap.keys acc, RoundTrip.hasKey k ms = false) →
      LineSpec.normDupM ms acc = acc ++ ms.toList
    | .nil, acc, _, _ => by simp [LineSpec.normDupM, JVMembers.toList]
    | .cons k v ms, acc, h, hd => by
      simp only [RoundTrip.uniqueM, Bool.and_eq_true, Bool.not_eq_true'] at h
      have hk : k ∉ OMap.keys acc := fun hk => by
        have := hd k hk
        simp [RoundTrip.hasKey] at this
      have hup : LineSpec.upsertKV acc k v = acc ++ [(k, v)] := by
        unfold LineSpec.upsertKV
        rw [any_false_of_not_mem acc hk]
        rfl
      rw [LineSpec.normDupM, normDupV_unique v h.1.2, hup,
        normDupM_unique ms (acc ++ [(k, v)]) h.2 ?_]
      · simp [JVMembers.toList]
      · intro k' hk'
        simp only [OMap.keys, List.map_append, List.map_cons, List.map_nil, List.mem_append,
          List.mem_singleton] at hk'
        rcases hk' with hk' | rfl
        · have := hd k' hk'
          simp only [RoundTrip.hasKey, Bool.or_eq_false_iff] at this
          exact this.2
        · exact h.1.1
end

/-- On C02's domain the oracle's `normDup` changes nothing. -/
theorem normDup_unique (t : JVMembers) (hu : RoundTrip.UniqueKeys t) : LineSpec.normDup t = t := by
  rw [LineSpec.normDup, normDupM_unique t [] hu (fun _ hk => by cases hk), List.nil_append,
    jv_ofList_toList]

theorem parseMembers_other (env : Env) (k : Bytes) : ∀ (l : List (Bytes × Dyn))
    (o o' : List (Bytes × Val)) (e : Option ErrClass), k ∉ l.map Prod.fst →
    parseMembers env o l = .ok (o', e) → OMap.lookup o' k = OMap.lookup o k := by
  intro l
  induction l with
  | nil =>
    intro o o' e _ h
    simp only [parseMembers, Outcome.ok.injEq, Prod.mk.injEq] at h
    rw [← h.1]
  | cons a rest ih =>
    intro o o' e hk h
    obtain ⟨k0, x0⟩ := a
    simp only [List.map_cons, List.mem_cons, not_or] at hk
    simp only [parseMembers] at h
    split at h
    · rename_i o1 h1
      rw [ih o1 o' e hk.2 h]
      exact parseMember_other env o o1 k k0 x0 none (fun e => hk.1 e.symm) h1
    · exact parseMember_other env o o' k k0 x0 e (fun e => hk.1 e.symm) h

theorem parseMembers_at_unique (env : Env) (k : Bytes) (v : JV) : ∀ (ms : JVMembers)
    (o o' : List (Bytes × Val)), (ms.toList.map Prod.fst).Nodup → OMap.lookup o k = none →
    LineSpec.lookupJV ms k = some v →
    parseMembers env o (RoundTrip.pairsOf ms) = .ok (o', none) →
    OMap.lookup o' k = some (cellOf v)
  | .nil, o, o', _, _, hv, _ => by simp [LineSpec.lookupJV, JVMembers.toList] at hv
  | .cons k0 v0 ms, o, o', hnd, hn, hv, h => by
    simp only [JVMembers.toList, List.map_cons, List.nodup_cons] at hnd
    rw [LineLevel.lookupJV_cons] at hv
    rw [RoundTrip.pairsOf, parseMembers] at h
    by_cases hk : k0 = k
    · subst hk
      rw [if_pos rfl] at hv
      cases hv
      have hstep : parseMember env o k0 (dynOf v) = .ok (OMap.upsert o k0 (cellOf v), none) := by
        have hn' : lookup o k0 = none := hn
        simp only [parseMember, hn']
        rfl
      rw [hstep] at h
      simp only at h
      rw [parseMembers_other env k0 _ _ o' none (by rw [RoundTrip.keys_pairsOf]; exact hnd.1) h,
        OMap.lookup_upsert, if_pos rfl]
    · rw [if_neg hk] at hv
      split at h
      · rename_i o1 h1
        exact parseMembers_at_unique env k v ms o1 o' hnd.2
          ((parseMember_other env o o1 k k0 _ none hk h1).trans hn) hv h
      · rename_i hne
        exact absurd h (hne o')

/-- Target 1 for ANY environment (any cast tables, any standard-library parameters), on lines
    whose member names are unique at every depth: an undeclared member passes through whole.
    Here `normDup` is the identity (`normDup_unique`), so `v` is simply the member of the input
    called `k`. -/
theorem undeclared_member_verbatim_unique (env : Env) (ti to : Tmpl) (line b k : Bytes) (v : JV)
    (h : jlLine env ti to line = .ok (b, none)) (hx : FloatTextOK env.ext)
    (hki : k ∉ OMap.keys ti) (hko : k ∉ OMap.keys to)
    (hsep : ∀ k' ∈ OMap.keys to ++ OMap.keys ti ++ Order.inputKeys line,
      sanitize k' = sanitize k → k' = k)
    (hu : RoundTrip.UniqueKeys (Json.unmarshal line).1)
    (hv : LineSpec.lookupJV (Json.unmarshal line).1 k = some v) :
    ∃ body t, b = body ++ [0x0A] ∧ Json.unmarshal body = (t, true) ∧
      LineSpec.lookupJV t (sanitize k) = some v := by
  obtain ⟨r, row', body, hget, hcr, _, hb, hu'⟩ := LineLevel.emitted_text env ti to line b h hx
  refine ⟨body, _, hb, hu', ?_⟩
  have hvw : AllV StrOK NumOK v := by
    have hv' := hv
    rw [← normDup_unique _ hu] at hv'
    exact (normDup_reader line k v hv').2
  obtain ⟨row0, h0, h1⟩ := Order.getRow_ok _ ti line r none hget
  obtain ⟨l, hl, hp, _⟩ := Order.unmarshalInto_ok _ row0 r line h1
  rw [RoundTrip.ofJVMembers_ok env _ hu] at hl
  cases hl
  have hn0 : OMap.lookup row0 k = none :=
    OMap.lookup_none_of_not_mem _ _ (by
      rw [Order.cloneRow_keys env ti row0 h0, Order.mem_appendNew]; simpa using hki)
  have hr : OMap.lookup r k = some (cellOf v) :=
    parseMembers_at_unique env k v _ row0 r (RoundTrip.UniqueKeys.top hu) hn0 hv hp
  obtain ⟨row0', h0', h1', _⟩ := Order.createRow_row_ok _ to r row' none hcr
  have hn0' : OMap.lookup row0' k = none :=
    OMap.lookup_none_of_not_mem _ _ (by
      rw [Order.cloneRow_keys env to row0' h0', Order.mem_appendNew]; simpa using hko)
  have hr' : OMap.lookup row' k = some (cellOf v) :=
    fillPairs_at _ k (dynOf v) _ row0' row'
      (by rw [Order.keys_map_raw]; exact Order.getRow_keys_nodup _ ti line r hget)
      (List.mem_map.2 ⟨(k, cellOf v), mem_of_lookup hr, rfl⟩) (.inr hn0') h1'
  have horigin := LineLevel.created_keys_origin _ ti to line r row' hget hcr
  rw [← treeVal_cellOf_reader env v hvw]
  exact lookupJV_tree_of_lookup _ k row' (cellOf v)
    (fun k' hk' => hsep k' (horigin k' (LineLevel.visibleKeys_subset row' k' hk'))) hr'
    (by simp [cellOf, Cells.format])

/-! ### 9. Non-vacuity: a concrete line, end to end, over the regenerated tables

  Template `n` (numeric) on both sides, empty stdlib oracle; input line
  `{"z":{"q":1,"b":[{"y":2,"a":3}]},"n":5}`.  The line comes out as
  `{"n":5,"z":{"q":1,"b":[{"y":2,"a":3}]}}`: the declared column first, then the undeclared
  member, whose nested members are NOT in alphabetical order (`q` before `b`, `y` before `a`)
  and stay as they are. -/
namespace Demo
open RowPrint JsonWrite

def env : Env := ⟨genTables, Ext.empty⟩

/-- `n` numeric -/
def tmpl : Tmpl := withCol [] [0x6E] .numeric .none

/-- `{"q":1,"b":[{"y":2,"a":3}]}` -/
def zBody : Bytes :=
  [0x7B, 0x22, 0x71, 0x22, 0x3A, 0x31, 0x2C, 0x22, 0x62, 0x22, 0x3A, 0x5B, 0x7B, 0x22, 0x79, 0x22,
   0x3A, 0x32, 0x2C, 0x22, 0x61, 0x22, 0x3A, 0x33, 0x7D, 0x5D, 0x7D]

/-- `{"z":{"q":1,"b":[{"y":2,"a":3}]},"n":5}` -/
def line : Bytes :=
  [0x7B, 0x22, 0x7A, 0x22, 0x3A] ++ zBody ++ [0x2C, 0x22, 0x6E, 0x22, 0x3A, 0x35, 0x7D]

/-- `{"n":5,"z":{"q":1,"b":[{"y":2,"a":3}]}}` -/
def out : Bytes :=
  [0x7B, 0x22, 0x6E, 0x22, 0x3A, 0x35, 0x2C, 0x22, 0x7A, 0x22, 0x3A] ++ zBody ++ [0x7D]

/-- the value under `z` -/
def zVal : JV :=
  .obj (.cons [0x71] (.num [0x31])
    (.cons [0x62] (.arr (.cons (.obj (.cons [0x79] (.num [0x32]) (.cons [0x61] (.num [0x33]) .nil)))
      .nil)) .nil))

theorem tmpl_eq : tmpl = [([0x6E], .cell .nil .numeric .none)] := rfl

open Json in
theorem unmarshal_line : Json.unmarshal line =
    (.cons [0x7A] zVal (.cons [0x6E] (.num [0x35]) .nil), true) := by
  simp [line, zBody, zVal, unmarshal, token, tokenCore, skipSpace, isSpace, asClose, parseObject,
    parseArray, more, asKey, asTok, strBody, pre, handleDelim, scanScalar, scanNumber, scanInt,
    scanFracExp, digits, Json.isDigit, valueAllowed, valueEnd, isEof]

theorem inputKeys_line : Order.inputKeys line = [[0x7A], [0x6E]] := by
  simp [Order.inputKeys, unmarshal_line, JVMembers.toList]

/-- the row `GetRow` delivers, which is also the row `CreateRow` makes of it: the declared column,
    then the undeclared member as an Auto cell holding a row in text order -/
def imported : List (Bytes × Val) :=
  [([0x6E], .cell (.num [0x35]) .numeric .none), ([0x7A], cellOf zVal)]

theorem getRow_line : getRow env tmpl line = .ok (imported, none) := by
  unfold getRow createRowEmpty
  have h0 : cloneRow env tmpl = .ok tmpl := rfl
  rw [h0]
  simp only [unmarshalInto, unmarshal_line]
  rfl

theorem createRow_imported :
    createRow env tmpl (.val (.row (Members.ofList imported))) = .ok (imported, none) := rfl

theorem quote_n : quote [0x6E] = [0x22, 0x6E, 0x22] := by
  simp [JsonWrite.quote, JsonWrite.quoteBody, JsonWrite.htmlSafe]

theorem quote_z : quote [0x7A] = [0x22, 0x7A, 0x22] := by
  simp [JsonWrite.quote, JsonWrite.quoteBody, JsonWrite.htmlSafe]

theorem export_n : exportVal env (.cell (.num [0x35]) .numeric .none) = .ok (.num [0x35]) := rfl

theorem marshal_n : marshalVal env (.cell (.num [0x35]) .numeric .none) = .ok [0x35] := by
  rw [marshalVal.eq_def]
  simp only [export_n]
  rw [marshalExported.eq_def]
  rfl

theorem zVal_reader : AllV StrOK NumOK zVal := by
  simp only [zVal, AllV, AllM, AllL, StrOK, NumOK, and_true]
  refine ⟨?_, ?_, ?_, ?_, ?_, ?_, ?_⟩ <;>
    first | exact JsonPrint.sanitize_of_ascii _ (by decide) | decide

theorem print_z : RoundTrip.printV zVal = zBody := by
  simp [zVal, zBody, RoundTrip.printV, RoundTrip.printM, RoundTrip.printL, joinComma,
    JsonWrite.quote, JsonWrite.quoteBody, JsonWrite.htmlSafe]

theorem marshal_z : marshalVal env (cellOf zVal) = .ok zBody := by
  unfold cellOf
  rw [JsonPrint.marshalVal_auto, RoundTrip.marshalDyn_dynOf env StrOK zVal zVal_reader, print_z]

theorem marshal_imported : marshalRow env (Members.ofList imported) = .ok out := by
  have h : marshalMembers env (Members.ofList imported) =
      .ok [quote [0x6E] ++ 0x3A :: [0x35], quote [0x7A] ++ 0x3A :: zBody] :=
    JsonPrint.marshalMembers_cons env _ _ _ (by decide) marshal_n
      (JsonPrint.marshalMembers_cons env _ _ _ (by simp [cellOf, Cells.format]) marshal_z
        (JsonPrint.marshalMembers_nil env))
  rw [JsonPrint.marshalRow_eq env _ h, quote_n, quote_z]
  rfl

/-- The whole line through `jlLine`. -/
theorem jlLine_line : jlLine env tmpl tmpl line = .ok (out ++ [0x0A], none) := by
  simp [jlLine, getRow_line, exportLine, createRow_imported, marshal_imported]

theorem floatOK : FloatTextOK env.ext := by
  intro b sz s h; cases h

theorem sanitize_z : sanitize [0x7A] = [0x7A] := JsonPrint.sanitize_of_ascii _ (by decide)
theorem sanitize_n : sanitize [0x6E] = [0x6E] := JsonPrint.sanitize_of_ascii _ (by decide)

/-- What the oracle reads under `z` in the input. -/
theorem input_z :
    LineSpec.lookupJV (LineSpec.normDup (Json.unmarshal line).1) [0x7A] = some zVal := by
  rw [unmarshal_line]
  rfl

theorem separated : ∀ k' ∈ OMap.keys tmpl ++ OMap.keys tmpl ++ Order.inputKeys line,
    sanitize k' = sanitize [0x7A] → k' = [0x7A] := by
  intro k' hk' hs
  rw [inputKeys_line, tmpl_eq] at hk'
  simp only [OMap.keys, List.map_cons, List.map_nil, List.cons_append, List.nil_append,
    List.mem_cons, List.not_mem_nil, or_false] at hk'
  rcases hk' with rfl | rfl | rfl | rfl
  · rw [sanitize_n, sanitize_z] at hs; exact hs
  · rw [sanitize_n, sanitize_z] at hs; exact hs
  · rfl
  · rw [sanitize_n, sanitize_z] at hs; exact hs

/-- Target 1 applies to `z` (all its hypotheses hold) and its conclusion, for the bytes `out`: the
    reader accepts them and the member under `z` is the input's value, whole. -/
theorem target1_on_z : ∃ t, Json.unmarshal out = (t, true) ∧
    LineSpec.lookupJV t [0x7A] = some zVal := by
  obtain ⟨body, t, hb, hu, hl⟩ :=
    undeclared_member_verbatim_gen Ext.empty tmpl tmpl line _ [0x7A] zVal jlLine_line floatOK
      (by rw [tmpl_eq]; decide) (by rw [tmpl_eq]; decide) separated input_z
  have : body = out := (List.append_cancel_right hb).symm
  subst this
  rw [sanitize_z] at hl
  exact ⟨t, hu, hl⟩

/-- …and the corollary in the oracle's words. -/
example : ∃ t, Json.unmarshal out = (t, true) ∧
    undeclaredClause (LineLevel.leafCols tmpl) (LineSpec.normDup (Json.unmarshal line).1) t false
      = none := by
  obtain ⟨body, t, hb, hu, hc⟩ :=
    undeclared_clause_none Ext.empty tmpl tmpl line _ jlLine_line floatOK (fun _ h => h)
      (by
        intro k hk
        rw [tmpl_eq] at hk
        simp only [OMap.keys, List.map_cons, List.map_nil, List.mem_cons, List.not_mem_nil,
          or_false] at hk
        subst hk; exact sanitize_n)
  have : body = out := (List.append_cancel_right hb).symm
  subst this
  exact ⟨t, hu, hc⟩

open Json in
/-- The same, computed directly: what the reader delivers for `out`. -/
theorem unmarshal_out : Json.unmarshal out =
    (.cons [0x6E] (.num [0x35]) (.cons [0x7A] zVal .nil), true) := by
  simp [out, zBody, zVal, unmarshal, token, tokenCore, skipSpace, isSpace, asClose, parseObject,
    parseArray, more, asKey, asTok, strBody, pre, handleDelim, scanScalar, scanNumber, scanInt,
    scanFracExp, digits, Json.isDigit, valueAllowed, valueEnd, isEof]

/-- The nested names, level by level, are the input's: `q, b` then `y, a`. -/
example : namesDeep zVal = [[[0x71], [0x62]], [[0x79], [0x61]]] := by
  simp [zVal, namesDeep, namesDeepM, namesDeepL, LineSpec.keysOf, JVMembers.toList]

/-- The oracle's shape comparison is not vacuous: the same value with `a` before `y` is reported. -/
example : LineSpec.sameShape zVal
    (.obj (.cons [0x71] (.num [0x31])
      (.cons [0x62] (.arr (.cons (.obj (.cons [0x61] (.num [0x33]) (.cons [0x79] (.num [0x32]) .nil)))
        .nil)) .nil))) = false := by
  simp [zVal, LineSpec.sameShape, LineSpec.sameShapeM, LineSpec.sameShapeL]

end Demo

/-! ### 10. Repeated names inside the value: why the statement is about `normDup`

  Same template; input line `{"z":{"a":1,"b":2,"a":3}}`.  The nested object is filled member by
  member: the second `a` is imported into the cell of the first.  The line comes out as
  `{"n":null,"z":{"a":3,"b":2}}` — the value `normDup` keeps (first position, last value), which
  the theorems predict, and NOT the value as the reader delivered it. -/
namespace Dup
open RowPrint JsonWrite

def env : Env := Demo.env
def tmpl : Tmpl := Demo.tmpl

/-- `{"z":{"a":1,"b":2,"a":3}}` -/
def line : Bytes :=
  [0x7B, 0x22, 0x7A, 0x22, 0x3A, 0x7B, 0x22, 0x61, 0x22, 0x3A, 0x31, 0x2C, 0x22, 0x62, 0x22, 0x3A,
   0x32, 0x2C, 0x22, 0x61, 0x22, 0x3A, 0x33, 0x7D, 0x7D]

/-- `{"a":3,"b":2}` -/
def zBody : Bytes := [0x7B, 0x22, 0x61, 0x22, 0x3A, 0x33, 0x2C, 0x22, 0x62, 0x22, 0x3A, 0x32, 0x7D]

/-- `{"n":null,"z":{"a":3,"b":2}}` -/
def out : Bytes :=
  [0x7B, 0x22, 0x6E, 0x22, 0x3A, 0x6E, 0x75, 0x6C, 0x6C, 0x2C, 0x22, 0x7A, 0x22, 0x3A] ++ zBody ++
    [0x7D]

/-- the value under `z` as the reader delivers it: three members -/
def zRaw : JV :=
  .obj (.cons [0x61] (.num [0x31]) (.cons [0x62] (.num [0x32]) (.cons [0x61] (.num [0x33]) .nil)))

/-- …and as the oracle's `normDup` keeps it: `a` where it first stood, with its last value -/
def zNorm : JV := .obj (.cons [0x61] (.num [0x33]) (.cons [0x62] (.num [0x32]) .nil))

open Json in
theorem unmarshal_line : Json.unmarshal line = (.cons [0x7A] zRaw .nil, true) := by
  simp [line, zRaw, unmarshal, token, tokenCore, skipSpace, isSpace, asClose, parseObject,
    more, asKey, asTok, strBody, pre, handleDelim, scanScalar, scanNumber, scanInt,
    scanFracExp, digits, Json.isDigit, valueAllowed, valueEnd, isEof]

theorem normDup_zRaw : LineSpec.normDupV zRaw = zNorm := by
  simp [zRaw, zNorm, LineSpec.normDupV, LineSpec.normDupM, LineSpec.upsertKV, JVMembers.ofList]

theorem input_z :
    LineSpec.lookupJV (LineSpec.normDup (Json.unmarshal line).1) [0x7A] = some zNorm := by
  rw [unmarshal_line, ← normDup_zRaw]
  rfl

def imported : List (Bytes × Val) := [([0x6E], .cell .nil .numeric .none), ([0x7A], cellOf zNorm)]

theorem getRow_line : getRow env tmpl line = .ok (imported, none) := by
  unfold getRow createRowEmpty
  have h0 : cloneRow env tmpl = .ok tmpl := rfl
  rw [h0]
  simp only [unmarshalInto, unmarshal_line]
  rfl

theorem createRow_imported :
    createRow env tmpl (.val (.row (Members.ofList imported))) = .ok (imported, none) := rfl

theorem marshal_n : marshalVal env (.cell .nil .numeric .none) = .ok RowPrint.null := by
  have he : exportVal env (.cell .nil .numeric .none) = .ok .nil := rfl
  rw [marshalVal.eq_def]
  simp only [he]
  rw [marshalExported.eq_def]

theorem zNorm_reader : AllV StrOK NumOK zNorm := by
  simp only [zNorm, AllV, AllM, StrOK, NumOK, and_true]
  refine ⟨?_, ?_, ?_, ?_⟩ <;>
    first | exact JsonPrint.sanitize_of_ascii _ (by decide) | decide

theorem print_z : RoundTrip.printV zNorm = zBody := by
  simp [zNorm, zBody, RoundTrip.printV, RoundTrip.printM, joinComma,
    JsonWrite.quote, JsonWrite.quoteBody, JsonWrite.htmlSafe]

theorem marshal_z : marshalVal env (cellOf zNorm) = .ok zBody := by
  unfold cellOf
  rw [JsonPrint.marshalVal_auto, RoundTrip.marshalDyn_dynOf env StrOK zNorm zNorm_reader, print_z]

theorem marshal_imported : marshalRow env (Members.ofList imported) = .ok out := by
  have h : marshalMembers env (Members.ofList imported) =
      .ok [quote [0x6E] ++ 0x3A :: RowPrint.null, quote [0x7A] ++ 0x3A :: zBody] :=
    JsonPrint.marshalMembers_cons env _ _ _ (by decide) marshal_n
      (JsonPrint.marshalMembers_cons env _ _ _ (by simp [cellOf, Cells.format]) marshal_z
        (JsonPrint.marshalMembers_nil env))
  rw [JsonPrint.marshalRow_eq env _ h, Demo.quote_n, Demo.quote_z]
  rfl

theorem jlLine_line : jlLine env tmpl tmpl line = .ok (out ++ [0x0A], none) := by
  simp [jlLine, getRow_line, exportLine, createRow_imported, marshal_imported]

theorem separated : ∀ k' ∈ OMap.keys tmpl ++ OMap.keys tmpl ++ Order.inputKeys line,
    sanitize k' = sanitize [0x7A] → k' = [0x7A] := by
  intro k' hk' hs
  have hi : Order.inputKeys line = [[0x7A]] := by
    simp [Order.inputKeys, unmarshal_line, JVMembers.toList]
  rw [hi] at hk'
  simp only [tmpl, Demo.tmpl_eq, OMap.keys, List.map_cons, List.map_nil, List.cons_append,
    List.nil_append, List.mem_cons, List.not_mem_nil, or_false] at hk'
  rcases hk' with rfl | rfl | rfl
  · rw [Demo.sanitize_n, Demo.sanitize_z] at hs; exact hs
  · rw [Demo.sanitize_n, Demo.sanitize_z] at hs; exact hs
  · rfl

/-- Target 1 on a value with a repeated name inside: the emitted member is `zNorm`. -/
theorem target1_on_z : ∃ t, Json.unmarshal out = (t, true) ∧
    LineSpec.lookupJV t [0x7A] = some zNorm := by
  obtain ⟨body, t, hb, hu, hl⟩ :=
    undeclared_member_verbatim_gen Ext.empty tmpl tmpl line _ [0x7A] zNorm jlLine_line Demo.floatOK
      (by simp only [tmpl, Demo.tmpl_eq]; decide) (by simp only [tmpl, Demo.tmpl_eq]; decide)
      separated input_z
  have : body = out := (List.append_cancel_right hb).symm
  subst this
  rw [Demo.sanitize_z] at hl
  exact ⟨t, hu, hl⟩

/-- Counterexample to the statement with the value as the reader delivered it (no `normDup`
    inside): every hypothesis of target 1 holds, the LAST (here: only) member called `z` of the
    input is `zRaw`, and the member emitted under `z` is another value. -/
theorem raw_value_not_kept :
    jlLine env tmpl tmpl line = .ok (out ++ [0x0A], none) ∧
    LineSpec.lookupJV (Json.unmarshal line).1 [0x7A] = some zRaw ∧
    ∃ t, Json.unmarshal out = (t, true) ∧ LineSpec.lookupJV t [0x7A] = some zNorm ∧
      zNorm ≠ zRaw := by
  refine ⟨jlLine_line, by rw [unmarshal_line]; rfl, ?_⟩
  obtain ⟨t, hu, hl⟩ := target1_on_z
  exact ⟨t, hu, hl, by simp [zNorm, zRaw]⟩

end Dup

end Jl.LineValues
