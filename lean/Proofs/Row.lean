/-
  Proofs.Row — the (key list, map) row of the code refines the insertion-ordered map.
-/
import Model.Row

namespace Jl
variable {C V E : Type}

/-- Coherence of the two structures the code maintains. -/
def LRow.Inv (r : LRow C) : Prop :=
  r.l.Nodup ∧ ∀ k, k ∈ r.l ↔ (r.m k).isSome = true

/-- Abstraction: the list of (key, cell) in key-list order. -/
def LRow.abs (r : LRow C) : OMap C :=
  r.l.filterMap fun k => (r.m k).map fun c => (k, c)

namespace OMap

theorem lookup_none_of_not_mem (o : OMap C) (k : Bytes) (h : k ∉ keys o) : lookup o k = none := by
  induction o with
  | nil => rfl
  | cons a t ih =>
    obtain ⟨k', c⟩ := a
    simp [keys] at h
    simp [lookup, h.1, ih (by simpa [keys] using h.2)]
    intro hk; exact absurd hk.symm h.1

theorem upsert_of_not_mem (o : OMap C) (k : Bytes) (c : C) (h : k ∉ keys o) :
    upsert o k c = o ++ [(k, c)] := by
  induction o with
  | nil => rfl
  | cons a t ih =>
    obtain ⟨k', c'⟩ := a
    simp [keys] at h
    have hne : ¬ k' = k := fun hk => h.1 hk.symm
    simp [upsert, hne, ih (by simpa [keys] using h.2)]

theorem keys_upsert (o : OMap C) (k : Bytes) (c : C) :
    keys (upsert o k c) = if k ∈ keys o then keys o else keys o ++ [k] := by
  induction o with
  | nil => simp [upsert, keys]
  | cons a t ih =>
    obtain ⟨k', c'⟩ := a
    by_cases hk : k' = k
    · subst hk; simp [upsert, keys]
    · have hk' : ¬ k = k' := fun h => hk h.symm
      simp only [upsert, hk, if_false]
      simp only [keys, List.map_cons, List.mem_cons, hk', false_or] at ih ⊢
      rw [ih]; split <;> simp [*]

theorem lookup_upsert (o : OMap C) (k k' : Bytes) (c : C) :
    lookup (upsert o k c) k' = if k' = k then some c else lookup o k' := by
  induction o with
  | nil =>
    by_cases h : k' = k
    · subst h; simp [upsert, lookup]
    · have h' : ¬ k = k' := fun e => h e.symm
      simp [upsert, lookup, h, h']
  | cons a t ih =>
    obtain ⟨k0, c0⟩ := a
    by_cases h0 : k0 = k
    · subst h0
      by_cases h : k0 = k'
      · subst h; simp [upsert, lookup]
      · have h' : ¬ k' = k0 := fun e => h e.symm
        simp [upsert, lookup, h, h']
    · simp only [upsert, h0, if_false, lookup]
      by_cases h : k0 = k'
      · subst h; simp [h0]
      · simp [h, ih]

end OMap

namespace LRow

theorem abs_keys (r : LRow C) (h : r.Inv) : OMap.keys r.abs = r.l := by
  obtain ⟨_, hm⟩ := h
  unfold abs OMap.keys
  have : ∀ l : List Bytes, (∀ k ∈ l, (r.m k).isSome = true) →
      (l.filterMap fun k => (r.m k).map fun c => (k, c)).map Prod.fst = l := by
    intro l
    induction l with
    | nil => intro _; rfl
    | cons a t ih =>
      intro hl
      have ha := hl a (by simp)
      obtain ⟨c, hc⟩ := Option.isSome_iff_exists.mp ha
      simp [List.filterMap_cons, hc, ih (fun k hk => hl k (by simp [hk]))]
  exact this r.l (fun k hk => (hm k).mp hk)

theorem abs_lookup (r : LRow C) (h : r.Inv) (k : Bytes) : OMap.lookup r.abs k = r.m k := by
  obtain ⟨_, hm⟩ := h
  by_cases hk : k ∈ r.l
  · unfold abs
    have : ∀ l : List Bytes, k ∈ l →
        OMap.lookup (l.filterMap fun k => (r.m k).map fun c => (k, c)) k = r.m k ∨
        (r.m k).isSome = false := by
      intro l
      induction l with
      | nil => intro h; cases h
      | cons a t ih =>
        intro hmem
        cases hma : r.m a with
        | none =>
          by_cases hak : a = k
          · subst hak; right; simp [hma]
          · have : k ∈ t := by
              cases hmem with
              | head => exact absurd rfl hak
              | tail _ h => exact h
            simpa [List.filterMap_cons, hma] using ih this
        | some c =>
          by_cases hak : a = k
          · subst hak; left; simp [List.filterMap_cons, hma, OMap.lookup]
          · have : k ∈ t := by
              cases hmem with
              | head => exact absurd rfl hak
              | tail _ h => exact h
            cases ih this with
            | inl h => left; simp [List.filterMap_cons, hma, OMap.lookup, hak, h]
            | inr h => right; exact h
    cases this r.l hk with
    | inl h => exact h
    | inr h => have := (hm k).mp hk; simp [h] at this
  · have hnone : r.m k = none := by
      have : ¬ (r.m k).isSome = true := fun h => hk ((hm k).mpr h)
      cases hmk : r.m k with
      | none => rfl
      | some c => simp [hmk] at this
    rw [hnone]
    apply OMap.lookup_none_of_not_mem
    rw [abs_keys r ⟨by assumption, hm⟩]; exact hk

/-- `(k, cell)` when `k` is in the map. -/
def entry (m : Bytes → Option C) (k : Bytes) : Option (Bytes × C) := (m k).map fun c => (k, c)

theorem abs_eq (r : LRow C) : r.abs = r.l.filterMap (entry r.m) := rfl

theorem entry_mset_self (m : Bytes → Option C) (k : Bytes) (c : C) :
    entry (mset m k c) k = some (k, c) := by simp [entry, mset]

theorem entry_mset_ne (m : Bytes → Option C) (k k' : Bytes) (c : C) (h : ¬ k' = k) :
    entry (mset m k c) k' = entry m k' := by simp [entry, mset, h]

private theorem filterMap_mset_not_mem (m : Bytes → Option C) (k : Bytes) (c : C) (l : List Bytes)
    (h : k ∉ l) : l.filterMap (entry (mset m k c)) = l.filterMap (entry m) := by
  induction l with
  | nil => rfl
  | cons a t ih =>
    simp at h
    have hak : ¬ a = k := fun e => h.1 e.symm
    rw [List.filterMap_cons, List.filterMap_cons, entry_mset_ne m k a c hak, ih h.2]

private theorem filterMap_mset_mem (m : Bytes → Option C) (k : Bytes) (c : C) (l : List Bytes)
    (hnd : l.Nodup) (hall : ∀ k' ∈ l, (m k').isSome = true) (h : k ∈ l) :
    l.filterMap (entry (mset m k c)) = OMap.upsert (l.filterMap (entry m)) k c := by
  induction l with
  | nil => cases h
  | cons a t ih =>
    obtain ⟨ca, hca⟩ := Option.isSome_iff_exists.mp (hall a (by simp))
    have hnd' := List.nodup_cons.mp hnd
    have hea : entry m a = some (a, ca) := by simp [entry, hca]
    by_cases hak : a = k
    · subst hak
      rw [List.filterMap_cons, List.filterMap_cons, entry_mset_self, hea,
        filterMap_mset_not_mem m a c t hnd'.1]
      simp [OMap.upsert]
    · have hkt : k ∈ t := by
        cases h with
        | head => exact absurd rfl hak
        | tail _ h => exact h
      rw [List.filterMap_cons, List.filterMap_cons, entry_mset_ne m k a c hak, hea,
        ih hnd'.2 (fun k' hk' => hall k' (by simp [hk'])) hkt]
      simp [OMap.upsert, hak]

theorem abs_setValue (r : LRow C) (h : r.Inv) (k : Bytes) (c : C) :
    (r.setValue k c).abs = OMap.upsert r.abs k c := by
  obtain ⟨hnd, hm⟩ := h
  rw [abs_eq, abs_eq]
  unfold setValue ensure
  by_cases hk : (r.m k).isSome = true
  · simp only [hk, if_true]
    exact filterMap_mset_mem r.m k c r.l hnd (fun k' hk' => (hm k').mp hk') ((hm k).mpr hk)
  · simp only [hk]
    have hnot : k ∉ r.l := fun hmem => hk ((hm k).mp hmem)
    rw [OMap.upsert_of_not_mem]
    · simp only [Bool.false_eq_true, if_false, List.filterMap_append]
      rw [filterMap_mset_not_mem r.m k c r.l hnot]
      simp [entry_mset_self]
    · rw [← abs_eq, abs_keys r ⟨hnd, hm⟩]; exact hnot

theorem inv_setValue (r : LRow C) (h : r.Inv) (k : Bytes) (c : C) : (r.setValue k c).Inv := by
  obtain ⟨hnd, hm⟩ := h
  unfold setValue ensure Inv
  by_cases hk : (r.m k).isSome = true
  · simp only [hk, if_true]
    refine ⟨hnd, fun k' => ?_⟩
    by_cases e : k' = k
    · subst e; simp [mset]; exact (hm k').mpr hk
    · simp [mset, e]; exact hm k'
  · have hnot : k ∉ r.l := fun hmem => hk ((hm k).mp hmem)
    simp only [hk]
    refine ⟨?_, fun k' => ?_⟩
    · simp only [Bool.false_eq_true, if_false]
      rw [List.nodup_append]
      refine ⟨hnd, by simp, ?_⟩
      intro a ha b hb
      simp at hb; subst hb
      intro e; subst e; exact hnot ha
    · by_cases e : k' = k
      · subst e; simp [mset]
      · simp [mset, e]; exact hm k'

theorem inv_empty : (LRow.empty : LRow C).Inv := by
  simp [LRow.empty, Inv]

theorem abs_empty : (LRow.empty : LRow C).abs = [] := rfl

theorem keyAt_abs (r : LRow C) (h : r.Inv) (i : Int) : OMap.keyAt r.abs i = r.keyAt i := by
  unfold OMap.keyAt keyAt; rw [abs_keys r h]

/-- Every mutator is `setValue` of some cell at some key: the shape shared by all cases. -/
private theorem mk_eq_setValue (r : LRow C) (k : Bytes) (c : C) :
    (⟨r.ensure k, mset r.m k c⟩ : LRow C) = r.setValue k c := rfl

theorem set_refines (ops : CellOps C V E) (r : LRow C) (h : r.Inv) (k : Bytes) (x : V) :
    (r.set ops k x).abs = OMap.set ops r.abs k x ∧ (r.set ops k x).Inv := by
  unfold set OMap.set
  rw [abs_lookup r h]
  cases r.m k with
  | none => simp only [mk_eq_setValue]; exact ⟨abs_setValue r h _ _, inv_setValue r h _ _⟩
  | some c => simp only [mk_eq_setValue]; exact ⟨abs_setValue r h _ _, inv_setValue r h _ _⟩

theorem importAtKey_refines (ops : CellOps C V E) (r : LRow C) (h : r.Inv) (k : Bytes) (x : V) :
    (r.importAtKey ops k x).1.abs = (OMap.importAtKey ops r.abs k x).1 ∧
    (r.importAtKey ops k x).2 = (OMap.importAtKey ops r.abs k x).2 ∧
    (r.importAtKey ops k x).1.Inv := by
  unfold importAtKey OMap.importAtKey
  rw [abs_lookup r h]
  cases r.m k with
  | none => simp only [mk_eq_setValue]; exact ⟨abs_setValue r h _ _, by simp, inv_setValue r h _ _⟩
  | some c => simp only [mk_eq_setValue]; exact ⟨abs_setValue r h _ _, by simp, inv_setValue r h _ _⟩

theorem parseMember_refines (ops : CellOps C V E) (r : LRow C) (h : r.Inv) (k : Bytes) (x : V) :
    (r.parseMember ops k x).1.abs = (OMap.parseMember ops r.abs k x).1 ∧
    (r.parseMember ops k x).2 = (OMap.parseMember ops r.abs k x).2 ∧
    (r.parseMember ops k x).1.Inv := by
  unfold parseMember OMap.parseMember
  rw [abs_lookup r h]
  cases hk : r.m k with
  | none =>
    have e : (⟨r.l ++ [k], mset r.m k (ops.autoCell x)⟩ : LRow C) = r.setValue k (ops.autoCell x) := by
      simp [setValue, ensure, hk]
    simp only [e]; exact ⟨abs_setValue r h _ _, by simp, inv_setValue r h _ _⟩
  | some c =>
    have e : ∀ c', (⟨r.l, mset r.m k c'⟩ : LRow C) = r.setValue k c' := by
      intro c'; simp [setValue, ensure, hk]
    simp only [e]; exact ⟨abs_setValue r h _ _, by simp, inv_setValue r h _ _⟩

theorem importSliceFrom_refines (ops : CellOps C V E) (xs : List V) :
    ∀ (r : LRow C) (i : Nat), r.Inv →
    (r.importSliceFrom ops i xs).1.abs = (OMap.importSliceFrom ops r.abs i xs).1 ∧
    (r.importSliceFrom ops i xs).2 = (OMap.importSliceFrom ops r.abs i xs).2 ∧
    (r.importSliceFrom ops i xs).1.Inv := by
  induction xs with
  | nil => intro r i h; exact ⟨rfl, rfl, h⟩
  | cons x xs ih =>
    intro r i h
    unfold importSliceFrom OMap.importSliceFrom
    rw [keyAt_abs r h]
    obtain ⟨h1, h2, h3⟩ := importAtKey_refines ops r h (r.keyAt ↑i) x
    rcases hc : r.importAtKey ops (r.keyAt ↑i) x with ⟨r', e⟩
    rcases ho : OMap.importAtKey ops r.abs (r.keyAt ↑i) x with ⟨o', e'⟩
    rw [hc, ho] at h1 h2; rw [hc] at h3
    simp only at h1 h2 h3
    subst h2
    cases e with
    | some e => exact ⟨h1, rfl, h3⟩
    | none => simp only; rw [← h1]; exact ih r' (i + 1) h3

theorem importMap_refines (ops : CellOps C V E) (kvs : List (Bytes × V)) :
    ∀ (r : LRow C), r.Inv →
    (r.importMap ops kvs).1.abs = (OMap.importMap ops r.abs kvs).1 ∧
    (r.importMap ops kvs).2 = (OMap.importMap ops r.abs kvs).2 ∧
    (r.importMap ops kvs).1.Inv := by
  induction kvs with
  | nil => intro r h; exact ⟨rfl, rfl, h⟩
  | cons kv kvs ih =>
    intro r h
    obtain ⟨k, x⟩ := kv
    unfold importMap OMap.importMap
    obtain ⟨h1, h2, h3⟩ := importAtKey_refines ops r h k x
    rcases hc : r.importAtKey ops k x with ⟨r', e⟩
    rcases ho : OMap.importAtKey ops r.abs k x with ⟨o', e'⟩
    rw [hc, ho] at h1 h2; rw [hc] at h3
    simp only at h1 h2 h3
    subst h2
    cases e with
    | some e => exact ⟨h1, rfl, h3⟩
    | none => simp only; rw [← h1]; exact ih r' h3

theorem parseMembers_refines (ops : CellOps C V E) (ms : List (Bytes × V)) :
    ∀ (r : LRow C), r.Inv →
    (r.parseMembers ops ms).1.abs = (OMap.parseMembers ops r.abs ms).1 ∧
    (r.parseMembers ops ms).2 = (OMap.parseMembers ops r.abs ms).2 ∧
    (r.parseMembers ops ms).1.Inv := by
  induction ms with
  | nil => intro r h; exact ⟨rfl, rfl, h⟩
  | cons kv ms ih =>
    intro r h
    obtain ⟨k, x⟩ := kv
    unfold parseMembers OMap.parseMembers
    obtain ⟨h1, h2, h3⟩ := parseMember_refines ops r h k x
    rcases hc : r.parseMember ops k x with ⟨r', e⟩
    rcases ho : OMap.parseMember ops r.abs k x with ⟨o', e'⟩
    rw [hc, ho] at h1 h2; rw [hc] at h3
    simp only at h1 h2 h3
    subst h2
    cases e with
    | some e => exact ⟨h1, rfl, h3⟩
    | none => simp only; rw [← h1]; exact ih r' h3

/-- One step of any history: same abstract state, same error, invariant kept. -/
theorem step_refines (ops : CellOps C V E) (r : LRow C) (h : r.Inv) (op : RowOp C V) :
    (r.step ops op).1.abs = (OMap.step ops r.abs op).1 ∧
    (r.step ops op).2 = (OMap.step ops r.abs op).2 ∧
    (r.step ops op).1.Inv := by
  cases op with
  | set k x => exact ⟨(set_refines ops r h k x).1, rfl, (set_refines ops r h k x).2⟩
  | setAt i x =>
    simp only [step, OMap.step, keyAt_abs r h]
    exact ⟨(set_refines ops r h _ x).1, by simp, (set_refines ops r h _ x).2⟩
  | setValue k c => exact ⟨abs_setValue r h k c, rfl, inv_setValue r h k c⟩
  | setValueAt i c =>
    simp only [step, OMap.step, keyAt_abs r h]
    exact ⟨abs_setValue r h _ c, by simp, inv_setValue r h _ c⟩
  | importAtKey k x => exact importAtKey_refines ops r h k x
  | importAtIndex i x =>
    simp only [step, OMap.step, keyAt_abs r h]
    exact importAtKey_refines ops r h _ x
  | importSlice xs => exact importSliceFrom_refines ops xs r 0 h
  | importMap kvs => exact importMap_refines ops kvs r h
  | unmarshal ms => exact parseMembers_refines ops ms r h

theorem run_refines (ops : CellOps C V E) (hist : List (RowOp C V)) :
    ∀ (r : LRow C), r.Inv →
    (r.run ops hist).abs = OMap.run ops r.abs hist ∧ (r.run ops hist).Inv := by
  induction hist with
  | nil => intro r h; exact ⟨rfl, h⟩
  | cons op rest ih =>
    intro r h
    obtain ⟨h1, _, h3⟩ := step_refines ops r h op
    simp only [run, OMap.run]
    rw [← h1]; exact ih _ h3

end LRow
end Jl
