/-
  Proofs.JsonLexical — the scalar scanners of Model.JsonRead against the lexical part of the
  grammar in Model.JsonGrammar (C16, lexical layer): whitespace, string bodies, numbers and
  the three literals, soundness and completeness each.
-/
import Model.JsonRead
import Model.JsonGrammar
import Proofs.IntTextJson

namespace Jl.JsonLex
open Json

/-! ### Whitespace -/

theorem isWs_eq (c : UInt8) : Grammar.isWs c = Json.isSpace c := by
  unfold Grammar.isWs Json.isSpace
  cases (c == 0x20) <;> cases (c == 0x09) <;> cases (c == 0x0A) <;> cases (c == 0x0D) <;> rfl

theorem ws_nil : Grammar.WS [] := fun _ h => by cases h

theorem ws_cons {c : UInt8} {w : Bytes} (hc : Json.isSpace c = true) (hw : Grammar.WS w) :
    Grammar.WS (c :: w) := by
  intro x hx
  rcases List.mem_cons.1 hx with h | h
  · subst h; rw [isWs_eq]; exact hc
  · exact hw x h

theorem ws_append {a b : Bytes} (ha : Grammar.WS a) (hb : Grammar.WS b) : Grammar.WS (a ++ b) := by
  intro x hx
  rcases List.mem_append.1 hx with h | h
  · exact ha x h
  · exact hb x h

theorem ws_head {c : UInt8} {w : Bytes} (h : Grammar.WS (c :: w)) : Json.isSpace c = true := by
  rw [← isWs_eq]; exact h c (by simp)

theorem ws_tail {c : UInt8} {w : Bytes} (h : Grammar.WS (c :: w)) : Grammar.WS w :=
  fun x hx => h x (by simp [hx])

theorem skipSpace_cons (c : UInt8) (r : Bytes) :
    skipSpace (c :: r) = if isSpace c then skipSpace r else c :: r := by
  simp only [skipSpace]

theorem skipSpace_ws_append {w : Bytes} (s : Bytes) (h : Grammar.WS w) :
    skipSpace (w ++ s) = skipSpace s := by
  induction w with
  | nil => rfl
  | cons c w ih =>
    rw [List.cons_append, skipSpace_cons, ws_head h, if_pos rfl]
    exact ih (ws_tail h)

theorem skipSpace_of_not {c : UInt8} (r : Bytes) (h : isSpace c = false) :
    skipSpace (c :: r) = c :: r := by
  rw [skipSpace_cons, h]; rfl

/-- `skipSpace` removes a whitespace prefix and stops at a non-space byte. -/
theorem skipSpace_split (s : Bytes) : ∃ w, Grammar.WS w ∧ s = w ++ skipSpace s := by
  induction s with
  | nil => exact ⟨[], ws_nil, rfl⟩
  | cons c r ih =>
    rw [skipSpace_cons]
    by_cases hc : isSpace c = true
    · obtain ⟨w, hw, e⟩ := ih
      refine ⟨c :: w, ws_cons hc hw, ?_⟩
      rw [if_pos hc, List.cons_append, ← e]
    · exact ⟨[], ws_nil, by rw [if_neg hc]; rfl⟩

theorem skipSpace_head {s r : Bytes} {c : UInt8} (h : skipSpace s = c :: r) : isSpace c = false := by
  induction s with
  | nil => cases h
  | cons d t ih =>
    rw [skipSpace_cons] at h
    by_cases hd : isSpace d = true
    · rw [if_pos hd] at h; exact ih h
    · rw [if_neg hd] at h
      injection h with h1 _
      subst h1; simpa using hd

theorem skipSpace_eq_nil_iff (s : Bytes) : skipSpace s = [] ↔ Grammar.WS s := by
  constructor
  · intro h
    obtain ⟨w, hw, e⟩ := skipSpace_split s
    rw [h, List.append_nil] at e
    rw [e]; exact hw
  · intro h
    have := skipSpace_ws_append [] h
    rw [List.append_nil] at this
    rw [this]; rfl

/-! ### String bodies -/

theorem chars_append {a b : Bytes} (ha : Grammar.Chars a) (hb : Grammar.Chars b) :
    Grammar.Chars (a ++ b) := by
  induction ha with
  | nil => exact hb
  | plain c rest h1 h2 h3 _ ih => exact .plain c _ h1 h2 h3 ih
  | esc e rest he _ ih => exact .esc e _ he ih
  | uni a b c d rest ha hb hc hd _ ih => exact .uni a b c d _ ha hb hc hd ih

/-- A byte ≥ 0x80 is a plain string character. -/
theorem chars_high {c : UInt8} {r : Bytes} (hc : 0x80 ≤ c) (hr : Grammar.Chars r) :
    Grammar.Chars (c :: r) := by
  refine .plain c r ?_ ?_ ?_ hr
  · exact UInt8.le_trans (by decide) hc
  · intro h; subst h; revert hc; decide
  · intro h; subst h; revert hc; decide

theorem chars_high_inv {c : UInt8} {r : Bytes} (hc : 0x80 ≤ c) (h : Grammar.Chars (c :: r)) :
    Grammar.Chars r := by
  cases h with
  | plain _ _ _ _ _ hr => exact hr
  | esc e rest he hr => exact absurd hc (by decide)
  | uni a b c d rest ha hb hc' hd hr => exact absurd hc (by decide)

theorem pre_snd (p : Bytes) (o : Option (Bytes × Bytes)) :
    (pre p o).map (·.2) = o.map (·.2) := by
  cases o <;> rfl

/-- What `strBody` leaves after the closing quote (the decoded content dropped). -/
def strRest (s : Bytes) : Option Bytes := (strBody s).map (·.2)

theorem strRest_eq_some {s rest : Bytes} :
    strRest s = some rest ↔ ∃ out, strBody s = some (out, rest) := by
  unfold strRest
  cases strBody s with
  | none => simp
  | some p => obtain ⟨o, r⟩ := p; simp

theorem strBody_quote (r : Bytes) : strBody (0x22 :: r) = some ([], r) := by
  rw [strBody.eq_def]; simp

/-! #### hex digits -/

theorem hexVal_some_of_isHex {c : UInt8} (h : Grammar.isHex c = true) : ∃ v, hexVal c = some v := by
  unfold hexVal
  unfold Grammar.isHex at h
  by_cases h1 : (0x30 ≤ c && c ≤ 0x39) = true
  · exact ⟨_, by rw [if_pos h1]⟩
  · by_cases h2 : (0x61 ≤ c && c ≤ 0x66) = true
    · exact ⟨_, by rw [if_neg h1, if_pos h2]⟩
    · by_cases h3 : (0x41 ≤ c && c ≤ 0x46) = true
      · exact ⟨_, by rw [if_neg h1, if_neg h2, if_pos h3]⟩
      · simp only [Bool.not_eq_true] at h1 h2 h3
        rw [h1, h2, h3] at h; cases h

theorem isHex_of_hexVal_some {c : UInt8} {v : Nat} (h : hexVal c = some v) :
    Grammar.isHex c = true := by
  unfold hexVal at h
  unfold Grammar.isHex
  by_cases h1 : (0x30 ≤ c && c ≤ 0x39) = true
  · rw [h1]; rfl
  · by_cases h2 : (0x61 ≤ c && c ≤ 0x66) = true
    · rw [h2]; simp
    · by_cases h3 : (0x41 ≤ c && c ≤ 0x46) = true
      · rw [h3]; simp
      · rw [if_neg h1, if_neg h2, if_neg h3] at h; cases h

theorem hex4_some_of {a b c d : UInt8} (s : Bytes) (ha : Grammar.isHex a = true)
    (hb : Grammar.isHex b = true) (hc : Grammar.isHex c = true) (hd : Grammar.isHex d = true) :
    ∃ r, hex4 (a :: b :: c :: d :: s) = some r := by
  obtain ⟨va, ea⟩ := hexVal_some_of_isHex ha
  obtain ⟨vb, eb⟩ := hexVal_some_of_isHex hb
  obtain ⟨vc, ec⟩ := hexVal_some_of_isHex hc
  obtain ⟨vd, ed⟩ := hexVal_some_of_isHex hd
  exact ⟨va * 4096 + vb * 256 + vc * 16 + vd, by simp only [hex4, ea, eb, ec, ed]⟩

theorem hex4_some_inv {s : Bytes} {r : Nat} (h : hex4 s = some r) :
    ∃ a b c d s', s = a :: b :: c :: d :: s' ∧ Grammar.isHex a = true ∧ Grammar.isHex b = true ∧
      Grammar.isHex c = true ∧ Grammar.isHex d = true := by
  match s, h with
  | a :: b :: c :: d :: s', h =>
    refine ⟨a, b, c, d, s', rfl, ?_⟩
    simp only [hex4] at h
    cases ea : hexVal a with
    | none => rw [ea] at h; simp at h
    | some va =>
      cases eb : hexVal b with
      | none => rw [ea, eb] at h; simp at h
      | some vb =>
        cases ec : hexVal c with
        | none => rw [ea, eb, ec] at h; simp at h
        | some vc =>
          cases ed : hexVal d with
          | none => rw [ea, eb, ec, ed] at h; simp at h
          | some vd =>
            exact ⟨isHex_of_hexVal_some ea, isHex_of_hexVal_some eb, isHex_of_hexVal_some ec,
              isHex_of_hexVal_some ed⟩
  | [], h => cases h
  | [_], h => cases h
  | [_, _], h => cases h
  | [_, _, _], h => cases h

theorem getu4_some_inv {s : Bytes} {r : Nat} (h : getu4 s = some r) :
    ∃ a b c d s', s = 0x5C :: 0x75 :: a :: b :: c :: d :: s' ∧ Grammar.isHex a = true ∧
      Grammar.isHex b = true ∧ Grammar.isHex c = true ∧ Grammar.isHex d = true := by
  unfold getu4 at h
  split at h
  · obtain ⟨a, b, c, d, s', e, hh⟩ := hex4_some_inv h
    exact ⟨a, b, c, d, s', by rw [e], hh⟩
  · cases h

/-! #### multi-byte sequences -/

theorem lo_ge {p : Prop} [Decidable p] {a b1 : UInt8} (ha : 0x80 ≤ a)
    (h : (if p then a else 0x80) ≤ b1) : 0x80 ≤ b1 := by
  split at h
  · exact UInt8.le_trans ha h
  · exact h

theorem isCont_ge {b : UInt8} (h : Utf8.isCont b = true) : 0x80 ≤ b := by
  unfold Utf8.isCont at h
  simp only [Bool.and_eq_true, decide_eq_true_eq] at h
  exact h.1

/-- A well-formed multi-byte sequence: its length and the fact that its continuation bytes
    are all ≥ 0x80. -/
theorem seqLen_some {c : UInt8} {s : Bytes} {n : Nat} (h : Utf8.seqLen (c :: s) = some n) :
    (n = 2 ∨ n = 3 ∨ n = 4) ∧ n - 1 ≤ s.length ∧ ∀ x ∈ s.take (n - 1), 0x80 ≤ x := by
  cases s with
  | nil => simp [Utf8.seqLen] at h
  | cons b1 r =>
    simp only [Utf8.seqLen] at h
    split at h
    · simp only [Option.ite_none_right_eq_some, Option.some.injEq] at h
      obtain ⟨hb, rfl⟩ := h
      refine ⟨.inl rfl, by simp, ?_⟩
      intro x hx
      simp at hx
      subst hx; exact isCont_ge hb
    · split at h
      · cases r with
        | nil => cases h
        | cons b2 tl =>
          simp only [Option.ite_none_right_eq_some, Option.some.injEq, Bool.and_eq_true,
            decide_eq_true_eq] at h
          obtain ⟨hc, rfl⟩ := h
          refine ⟨.inr (.inl rfl), by simp, ?_⟩
          intro x hx
          simp at hx
          rcases hx with hx | hx
          · subst hx; exact lo_ge (by decide) hc.1.1
          · subst hx; exact isCont_ge hc.2
      · split at h
        · match r, h with
          | [], h => cases h
          | [_], h => cases h
          | b2 :: b3 :: tl, h =>
            simp only [Option.ite_none_right_eq_some, Option.some.injEq, Bool.and_eq_true,
              decide_eq_true_eq] at h
            obtain ⟨hc, rfl⟩ := h
            refine ⟨.inr (.inr rfl), by simp, ?_⟩
            intro x hx
            simp at hx
            rcases hx with hx | hx | hx
            · subst hx; exact lo_ge (by decide) hc.1.1.1
            · subst hx; exact isCont_ge hc.1.2
            · subst hx; exact isCont_ge hc.2
        · cases h

theorem chars_high_list {p r : Bytes} (hp : ∀ x ∈ p, 0x80 ≤ x) (hr : Grammar.Chars r) :
    Grammar.Chars (p ++ r) := by
  induction p with
  | nil => exact hr
  | cons x p ih =>
    exact chars_high (hp x (by simp)) (ih (fun y hy => hp y (by simp [hy])))

/-! #### `strBody`: soundness -/

theorem pre_some_inv {p out rest : Bytes} {o : Option (Bytes × Bytes)}
    (h : pre p o = some (out, rest)) : ∃ out', o = some (out', rest) := by
  cases o with
  | none => cases h
  | some q =>
    obtain ⟨a, b⟩ := q
    simp only [pre, Option.map_some, Option.some.injEq, Prod.mk.injEq] at h
    exact ⟨a, by rw [h.2]⟩

theorem simpleEscape_some_inv {e ch : UInt8} (h : simpleEscape e = some ch) :
    e = 0x22 ∨ e = 0x5C ∨ e = 0x2F ∨ e = 0x62 ∨ e = 0x66 ∨ e = 0x6E ∨ e = 0x72 ∨ e = 0x74 := by
  unfold simpleEscape at h
  simp only [beq_iff_eq] at h
  repeat' split at h
  all_goals first | (cases h; done) | simp [*]

theorem simpleEscape_some_of {e : UInt8}
    (h : e = 0x22 ∨ e = 0x5C ∨ e = 0x2F ∨ e = 0x62 ∨ e = 0x66 ∨ e = 0x6E ∨ e = 0x72 ∨ e = 0x74) :
    (e == 0x75) = false ∧ ∃ ch, simpleEscape e = some ch := by
  rcases h with h | h | h | h | h | h | h | h <;> subst h <;> exact ⟨by decide, Option.isSome_iff_exists.1 (by decide)⟩

/-- One step of `strBody` on an accepted input: either the closing quote, or a non-empty
    prefix that is a sequence of grammar characters. -/
theorem strBody_step {s out rest : Bytes} (h : strBody s = some (out, rest)) :
    s = 0x22 :: rest ∨
    ∃ p s' out', Grammar.Chars p ∧ p ≠ [] ∧ s = p ++ s' ∧ strBody s' = some (out', rest) := by
  cases s with
  | nil => rw [strBody.eq_def] at h; cases h
  | cons c rest0 =>
    rw [strBody.eq_def] at h
    simp only [] at h
    split at h
    · rename_i hc
      simp only [beq_iff_eq] at hc
      injection h with h; injection h with h1 h2
      subst hc h2
      exact .inl rfl
    · right
      split at h
      · rename_i hc
        simp only [beq_iff_eq] at hc
        subst hc
        split at h
        · cases h
        · rename_i e rest2
          split at h
          · rename_i he
            simp only [beq_iff_eq] at he
            subst he
            split at h
            · cases h
            · rename_i r hr
              obtain ⟨a, b, c, d, s', e1, ha, hb, hc, hd⟩ := hex4_some_inv hr
              subst e1
              simp only [List.drop_succ_cons, List.drop_zero] at h
              have one : ∀ p0, pre p0 (strBody s') = some (out, rest) →
                  ∃ p s'' out', Grammar.Chars p ∧ p ≠ [] ∧
                    0x5C :: 0x75 :: a :: b :: c :: d :: s' = p ++ s'' ∧
                    strBody s'' = some (out', rest) := by
                intro p0 hp
                obtain ⟨out', ho⟩ := pre_some_inv hp
                exact ⟨[0x5C, 0x75, a, b, c, d], s', out', .uni a b c d [] ha hb hc hd .nil,
                  by simp, rfl, ho⟩
              split at h
              · split at h
                · rename_i r2 hr2
                  split at h
                  · obtain ⟨a', b', c', d', s'', e2, ha', hb', hc', hd'⟩ := getu4_some_inv hr2
                    subst e2
                    simp only [List.drop_succ_cons, List.drop_zero] at h
                    obtain ⟨out', ho⟩ := pre_some_inv h
                    exact ⟨[0x5C, 0x75, a, b, c, d, 0x5C, 0x75, a', b', c', d'], s'', out',
                      .uni a b c d _ ha hb hc hd (.uni a' b' c' d' [] ha' hb' hc' hd' .nil),
                      by simp, rfl, ho⟩
                  · exact one _ h
                · exact one _ h
              · exact one _ h
          · split at h
            · rename_i ch hch
              obtain ⟨out', ho⟩ := pre_some_inv h
              exact ⟨[0x5C, e], rest2, out', .esc e [] (simpleEscape_some_inv hch) .nil,
                by simp, rfl, ho⟩
            · cases h
      · rename_i h22 h5c
        simp only [beq_iff_eq] at h22 h5c
        split at h
        · cases h
        · rename_i h20
          have h20' : 0x20 ≤ c := UInt8.not_lt.1 h20
          split at h
          · obtain ⟨out', ho⟩ := pre_some_inv h
            exact ⟨[c], rest0, out', .plain c [] h20' h22 h5c .nil, by simp, rfl, ho⟩
          · rename_i h80
            have h80' : 0x80 ≤ c := UInt8.not_lt.1 h80
            have multi : ∀ n p0, Utf8.seqLen (c :: rest0) = some n →
                pre p0 (strBody (rest0.drop (n - 1))) = some (out, rest) →
                ∃ p s' out', Grammar.Chars p ∧ p ≠ [] ∧ c :: rest0 = p ++ s' ∧
                  strBody s' = some (out', rest) := by
              intro n p0 hn hp
              obtain ⟨out', ho⟩ := pre_some_inv hp
              obtain ⟨_, _, hall⟩ := seqLen_some hn
              refine ⟨c :: rest0.take (n - 1), rest0.drop (n - 1), out', ?_, by simp, ?_, ho⟩
              · have := chars_high_list hall .nil
                rw [List.append_nil] at this
                exact chars_high h80' this
              · rw [List.cons_append, List.take_append_drop]
            split at h
            · rename_i hs; exact multi 2 _ hs h
            · rename_i hs; exact multi 3 _ hs h
            · rename_i hs; exact multi 4 _ hs h
            · obtain ⟨out', ho⟩ := pre_some_inv h
              exact ⟨[c], rest0, out', chars_high h80' .nil, by simp, rfl, ho⟩

/-- Soundness of the string scanner: what `strBody` consumes is a grammar string body followed
    by the closing quote. -/
theorem strBody_sound {s out rest : Bytes} (h : strBody s = some (out, rest)) :
    ∃ body, s = body ++ 0x22 :: rest ∧ Grammar.Chars body := by
  generalize hn : s.length = n
  induction n using Nat.strongRecOn generalizing s out with
  | _ n ih =>
    rcases strBody_step h with e | ⟨p, s', out', hp, hne, e, hs'⟩
    · exact ⟨[], by rw [e]; rfl, .nil⟩
    · have hlen : s'.length < n := by
        rw [← hn, e, List.length_append]
        have : 0 < p.length := List.length_pos_iff.2 hne
        omega
      obtain ⟨body, eb, hb⟩ := ih _ hlen hs' rfl
      exact ⟨p ++ body, by rw [e, eb, List.append_assoc], chars_append hp hb⟩

/-! #### `strBody`: one step on each grammar character -/

theorem strBody_plain_low {c : UInt8} (r : Bytes) (h1 : 0x20 ≤ c) (h2 : c ≠ 0x22) (h3 : c ≠ 0x5C)
    (h4 : c < 0x80) : strBody (c :: r) = pre [c] (strBody r) := by
  rw [strBody.eq_def]
  have h1' : ¬ c < 0x20 := UInt8.not_lt.2 h1
  simp only [beq_iff_eq, h2, h3, if_false, h1', h4, if_true]

theorem strBody_high {c : UInt8} (r : Bytes) (h : 0x80 ≤ c) :
    ∃ p0 k, k ≤ r.length ∧ (∀ x ∈ r.take k, 0x80 ≤ x) ∧
      strBody (c :: r) = pre p0 (strBody (r.drop k)) := by
  have h2 : c ≠ 0x22 := by intro e; subst e; exact absurd h (by decide)
  have h3 : c ≠ 0x5C := by intro e; subst e; exact absurd h (by decide)
  have h1' : ¬ c < 0x20 := UInt8.not_lt.2 (UInt8.le_trans (by decide) h)
  have h4 : ¬ c < 0x80 := UInt8.not_lt.2 h
  have e : strBody (c :: r) =
      match Utf8.seqLen (c :: r) with
      | some 2 => pre (c :: r.take 1) (strBody (r.drop 1))
      | some 3 => pre (c :: r.take 2) (strBody (r.drop 2))
      | some 4 => pre (c :: r.take 3) (strBody (r.drop 3))
      | _ => pre Utf8.replacement (strBody r) := by
    rw [strBody.eq_def]
    simp only [beq_iff_eq, h2, h3, if_false, h1', h4]
    rfl
  rw [e]
  cases hs : Utf8.seqLen (c :: r) with
  | none => exact ⟨_, 0, by simp, by simp, rfl⟩
  | some n =>
    obtain ⟨hn, hlen, hall⟩ := seqLen_some hs
    rcases hn with rfl | rfl | rfl
    · exact ⟨_, 1, hlen, hall, rfl⟩
    · exact ⟨_, 2, hlen, hall, rfl⟩
    · exact ⟨_, 3, hlen, hall, rfl⟩

theorem strBody_esc {e : UInt8} (r : Bytes)
    (he : e = 0x22 ∨ e = 0x5C ∨ e = 0x2F ∨ e = 0x62 ∨ e = 0x66 ∨ e = 0x6E ∨ e = 0x72 ∨ e = 0x74) :
    ∃ ch, strBody (0x5C :: e :: r) = pre [ch] (strBody r) := by
  obtain ⟨h75, ch, hch⟩ := simpleEscape_some_of he
  refine ⟨ch, ?_⟩
  rw [strBody.eq_def]
  simp only [h75, hch]
  simp

theorem strBody_uni {a b c d : UInt8} (r : Bytes) (ha : Grammar.isHex a = true)
    (hb : Grammar.isHex b = true) (hc : Grammar.isHex c = true) (hd : Grammar.isHex d = true) :
    (∃ p0, strBody (0x5C :: 0x75 :: a :: b :: c :: d :: r) = pre p0 (strBody r)) ∨
    (∃ p0 a' b' c' d' r', r = 0x5C :: 0x75 :: a' :: b' :: c' :: d' :: r' ∧
      strBody (0x5C :: 0x75 :: a :: b :: c :: d :: r) = pre p0 (strBody r')) := by
  obtain ⟨v, hv⟩ := hex4_some_of r ha hb hc hd
  have e : strBody (0x5C :: 0x75 :: a :: b :: c :: d :: r) =
      if isSurrogate v then
        match getu4 r with
        | some r2 =>
          if isHighSurrogate v && isLowSurrogate r2 then
            pre (Utf8.encode ((v - 0xD800) * 1024 + (r2 - 0xDC00) + 0x10000))
              (strBody (r.drop 6))
          else pre Utf8.replacement (strBody r)
        | none => pre Utf8.replacement (strBody r)
      else pre (Utf8.encode v) (strBody r) := by
    rw [strBody.eq_def]
    simp only [hv, List.drop_succ_cons, List.drop_zero]
    rfl
  rw [e]
  split
  · split
    · rename_i r2 hr2
      split
      · obtain ⟨a', b', c', d', r', e2, _⟩ := getu4_some_inv hr2
        subst e2
        exact .inr ⟨_, a', b', c', d', r', rfl, rfl⟩
      · exact .inl ⟨_, rfl⟩
    · exact .inl ⟨_, rfl⟩
  · exact .inl ⟨_, rfl⟩

/-! #### `strBody`: completeness -/

theorem chars_drop_high (tail : Bytes) :
    ∀ (k : Nat) (r : Bytes), Grammar.Chars r →
      (∀ x ∈ (r ++ 0x22 :: tail).take k, 0x80 ≤ x) →
      Grammar.Chars (r.drop k) ∧ (r.drop k).length ≤ r.length ∧
        (r ++ 0x22 :: tail).drop k = r.drop k ++ 0x22 :: tail := by
  intro k
  induction k with
  | zero => intro r hr _; exact ⟨hr, Nat.le_refl _, rfl⟩
  | succ k ih =>
    intro r hr hall
    cases r with
    | nil =>
      have := hall 0x22 (by simp)
      exact absurd this (by decide)
    | cons x r' =>
      have hx : 0x80 ≤ x := hall x (by simp)
      have hr' := chars_high_inv hx hr
      obtain ⟨h1, h2, h3⟩ := ih r' hr' (fun y hy => hall y (by simp [hy]))
      exact ⟨h1, by simp only [List.drop_succ_cons, List.length_cons]; omega, h3⟩

theorem chars_u_inv {r tail s : Bytes} (hr : Grammar.Chars r)
    (e : r ++ 0x22 :: tail = 0x5C :: 0x75 :: s) :
    ∃ a b c d r', r = 0x5C :: 0x75 :: a :: b :: c :: d :: r' ∧ Grammar.Chars r' := by
  cases hr with
  | nil => injection e with e1 _; exact absurd e1 (by decide)
  | plain c r1 h1 h2 h3 h4 =>
    injection e with e1 _; exact absurd e1 h3
  | esc e' r1 he h4 =>
    injection e with _ e2
    injection e2 with e3 _
    subst e3
    exact absurd he (by decide)
  | uni a b c d r1 ha hb hc hd h4 => exact ⟨a, b, c, d, r1, rfl, h4⟩

theorem pre_some {p out rest : Bytes} {o : Option (Bytes × Bytes)} (h : o = some (out, rest)) :
    pre p o = some (p ++ out, rest) := by
  subst h; rfl

/-- Completeness of the string scanner: a grammar string body followed by a quote is consumed
    exactly up to and including that quote. -/
theorem strBody_complete {body : Bytes} (hb : Grammar.Chars body) (rest : Bytes) :
    ∃ out, strBody (body ++ 0x22 :: rest) = some (out, rest) := by
  generalize hn : body.length = n
  induction n using Nat.strongRecOn generalizing body with
  | _ n ih =>
    cases hb with
    | nil => exact ⟨[], strBody_quote rest⟩
    | plain c r h1 h2 h3 hr =>
      simp only [List.length_cons] at hn
      by_cases h80 : c < 0x80
      · obtain ⟨out, ho⟩ := ih r.length (by omega) hr rfl
        exact ⟨_, by rw [List.cons_append, strBody_plain_low _ h1 h2 h3 h80]; exact pre_some ho⟩
      · obtain ⟨p0, k, _, hall, e⟩ := strBody_high (r ++ 0x22 :: rest) (UInt8.not_lt.1 h80)
        obtain ⟨hc, hl, hd⟩ := chars_drop_high rest k r hr hall
        obtain ⟨out, ho⟩ := ih (r.drop k).length (by omega) hc rfl
        exact ⟨_, by rw [List.cons_append, e, hd]; exact pre_some ho⟩
    | esc e r he hr =>
      simp only [List.length_cons] at hn
      obtain ⟨out, ho⟩ := ih r.length (by omega) hr rfl
      obtain ⟨ch, hch⟩ := strBody_esc (r ++ 0x22 :: rest) he
      exact ⟨_, by rw [List.cons_append, List.cons_append, hch]; exact pre_some ho⟩
    | uni a b c d r ha hb' hc hd hr =>
      simp only [List.length_cons] at hn
      rcases strBody_uni (r ++ 0x22 :: rest) ha hb' hc hd with ⟨p0, e⟩ | ⟨p0, a', b', c', d', r', e1, e⟩
      · obtain ⟨out, ho⟩ := ih r.length (by omega) hr rfl
        exact ⟨_, by simp only [List.cons_append]; rw [e]; exact pre_some ho⟩
      · obtain ⟨a2, b2, c2, d2, r2, e2, hr2⟩ := chars_u_inv hr e1
        subst e2
        simp only [List.cons_append, List.cons.injEq, true_and] at e1
        obtain ⟨_, _, _, _, e1⟩ := e1
        subst e1
        obtain ⟨out, ho⟩ := ih r2.length (by simp only [List.length_cons] at hn; omega) hr2 rfl
        exact ⟨_, by simp only [List.cons_append]; simp only [List.cons_append] at e; rw [e]; exact pre_some ho⟩

/-- String literals: the scanner accepts exactly `JString` prefixes. -/
theorem strBody_jstring {k : Bytes} (hk : Grammar.JString k) (rest : Bytes) :
    ∃ body out, k = 0x22 :: body ∧ strBody (body ++ rest) = some (out, rest) := by
  obtain ⟨body, e, hb⟩ := hk
  obtain ⟨out, ho⟩ := strBody_complete hb rest
  exact ⟨body ++ [0x22], out, e, by rw [List.append_assoc]; exact ho⟩

theorem jstring_of_strBody {s out rest : Bytes} (h : strBody s = some (out, rest)) :
    ∃ k, Grammar.JString k ∧ 0x22 :: s = k ++ rest := by
  obtain ⟨body, e, hb⟩ := strBody_sound h
  exact ⟨0x22 :: (body ++ [0x22]), ⟨body, rfl, hb⟩, by rw [e]; simp⟩

open IntText (NumberEnds IsDig digits_append digits_of_not_digit isDigit_iff isDig_iff digits_cons)

/-! ### Numbers -/

theorem digits_fst_all (s : Bytes) : ∀ c ∈ (digits s).1, Grammar.isDigit c = true := by
  induction s with
  | nil => intro c hc; cases hc
  | cons d r ih =>
    rw [digits_cons]
    by_cases hd : isDigit d = true
    · rw [if_pos hd]
      intro c hc
      rcases List.mem_cons.1 hc with h | h
      · subst h; exact hd
      · exact ih c h
    · rw [if_neg hd]; intro c hc; cases hc

theorem scanInt_sound {s ip r : Bytes} (h : scanInt s = some (ip, r)) : Grammar.JInt ip := by
  cases s with
  | nil => cases h
  | cons c t =>
    simp only [scanInt] at h
    split at h
    · rename_i hc
      simp only [beq_iff_eq] at hc
      injection h with h; injection h with h1 _
      subst h1 hc; exact .inl rfl
    · split at h
      · rename_i hc
        simp only [Bool.and_eq_true, decide_eq_true_eq] at hc
        injection h with h; injection h with h1 _
        subst h1
        exact .inr ⟨c, _, rfl, hc.1, hc.2, digits_fst_all t⟩
      · cases h

theorem scanExp_sound {s x r : Bytes} (h : scanExp s = some (x, r)) :
    ∃ sign ds, x = sign ++ ds ∧ (sign = [] ∨ sign = [0x2B] ∨ sign = [0x2D]) ∧ Grammar.Digits ds := by
  unfold scanExp at h
  cases s with
  | nil => simp [digits] at h
  | cons c t =>
    simp only [] at h
    split at h
    · rename_i hc
      simp only [Bool.or_eq_true, beq_iff_eq] at hc
      simp only [] at h
      split at h
      · cases h
      · rename_i hne
        injection h with h; injection h with h1 _
        subst h1
        refine ⟨[c], _, rfl, ?_, ?_, digits_fst_all t⟩
        · rcases hc with hc | hc <;> subst hc <;> simp
        · intro e; rw [e] at hne; exact hne rfl
    · simp only [] at h
      split at h
      · cases h
      · rename_i hne
        injection h with h; injection h with h1 _
        subst h1
        refine ⟨[], _, rfl, .inl rfl, ?_, digits_fst_all (c :: t)⟩
        intro e; rw [e] at hne; exact hne rfl

theorem scanFracExp_sound {s fe r : Bytes} (h : scanFracExp s = some (fe, r)) :
    ∃ f e, fe = f ++ e ∧ Grammar.JFrac f ∧ Grammar.JExp e := by
  have expCase : ∀ (c : UInt8) (t x rest' : Bytes), (c == 0x65 || c == 0x45) = true →
      scanExp t = some (x, rest') → Grammar.JExp (c :: x) := by
    intro c t x rest' hc hx
    obtain ⟨sign, ds, e1, hs, hd⟩ := scanExp_sound hx
    simp only [Bool.or_eq_true, beq_iff_eq] at hc
    exact .inr ⟨c, sign, ds, by rw [e1], hc, hs, hd⟩
  cases s with
  | nil =>
    simp only [scanFracExp] at h
    injection h with h; injection h with h1 _; subst h1
    exact ⟨[], [], rfl, .inl rfl, .inl rfl⟩
  | cons c t =>
    simp only [scanFracExp] at h
    split at h
    · rename_i hdot
      simp only [beq_iff_eq] at hdot
      subst hdot
      have hall := digits_fst_all t
      cases hdt : digits t with
      | mk ds r' =>
      rw [hdt] at h hall
      simp only [] at h hall
      split at h
      · cases h
      · rename_i hne
        have hD : Grammar.Digits ds := ⟨by intro e; rw [e] at hne; exact hne rfl, hall⟩
        have hF : Grammar.JFrac (0x2E :: ds) := .inr ⟨ds, rfl, hD⟩
        split at h
        · rename_i e r''
          split at h
          · rename_i he
            cases hx : scanExp r'' with
            | none => rw [hx] at h; cases h
            | some p =>
              obtain ⟨x, rest'⟩ := p
              rw [hx] at h
              simp only [Option.map_some] at h
              injection h with h; injection h with h1 _; subst h1
              exact ⟨0x2E :: ds, e :: x, by simp, hF, expCase e r'' x rest' he hx⟩
          · injection h with h; injection h with h1 _; subst h1
            exact ⟨0x2E :: ds, [], by simp, hF, .inl rfl⟩
        · injection h with h; injection h with h1 _; subst h1
          exact ⟨0x2E :: ds, [], by simp, hF, .inl rfl⟩
    · split at h
      · rename_i he
        cases hx : scanExp t with
        | none => rw [hx] at h; cases h
        | some p =>
          obtain ⟨x, rest'⟩ := p
          rw [hx] at h
          simp only [Option.map_some] at h
          injection h with h; injection h with h1 _; subst h1
          exact ⟨[], c :: x, rfl, .inl rfl, expCase c t x rest' he hx⟩
      · injection h with h; injection h with h1 _; subst h1
        exact ⟨[], [], rfl, .inl rfl, .inl rfl⟩

/-- Soundness of the number scanner. -/
theorem scanNumber_sound {s l rest : Bytes} (h : scanNumber s = some (l, rest)) :
    Grammar.JNumber l ∧ s = l ++ rest := by
  refine ⟨?_, (IntText.scanNumber_lit h).symm⟩
  have key : ∀ (neg r : Bytes), (neg = [] ∨ neg = [0x2D]) →
      (match scanInt r with
        | none => none
        | some (ip, r1) =>
          match scanFracExp r1 with
          | none => none
          | some (fe, r2) => some (neg ++ ip ++ fe, r2)) = some (l, rest) → Grammar.JNumber l := by
    intro neg r hneg h
    cases h1 : scanInt r with
    | none => rw [h1] at h; cases h
    | some p =>
      obtain ⟨ip, r1⟩ := p
      rw [h1] at h
      simp only [] at h
      cases h2 : scanFracExp r1 with
      | none => rw [h2] at h; cases h
      | some q =>
        obtain ⟨fe, r2⟩ := q
        rw [h2] at h
        simp only [] at h
        injection h with h; injection h with ha _; subst ha
        obtain ⟨f, e, efe, hf, he⟩ := scanFracExp_sound h2
        exact ⟨neg, ip, f, e, by rw [efe]; simp, hneg, scanInt_sound h1, hf, he⟩
  cases s with
  | nil => exact key [] [] (.inl rfl) h
  | cons c t =>
    by_cases hc : c = 0x2D
    · subst hc
      simp only [scanNumber, beq_self_eq_true, if_true] at h
      exact key _ _ (.inr rfl) h
    · simp only [scanNumber, beq_iff_eq, hc, if_false] at h
      exact key _ _ (.inl rfl) h


theorem isDig_of_gdigit {c : UInt8} (h : Grammar.isDigit c = true) : IsDig c := (isDigit_iff c).1 h

theorem scanInt_complete {i rest : Bytes} (hi : Grammar.JInt i)
    (hr : ∀ c, rest.head? = some c → ¬ IsDig c) : scanInt (i ++ rest) = some (i, rest) := by
  rcases hi with rfl | ⟨c, ds, rfl, h1, h2, hds⟩
  · rfl
  · have hc0 : c ≠ 0x30 := by intro e; subst e; exact absurd h1 (by decide)
    have hc1 : (0x31 ≤ c && c ≤ 0x39) = true := by simp [h1, h2]
    simp only [List.cons_append, scanInt, beq_iff_eq, hc0, if_false, hc1, if_true,
      digits_append ds rest (fun d hd => isDig_of_gdigit (hds d hd)) hr]

theorem scanExp_complete {sign ds rest : Bytes} (hs : sign = [] ∨ sign = [0x2B] ∨ sign = [0x2D])
    (hd : Grammar.Digits ds) (hr : ∀ c, rest.head? = some c → ¬ IsDig c) :
    scanExp (sign ++ ds ++ rest) = some (sign ++ ds, rest) := by
  obtain ⟨hne, hall⟩ := hd
  have hdig := digits_append ds rest (fun d hd => isDig_of_gdigit (hall d hd)) hr
  have hemp : ds.isEmpty = false := by cases ds with
    | nil => exact absurd rfl hne
    | cons _ _ => rfl
  rcases hs with rfl | rfl | rfl
  · cases ds with
    | nil => exact absurd rfl hne
    | cons d ds' =>
      have hd' : IsDig d := isDig_of_gdigit (hall d (by simp))
      have h1 : (d == 0x2B || d == 0x2D) = false := by
        rw [Bool.or_eq_false_iff]
        constructor <;> (apply beq_false_of_ne; intro e; subst e; revert hd'; unfold IsDig; decide)
      unfold scanExp
      simp only [List.nil_append, List.cons_append, h1] at hdig ⊢
      simp [hdig]
  · unfold scanExp
    simp [hdig, hemp]
  · unfold scanExp
    simp [hdig, hemp]

theorem numberEnds_not_digit {rest : Bytes} (h : NumberEnds rest) :
    ∀ c, rest.head? = some c → ¬ IsDig c := fun c hc => by
  rw [isDig_iff]; exact (h c hc).1

theorem scanFracExp_complete {f e rest : Bytes} (hf : Grammar.JFrac f) (he : Grammar.JExp e)
    (hr : NumberEnds rest) : scanFracExp (f ++ e ++ rest) = some (f ++ e, rest) := by
  have hnd := numberEnds_not_digit hr
  -- the exponent part alone
  have expOnly : ∀ (c : UInt8) (sign ds : Bytes), (c = 0x65 ∨ c = 0x45) →
      (sign = [] ∨ sign = [0x2B] ∨ sign = [0x2D]) → Grammar.Digits ds →
      (scanExp (sign ++ ds ++ rest)).map (fun (x, r) => (c :: x, r)) = some (c :: (sign ++ ds), rest) := by
    intro c sign ds _ hs hd
    rw [scanExp_complete hs hd hnd]; rfl
  rcases hf with rfl | ⟨fds, rfl, hfd⟩
  · rcases he with rfl | ⟨c, sign, ds, rfl, hc, hs, hd⟩
    · exact IntText.scanFracExp_ends rest hr
    · have h1 : (c == 0x2E) = false := by
        rcases hc with rfl | rfl <;> decide
      have h2 : (c == 0x65 || c == 0x45) = true := by
        rcases hc with rfl | rfl <;> decide
      simp only [List.nil_append, List.cons_append, scanFracExp, h1, h2, if_true]
      have := expOnly c sign ds hc hs hd
      simpa using this
  · obtain ⟨hne, hall⟩ := hfd
    have hemp : fds.isEmpty = false := by cases fds with
      | nil => exact absurd rfl hne
      | cons _ _ => rfl
    rcases he with rfl | ⟨c, sign, ds, rfl, hc, hs, hd⟩
    · have hdig := digits_append fds rest (fun d hd => isDig_of_gdigit (hall d hd)) hnd
      simp only [List.append_nil, List.cons_append, scanFracExp, beq_self_eq_true, if_true, hdig, hemp]
      cases rest with
      | nil => simp
      | cons x tl =>
        obtain ⟨_, _, hx1, hx2⟩ := hr x rfl
        simp [hx1, hx2]
    · have hcnd : ¬ IsDig c := by
        rcases hc with rfl | rfl <;> (unfold IsDig; decide)
      have hdig := digits_append fds (c :: (sign ++ ds) ++ rest)
        (fun d hd => isDig_of_gdigit (hall d hd)) (fun x hx => by cases hx; exact hcnd)
      have h2 : (c == 0x65 || c == 0x45) = true := by
        rcases hc with rfl | rfl <;> decide
      have := expOnly c sign ds hc hs hd
      simp only [List.cons_append, List.append_assoc] at hdig this ⊢
      simp only [scanFracExp, beq_self_eq_true, if_true, hdig, hemp, h2]
      simpa using this

/-- Completeness of the number scanner: a grammar number followed by something that cannot
    continue a number literal is consumed exactly. -/
theorem scanNumber_complete {l rest : Bytes} (hl : Grammar.JNumber l) (hr : NumberEnds rest) :
    scanNumber (l ++ rest) = some (l, rest) := by
  obtain ⟨neg, i, f, e, rfl, hneg, hi, hf, he⟩ := hl
  have h1 : scanInt (i ++ (f ++ e ++ rest)) = some (i, f ++ e ++ rest) := by
    apply scanInt_complete hi
    intro c hc
    -- the byte after the integer part is `.`, `e`, `E` or the head of `rest`
    rcases hf with rfl | ⟨fds, rfl, _⟩
    · rcases he with rfl | ⟨x, sign, ds, rfl, hx, _, _⟩
      · exact numberEnds_not_digit hr c hc
      · cases hc; rcases hx with rfl | rfl <;> (unfold IsDig; decide)
    · cases hc; unfold IsDig; decide
  have h2 := scanFracExp_complete hf he hr
  have hi0 : ∃ c t, i = c :: t ∧ c ≠ 0x2D := by
    rcases hi with rfl | ⟨c, ds, rfl, h1, h2, _⟩
    · exact ⟨_, _, rfl, by decide⟩
    · exact ⟨c, ds, rfl, by intro e; subst e; exact absurd h1 (by decide)⟩
  rcases hneg with rfl | rfl
  · obtain ⟨c, t, rfl, hc⟩ := hi0
    simp only [List.nil_append, List.cons_append, List.append_assoc] at h1 h2 ⊢
    simp only [scanNumber, beq_iff_eq, hc, if_false, h1, h2]
    simp
  · simp only [List.cons_append, List.nil_append, List.append_assoc] at h1 h2 ⊢
    simp only [scanNumber, beq_self_eq_true, if_true, h1, h2]
    simp


/-! ### Literals and `scanScalar` -/

theorem stripPrefix_sound {p bs r : Bytes} (h : stripPrefix p bs = some r) : bs = p ++ r := by
  unfold stripPrefix at h
  split at h
  · rename_i hp
    injection h with h
    obtain ⟨t, e⟩ := List.isPrefixOf_iff_prefix.1 hp
    subst e
    rw [List.drop_left] at h
    rw [h]
  · cases h

theorem stripPrefix_complete (p r : Bytes) : stripPrefix p (p ++ r) = some r := by
  unfold stripPrefix
  have : p.isPrefixOf (p ++ r) = true := List.isPrefixOf_iff_prefix.2 (List.prefix_append p r)
  rw [if_pos this, List.drop_left]

/-- The first byte of a number literal. -/
theorem jnumber_head {l : Bytes} (hl : Grammar.JNumber l) :
    ∃ c t, l = c :: t ∧ (c = 0x2D ∨ isDigit c = true) := by
  obtain ⟨neg, i, f, e, rfl, hneg, hi, _, _⟩ := hl
  rcases hneg with rfl | rfl
  · rcases hi with rfl | ⟨c, ds, rfl, h1, h2, _⟩
    · exact ⟨0x30, _, rfl, .inr (by decide)⟩
    · refine ⟨c, _, rfl, .inr ?_⟩
      unfold isDigit
      simp only [Bool.and_eq_true, decide_eq_true_eq]
      exact ⟨UInt8.le_trans (by decide) h1, h2⟩
  · exact ⟨0x2D, _, rfl, .inl rfl⟩

/-- Soundness of `scanScalar`: what it consumes is a JSON value, and the token is a scalar. -/
theorem scanScalar_sound {buf r : Bytes} {t : Tok} (h : scanScalar buf = some (t, r)) :
    (∃ v, Grammar.JValue v ∧ buf = v ++ r) ∧ (scalarOf t).isSome = true := by
  cases buf with
  | nil => cases h
  | cons c rest =>
    simp only [scanScalar] at h
    split at h
    · rename_i hc
      simp only [beq_iff_eq] at hc; subst hc
      cases hs : strBody rest with
      | none => rw [hs] at h; cases h
      | some p =>
        obtain ⟨s, r'⟩ := p
        rw [hs] at h
        simp only [Option.map_some, Option.some.injEq, Prod.mk.injEq] at h
        obtain ⟨rfl, rfl⟩ := h
        obtain ⟨k, hk, e⟩ := jstring_of_strBody hs
        exact ⟨⟨k, .str k hk, e⟩, rfl⟩
    · split at h
      · cases hs : scanNumber (c :: rest) with
        | none => rw [hs] at h; cases h
        | some p =>
          obtain ⟨l, r'⟩ := p
          rw [hs] at h
          simp only [Option.map_some, Option.some.injEq, Prod.mk.injEq] at h
          obtain ⟨rfl, rfl⟩ := h
          obtain ⟨hl, e⟩ := scanNumber_sound hs
          exact ⟨⟨l, .num l hl, e⟩, rfl⟩
      · have lit : ∀ (p : Bytes) (tk : Tok), Grammar.JValue p → (scalarOf tk).isSome = true →
            (stripPrefix p (c :: rest)).map (fun r => (tk, r)) = some (t, r) →
            (∃ v, Grammar.JValue v ∧ c :: rest = v ++ r) ∧ (scalarOf t).isSome = true := by
          intro p tk hp htk h
          cases hs : stripPrefix p (c :: rest) with
          | none => rw [hs] at h; cases h
          | some r' =>
            rw [hs] at h
            simp only [Option.map_some, Option.some.injEq, Prod.mk.injEq] at h
            obtain ⟨rfl, rfl⟩ := h
            exact ⟨⟨p, hp, stripPrefix_sound hs⟩, htk⟩
        split at h
        · exact lit _ _ .tru rfl h
        · split at h
          · exact lit _ _ .fls rfl h
          · split at h
            · exact lit _ _ .null rfl h
            · cases h

/-- The scalar values of the grammar (everything but arrays and objects). -/
inductive JScalar : Bytes → Prop
  | null : JScalar [0x6E, 0x75, 0x6C, 0x6C]
  | tru : JScalar [0x74, 0x72, 0x75, 0x65]
  | fls : JScalar [0x66, 0x61, 0x6C, 0x73, 0x65]
  | num (s : Bytes) : Grammar.JNumber s → JScalar s
  | str (s : Bytes) : Grammar.JString s → JScalar s

/-- Completeness of `scanScalar`. -/
theorem scanScalar_complete {v rest : Bytes} (hv : JScalar v) (hr : NumberEnds rest) :
    ∃ t, scanScalar (v ++ rest) = some (t, rest) ∧ (scalarOf t).isSome = true := by
  cases hv with
  | null =>
    refine ⟨.null, ?_, rfl⟩
    have := stripPrefix_complete [0x6E, 0x75, 0x6C, 0x6C] rest
    simp only [List.cons_append, List.nil_append] at this ⊢
    simp only [scanScalar, this]
    rfl
  | tru =>
    refine ⟨.tru, ?_, rfl⟩
    have := stripPrefix_complete [0x74, 0x72, 0x75, 0x65] rest
    simp only [List.cons_append, List.nil_append] at this ⊢
    simp only [scanScalar, this]
    rfl
  | fls =>
    refine ⟨.fls, ?_, rfl⟩
    have := stripPrefix_complete [0x66, 0x61, 0x6C, 0x73, 0x65] rest
    simp only [List.cons_append, List.nil_append] at this ⊢
    simp only [scanScalar, this]
    rfl
  | num _ hl =>
    refine ⟨.num v, ?_, rfl⟩
    have hs := scanNumber_complete hl hr
    obtain ⟨c, t, rfl, hc⟩ := jnumber_head hl
    have h22 : (c == 0x22) = false := by
      rcases hc with rfl | hc
      · decide
      · apply beq_false_of_ne; intro e; subst e; revert hc; decide
    have hnd : (c == 0x2D || isDigit c) = true := by
      rcases hc with rfl | hc
      · decide
      · rw [hc]; simp
    simp only [List.cons_append] at hs ⊢
    simp only [scanScalar, h22, hnd, hs]
    simp
  | str _ hk =>
    obtain ⟨body, out, rfl, ho⟩ := strBody_jstring hk rest
    refine ⟨.str out, ?_, rfl⟩
    simp only [List.cons_append, scanScalar, beq_self_eq_true, if_true, ho]
    rfl

/-! ### Summary statements -/

/-- The string scanner accepts exactly: a grammar string body, then the closing quote. -/
theorem strBody_iff (s rest : Bytes) :
    (∃ out, strBody s = some (out, rest)) ↔
      ∃ body, s = body ++ 0x22 :: rest ∧ Grammar.Chars body := by
  constructor
  · rintro ⟨out, h⟩; exact strBody_sound h
  · rintro ⟨body, rfl, hb⟩; exact strBody_complete hb rest

/-- The number scanner, for a rest that cannot continue a number literal. -/
theorem scanNumber_iff (s l rest : Bytes) (hr : NumberEnds rest) :
    scanNumber s = some (l, rest) ↔ Grammar.JNumber l ∧ s = l ++ rest := by
  constructor
  · exact scanNumber_sound
  · rintro ⟨hl, rfl⟩; exact scanNumber_complete hl hr

/-- The side condition of `scanNumber_complete` is needed: `1` followed by `.5`, `0` followed by
    `e1`; and a following digit is always absorbed. -/
example : scanNumber ([0x31] ++ [0x2E, 0x35]) = some ([0x31, 0x2E, 0x35], []) := by decide
example : scanNumber ([0x30] ++ [0x65, 0x31]) = some ([0x30, 0x65, 0x31], []) := by decide
example : scanNumber ([0x31] ++ [0x32]) = some ([0x31, 0x32], []) := by decide
/-- `+`/`-` continue a literal only directly after `e`/`E`. -/
example : scanNumber ([0x31] ++ [0x2B]) = some ([0x31], [0x2B]) := by decide

end Jl.JsonLex
