/-
  Proofs.LineAccept — which lines a TEMPLATED importer accepts (property C16, second half).

  `Props/C16` settles the text level: the reader accepts exactly `Grammar.IsObjectText`.  With a
  template the members of the text are imported, one after the other, into the cells of the row
  `CreateRowEmpty` made, and the first import that fails makes the whole line an error.  This file
  states that as an equivalence:

    getRow env ti line = .ok (r, none)  ↔  IsObjectText line ∧ ConvertsAll env ti line

  where `ConvertsAll` is an executable fold over the members the reader delivers (`convertsFrom`),
  written with `importCell` alone; characterises the fold member by member for lines without
  repeated names; gives the class of the error in every other case (`lineVerdict`); carries the
  equivalence through the exporter (`jlLine_accepts_iff`: nothing is written unless the line is
  accepted AND every visible cell of the exporter's row marshals); and evaluates five lines
  under a numeric(int8) column over the regenerated tables.
-/
import Model.Template
import Model.JsonGrammar
import Proofs.JsonAccept
import Proofs.Order
import Proofs.LineLevel
import Proofs.LineTime
import Proofs.JsonPrint
import Proofs.CastTyped
import Proofs.NoPanic

namespace Jl.LineAccept
open Jl Jl.Value Jl.Template Jl.Cast Jl.CastTyped

set_option linter.unusedSimpArgs false

/-! ### 0. Vocabulary -/

abbrev Row := List (Bytes × Val)

/-- Every value the row holds is a cell (not a row used as a value).  `CloneRow` establishes it
    (`NewValue` always makes a cell) and every member import keeps it. -/
def CellRow (o : Row) : Prop := ∀ k c, lookup o k = some c → ∃ raw f ty, c = Val.cell raw f ty

/-- What `parseobject` does with the member `(k, x)` on the row `o`, in terms of cells alone: the
    import into the cell the row holds AT THAT MOMENT under the name `k` — `importCell` with that
    cell's format and raw type (those of the declared column, or the descriptor an earlier member of
    the same name left there) — or, for a name the row does not hold, a fresh Auto cell. -/
def memberImport (env : Env) (o : Row) (k : Bytes) (x : Dyn) : Outcome (Val × Option ErrClass) :=
  match lookup o k with
  | some c => importCell env (Cells.format c) (Cells.rawType c) x
  | none => .ok (Cells.autoCell x, none)

/-- The error class of the first member whose import fails, folding the members in order over the
    row as it evolves (`.ok none`: every member converts; `.err`/`.panic`: the import itself did
    not finish — for the regenerated tables only `.err .ext`, see `gen_firstError_cases`). -/
def firstError (env : Env) : Row → List (Bytes × Dyn) → Outcome (Option ErrClass)
  | _, [] => .ok none
  | o, (k, x) :: ms =>
    match memberImport env o k x with
    | .ok (c', none) => firstError env (upsert o k c') ms
    | .ok (_, some e) => .ok (some e)
    | .err e => .err e
    | .panic s => .panic s

/-- The Bool-valued fold mirroring `parseMembers`: every member, in order, imports without error
    into the cell the row holds at that moment under its name. -/
def convertsFrom (env : Env) : Row → List (Bytes × Dyn) → Bool
  | _, [] => true
  | o, (k, x) :: ms =>
    match memberImport env o k x with
    | .ok (c', none) => convertsFrom env (upsert o k c') ms
    | .ok (_, some _) => false
    | .err _ => false
    | .panic _ => false

/-- The declared columns of the line convert: the template's row can be made, the values of the
    members the reader delivers can be built, and the fold `convertsFrom` over them succeeds. -/
def ConvertsAll (env : Env) (ti : Tmpl) (line : Bytes) : Bool :=
  match cloneRow env ti with
  | .ok row =>
    match ofJVMembers env (Json.unmarshal line).1 with
    | .ok l => convertsFrom env row l
    | .err _ => false
    | .panic _ => false
  | .err _ => false
  | .panic _ => false

/-- The error component of an outcome. -/
def errOf {α : Type} : Outcome (α × Option ErrClass) → Outcome (Option ErrClass)
  | .ok (_, e) => .ok e
  | .err e => .err e
  | .panic s => .panic s

/-- What `GetRow` reports for a line, computed without building the row: the error class of the
    first failing import if there is one, else `.syntax` when the text is not one JSON object,
    else nothing. -/
def lineVerdict (env : Env) (ti : Tmpl) (line : Bytes) : Outcome (Option ErrClass) :=
  match cloneRow env ti with
  | .ok row =>
    match ofJVMembers env (Json.unmarshal line).1 with
    | .ok l =>
      match firstError env row l with
      | .ok none => .ok (if Json.accepts line then none else some .syntax)
      | .ok (some e) => .ok (some e)
      | .err e => .err e
      | .panic s => .panic s
    | .err e => .err e
    | .panic s => .panic s
  | .err e => .err e
  | .panic s => .panic s

theorem convertsFrom_iff_firstError (env : Env) (l : List (Bytes × Dyn)) :
    ∀ o, convertsFrom env o l = true ↔ firstError env o l = .ok none := by
  induction l with
  | nil => intro o; simp [convertsFrom, firstError]
  | cons kx l ih =>
    intro o
    obtain ⟨k, x⟩ := kx
    simp only [convertsFrom, firstError]
    split
    · exact ih _
    · simp
    · simp
    · simp

/-! ### 1. Rows of cells: `importVal` is `importCell` -/

theorem cellRow_nil : CellRow [] := by
  intro k c h
  simp [lookup, OMap.lookup] at h

theorem cellRow_upsert {o : Row} (h : CellRow o) (k : Bytes) (raw : Dyn) (f : Format) (ty : Ty) :
    CellRow (upsert o k (.cell raw f ty)) := by
  intro k' c hc
  by_cases hk : k = k'
  · subst hk
    rw [LineTime.lookup_upsert_self] at hc
    cases hc
    exact ⟨_, _, _, rfl⟩
  · rw [LineTime.lookup_upsert_ne _ _ hk] at hc
    exact h k' c hc

theorem newValue_cell (env : Env) (v : Dyn) (f : Format) (ty : Ty) (c : Val)
    (h : newValue env v f ty = .ok c) : ∃ raw, c = .cell raw f ty := by
  unfold newValue at h
  split at h
  · cases h; exact ⟨_, rfl⟩
  · cases h
  · cases h; exact ⟨_, rfl⟩
  · cases h

theorem cloneInto_cellRow (env : Env) (r : Row) :
    ∀ (acc r' : Row), CellRow acc → cloneInto env acc r = .ok r' → CellRow r' := by
  induction r with
  | nil =>
    intro acc r' ha h
    simp only [cloneInto, Outcome.ok.injEq] at h
    subst h; exact ha
  | cons kv rest ih =>
    intro acc r' ha h
    obtain ⟨k, v⟩ := kv
    simp only [cloneInto] at h
    split at h
    · rename_i c hc
      obtain ⟨raw, rfl⟩ := newValue_cell env _ _ _ c hc
      exact ih _ _ (cellRow_upsert ha _ _ _ _) h
    · cases h
    · cases h

/-- `CloneRow` / `CreateRowEmpty` deliver a row of cells, whatever the template holds. -/
theorem cloneRow_cellRow (env : Env) (t row : Row) (h : cloneRow env t = .ok row) : CellRow row :=
  cloneInto_cellRow env t [] row cellRow_nil h

/-- `Import` on a cell always leaves a cell. -/
theorem importCell_cell (env : Env) (f : Format) (ty : Ty) (x : Dyn) (c : Val)
    (e : Option ErrClass) (h : importCell env f ty x = .ok (c, e)) :
    ∃ raw f' ty', c = .cell raw f' ty' := by
  have hbf : ∀ y, importByFormat env f ty y = .ok (c, e) → ∃ raw f' ty', c = .cell raw f' ty' := by
    intro y hy
    unfold importByFormat at hy
    simp only at hy
    split at hy
    · simp only [Outcome.ok.injEq, Prod.mk.injEq] at hy
      exact ⟨_, _, _, hy.1.symm⟩
    · cases hy
    · simp only [Outcome.ok.injEq, Prod.mk.injEq] at hy
      exact ⟨_, _, _, hy.1.symm⟩
    · cases hy
  unfold importCell at h
  split at h
  · simp only [Outcome.ok.injEq, Prod.mk.injEq] at h
    exact ⟨_, _, _, h.1.symm⟩
  · split at h
    · simp only [Outcome.ok.injEq, Prod.mk.injEq] at h
      exact ⟨_, _, _, h.1.symm⟩
    · exact hbf _ h
  · simp only [Outcome.ok.injEq, Prod.mk.injEq] at h
    exact ⟨_, _, _, h.1.symm⟩
  · exact hbf _ h

theorem memberImport_cell (env : Env) (o : Row) (k : Bytes) (x : Dyn) (c : Val)
    (e : Option ErrClass) (h : memberImport env o k x = .ok (c, e)) :
    ∃ raw f ty, c = .cell raw f ty := by
  unfold memberImport at h
  split at h
  · exact importCell_cell env _ _ x c e h
  · simp only [Outcome.ok.injEq, Prod.mk.injEq] at h
    exact ⟨_, _, _, h.1.symm⟩

theorem importVal_cell (env : Env) (raw : Dyn) (f : Format) (ty : Ty) (x : Dyn) :
    importVal env (.cell raw f ty) x = importCell env f ty x := by
  simp only [importVal, importInto]

/-- One member of `parseobject` on a row of cells, through `memberImport`. -/
theorem parseMember_eq (env : Env) (o : Row) (ho : CellRow o) (k : Bytes) (x : Dyn) :
    parseMember env o k x =
      match memberImport env o k x with
      | .ok (c', e) => .ok (upsert o k c', e)
      | .err e => .err e
      | .panic s => .panic s := by
  unfold parseMember memberImport
  cases hl : lookup o k with
  | none => simp
  | some c =>
    obtain ⟨raw, f, ty, rfl⟩ := ho k c hl
    simp only [importVal_cell, Cells.format, Cells.rawType]
    split <;> simp_all

theorem parseMember_cellRow (env : Env) (o o' : Row) (ho : CellRow o) (k : Bytes) (x : Dyn)
    (e : Option ErrClass) (h : parseMember env o k x = .ok (o', e)) : CellRow o' := by
  rw [parseMember_eq env o ho] at h
  split at h
  · rename_i c' e' hm
    simp only [Outcome.ok.injEq, Prod.mk.injEq] at h
    obtain ⟨raw, f, ty, rfl⟩ := memberImport_cell env o k x c' e' hm
    rw [← h.1]
    exact cellRow_upsert ho _ _ _ _
  · cases h
  · cases h

/-- `parseobject` over the delivered members: its error component is `firstError`. -/
theorem parseMembers_errOf (env : Env) (l : List (Bytes × Dyn)) :
    ∀ o, CellRow o → errOf (parseMembers env o l) = firstError env o l := by
  induction l with
  | nil => intro o _; rfl
  | cons kx l ih =>
    intro o ho
    obtain ⟨k, x⟩ := kx
    simp only [parseMembers, firstError]
    rw [parseMember_eq env o ho]
    cases hm : memberImport env o k x with
    | ok ce =>
      obtain ⟨c', e⟩ := ce
      cases e with
      | none =>
        simp only
        obtain ⟨raw, f, ty, rfl⟩ := memberImport_cell env o k x c' none hm
        exact ih _ (cellRow_upsert ho _ _ _ _)
      | some e => rfl
    | err e => rfl
    | panic s => rfl

theorem parseMembers_cellRow (env : Env) (l : List (Bytes × Dyn)) :
    ∀ (o o' : Row) (e : Option ErrClass), CellRow o → parseMembers env o l = .ok (o', e) →
      CellRow o' := by
  induction l with
  | nil =>
    intro o o' e ho h
    simp only [parseMembers, Outcome.ok.injEq, Prod.mk.injEq] at h
    rw [← h.1]; exact ho
  | cons kx l ih =>
    intro o o' e ho h
    obtain ⟨k, x⟩ := kx
    simp only [parseMembers] at h
    split at h
    · rename_i o1 h1
      exact ih _ _ _ (parseMember_cellRow env o o1 ho k x none h1) h
    · exact parseMember_cellRow env o o' ho k x e h

theorem errOf_ok_iff {α : Type} (o : Outcome (α × Option ErrClass)) (e : Option ErrClass) :
    errOf o = .ok e ↔ ∃ a, o = .ok (a, e) := by
  cases o with
  | ok ae =>
    obtain ⟨a, e'⟩ := ae
    simp [errOf]
  | err e' => simp [errOf]
  | panic s => simp [errOf]

theorem errOf_err_iff {α : Type} (o : Outcome (α × Option ErrClass)) (e : ErrClass) :
    errOf o = .err e ↔ o = .err e := by
  cases o with
  | ok ae => obtain ⟨a, e'⟩ := ae; simp [errOf]
  | err e' => simp [errOf]
  | panic s => simp [errOf]

theorem errOf_panic_iff {α : Type} (o : Outcome (α × Option ErrClass)) (s : String) :
    errOf o = .panic s ↔ o = .panic s := by
  cases o with
  | ok ae => obtain ⟨a, e'⟩ := ae; simp [errOf]
  | err e' => simp [errOf]
  | panic s' => simp [errOf]

/-! ### 2. `GetRow`: the verdict -/

/-- `row.UnmarshalJSON` on a row of cells: the error it reports. -/
theorem unmarshalInto_errOf (env : Env) (o : Row) (ho : CellRow o) (text : Bytes) :
    errOf (unmarshalInto env o text) =
      match ofJVMembers env (Json.unmarshal text).1 with
      | .ok l =>
        match firstError env o l with
        | .ok none => .ok (if Json.accepts text then none else some .syntax)
        | .ok (some e) => .ok (some e)
        | .err e => .err e
        | .panic s => .panic s
      | .err e => .err e
      | .panic s => .panic s := by
  unfold unmarshalInto Json.accepts
  generalize Json.unmarshal text = u
  obtain ⟨ms, accepted⟩ := u
  simp only
  cases hl : ofJVMembers env ms with
  | ok l =>
    simp only
    rw [← parseMembers_errOf env l o ho]
    cases hp : parseMembers env o l with
    | ok oe =>
      obtain ⟨o', e⟩ := oe
      cases e <;> rfl
    | err e => rfl
    | panic s => rfl
  | err e => rfl
  | panic s => rfl

/-- **The verdict of `GetRow`**, for every environment, template and line. -/
theorem getRow_verdict (env : Env) (ti : Tmpl) (line : Bytes) :
    errOf (getRow env ti line) = lineVerdict env ti line := by
  unfold getRow createRowEmpty lineVerdict
  cases hc : cloneRow env ti with
  | ok row =>
    simp only
    exact unmarshalInto_errOf env row (cloneRow_cellRow env ti row hc) line
  | err e => rfl
  | panic s => rfl

/-! ### 3. Target 1: the equivalence -/

theorem lineVerdict_none_iff (env : Env) (ti : Tmpl) (line : Bytes) :
    lineVerdict env ti line = .ok none ↔
      Json.accepts line = true ∧ ConvertsAll env ti line = true := by
  unfold lineVerdict ConvertsAll
  cases cloneRow env ti with
  | ok row =>
    simp only
    cases ofJVMembers env (Json.unmarshal line).1 with
    | ok l =>
      simp only
      rw [convertsFrom_iff_firstError]
      cases firstError env row l with
      | ok e =>
        cases e with
        | none => cases Json.accepts line <;> simp
        | some e => simp
      | err e => simp
      | panic s => simp
    | err e => simp
    | panic s => simp
  | err e => simp
  | panic s => simp

/-- **Target 1.**  For every environment, template and line: `GetRow` delivers a row and no error
    if and only if the line is exactly one JSON object (optional surrounding white space) and the
    members convert.  No hypothesis is needed: `ConvertsAll` is `false` when `CloneRow` of the
    template does not finish. -/
theorem getRow_accepts_iff (env : Env) (ti : Tmpl) (line : Bytes) :
    (∃ r, getRow env ti line = .ok (r, none)) ↔
      Grammar.IsObjectText line ∧ ConvertsAll env ti line = true := by
  rw [← errOf_ok_iff, getRow_verdict, lineVerdict_none_iff, JsonAcc.accepts_iff]

/-- The same with the row of `CloneRow` and the delivered values named. -/
theorem getRow_accepts_iff_of_clone (env : Env) (ti : Tmpl) (line : Bytes) (row : Row)
    (hc : cloneRow env ti = .ok row) :
    (∃ r, getRow env ti line = .ok (r, none)) ↔
      Grammar.IsObjectText line ∧
        ∃ l, ofJVMembers env (Json.unmarshal line).1 = .ok l ∧ convertsFrom env row l = true := by
  rw [getRow_accepts_iff]
  unfold ConvertsAll
  rw [hc]
  simp only
  cases ofJVMembers env (Json.unmarshal line).1 with
  | ok l => simp
  | err e => simp
  | panic s => simp

/-! #### Lines without repeated names: member by member -/

theorem memberImport_upsert_ne (env : Env) (o : Row) (k k' : Bytes) (c : Val) (x : Dyn)
    (h : k ≠ k') : memberImport env (upsert o k c) k' x = memberImport env o k' x := by
  unfold memberImport
  rw [LineTime.lookup_upsert_ne _ _ h]

/-- Without repeated names every member meets the row as `CloneRow` left it. -/
theorem convertsFrom_nodup (env : Env) (l : List (Bytes × Dyn)) :
    ∀ o, (l.map Prod.fst).Nodup →
      (convertsFrom env o l = true ↔
        ∀ kx ∈ l, ∃ c', memberImport env o kx.1 kx.2 = .ok (c', none)) := by
  induction l with
  | nil => intro o _; simp [convertsFrom]
  | cons kx l ih =>
    intro o hnd
    obtain ⟨k, x⟩ := kx
    rw [List.map_cons, List.nodup_cons] at hnd
    have hne : ∀ kx ∈ l, k ≠ kx.1 := by
      intro kx hkx e
      have hm : kx.1 ∈ l.map Prod.fst := List.mem_map_of_mem hkx
      exact hnd.1 (by rw [e]; exact hm)
    simp only [convertsFrom, List.mem_cons, forall_eq_or_imp]
    cases hm : memberImport env o k x with
    | ok ce =>
      obtain ⟨c', e⟩ := ce
      cases e with
      | none =>
        simp only [Outcome.ok.injEq, Prod.mk.injEq, and_true, exists_eq', true_and]
        rw [ih _ hnd.2]
        constructor
        · intro h kx hkx
          rw [← memberImport_upsert_ne env o k kx.1 c' kx.2 (hne kx hkx)]
          exact h kx hkx
        · intro h kx hkx
          rw [memberImport_upsert_ne env o k kx.1 c' kx.2 (hne kx hkx)]
          exact h kx hkx
      | some e => simp
    | err e => simp
    | panic s => simp

theorem memberImport_ok_iff (env : Env) (o : Row) (k : Bytes) (x : Dyn) :
    (∃ c', memberImport env o k x = .ok (c', none)) ↔
      ∀ c, lookup o k = some c →
        ∃ c', importCell env (Cells.format c) (Cells.rawType c) x = .ok (c', none) := by
  unfold memberImport
  cases lookup o k with
  | none => simp
  | some c => simp

/-- **Target 1, characterisation.**  For a line without repeated member names, `ConvertsAll` says:
    the template's row can be made, the delivered values can be built, and every member `(k, x)`
    whose name is a column of that row — holding a cell of format `f` and raw type `ty` — imports
    into it without error: `importCell env f ty x = .ok (_, none)`.  Members under undeclared
    names put no condition. -/
theorem convertsAll_iff_of_nodup (env : Env) (ti : Tmpl) (line : Bytes)
    (hnd : (Order.inputKeys line).Nodup) :
    ConvertsAll env ti line = true ↔
      ∃ row l, cloneRow env ti = .ok row ∧ ofJVMembers env (Json.unmarshal line).1 = .ok l ∧
        ∀ kx ∈ l, ∀ c, lookup row kx.1 = some c →
          ∃ c', importCell env (Cells.format c) (Cells.rawType c) kx.2 = .ok (c', none) := by
  unfold ConvertsAll
  cases hc : cloneRow env ti with
  | ok row =>
    simp only
    cases hl : ofJVMembers env (Json.unmarshal line).1 with
    | ok l =>
      have hk : (l.map Prod.fst).Nodup := by
        rw [Order.ofJVMembers_keys env _ l hl]; exact hnd
      simp only [Outcome.ok.injEq, exists_and_left, exists_eq_left']
      rw [convertsFrom_nodup env l row hk]
      constructor
      · intro h kx hkx
        exact (memberImport_ok_iff env row kx.1 kx.2).1 (h kx hkx)
      · intro h kx hkx
        exact (memberImport_ok_iff env row kx.1 kx.2).2 (h kx hkx)
    | err e => simp
    | panic s => simp
  | err e => simp
  | panic s => simp

/-! #### Every line, repeated names included: descriptors never change -/

/-- The (format, raw type) of the cell a row holds under a name. -/
def descAt (o : Row) (k : Bytes) : Option (Format × Ty) :=
  (lookup o k).map fun c => (Cells.format c, Cells.rawType c)

/-- `Import` of `x` on a cell of format `f` and raw type `ty` returns no error (the cell's raw
    value plays no part). -/
def ImportsOK (env : Env) (f : Format) (ty : Ty) (x : Dyn) : Prop :=
  ∃ c', importCell env f ty x = .ok (c', none)

theorem memberImport_desc (env : Env) (o : Row) (k : Bytes) (x : Dyn) :
    memberImport env o k x =
      match descAt o k with
      | some d => importCell env d.1 d.2 x
      | none => .ok (Cells.autoCell x, none) := by
  unfold memberImport descAt
  cases lookup o k <;> rfl

/-- Importing a value the decoder delivers never changes a column's format or raw type; a new
    name becomes an Auto column without raw type. -/
theorem descAt_step (env : Env) (o : Row) (k : Bytes) (x : Dyn) (c' : Val)
    (hx : LineLevel.JsonShape x) (hm : memberImport env o k x = .ok (c', none)) (k' : Bytes) :
    descAt (upsert o k c') k' =
      if k' = k then (match descAt o k with | some d => some d | none => some (.auto, .none))
      else descAt o k' := by
  by_cases hk : k' = k
  · subst hk
    simp only [if_true]
    unfold descAt
    rw [LineTime.lookup_upsert_self]
    unfold memberImport at hm
    cases hl : lookup o k' with
    | none =>
      rw [hl] at hm
      simp only [Outcome.ok.injEq, Prod.mk.injEq, and_true] at hm
      subst hm
      rfl
    | some c =>
      rw [hl] at hm
      simp only at hm
      obtain ⟨raw, rfl⟩ := LineTime.importCell_shape env _ _ x c' none hx hm
      rfl
  · simp only [hk, if_false]
    unfold descAt
    rw [LineTime.lookup_upsert_ne _ _ (fun e => hk e.symm)]

/-- The condition a member `(k, x)` puts on the line, `pre` being the members before it: under a
    declared name the import into the column's descriptor returns no error; under an undeclared
    name nothing the first time, and the import into an Auto cell without raw type afterwards. -/
def MemberOK (env : Env) (o : Row) (pre : List (Bytes × Dyn)) (k : Bytes) (x : Dyn) : Prop :=
  match descAt o k with
  | some d => ImportsOK env d.1 d.2 x
  | none => k ∈ pre.map Prod.fst → ImportsOK env .auto .none x

theorem memberOK_step (env : Env) (o : Row) (k0 : Bytes) (x0 : Dyn) (c' : Val)
    (hx : LineLevel.JsonShape x0) (hm : memberImport env o k0 x0 = .ok (c', none))
    (pre : List (Bytes × Dyn)) (k : Bytes) (x : Dyn) :
    MemberOK env (upsert o k0 c') pre k x ↔ MemberOK env o ((k0, x0) :: pre) k x := by
  unfold MemberOK
  rw [descAt_step env o k0 x0 c' hx hm k]
  by_cases hk : k = k0
  · subst hk
    simp only [if_true]
    cases descAt o k with
    | none => simp
    | some d => simp
  · simp only [hk, if_false]
    cases descAt o k with
    | none => simp [hk]
    | some d => simp

/-- **`convertsFrom`, member by member, repeated names included.**  Because a value the decoder
    delivers never changes a descriptor, the fold is a conjunction of conditions on the row as
    `CloneRow` left it. -/
theorem convertsFrom_iff (env : Env) (l : List (Bytes × Dyn)) :
    ∀ o, (∀ kx ∈ l, LineLevel.JsonShape kx.2) →
      (convertsFrom env o l = true ↔
        ∀ pre k x post, l = pre ++ (k, x) :: post → MemberOK env o pre k x) := by
  induction l with
  | nil => intro o _; simp [convertsFrom]
  | cons kx l ih =>
    intro o hl
    obtain ⟨k0, x0⟩ := kx
    have hx0 := hl (k0, x0) List.mem_cons_self
    have hl' : ∀ kx ∈ l, LineLevel.JsonShape kx.2 := fun kx h => hl kx (List.mem_cons_of_mem _ h)
    have hsplit : (∀ pre k x post, (k0, x0) :: l = pre ++ (k, x) :: post → MemberOK env o pre k x) ↔
        MemberOK env o [] k0 x0 ∧
          ∀ pre k x post, l = pre ++ (k, x) :: post → MemberOK env o ((k0, x0) :: pre) k x := by
      constructor
      · intro h
        exact ⟨h [] k0 x0 l rfl, fun pre k x post e => h ((k0, x0) :: pre) k x post (by rw [e]; rfl)⟩
      · rintro ⟨h0, h1⟩ pre k x post e
        cases pre with
        | nil =>
          simp only [List.nil_append, List.cons.injEq, Prod.mk.injEq] at e
          obtain ⟨⟨rfl, rfl⟩, rfl⟩ := e
          exact h0
        | cons p pre =>
          simp only [List.cons_append, List.cons.injEq] at e
          obtain ⟨rfl, rfl⟩ := e
          exact h1 pre k x post rfl
    have h0 : MemberOK env o [] k0 x0 ↔ ∃ c', memberImport env o k0 x0 = .ok (c', none) := by
      unfold MemberOK
      rw [memberImport_desc]
      cases descAt o k0 with
      | none => simp
      | some d => rfl
    rw [hsplit, h0]
    simp only [convertsFrom]
    cases hm : memberImport env o k0 x0 with
    | ok ce =>
      obtain ⟨c', e⟩ := ce
      cases e with
      | none =>
        simp only [Outcome.ok.injEq, Prod.mk.injEq, and_true, exists_eq', true_and]
        rw [ih _ hl']
        constructor
        · intro h pre k x post e
          exact (memberOK_step env o k0 x0 c' hx0 hm pre k x).1 (h pre k x post e)
        · intro h pre k x post e
          exact (memberOK_step env o k0 x0 c' hx0 hm pre k x).2 (h pre k x post e)
      | some e => simp
    | err e => simp
    | panic s => simp


/-- **Target 1, characterisation for every line** (repeated names included). -/
theorem convertsAll_iff (env : Env) (ti : Tmpl) (line : Bytes) :
    ConvertsAll env ti line = true ↔
      ∃ row l, cloneRow env ti = .ok row ∧ ofJVMembers env (Json.unmarshal line).1 = .ok l ∧
        ∀ pre k x post, l = pre ++ (k, x) :: post → MemberOK env row pre k x := by
  unfold ConvertsAll
  cases hc : cloneRow env ti with
  | ok row =>
    simp only
    cases hl : ofJVMembers env (Json.unmarshal line).1 with
    | ok l =>
      simp only [Outcome.ok.injEq, exists_and_left, exists_eq_left']
      exact convertsFrom_iff env l row (LineLevel.ofJVMembers_shape env _ l hl)
    | err e => simp
    | panic s => simp
  | err e => simp
  | panic s => simp

/-! ### 4. Target 2: every other line is an error, and which one -/

theorem getRow_error_iff (env : Env) (ti : Tmpl) (line : Bytes) (e : ErrClass) :
    (∃ r, getRow env ti line = .ok (r, some e)) ↔ lineVerdict env ti line = .ok (some e) := by
  rw [← errOf_ok_iff, getRow_verdict]

theorem getRow_err_iff (env : Env) (ti : Tmpl) (line : Bytes) (e : ErrClass) :
    getRow env ti line = .err e ↔ lineVerdict env ti line = .err e := by
  rw [← errOf_err_iff, getRow_verdict]

theorem getRow_panic_iff (env : Env) (ti : Tmpl) (line : Bytes) (s : String) :
    getRow env ti line = .panic s ↔ lineVerdict env ti line = .panic s := by
  rw [← errOf_panic_iff, getRow_verdict]

/-- `GetRow` in terms of the first failing import, the template's row and the delivered values
    being given. -/
theorem getRow_by_firstError (env : Env) (ti : Tmpl) (line : Bytes) (row : Row)
    (l : List (Bytes × Dyn)) (hc : cloneRow env ti = .ok row)
    (hl : ofJVMembers env (Json.unmarshal line).1 = .ok l) :
    match firstError env row l with
    | .ok none => ∃ r, getRow env ti line = .ok (r, if Json.accepts line then none else some .syntax)
    | .ok (some e) => ∃ r, getRow env ti line = .ok (r, some e)
    | .err e => getRow env ti line = .err e
    | .panic s => getRow env ti line = .panic s := by
  have hv := getRow_verdict env ti line
  unfold lineVerdict at hv
  rw [hc] at hv
  simp only [hl] at hv
  cases hf : firstError env row l with
  | ok e =>
    cases e with
    | none => rw [hf] at hv; exact (errOf_ok_iff _ _).1 hv
    | some e => rw [hf] at hv; exact (errOf_ok_iff _ _).1 hv
  | err e => rw [hf] at hv; exact (errOf_err_iff _ _).1 hv
  | panic s => rw [hf] at hv; exact (errOf_panic_iff _ _).1 hv

/-- **Target 2 (a).**  A line that is not exactly one JSON object is never accepted: when the
    members delivered before the syntax error all convert, `GetRow` reports `.syntax`; when one of
    them fails to import first, the class of that import's error (the decoder had not reached the
    syntax error yet); otherwise the import itself did not finish. -/
theorem getRow_not_object_text (env : Env) (ti : Tmpl) (line : Bytes) (row : Row)
    (l : List (Bytes × Dyn)) (hc : cloneRow env ti = .ok row)
    (hl : ofJVMembers env (Json.unmarshal line).1 = .ok l) (hn : ¬ Grammar.IsObjectText line) :
    match firstError env row l with
    | .ok none => ∃ r, getRow env ti line = .ok (r, some .syntax)
    | .ok (some e) => ∃ r, getRow env ti line = .ok (r, some e)
    | .err e => getRow env ti line = .err e
    | .panic s => getRow env ti line = .panic s := by
  have h := getRow_by_firstError env ti line row l hc hl
  have ha : Json.accepts line = false := (JsonAcc.rejects_iff line).2 hn
  rw [ha] at h
  exact h

/-- … in particular there is no accepted row, whatever the environment and the template. -/
theorem getRow_not_object_text_rejected (env : Env) (ti : Tmpl) (line : Bytes)
    (hn : ¬ Grammar.IsObjectText line) (r : Row) : getRow env ti line ≠ .ok (r, none) := by
  intro h
  exact hn ((getRow_accepts_iff env ti line).1 ⟨r, h⟩).1

/-- **Target 2 (b).**  One JSON object whose members do not all convert: the error of the line is
    the class of the first failing import (or the import did not finish). -/
theorem getRow_not_converting (env : Env) (ti : Tmpl) (line : Bytes) (row : Row)
    (l : List (Bytes × Dyn)) (hc : cloneRow env ti = .ok row)
    (hl : ofJVMembers env (Json.unmarshal line).1 = .ok l)
    (hconv : convertsFrom env row l = false) :
    match firstError env row l with
    | .ok none => False
    | .ok (some e) => ∃ r, getRow env ti line = .ok (r, some e)
    | .err e => getRow env ti line = .err e
    | .panic s => getRow env ti line = .panic s := by
  have h := getRow_by_firstError env ti line row l hc hl
  cases hf : firstError env row l with
  | ok e =>
    cases e with
    | none =>
      rw [(convertsFrom_iff_firstError env l row).2 hf] at hconv
      cases hconv
    | some e => rw [hf] at h; exact h
  | err e => rw [hf] at h; exact h
  | panic s => rw [hf] at h; exact h

/-- `firstError` is what its name says: `some e` exactly when the list of delivered members splits
    into members that `parseobject` stored without error, then a member whose import into the row
    AS IT IS THEN fails with `e`. -/
theorem firstError_some_iff (env : Env) (e : ErrClass) (l : List (Bytes × Dyn)) :
    ∀ o, CellRow o →
      (firstError env o l = .ok (some e) ↔
        ∃ pre k x post o' c, l = pre ++ (k, x) :: post ∧ parseMembers env o pre = .ok (o', none) ∧
          memberImport env o' k x = .ok (c, some e)) := by
  induction l with
  | nil =>
    intro o _
    simp [firstError]
  | cons kx l ih =>
    intro o ho
    obtain ⟨k0, x0⟩ := kx
    simp only [firstError]
    cases hm : memberImport env o k0 x0 with
    | ok ce =>
      obtain ⟨c0, e0⟩ := ce
      cases e0 with
      | none =>
        simp only
        obtain ⟨raw, f, ty, rfl⟩ := memberImport_cell env o k0 x0 c0 none hm
        rw [ih _ (cellRow_upsert ho _ _ _ _)]
        constructor
        · rintro ⟨pre, k, x, post, o', c, rfl, hp, hi⟩
          refine ⟨(k0, x0) :: pre, k, x, post, o', c, rfl, ?_, hi⟩
          simp only [parseMembers, parseMember_eq env o ho, hm]
          exact hp
        · rintro ⟨pre, k, x, post, o', c, hsplit, hp, hi⟩
          cases pre with
          | nil =>
            simp only [List.nil_append, List.cons.injEq, Prod.mk.injEq] at hsplit
            obtain ⟨⟨rfl, rfl⟩, rfl⟩ := hsplit
            simp only [parseMembers, Outcome.ok.injEq, Prod.mk.injEq, and_true] at hp
            subst hp
            rw [hm] at hi
            cases hi
          | cons p pre =>
            simp only [List.cons_append, List.cons.injEq] at hsplit
            obtain ⟨rfl, rfl⟩ := hsplit
            simp only [parseMembers, parseMember_eq env o ho, hm] at hp
            exact ⟨pre, k, x, post, o', c, rfl, hp, hi⟩
      | some e0 =>
        simp only [Outcome.ok.injEq, Option.some.injEq]
        constructor
        · rintro rfl
          exact ⟨[], k0, x0, l, o, c0, rfl, rfl, hm⟩
        · rintro ⟨pre, k, x, post, o', c, hsplit, hp, hi⟩
          cases pre with
          | nil =>
            simp only [List.nil_append, List.cons.injEq, Prod.mk.injEq] at hsplit
            obtain ⟨⟨rfl, rfl⟩, rfl⟩ := hsplit
            simp only [parseMembers, Outcome.ok.injEq, Prod.mk.injEq, and_true] at hp
            subst hp
            rw [hm] at hi
            simp only [Outcome.ok.injEq, Prod.mk.injEq, Option.some.injEq] at hi
            exact hi.2
          | cons p pre =>
            simp only [List.cons_append, List.cons.injEq] at hsplit
            obtain ⟨rfl, rfl⟩ := hsplit
            simp only [parseMembers, parseMember_eq env o ho, hm] at hp
            cases hp
    | err e' =>
      simp only [false_iff, reduceCtorEq]
      rintro ⟨pre, k, x, post, o', c, hsplit, hp, hi⟩
      cases pre with
      | nil =>
        simp only [List.nil_append, List.cons.injEq, Prod.mk.injEq] at hsplit
        obtain ⟨⟨rfl, rfl⟩, rfl⟩ := hsplit
        simp only [parseMembers, Outcome.ok.injEq, Prod.mk.injEq, and_true] at hp
        subst hp
        rw [hm] at hi
        cases hi
      | cons p pre =>
        simp only [List.cons_append, List.cons.injEq] at hsplit
        obtain ⟨rfl, rfl⟩ := hsplit
        simp only [parseMembers, parseMember_eq env o ho, hm] at hp
        cases hp
    | panic s' =>
      simp only [false_iff, reduceCtorEq]
      rintro ⟨pre, k, x, post, o', c, hsplit, hp, hi⟩
      cases pre with
      | nil =>
        simp only [List.nil_append, List.cons.injEq, Prod.mk.injEq] at hsplit
        obtain ⟨⟨rfl, rfl⟩, rfl⟩ := hsplit
        simp only [parseMembers, Outcome.ok.injEq, Prod.mk.injEq, and_true] at hp
        subst hp
        rw [hm] at hi
        cases hi
      | cons p pre =>
        simp only [List.cons_append, List.cons.injEq] at hsplit
        obtain ⟨rfl, rfl⟩ := hsplit
        simp only [parseMembers, parseMember_eq env o ho, hm] at hp
        cases hp

/-! ### 5. The only `.err` is the EXT marker (any environment) -/

theorem importCell_err (env : Env) (f : Format) (ty : Ty) (x : Dyn) (e : ErrClass)
    (h : importCell env f ty x = .err e) : e = .ext := by
  have hbf : ∀ y, importByFormat env f ty y = .err e → e = .ext := by
    intro y hy
    unfold importByFormat at hy
    simp only at hy
    split at hy
    · cases hy
    · cases hy; rfl
    · cases hy
    · cases hy
  unfold importCell at h
  split at h
  · cases h
  · split at h
    · cases h
    · exact hbf _ h
  · cases h
  · exact hbf _ h

theorem memberImport_err (env : Env) (o : Row) (k : Bytes) (x : Dyn) (e : ErrClass)
    (h : memberImport env o k x = .err e) : e = .ext := by
  unfold memberImport at h
  split at h
  · exact importCell_err env _ _ x e h
  · cases h

theorem firstError_err (env : Env) (e : ErrClass) (l : List (Bytes × Dyn)) :
    ∀ o, firstError env o l = .err e → e = .ext := by
  induction l with
  | nil => intro o h; cases h
  | cons kx l ih =>
    intro o h
    obtain ⟨k, x⟩ := kx
    simp only [firstError] at h
    split at h
    · exact ih _ h
    · cases h
    · rename_i e' hm
      cases h
      exact memberImport_err env o k x e hm
    · cases h

theorem newValue_err (env : Env) (v : Dyn) (f : Format) (ty : Ty) (e : ErrClass)
    (h : newValue env v f ty = .err e) : e = .ext := by
  unfold newValue at h
  split at h
  · cases h
  · cases h; rfl
  · cases h
  · cases h

theorem cloneInto_err (env : Env) (e : ErrClass) (r : Row) :
    ∀ acc, cloneInto env acc r = .err e → e = .ext := by
  induction r with
  | nil => intro acc h; cases h
  | cons kv rest ih =>
    intro acc h
    obtain ⟨k, v⟩ := kv
    simp only [cloneInto] at h
    split at h
    · exact ih _ h
    · rename_i e' hc
      cases h
      exact newValue_err env _ _ _ e hc
    · cases h

theorem cloneRow_err (env : Env) (t : Row) (e : ErrClass) (h : cloneRow env t = .err e) :
    e = .ext := cloneInto_err env e t [] h

mutual
  theorem ofJV_err (env : Env) (e : ErrClass) : ∀ v : JV, ofJV env v = .err e → e = .ext
    | .null => by rw [ofJV.eq_def]; intro h; cases h
    | .bool b => by rw [ofJV.eq_def]; intro h; cases h
    | .num l => by rw [ofJV.eq_def]; intro h; cases h
    | .str b => by rw [ofJV.eq_def]; intro h; cases h
    | .arr xs => by
      intro h
      rw [ofJV.eq_def] at h
      simp only at h
      split at h
      · cases h
      · rename_i e' h'
        cases h
        exact ofJVList_err env e xs h'
      · cases h
    | .obj ms => by
      intro h
      rw [ofJV.eq_def] at h
      simp only at h
      split at h
      · rename_i l _
        split at h
        · cases h
        · rename_i e' h'
          cases h
          have := parseMembers_errOf env l [] cellRow_nil
          rw [h'] at this
          exact firstError_err env e l [] this.symm
        · cases h
      · rename_i e' h'
        cases h
        exact ofJVMembers_err env e ms h'
      · cases h
  theorem ofJVList_err (env : Env) (e : ErrClass) : ∀ xs : JVList, ofJVList env xs = .err e → e = .ext
    | .nil => by rw [ofJVList.eq_def]; intro h; cases h
    | .cons x xs => by
      intro h
      rw [ofJVList.eq_def] at h
      simp only at h
      split at h
      · split at h
        · cases h
        · rename_i e' h'
          cases h
          exact ofJVList_err env e xs h'
        · cases h
      · rename_i e' h'
        cases h
        exact ofJV_err env e x h'
      · cases h
  theorem ofJVMembers_err (env : Env) (e : ErrClass) :
      ∀ ms : JVMembers, ofJVMembers env ms = .err e → e = .ext
    | .nil => by rw [ofJVMembers.eq_def]; intro h; cases h
    | .cons k v ms => by
      intro h
      rw [ofJVMembers.eq_def] at h
      simp only at h
      split at h
      · split at h
        · cases h
        · rename_i e' h'
          cases h
          exact ofJVMembers_err env e ms h'
        · cases h
      · rename_i e' h'
        cases h
        exact ofJV_err env e v h'
      · cases h
end

theorem lineVerdict_err (env : Env) (ti : Tmpl) (line : Bytes) (e : ErrClass)
    (h : lineVerdict env ti line = .err e) : e = .ext := by
  unfold lineVerdict at h
  split at h
  · split at h
    · split at h
      · cases h
      · cases h
      · rename_i e' hf
        cases h
        exact firstError_err env e _ _ hf
      · cases h
    · rename_i e' hl
      cases h
      exact ofJVMembers_err env e _ hl
    · cases h
  · rename_i e' hc
    cases h
    exact cloneRow_err env ti e hc
  · cases h

/-- When `GetRow` ends with `.err`, it is the model's EXT marker (a standard-library answer the
    environment does not supply), never an error of the code: those are all `.ok (_, some e)`. -/
theorem getRow_err (env : Env) (ti : Tmpl) (line : Bytes) (e : ErrClass)
    (h : getRow env ti line = .err e) : e = .ext :=
  lineVerdict_err env ti line e ((getRow_err_iff env ti line e).1 h)

/-! ### 6. The regenerated tables: values are always built, prototypes always clone -/

/-- Every cell is an Auto cell without raw type (the rows `handledelim` builds for nested objects). -/
def AutoRow (o : Row) : Prop := ∀ k c, lookup o k = some c → ∃ raw, c = Val.cell raw .auto .none

theorem AutoRow.cellRow {o : Row} (h : AutoRow o) : CellRow o := by
  intro k c hc
  obtain ⟨raw, rfl⟩ := h k c hc
  exact ⟨_, _, _, rfl⟩

theorem autoRow_nil : AutoRow [] := by
  intro k c h
  simp [lookup, OMap.lookup] at h

theorem autoRow_upsert {o : Row} (h : AutoRow o) (k : Bytes) (raw : Dyn) :
    AutoRow (upsert o k (.cell raw .auto .none)) := by
  intro k' c hc
  by_cases hk : k = k'
  · subst hk
    rw [LineTime.lookup_upsert_self] at hc
    cases hc
    exact ⟨_, rfl⟩
  · rw [LineTime.lookup_upsert_ne _ _ hk] at hc
    exact h k' c hc

theorem gen_importCell_auto (ext : Ext) (x : Dyn) (hx : LineLevel.JsonShape x) :
    importCell ⟨genTables, ext⟩ .auto .none x = .ok (.cell x .auto .none, none) := by
  cases x with
  | val v =>
    cases v with
    | cell r f t => exact absurd hx (by simp [LineLevel.JsonShape])
    | row ms => simp [importCell]
  | nil => simp [importCell]
  | _ => simp [importCell, importByFormat, gen_castTo_none]

theorem gen_memberImport_auto (ext : Ext) (o : Row) (ho : AutoRow o) (k : Bytes) (x : Dyn)
    (hx : LineLevel.JsonShape x) :
    ∃ raw, memberImport ⟨genTables, ext⟩ o k x = .ok (.cell raw .auto .none, none) := by
  unfold memberImport
  cases hl : lookup o k with
  | none => exact ⟨x, rfl⟩
  | some c =>
    obtain ⟨raw, rfl⟩ := ho k c hl
    exact ⟨x, gen_importCell_auto ext x hx⟩

/-- Inside a nested object no import ever fails over the regenerated tables: the error that
    `ofJV` drops for a nested `parseobject` is always `none`. -/
theorem gen_firstError_auto (ext : Ext) (l : List (Bytes × Dyn)) :
    ∀ o, AutoRow o → (∀ kx ∈ l, LineLevel.JsonShape kx.2) →
      firstError ⟨genTables, ext⟩ o l = .ok none := by
  induction l with
  | nil => intro o _ _; rfl
  | cons kx l ih =>
    intro o ho hl
    obtain ⟨k, x⟩ := kx
    obtain ⟨raw, hm⟩ := gen_memberImport_auto ext o ho k x (hl (k, x) List.mem_cons_self)
    simp only [firstError, hm]
    exact ih _ (autoRow_upsert ho k raw) (fun kx hkx => hl kx (List.mem_cons_of_mem _ hkx))

theorem gen_parseMembers_nested (ext : Ext) (l : List (Bytes × Dyn))
    (hl : ∀ kx ∈ l, LineLevel.JsonShape kx.2) :
    ∃ o, parseMembers ⟨genTables, ext⟩ [] l = .ok (o, none) := by
  have h := parseMembers_errOf ⟨genTables, ext⟩ l [] cellRow_nil
  rw [gen_firstError_auto ext l [] autoRow_nil hl] at h
  exact (errOf_ok_iff _ _).1 h

mutual
  theorem gen_ofJV_ok (ext : Ext) : ∀ v : JV, ∃ d, ofJV ⟨genTables, ext⟩ v = .ok d
    | .null => ⟨_, by rw [ofJV]⟩
    | .bool b => ⟨_, by rw [ofJV]⟩
    | .num l => ⟨_, by rw [ofJV]⟩
    | .str b => ⟨_, by rw [ofJV]⟩
    | .arr xs => by
      obtain ⟨l, hl⟩ := gen_ofJVList_ok ext xs
      exact ⟨_, by rw [ofJV, hl]⟩
    | .obj ms => by
      obtain ⟨l, hl⟩ := gen_ofJVMembers_ok ext ms
      obtain ⟨o, ho⟩ := gen_parseMembers_nested ext l (LineLevel.ofJVMembers_shape _ ms l hl)
      exact ⟨.val (.row (Members.ofList o)), by rw [ofJV, hl]; simp only [ho]⟩
  theorem gen_ofJVList_ok (ext : Ext) : ∀ xs : JVList, ∃ l, ofJVList ⟨genTables, ext⟩ xs = .ok l
    | .nil => ⟨_, by rw [ofJVList]⟩
    | .cons x xs => by
      obtain ⟨d, hd⟩ := gen_ofJV_ok ext x
      obtain ⟨l, hl⟩ := gen_ofJVList_ok ext xs
      exact ⟨d :: l, by rw [ofJVList, hd]; simp only [hl]⟩
  theorem gen_ofJVMembers_ok (ext : Ext) :
      ∀ ms : JVMembers, ∃ l, ofJVMembers ⟨genTables, ext⟩ ms = .ok l
    | .nil => ⟨_, by rw [ofJVMembers]⟩
    | .cons k v ms => by
      obtain ⟨d, hd⟩ := gen_ofJV_ok ext v
      obtain ⟨l, hl⟩ := gen_ofJVMembers_ok ext ms
      exact ⟨(k, d) :: l, by rw [ofJVMembers, hd]; simp only [hl]⟩
end

/-- The value `handledelim` builds for a parsed value over the regenerated tables (total). -/
def dynOf (ext : Ext) (v : JV) : Dyn :=
  match ofJV ⟨genTables, ext⟩ v with
  | .ok d => d
  | .err _ => .nil
  | .panic _ => .nil

theorem gen_ofJV (ext : Ext) (v : JV) : ofJV ⟨genTables, ext⟩ v = .ok (dynOf ext v) := by
  obtain ⟨d, hd⟩ := gen_ofJV_ok ext v
  simp only [dynOf, hd]

/-- The members the reader delivers, as the values `parseobject` imports (total). -/
def dynMembers (ext : Ext) (ms : JVMembers) : List (Bytes × Dyn) :=
  ms.toList.map fun kv => (kv.1, dynOf ext kv.2)

theorem gen_ofJVMembers (ext : Ext) : ∀ ms : JVMembers,
    ofJVMembers ⟨genTables, ext⟩ ms = .ok (dynMembers ext ms)
  | .nil => by rw [ofJVMembers]; rfl
  | .cons k v ms => by
    rw [ofJVMembers, gen_ofJV ext v]
    simp only [gen_ofJVMembers ext ms]
    rfl

/-- A template made of cell prototypes: every column is `With(name, format, rawtype)`. -/
def Proto (t : Tmpl) : Prop := ∀ kc ∈ t, ∃ f ty, kc.2 = Val.cell .nil f ty

theorem gen_castTo_nil (ext : Ext) (ty : Ty) :
    castTo genTables ext ty .nil = .ok .nil ∨ castTo genTables ext ty .nil = .err .cast := by
  cases ty with
  | int t =>
    left
    cases t <;>
    simp [castTo, callNamed, genTables, Gen.dispatchTo, Gen.casters, findClause, typeOf, evalBranch,
      evalE]
  | none => left; exact gen_castTo_none ext _
  | _ =>
    simp [castTo, callNamed, genTables, Gen.dispatchTo, Gen.dispatchToDefault, Gen.casters,
      findClause, typeOf, evalBranch, evalE, failWith, Gen.sentinels, wrapsRoot]

theorem gen_newValue_nil (ext : Ext) (f : Format) (ty : Ty) :
    newValue ⟨genTables, ext⟩ .nil f ty = .ok (.cell .nil f ty) := by
  unfold newValue
  rcases gen_castTo_nil ext ty with h | h <;> simp only [h]

theorem gen_cloneInto_proto_ok (ext : Ext) (t : Tmpl) :
    ∀ acc, Proto t → ∃ row, cloneInto ⟨genTables, ext⟩ acc t = .ok row := by
  induction t with
  | nil => intro acc _; exact ⟨acc, rfl⟩
  | cons kc t ih =>
    intro acc hp
    obtain ⟨k, c⟩ := kc
    obtain ⟨f, ty, hc⟩ := hp (k, c) List.mem_cons_self
    simp only at hc
    subst hc
    simp only [cloneInto, cloneValue, Cells.raw, Cells.format, Cells.rawType, gen_newValue_nil]
    exact ih _ (fun kc h => hp kc (List.mem_cons_of_mem _ h))

/-- Over the regenerated tables `CreateRowEmpty` of a template of cell prototypes always
    succeeds: the hypothesis of the theorems above is automatic. -/
theorem gen_cloneRow_proto_ok (ext : Ext) (t : Tmpl) (hp : Proto t) :
    ∃ row, cloneRow ⟨genTables, ext⟩ t = .ok row :=
  gen_cloneInto_proto_ok ext t [] hp

theorem keys_append (a b : Row) : OMap.keys (a ++ b) = OMap.keys a ++ OMap.keys b := by
  simp [OMap.keys]

theorem gen_cloneInto_proto (ext : Ext) : ∀ (rest acc : Row),
    (∀ k ∈ OMap.keys rest, k ∉ OMap.keys acc) → (OMap.keys rest).Nodup → Proto rest →
    cloneInto ⟨genTables, ext⟩ acc rest = .ok (acc ++ rest)
  | [], acc, _, _, _ => by simp [cloneInto]
  | (k, c) :: rest, acc, hdis, hnd, hp => by
    rw [Order.keys_cons, List.nodup_cons] at hnd
    obtain ⟨f, ty, hc⟩ := hp (k, c) List.mem_cons_self
    simp only at hc
    subst hc
    have h2 : k ∉ OMap.keys acc := hdis k (by rw [Order.keys_cons]; exact List.mem_cons_self)
    simp only [cloneInto, cloneValue, Cells.raw, Cells.format, Cells.rawType, gen_newValue_nil,
      upsert, OMap.upsert_of_not_mem acc k _ h2]
    rw [gen_cloneInto_proto ext rest (acc ++ [(k, Val.cell .nil f ty)]) ?_ hnd.2
      (fun kc h => hp kc (List.mem_cons_of_mem _ h))]
    · simp
    · intro k' hk'
      rw [keys_append, List.mem_append, not_or]
      refine ⟨hdis k' (by rw [Order.keys_cons]; exact List.mem_cons_of_mem _ hk'), ?_⟩
      simp only [OMap.keys, List.map_cons, List.map_nil, List.mem_singleton]
      intro e
      exact hnd.1 (e ▸ hk')

/-- … and with distinct names it is the template's own list of nil cells. -/
theorem gen_cloneRow_proto (ext : Ext) (t : Tmpl) (hnd : (OMap.keys t).Nodup) (hp : Proto t) :
    cloneRow ⟨genTables, ext⟩ t = .ok t := by
  have := gen_cloneInto_proto ext t [] (fun _ _ h => by cases h) hnd hp
  simpa [cloneRow] using this

theorem mem_upsert {o : Row} {k : Bytes} {c : Val} {kv : Bytes × Val}
    (h : kv ∈ OMap.upsert o k c) : kv ∈ o ∨ kv = (k, c) := by
  induction o with
  | nil =>
    simp only [OMap.upsert, List.mem_singleton] at h
    exact .inr h
  | cons a o ih =>
    obtain ⟨k', c'⟩ := a
    simp only [OMap.upsert] at h
    split at h
    · rename_i hk
      rcases List.mem_cons.1 h with h | h
      · exact .inr (by rw [h, hk])
      · exact .inl (List.mem_cons_of_mem _ h)
    · rcases List.mem_cons.1 h with h | h
      · exact .inl (h ▸ List.mem_cons_self)
      · rcases ih h with h | h
        · exact .inl (List.mem_cons_of_mem _ h)
        · exact .inr h

theorem proto_nil : Proto [] := fun _ h => by cases h

/-- `With(name, format, rawtype)` keeps a template a template of cell prototypes … -/
theorem proto_withCol {t : Tmpl} (h : Proto t) (k : Bytes) (f : Format) (ty : Ty) :
    Proto (withCol t k f ty) := by
  intro kc hkc
  rcases mem_upsert hkc with h' | h'
  · exact h kc h'
  · exact ⟨f, ty, by rw [h']⟩

/-- … with distinct names. -/
theorem nodup_withCol {t : Tmpl} (h : (OMap.keys t).Nodup) (k : Bytes) (f : Format) (ty : Ty) :
    (OMap.keys (withCol t k f ty)).Nodup := by
  unfold withCol
  rw [Order.keys_upsert_appendNew]
  exact Order.nodup_appendNew _ h

/-! ### 7. Targets 1 and 2 over the regenerated tables -/

theorem mem_of_lookup {o : Row} {k : Bytes} {c : Val} (h : OMap.lookup o k = some c) :
    (k, c) ∈ o := by
  induction o with
  | nil => simp [OMap.lookup] at h
  | cons a o ih =>
    obtain ⟨k', c'⟩ := a
    simp only [OMap.lookup] at h
    split at h
    · rename_i hk
      cases h
      rw [hk]
      exact List.mem_cons_self
    · exact List.mem_cons_of_mem _ (ih h)

/-- Over the regenerated tables, for a template of cell prototypes with distinct names,
    `ConvertsAll` is the fold over the template itself and the (total) values of the members. -/
theorem gen_convertsAll_eq (ext : Ext) (ti : Tmpl) (line : Bytes) (hnd : (OMap.keys ti).Nodup)
    (hp : Proto ti) :
    ConvertsAll ⟨genTables, ext⟩ ti line =
      convertsFrom ⟨genTables, ext⟩ ti (dynMembers ext (Json.unmarshal line).1) := by
  unfold ConvertsAll
  rw [gen_cloneRow_proto ext ti hnd hp]
  simp only [gen_ofJVMembers]

/-- **Target 1 over the regenerated tables.** -/
theorem gen_getRow_accepts_iff (ext : Ext) (ti : Tmpl) (line : Bytes)
    (hnd : (OMap.keys ti).Nodup) (hp : Proto ti) :
    (∃ r, getRow ⟨genTables, ext⟩ ti line = .ok (r, none)) ↔
      Grammar.IsObjectText line ∧
        convertsFrom ⟨genTables, ext⟩ ti (dynMembers ext (Json.unmarshal line).1) = true := by
  rw [getRow_accepts_iff, gen_convertsAll_eq ext ti line hnd hp]

/-- **Target 1, characterisation over the regenerated tables.**  A line without repeated names
    converts iff for every member `(k, v)` of its tree and every declared column `k : (f, ty)`,
    `importCell f ty` of the member's value returns no error. -/
theorem gen_convertsAll_iff_of_nodup (ext : Ext) (ti : Tmpl) (line : Bytes)
    (hnd : (OMap.keys ti).Nodup) (hp : Proto ti) (hin : (Order.inputKeys line).Nodup) :
    ConvertsAll ⟨genTables, ext⟩ ti line = true ↔
      ∀ k v, (k, v) ∈ (Json.unmarshal line).1.toList →
        ∀ f ty, OMap.lookup ti k = some (.cell .nil f ty) →
          ∃ c', importCell ⟨genTables, ext⟩ f ty (dynOf ext v) = .ok (c', none) := by
  rw [convertsAll_iff_of_nodup _ ti line hin]
  simp only [gen_cloneRow_proto ext ti hnd hp, gen_ofJVMembers, Outcome.ok.injEq,
    exists_and_left, exists_eq_left']
  constructor
  · intro h k v hkv f ty hl
    have := h (k, dynOf ext v) (List.mem_map.2 ⟨(k, v), hkv, rfl⟩) _ hl
    simpa [Cells.format, Cells.rawType] using this
  · intro h kx hkx c hc
    obtain ⟨kv, hkv, rfl⟩ := List.mem_map.1 hkx
    obtain ⟨k, v⟩ := kv
    obtain ⟨f, ty, hcell⟩ := hp (k, c) (mem_of_lookup hc)
    simp only at hcell
    subst hcell
    exact h k v hkv f ty hc

theorem dynMembers_shape (ext : Ext) (ms : JVMembers) :
    ∀ kx ∈ dynMembers ext ms, LineLevel.JsonShape kx.2 :=
  LineLevel.ofJVMembers_shape _ ms _ (gen_ofJVMembers ext ms)

/-- **Target 1 over the regenerated tables, every line**: for a template of cell prototypes with
    distinct names, the line converts iff for every member `(k, v)` of its tree — repeated or not —
    and every declared column `k : (f, ty)`, `importCell f ty` of the member's value returns no
    error.  Members under undeclared names never fail. -/
theorem gen_convertsAll_iff (ext : Ext) (ti : Tmpl) (line : Bytes)
    (hnd : (OMap.keys ti).Nodup) (hp : Proto ti) :
    ConvertsAll ⟨genTables, ext⟩ ti line = true ↔
      ∀ k v, (k, v) ∈ (Json.unmarshal line).1.toList →
        ∀ f ty, OMap.lookup ti k = some (.cell .nil f ty) →
          ImportsOK ⟨genTables, ext⟩ f ty (dynOf ext v) := by
  rw [gen_convertsAll_eq ext ti line hnd hp,
    convertsFrom_iff _ _ ti (dynMembers_shape ext _)]
  constructor
  · intro h k v hkv f ty hl
    have hm : (k, dynOf ext v) ∈ dynMembers ext (Json.unmarshal line).1 :=
      List.mem_map.2 ⟨(k, v), hkv, rfl⟩
    obtain ⟨pre, post, hsplit⟩ := List.append_of_mem hm
    have := h pre k (dynOf ext v) post hsplit
    unfold MemberOK descAt at this
    rw [show lookup ti k = some (.cell .nil f ty) from hl] at this
    exact this
  · intro h pre k x post hsplit
    have hm : (k, x) ∈ dynMembers ext (Json.unmarshal line).1 := by
      rw [hsplit]; exact List.mem_append_right _ List.mem_cons_self
    unfold MemberOK descAt
    cases hl : lookup ti k with
    | none =>
      intro _
      exact ⟨_, gen_importCell_auto ext x (dynMembers_shape ext _ (k, x) hm)⟩
    | some c =>
      obtain ⟨kv, hkv, he⟩ := List.mem_map.1 hm
      obtain ⟨k', v⟩ := kv
      simp only [Prod.mk.injEq] at he
      obtain ⟨rfl, rfl⟩ := he
      obtain ⟨f, ty, hcell⟩ := hp (k', c) (mem_of_lookup hl)
      simp only at hcell
      subst hcell
      exact h k' v hkv f ty hl

/-- Over the regenerated tables `GetRow` has three outcomes: a row, an error of the line, or the
    EXT marker.  It never panics. -/
theorem gen_getRow_cases (ext : Ext) (ti : Tmpl) (line : Bytes) :
    (∃ r, getRow ⟨genTables, ext⟩ ti line = .ok (r, none)) ∨
      (∃ r e, getRow ⟨genTables, ext⟩ ti line = .ok (r, some e)) ∨
      getRow ⟨genTables, ext⟩ ti line = .err .ext := by
  cases h : getRow ⟨genTables, ext⟩ ti line with
  | ok re =>
    obtain ⟨r, e⟩ := re
    cases e with
    | none => exact .inl ⟨r, rfl⟩
    | some e => exact .inr (.inl ⟨r, e, rfl⟩)
  | err e =>
    rw [getRow_err _ ti line e h]
    exact .inr (.inr rfl)
  | panic s => exact absurd h (NoPanic.getRow_no_panic ext ti line s)

/-- **Target 2 over the regenerated tables**: everything else is rejected with an error (or the
    model lacks a standard-library answer). -/
theorem gen_getRow_rejected (ext : Ext) (ti : Tmpl) (line : Bytes)
    (h : ¬ (Grammar.IsObjectText line ∧ ConvertsAll ⟨genTables, ext⟩ ti line = true)) :
    (∃ r e, getRow ⟨genTables, ext⟩ ti line = .ok (r, some e)) ∨
      getRow ⟨genTables, ext⟩ ti line = .err .ext := by
  rcases gen_getRow_cases ext ti line with h1 | h1
  · exact absurd ((getRow_accepts_iff _ ti line).1 h1) h
  · exact h1

/-- Target 2 (a) over the regenerated tables, template of prototypes. -/
theorem gen_getRow_not_object_text (ext : Ext) (ti : Tmpl) (line : Bytes)
    (hnd : (OMap.keys ti).Nodup) (hp : Proto ti) (hn : ¬ Grammar.IsObjectText line) :
    match firstError ⟨genTables, ext⟩ ti (dynMembers ext (Json.unmarshal line).1) with
    | .ok none => ∃ r, getRow ⟨genTables, ext⟩ ti line = .ok (r, some .syntax)
    | .ok (some e) => ∃ r, getRow ⟨genTables, ext⟩ ti line = .ok (r, some e)
    | .err _ => getRow ⟨genTables, ext⟩ ti line = .err .ext
    | .panic _ => False := by
  have h := getRow_not_object_text ⟨genTables, ext⟩ ti line ti _
    (gen_cloneRow_proto ext ti hnd hp) (gen_ofJVMembers ext _) hn
  cases hf : firstError ⟨genTables, ext⟩ ti (dynMembers ext (Json.unmarshal line).1) with
  | ok e => cases e <;> (rw [hf] at h; exact h)
  | err e =>
    rw [hf] at h
    simp only at h ⊢
    rw [h, firstError_err _ e _ _ hf]
  | panic s =>
    rw [hf] at h
    exact absurd h (NoPanic.getRow_no_panic ext ti line s)

/-- Target 2 (b) over the regenerated tables, template of prototypes. -/
theorem gen_getRow_not_converting (ext : Ext) (ti : Tmpl) (line : Bytes)
    (hnd : (OMap.keys ti).Nodup) (hp : Proto ti)
    (hconv : ConvertsAll ⟨genTables, ext⟩ ti line = false) :
    match firstError ⟨genTables, ext⟩ ti (dynMembers ext (Json.unmarshal line).1) with
    | .ok none => False
    | .ok (some e) => ∃ r, getRow ⟨genTables, ext⟩ ti line = .ok (r, some e)
    | .err _ => getRow ⟨genTables, ext⟩ ti line = .err .ext
    | .panic _ => False := by
  rw [gen_convertsAll_eq ext ti line hnd hp] at hconv
  have h := getRow_not_converting ⟨genTables, ext⟩ ti line ti _
    (gen_cloneRow_proto ext ti hnd hp) (gen_ofJVMembers ext _) hconv
  cases hf : firstError ⟨genTables, ext⟩ ti (dynMembers ext (Json.unmarshal line).1) with
  | ok e => cases e <;> (rw [hf] at h; exact h)
  | err e =>
    rw [hf] at h
    simp only at h ⊢
    rw [h, firstError_err _ e _ _ hf]
  | panic s =>
    rw [hf] at h
    exact absurd h (NoPanic.getRow_no_panic ext ti line s)

theorem importFail_err {o : Outcome Dyn} {e : ErrClass} (h : importFail o = .err e) :
    e = .ext ∨ e = .unsupportedImport := by
  unfold importFail at h
  split at h
  · cases h; exact .inl rfl
  · cases h; exact .inr rfl
  · rename_i h1 h2
    subst h
    cases e with
    | ext => exact .inl rfl
    | _ => exact absurd rfl (h2 _)

/-- The classes a failing import can have over the regenerated tables. -/
theorem gen_importCell_class (ext : Ext) (f : Format) (ty : Ty) (x : Dyn) (c : Val) (e : ErrClass)
    (h : importCell ⟨genTables, ext⟩ f ty x = .ok (c, some e)) :
    e = .unsupportedImport ∨ e = .cast ∨ e = .unsupportedFormat := by
  have hfrom : ∀ dflt y, importFrom ⟨genTables, ext⟩ dflt y ty = .err e →
      e = .ext ∨ e = .unsupportedImport := by
    intro dflt y hy
    unfold importFrom at hy
    split at hy <;> exact importFail_err hy
  have hbin : ∀ y, importFromBinary ⟨genTables, ext⟩ y ty = .err e →
      e = .ext ∨ e = .unsupportedImport := by
    intro y hy
    unfold importFromBinary at hy
    split at hy
    · split at hy
      · cases hy; exact .inr rfl
      · split at hy
        · cases hy
        · exact importFail_err hy
    · cases hy
    · cases hy
    · exact importFail_err hy
  have hbf : ∀ y, importByFormat ⟨genTables, ext⟩ f ty y = .ok (c, some e) →
      e = .unsupportedImport ∨ e = .cast ∨ e = .unsupportedFormat := by
    intro y hy
    unfold importByFormat at hy
    simp only at hy
    split at hy
    · cases hy
    · cases hy
    · rename_i e' hne hres
      simp only [Outcome.ok.injEq, Prod.mk.injEq, Option.some.injEq] at hy
      obtain ⟨_, rfl⟩ := hy
      have hext : e' ≠ .ext := hne
      cases f with
      | auto | hidden =>
        simp only at hres
        rcases gen_castTo_err ext ty y e' hres with h' | h'
        · exact .inr (.inl h')
        · exact absurd h' hext
      | bad =>
        simp only at hres
        cases hres
        exact .inr (.inr rfl)
      | binary =>
        simp only at hres
        rcases hbin y hres with h' | h'
        · exact absurd h' hext
        · exact .inl h'
      | _ =>
        simp only at hres
        rcases hfrom _ y hres with h' | h'
        · exact absurd h' hext
        · exact .inl h'
    · cases hy
  unfold importCell at h
  split at h
  · cases h
  · split at h
    · cases h
    · exact hbf _ h
  · cases h
  · exact hbf _ h

/-! ### 8. Target 3: through the exporter -/

/-- The row `GetRow` hands to the exporter (`[]` when it hands none). -/
def importedRow (env : Env) (ti : Tmpl) (line : Bytes) : Row :=
  match getRow env ti line with
  | .ok (r, _) => r
  | .err _ => []
  | .panic _ => []

/-- Every visible cell of the row marshals (`Value.MarshalJSON` returns bytes). -/
def rendersRow (env : Env) (row' : Row) : Bool :=
  row'.all fun kv => Cells.format kv.2 == .hidden || (RowPrint.marshalVal env kv.2).isOk

/-- The exporter's `CreateRow(Row r)` builds a row, and every visible cell of THAT row marshals. -/
def RendersAll (env : Env) (to : Tmpl) (r : Row) : Bool :=
  match createRow env to (.val (.row (Members.ofList r))) with
  | .ok (row', none) => rendersRow env row'
  | .ok (_, some _) => false
  | .err _ => false
  | .panic _ => false

theorem marshalMembers_isOk (env : Env) (row' : Row) :
    (RowPrint.marshalMembers env (Members.ofList row')).isOk = rendersRow env row' := by
  induction row' with
  | nil => rw [Members.ofList, RowPrint.marshalMembers.eq_def]; rfl
  | cons kv row' ih =>
    obtain ⟨k, v⟩ := kv
    rw [Members.ofList, RowPrint.marshalMembers.eq_def]
    simp only [rendersRow, List.all_cons]
    rw [show (row'.all fun kv => Cells.format kv.2 == .hidden ||
      (RowPrint.marshalVal env kv.2).isOk) = rendersRow env row' from rfl, ← ih]
    by_cases hh : Cells.format v = .hidden
    · simp [hh]
    · have hb : (Cells.format v == Format.hidden) = false := by simpa using hh
      simp only [hb, Bool.false_eq_true, if_false, Bool.false_or]
      cases RowPrint.marshalVal env v with
      | ok b =>
        cases RowPrint.marshalMembers env (Members.ofList row') <;> simp [Outcome.isOk]
      | err e => simp [Outcome.isOk]
      | panic s => simp [Outcome.isOk]

theorem marshalRow_ok_iff (env : Env) (row' : Row) :
    (∃ b, RowPrint.marshalRow env (Members.ofList row') = .ok b) ↔ rendersRow env row' = true := by
  rw [← marshalMembers_isOk]
  unfold RowPrint.marshalRow
  rw [RowPrint.marshalVal.eq_def]
  simp only
  cases RowPrint.marshalMembers env (Members.ofList row') <;> simp [Outcome.isOk]

theorem importedRow_of_getRow {env : Env} {ti : Tmpl} {line : Bytes} {r : Row}
    {e : Option ErrClass} (h : getRow env ti line = .ok (r, e)) : importedRow env ti line = r := by
  simp only [importedRow, h]

/-- **Target 3.**  For every environment and templates: `jl` writes a line for an input line if
    and only if the line is exactly one JSON object, its members convert under the importer's
    template, and every visible cell of the row the exporter builds from the imported row
    marshals. -/
theorem jlLine_accepts_iff (env : Env) (ti to : Tmpl) (line : Bytes) :
    (∃ b, jlLine env ti to line = .ok (b, none)) ↔
      Grammar.IsObjectText line ∧ ConvertsAll env ti line = true ∧
        RendersAll env to (importedRow env ti line) = true := by
  constructor
  · rintro ⟨b, h⟩
    obtain ⟨r, row', body, hget, hcr, hb, _⟩ := Order.jlLine_ok env ti to line b h
    obtain ⟨h1, h2⟩ := (getRow_accepts_iff env ti line).1 ⟨r, hget⟩
    refine ⟨h1, h2, ?_⟩
    rw [importedRow_of_getRow hget]
    simp only [RendersAll, hcr]
    exact (marshalRow_ok_iff env row').1 ⟨body, hb⟩
  · rintro ⟨h1, h2, h3⟩
    obtain ⟨r, hget⟩ := (getRow_accepts_iff env ti line).2 ⟨h1, h2⟩
    rw [importedRow_of_getRow hget] at h3
    unfold RendersAll at h3
    split at h3
    · rename_i row' hcr
      obtain ⟨body, hb⟩ := (marshalRow_ok_iff env row').2 h3
      exact ⟨body ++ [0x0A], by simp only [jlLine, hget, exportLine, hcr, hb]⟩
    · cases h3
    · cases h3
    · cases h3

/-- What is written for an accepted line: the print of the exporter's row and one newline. -/
theorem jlLine_accepted_output (env : Env) (ti to : Tmpl) (line b : Bytes)
    (h : jlLine env ti to line = .ok (b, none)) :
    ∃ row' body, createRow env to (.val (.row (Members.ofList (importedRow env ti line)))) =
        .ok (row', none) ∧
      RowPrint.marshalRow env (Members.ofList row') = .ok body ∧ b = body ++ [0x0A] := by
  obtain ⟨r, row', body, hget, hcr, hb, he⟩ := Order.jlLine_ok env ti to line b h
  rw [importedRow_of_getRow hget]
  exact ⟨row', body, hcr, hb, he⟩

/-- **Target 3, the other cases: NOTHING is written.**  Whenever `jlLine` reports an error for
    the line, the bytes handed to the writer are empty. -/
theorem jlLine_error_writes_nothing (env : Env) (ti to : Tmpl) (line b : Bytes) (e : ErrClass)
    (h : jlLine env ti to line = .ok (b, some e)) : b = [] := by
  unfold jlLine at h
  split at h
  · cases h
  · cases h
  · simp only [Outcome.ok.injEq, Prod.mk.injEq] at h
    exact h.1.symm
  · unfold exportLine at h
    split at h
    · cases h
    · cases h
    · simp only [Outcome.ok.injEq, Prod.mk.injEq] at h
      exact h.1.symm
    · split at h
      · cases h
      · cases h
      · simp only [Outcome.ok.injEq, Prod.mk.injEq] at h
        exact h.1.symm
      · cases h

theorem fill_err (env : Env) (row : Row) (k : Bytes) (x : Dyn) (e : ErrClass)
    (h : fill env row k x = .err e) : e = .ext := by
  unfold fill at h
  split at h
  · split at h
    · cases h
    · rename_i e' hn
      cases h
      exact newValue_err env _ _ _ e hn
    · cases h
  · cases h

theorem fillPairs_err (env : Env) (e : ErrClass) (kvs : List (Bytes × Dyn)) :
    ∀ row, fillPairs env row kvs = .err e → e = .ext := by
  induction kvs with
  | nil => intro row h; cases h
  | cons kv kvs ih =>
    intro row h
    obtain ⟨k, x⟩ := kv
    simp only [fillPairs] at h
    split at h
    · exact ih _ h
    · exact fill_err env row k x e h

theorem createRow_row_err (env : Env) (to : Tmpl) (r : Row) (e : ErrClass)
    (h : createRow env to (.val (.row (Members.ofList r))) = .err e) : e = .ext := by
  unfold createRow at h
  split at h
  · rename_i e' hc
    cases h
    exact cloneRow_err env to e hc
  · cases h
  · simp only at h
    split at h
    · cases h
    · rename_i e' hf
      cases h
      exact fillPairs_err env e _ _ hf
    · cases h

/-- When `jlLine` ends with `.err`, it is the EXT marker. -/
theorem jlLine_err (env : Env) (ti to : Tmpl) (line : Bytes) (e : ErrClass)
    (h : jlLine env ti to line = .err e) : e = .ext := by
  unfold jlLine at h
  split at h
  · rename_i e' hg
    cases h
    exact getRow_err env ti line e hg
  · cases h
  · cases h
  · unfold exportLine at h
    split at h
    · rename_i e' hc
      cases h
      exact createRow_row_err env to _ e hc
    · cases h
    · cases h
    · split at h
      · cases h
      · cases h; rfl
      · cases h
      · cases h

/-- **Target 3 over the regenerated tables**: one line of output, or an error and no output, or
    the EXT marker (and no output); never a panic. -/
theorem gen_jlLine_cases (ext : Ext) (ti to : Tmpl) (line : Bytes) :
    (∃ body, jlLine ⟨genTables, ext⟩ ti to line = .ok (body ++ [0x0A], none)) ∨
      (∃ e, jlLine ⟨genTables, ext⟩ ti to line = .ok ([], some e)) ∨
      jlLine ⟨genTables, ext⟩ ti to line = .err .ext := by
  cases h : jlLine ⟨genTables, ext⟩ ti to line with
  | ok be =>
    obtain ⟨b, e⟩ := be
    cases e with
    | none =>
      obtain ⟨_, _, body, _, _, _, rfl⟩ := Order.jlLine_ok _ ti to line b h
      exact .inl ⟨body, rfl⟩
    | some e =>
      rw [jlLine_error_writes_nothing _ ti to line b e h]
      exact .inr (.inl ⟨e, rfl⟩)
  | err e =>
    rw [jlLine_err _ ti to line e h]
    exact .inr (.inr rfl)
  | panic s => exact absurd h (NoPanic.jlLine_no_panic ext ti to line s)

theorem gen_jlLine_rejected (ext : Ext) (ti to : Tmpl) (line : Bytes)
    (h : ¬ (Grammar.IsObjectText line ∧ ConvertsAll ⟨genTables, ext⟩ ti line = true ∧
      RendersAll ⟨genTables, ext⟩ to (importedRow ⟨genTables, ext⟩ ti line) = true)) :
    (∃ e, jlLine ⟨genTables, ext⟩ ti to line = .ok ([], some e)) ∨
      jlLine ⟨genTables, ext⟩ ti to line = .err .ext := by
  rcases gen_jlLine_cases ext ti to line with ⟨body, h1⟩ | h1
  · exact absurd ((jlLine_accepts_iff _ ti to line).1 ⟨_, h1⟩) h
  · exact h1

/-- A line the importer rejects reaches the writer with the importer's error and no bytes. -/
theorem jlLine_of_getRow_error (env : Env) (ti to : Tmpl) (line : Bytes) (r : Row) (e : ErrClass)
    (h : getRow env ti line = .ok (r, some e)) : jlLine env ti to line = .ok ([], some e) := by
  simp only [jlLine, h]

/-! ### 9. Target 4: non-vacuity — five lines under a numeric(int8) column `n`

  Evaluated over the regenerated tables and `Ext.empty`: `{"n":127}` accepted, `{"n":128}` rejected
  (`ConvertsAll` false: the import fails with `ErrUnsupportedImportType`), `{"n":1} x` rejected (not
  an object text — although its one delivered member converts), ` {"n":1} ` accepted,
  `{"m":{"x":[1,2]},"n":null}` accepted.  For each: `IsObjectText`, `ConvertsAll`, the row and
  error `GetRow` returns, and what `jlLine` hands to the writer with the same template on the
  exporter side. -/
namespace Demo

def env : Env := ⟨genTables, Ext.empty⟩
def ti : Tmpl := withCol [] [0x6E] .numeric (.int .i8)

theorem ti_eq : ti = [([0x6E], .cell .nil .numeric (.int .i8))] := rfl
theorem ti_nodup : (OMap.keys ti).Nodup := by rw [ti_eq]; decide
theorem ti_proto : Proto ti := proto_withCol proto_nil _ _ _

theorem parse127 : IntText.parseInt0 [0x31, 0x32, 0x37] 8 = some 127 := by decide
theorem parse128 : IntText.parseInt0 [0x31, 0x32, 0x38] 8 = none := by decide
theorem parse1 : IntText.parseInt0 [0x31] 8 = some 1 := by decide
theorem wrap127 : IntTy.i8.wrap 127 = 127 := by decide
theorem wrap1 : IntTy.i8.wrap 1 = 1 := by decide

theorem import_127 : importCell env .numeric (.int .i8) (.num [0x31, 0x32, 0x37]) =
    .ok (.cell (.int .i8 127) .numeric (.int .i8), none) := by
  simp [env, importCell, importByFormat, importFrom, importFail, castTo, callNamed, genTables, Gen.dispatchTo, Gen.casters,
    findClause, typeOf, evalBranch, evalE, runParse, parse127, wrap127]
theorem import_1 : importCell env .numeric (.int .i8) (.num [0x31]) =
    .ok (.cell (.int .i8 1) .numeric (.int .i8), none) := by
  simp [env, importCell, importByFormat, importFrom, importFail, castTo, callNamed, genTables, Gen.dispatchTo, Gen.casters,
    findClause, typeOf, evalBranch, evalE, runParse, parse1, wrap1]
theorem import_128 : importCell env .numeric (.int .i8) (.num [0x31, 0x32, 0x38]) =
    .ok (.cell .nil .numeric (.int .i8), some .unsupportedImport) := by
  simp [env, importCell, importByFormat, importFrom, importFail, castTo, callNamed, genTables, Gen.dispatchTo, Gen.casters,
    findClause, typeOf, evalBranch, evalE, runParse, parse128, failWith, Gen.sentinels, wrapsRoot]

theorem clone_ti : cloneRow env [([0x6E], .cell .nil .numeric (.int .i8))] =
    .ok [([0x6E], .cell .nil .numeric (.int .i8))] :=
  gen_cloneRow_proto _ ti ti_nodup ti_proto

/-- `{"n":127}` -/
def line127 : Bytes := [0x7B, 0x22, 0x6E, 0x22, 0x3A, 0x31, 0x32, 0x37, 0x7D]
/-- `{"n":128}` -/
def line128 : Bytes := [0x7B, 0x22, 0x6E, 0x22, 0x3A, 0x31, 0x32, 0x38, 0x7D]
/-- `{"n":1} x` -/
def lineTrail : Bytes := [0x7B, 0x22, 0x6E, 0x22, 0x3A, 0x31, 0x7D, 0x20, 0x78]
/-- ` {"n":1} ` -/
def lineWs : Bytes := [0x20, 0x7B, 0x22, 0x6E, 0x22, 0x3A, 0x31, 0x7D, 0x20]
/-- `{"m":{"x":[1,2]},"n":null}` -/
def lineNested : Bytes :=
  [0x7B, 0x22, 0x6D, 0x22, 0x3A, 0x7B, 0x22, 0x78, 0x22, 0x3A, 0x5B, 0x31, 0x2C, 0x32, 0x5D, 0x7D, 0x2C,
   0x22, 0x6E, 0x22, 0x3A, 0x6E, 0x75, 0x6C, 0x6C, 0x7D]

open Json in
theorem unmarshal_127 : Json.unmarshal line127 = (.cons [0x6E] (.num [0x31, 0x32, 0x37]) .nil, true) := by
  simp [line127, unmarshal, token, tokenCore, skipSpace, isSpace, asClose, parseObject, more, asKey,
    asTok, strBody, pre, handleDelim, scanScalar, scanNumber, scanInt, scanFracExp, digits, isDigit,
    valueAllowed, valueEnd, isEof]
open Json in
theorem unmarshal_128 : Json.unmarshal line128 = (.cons [0x6E] (.num [0x31, 0x32, 0x38]) .nil, true) := by
  simp [line128, unmarshal, token, tokenCore, skipSpace, isSpace, asClose, parseObject, more, asKey,
    asTok, strBody, pre, handleDelim, scanScalar, scanNumber, scanInt, scanFracExp, digits, isDigit,
    valueAllowed, valueEnd, isEof]
open Json in
theorem unmarshal_trail : Json.unmarshal lineTrail = (.cons [0x6E] (.num [0x31]) .nil, false) := by
  simp [lineTrail, unmarshal, token, tokenCore, skipSpace, isSpace, asClose, parseObject, more, asKey,
    asTok, strBody, pre, handleDelim, scanScalar, scanNumber, scanInt, scanFracExp, digits, isDigit,
    valueAllowed, valueEnd, isEof]
open Json in
theorem unmarshal_ws : Json.unmarshal lineWs = (.cons [0x6E] (.num [0x31]) .nil, true) := by
  simp [lineWs, unmarshal, token, tokenCore, skipSpace, isSpace, asClose, parseObject, more, asKey,
    asTok, strBody, pre, handleDelim, scanScalar, scanNumber, scanInt, scanFracExp, digits, isDigit,
    valueAllowed, valueEnd, isEof]
open Json in
theorem unmarshal_nested : Json.unmarshal lineNested =
    (.cons [0x6D] (.obj (.cons [0x78] (.arr (.cons (.num [0x31]) (.cons (.num [0x32]) .nil))) .nil))
      (.cons [0x6E] .null .nil), true) := by
  simp [lineNested, unmarshal, token, tokenCore, skipSpace, isSpace, asClose, parseObject, parseArray, more, asKey,
    asTok, strBody, pre, handleDelim, scanScalar, scanNumber, scanInt, scanFracExp, digits, isDigit,
    valueAllowed, valueEnd, isEof, stripPrefix]


/-! the five lines -/

theorem objectText_127 : Grammar.IsObjectText line127 :=
  (JsonAcc.accepts_iff _).1 (by simp [Json.accepts, unmarshal_127])

theorem converts_127 : ConvertsAll env ti line127 = true := by
  simp [ConvertsAll, clone_ti, unmarshal_127, ofJVMembers, ofJV, convertsFrom, memberImport, ti_eq,
    lookup, OMap.lookup, Cells.format, Cells.rawType, import_127]

theorem getRow_127 : getRow env ti line127 =
    .ok ([([0x6E], .cell (.int .i8 127) .numeric (.int .i8))], none) := by
  simp [getRow, createRowEmpty, clone_ti, unmarshalInto, unmarshal_127, ofJVMembers, ofJV,
    parseMembers, parseMember, importVal, importInto, ti_eq, lookup, OMap.lookup, upsert,
    OMap.upsert, import_127]

example : ∃ r, getRow env ti line127 = .ok (r, none) :=
  (getRow_accepts_iff env ti line127).2 ⟨objectText_127, converts_127⟩

theorem objectText_128 : Grammar.IsObjectText line128 :=
  (JsonAcc.accepts_iff _).1 (by simp [Json.accepts, unmarshal_128])

theorem converts_128 : ConvertsAll env ti line128 = false := by
  simp [ConvertsAll, clone_ti, unmarshal_128, ofJVMembers, ofJV, convertsFrom, memberImport, ti_eq,
    lookup, OMap.lookup, Cells.format, Cells.rawType, import_128]

theorem getRow_128 : getRow env ti line128 =
    .ok ([([0x6E], .cell .nil .numeric (.int .i8))], some .unsupportedImport) := by
  simp [getRow, createRowEmpty, clone_ti, unmarshalInto, unmarshal_128, ofJVMembers, ofJV,
    parseMembers, parseMember, importVal, importInto, ti_eq, lookup, OMap.lookup, upsert,
    OMap.upsert, import_128]

example : ¬ ∃ r, getRow env ti line128 = .ok (r, none) := by
  rw [getRow_accepts_iff, converts_128]; simp

theorem not_objectText_trail : ¬ Grammar.IsObjectText lineTrail :=
  (JsonAcc.rejects_iff _).1 (by simp [Json.accepts, unmarshal_trail])

theorem converts_trail : ConvertsAll env ti lineTrail = true := by
  simp [ConvertsAll, clone_ti, unmarshal_trail, ofJVMembers, ofJV, convertsFrom, memberImport, ti_eq,
    lookup, OMap.lookup, Cells.format, Cells.rawType, import_1]

theorem getRow_trail : getRow env ti lineTrail =
    .ok ([([0x6E], .cell (.int .i8 1) .numeric (.int .i8))], some .syntax) := by
  simp [getRow, createRowEmpty, clone_ti, unmarshalInto, unmarshal_trail, ofJVMembers, ofJV,
    parseMembers, parseMember, importVal, importInto, ti_eq, lookup, OMap.lookup, upsert,
    OMap.upsert, import_1]

theorem objectText_ws : Grammar.IsObjectText lineWs :=
  (JsonAcc.accepts_iff _).1 (by simp [Json.accepts, unmarshal_ws])

theorem converts_ws : ConvertsAll env ti lineWs = true := by
  simp [ConvertsAll, clone_ti, unmarshal_ws, ofJVMembers, ofJV, convertsFrom, memberImport, ti_eq,
    lookup, OMap.lookup, Cells.format, Cells.rawType, import_1]

theorem getRow_ws : getRow env ti lineWs =
    .ok ([([0x6E], .cell (.int .i8 1) .numeric (.int .i8))], none) := by
  simp [getRow, createRowEmpty, clone_ti, unmarshalInto, unmarshal_ws, ofJVMembers, ofJV,
    parseMembers, parseMember, importVal, importInto, ti_eq, lookup, OMap.lookup, upsert,
    OMap.upsert, import_1]

theorem objectText_nested : Grammar.IsObjectText lineNested :=
  (JsonAcc.accepts_iff _).1 (by simp [Json.accepts, unmarshal_nested])

def nestedVal : Dyn :=
  .val (.row (.cons [0x78] (.cell (.arr (.cons (.num [0x31]) (.cons (.num [0x32]) .nil))) .auto .none) .nil))

theorem ofJV_nested : ofJVMembers env
      (.cons [0x6D] (.obj (.cons [0x78] (.arr (.cons (.num [0x31]) (.cons (.num [0x32]) .nil))) .nil))
        (.cons [0x6E] .null .nil)) =
    .ok [([0x6D], nestedVal), ([0x6E], .nil)] := by
  simp [ofJVMembers, ofJV, ofJVList, parseMembers, parseMember, lookup, OMap.lookup,
    upsert, OMap.upsert, Cells.autoCell, DynList.ofList, Members.ofList, nestedVal]

theorem converts_nested : ConvertsAll env ti lineNested = true := by
  simp [ConvertsAll, clone_ti, unmarshal_nested, ofJV_nested, convertsFrom, memberImport, ti_eq,
    lookup, OMap.lookup, upsert, OMap.upsert, Cells.format, Cells.rawType, Cells.autoCell, importCell]

theorem getRow_nested : getRow env ti lineNested =
    .ok ([([0x6E], .cell .nil .numeric (.int .i8)), ([0x6D], .cell nestedVal .auto .none)], none) := by
  simp [getRow, createRowEmpty, clone_ti, unmarshalInto, ofJV_nested, unmarshal_nested,
    parseMembers, parseMember, importVal, importInto, ti_eq, lookup, OMap.lookup, upsert,
    OMap.upsert, importCell, Cells.autoCell]


/-! through the exporter, same template on both sides -/

theorem newValue_int (v : Int) :
    newValue env (.int .i8 v) .numeric (.int .i8) = .ok (.cell (.int .i8 v) .numeric (.int .i8)) := by
  simp [env, newValue, castTo, callNamed, genTables, Gen.dispatchTo, Gen.casters, findClause, typeOf,
    evalBranch, evalE]

theorem newValue_nil' : newValue env .nil .numeric (.int .i8) = .ok (.cell .nil .numeric (.int .i8)) :=
  gen_newValue_nil _ _ _

theorem fmt127 : IntText.formatInt 127 = [0x31, 0x32, 0x37] := by
  simp [IntText.formatInt, IntText.natDigits, IntText.digitChar]
theorem fmt1 : IntText.formatInt 1 = [0x31] := by
  simp [IntText.formatInt, IntText.natDigits, IntText.digitChar]

theorem marshal_127 : RowPrint.marshalVal env (.cell (.int .i8 127) .numeric (.int .i8)) =
    .ok [0x31, 0x32, 0x37] := by
  have n1 : JsonWrite.isValidNumber [0x31, 0x32, 0x37] = true := by decide
  have w127 : IntTy.i64.wrap 127 = 127 := by decide
  simp [env, RowPrint.marshalVal, exportVal, exportFail, castNamed, callNamed, genTables, Gen.casters, findClause,
    typeOf, evalBranch, evalE, w127, fmt127, RowPrint.marshalExported, n1]


theorem marshal_1 : RowPrint.marshalVal env (.cell (.int .i8 1) .numeric (.int .i8)) = .ok [0x31] := by
  have n1 : JsonWrite.isValidNumber [0x31] = true := by decide
  have w1 : IntTy.i64.wrap 1 = 1 := by decide
  simp [env, RowPrint.marshalVal, exportVal, exportFail, castNamed, callNamed, genTables, Gen.casters, findClause,
    typeOf, evalBranch, evalE, w1, fmt1, RowPrint.marshalExported, n1]

theorem marshal_nil : RowPrint.marshalVal env (.cell .nil .numeric (.int .i8)) = .ok RowPrint.null := by
  simp [RowPrint.marshalVal, exportVal, RowPrint.marshalExported]

theorem quote_n : JsonWrite.quote [0x6E] = [0x22, 0x6E, 0x22] := by
  simp [JsonWrite.quote, JsonWrite.quoteBody, JsonWrite.htmlSafe]

theorem jlLine_127 : jlLine env ti ti line127 = .ok (line127 ++ [0x0A], none) := by
  simp only [jlLine, getRow_127]
  simp [exportLine, createRow, ti_eq, clone_ti, fillPairs, fill, lookup, OMap.lookup,
    upsert, OMap.upsert, Cells.raw, Cells.format, Cells.rawType, newValue_int, Members.ofList,
    Members.toList, RowPrint.marshalRow, RowPrint.marshalVal, RowPrint.marshalMembers, marshal_127,
    quote_n, RowPrint.joinComma, line127]


theorem jlLine_128 : jlLine env ti ti line128 = .ok ([], some .unsupportedImport) :=
  jlLine_of_getRow_error env ti ti line128 _ _ getRow_128

theorem jlLine_trail : jlLine env ti ti lineTrail = .ok ([], some .syntax) :=
  jlLine_of_getRow_error env ti ti lineTrail _ _ getRow_trail

/-- ` {"n":1} ` comes out as `{"n":1}` and a newline. -/
theorem jlLine_ws : jlLine env ti ti lineWs =
    .ok ([0x7B, 0x22, 0x6E, 0x22, 0x3A, 0x31, 0x7D, 0x0A], none) := by
  simp only [jlLine, getRow_ws]
  simp [exportLine, createRow, ti_eq, clone_ti, fillPairs, fill, lookup, OMap.lookup,
    upsert, OMap.upsert, Cells.raw, Cells.format, Cells.rawType, newValue_int, Members.ofList,
    Members.toList, RowPrint.marshalRow, RowPrint.marshalVal, RowPrint.marshalMembers, marshal_1,
    quote_n, RowPrint.joinComma]

theorem quote_m : JsonWrite.quote [0x6D] = [0x22, 0x6D, 0x22] := by
  simp [JsonWrite.quote, JsonWrite.quoteBody, JsonWrite.htmlSafe]
theorem quote_x : JsonWrite.quote [0x78] = [0x22, 0x78, 0x22] := by
  simp [JsonWrite.quote, JsonWrite.quoteBody, JsonWrite.htmlSafe]

theorem marshalDyn_num1 : RowPrint.marshalDyn env (.num [0x31]) = .ok [0x31] := by
  have n1 : JsonWrite.isValidNumber [0x31] = true := by decide
  rw [RowPrint.marshalDyn.eq_def]; simp [n1]
theorem marshalDyn_num2 : RowPrint.marshalDyn env (.num [0x32]) = .ok [0x32] := by
  have n1 : JsonWrite.isValidNumber [0x32] = true := by decide
  rw [RowPrint.marshalDyn.eq_def]; simp [n1]
theorem marshalDyn_arr :
    RowPrint.marshalDyn env (.arr (.cons (.num [0x31]) (.cons (.num [0x32]) .nil))) =
      .ok [0x5B, 0x31, 0x2C, 0x32, 0x5D] := by
  rw [RowPrint.marshalDyn.eq_def]; simp only
  rw [RowPrint.marshalList.eq_def]; simp only [marshalDyn_num1]
  rw [RowPrint.marshalList.eq_def]; simp only [marshalDyn_num2]
  rw [RowPrint.marshalList.eq_def]; simp [RowPrint.joinComma]

theorem marshal_nested : RowPrint.marshalVal env (.cell nestedVal .auto .none) =
    .ok [0x7B, 0x22, 0x78, 0x22, 0x3A, 0x5B, 0x31, 0x2C, 0x32, 0x5D, 0x7D] := by
  rw [JsonPrint.marshalVal_auto, nestedVal, RowPrint.marshalDyn.eq_def]
  simp only
  rw [RowPrint.marshalVal.eq_def]
  simp only
  rw [JsonPrint.marshalMembers_cons env _ _ _ (by simp [Cells.format])
    (by rw [JsonPrint.marshalVal_auto]; exact marshalDyn_arr) (JsonPrint.marshalMembers_nil env)]
  simp [quote_x, RowPrint.joinComma]

/-- `{"m":{"x":[1,2]},"n":null}` comes out as `{"n":null,"m":{"x":[1,2]}}` and a newline: the
    declared column first, the nested object kept as it is. -/
theorem jlLine_nested : jlLine env ti ti lineNested =
    .ok ([0x7B, 0x22, 0x6E, 0x22, 0x3A, 0x6E, 0x75, 0x6C, 0x6C, 0x2C, 0x22, 0x6D, 0x22, 0x3A,
      0x7B, 0x22, 0x78, 0x22, 0x3A, 0x5B, 0x31, 0x2C, 0x32, 0x5D, 0x7D, 0x7D, 0x0A], none) := by
  simp only [jlLine, getRow_nested]
  simp [exportLine, createRow, ti_eq, clone_ti, fillPairs, fill, lookup, OMap.lookup,
    upsert, OMap.upsert, Cells.raw, Cells.format, Cells.rawType, Cells.autoCell, newValue_nil',
    Members.ofList, Members.toList, RowPrint.marshalRow, RowPrint.marshalVal, RowPrint.marshalMembers,
    marshal_nil, marshal_nested, quote_n, quote_m, RowPrint.joinComma, RowPrint.null]

/-! the theorems applied to these lines -/

example : Grammar.IsObjectText line127 ∧ ConvertsAll env ti line127 = true ∧
    RendersAll env ti (importedRow env ti line127) = true :=
  (jlLine_accepts_iff env ti ti line127).1 ⟨_, jlLine_127⟩

example : RendersAll env ti (importedRow env ti lineNested) = true :=
  ((jlLine_accepts_iff env ti ti lineNested).1 ⟨_, jlLine_nested⟩).2.2

example : ¬ ∃ b, jlLine env ti ti line128 = .ok (b, none) := by
  rw [jlLine_accepts_iff, converts_128]; simp

example : ¬ ∃ b, jlLine env ti ti lineTrail = .ok (b, none) := by
  rw [jlLine_accepts_iff]; exact fun h => not_objectText_trail h.1

/-- `firstError` names the failing import of `{"n":128}`. -/
example : firstError env ti (dynMembers Ext.empty (Json.unmarshal line128).1) =
    .ok (some .unsupportedImport) := by
  simp [unmarshal_128, dynMembers, JVMembers.toList, dynOf, ofJV, firstError, memberImport, ti_eq,
    lookup, OMap.lookup, Cells.format, Cells.rawType, import_128]

end Demo

end Jl.LineAccept
